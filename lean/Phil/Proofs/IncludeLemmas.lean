/-
  Phil.Proofs.IncludeLemmas — lemmas about include processing (Phil/Include.lean) for property C13:
  one-step unfolding of `processIncludes`, refusal of a file already being expanded, adequacy of the
  fuel `fs.length + 1`, identity on include-free object lists, the diamond, path resolution, and the
  soundness/completeness of the cycle error with respect to the include graph.
-/
import Phil.Include
set_option linter.unusedVariables false
namespace Phil

/-! ### one-step unfolding -/

/-- what a single object contributes to the processed list (the `here` of `processIncludes`) -/
def includeHere (fs : FS) (fuel : Nat) (refdir : Path) (stack : List Path) (o : Obj) : R (List Obj) :=
  if o.meta.disabled then .ok [o] else
  match o with
  | .defn m ws =>
    if m.name != "include".toList then .ok [o]
    else if containsDollar ws then .error (.unsupported "variable in include")
    else if ws.length < 2 then .error (.runtime "include_two_arguments" m.line)
    else
      let ty := lower (ws.headD default).value
      if ty == "file".toList then
        if ws.length != 2 then .error (.runtime "include_file_one_argument" m.line)
        else
          match fuel with
          | 0 => .error .outOfFuel
          | f + 1 => expandFile fs (f + 1) (resolvePath refdir (ws.getD 1 default).value) stack
      else if ty == "scope".toList then .error (.unsupported "include scope")
      else .error (.runtime "unknown_include_type" m.line)
  | .scope m kids =>
    (processIncludes fs fuel refdir stack kids).map (fun ks => [Obj.scope { m with tmpl := 0 } ks])

theorem processIncludes_nil (fs : FS) (fuel : Nat) (refdir : Path) (stack : List Path) :
    processIncludes fs fuel refdir stack [] = .ok [] := by
  rw [processIncludes.eq_def]

theorem processIncludes_cons (fs : FS) (fuel : Nat) (refdir : Path) (stack : List Path)
    (o : Obj) (rest : List Obj) :
    processIncludes fs fuel refdir stack (o :: rest) =
      match includeHere fs fuel refdir stack o with
      | .error e => .error e
      | .ok l => (processIncludes fs fuel refdir stack rest).map (fun r => l ++ r) := by
  rw [processIncludes.eq_def]
  rfl

theorem expandFile_zero (fs : FS) (path : Path) (stack : List Path) :
    expandFile fs 0 path stack = .error .outOfFuel := by
  rw [expandFile.eq_def]

theorem expandFile_succ (fs : FS) (fuel : Nat) (path : Path) (stack : List Path) :
    expandFile fs (fuel + 1) path stack =
      match fs.read path with
      | none => .error (.stray "FileNotFoundError" "open")
      | some text =>
        match parseObjs text with
        | .error e => .error e
        | .ok objs =>
          if stack.contains path then .error (.runtime "include_cycle" none)
          else processIncludes fs fuel path.dropLast (stack ++ [path]) objs :=
  expandFile.eq_2 fs path stack fuel

theorem Except.map_eq_error {ε α β : Type} (f : α → β) (x : Except ε α) (e : ε) :
    Except.map f x = .error e ↔ x = .error e := by
  cases x <;> simp [Except.map]

theorem Except.map_eq_ok {ε α β : Type} (f : α → β) (x : Except ε α) (b : β) :
    Except.map f x = .ok b ↔ ∃ a, x = .ok a ∧ f a = b := by
  cases x <;> simp [Except.map]

/-! ### 1. a file already being expanded is refused -/

theorem cycle_refused (fs : FS) (fuel : Nat) (path : Path) (stack : List Path) (text : Str)
    (objs : List Obj) (hin : path ∈ stack) (hread : fs.read path = some text)
    (hparse : parseObjs text = .ok objs) :
    expandFile fs (fuel + 1) path stack = .error (.runtime "include_cycle" none) := by
  have hc : stack.contains path = true := List.contains_iff_mem.mpr hin
  rw [expandFile_succ]
  simp only [hread, hparse, hc, ↓reduceIte]

/-- a file that is not being expanded is processed with itself pushed on the stack and its own
    directory as reference directory -/
theorem expandFile_fresh (fs : FS) (fuel : Nat) (path : Path) (stack : List Path) (text : Str)
    (objs : List Obj) (hin : path ∉ stack) (hread : fs.read path = some text)
    (hparse : parseObjs text = .ok objs) :
    expandFile fs (fuel + 1) path stack
      = processIncludes fs fuel path.dropLast (stack ++ [path]) objs := by
  rw [expandFile_succ]
  simp [hread, hparse, hin]

/-! ### 2. fuel adequacy -/

/-- the file names of a file system -/
def FS.keys (fs : FS) : List Path := fs.map (·.1)

/-- the number of distinct file names -/
def FS.numFiles (fs : FS) : Nat := fs.keys.eraseDups.length

theorem FS.read_some_mem {fs : FS} {p : Path} {t : Str} (h : fs.read p = some t) : (p, t) ∈ fs := by
  unfold FS.read at h
  cases hf : fs.find? (·.1 == p) with
  | none => simp [hf] at h
  | some pt =>
    simp [hf] at h
    have h1 := List.find?_some hf
    have h2 := List.mem_of_find?_eq_some hf
    have : pt.1 = p := by simpa using h1
    have e : pt = (p, t) := by
      cases pt; simp_all
    rw [← e]; exact h2

theorem FS.read_some_key {fs : FS} {p : Path} {t : Str} (h : fs.read p = some t) : p ∈ fs.keys := by
  have := FS.read_some_mem h
  exact List.mem_map.mpr ⟨(p, t), this, rfl⟩

/-- **counting lemma**: a duplicate-free list whose elements all lie in `k` is no longer than `k` -/
theorem nodup_subset_length_le {α : Type} [BEq α] [LawfulBEq α] :
    ∀ (l k : List α), l.Nodup → (∀ x ∈ l, x ∈ k) → l.length ≤ k.length := by
  intro l
  induction l with
  | nil => intro k _ _; simp
  | cons x l ih =>
    intro k hnd hsub
    have hx : x ∈ k := hsub x (by simp)
    have ⟨hxl, hndl⟩ := List.nodup_cons.mp hnd
    have hsub' : ∀ y ∈ l, y ∈ k.erase x := by
      intro y hy
      have hne : y ≠ x := fun e => hxl (e ▸ hy)
      exact (List.mem_erase_of_ne hne).mpr (hsub y (by simp [hy]))
    have := ih (k.erase x) hndl hsub'
    rw [List.length_erase_of_mem hx] at this
    have hpos : 0 < k.length := List.length_pos_of_mem hx
    simp only [List.length_cons]
    omega

/-- a duplicate-free list of file names of `fs` has at most `numFiles` elements -/
theorem stack_length_le_numFiles (fs : FS) (stack : List Path) (hnd : stack.Nodup)
    (hsub : ∀ p ∈ stack, p ∈ fs.keys) : stack.length ≤ fs.numFiles := by
  unfold FS.numFiles
  apply nodup_subset_length_le _ _ hnd
  intro p hp
  exact List.mem_eraseDups.mpr (hsub p hp)

/-- no file of `fs` exhausts the fuel of the *parser* (`parseObjs` uses its own fuel) -/
def ParseFuelOK (fs : FS) : Prop := ∀ pt ∈ fs, parseObjs pt.2 ≠ .error .outOfFuel

/-- if `expandFile` cannot run out of fuel at this fuel and stack, neither can `processIncludes` -/
theorem processIncludes_fuel_of_expandFile (fs : FS) (fuel : Nat) (refdir : Path) (stack : List Path)
    (hP : ∀ path, expandFile fs fuel path stack ≠ .error .outOfFuel) (objs : List Obj) :
    processIncludes fs fuel refdir stack objs ≠ .error .outOfFuel := by
  have hfuel : fuel ≠ 0 := by
    intro h; subst h; exact hP [] (expandFile_zero _ _ _)
  induction objs using Obj.rec_1
    (motive_1 := fun o => includeHere fs fuel refdir stack o ≠ .error .outOfFuel) with
  | defn m ws =>
    unfold includeHere
    cases fuel with
    | zero => exact absurd rfl hfuel
    | succ f =>
      have := hP (resolvePath refdir (ws.getD 1 default).value)
      simp only
      split
      · simp
      · split <;> (try split) <;> (try split) <;> (try split) <;> (try split) <;> (try split) <;> simp_all
  | scope m kids ih =>
    unfold includeHere
    split
    · simp
    · simp only
      intro h
      exact ih ((Except.map_eq_error _ _ _).mp h)
  | nil => rw [processIncludes_nil]; simp
  | cons o rest iho ihr =>
    rw [processIncludes_cons]
    cases hh : includeHere fs fuel refdir stack o with
    | error e =>
      simp only
      intro h
      rw [hh] at iho
      exact iho h
    | ok l =>
      simp only
      intro h
      exact ihr ((Except.map_eq_error _ _ _).mp h)

/-- **fuel adequacy for `expandFile`** -/
theorem expandFile_ne_outOfFuel (fs : FS) (hpf : ParseFuelOK fs) :
    ∀ (fuel : Nat) (path : Path) (stack : List Path), stack.Nodup → (∀ p ∈ stack, p ∈ fs.keys) →
      fs.numFiles + 1 ≤ fuel + stack.length →
      expandFile fs fuel path stack ≠ .error .outOfFuel := by
  intro fuel
  induction fuel with
  | zero =>
    intro path stack hnd hsub hb
    have := stack_length_le_numFiles fs stack hnd hsub
    omega
  | succ f ih =>
    intro path stack hnd hsub hb
    rw [expandFile_succ]
    cases hr : fs.read path with
    | none => simp
    | some text =>
      simp only
      cases hp : parseObjs text with
      | error e =>
        simp only
        intro h
        have := hpf _ (FS.read_some_mem hr)
        simp only at this
        rw [hp] at this
        exact this h
      | ok objs =>
        simp only
        cases hc : stack.contains path with
        | true => simp
        | false =>
          simp only [Bool.false_eq_true, ↓reduceIte]
          have hnin : path ∉ stack := fun h => by
            have := List.contains_iff_mem.mpr h
            rw [hc] at this; cases this
          apply processIncludes_fuel_of_expandFile
          intro p
          apply ih
          · rw [List.nodup_append]
            refine ⟨hnd, by simp, ?_⟩
            intro a ha b hb' e
            simp at hb'
            subst hb'
            exact hnin (e ▸ ha)
          · intro q hq
            rcases List.mem_append.mp hq with h | h
            · exact hsub q h
            · simp at h; subst h; exact FS.read_some_key hr
          · simp only [List.length_append, List.length_cons, List.length_nil]
            omega

/-- **fuel adequacy for `processIncludes`** (same bound: the step into a file costs one unit of
    fuel and pushes one file on the stack) -/
theorem processIncludes_ne_outOfFuel (fs : FS) (hpf : ParseFuelOK fs) (fuel : Nat) (refdir : Path)
    (stack : List Path) (objs : List Obj) (hnd : stack.Nodup) (hsub : ∀ p ∈ stack, p ∈ fs.keys)
    (hb : fs.numFiles + 1 ≤ fuel + stack.length) :
    processIncludes fs fuel refdir stack objs ≠ .error .outOfFuel :=
  processIncludes_fuel_of_expandFile fs fuel refdir stack
    (fun p => expandFile_ne_outOfFuel fs hpf fuel p stack hnd hsub hb) objs

theorem length_eraseDups_le {α : Type} [BEq α] [LawfulBEq α] (l : List α) :
    l.eraseDups.length ≤ l.length := by
  suffices h : ∀ n (l : List α), l.length ≤ n → l.eraseDups.length ≤ l.length from h _ l (Nat.le_refl _)
  intro n
  induction n with
  | zero =>
    intro l hl
    have : l = [] := List.eq_nil_of_length_eq_zero (by omega)
    subst this; simp
  | succ n ih =>
    intro l hl
    cases l with
    | nil => simp
    | cons a as =>
      rw [List.eraseDups_cons]
      have h1 := List.length_filter_le (fun b => !b == a) as
      simp only [List.length_cons] at hl ⊢
      have := ih (as.filter (fun b => !b == a)) (by omega)
      omega

theorem FS.numFiles_le_length (fs : FS) : fs.numFiles ≤ fs.length := by
  unfold FS.numFiles FS.keys
  have := length_eraseDups_le (fs.map (·.1))
  simpa using this

/-- `expand` never runs out of include fuel -/
theorem expand_ne_outOfFuel (fs : FS) (hpf : ParseFuelOK fs) (root : Path) :
    expand fs root ≠ .error .outOfFuel := by
  unfold expand
  apply expandFile_ne_outOfFuel fs hpf
  · exact List.nodup_nil
  · intro p hp; cases hp
  · have := FS.numFiles_le_length fs
    simp only [List.length_nil]
    omega

/-! ### 3. include-free object lists are kept (up to `tmpl` of enabled scopes) -/

mutual
/-- the object is not an enabled definition named `include` and contains none inside enabled
    scopes (a disabled object is kept verbatim by `processIncludes`, so it counts as include-free) -/
def NoIncludeObj : Obj → Bool
  | .defn m _ => m.disabled || m.name != "include".toList
  | .scope m kids => m.disabled || NoInclude kids
def NoInclude : List Obj → Bool
  | [] => true
  | o :: os => NoIncludeObj o && NoInclude os
end

mutual
/-- what `processIncludes` does to an include-free object: every enabled scope is rebuilt with
    `tmpl = 0` (Python: `self.customized_copy(objects=…)` resets `is_template`), disabled objects
    and definitions are kept verbatim -/
def resetTmplObj : Obj → Obj
  | .defn m ws => .defn m ws
  | .scope m kids => if m.disabled then .scope m kids else .scope { m with tmpl := 0 } (resetTmpl kids)
def resetTmpl : List Obj → List Obj
  | [] => []
  | o :: os => resetTmplObj o :: resetTmpl os
end

mutual
/-- every enabled scope reachable through enabled scopes has `tmpl = 0` (true of parser output) -/
def TmplZeroObj : Obj → Bool
  | .defn _ _ => true
  | .scope m kids => m.disabled || (m.tmpl == 0 && AllTmplZero kids)
def AllTmplZero : List Obj → Bool
  | [] => true
  | o :: os => TmplZeroObj o && AllTmplZero os
end

theorem resetTmpl_id (objs : List Obj) : AllTmplZero objs = true → resetTmpl objs = objs := by
  induction objs using Obj.rec_1
    (motive_1 := fun o => TmplZeroObj o = true → resetTmplObj o = o) with
  | defn m ws => simp [resetTmplObj]
  | scope m kids ih =>
    rename_i h
    simp only [TmplZeroObj, Bool.or_eq_true, Bool.and_eq_true, beq_iff_eq] at h
    simp only [resetTmplObj]
    split
    · rfl
    · rename_i hd
      rcases h with h | ⟨h0, hk⟩
      · exact absurd h hd
      · rw [ih hk]
        cases m
        simp_all
  | nil => intro _; simp [resetTmpl]
  | cons o rest iho ihr =>
    intro h
    simp only [AllTmplZero, Bool.and_eq_true] at h
    simp [resetTmpl, iho h.1, ihr h.2]

theorem no_include_identity (fs : FS) (fuel : Nat) (refdir : Path) (stack : List Path)
    (objs : List Obj) :
    NoInclude objs = true → processIncludes fs fuel refdir stack objs = .ok (resetTmpl objs) := by
  induction objs using Obj.rec_1
    (motive_1 := fun o => NoIncludeObj o = true →
      includeHere fs fuel refdir stack o = .ok [resetTmplObj o]) with
  | defn m ws =>
    rename_i h
    simp only [NoIncludeObj, Bool.or_eq_true] at h
    unfold includeHere
    simp only [Obj.meta, resetTmplObj]
    rcases h with h | h
    · simp [h]
    · simp only [h, ↓reduceIte, ite_self]
  | scope m kids ih =>
    rename_i h
    simp only [NoIncludeObj, Bool.or_eq_true] at h
    unfold includeHere
    simp only [Obj.meta, resetTmplObj]
    by_cases hd : m.disabled = true
    · simp only [hd, ↓reduceIte]
    · simp only [hd]
      rcases h with h | h
      · exact absurd h hd
      · rw [ih h]; rfl
  | nil => intro _; rw [processIncludes_nil]; rfl
  | cons o rest iho ihr =>
    intro h
    simp only [NoInclude, Bool.and_eq_true] at h
    rw [processIncludes_cons, iho h.1, ihr h.2]
    rfl

theorem no_include_identity' (fs : FS) (fuel : Nat) (refdir : Path) (stack : List Path)
    (objs : List Obj) (hn : NoInclude objs = true) (hz : AllTmplZero objs = true) :
    processIncludes fs fuel refdir stack objs = .ok objs := by
  rw [no_include_identity fs fuel refdir stack objs hn, resetTmpl_id objs hz]

/-- processing distributes over concatenation: textual inlining is compositional -/
theorem processIncludes_append (fs : FS) (fuel : Nat) (refdir : Path) (stack : List Path)
    (a b : List Obj) :
    processIncludes fs fuel refdir stack (a ++ b) =
      match processIncludes fs fuel refdir stack a with
      | .error e => .error e
      | .ok l => (processIncludes fs fuel refdir stack b).map (fun r => l ++ r) := by
  induction a with
  | nil =>
    rw [processIncludes_nil]
    simp only [List.nil_append]
    cases processIncludes fs fuel refdir stack b <;> simp [Except.map]
  | cons o rest ih =>
    simp only [List.cons_append]
    rw [processIncludes_cons, processIncludes_cons, ih]
    cases includeHere fs fuel refdir stack o with
    | error e => rfl
    | ok l =>
      simp only
      cases processIncludes fs fuel refdir stack rest with
      | error e => rfl
      | ok l2 =>
        cases processIncludes fs fuel refdir stack b with
        | error e => rfl
        | ok l3 => simp [Except.map]

/-! ### the include statement -/

/-- the file name of a well-formed enabled `include file <name>` statement -/
def includeTarget : Obj → Option Str
  | .defn m [w1, w2] =>
    if !m.disabled && m.name == "include".toList && !containsDollar [w1, w2]
        && lower w1.value == "file".toList then some w2.value else none
  | _ => none

/-- **inlining law**: a well-formed include statement contributes exactly the expansion of the
    file its name resolves to (relative to `refdir`), with the same stack -/
theorem includeHere_include (fs : FS) (f : Nat) (refdir : Path) (stack : List Path) (o : Obj)
    (name : Str) (h : includeTarget o = some name) :
    includeHere fs (f + 1) refdir stack o = expandFile fs (f + 1) (resolvePath refdir name) stack := by
  unfold includeTarget at h
  split at h
  · rename_i m w1 w2
    split at h
    · rename_i hc
      simp only [Bool.and_eq_true, Bool.not_eq_true', beq_iff_eq] at hc
      obtain ⟨⟨⟨hd, hn⟩, hdol⟩, hty⟩ := hc
      cases h
      unfold includeHere
      simp [Obj.meta, hd, hn, hdol, hty]
    · cases h
  · cases h

theorem processIncludes_include_cons (fs : FS) (f : Nat) (refdir : Path) (stack : List Path) (o : Obj)
    (rest : List Obj) (name : Str) (h : includeTarget o = some name) :
    processIncludes fs (f + 1) refdir stack (o :: rest) =
      match expandFile fs (f + 1) (resolvePath refdir name) stack with
      | .error e => .error e
      | .ok l => (processIncludes fs (f + 1) refdir stack rest).map (fun r => l ++ r) := by
  rw [processIncludes_cons, includeHere_include fs f refdir stack o name h]

/-! ### 4. the diamond -/

theorem diamond_ok (fs : FS) (r l : Path) (tr tl : Str) (i1 i2 : Obj) (n1 n2 : Str)
    (objsL : List Obj)
    (hr : fs.read r = some tr) (hpr : parseObjs tr = .ok [i1, i2])
    (h1 : includeTarget i1 = some n1) (h2 : includeTarget i2 = some n2)
    (hn1 : resolvePath r.dropLast n1 = l) (hn2 : resolvePath r.dropLast n2 = l)
    (hl : fs.read l = some tl) (hpl : parseObjs tl = .ok objsL)
    (hni : NoInclude objsL = true) (hne : l ≠ r) :
    expand fs r = .ok (resetTmpl objsL ++ resetTmpl objsL) := by
  unfold expand
  have hlen : fs.length ≠ 0 := by
    intro h
    have : fs = [] := List.eq_nil_of_length_eq_zero h
    subst this
    simp [FS.read] at hr
  obtain ⟨f, hf⟩ : ∃ f, fs.length = f + 1 := ⟨fs.length - 1, by omega⟩
  rw [hf, expandFile_fresh fs (f + 1) r [] tr [i1, i2] (by simp) hr hpr]
  have hleaf : expandFile fs (f + 1) l ([] ++ [r]) = .ok (resetTmpl objsL) := by
    rw [expandFile_fresh fs f l ([] ++ [r]) tl objsL (by simpa using hne) hl hpl]
    exact no_include_identity fs f _ _ objsL hni
  rw [processIncludes_include_cons fs f _ _ i1 [i2] n1 h1, hn1, hleaf]
  simp only
  rw [processIncludes_include_cons fs f _ _ i2 [] n2 h2, hn2, hleaf]
  simp only
  rw [processIncludes_nil]
  simp [Except.map]

/-! ### 5. path resolution -/

theorem normComponents_dotdot (cs : List Str) (acc : Path) :
    normComponents ("..".toList :: cs) acc = normComponents cs acc.dropLast := by
  have : "..".toList = ['.', '.'] := rfl
  rw [this]
  simp [normComponents]

theorem normComponents_dot (cs : List Str) (acc : Path) :
    normComponents (".".toList :: cs) acc = normComponents cs acc := by
  have : ".".toList = ['.'] := rfl
  rw [this]
  simp [normComponents]

theorem normComponents_empty (cs : List Str) (acc : Path) :
    normComponents ([] :: cs) acc = normComponents cs acc := by
  simp [normComponents]

theorem normComponents_append (a b : List Str) (acc : Path) :
    normComponents (a ++ b) acc = normComponents b (normComponents a acc) := by
  induction a generalizing acc with
  | nil => rfl
  | cons c cs ih =>
    simp only [List.cons_append, normComponents]
    split
    · exact ih _
    · split
      · exact ih _
      · exact ih _

/-- an ordinary path component: not empty, not `.`, not `..` -/
def plainComp (c : Str) : Bool := !c.isEmpty && c != ['.'] && c != ['.', '.']

theorem normComponents_plain (cs : List Str) (acc : Path) (h : cs.all plainComp = true) :
    normComponents cs acc = acc ++ cs := by
  induction cs generalizing acc with
  | nil => simp [normComponents]
  | cons c cs ih =>
    simp only [List.all_cons, Bool.and_eq_true] at h
    obtain ⟨hc, hcs⟩ := h
    simp only [plainComp, Bool.and_eq_true, Bool.not_eq_true', bne_iff_ne, ne_eq] at hc
    obtain ⟨⟨h1, h2⟩, h3⟩ := hc
    simp only [normComponents, h1, Bool.false_or]
    have e2 : (c == ['.']) = false := by simpa using h2
    have e3 : (c == ['.', '.']) = false := by simpa using h3
    simp only [e2, e3, Bool.false_eq_true, ↓reduceIte]
    rw [ih _ hcs]
    simp

theorem splitOn_cons_sep (sep : Char) (cs : Str) : splitOn sep (sep :: cs) = [] :: splitOn sep cs := by
  rw [splitOn]
  cases h : splitOn sep cs with
  | nil =>
    exfalso
    revert h
    cases cs with
    | nil => simp [splitOn]
    | cons d ds =>
      rw [splitOn]
      split <;> (try split) <;> simp
  | cons p ps => simp

theorem splitOn_no_sep (sep : Char) (s : Str) (h : sep ∉ s) : splitOn sep s = [s] := by
  induction s with
  | nil => rfl
  | cons c cs ih =>
    have hc : c ≠ sep := fun e => h (by simp [e])
    have hcs : sep ∉ cs := fun e => h (by simp [e])
    rw [splitOn, ih hcs]
    simp [hc]

/-- **relative names are resolved against the reference directory** (general form): if every
    `/`-separated component of `name` is ordinary, the result is `refdir` followed by them -/
theorem resolvePath_relative_gen (refdir : Path) (name : Str)
    (h : (splitOn '/' name).all plainComp = true) :
    resolvePath refdir name = refdir ++ splitOn '/' name := by
  unfold resolvePath
  have hrel : (name.take 1 == ['/']) = false := by
    cases name with
    | nil => rfl
    | cons c cs =>
      cases hc : (c == '/') with
      | false =>
        have : c ≠ '/' := by simpa using hc
        simp [this]
      | true =>
        have : c = '/' := by simpa using hc
        subst this
        rw [splitOn_cons_sep] at h
        simp [plainComp] at h
  simp only [hrel, Bool.false_eq_true, ↓reduceIte]
  exact normComponents_plain _ _ h

/-- single ordinary component -/
theorem resolvePath_relative (refdir : Path) (c : Str) (hslash : '/' ∉ c) (h0 : c ≠ [])
    (h1 : c ≠ ".".toList) (h2 : c ≠ "..".toList) :
    resolvePath refdir c = refdir ++ [c] := by
  have hs := splitOn_no_sep '/' c hslash
  have := resolvePath_relative_gen refdir c (by
    rw [hs]
    have e1 : ".".toList = ['.'] := rfl
    have e2 : "..".toList = ['.', '.'] := rfl
    rw [e1] at h1; rw [e2] at h2
    simp [plainComp, h0, h1, h2])
  rw [this, hs]

/-- **a name starting with `/` ignores the reference directory** -/
theorem resolvePath_absolute (refdir : Path) (rest : Str) :
    resolvePath refdir ('/' :: rest) = normComponents (splitOn '/' rest) [] := by
  unfold resolvePath
  simp only [List.take_succ_cons, List.take_zero, BEq.rfl, ↓reduceIte]
  rw [splitOn_cons_sep, normComponents_empty]

theorem resolvePath_absolute_indep (refdir refdir' : Path) (rest : Str) :
    resolvePath refdir ('/' :: rest) = resolvePath refdir' ('/' :: rest) := by
  rw [resolvePath_absolute, resolvePath_absolute]

/-- a relative name: the components are normalised starting from the reference directory -/
theorem resolvePath_rel_norm (refdir : Path) (name : Str) (h : name.take 1 ≠ ['/']) :
    resolvePath refdir name = normComponents (splitOn '/' name) refdir := by
  unfold resolvePath
  have : (name.take 1 == ['/']) = false := by simpa using h
  simp [this]

/-! ### 6. the cycle error and the include graph -/

/-- for every fuel: a well-formed include statement contributes the expansion of its target -/
theorem includeHere_include' (fs : FS) (fuel : Nat) (refdir : Path) (stack : List Path) (o : Obj)
    (name : Str) (h : includeTarget o = some name) :
    includeHere fs fuel refdir stack o = expandFile fs fuel (resolvePath refdir name) stack := by
  cases fuel with
  | succ f => exact includeHere_include fs f refdir stack o name h
  | zero =>
    rw [expandFile_zero]
    unfold includeTarget at h
    split at h
    · rename_i m w1 w2
      split at h
      · rename_i hc
        simp only [Bool.and_eq_true, Bool.not_eq_true', beq_iff_eq] at hc
        obtain ⟨⟨⟨hd, hn⟩, hdol⟩, hty⟩ := hc
        unfold includeHere
        simp [Obj.meta, hd, hn, hdol, hty]
      · cases h
    · cases h

abbrev cycleErr : Err := .runtime "include_cycle" none

/-- an object that is not a well-formed include statement never produces the cycle error itself -/
theorem includeHere_defn_not_include (fs : FS) (fuel : Nat) (refdir : Path) (stack : List Path)
    (m : Meta) (ws : List Word) (h : includeTarget (.defn m ws) = none) :
    includeHere fs fuel refdir stack (.defn m ws) ≠ .error cycleErr := by
  unfold includeHere
  simp only [Obj.meta]
  split
  · simp
  · rename_i hd
    split
    · simp
    · rename_i hn
      split
      · simp
      · rename_i hdol
        split
        · simp
        · split
          · rename_i hty
            split
            · simp
            · rename_i hlen
              exfalso
              match ws, hlen with
              | [], hlen => simp at hlen
              | [_], hlen => simp at hlen
              | _ :: _ :: _ :: _, hlen => simp at hlen
              | [w1, w2], _ =>
                simp only [List.headD_cons] at hty
                simp [includeTarget] at h
                simp at hd hn
                exact h hd hn (by simpa using hdol) (by simpa using hty)
          · split <;> simp

mutual
/-- the names of the include statements that `processIncludes` follows: well-formed enabled
    `include file` statements at top level or inside enabled scopes -/
def includeTargetsObj : Obj → List Str
  | .defn m ws => (includeTarget (.defn m ws)).toList
  | .scope m kids => if m.disabled then [] else includeTargets kids
def includeTargets : List Obj → List Str
  | [] => []
  | o :: os => includeTargetsObj o ++ includeTargets os
end

/-- the cycle error of a processed list comes from one of the followed include statements -/
theorem processIncludes_cycle_source (fs : FS) (fuel : Nat) (refdir : Path) (stack : List Path)
    (objs : List Obj) :
    processIncludes fs fuel refdir stack objs = .error cycleErr →
      ∃ n ∈ includeTargets objs, expandFile fs fuel (resolvePath refdir n) stack = .error cycleErr := by
  induction objs using Obj.rec_1
    (motive_1 := fun o => includeHere fs fuel refdir stack o = .error cycleErr →
      ∃ n ∈ includeTargetsObj o, expandFile fs fuel (resolvePath refdir n) stack = .error cycleErr) with
  | defn m ws =>
    rename_i h
    cases ht : includeTarget (.defn m ws) with
    | none => exact absurd h (includeHere_defn_not_include fs fuel refdir stack m ws ht)
    | some n =>
      rw [includeHere_include' fs fuel refdir stack _ n ht] at h
      exact ⟨n, by simp [includeTargetsObj, ht], h⟩
  | scope m kids ih =>
    rename_i h
    unfold includeHere at h
    simp only [Obj.meta] at h
    by_cases hd : m.disabled = true
    · simp [hd] at h
    · simp only [hd] at h
      have := ih ((Except.map_eq_error _ _ _).mp h)
      simpa [includeTargetsObj, hd] using this
  | nil => intro h; rw [processIncludes_nil] at h; cases h
  | cons o rest iho ihr =>
    intro h
    rw [processIncludes_cons] at h
    cases hh : includeHere fs fuel refdir stack o with
    | error e =>
      rw [hh] at h
      simp only at h
      cases h
      obtain ⟨n, hn, he⟩ := iho hh
      exact ⟨n, by simp [includeTargets, hn], he⟩
    | ok l =>
      rw [hh] at h
      simp only at h
      obtain ⟨n, hn, he⟩ := ihr ((Except.map_eq_error _ _ _).mp h)
      exact ⟨n, by simp [includeTargets, hn], he⟩

/-- if a list is processed successfully, every followed include statement was expanded successfully -/
theorem processIncludes_ok_targets (fs : FS) (fuel : Nat) (refdir : Path) (stack : List Path)
    (objs : List Obj) :
    ∀ res, processIncludes fs fuel refdir stack objs = .ok res →
      ∀ n ∈ includeTargets objs, ∃ res', expandFile fs fuel (resolvePath refdir n) stack = .ok res' := by
  induction objs using Obj.rec_1
    (motive_1 := fun o => ∀ res, includeHere fs fuel refdir stack o = .ok res →
      ∀ n ∈ includeTargetsObj o, ∃ res', expandFile fs fuel (resolvePath refdir n) stack = .ok res') with
  | defn m ws =>
    rename_i res h n hn
    cases ht : includeTarget (.defn m ws) with
    | none => simp [includeTargetsObj, ht] at hn
    | some n' =>
      simp [includeTargetsObj, ht] at hn
      subst hn
      rw [includeHere_include' fs fuel refdir stack _ n ht] at h
      exact ⟨res, h⟩
  | scope m kids ih =>
    rename_i res h n hn
    unfold includeHere at h
    simp only [Obj.meta] at h
    by_cases hd : m.disabled = true
    · simp [includeTargetsObj, hd] at hn
    · simp only [hd] at h
      simp only [includeTargetsObj, hd] at hn
      obtain ⟨ks, hks, _⟩ := (Except.map_eq_ok _ _ _).mp h
      exact ih ks hks n hn
  | nil => intro res h n hn; simp [includeTargets] at hn
  | cons o rest iho ihr =>
    intro res h n hn
    rw [processIncludes_cons] at h
    cases hh : includeHere fs fuel refdir stack o with
    | error e => rw [hh] at h; cases h
    | ok l =>
      rw [hh] at h
      simp only at h
      obtain ⟨r, hr, _⟩ := (Except.map_eq_ok _ _ _).mp h
      simp only [includeTargets, List.mem_append] at hn
      rcases hn with hn | hn
      · exact iho l hh n hn
      · exact ihr r hr n hn

/-- `a` includes `b`: the text of `a` parses and contains a followed include statement whose name
    resolves, relative to the directory of `a`, to `b` -/
def Includes (fs : FS) (a b : Path) : Prop :=
  ∃ t objs n, fs.read a = some t ∧ parseObjs t = .ok objs ∧ n ∈ includeTargets objs ∧
    resolvePath a.dropLast n = b

/-- `IncWalk fs a st p st'`: starting the expansion of `a` with stack `st`, a chain of include
    statements leads to the expansion of `p` with stack `st'` (= `st` followed by the files of the
    chain before `p`) -/
inductive IncWalk (fs : FS) : Path → List Path → Path → List Path → Prop
  | here (p : Path) (st : List Path) : IncWalk fs p st p st
  | step {a b : Path} {st : List Path} {p : Path} {st' : List Path} :
      Includes fs a b → IncWalk fs b (st ++ [a]) p st' → IncWalk fs a st p st'

theorem IncWalk.prefix {fs : FS} {a : Path} {st : List Path} {p : Path} {st' : List Path}
    (h : IncWalk fs a st p st') : st <+: st' := by
  induction h with
  | here p st => exact List.prefix_refl _
  | step _ _ ih => exact List.IsPrefix.trans (List.prefix_append _ _) ih

/-- no file's *parser* outcome is the include-cycle error (the parser has no such error site) -/
def ParseNoCycleErr (fs : FS) : Prop := ∀ pt ∈ fs, parseObjs pt.2 ≠ .error cycleErr

/-- **soundness of the cycle error**, hypothesis-free form: it is only raised when a chain of
    include statements leads to a file that is on its own stack (or whose *parser* outcome is that
    very error — which the parser never produces, see `ParseNoCycleErr`) -/
theorem cycle_error_sound_gen (fs : FS) :
    ∀ (fuel : Nat) (path : Path) (stack : List Path),
      expandFile fs fuel path stack = .error cycleErr →
      ∃ p st, IncWalk fs path stack p st ∧
        (p ∈ st ∨ ∃ t, fs.read p = some t ∧ parseObjs t = .error cycleErr) := by
  intro fuel
  induction fuel with
  | zero => intro path stack h; rw [expandFile_zero] at h; cases h
  | succ f ih =>
    intro path stack h
    rw [expandFile_succ] at h
    cases hr : fs.read path with
    | none => rw [hr] at h; cases h
    | some text =>
      rw [hr] at h
      simp only at h
      cases hp : parseObjs text with
      | error e =>
        rw [hp] at h
        simp only at h
        cases h
        exact ⟨path, stack, .here _ _, .inr ⟨text, hr, hp⟩⟩
      | ok objs =>
        rw [hp] at h
        simp only at h
        by_cases hc : stack.contains path = true
        · exact ⟨path, stack, .here _ _, .inl (List.contains_iff_mem.mp hc)⟩
        · simp only [hc] at h
          obtain ⟨n, hn, he⟩ := processIncludes_cycle_source fs f _ _ objs h
          obtain ⟨p, st, hw, hm⟩ := ih _ _ he
          exact ⟨p, st, .step ⟨text, objs, n, hr, hp, hn, rfl⟩ hw, hm⟩

theorem cycle_error_sound (fs : FS) (hpc : ParseNoCycleErr fs) (fuel : Nat) (path : Path)
    (stack : List Path) (h : expandFile fs fuel path stack = .error cycleErr) :
    ∃ p st, IncWalk fs path stack p st ∧ p ∈ st := by
  obtain ⟨p, st, hw, hm⟩ := cycle_error_sound_gen fs fuel path stack h
  rcases hm with hm | ⟨t, hr, hp⟩
  · exact ⟨p, st, hw, hm⟩
  · exact absurd hp (hpc _ (FS.read_some_mem hr))

/-- **every cycle is detected**: if the expansion succeeds, no chain of include statements
    starting from it leads to a file that is on its own stack -/
theorem ok_no_cycle (fs : FS) {a : Path} {st : List Path} {p : Path} {st' : List Path}
    (hw : IncWalk fs a st p st') :
    ∀ (fuel : Nat) (res : List Obj), expandFile fs fuel a st = .ok res → p ∉ st' := by
  induction hw with
  | here p st =>
    intro fuel res h hin
    cases fuel with
    | zero => rw [expandFile_zero] at h; cases h
    | succ f =>
      rw [expandFile_succ] at h
      have hc : st.contains p = true := List.contains_iff_mem.mpr hin
      cases hr : fs.read p with
      | none => rw [hr] at h; cases h
      | some text =>
        rw [hr] at h
        simp only at h
        cases hp : parseObjs text with
        | error e => rw [hp] at h; cases h
        | ok objs => rw [hp] at h; simp [hin] at h
  | @step a b st p st' hinc _ ih =>
    intro fuel res h
    obtain ⟨t, objs, n, hr, hp, hn, hres⟩ := hinc
    cases fuel with
    | zero => rw [expandFile_zero] at h; cases h
    | succ f =>
      rw [expandFile_succ] at h
      simp only [hr, hp] at h
      by_cases hc : st.contains a = true
      · simp only [hc, ↓reduceIte] at h; cases h
      · simp only [hc] at h
        obtain ⟨res', hres'⟩ := processIncludes_ok_targets fs f _ _ objs res h n hn
        rw [hres] at hres'
        exact ih f res' hres'

/-! ### textual inlining -/

theorem includeHere_noInclude (fs : FS) (fuel : Nat) (refdir : Path) (stack : List Path) (o : Obj)
    (h : NoIncludeObj o = true) : includeHere fs fuel refdir stack o = .ok [resetTmplObj o] := by
  have := no_include_identity fs fuel refdir stack [o] (by simp [NoInclude, h])
  rw [processIncludes_cons, processIncludes_nil] at this
  cases hh : includeHere fs fuel refdir stack o with
  | error e => rw [hh] at this; cases this
  | ok l =>
    rw [hh] at this
    simp [Except.map, resetTmpl] at this
    rw [this]

/-- **inlining law for a list**: include-free objects, then an include statement, then anything:
    the statement is replaced by the expansion of the file its name resolves to -/
theorem processIncludes_split (fs : FS) (fuel : Nat) (refdir : Path) (stack : List Path)
    (pre post : List Obj) (i : Obj) (n : Str) (hpre : NoInclude pre = true)
    (hi : includeTarget i = some n) :
    processIncludes fs fuel refdir stack (pre ++ i :: post) =
      match expandFile fs fuel (resolvePath refdir n) stack with
      | .error e => .error e
      | .ok l => (processIncludes fs fuel refdir stack post).map (fun r => resetTmpl pre ++ (l ++ r)) := by
  rw [processIncludes_append, no_include_identity fs fuel refdir stack pre hpre]
  simp only
  rw [processIncludes_cons, includeHere_include' fs fuel refdir stack i n hi]
  cases expandFile fs fuel (resolvePath refdir n) stack with
  | error e => rfl
  | ok l =>
    simp only
    cases processIncludes fs fuel refdir stack post with
    | error e => rfl
    | ok r => rfl

/-- **inlining law for a file**: the names of a file's include statements are resolved against the
    directory of that file, and the expansion happens with the file pushed on the stack -/
theorem expandFile_split (fs : FS) (f : Nat) (a : Path) (stack : List Path) (t : Str)
    (pre post : List Obj) (i : Obj) (n : Str)
    (hr : fs.read a = some t) (hp : parseObjs t = .ok (pre ++ i :: post)) (ha : a ∉ stack)
    (hpre : NoInclude pre = true) (hi : includeTarget i = some n) :
    expandFile fs (f + 1) a stack =
      match expandFile fs f (resolvePath a.dropLast n) (stack ++ [a]) with
      | .error e => .error e
      | .ok l => (processIncludes fs f a.dropLast (stack ++ [a]) post).map
                    (fun r => resetTmpl pre ++ (l ++ r)) := by
  rw [expandFile_fresh fs f a stack t _ ha hr hp]
  exact processIncludes_split fs f _ _ pre post i n hpre hi

/-- an include statement that leads back to a file being expanded (the including file itself or one
    further up the stack) makes the expansion fail with the cycle error -/
theorem expandFile_back_edge (fs : FS) (f : Nat) (a q : Path) (stack : List Path) (t tq : Str)
    (pre post oq : List Obj) (i : Obj) (n : Str)
    (hr : fs.read a = some t) (hp : parseObjs t = .ok (pre ++ i :: post)) (ha : a ∉ stack)
    (hpre : NoInclude pre = true) (hi : includeTarget i = some n)
    (hq : resolvePath a.dropLast n = q) (hmem : q ∈ stack ++ [a])
    (hrq : fs.read q = some tq) (hpq : parseObjs tq = .ok oq) :
    expandFile fs (f + 2) a stack = .error cycleErr := by
  rw [expandFile_split fs (f + 1) a stack t pre post i n hr hp ha hpre hi, hq,
    cycle_refused fs f q (stack ++ [a]) tq oq hmem hrq hpq]

/-- a reachable include cycle is always reported as an error (never an endless recursion, and — if
    the parser's own fuel suffices — never the model's `outOfFuel`) -/
theorem cycle_detected (fs : FS) (root p : Path) (st : List Path) (hw : IncWalk fs root [] p st)
    (hp : p ∈ st) : ∃ e, expand fs root = .error e := by
  cases h : expand fs root with
  | error e => exact ⟨e, rfl⟩
  | ok res => exact absurd hp (ok_no_cycle fs hw _ res h)

end Phil
