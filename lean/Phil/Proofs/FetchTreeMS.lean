/-
  Phil.Proofs.FetchTreeMS — closed form of scope.fetch for NESTED masters WITH `.multiple` SCOPES
  (`MSMaster`): trees of enabled scopes — `.multiple` or not, `.multiple` ones optional or mandatory,
  nested in each other in any way — whose definitions are `DefnMeta` definitions (`.multiple` or not),
  names non-empty and dot-free, sibling names pairwise distinct (one master occurrence per name).
  Sources are arbitrary `SrcTree` lists.  Extends Phil/Proofs/FetchTreeMulti.lean.
    1. specification `msResult` (`msBlock`), `msUsed`, `msNoClash`, `KeysDefinedMS`;
    2. the keys of scopes do not depend on the fuel (`extractFormatStr_fuel_ms`);
    3.-6. the candidate loop of a `.multiple` scope (`stepG_multiscope_ms`), `fetch_ms_total`;
    7.-9. C07: `msResult_self`, `msResult_idem`, side conditions on the result, `ms_refetch_idempotent`;
    10. C06: `ms_used_exact`, `ms_unused_exact`;  11. C04: `mem_defPaths_msResult`, block members.
  All names of this file carry `_ms`, `ms…` or `MS`.
-/
import Phil.Proofs.FetchTreeMulti
import Phil.Proofs.ExtractTree
set_option linter.unusedVariables false
namespace Phil

/-! ## 1. specification -/

/-- the block of a `.multiple` master SCOPE `mo`: given the master's own fetched block `self`
    (`master_object.fetch()`), the master key `k0` and the candidates with their keys `cks` in
    source order — the template (the master scope itself, flag `1` if nothing survives, else `-1`;
    for a mandatory scope the live default instance `self`) followed by the survivors of the list
    rule -/
def msMultiBlock (mo self : Obj) (k0 : Str) (cks : List (Obj × Str)) : List Obj :=
  (if (mo.attr "optional").mandatory then withTmpl self 0
   else withTmpl mo (if (dedupKeepLast (cks.filter (fun y => y.2 != k0))).isEmpty then 1 else -1)) ::
    (dedupKeepLast (cks.filter (fun y => y.2 != k0))).map (·.1)

/-- the key of the candidate `c` of the `.multiple` master scope `mo`:
    `mo.extract_format(source=c).as_str()`, computed with a fuel that depends on `mo` only -/
def keyMS (e : Envs) (mo c : Obj) : Str := keyOf e (depthT mo) mo c

mutual
/-- the block one master object contributes to the result, given the source objects at its level.
    Definitions: as in `tmBlock`.  A non-multiple scope: itself, rebuilt from the children of all
    enabled source scopes of its name.  A `.multiple` scope: the list rule over the enabled source
    scopes of its name, each instance being the fetch of the master scope's body against that ONE
    source block. -/
def msBlock (e : Envs) : Obj → List Obj → List Obj
  | .defn mm mws, srcs => tmBlock e (.defn mm mws) srcs
  | .scope mm kids, srcs =>
    if (mm.attrs.get "multiple").truthy then
      msMultiBlock (.scope mm kids) (.scope { mm with tmpl := 0 } (msResult e kids []))
        (keyMS e (.scope mm kids) (.scope { mm with tmpl := 0 } (msResult e kids [])))
        ((scopesNamed mm.name srcs).map (fun s =>
          (Obj.scope { mm with tmpl := 0 } (msResult e kids s.children),
           keyMS e (.scope mm kids) (Obj.scope { mm with tmpl := 0 } (msResult e kids s.children)))))
    else [.scope { mm with tmpl := 0 } (msResult e kids (srcStep srcs mm.name))]
/-- the children of the result scope: the blocks of the master children, in master order -/
def msResult (e : Envs) : List Obj → List Obj → List Obj
  | [], _ => []
  | mo :: rest, srcs => msBlock e mo srcs ++ msResult e rest srcs
end

mutual
def msUsedObj : Obj → List Obj → List Nat
  | .defn mm _, srcs => (defsNamed mm.name srcs).flatMap marksOf
  | .scope mm kids, srcs =>
    if (mm.attrs.get "multiple").truthy then
      (scopesNamed mm.name srcs).flatMap (fun s => msUsed kids s.children)
    else msUsed kids (srcStep srcs mm.name)
/-- the consumed ids, in the order the fetch marks them -/
def msUsed : List Obj → List Obj → List Nat
  | [], _ => []
  | mo :: rest, srcs => msUsedObj mo srcs ++ msUsed rest srcs
end

mutual
def msNoClashObj : Obj → List Obj → Bool
  | .defn mm _, srcs => (scopesNamed mm.name srcs).isEmpty
  | .scope mm kids, srcs =>
    (defsNamed mm.name srcs).isEmpty &&
      (if (mm.attrs.get "multiple").truthy then
        (scopesNamed mm.name srcs).all (fun s => msNoClash kids s.children)
       else msNoClash kids (srcStep srcs mm.name))
/-- no enabled source scope where the master has a definition, no enabled source definition where
    the master has a scope — at every depth, inside every instance -/
def msNoClash : List Obj → List Obj → Bool
  | [], _ => true
  | mo :: rest, srcs => msNoClashObj mo srcs && msNoClash rest srcs
end

mutual
def KeysDefinedMSObj (e : Envs) : Obj → List Obj → Prop
  | .defn mm mws, srcs =>
    isMultiple (.defn mm mws) = true → KeysDefined e 0 (.defn mm mws) (defsNamed mm.name srcs)
  | .scope mm kids, srcs =>
    if (mm.attrs.get "multiple").truthy then
      KeysDefinedMS e kids [] ∧
      (∃ k, extractFormatStr e (depthL kids + 1 + 64) (.scope mm kids)
              (.scope { mm with tmpl := 0 } (msResult e kids [])) = .ok k) ∧
      ∀ s ∈ scopesNamed mm.name srcs,
        KeysDefinedMS e kids s.children ∧
        ∃ k, extractFormatStr e (depthL kids + 1 + 64) (.scope mm kids)
              (.scope { mm with tmpl := 0 } (msResult e kids s.children)) = .ok k
    else KeysDefinedMS e kids (srcStep srcs mm.name)
/-- the keys the list rule compares are defined, at every `.multiple` master object: the master's
    own and those of the candidates built from the sources reached by its path -/
def KeysDefinedMS (e : Envs) : List Obj → List Obj → Prop
  | [], _ => True
  | mo :: rest, srcs => KeysDefinedMSObj e mo srcs ∧ KeysDefinedMS e rest srcs
end

mutual
def MSObj : Obj → Prop
  | .defn mm _ => DefnMeta mm ∧ mm.name ≠ [] ∧ '.' ∉ mm.name ∧ mm.disabled = false
  | .scope mm kids =>
    mm.name ≠ [] ∧ '.' ∉ mm.name ∧ mm.disabled = false ∧ MSKids kids ∧
      (kids.map Obj.name).Pairwise (· ≠ ·)
def MSKids : List Obj → Prop
  | [] => True
  | o :: os => MSObj o ∧ MSKids os
end

/-- a master tree with `.multiple` scopes: enabled definitions (not `.deprecated`, not choices;
    `.multiple` or not) and enabled scopes (`.multiple` or not, optional or mandatory) of such objects
    to any depth, names non-empty and dot-free, sibling names pairwise distinct -/
structure MSMaster (mkids : List Obj) : Prop where
  kids : MSKids mkids
  distinct : (mkids.map Obj.name).Pairwise (· ≠ ·)

/-! ### executable forms -/

mutual
def msObjB : Obj → Bool
  | .defn mm _ => defnMetaB_tm mm && !mm.name.isEmpty && !mm.name.contains '.' && !mm.disabled
  | .scope mm kids =>
    !mm.name.isEmpty && !mm.name.contains '.' && !mm.disabled &&
      msKidsB kids && decide ((kids.map Obj.name).Pairwise (· ≠ ·))
def msKidsB : List Obj → Bool
  | [] => true
  | o :: os => msObjB o && msKidsB os
end

def msMasterB (mkids : List Obj) : Bool :=
  msKidsB mkids && decide ((mkids.map Obj.name).Pairwise (· ≠ ·))

mutual
def keysDefinedMSObjB (e : Envs) : Obj → List Obj → Bool
  | .defn mm mws, srcs =>
    !isMultiple (.defn mm mws) || keysDefinedB e 0 (.defn mm mws) (defsNamed mm.name srcs)
  | .scope mm kids, srcs =>
    if (mm.attrs.get "multiple").truthy then
      keysDefinedMSB e kids [] &&
      (errOf (extractFormatStr e (depthL kids + 1 + 64) (.scope mm kids)
              (.scope { mm with tmpl := 0 } (msResult e kids [])))).isNone &&
      (scopesNamed mm.name srcs).all (fun s =>
        keysDefinedMSB e kids s.children &&
        (errOf (extractFormatStr e (depthL kids + 1 + 64) (.scope mm kids)
              (.scope { mm with tmpl := 0 } (msResult e kids s.children)))).isNone)
    else keysDefinedMSB e kids (srcStep srcs mm.name)
def keysDefinedMSB (e : Envs) : List Obj → List Obj → Bool
  | [], _ => true
  | mo :: rest, srcs => keysDefinedMSObjB e mo srcs && keysDefinedMSB e rest srcs
end

/-! ## 2. `extract_format` does not depend on the fuel (beyond the nesting depth) -/

theorem extractObj_fuel_ms (e : Envs) : ∀ (f1 f2 : Nat) (o : Obj), depthT o < f1 → depthT o < f2 →
    extractObj e f1 o = extractObj e f2 o := by
  intro f1
  induction f1 with
  | zero => intro f2 o h; exact absurd h (Nat.not_lt_zero _)
  | succ n ih =>
    intro f2 o h1 h2
    cases f2 with
    | zero => exact absurd h2 (Nat.not_lt_zero _)
    | succ m =>
      cases o with
      | defn mm ws => simp only [extractObj]
      | scope mm kids =>
        rw [extractObj_scope_xt, extractObj_scope_xt]
        congr 1
        apply foldlM_congr_mem
        intro a ha b
        have hd := depthT_le_depthL kids a ha
        rw [depthT] at h1 h2
        unfold xstep_xt
        rw [ih m a (by omega) (by omega)]

theorem fstep_congr_ms (F G : Obj → PVal → R Obj) (v : PVal) (st : List Obj × List (Str × Bool))
    (io : Nat × Obj) (h : F io.2 = G io.2) : fstep_xt F v st io = fstep_xt G v st io := by
  unfold fstep_xt
  simp only [h]

theorem masterActive_mem_ms {kids : List Obj} {actives : List (Nat × Obj)}
    (h : masterActiveObjects kids = .ok actives) : ∀ io ∈ actives, io.2 ∈ kids := by
  intro io hio
  have hs := (masterActive_sublist kids actives h).subset hio
  have hm := (List.mem_filter.mp hs).1
  obtain ⟨i, o⟩ := io
  exact List.mem_of_getElem? (mem_indexed.mp hm)

theorem formatObj_fuel_ms (e : Envs) : ∀ (f1 f2 : Nat) (o : Obj) (v : PVal), depthT o < f1 → depthT o < f2 →
    formatObj e f1 o v = formatObj e f2 o v := by
  intro f1
  induction f1 with
  | zero => intro f2 o v h; exact absurd h (Nat.not_lt_zero _)
  | succ n ih =>
    intro f2 o v h1 h2
    cases f2 with
    | zero => exact absurd h2 (Nat.not_lt_zero _)
    | succ m =>
      cases o with
      | defn mm ws => simp only [formatObj]
      | scope mm kids =>
        rw [formatObj_scope_xt, formatObj_scope_xt]
        cases hact : masterActiveObjects kids with
        | error err => rfl
        | ok actives =>
          simp only
          rw [foldlM_congr_mem (fstep_xt (formatObj e n) v) (fstep_xt (formatObj e m) v) actives]
          intro a ha b
          apply fstep_congr_ms
          funext x
          have hd := depthT_le_depthL kids a.2 (masterActive_mem_ms hact a ha)
          rw [depthT] at h1 h2
          exact ih m a.2 x (by omega) (by omega)

/-- **the rendering `master.extract_format(source=c).as_str()` does not depend on the fuel** once the
    fuel exceeds the nesting depths of master and candidate -/
theorem extractFormatStr_fuel_ms (e : Envs) (f1 f2 : Nat) (mo c : Obj)
    (hm1 : depthT mo < f1) (hm2 : depthT mo < f2) (hc1 : depthT c < f1) (hc2 : depthT c < f2) :
    extractFormatStr e f1 mo c = extractFormatStr e f2 mo c := by
  unfold extractFormatStr
  rw [extractObj_fuel_ms e f1 f2 c hc1 hc2]
  cases extractObj e f2 c with
  | error err => rfl
  | ok v =>
    simp only
    rw [formatObj_fuel_ms e f1 f2 mo v hm1 hm2]

/-! ## 3. list forms, projections -/

theorem msResult_eq_flatMap (e : Envs) (srcs : List Obj) : ∀ (mkids : List Obj),
    msResult e mkids srcs = mkids.flatMap (fun mo => msBlock e mo srcs)
  | [] => by rw [msResult]; rfl
  | mo :: rest => by rw [msResult, msResult_eq_flatMap e srcs rest]; rfl

theorem msUsed_eq_flatMap (srcs : List Obj) : ∀ (mkids : List Obj),
    msUsed mkids srcs = mkids.flatMap (fun mo => msUsedObj mo srcs)
  | [] => by rw [msUsed]; rfl
  | mo :: rest => by rw [msUsed, msUsed_eq_flatMap srcs rest]; rfl

theorem msNoClash_eq_all (srcs : List Obj) : ∀ (mkids : List Obj),
    msNoClash mkids srcs = mkids.all (fun mo => msNoClashObj mo srcs)
  | [] => by rw [msNoClash]; rfl
  | mo :: rest => by rw [msNoClash, msNoClash_eq_all srcs rest]; rfl

theorem msKids_iff : ∀ (l : List Obj), MSKids l ↔ ∀ o ∈ l, MSObj o
  | [] => by rw [MSKids]; simp
  | o :: os => by rw [MSKids, msKids_iff os]; simp

theorem MSMaster.of_scope {mm : Meta} {kids : List Obj} (h : MSObj (.scope mm kids)) : MSMaster kids := by
  rw [MSObj] at h
  exact ⟨h.2.2.2.1, h.2.2.2.2⟩

theorem MSMaster.obj {mkids : List Obj} (h : MSMaster mkids) : ∀ o ∈ mkids, MSObj o :=
  (msKids_iff mkids).mp h.kids

theorem MSObj.enabled : ∀ {o : Obj}, MSObj o → o.meta.disabled = false
  | .defn mm _, h => by rw [MSObj] at h; exact h.2.2.2
  | .scope mm _, h => by rw [MSObj] at h; exact h.2.2.1

theorem MSObj.name_ne : ∀ {o : Obj}, MSObj o → o.name ≠ []
  | .defn mm _, h => by rw [MSObj] at h; exact h.2.1
  | .scope mm _, h => by rw [MSObj] at h; exact h.1

theorem MSObj.dotfree : ∀ {o : Obj}, MSObj o → '.' ∉ o.name
  | .defn mm _, h => by rw [MSObj] at h; exact h.2.2.1
  | .scope mm _, h => by rw [MSObj] at h; exact h.2.1

/-- a master without `.multiple` scopes is a special case -/
theorem TMObj.toMS : ∀ {o : Obj}, TMObj o → MSObj o
  | .defn mm mws, h => by rw [TMObj] at h; rw [MSObj]; exact h
  | .scope mm kids, h => by
    rw [TMObj] at h; rw [MSObj]
    refine ⟨h.2.1, h.2.2.1, h.2.2.2.1, ?_, h.2.2.2.2.2⟩
    exact (msKids_iff kids).mpr (fun o ho => TMObj.toMS ((tmKids_iff kids).mp h.2.2.2.2.1 o ho))

theorem TreeMultiMaster.toMS {mkids : List Obj} (h : TreeMultiMaster mkids) : MSMaster mkids :=
  ⟨(msKids_iff mkids).mpr (fun o ho => (h.obj o ho).toMS), h.distinct⟩

theorem masterActive_ms (mkids : List Obj) (hf : MSMaster mkids) :
    masterActiveObjects mkids = .ok (indexed mkids) := by
  have hsnd := indexed_map_snd mkids
  show masterActiveObjects.go (indexed mkids) [] [] = _
  rw [masterActive_go_all (indexed mkids) [] []]
  · simp
  · intro p hp
    have : p.2 ∈ mkids := by rw [← hsnd]; exact List.mem_map.mpr ⟨p, hp, rfl⟩
    exact (hf.obj _ this).enabled
  · rw [map_snd_comp Obj.name, hsnd]; exact hf.distinct
  · intro p _ q hq; cases hq

/-! ### the members of a block; the nesting depth of the result -/

theorem mem_msMultiBlock {mo self : Obj} {k0 : Str} {cks : List (Obj × Str)} {o : Obj}
    (h : o ∈ msMultiBlock mo self k0 cks) :
    o = withTmpl self 0 ∨ (∃ t, o = withTmpl mo t) ∨ ∃ x ∈ cks, o = x.1 := by
  unfold msMultiBlock at h
  rw [List.mem_cons] at h
  rcases h with h | h
  · split at h
    · exact .inl h
    · exact .inr (.inl ⟨_, h⟩)
  · obtain ⟨x, hx, rfl⟩ := List.mem_map.mp h
    exact .inr (.inr ⟨x, (List.mem_filter.mp ((dedupKeepLast_sublist _).subset hx)).1, rfl⟩)

theorem depthT_withTmpl_ms (o : Obj) (t : Int) : depthT (withTmpl o t) = depthT o := by
  cases o with
  | defn m ws => unfold withTmpl Obj.withMeta; rw [depthT, depthT]
  | scope m kids => unfold withTmpl Obj.withMeta; rw [depthT, depthT]

theorem depthL_append_ms : ∀ (a b : List Obj), depthL (a ++ b) = Nat.max (depthL a) (depthL b)
  | [], b => by rw [depthL, List.nil_append]; exact (Nat.zero_max _).symm
  | o :: a, b => by
    rw [List.cons_append, depthL, depthL, depthL_append_ms a b]
    exact (Nat.max_assoc _ _ _).symm

mutual
theorem depthL_msBlock (e : Envs) : ∀ (mo : Obj) (srcs : List Obj), depthL (msBlock e mo srcs) ≤ depthT mo
  | .defn mm mws, srcs => by
    rw [msBlock]
    apply depthL_le_of_forall
    intro o ho
    have h := (tmBlock_member_tm e _ srcs o ho).2.2
    cases o with
    | scope m k => cases h
    | defn m ws => rw [depthT]; exact Nat.zero_le _
  | .scope mm kids, srcs => by
    rw [msBlock]
    split
    · apply depthL_le_of_forall
      intro o ho
      rcases mem_msMultiBlock ho with rfl | ⟨t, rfl⟩ | ⟨x, hx, rfl⟩
      · rw [depthT_withTmpl_ms, depthT, depthT]
        exact Nat.succ_le_succ (depthL_msResult e kids [])
      · rw [depthT_withTmpl_ms]; exact Nat.le_refl _
      · obtain ⟨s, _, rfl⟩ := List.mem_map.mp hx
        show depthT (Obj.scope _ _) ≤ _
        rw [depthT, depthT]
        exact Nat.succ_le_succ (depthL_msResult e kids s.children)
    · rw [depthL, depthL, depthT, depthT]
      exact Nat.max_le.mpr ⟨Nat.succ_le_succ (depthL_msResult e kids _), Nat.zero_le _⟩
/-- the result is nested no deeper than the master -/
theorem depthL_msResult (e : Envs) : ∀ (mkids : List Obj) (srcs : List Obj),
    depthL (msResult e mkids srcs) ≤ depthL mkids
  | [], srcs => by rw [msResult]; exact Nat.le_refl _
  | mo :: rest, srcs => by
    rw [msResult, depthL_append_ms, depthL]
    exact Nat.max_le.mpr ⟨Nat.le_trans (depthL_msBlock e mo srcs) (Nat.le_max_left _ _),
      Nat.le_trans (depthL_msResult e rest srcs) (Nat.le_max_right _ _)⟩
end

/-! ## 4. the candidate loop of a `.multiple` master object of any kind -/

/-- what is known about one matching source `ms` of the `.multiple` master object `mo`: the candidate
    `x.1` the fetch builds, the ids `x.2.2` it consumes, and the candidate's key `x.2.1` -/
def GLink (F : FetchFn) (e : Envs) (fuel : Nat) (mo ms : Obj) (x : Obj × Str × List Nat) : Prop :=
  candOf F e fuel false mo false ms = .ok (some x.1, x.2.2) ∧
    extractFormatStr e (fuel + 64) mo x.1 = .ok x.2.1

theorem cstepG_glink_ms (F : FetchFn) (e : Envs) (fuel : Nat) (mo : Obj) (k0 : Str)
    (ms : Obj) (x : Obj × Str × List Nat) (hl : GLink F e fuel mo ms x)
    (robjs : List (Option Obj)) (processed : List (Str × Int)) (used : List Nat) :
    cstepG F e fuel false mo k0 (robjs, processed, used) (false, ms) =
      if x.2.1 == k0 then .ok (robjs, processed, used ++ x.2.2)
      else cAccept false false x.2.1 x.1 x.2.2 robjs processed used := by
  unfold cstepG
  simp only [hl.1, hl.2]

theorem multi_fold_ms (F : FetchFn) (e : Envs) (fuel : Nat) (mo : Obj) (k0 : Str) :
    ∀ (M : List Obj) (X : List (Obj × Str × List Nat)), Forall2 (GLink F e fuel mo) M X →
    ∀ (robjs : List (Option Obj)) (processed : List (Str × Int)) (used : List Nat)
      (T : List (Obj × Str × Nat)), MInv robjs processed T →
    ∃ robjs' processed' T',
      (M.map (fun (o : Obj) => (false, o))).foldlM (cstepG F e fuel false mo k0)
        (robjs, processed, used) = .ok (robjs', processed', used ++ X.flatMap (fun x => x.2.2)) ∧
      MInv robjs' processed' T' ∧
      survOf T' = (X.map (fun x => (x.1, x.2.1))).foldl (accStep k0) (survOf T) := by
  intro M X h
  induction h with
  | nil =>
    intro robjs processed used T hinv
    exact ⟨robjs, processed, T, by simp; rfl, hinv, rfl⟩
  | @cons ms x M X hl _ ih =>
    intro robjs processed used T hinv
    rw [List.map_cons, List.foldlM_cons, cstepG_glink_ms F e fuel mo k0 ms x hl, List.map_cons, List.foldl_cons]
    cases hk : x.2.1 == k0 with
    | true =>
      simp only [if_true]
      obtain ⟨r', p', T', hf, hi, hs⟩ := ih robjs processed (used ++ x.2.2) T hinv
      refine ⟨r', p', T', ?_, hi, ?_⟩
      · show List.foldlM _ _ _ = _
        rw [hf]; simp
      · rw [hs]; unfold accStep; simp [hk]
    | false =>
      simp only [Bool.false_eq_true, if_false]
      obtain ⟨r1, p1, hacc, hinv1⟩ := cAccept_nodiff x.2.1 x.1 x.2.2 robjs processed used T hinv
      rw [hacc]
      obtain ⟨r', p', T', hf, hi, hs⟩ := ih r1 p1 (used ++ x.2.2) _ hinv1
      refine ⟨r', p', T', ?_, hi, ?_⟩
      · show List.foldlM _ _ _ = _
        rw [hf]; simp
      · rw [hs]
        congr 1
        unfold accStep
        simp only [hk, Bool.false_eq_true, if_false]
        unfold survOf
        rw [List.map_append, ← survOf.eq_1, survOf_filter]
        rfl

/-- the whole `.multiple` branch for a master SCOPE without further master occurrences, all
    candidates succeeding -/
theorem multiBranch_scope_ms (F : FetchFn) (e : Envs) (fuel : Nat) (mkids : List Obj) (idx : Nat)
    (mm : Meta) (kids : List Obj) (self : Obj) (uself : List Nat) (k0 : Str)
    (M : List Obj) (X : List (Obj × Str × List Nat)) (out : List Obj) (used : List Nat)
    (hfm : fromMasterOf mkids idx (.scope mm kids) = [])
    (hself : F false mm kids [] = .ok (self, uself))
    (hk0 : extractFormatStr e (fuel + 64) (.scope mm kids) self = .ok k0)
    (hl : Forall2 (GLink F e fuel (.scope mm kids)) M X) :
    multiBranch F e fuel false mkids idx (.scope mm kids) M out used =
      .ok (out ++ msMultiBlock (.scope mm kids) self k0 (X.map (fun x => (x.1, x.2.1))),
           used ++ X.flatMap (fun x => x.2.2)) := by
  unfold multiBranch
  rw [masterKeyG_scope, hself]
  simp only
  rw [hk0, hfm, List.nil_append]
  simp only
  obtain ⟨r', p', T', hf, hi, hs⟩ := multi_fold_ms F e fuel (.scope mm kids) k0 M X hl [] [] used [] MInv.nil
  rw [hf]
  simp only
  have hs' : survOf T' = dedupKeepLast ((X.map (fun x => (x.1, x.2.1))).filter (fun y => y.2 != k0)) := by
    rw [hs]; exact foldl_accStep_nil k0 _
  have h1 : r'.filterMap (fun (x : Option Obj) => x) =
      (dedupKeepLast ((X.map (fun x => (x.1, x.2.1))).filter (fun y => y.2 != k0))).map (·.1) := by
    rw [← someIdx_fst r' 0, hi.idx, ← hs']
    unfold survOf
    simp [List.map_map]
  have h2 : p'.isEmpty =
      (dedupKeepLast ((X.map (fun x => (x.1, x.2.1))).filter (fun y => y.2 != k0))).isEmpty := by
    rw [← hs', hi.proc]
    unfold survOf
    cases T' <;> rfl
  rw [h1]
  unfold tmplObjsOf msMultiBlock selfFetchOf defaultInstOf
  simp only [Bool.false_eq_true, if_false, h2, hself, List.append_assoc]
  split <;> rfl

theorem candOf_scope_ok_ms (F : FetchFn) (e : Envs) (fuel : Nat) (mm : Meta) (kids : List Obj)
    (m' : Meta) (sk : List Obj) (ro : Obj) (u : List Nat) (h : F false mm kids sk = .ok (ro, u)) :
    candOf F e fuel false (.scope mm kids) false (.scope m' sk) = .ok (some ro, u) := by
  unfold candOf
  simp only [h]
  rfl

theorem candOf_scope_err_ms (F : FetchFn) (e : Envs) (fuel : Nat) (mm : Meta) (kids : List Obj)
    (m' : Meta) (sk : List Obj) (E : Err) (h : F false mm kids sk = .error E) :
    candOf F e fuel false (.scope mm kids) false (.scope m' sk) = .error E := by
  unfold candOf
  simp only [h]
  rfl

theorem cstepG_scope_err_ms (F : FetchFn) (e : Envs) (fuel : Nat) (mm : Meta) (kids : List Obj) (k0 : Str)
    (m' : Meta) (sk : List Obj) (E : Err) (h : F false mm kids sk = .error E) (acc : CAcc) :
    cstepG F e fuel false (.scope mm kids) k0 acc (false, .scope m' sk) = .error E := by
  unfold cstepG
  simp only [candOf_scope_err_ms F e fuel mm kids m' sk E h]

theorem cstepG_scope_defn_ms (F : FetchFn) (e : Envs) (fuel : Nat) (mm : Meta) (kids : List Obj) (k0 : Str)
    (dm : Meta) (dws : List Word) (acc : CAcc) :
    cstepG F e fuel false (.scope mm kids) k0 acc (false, .defn dm dws) = .error incompatibleErr := by
  unfold cstepG candOf
  rfl

theorem cstepG_glink_ok_ms (F : FetchFn) (e : Envs) (fuel : Nat) (mo : Obj) (k0 : Str)
    (ms : Obj) (x : Obj × Str × List Nat) (hl : GLink F e fuel mo ms x) (acc : CAcc) :
    ∃ b', cstepG F e fuel false mo k0 acc (false, ms) = .ok b' := by
  obtain ⟨robjs, processed, used⟩ := acc
  rw [cstepG_glink_ms F e fuel mo k0 ms x hl]
  split
  · exact ⟨_, rfl⟩
  · exact cAccept_ok_tm _ _ _ _ _ _

theorem activeNamed_eq_scopesNamed_ms (n : Str) (l : List Obj) (h : defsNamed n l = []) :
    activeNamed n l = scopesNamed n l := by
  unfold activeNamed scopesNamed
  apply List.filter_congr
  intro o ho
  have : (o.isDefn && !o.meta.disabled && o.name == n) = false := by
    unfold defsNamed at h
    rw [List.filter_eq_nil_iff] at h
    simpa using h o ho
  unfold Obj.isScope
  cases hd : o.isDefn with
  | false => simp
  | true => rw [hd] at this; simpa using this

theorem msNoClash_nil_src : ∀ (mkids : List Obj), msNoClash mkids [] = true
  | [] => by rw [msNoClash]
  | .defn mm mws :: rest => by
    rw [msNoClash, msNoClashObj, msNoClash_nil_src rest]; rfl
  | .scope mm kids :: rest => by
    rw [msNoClash, msNoClashObj, msNoClash_nil_src rest]
    split
    · rfl
    · show (true && msNoClash kids []) && true = true
      rw [msNoClash_nil_src kids]; rfl

/-! ## 5. one step of the master loop -/

/-- the instance the master scope `.scope mm kids` builds from the source objects `sk` -/
abbrev msCand (e : Envs) (mm : Meta) (kids sk : List Obj) : Obj :=
  .scope { mm with tmpl := 0 } (msResult e kids sk)

theorem extractFormatStr_cand_fuel_ms (e : Envs) (fuel : Nat) (mm : Meta) (kids sk : List Obj)
    (hdep : depthL kids + 1 ≤ fuel) :
    extractFormatStr e (fuel + 64) (.scope mm kids) (msCand e mm kids sk) =
      extractFormatStr e (depthL kids + 1 + 64) (.scope mm kids) (msCand e mm kids sk) := by
  have h1 : depthT (.scope mm kids) = depthL kids + 1 := by rw [depthT]
  have h2 : depthT (msCand e mm kids sk) ≤ depthL kids + 1 := by
    show depthT (Obj.scope _ _) ≤ _
    rw [depthT]; exact Nat.succ_le_succ (depthL_msResult e kids sk)
  exact extractFormatStr_fuel_ms e _ _ _ _ (by omega) (by omega) (by omega) (by omega)

theorem keyMS_ok {e : Envs} {mm : Meta} {kids : List Obj} {c : Obj} {k : Str}
    (h : extractFormatStr e (depthL kids + 1 + 64) (.scope mm kids) c = .ok k) :
    keyMS e (.scope mm kids) c = k := by
  unfold keyMS keyOf
  rw [depthT, h]

/-- **the step of the master loop for a `.multiple` master scope** without further master
    occurrences: the list rule over the enabled source scopes of its name, each instance fetched by
    the callee from ONE source block — or the clash error -/
theorem stepG_multiscope_ms (F : FetchFn) (e : Envs) (fuel : Nat) (sm : Meta)
    (mkids combined : List Obj) (st : List Obj × List Nat) (idx : Nat) (mm : Meta) (kids : List Obj)
    (hmult : (mm.attrs.get "multiple").truthy = true)
    (hfm : fromMasterOf mkids idx (.scope mm kids) = [])
    (hmatch : fetchMatching fuel sm combined (.scope mm kids) = activeNamed mm.name combined)
    (hdep : depthL kids + 1 ≤ fuel)
    (hF0 : F false mm kids [] = .ok (msCand e mm kids [], msUsed kids []))
    (hF : ∀ s ∈ scopesNamed mm.name combined, F false mm kids s.children =
      if msNoClash kids s.children then .ok (msCand e mm kids s.children, msUsed kids s.children)
      else .error incompatibleErr)
    (hk0 : ∃ k, extractFormatStr e (depthL kids + 1 + 64) (.scope mm kids) (msCand e mm kids []) = .ok k)
    (hk : ∀ s ∈ scopesNamed mm.name combined,
      ∃ k, extractFormatStr e (depthL kids + 1 + 64) (.scope mm kids) (msCand e mm kids s.children) = .ok k) :
    stepG F e fuel false sm mkids combined st (idx, .scope mm kids) =
      if msNoClashObj (.scope mm kids) combined then
        .ok (st.1 ++ msBlock e (.scope mm kids) combined, st.2 ++ msUsedObj (.scope mm kids) combined)
      else .error incompatibleErr := by
  have hm : isMultiple (.scope mm kids) = true := hmult
  obtain ⟨k0, hk0⟩ := hk0
  have hk0' : extractFormatStr e (fuel + 64) (.scope mm kids) (msCand e mm kids []) = .ok k0 := by
    rw [extractFormatStr_cand_fuel_ms e fuel mm kids [] hdep]; exact hk0
  have hstep : stepG F e fuel false sm mkids combined st (idx, .scope mm kids) =
      multiBranch F e fuel false mkids idx (.scope mm kids) (activeNamed mm.name combined) st.1 st.2 := by
    unfold stepG
    simp only [hm, Bool.not_true, Bool.false_eq_true, if_false]
    rw [hmatch]
  -- a source scope that does not clash is linked to its candidate
  have hlink : ∀ s ∈ scopesNamed mm.name combined, msNoClash kids s.children = true →
      GLink F e fuel (.scope mm kids) s
        (msCand e mm kids s.children, keyMS e (.scope mm kids) (msCand e mm kids s.children),
          msUsed kids s.children) := by
    intro s hs hnc
    have hF' := hF s hs
    rw [hnc] at hF'
    simp only [if_true] at hF'
    obtain ⟨k, hk'⟩ := hk s hs
    have hsc := (mem_scopesNamed.mp hs).2.1
    cases s with
    | defn m ws => cases hsc
    | scope m' sk =>
      refine ⟨candOf_scope_ok_ms F e fuel mm kids m' sk _ _ hF', ?_⟩
      show extractFormatStr e (fuel + 64) (.scope mm kids) (msCand e mm kids sk) = .ok _
      rw [extractFormatStr_cand_fuel_ms e fuel mm kids sk hdep, keyMS_ok hk']
      exact hk'
  -- every step is a success or the clash error
  have hsteps : ∀ a ∈ (activeNamed mm.name combined).map (fun (o : Obj) => (false, o)), ∀ b,
      (∃ b', cstepG F e fuel false (.scope mm kids) k0 b a = .ok b') ∨
        cstepG F e fuel false (.scope mm kids) k0 b a = .error incompatibleErr := by
    intro a ha b
    obtain ⟨o, ho, rfl⟩ := List.mem_map.mp ha
    have ho' := mem_activeNamed.mp ho
    cases o with
    | defn dm dws => exact .inr (cstepG_scope_defn_ms F e fuel mm kids k0 dm dws b)
    | scope m' sk =>
      have hs : Obj.scope m' sk ∈ scopesNamed mm.name combined :=
        mem_scopesNamed.mpr ⟨ho'.1, rfl, ho'.2.1, ho'.2.2⟩
      cases hnc : msNoClash kids sk with
      | true => exact .inl (cstepG_glink_ok_ms F e fuel _ k0 _ _ (hlink _ hs hnc) b)
      | false =>
        have hF' := hF _ hs
        simp only [Obj.children, hnc, Bool.false_eq_true, if_false] at hF'
        exact .inr (cstepG_scope_err_ms F e fuel mm kids k0 m' sk _ hF' b)
  have herr : (∃ a ∈ (activeNamed mm.name combined).map (fun (o : Obj) => (false, o)), ∀ b,
      cstepG F e fuel false (.scope mm kids) k0 b a = .error incompatibleErr) →
      multiBranch F e fuel false mkids idx (.scope mm kids) (activeNamed mm.name combined) st.1 st.2 =
        .error incompatibleErr := by
    intro hbad
    unfold multiBranch
    rw [masterKeyG_scope, hF0]
    simp only
    rw [hk0', hfm, List.nil_append]
    simp only
    rw [foldlM_error_of_mem (cstepG F e fuel false (.scope mm kids) k0) incompatibleErr _ hsteps hbad]
  rw [hstep, msNoClashObj, msBlock, msUsedObj]
  simp only [hmult, if_true]
  cases hdn : defsNamed mm.name combined with
  | cons d rest =>
    simp only [List.isEmpty_cons, Bool.false_and, Bool.false_eq_true, if_false]
    apply herr
    have hd : d ∈ defsNamed mm.name combined := by rw [hdn]; exact List.mem_cons_self
    have hd' := mem_defsNamed.mp hd
    cases d with
    | scope m k => cases hd'.2.1
    | defn dm dws =>
      exact ⟨(false, .defn dm dws),
        List.mem_map.mpr ⟨_, mem_activeNamed.mpr ⟨hd'.1, hd'.2.2.1, hd'.2.2.2⟩, rfl⟩,
        fun b => cstepG_scope_defn_ms F e fuel mm kids k0 dm dws b⟩
  | nil =>
    simp only [List.isEmpty_nil, Bool.true_and]
    have han := activeNamed_eq_scopesNamed_ms mm.name combined hdn
    cases hall : (scopesNamed mm.name combined).all (fun s => msNoClash kids s.children) with
    | false =>
      simp only [Bool.false_eq_true, if_false]
      apply herr
      rw [List.all_eq_false] at hall
      obtain ⟨s, hs, hnc⟩ := hall
      have hnc' : msNoClash kids s.children = false := by simpa using hnc
      have hsc := (mem_scopesNamed.mp hs).2.1
      cases s with
      | defn m ws => cases hsc
      | scope m' sk =>
        have hF' := hF _ hs
        simp only [Obj.children] at hnc'
        simp only [Obj.children, hnc', Bool.false_eq_true, if_false] at hF'
        exact ⟨(false, .scope m' sk), List.mem_map.mpr ⟨_, by rw [han]; exact hs, rfl⟩,
          fun b => cstepG_scope_err_ms F e fuel mm kids k0 m' sk _ hF' b⟩
    | true =>
      simp only [if_true]
      rw [List.all_eq_true] at hall
      have hl : Forall2 (GLink F e fuel (.scope mm kids)) (activeNamed mm.name combined)
          ((scopesNamed mm.name combined).map (fun s =>
            (msCand e mm kids s.children, keyMS e (.scope mm kids) (msCand e mm kids s.children),
              msUsed kids s.children))) := by
        rw [han]
        apply forall2_map
        intro s hs
        exact hlink s hs (hall s hs)
      rw [multiBranch_scope_ms F e fuel mkids idx mm kids _ _ k0 _ _ st.1 st.2 hfm hF0 hk0' hl,
        List.map_map, List.flatMap_map, keyMS_ok hk0]
      rfl

/-- the step for a non-multiple master scope, given the value of the callee on the next level -/
theorem stepG_scope_ms (F : FetchFn) (e : Envs) (fuel : Nat) (sm : Meta)
    (mkids combined : List Obj) (st : List Obj × List Nat) (idx : Nat) (mm : Meta) (kids : List Obj)
    (hmult : (mm.attrs.get "multiple").truthy = false)
    (hmatch : fetchMatching fuel sm combined (.scope mm kids) = activeNamed mm.name combined)
    (hF : F false mm kids (srcStep combined mm.name) =
      if msNoClash kids (srcStep combined mm.name) then
        .ok (msCand e mm kids (srcStep combined mm.name), msUsed kids (srcStep combined mm.name))
      else .error incompatibleErr) :
    stepG F e fuel false sm mkids combined st (idx, .scope mm kids) =
      if msNoClashObj (.scope mm kids) combined then
        .ok (st.1 ++ msBlock e (.scope mm kids) combined, st.2 ++ msUsedObj (.scope mm kids) combined)
      else .error incompatibleErr := by
  have hm : isMultiple (.scope mm kids) = false := hmult
  have hstep : stepG F e fuel false sm mkids combined st (idx, .scope mm kids) =
      scopeBranch F false mm kids (activeNamed mm.name combined) st.1 st.2 := by
    unfold stepG
    simp only [hm, Bool.not_false, if_true]
    rw [hmatch]
  rw [hstep, msNoClashObj, msBlock, msUsedObj]
  simp only [hmult, Bool.false_eq_true, if_false]
  unfold scopeBranch
  cases hdn : defsNamed mm.name combined with
  | nil =>
    rw [find_isDefn_activeNamed_none _ _ hdn, activeNamed_children_tree, hF]
    simp only [List.isEmpty_nil, Bool.true_and]
    cases msNoClash kids (srcStep combined mm.name) with
    | true => simp
    | false => simp
  | cons d rest =>
    obtain ⟨x, hx⟩ := find_isDefn_activeNamed_some mm.name combined (by rw [hdn]; exact List.cons_ne_nil _ _)
    rw [hx]
    simp only [List.isEmpty_cons, Bool.false_and, Bool.false_eq_true, if_false]
    rfl

/-! ## 6. the whole fetch -/

theorem KeysDefinedMS.obj {e : Envs} : ∀ {l : List Obj} {srcs : List Obj}, KeysDefinedMS e l srcs →
    ∀ o ∈ l, KeysDefinedMSObj e o srcs
  | [], _, _, o, ho => by cases ho
  | a :: os, srcs, h, o, ho => by
    rw [KeysDefinedMS] at h
    rw [List.mem_cons] at ho
    rcases ho with rfl | ho
    · exact h.1
    · exact KeysDefinedMS.obj h.2 o ho

theorem not_activeIn_nil_ms {x : Obj} (h : ActiveIn x []) : False := by
  cases h with
  | here hm _ => cases hm
  | deeper hm _ _ => cases hm

theorem SrcTree.nil_ms : SrcTree [] :=
  ⟨fun x hx _ => (not_activeIn_nil_ms hx).elim, fun m kids hx => (not_activeIn_nil_ms hx).elim⟩

theorem SrcTree.child_ms {srcs : List Obj} (h : SrcTree srcs) {s : Obj} (hs : s ∈ srcs)
    (hd : s.meta.disabled = false) : SrcTree s.children := by
  cases s with
  | defn m ws => exact SrcTree.nil_ms
  | scope m sk =>
    exact ⟨fun x hx hdef => h.ok x (.deeper hs hd hx) hdef,
      fun m' kids hx => h.named m' kids (.deeper hs hd hx)⟩

/-- **closed form of the fetch of a nested master with `.multiple` scopes** (non-diff mode): with fuel
    beyond the nesting depth and defined keys, the fetch succeeds exactly when there is no clash of
    kinds (`msNoClash`); its result is `msResult`, the consumed ids are `msUsed`; a clash makes it
    fail with RuntimeError ("incompatible"). -/
theorem fetch_ms_total (e : Envs) : ∀ (fuel : Nat) (sm : Meta) (mkids srcs : List Obj),
    MSMaster mkids → depthL mkids < fuel → sm.disabled = false → SrcTree srcs →
    KeysDefinedMS e mkids srcs →
    fetchScope e fuel false sm mkids srcs =
      if msNoClash mkids srcs then
        .ok (.scope { sm with tmpl := 0 } (msResult e mkids srcs), msUsed mkids srcs)
      else .error incompatibleErr := by
  intro fuel
  induction fuel with
  | zero => intro sm mkids srcs _ hd; exact absurd hd (Nat.not_lt_zero _)
  | succ fuel ih =>
    intro sm mkids srcs hf hdepth hsd hsrc hkeys
    rw [fetchScope_succ, masterActive_ms mkids hf]
    simp only
    have hsc : ∀ m kids, Obj.scope m kids ∈ srcs → m.disabled = false → m.name ≠ [] :=
      fun m kids hm hd => hsrc.named m kids (.here hm hd)
    have hok : ∀ o ∈ srcs, o.meta.disabled = false → o.isDefn = true → SrcOK o :=
      fun o ho hd hdef => hsrc.ok o (.here ho hd) hdef
    rw [foldlM_cond_tree _ (fun io => msNoClashObj io.2 srcs) (fun io => msBlock e io.2 srcs)
      (fun io => msUsedObj io.2 srcs) incompatibleErr]
    · have hall : (indexed mkids).all (fun io => msNoClashObj io.2 srcs) = msNoClash mkids srcs := by
        rw [msNoClash_eq_all]
        conv => rhs; rw [← indexed_map_snd mkids]
        rw [List.all_map]
        rfl
      rw [hall]
      cases msNoClash mkids srcs with
      | false => rfl
      | true =>
        simp only [if_true, List.nil_append]
        unfold fetchFinish
        rw [flatMap_snd (fun mo => msBlock e mo srcs),
          flatMap_snd (fun mo => msUsedObj mo srcs), indexed_map_snd,
          ← msResult_eq_flatMap, ← msUsed_eq_flatMap]
    · intro st a ha
      have hmem : a.2 ∈ mkids := by rw [← indexed_map_snd mkids]; exact List.mem_map.mpr ⟨a, ha, rfl⟩
      have hto := hf.obj _ hmem
      have hko := hkeys.obj _ hmem
      have hmatch := fetchMatching_tree fuel sm srcs a.2 hsd hto.name_ne hto.dotfree hsc
      obtain ⟨i, mo⟩ := a
      simp only at hmem hto hmatch hko ⊢
      cases mo with
      | defn mm mws =>
        rw [MSObj] at hto
        rw [KeysDefinedMSObj] at hko
        rw [msNoClashObj, msBlock, msUsedObj, ← noClashObj, ← treeUsedObj]
        cases hmult : isMultiple (.defn mm mws) with
        | false => exact stepG_plain_tm _ e fuel sm mkids srcs st i mm mws hto.1 hmult hmatch hok
        | true =>
          exact stepG_multi_tm _ e fuel sm mkids srcs st i mm mws hto.1 hmult
            (fromMasterOf_nil mkids hf.distinct i _ ha) hmatch hok (hko hmult)
      | scope mm kids =>
        have hkids := MSMaster.of_scope hto
        have hd1 := depthT_le_depthL mkids _ hmem
        rw [depthT] at hd1
        rw [MSObj] at hto
        rw [KeysDefinedMSObj] at hko
        cases hmult : (mm.attrs.get "multiple").truthy with
        | false =>
          simp only [hmult, Bool.false_eq_true, if_false] at hko
          exact stepG_scope_ms _ e fuel sm mkids srcs st i mm kids hmult hmatch
            (ih mm kids (srcStep srcs mm.name) hkids (by omega) hto.2.2.1 (hsrc.step mm.name) hko)
        | true =>
          simp only [hmult, if_true] at hko
          have h0 := ih mm kids [] hkids (by omega) hto.2.2.1 SrcTree.nil_ms hko.1
          rw [msNoClash_nil_src] at h0
          simp only [if_true] at h0
          refine stepG_multiscope_ms _ e fuel sm mkids srcs st i mm kids hmult
            (fromMasterOf_nil mkids hf.distinct i _ ha) hmatch (by omega) h0 ?_ hko.2.1
            (fun s hs => (hko.2.2 s hs).2)
          intro s hs
          have hs' := mem_scopesNamed.mp hs
          exact ih mm kids s.children hkids (by omega) hto.2.2.1
            (hsrc.child_ms hs'.1 hs'.2.2.1) (hko.2.2 s hs).1

/-- a successful fetch returns the specification -/
theorem fetch_ms_ok (e : Envs) (fuel : Nat) (sm : Meta) (mkids srcs : List Obj)
    (hf : MSMaster mkids) (hfuel : depthL mkids + 1 ≤ fuel) (hsd : sm.disabled = false)
    (hsrc : SrcTree srcs) (hkeys : KeysDefinedMS e mkids srcs) (ro : Obj) (used : List Nat)
    (h : fetchScope e fuel false sm mkids srcs = .ok (ro, used)) :
    msNoClash mkids srcs = true ∧ ro = .scope { sm with tmpl := 0 } (msResult e mkids srcs) ∧
      used = msUsed mkids srcs := by
  rw [fetch_ms_total e fuel sm mkids srcs hf hfuel hsd hsrc hkeys] at h
  cases hnc : msNoClash mkids srcs with
  | false => rw [hnc] at h; cases h
  | true =>
    rw [hnc] at h
    simp only [if_true] at h
    cases h
    exact ⟨rfl, rfl, rfl⟩

/-- **`master.fetch(sources)`** on parsed roots: the fuel `fetchRoot` computes is adequate -/
theorem fetchRoot_ms (e : Envs) (master : List Obj) (ss : List (List Obj))
    (hf : MSMaster master) (hd : depthL master ≤ 1000) (hsrc : SrcTree ss.flatten)
    (hkeys : KeysDefinedMS e master ss.flatten) :
    fetchRoot e false master ss =
      if msNoClash master ss.flatten then
        .ok (.scope { name := [], id := some 0 } (msResult e master ss.flatten), msUsed master ss.flatten)
      else .error incompatibleErr :=
  fetch_ms_total e _ _ master ss.flatten hf (fetchRoot_fuel_tree master hd) rfl hsrc hkeys

/-! ### soundness of the executable checks -/

mutual
theorem msObjB_sound : ∀ (o : Obj), msObjB o = true → MSObj o
  | .defn mm mws, h => by
    rw [msObjB] at h
    simp only [Bool.and_eq_true, Bool.not_eq_true', List.contains_eq_mem, decide_eq_false_iff_not] at h
    rw [MSObj]
    exact ⟨defnMetaB_tm_sound mm h.1.1.1, str_ne_nil_of_isEmpty h.1.1.2, h.1.2, h.2⟩
  | .scope mm kids, h => by
    rw [msObjB] at h
    simp only [Bool.and_eq_true, Bool.not_eq_true', List.contains_eq_mem, decide_eq_false_iff_not,
      decide_eq_true_eq] at h
    rw [MSObj]
    exact ⟨str_ne_nil_of_isEmpty h.1.1.1.1, h.1.1.1.2, h.1.1.2, msKidsB_sound kids h.1.2, h.2⟩
theorem msKidsB_sound : ∀ (l : List Obj), msKidsB l = true → MSKids l
  | [], _ => by rw [MSKids]; trivial
  | o :: os, h => by
    rw [msKidsB, Bool.and_eq_true] at h
    rw [MSKids]
    exact ⟨msObjB_sound o h.1, msKidsB_sound os h.2⟩
end

theorem msMasterB_sound (mkids : List Obj) (h : msMasterB mkids = true) : MSMaster mkids := by
  unfold msMasterB at h
  simp only [Bool.and_eq_true, decide_eq_true_eq] at h
  exact ⟨msKidsB_sound mkids h.1, h.2⟩

mutual
theorem keysDefinedMSObjB_sound (e : Envs) : ∀ (mo : Obj) (srcs : List Obj),
    keysDefinedMSObjB e mo srcs = true → KeysDefinedMSObj e mo srcs
  | .defn mm mws, srcs, h => by
    rw [keysDefinedMSObjB] at h
    rw [KeysDefinedMSObj]
    intro hmult
    rw [hmult] at h
    exact keysDefined_of_B (by simpa using h)
  | .scope mm kids, srcs, h => by
    rw [keysDefinedMSObjB] at h
    rw [KeysDefinedMSObj]
    split
    · rename_i hm
      simp only [hm, if_true, Bool.and_eq_true, List.all_eq_true] at h
      refine ⟨keysDefinedMSB_sound e kids [] h.1.1, ok_of_errOf_none h.1.2, ?_⟩
      intro s hs
      exact ⟨keysDefinedMSB_sound e kids s.children (h.2 s hs).1, ok_of_errOf_none (h.2 s hs).2⟩
    · rename_i hm
      simp only [hm, Bool.false_eq_true, if_false] at h
      exact keysDefinedMSB_sound e kids _ h
theorem keysDefinedMSB_sound (e : Envs) : ∀ (l : List Obj) (srcs : List Obj),
    keysDefinedMSB e l srcs = true → KeysDefinedMS e l srcs
  | [], _, _ => by rw [KeysDefinedMS]; trivial
  | mo :: rest, srcs, h => by
    rw [keysDefinedMSB, Bool.and_eq_true] at h
    rw [KeysDefinedMS]
    exact ⟨keysDefinedMSObjB_sound e mo srcs h.1, keysDefinedMSB_sound e rest srcs h.2⟩
end

/-- executable form of the master-side side conditions: an `MSMaster` nested at most 1000 deep, no
    definition called `include`, definitions fit for re-fetching -/
def masterCheck_ms (mkids : List Obj) : Bool :=
  msMasterB mkids && decide (depthL mkids ≤ 1000) &&
    allActive (fun d => !d.isDefn ||
      (d.name != "include".toList && d.meta.tmpl == 0 && d.meta.varRes.isNone && !hasDollar d.words)) mkids

structure MasterOK_ms (mkids : List Obj) : Prop where
  tree : MSMaster mkids
  depth : depthL mkids ≤ 1000
  noInclude : NoIncludeTree mkids
  refetch : RefetchTree mkids

theorem masterCheck_ms_sound (mkids : List Obj) (h : masterCheck_ms mkids = true) : MasterOK_ms mkids := by
  unfold masterCheck_ms at h
  simp only [Bool.and_eq_true, decide_eq_true_eq] at h
  refine ⟨msMasterB_sound mkids h.1.1, h.1.2, ?_, ?_⟩
  · intro d hd hdef
    have := allActive_sound _ hd h.2
    simp only [hdef, Bool.not_true, Bool.false_or, Bool.and_eq_true, bne_iff_ne, ne_eq] at this
    exact this.1.1.1
  · intro d hd hdef
    have := allActive_sound _ hd h.2
    simp only [hdef, Bool.not_true, Bool.false_or, Bool.and_eq_true, beq_iff_eq,
      Option.isNone_iff_eq_none, Bool.not_eq_true'] at this
    exact ⟨this.1.1.2, this.1.2, this.2⟩

/-! ## 7. the members of a block; the view of the result by name -/

/-- every object of the block of `mo` is a copy of `mo` as far as name, kind and the disabled flag go -/
theorem msBlock_member_ms (e : Envs) : ∀ (mo : Obj) (srcs : List Obj), ∀ o ∈ msBlock e mo srcs,
    o.name = mo.name ∧ o.meta.disabled = mo.meta.disabled ∧ o.isDefn = mo.isDefn
  | .defn mm mws, srcs, o, ho => by
    rw [msBlock] at ho
    exact tmBlock_member_tm e _ srcs o ho
  | .scope mm kids, srcs, o, ho => by
    rw [msBlock] at ho
    split at ho
    · rcases mem_msMultiBlock ho with rfl | ⟨t, rfl⟩ | ⟨x, hx, rfl⟩
      · exact ⟨rfl, rfl, rfl⟩
      · exact ⟨rfl, rfl, rfl⟩
      · obtain ⟨s, _, rfl⟩ := List.mem_map.mp hx
        exact ⟨rfl, rfl, rfl⟩
    · rw [List.mem_singleton] at ho
      subst ho
      exact ⟨rfl, rfl, rfl⟩

/-- in the result of an `MSMaster`, the enabled objects called like a master child are the block of
    that child -/
theorem view_ms (e : Envs) (mkids srcs : List Obj) (hf : MSMaster mkids) :
    ∀ mo ∈ mkids, activeNamed mo.name (msResult e mkids srcs) = msBlock e mo srcs := by
  rw [msResult_eq_flatMap]
  exact activeNamed_flatMap_distinct (fun mo => msBlock e mo srcs) mkids hf.distinct
    (fun mo hmo o ho => by
      have h := msBlock_member_ms e mo srcs o ho
      exact ⟨h.1, by rw [h.2.1]; exact (hf.obj mo hmo).enabled⟩)

/-- among the master's own children, the enabled objects called like a child are that child -/
theorem view_self_ms (mkids : List Obj) (hf : MSMaster mkids) :
    ∀ mo ∈ mkids, activeNamed mo.name mkids = [mo] := by
  have h := activeNamed_flatMap_distinct (fun mo => [mo]) mkids hf.distinct
    (fun mo hmo o ho => by
      rw [List.mem_singleton] at ho; subst ho
      exact ⟨rfl, (hf.obj _ hmo).enabled⟩)
  have hfl : mkids.flatMap (fun mo => [mo]) = mkids := by
    induction mkids with
    | nil => rfl
    | cons a l ih => simp
  rw [hfl] at h
  exact h

theorem scopesNamed_of_view_ms (n : Str) (R B : List Obj) (hv : activeNamed n R = B)
    (hB : ∀ o ∈ B, o.isDefn = false) : scopesNamed n R = B := by
  rw [scopesNamed_eq_filter_tree, hv, List.filter_eq_self]
  intro o ho
  unfold Obj.isScope
  rw [hB o ho]; rfl

theorem defsNamed_of_view_scope_ms (n : Str) (R B : List Obj) (hv : activeNamed n R = B)
    (hB : ∀ o ∈ B, o.isDefn = false) : defsNamed n R = [] := by
  rw [defsNamed_eq_filter_tree, hv, List.filter_eq_nil_iff]
  intro o ho
  rw [hB o ho]; simp

theorem srcStep_of_view_ms (n : Str) (R B : List Obj) (hv : activeNamed n R = B) :
    srcStep R n = B.flatMap Obj.children := by
  rw [← activeNamed_children_tree, hv]

theorem msMultiBlock_congr_ms (mo self : Obj) (k0 : Str) (cks cks' : List (Obj × Str))
    (h : dedupKeepLast (cks.filter (fun y => y.2 != k0)) = dedupKeepLast (cks'.filter (fun y => y.2 != k0))) :
    msMultiBlock mo self k0 cks = msMultiBlock mo self k0 cks' := by
  unfold msMultiBlock
  rw [h]

theorem msMultiBlock_drop_ms (mo self c : Obj) (k0 : Str) (cks : List (Obj × Str)) :
    msMultiBlock mo self k0 ((c, k0) :: cks) = msMultiBlock mo self k0 cks := by
  apply msMultiBlock_congr_ms
  rw [List.filter_cons]
  simp

/-! ## 8. C07: the master itself as a source; re-fetching the result -/

theorem candOfSrc_self_ms (mm : Meta) (mws : List Word) (ht : mm.tmpl = 0) (hv : mm.varRes = none) :
    candOfSrc (.defn mm mws) (.defn mm mws) = .defn mm mws := by
  have : (Obj.defn mm mws).srcWords = mws := srcWords_of_varRes_none _ hv
  show Obj.defn _ (Obj.defn mm mws).srcWords = _
  rw [this]
  show Obj.defn { mm with tmpl := 0 } mws = _
  rw [meta_tmpl0 mm ht]

mutual
theorem msBlock_self_ms (e : Envs) : ∀ (mo : Obj) (R : List Obj), MSObj mo → RefetchTree [mo] →
    activeNamed mo.name R = [mo] → msBlock e mo R = msBlock e mo []
  | .defn mm mws, R, ht, hr, hv => by
    rw [MSObj] at ht
    have hr' := hr (.defn mm mws) (.here (List.mem_singleton.mpr rfl) ht.2.2.2) rfl
    have hv' : activeNamed mm.name R = [.defn mm mws] := hv
    have hdn : defsNamed mm.name R = [.defn mm mws] := by
      rw [defsNamed_eq_filter_tree, hv']; rfl
    have hdn0 : defsNamed mm.name [] = [] := rfl
    rw [msBlock, msBlock, tmBlock, tmBlock, hdn, hdn0]
    cases hmult : isMultiple (.defn mm mws) with
    | false =>
      simp only [Bool.false_eq_true, if_false]
      have h1 : lastWins (.defn mm mws) [] = .defn mm mws := rfl
      have := lastWins_idem mm mws [] hr'.1 hr'.2.1
      rw [h1] at this
      rw [this, h1]
    | true =>
      simp only [if_true]
      unfold multiBlock candsOf
      simp only [List.map_cons, List.map_nil, candOfSrc_self_ms mm mws hr'.1 hr'.2.1, List.filter_cons,
        bne_self_eq_false, Bool.false_eq_true, if_false, List.filter_nil]
  | .scope mm kids, R, ht, hr, hv => by
    have hk := MSMaster.of_scope ht
    rw [MSObj] at ht
    have hv' : activeNamed mm.name R = [.scope mm kids] := hv
    have hself : msResult e kids kids = msResult e kids [] :=
      msResult_self_ms e kids kids hk.kids (hr.kids ht.2.2.1) (view_self_ms kids hk)
    rw [msBlock, msBlock]
    split
    · have hs : scopesNamed mm.name R = [.scope mm kids] :=
        scopesNamed_of_view_ms _ _ _ hv' (fun o ho => by rw [List.mem_singleton] at ho; subst ho; rfl)
      have hs0 : scopesNamed mm.name [] = [] := rfl
      rw [hs, hs0]
      simp only [List.map_cons, List.map_nil, Obj.children, hself]
      exact msMultiBlock_drop_ms _ _ _ _ []
    · have h1 : srcStep R mm.name = kids := by
        rw [srcStep_of_view_ms _ _ _ hv']; simp [Obj.children]
      have h2 : srcStep [] mm.name = [] := rfl
      rw [h1, h2, hself]
theorem msResult_self_ms (e : Envs) : ∀ (l : List Obj) (R : List Obj), MSKids l → RefetchTree l →
    (∀ mo ∈ l, activeNamed mo.name R = [mo]) → msResult e l R = msResult e l []
  | [], R, _, _, _ => by rw [msResult, msResult]
  | mo :: rest, R, ht, hr, hv => by
    rw [MSKids] at ht
    rw [msResult, msResult, msBlock_self_ms e mo R ht.1 hr.head (hv mo List.mem_cons_self),
      msResult_self_ms e rest R ht.2 hr.tail (fun o ho => hv o (List.mem_cons_of_mem _ ho))]
end

/-- **the master's own body as a source changes nothing** (`M.fetch(M) = M.fetch()`) -/
theorem msResult_self (e : Envs) (mkids : List Obj) (hf : MSMaster mkids) (hr : RefetchTree mkids) :
    msResult e mkids mkids = msResult e mkids [] :=
  msResult_self_ms e mkids mkids hf.kids hr (view_self_ms mkids hf)

/-- the candidate (with its key) the `.multiple` master scope builds from the source scope `s` -/
abbrev msCK (e : Envs) (mm : Meta) (kids : List Obj) (s : Obj) : Obj × Str :=
  (msCand e mm kids s.children, keyMS e (.scope mm kids) (msCand e mm kids s.children))

theorem msBlock_multi_eq (e : Envs) (mm : Meta) (kids srcs : List Obj)
    (hmult : (mm.attrs.get "multiple").truthy = true) :
    msBlock e (.scope mm kids) srcs =
      msMultiBlock (.scope mm kids) (msCand e mm kids []) (keyMS e (.scope mm kids) (msCand e mm kids []))
        ((scopesNamed mm.name srcs).map (msCK e mm kids)) := by
  rw [msBlock]; simp only [hmult, if_true]

/-- **the block of a `.multiple` master scope is a fixed point of the list rule**, given that the
    body's specification is idempotent and reproduces itself from the master's own body -/
theorem msMultiBlock_refetch_ms (e : Envs) (mm : Meta) (kids srcs R : List Obj)
    (hmult : (mm.attrs.get "multiple").truthy = true)
    (hidem : ∀ S, msResult e kids (msResult e kids S) = msResult e kids S)
    (hself : msResult e kids kids = msResult e kids [])
    (hv : activeNamed mm.name R = msBlock e (.scope mm kids) srcs) :
    msBlock e (.scope mm kids) R = msBlock e (.scope mm kids) srcs := by
  have hmem := msBlock_member_ms e (.scope mm kids) srcs
  rw [msBlock_multi_eq e mm kids srcs hmult] at hv hmem ⊢
  rw [msBlock_multi_eq e mm kids R hmult]
  generalize hk0 : keyMS e (.scope mm kids) (msCand e mm kids []) = k0 at hv hmem ⊢
  generalize hcks : (scopesNamed mm.name srcs).map (msCK e mm kids) = cks at hv hmem ⊢
  generalize hS : dedupKeepLast (cks.filter (fun y => y.2 != k0)) = S
  have hsc : scopesNamed mm.name R =
      msMultiBlock (.scope mm kids) (msCand e mm kids []) k0 cks :=
    scopesNamed_of_view_ms _ _ _ hv (fun o ho => (hmem o ho).2.2)
  have hblock : msMultiBlock (.scope mm kids) (msCand e mm kids []) k0 cks =
      (if ((Obj.scope mm kids).attr "optional").mandatory then withTmpl (msCand e mm kids []) 0
       else withTmpl (.scope mm kids) (if S.isEmpty then 1 else -1)) :: S.map (·.1) := by
    unfold msMultiBlock; rw [hS]
  have hT : msCK e mm kids
      (if ((Obj.scope mm kids).attr "optional").mandatory then withTmpl (msCand e mm kids []) 0
       else withTmpl (.scope mm kids) (if S.isEmpty then 1 else -1)) = (msCand e mm kids [], k0) := by
    split
    · show (msCand e mm kids (msResult e kids []), keyMS e _ (msCand e mm kids (msResult e kids []))) = _
      have : msCand e mm kids (msResult e kids []) = msCand e mm kids [] := by
        unfold msCand; rw [hidem []]
      rw [this, hk0]
    · show (msCand e mm kids kids, keyMS e _ (msCand e mm kids kids)) = _
      have : msCand e mm kids kids = msCand e mm kids [] := by
        unfold msCand; rw [hself]
      rw [this, hk0]
  have hSmem : ∀ x ∈ S, x ∈ cks ∧ (x.2 != k0) = true := by
    intro x hx
    rw [← hS] at hx
    exact List.mem_filter.mp ((dedupKeepLast_sublist _).subset hx)
  have hSmap : (S.map (·.1)).map (msCK e mm kids) = S := by
    rw [List.map_map]
    calc S.map _ = S.map id := by
          apply List.map_congr_left
          intro x hx
          have hxc := (hSmem x hx).1
          rw [← hcks] at hxc
          obtain ⟨s, _, rfl⟩ := List.mem_map.mp hxc
          show (msCand e mm kids (msResult e kids s.children),
            keyMS e _ (msCand e mm kids (msResult e kids s.children))) = _
          have : msCand e mm kids (msResult e kids s.children) = msCand e mm kids s.children := by
            unfold msCand; rw [hidem s.children]
          rw [this]
          rfl
      _ = S := List.map_id _
  rw [hsc, hblock, List.map_cons, hT, hSmap, msMultiBlock_drop_ms, ← hblock]
  apply msMultiBlock_congr_ms
  rw [hS, List.filter_eq_self.mpr (fun x hx => (hSmem x hx).2), ← hS, dedupKeepLast_idem]

mutual
theorem msBlock_view_idem_ms (e : Envs) : ∀ (mo : Obj) (srcs R : List Obj), MSObj mo → RefetchTree [mo] →
    activeNamed mo.name R = msBlock e mo srcs → msBlock e mo R = msBlock e mo srcs
  | .defn mm mws, srcs, R, ht, hr, hv => by
    rw [msBlock] at hv ⊢
    rw [msBlock]
    exact tmBlock_view_idem_tm e (.defn mm mws) srcs R (by rw [MSObj] at ht; rw [TMObj]; exact ht) hr hv
  | .scope mm kids, srcs, R, ht, hr, hv => by
    have hk := MSMaster.of_scope ht
    rw [MSObj] at ht
    have hrk := hr.kids ht.2.2.1
    have hidem : ∀ S, msResult e kids (msResult e kids S) = msResult e kids S :=
      fun S => msResult_view_idem_ms e kids S _ hk.kids hrk (view_ms e kids S hk)
    cases hmult : (mm.attrs.get "multiple").truthy with
    | true => exact msMultiBlock_refetch_ms e mm kids srcs R hmult hidem (msResult_self e kids hk hrk) hv
    | false =>
      have hv' : activeNamed mm.name R = msBlock e (.scope mm kids) srcs := hv
      rw [msBlock] at hv' ⊢
      rw [msBlock]
      simp only [hmult, Bool.false_eq_true, if_false] at hv' ⊢
      rw [srcStep_of_view_ms _ _ _ hv']
      simp only [List.flatMap_cons, List.flatMap_nil, List.append_nil, Obj.children]
      rw [hidem]
theorem msResult_view_idem_ms (e : Envs) : ∀ (l : List Obj) (srcs R : List Obj), MSKids l →
    RefetchTree l → (∀ mo ∈ l, activeNamed mo.name R = msBlock e mo srcs) →
    msResult e l R = msResult e l srcs
  | [], srcs, R, _, _, _ => by rw [msResult, msResult]
  | mo :: rest, srcs, R, ht, hr, hv => by
    rw [MSKids] at ht
    rw [msResult, msResult,
      msBlock_view_idem_ms e mo srcs R ht.1 hr.head (hv mo List.mem_cons_self),
      msResult_view_idem_ms e rest srcs R ht.2 hr.tail (fun o ho => hv o (List.mem_cons_of_mem _ ho))]
end

/-- **the specification is idempotent**: the result, taken as the only source, is reproduced -/
theorem msResult_idem (e : Envs) (mkids srcs : List Obj) (hf : MSMaster mkids) (hr : RefetchTree mkids) :
    msResult e mkids (msResult e mkids srcs) = msResult e mkids srcs :=
  msResult_view_idem_ms e mkids srcs _ hf.kids hr (view_ms e mkids srcs hf)

/-! ## 9. C07: the side conditions of the re-fetch hold on the result -/

theorem msNoClashObj_scope_of_ms (mm : Meta) (kids R B : List Obj)
    (hv : activeNamed mm.name R = B) (hB : ∀ o ∈ B, o.isDefn = false)
    (hmult : (mm.attrs.get "multiple").truthy = true)
    (hall : ∀ o ∈ B, msNoClash kids o.children = true) :
    msNoClashObj (.scope mm kids) R = true := by
  rw [msNoClashObj, defsNamed_of_view_scope_ms _ _ _ hv hB, scopesNamed_of_view_ms _ _ _ hv hB]
  simp only [hmult, if_true, List.isEmpty_nil, Bool.true_and]
  exact List.all_eq_true.mpr hall

mutual
theorem msSide_self_obj (e : Envs) : ∀ (mo : Obj) (R : List Obj), MSObj mo → RefetchTree [mo] →
    activeNamed mo.name R = [mo] →
    msNoClashObj mo R = true ∧ (KeysDefinedMSObj e mo [] → KeysDefinedMSObj e mo R)
  | .defn mm mws, R, ht, hr, hv => by
    rw [MSObj] at ht
    have hr' := hr (.defn mm mws) (.here (List.mem_singleton.mpr rfl) ht.2.2.2) rfl
    have hv' : activeNamed mm.name R = [.defn mm mws] := hv
    constructor
    · rw [msNoClashObj, scopesNamed_eq_filter_tree, hv']; rfl
    · intro hk
      rw [KeysDefinedMSObj] at hk ⊢
      intro hmult
      have hdn : defsNamed mm.name R = [.defn mm mws] := by rw [defsNamed_eq_filter_tree, hv']; rfl
      rw [hdn]
      refine ⟨(hk hmult).1, ?_⟩
      intro d hd
      rw [List.mem_singleton] at hd; subst hd
      rw [candOfSrc_self_ms mm mws hr'.1 hr'.2.1]
      exact (hk hmult).1
  | .scope mm kids, R, ht, hr, hv => by
    have hkm := MSMaster.of_scope ht
    rw [MSObj] at ht
    have hrk := hr.kids ht.2.2.1
    have hv' : activeNamed mm.name R = [.scope mm kids] := hv
    have hB : ∀ o ∈ [Obj.scope mm kids], o.isDefn = false := by
      intro o ho; rw [List.mem_singleton] at ho; subst ho; rfl
    have ih := msSide_self_list e kids kids hkm.kids hrk (view_self_ms kids hkm)
    cases hmult : (mm.attrs.get "multiple").truthy with
    | true =>
      constructor
      · apply msNoClashObj_scope_of_ms mm kids R _ hv' hB hmult
        intro o ho; rw [List.mem_singleton] at ho; subst ho; exact ih.1
      · intro hk
        rw [KeysDefinedMSObj] at hk ⊢
        simp only [hmult, if_true] at hk ⊢
        refine ⟨hk.1, hk.2.1, ?_⟩
        intro s hs
        rw [scopesNamed_of_view_ms _ _ _ hv' hB, List.mem_singleton] at hs
        subst hs
        refine ⟨ih.2 hk.1, ?_⟩
        show ∃ k, extractFormatStr e _ _ (.scope { mm with tmpl := 0 } (msResult e kids kids)) = .ok k
        rw [msResult_self e kids hkm hrk]
        exact hk.2.1
    | false =>
      have h1 : srcStep R mm.name = kids := by
        rw [srcStep_of_view_ms _ _ _ hv']; simp [Obj.children]
      constructor
      · rw [msNoClashObj, defsNamed_of_view_scope_ms _ _ _ hv' hB, h1]
        simp only [hmult, Bool.false_eq_true, if_false, List.isEmpty_nil, Bool.true_and]
        exact ih.1
      · intro hk
        rw [KeysDefinedMSObj] at hk ⊢
        simp only [hmult, Bool.false_eq_true, if_false] at hk ⊢
        rw [h1]
        exact ih.2 hk
theorem msSide_self_list (e : Envs) : ∀ (l : List Obj) (R : List Obj), MSKids l → RefetchTree l →
    (∀ mo ∈ l, activeNamed mo.name R = [mo]) →
    msNoClash l R = true ∧ (KeysDefinedMS e l [] → KeysDefinedMS e l R)
  | [], R, _, _, _ => by
    rw [msNoClash]; exact ⟨rfl, fun _ => by rw [KeysDefinedMS]; trivial⟩
  | mo :: rest, R, ht, hr, hv => by
    rw [MSKids] at ht
    have h1 := msSide_self_obj e mo R ht.1 hr.head (hv mo List.mem_cons_self)
    have h2 := msSide_self_list e rest R ht.2 hr.tail (fun o ho => hv o (List.mem_cons_of_mem _ ho))
    constructor
    · rw [msNoClash, h1.1, h2.1]; rfl
    · intro hk
      rw [KeysDefinedMS] at hk ⊢
      exact ⟨h1.2 hk.1, h2.2 hk.2⟩
end

mutual
theorem msSide_view_obj (e : Envs) : ∀ (mo : Obj) (srcs R : List Obj), MSObj mo → RefetchTree [mo] →
    KeysDefinedMSObj e mo srcs → activeNamed mo.name R = msBlock e mo srcs →
    msNoClashObj mo R = true ∧ KeysDefinedMSObj e mo R
  | .defn mm mws, srcs, R, ht, hr, hk, hv => by
    have ht' : TMObj (.defn mm mws) := by rw [MSObj] at ht; rw [TMObj]; exact ht
    rw [msBlock] at hv
    constructor
    · rw [msNoClashObj, ← noClashObj]
      exact noClashObj_view_tm e (.defn mm mws) srcs R ht' hv
    · rw [KeysDefinedMSObj, ← KeysDefinedObj]
      rw [KeysDefinedMSObj, ← KeysDefinedObj] at hk
      exact keysDefinedObj_view_tm e (.defn mm mws) srcs R ht' hr hk hv
  | .scope mm kids, srcs, R, ht, hr, hk, hv => by
    have hkm := MSMaster.of_scope ht
    rw [MSObj] at ht
    have hrk := hr.kids ht.2.2.1
    have hv' : activeNamed mm.name R = msBlock e (.scope mm kids) srcs := hv
    have hB : ∀ o ∈ msBlock e (.scope mm kids) srcs, o.isDefn = false :=
      fun o ho => (msBlock_member_ms e _ srcs o ho).2.2
    have hidem : ∀ S, msResult e kids (msResult e kids S) = msResult e kids S :=
      fun S => msResult_idem e kids S hkm hrk
    have ih : ∀ S, KeysDefinedMS e kids S →
        msNoClash kids (msResult e kids S) = true ∧ KeysDefinedMS e kids (msResult e kids S) :=
      fun S hS => msSide_view_list e kids S _ hkm.kids hrk hS (view_ms e kids S hkm)
    rw [KeysDefinedMSObj] at hk
    cases hmult : (mm.attrs.get "multiple").truthy with
    | true =>
      simp only [hmult, if_true] at hk
      have hself := msSide_self_list e kids kids hkm.kids hrk (view_self_ms kids hkm)
      -- what every object of the block provides as a source block
      have hobj : ∀ o ∈ msBlock e (.scope mm kids) srcs,
          msNoClash kids o.children = true ∧ KeysDefinedMS e kids o.children ∧
          ∃ k, extractFormatStr e (depthL kids + 1 + 64) (.scope mm kids)
            (.scope { mm with tmpl := 0 } (msResult e kids o.children)) = .ok k := by
        intro o ho
        rw [msBlock_multi_eq e mm kids srcs hmult] at ho
        rcases mem_msMultiBlock ho with rfl | ⟨t, rfl⟩ | ⟨x, hx, rfl⟩
        · show msNoClash kids (msResult e kids []) = true ∧ KeysDefinedMS e kids (msResult e kids []) ∧
            ∃ k, extractFormatStr e _ _ (.scope { mm with tmpl := 0 } (msResult e kids (msResult e kids []))) = .ok k
          rw [hidem []]
          exact ⟨(ih [] hk.1).1, (ih [] hk.1).2, hk.2.1⟩
        · show msNoClash kids kids = true ∧ KeysDefinedMS e kids kids ∧
            ∃ k, extractFormatStr e _ _ (.scope { mm with tmpl := 0 } (msResult e kids kids)) = .ok k
          rw [msResult_self e kids hkm hrk]
          exact ⟨hself.1, hself.2 hk.1, hk.2.1⟩
        · obtain ⟨s, hs, rfl⟩ := List.mem_map.mp hx
          show msNoClash kids (msResult e kids s.children) = true ∧
            KeysDefinedMS e kids (msResult e kids s.children) ∧
            ∃ k, extractFormatStr e _ _
              (.scope { mm with tmpl := 0 } (msResult e kids (msResult e kids s.children))) = .ok k
          rw [hidem s.children]
          exact ⟨(ih _ (hk.2.2 s hs).1).1, (ih _ (hk.2.2 s hs).1).2, (hk.2.2 s hs).2⟩
      constructor
      · exact msNoClashObj_scope_of_ms mm kids R _ hv' hB hmult (fun o ho => (hobj o ho).1)
      · rw [KeysDefinedMSObj]
        simp only [hmult, if_true]
        refine ⟨hk.1, hk.2.1, ?_⟩
        intro s hs
        rw [scopesNamed_of_view_ms _ _ _ hv' hB] at hs
        exact ⟨(hobj s hs).2.1, (hobj s hs).2.2⟩
    | false =>
      simp only [hmult, Bool.false_eq_true, if_false] at hk
      have hb : msBlock e (.scope mm kids) srcs = [msCand e mm kids (srcStep srcs mm.name)] := by
        rw [msBlock]; simp only [hmult, Bool.false_eq_true, if_false]
      have h1 : srcStep R mm.name = msResult e kids (srcStep srcs mm.name) := by
        rw [srcStep_of_view_ms _ _ _ hv', hb]; simp [Obj.children]
      constructor
      · rw [msNoClashObj, defsNamed_of_view_scope_ms _ _ _ hv' hB, h1]
        simp only [hmult, Bool.false_eq_true, if_false, List.isEmpty_nil, Bool.true_and]
        exact (ih _ hk).1
      · rw [KeysDefinedMSObj]
        simp only [hmult, Bool.false_eq_true, if_false]
        rw [h1]
        exact (ih _ hk).2
theorem msSide_view_list (e : Envs) : ∀ (l : List Obj) (srcs R : List Obj), MSKids l → RefetchTree l →
    KeysDefinedMS e l srcs → (∀ mo ∈ l, activeNamed mo.name R = msBlock e mo srcs) →
    msNoClash l R = true ∧ KeysDefinedMS e l R
  | [], srcs, R, _, _, _, _ => by
    rw [msNoClash, KeysDefinedMS]; exact ⟨rfl, trivial⟩
  | mo :: rest, srcs, R, ht, hr, hk, hv => by
    rw [MSKids] at ht
    rw [KeysDefinedMS] at hk
    have h1 := msSide_view_obj e mo srcs R ht.1 hr.head hk.1 (hv mo List.mem_cons_self)
    have h2 := msSide_view_list e rest srcs R ht.2 hr.tail hk.2 (fun o ho => hv o (List.mem_cons_of_mem _ ho))
    rw [msNoClash, KeysDefinedMS, h1.1, h2.1]
    exact ⟨rfl, h1.2, h2.2⟩
end

/-- the result never clashes with its master, and its keys are defined -/
theorem msSide_result (e : Envs) (mkids srcs : List Obj) (hf : MSMaster mkids) (hr : RefetchTree mkids)
    (hk : KeysDefinedMS e mkids srcs) :
    msNoClash mkids (msResult e mkids srcs) = true ∧ KeysDefinedMS e mkids (msResult e mkids srcs) :=
  msSide_view_list e mkids srcs _ hf.kids hr hk (view_ms e mkids srcs hf)

/-! ### the result is a well-formed source tree -/

/-- what `SrcTree` asks of one object: a definition carries no recorded resolution and variable-free
    words, a scope is named -/
def srcGoodB (o : Obj) : Bool :=
  if o.isDefn then o.meta.varRes.isNone && !hasDollar o.words else !o.name.isEmpty

theorem allActive_append_ms (P : Obj → Bool) : ∀ (a b : List Obj),
    allActive P (a ++ b) = (allActive P a && allActive P b)
  | [], b => by rw [allActive, List.nil_append, Bool.true_and]
  | o :: a, b => by rw [List.cons_append, allActive, allActive, allActive_append_ms P a b, Bool.and_assoc]

theorem allActive_of_forall_ms (P : Obj → Bool) : ∀ (l : List Obj),
    (∀ o ∈ l, allActiveObj P o = true) → allActive P l = true
  | [], _ => by rw [allActive]
  | o :: os, h => by
    rw [allActive, h o List.mem_cons_self,
      allActive_of_forall_ms P os (fun x hx => h x (List.mem_cons_of_mem _ hx))]
    simp

theorem srcTree_of_good_ms (R : List Obj) (h : allActive srcGoodB R = true) : SrcTree R := by
  constructor
  · intro x hx hdef
    have := allActive_sound srcGoodB hx h
    unfold srcGoodB at this
    simp only [hdef, if_true, Bool.and_eq_true, Option.isNone_iff_eq_none, Bool.not_eq_true'] at this
    exact .inr this
  · intro m kids hx
    have := allActive_sound srcGoodB hx h
    unfold srcGoodB at this
    simp only [Obj.isDefn, Bool.false_eq_true, if_false, Bool.not_eq_true'] at this
    exact str_ne_nil_of_isEmpty this

mutual
theorem good_master_obj_ms : ∀ (mo : Obj), MSObj mo → RefetchTree [mo] → allActiveObj srcGoodB mo = true
  | .defn mm mws, ht, hr => by
    rw [MSObj] at ht
    have hr' := hr (.defn mm mws) (.here (List.mem_singleton.mpr rfl) ht.2.2.2) rfl
    rw [allActiveObj]
    unfold srcGoodB
    simp only [Obj.isDefn, if_true, Bool.and_eq_true, Option.isNone_iff_eq_none, Bool.not_eq_true']
    exact ⟨hr'.2.1, hr'.2.2⟩
  | .scope mm kids, ht, hr => by
    have hkm := MSMaster.of_scope ht
    rw [MSObj] at ht
    rw [allActiveObj, good_master_list_ms kids hkm.kids (hr.kids ht.2.2.1)]
    unfold srcGoodB
    have : (mm.name.isEmpty) = false := by
      cases h : mm.name with
      | nil => exact absurd h ht.1
      | cons => rfl
    simp [Obj.isDefn, Obj.name, Obj.meta, this]
theorem good_master_list_ms : ∀ (l : List Obj), MSKids l → RefetchTree l → allActive srcGoodB l = true
  | [], _, _ => by rw [allActive]
  | mo :: rest, ht, hr => by
    rw [MSKids] at ht
    rw [allActive, good_master_obj_ms mo ht.1 hr.head, good_master_list_ms rest ht.2 hr.tail]
    simp
end

theorem SrcNoDollar.child_ms {srcs : List Obj} (h : SrcNoDollar srcs) {s : Obj} (hs : s ∈ srcs)
    (hd : s.meta.disabled = false) : SrcNoDollar s.children := by
  cases s with
  | defn m ws => intro x hx; exact (not_activeIn_nil_ms hx).elim
  | scope m sk => exact fun x hx hdef => h x (.deeper hs hd hx) hdef

theorem SrcNoDollar.nil_ms : SrcNoDollar [] := fun x hx => (not_activeIn_nil_ms hx).elim

theorem allActiveObj_scope_ms (m : Meta) (kids : List Obj) (hn : m.name ≠ [])
    (hk : allActive srcGoodB kids = true) : allActiveObj srcGoodB (.scope m kids) = true := by
  rw [allActiveObj, hk]
  unfold srcGoodB
  have : (m.name.isEmpty) = false := by
    cases h : m.name with
    | nil => exact absurd h hn
    | cons => rfl
  simp [Obj.isDefn, Obj.name, Obj.meta, this]

mutual
theorem good_msBlock (e : Envs) : ∀ (mo : Obj) (srcs : List Obj), MSObj mo → RefetchTree [mo] →
    SrcNoDollar srcs → allActive srcGoodB (msBlock e mo srcs) = true
  | .defn mm mws, srcs, ht, hr, hdol => by
    rw [MSObj] at ht
    have hr' := hr (.defn mm mws) (.here (List.mem_singleton.mpr rfl) ht.2.2.2) rfl
    have hS' : ∀ d ∈ defsNamed mm.name srcs, hasDollar d.srcWords = false := by
      intro d hd
      have hd' := mem_defsNamed.mp hd
      exact hdol d (.here hd'.1 hd'.2.2.1) hd'.2.1
    apply allActive_of_forall_ms
    intro o ho
    rw [msBlock] at ho
    have hok : SrcOK o ∧ o.meta.varRes = none := by
      rw [tmBlock] at ho
      split at ho
      · rcases mem_multiBlock_tm ho with ⟨t, rfl⟩ | ⟨d, hd, rfl⟩
        · exact ⟨.inr ⟨hr'.2.1, hr'.2.2⟩, hr'.2.1⟩
        · exact ⟨.inr ⟨hr'.2.1, hS' d hd⟩, hr'.2.1⟩
      · rw [List.mem_singleton] at ho
        subst ho
        exact ⟨lastWins_srcOK _ _ hr'.2.1 hr'.2.2 hS', by rw [lastWins_varRes]; exact hr'.2.1⟩
    have hdef := (tmBlock_member_tm e (.defn mm mws) srcs o ho).2.2
    cases o with
    | scope m k => cases hdef
    | defn m ws =>
      rw [allActiveObj]
      unfold srcGoodB
      simp only [Obj.isDefn, if_true, Bool.and_eq_true, Option.isNone_iff_eq_none, Bool.not_eq_true']
      rcases hok.1 with ⟨rws, refs, h⟩ | h
      · rw [hok.2] at h; cases h
      · exact h
  | .scope mm kids, srcs, ht, hr, hdol => by
    have hkm := MSMaster.of_scope ht
    rw [MSObj] at ht
    have hrk := hr.kids ht.2.2.1
    apply allActive_of_forall_ms
    intro o ho
    rw [msBlock] at ho
    split at ho
    · rcases mem_msMultiBlock ho with rfl | ⟨t, rfl⟩ | ⟨x, hx, rfl⟩
      · exact allActiveObj_scope_ms _ _ ht.1 (good_msResult e kids [] hkm.kids hrk SrcNoDollar.nil_ms)
      · exact allActiveObj_scope_ms _ _ ht.1 (good_master_list_ms kids hkm.kids hrk)
      · obtain ⟨s, hs, rfl⟩ := List.mem_map.mp hx
        have hs' := mem_scopesNamed.mp hs
        exact allActiveObj_scope_ms _ _ ht.1
          (good_msResult e kids s.children hkm.kids hrk (hdol.child_ms hs'.1 hs'.2.2.1))
    · rw [List.mem_singleton] at ho
      subst ho
      exact allActiveObj_scope_ms _ _ ht.1
        (good_msResult e kids _ hkm.kids hrk (fun x hx hdef => hdol x (activeIn_srcStep hx) hdef))
theorem good_msResult (e : Envs) : ∀ (l : List Obj) (srcs : List Obj), MSKids l → RefetchTree l →
    SrcNoDollar srcs → allActive srcGoodB (msResult e l srcs) = true
  | [], srcs, _, _, _ => by rw [msResult, allActive]
  | mo :: rest, srcs, ht, hr, hdol => by
    rw [MSKids] at ht
    rw [msResult, allActive_append_ms, good_msBlock e mo srcs ht.1 hr.head hdol,
      good_msResult e rest srcs ht.2 hr.tail hdol]
    rfl
end

/-- the result of such a master is itself a well-formed source tree -/
theorem srcTree_msResult (e : Envs) (mkids srcs : List Obj) (hf : MSMaster mkids)
    (hr : RefetchTree mkids) (hdol : SrcNoDollar srcs) : SrcTree (msResult e mkids srcs) :=
  srcTree_of_good_ms _ (good_msResult e mkids srcs hf.kids hr hdol)

/-- **C07.**  Fetching the result again, as the only source, returns the same result (and cannot
    fail). -/
theorem ms_refetch_idempotent (e : Envs) (fuel : Nat) (sm : Meta) (mkids srcs : List Obj)
    (hf : MSMaster mkids) (hfuel : depthL mkids + 1 ≤ fuel) (hsd : sm.disabled = false)
    (hr : RefetchTree mkids) (hdol : SrcNoDollar srcs) (hkeys : KeysDefinedMS e mkids srcs) :
    fetchScope e fuel false sm mkids (msResult e mkids srcs) =
      .ok (.scope { sm with tmpl := 0 } (msResult e mkids srcs), msUsed mkids (msResult e mkids srcs)) := by
  have hside := msSide_result e mkids srcs hf hr hkeys
  rw [fetch_ms_total e fuel sm mkids _ hf hfuel hsd (srcTree_msResult e mkids srcs hf hr hdol) hside.2,
    hside.1, msResult_idem e mkids srcs hf hr]
  rfl

/-- **C07 (the master as an extra source).**  Fetching the master's own body gives the same result
    as fetching nothing. -/
theorem ms_fetch_self (e : Envs) (fuel : Nat) (sm : Meta) (mkids : List Obj)
    (hf : MSMaster mkids) (hfuel : depthL mkids + 1 ≤ fuel) (hsd : sm.disabled = false)
    (hr : RefetchTree mkids) (hkeys : KeysDefinedMS e mkids []) :
    fetchScope e fuel false sm mkids mkids =
      .ok (.scope { sm with tmpl := 0 } (msResult e mkids []), msUsed mkids mkids) := by
  have hside := msSide_self_list e mkids mkids hf.kids hr (view_self_ms mkids hf)
  rw [fetch_ms_total e fuel sm mkids _ hf hfuel hsd
    (srcTree_of_good_ms _ (good_master_list_ms mkids hf.kids hr)) (hside.2 hkeys),
    hside.1, msResult_self e mkids hf hr]
  rfl

/-! ## 10. C06: the consumed ids and `all_definitions` -/

theorem mem_allDefsList_flatMap_ms (q : Str) (x : Str × Meta × List Word) : ∀ (L : List Obj),
    x ∈ allDefsObj.allDefsList (L.flatMap Obj.children) q ↔
      ∃ s ∈ L, x ∈ allDefsObj.allDefsList s.children q
  | [] => by
    rw [List.flatMap_nil, allDefsObj.allDefsList]
    simp
  | s :: L => by
    rw [List.flatMap_cons, allDefsList_append_tree, List.mem_append, mem_allDefsList_flatMap_ms q x L]
    simp

theorem SrcPlain.child_ms {srcs : List Obj} (h : SrcPlain srcs) {s : Obj} (hs : s ∈ srcs)
    (hd : s.meta.disabled = false) : SrcPlain s.children := by
  cases s with
  | defn m ws =>
    exact ⟨fun x hx => (not_activeIn_nil_ms hx).elim, fun x hx => (not_activeIn_nil_ms hx).elim⟩
  | scope m sk =>
    exact ⟨fun x hx hdef => h.noRefs x (.deeper hs hd hx) hdef, fun x hx => h.dotfree x (.deeper hs hd hx)⟩

mutual
theorem mem_msUsedObj : ∀ (mo : Obj) (srcs : List Obj) (p : Str) (i : Nat),
    MSObj mo → NoIncludeTree [mo] → SrcPlain srcs →
    (i ∈ msUsedObj mo srcs ↔
      ∃ x ∈ allDefsObj.allDefsList srcs p, x.2.1.id = some i ∧ x.1 ∈ defPathsObj mo p)
  | .defn mm mws, srcs, p, i, ht, hinc, hs => by
    rw [msUsedObj, ← treeUsedObj]
    exact mem_treeUsedObj_tm (.defn mm mws) srcs p i (by rw [MSObj] at ht; rw [TMObj]; exact ht) hinc hs
  | .scope mm kids, srcs, p, i, ht, hinc, hs => by
    have hkids := (MSMaster.of_scope ht).kids
    rw [MSObj] at ht
    have hinck : NoIncludeTree kids := fun d hd hdef =>
      hinc d (.deeper (List.mem_singleton.mpr rfl) ht.2.2.1 hd) hdef
    have hA := allDefs_srcStep_tree mm.name p ht.2.1 srcs (fun o ho hd => hs.dotfree o (.here ho hd))
    -- both kinds of scope consume what the body consumes from the children of the source scopes
    have hbody : i ∈ msUsedObj (.scope mm kids) srcs ↔
        ∃ x ∈ allDefsObj.allDefsList (srcStep srcs mm.name) (p ++ mm.name ++ ['.']),
          x.2.1.id = some i ∧ x.1 ∈ defPaths kids (p ++ mm.name ++ ['.']) := by
      rw [msUsedObj]
      split
      · rw [List.mem_flatMap]
        constructor
        · rintro ⟨s, hs', hi⟩
          have hs'' := mem_scopesNamed.mp hs'
          obtain ⟨x, hx, hid, hp⟩ := (mem_msUsed kids s.children (p ++ mm.name ++ ['.']) i hkids hinck
            (hs.child_ms hs''.1 hs''.2.2.1)).mp hi
          exact ⟨x, (mem_allDefsList_flatMap_ms _ x _).mpr ⟨s, hs', hx⟩, hid, hp⟩
        · rintro ⟨x, hx, hid, hp⟩
          obtain ⟨s, hs', hxs⟩ := (mem_allDefsList_flatMap_ms _ x _).mp hx
          have hs'' := mem_scopesNamed.mp hs'
          exact ⟨s, hs', (mem_msUsed kids s.children (p ++ mm.name ++ ['.']) i hkids hinck
            (hs.child_ms hs''.1 hs''.2.2.1)).mpr ⟨x, hxs, hid, hp⟩⟩
      · exact mem_msUsed kids (srcStep srcs mm.name) (p ++ mm.name ++ ['.']) i hkids hinck (hs.step mm.name)
    rw [hbody, defPathsObj, ← hA]
    constructor
    · rintro ⟨x, hx, hid, hpath⟩
      exact ⟨x, (List.mem_filter.mp hx).1, hid, hpath⟩
    · rintro ⟨x, hx, hid, hpath⟩
      obtain ⟨r, hr⟩ := defPaths_prefix_tree kids _ _ hpath
      exact ⟨x, List.mem_filter.mpr ⟨hx, (startsWith_iff_tree _ _).mpr ⟨r, hr⟩⟩, hid, hpath⟩
theorem mem_msUsed : ∀ (mkids : List Obj) (srcs : List Obj) (p : Str) (i : Nat),
    MSKids mkids → NoIncludeTree mkids → SrcPlain srcs →
    (i ∈ msUsed mkids srcs ↔
      ∃ x ∈ allDefsObj.allDefsList srcs p, x.2.1.id = some i ∧ x.1 ∈ defPaths mkids p)
  | [], srcs, p, i, _, _, _ => by
    rw [msUsed, defPaths]
    simp
  | mo :: rest, srcs, p, i, ht, hinc, hs => by
    rw [MSKids] at ht
    rw [msUsed, defPaths, List.mem_append, mem_msUsedObj mo srcs p i ht.1 hinc.head hs,
      mem_msUsed rest srcs p i ht.2 hinc.tail hs]
    constructor
    · rintro (⟨x, hx, hid, hp⟩ | ⟨x, hx, hid, hp⟩)
      · exact ⟨x, hx, hid, List.mem_append.mpr (.inl hp)⟩
      · exact ⟨x, hx, hid, List.mem_append.mpr (.inr hp)⟩
    · rintro ⟨x, hx, hid, hp⟩
      rcases List.mem_append.mp hp with hp | hp
      · exact .inl ⟨x, hx, hid, hp⟩
      · exact .inr ⟨x, hx, hid, hp⟩
end

/-- **C06 (consumed ids, exactly).**  The consumed ids are exactly the ids of the entries of
    `all_definitions(sources)` whose full path is the path of a master definition — inside
    `.multiple` scopes too, whichever instance they belong to and whether that instance survives. -/
theorem ms_used_exact (mkids srcs : List Obj) (hf : MSMaster mkids)
    (hinc : NoIncludeTree mkids) (hs : SrcPlain srcs) (i : Nat) :
    i ∈ msUsed mkids srcs ↔
      ∃ x ∈ allDefinitions srcs, x.2.1.id = some i ∧ x.1 ∈ defPaths mkids [] :=
  mem_msUsed mkids srcs [] i hf.kids hinc hs

/-- **C06 (unused list, exactly).** -/
theorem ms_unused_exact (e : Envs) (fuel : Nat) (sm : Meta) (mkids srcs : List Obj)
    (hf : MSMaster mkids) (hfuel : depthL mkids + 1 ≤ fuel) (hsd : sm.disabled = false)
    (hinc : NoIncludeTree mkids) (hsrc : SrcTree srcs) (hs : SrcPlain srcs)
    (hkeys : KeysDefinedMS e mkids srcs)
    (hsome : ∀ x ∈ allDefinitions srcs, x.2.1.id ≠ none)
    (hids : ((allDefinitions srcs).map (fun x => x.2.1.id)).Nodup)
    (ro : Obj) (used : List Nat)
    (h : fetchScope e fuel false sm mkids srcs = .ok (ro, used)) :
    (allDefinitions srcs).filter (notConsumed used) =
      (allDefinitions srcs).filter (fun x => !(defPaths mkids []).contains x.1) := by
  obtain ⟨_, _, hu⟩ := fetch_ms_ok e fuel sm mkids srcs hf hfuel hsd hsrc hkeys ro used h
  subst hu
  exact unused_filter_exact_tree _ srcs _ hsome hids (ms_used_exact mkids srcs hf hinc hs)

mutual
theorem defPathsObj_eq_allDefs_ms : ∀ (o : Obj) (p : Str), MSObj o → NoIncludeTree [o] →
    defPathsObj o p = (allDefsObj o p).map (·.1)
  | .defn mm mws, p, ht, hinc =>
    defPathsObj_eq_allDefs_tm (.defn mm mws) p (by rw [MSObj] at ht; rw [TMObj]; exact ht) hinc
  | .scope mm kids, p, ht, hinc => by
    have hk := (MSMaster.of_scope ht).kids
    rw [MSObj] at ht
    rw [defPathsObj, allDefsObj]
    exact defPaths_eq_allDefs_ms kids _ hk
      (fun d hd hdef => hinc d (.deeper (List.mem_singleton.mpr rfl) ht.2.2.1 hd) hdef)
theorem defPaths_eq_allDefs_ms : ∀ (l : List Obj) (p : Str), MSKids l → NoIncludeTree l →
    defPaths l p = (allDefsObj.allDefsList l p).map (·.1)
  | [], p, _, _ => by rw [defPaths, allDefsObj.allDefsList]; rfl
  | o :: os, p, ht, hinc => by
    rw [MSKids] at ht
    have hen : o.meta.disabled = false := ht.1.enabled
    rw [defPaths, allDefsObj.allDefsList, hen, List.map_append,
      defPathsObj_eq_allDefs_ms o p ht.1 hinc.head, defPaths_eq_allDefs_ms os p ht.2 hinc.tail]
    rfl
end

/-- the definition paths of such a master are the paths `all_definitions(master)` lists -/
theorem defPaths_eq_allDefinitions_ms (mkids : List Obj) (hf : MSMaster mkids)
    (hinc : NoIncludeTree mkids) : defPaths mkids [] = (allDefinitions mkids).map (·.1) :=
  defPaths_eq_allDefs_ms mkids [] hf.kids hinc

/-! ## 11. C04: the result declares exactly the master's parameter paths -/

theorem msBlock_ne_nil_ms (e : Envs) : ∀ (mo : Obj) (srcs : List Obj), msBlock e mo srcs ≠ []
  | .defn mm mws, srcs => by rw [msBlock]; exact tmBlock_ne_nil_tm e _ srcs
  | .scope mm kids, srcs => by
    rw [msBlock]
    split
    · unfold msMultiBlock; exact List.cons_ne_nil _ _
    · exact List.cons_ne_nil _ _

mutual
theorem mem_defPaths_msBlock (e : Envs) : ∀ (mo : Obj) (srcs : List Obj) (p q : Str),
    q ∈ defPaths (msBlock e mo srcs) p ↔ q ∈ defPathsObj mo p
  | .defn mm mws, srcs, p, q => by
    rw [msBlock]; exact mem_defPaths_tmBlock_tm e (.defn mm mws) srcs p q
  | .scope mm kids, srcs, p, q => by
    have hobj : ∀ o ∈ msBlock e (.scope mm kids) srcs,
        (q ∈ defPathsObj o p ↔ q ∈ defPaths kids (p ++ mm.name ++ ['.'])) := by
      intro o ho
      rw [msBlock] at ho
      split at ho
      · rcases mem_msMultiBlock ho with rfl | ⟨t, rfl⟩ | ⟨x, hx, rfl⟩
        · show q ∈ defPathsObj (Obj.scope _ _) p ↔ _
          rw [defPathsObj]
          exact mem_defPaths_msResult e kids [] _ q
        · show q ∈ defPathsObj (Obj.scope _ _) p ↔ _
          rw [defPathsObj]
        · obtain ⟨s, _, rfl⟩ := List.mem_map.mp hx
          show q ∈ defPathsObj (Obj.scope _ _) p ↔ _
          rw [defPathsObj]
          exact mem_defPaths_msResult e kids s.children _ q
      · rw [List.mem_singleton] at ho
        subst ho
        rw [defPathsObj]
        exact mem_defPaths_msResult e kids _ _ q
    rw [defPaths_eq_flatMap, List.mem_flatMap, defPathsObj]
    constructor
    · rintro ⟨o, ho, hq⟩
      exact (hobj o ho).mp hq
    · intro hq
      cases hb : msBlock e (.scope mm kids) srcs with
      | nil => exact absurd hb (msBlock_ne_nil_ms e _ srcs)
      | cons o rest =>
        have ho : o ∈ msBlock e (.scope mm kids) srcs := by rw [hb]; exact List.mem_cons_self
        exact ⟨o, List.mem_cons_self, (hobj o ho).mpr hq⟩
/-- the result declares exactly the master's parameter paths (inside `.multiple` objects possibly
    several times): no path is lost, none is invented -/
theorem mem_defPaths_msResult (e : Envs) : ∀ (mkids : List Obj) (srcs : List Obj) (p q : Str),
    q ∈ defPaths (msResult e mkids srcs) p ↔ q ∈ defPaths mkids p
  | [], srcs, p, q => by rw [msResult]
  | mo :: rest, srcs, p, q => by
    rw [msResult, defPaths_append_tm, List.mem_append, defPaths, List.mem_append,
      mem_defPaths_msBlock e mo srcs p q, mem_defPaths_msResult e rest srcs p q]
end

/-- the block of a non-multiple master object is exactly one object -/
theorem msBlock_plain_length (e : Envs) : ∀ (mo : Obj) (srcs : List Obj), isMultiple mo = false →
    (msBlock e mo srcs).length = 1
  | .defn mm mws, srcs, h => by
    rw [msBlock, tmBlock]; simp only [h, Bool.false_eq_true, if_false]; rfl
  | .scope mm kids, srcs, h => by
    have h' : (mm.attrs.get "multiple").truthy = false := h
    rw [msBlock]; simp only [h', Bool.false_eq_true, if_false]; rfl

/-- every object of a block carries the master object's attributes -/
theorem msBlock_member_attrs_ms (e : Envs) : ∀ (mo : Obj) (srcs : List Obj), ∀ o ∈ msBlock e mo srcs,
    o.meta.attrs = mo.meta.attrs
  | .defn mm mws, srcs, o, ho => by
    rw [msBlock, tmBlock] at ho
    split at ho
    · rcases mem_multiBlock_tm ho with ⟨t, rfl⟩ | ⟨d, _, rfl⟩
      · rfl
      · rfl
    · rw [List.mem_singleton] at ho
      subst ho
      unfold lastWins
      cases (defsNamed mm.name srcs).getLast? <;> rfl
  | .scope mm kids, srcs, o, ho => by
    rw [msBlock] at ho
    split at ho
    · rcases mem_msMultiBlock ho with rfl | ⟨t, rfl⟩ | ⟨x, hx, rfl⟩
      · rfl
      · rfl
      · obtain ⟨s, _, rfl⟩ := List.mem_map.mp hx
        rfl
    · rw [List.mem_singleton] at ho
      subst ho
      rfl

end Phil
