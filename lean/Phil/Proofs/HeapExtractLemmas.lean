/-
  Helper lemmas for Phil/HeapExtract.lean: frames of value mutation, freshness of reified values.
-/
import Phil.HeapExtract
import Phil.Proofs.HeapLemmas
namespace Phil.Heap

/-! ### mutation -/

theorem mutate_phil_of_not_alias (s : Store) (i : Nat) (op : MutOp)
    (hs : ∀ d, s.vals[i]? ≠ some (.wordsOf d)) : (mutate s i op).phil = s.phil := by
  unfold mutate
  cases hc : s.vals[i]? with
  | none => rfl
  | some c =>
    cases c with
    | list o items => rfl
    | record fs => cases op <;> rfl
    | wordsOf d => exact absurd hc (hs d)

theorem mutate_vals_length (s : Store) (i : Nat) (op : MutOp) : (mutate s i op).vals.length = s.vals.length := by
  unfold mutate
  cases hc : s.vals[i]? with
  | none => rfl
  | some c =>
    cases c with
    | list o items => simp
    | record fs => cases op <;> simp
    | wordsOf d =>
      simp only
      split <;> rfl

theorem mutateMany_phil : ∀ (ops : List (Nat × MutOp)) (s : Store), SafeHist s ops →
    (mutateMany s ops).phil = s.phil
  | [], _, _ => rfl
  | (i, op) :: rest, s, hs => by
    simp only [mutateMany]
    rw [mutateMany_phil rest (mutate s i op) hs.2, mutate_phil_of_not_alias s i op hs.1]

theorem mutateMany_vals_length : ∀ (ops : List (Nat × MutOp)) (s : Store),
    (mutateMany s ops).vals.length = s.vals.length
  | [], _ => rfl
  | (i, op) :: rest, s => by
    simp only [mutateMany]
    rw [mutateMany_vals_length rest, mutate_vals_length]

theorem all_set_of {α : Type} (p : α → Bool) : ∀ (l : List α) (i : Nat) (a : α),
    l.all p = true → p a = true → (l.set i a).all p = true
  | [], _, _, _, _ => by simp
  | x :: xs, 0, a, hl, ha => by
    simp only [List.set_cons_zero, List.all_cons, Bool.and_eq_true] at hl ⊢
    exact ⟨ha, hl.2⟩
  | x :: xs, i + 1, a, hl, ha => by
    simp only [List.set_cons_succ, List.all_cons, Bool.and_eq_true] at hl ⊢
    exact ⟨hl.1, all_set_of p xs i a hl.2 ha⟩

theorem mutate_noAlias (s : Store) (i : Nat) (op : MutOp) (hn : noAliasB s.vals = true) :
    noAliasB (mutate s i op).vals = true ∧ (mutate s i op).phil = s.phil := by
  have hsafe : ∀ d, s.vals[i]? ≠ some (.wordsOf d) := by
    intro d hd
    unfold noAliasB at hn
    rw [List.all_eq_true] at hn
    have := hn _ (List.mem_of_getElem? hd)
    simp at this
  refine ⟨?_, mutate_phil_of_not_alias s i op hsafe⟩
  unfold mutate
  cases hc : s.vals[i]? with
  | none => exact hn
  | some c =>
    cases c with
    | list o items => exact all_set_of _ _ _ _ hn rfl
    | record fs =>
      cases op with
      | setField k r => exact all_set_of _ _ _ _ hn rfl
      | append r => exact hn
      | setItem j r => exact hn
      | clear => exact hn
    | wordsOf d => exact absurd hc (hsafe d)

/-- without alias cells every history is safe -/
theorem safe_of_noAlias : ∀ (ops : List (Nat × MutOp)) (s : Store), noAliasB s.vals = true → SafeHist s ops
  | [], _, _ => trivial
  | (i, op) :: rest, s, hn => by
    refine ⟨?_, safe_of_noAlias rest _ (mutate_noAlias s i op hn).1⟩
    intro d hd
    unfold noAliasB at hn
    rw [List.all_eq_true] at hn
    have := hn _ (List.mem_of_getElem? hd)
    simp at this

/-! ### reified values are made of new objects only -/

mutual
theorem reify_noAlias : ∀ (t : TVal) (b : Nat), t.noHandout = true → noAliasB (reify t b).1 = true
  | .pure v, b, _ => by
    cases v <;> simp [reify, noAliasB]
  | .handout d ws, b, h => by simp [TVal.noHandout] at h
  | .record fs, b, h => by
    rw [TVal.noHandout] at h
    have := reifyFields_noAlias fs (b + 1) h
    simp only [reify, noAliasB, List.all_cons, Bool.true_and] at this ⊢
    exact this
  | .multi o l, b, h => by
    rw [TVal.noHandout] at h
    have := reifyList_noAlias l (b + 1) h
    simp only [reify, noAliasB, List.all_cons, Bool.true_and] at this ⊢
    exact this
theorem reifyFields_noAlias : ∀ (fs : List (Str × TVal)) (b : Nat), noHandoutFields fs = true →
    noAliasB (reifyFields fs b).1 = true
  | [], _, _ => by simp [reifyFields, noAliasB]
  | (k, v) :: rest, b, h => by
    rw [noHandoutFields, Bool.and_eq_true] at h
    have h1 := reify_noAlias v b h.1
    have h2 := reifyFields_noAlias rest (b + (reify v b).1.length) h.2
    simp only [reifyFields, noAliasB, List.all_append, Bool.and_eq_true] at h1 h2 ⊢
    exact ⟨h1, h2⟩
theorem reifyList_noAlias : ∀ (l : List TVal) (b : Nat), noHandoutList l = true →
    noAliasB (reifyList l b).1 = true
  | [], _, _ => by simp [reifyList, noAliasB]
  | v :: rest, b, h => by
    rw [noHandoutList, Bool.and_eq_true] at h
    have h1 := reify_noAlias v b h.1
    have h2 := reifyList_noAlias rest (b + (reify v b).1.length) h.2
    simp only [reifyList, noAliasB, List.all_append, Bool.and_eq_true] at h1 h2 ⊢
    exact ⟨h1, h2⟩
end

theorem noAlias_append (a b : VHeap) (ha : noAliasB a = true) (hb : noAliasB b = true) :
    noAliasB (a ++ b) = true := by
  simp only [noAliasB, List.all_append, Bool.and_eq_true] at ha hb ⊢
  exact ⟨ha, hb⟩

end Phil.Heap
