/-
  Lemmas behind C10: the value domain of every converter (`InDomain`) and the proof that
  `fromWords` never leaves it.
-/
import Phil.Conv
set_option linter.unusedSimpArgs false
set_option linter.unusedVariables false
namespace Phil

/-! ### the declared domain of a type -/

/-- `value_min`/`value_max` as the code guarantees them: `value_min <= v` and `v <= value_max` hold
    (Python comparisons).  (`pyLe` is false on `nan`, so `nan` satisfies no declared bound.) -/
def boundsOk (lo hi : Option PNum) (v : PNum) : Bool :=
  (match lo with | some m => pyLe m v | Option.none => true) &&
  (match hi with | some M => pyLe v M | Option.none => true)

/-- `size_min`/`size_max` -/
def sizeOk (smin smax : Option Int) (n : Nat) : Bool :=
  (match smin with | some m => decide (m ≤ (n : Int)) | Option.none => true) &&
  (match smax with | some M => decide ((n : Int) ≤ M) | Option.none => true)

/-- a Python `int` (or `bool`, a subclass of `int`) within the bounds -/
def isIntIn (lo hi : Option PNum) : PVal → Bool
  | .num (.int i) => boundsOk lo hi (.int i)
  | .bool b => boundsOk lo hi (.int (if b then 1 else 0))
  | _ => false

/-- a Python `float` (finite `n/d`, `inf`, `-inf` or `nan`; never an `int`, never a `bool`) within
    the bounds -/
def isFloatIn (lo hi : Option PNum) : PVal → Bool
  | .num (.int _) => false
  | .num n => boundsOk lo hi n
  | _ => false

/-- element of an `ints`/`floats` list -/
def elemOk (isInt : Bool) (a : ListArgs) : PVal → Bool
  | .none => a.allowNoneEl
  | .auto => a.allowAutoEl
  | v => if isInt then isIntIn a.valueMin a.valueMax v else isFloatIn a.valueMin a.valueMax v

def isStrVal : PVal → Bool
  | .str _ => true
  | _ => false

/-- The set of Python objects a type may extract to. -/
def InDomain : Conv → PVal → Bool
  | .int a, .none | .float a, .none => a.allowNone
  | _, .none => true
  | _, .auto => true
  | .int a, v => isIntIn a.valueMin a.valueMax v
  | .float a, v => isFloatIn a.valueMin a.valueMax v
  | .bool, .bool _ => true
  | .ints a, .list l => sizeOk a.sizeMin a.sizeMax l.length && l.all (elemOk true a)
  | .floats a, .list l => sizeOk a.sizeMin a.sizeMax l.length && l.all (elemOk false a)
  | .words, .words _ => true
  | .strings, .list l => l.all isStrVal
  | .str, .str _ | .key, .str _ | .path, .str _ | .qstr, .str _ => true
  | .choice false, .str _ => true
  | .choice true, .list l => l.all isStrVal
  | _, _ => false

/-! ### the checks -/

theorem checkValue_ok (lo hi : Option PNum) (ws : List Word) (wl : Bool) (v : PNum)
    (h : checkValue lo hi ws wl v = .ok ()) : boundsOk lo hi v = true := by
  unfold checkValue at h
  unfold boundsOk
  cases lo <;> cases hi <;> simp only at h ⊢
  · rfl
  · split at h
    · cases h
    · rename_i h1; simp at h1; simp [h1]
  · split at h
    · cases h
    · rename_i h1; simp at h1; simp [h1]
  · split at h
    · cases h
    · split at h
      · cases h
      · rename_i h1 h2; simp at h1 h2; simp [h1, h2]

theorem checkValue_of_boundsOk (lo hi : Option PNum) (ws : List Word) (wl : Bool) (v : PNum)
    (h : boundsOk lo hi v = true) : checkValue lo hi ws wl v = .ok () := by
  unfold boundsOk at h
  unfold checkValue
  cases lo <;> cases hi <;> simp at h ⊢ <;> simp [h]

theorem checkSize_ok (smin smax : Option Int) (ws : List Word) (wl : Bool) (n : Nat)
    (h : checkSize smin smax ws wl n = .ok ()) : sizeOk smin smax n = true := by
  unfold checkSize at h
  unfold sizeOk
  cases smin <;> cases smax <;> simp only at h ⊢
  · rfl
  · split at h
    · cases h
    · rename_i h1; simp at h1 ⊢; omega
  · split at h
    · cases h
    · rename_i h1; simp at h1 ⊢; omega
  · split at h
    · cases h
    · split at h
      · cases h
      · rename_i h1 h2; simp at h1 h2 ⊢; omega

/-! ### int_from_number / float_from_number -/

theorem intFromNumber_ok (ws : List Word) (raw v : PVal) (h : intFromNumber ws raw = .ok v) :
    (∃ i, v = .num (.int i)) ∨ (∃ b, v = .bool b) := by
  unfold intFromNumber at h
  split at h
  · cases h; exact .inl ⟨_, rfl⟩
  · cases h; exact .inr ⟨_, rfl⟩
  · split at h
    · cases h; exact .inl ⟨_, rfl⟩
    · cases h
  · cases h

theorem floatFromNumber_ok (ws : List Word) (raw v : PVal) (h : floatFromNumber ws raw = .ok v) :
    ∃ n, v = .num n ∧ (∀ i, n ≠ .int i) := by
  unfold floatFromNumber at h
  split at h
  · cases h; exact ⟨_, rfl, by intro i; simp⟩
  · cases h; exact ⟨_, rfl, by intro i; simp⟩
  · cases h; exact ⟨_, rfl, by intro i; simp⟩
  · cases h; exact ⟨_, rfl, by intro i; simp⟩
  · split at h
    · cases h; exact ⟨_, rfl, by intro i; simp⟩
    · cases h
  · cases h; exact ⟨_, rfl, by intro i; simp⟩
  · cases h

theorem isFloatIn_of (lo hi : Option PNum) (n : PNum) (hn : ∀ i, n ≠ .int i)
    (hb : boundsOk lo hi n = true) : isFloatIn lo hi (.num n) = true := by
  cases n <;> simp_all [isFloatIn]

/-- the common tail of scalar and element conversion: convert the raw number and check the bounds -/
def convertChecked (isInt : Bool) (lo hi : Option PNum) (ws : List Word) (raw : PVal) : R PVal :=
  match (if isInt then intFromNumber ws raw else floatFromNumber ws raw) with
  | .error e => .error e
  | .ok (.num v) => (checkValue lo hi ws true v).map (fun _ => .num v)
  | .ok (.bool b) => (checkValue lo hi ws true (.int (if b then 1 else 0))).map (fun _ => .bool b)
  | .ok v => .ok v

theorem map_unit_ok {α : Type} (r : R Unit) (x y : α) (h : r.map (fun _ => x) = .ok y) :
    r = .ok () ∧ y = x := by
  cases r with
  | error e => cases h
  | ok u => cases h; exact ⟨rfl, rfl⟩

theorem convertChecked_ok (isInt : Bool) (lo hi : Option PNum) (ws : List Word) (raw v : PVal)
    (h : convertChecked isInt lo hi ws raw = .ok v) :
    (if isInt then isIntIn lo hi v else isFloatIn lo hi v) = true := by
  unfold convertChecked at h
  cases isInt with
  | true =>
    simp only [↓reduceIte] at h ⊢
    cases hc : intFromNumber ws raw with
    | error e => rw [hc] at h; cases h
    | ok r =>
      rw [hc] at h
      rcases intFromNumber_ok ws raw r hc with ⟨i, rfl⟩ | ⟨b, rfl⟩
      · simp only at h
        obtain ⟨h1, rfl⟩ := map_unit_ok _ _ _ h
        simpa [isIntIn] using checkValue_ok _ _ _ _ _ h1
      · simp only at h
        obtain ⟨h1, rfl⟩ := map_unit_ok _ _ _ h
        simpa [isIntIn] using checkValue_ok _ _ _ _ _ h1
  | false =>
    simp only [Bool.false_eq_true, ↓reduceIte] at h ⊢
    cases hc : floatFromNumber ws raw with
    | error e => rw [hc] at h; cases h
    | ok r =>
      rw [hc] at h
      obtain ⟨n, rfl, hn⟩ := floatFromNumber_ok ws raw r hc
      simp only at h
      obtain ⟨h1, rfl⟩ := map_unit_ok _ _ _ h
      exact isFloatIn_of _ _ _ hn (checkValue_ok _ _ _ _ _ h1)

/-! ### scalar types -/

def scalarTail (isInt : Bool) (a : NumArgs) (env : EvalEnv) (ws : List Word) : R PVal :=
  match strFromWords ws with
     | .none => if a.allowNone then .ok .none else .error (.runtime "cannot_be_none" Option.none)
     | .auto => .ok .auto
     | .str s =>
       (match numberFromValueString env ws s with
        | .error e => .error e
        | .ok .none => if a.allowNone then .ok .none else .error (.runtime "cannot_be_none" Option.none)
        | .ok .auto => .ok .auto
        | .ok raw => convertChecked isInt a.valueMin a.valueMax ws raw)
     | _ => .error (.unsupported "strFromWords")

theorem fromWords_int_eq (a : NumArgs) (env : EvalEnv) (opt : AttrVal) (ws : List Word) :
    fromWords (.int a) env opt ws = scalarTail true a env ws := by
  unfold fromWords scalarTail convertChecked
  rfl
theorem fromWords_float_eq (a : NumArgs) (env : EvalEnv) (opt : AttrVal) (ws : List Word) :
    fromWords (.float a) env opt ws = scalarTail false a env ws := by
  unfold fromWords scalarTail convertChecked
  rfl

/-! ### list types -/

/-- one element of `ints`/`floats` -/
def elemConv (isInt : Bool) (a : ListArgs) (ws : List Word) (raw : PVal) : R PVal :=
  match raw with
  | .none => if a.allowNoneEl then .ok .none else .error (wordsErr "element_none" ws)
  | .auto => if a.allowAutoEl then .ok .auto else .error (wordsErr "element_auto" ws)
  | raw => convertChecked isInt a.valueMin a.valueMax ws raw

def elemStep (isInt : Bool) (a : ListArgs) (ws : List Word) (acc : List PVal) (raw : PVal) :
    R (List PVal) :=
  match (generalizing := false) raw with
  | .none => if a.allowNoneEl then .ok (acc ++ [.none]) else .error (wordsErr "element_none" ws)
  | .auto => if a.allowAutoEl then .ok (acc ++ [.auto]) else .error (wordsErr "element_auto" ws)
  | raw =>
    (match (if isInt then intFromNumber ws raw else floatFromNumber ws raw) with
     | .error e => .error e
     | .ok (.num v) => (checkValue a.valueMin a.valueMax ws true v).map (fun _ => acc ++ [.num v])
     | .ok (.bool b) =>
       (checkValue a.valueMin a.valueMax ws true (.int (if b then 1 else 0))).map (fun _ => acc ++ [.bool b])
     | .ok v => .ok (acc ++ [v]))

def listTail (isInt : Bool) (a : ListArgs) (env : EvalEnv) (ws : List Word) : R PVal :=
  match numbersFromWords env ws with
  | .error e => .error e
  | .ok (.inr ()) => .ok .auto
  | .ok (.inl Option.none) => .ok .none
  | .ok (.inl (some raws)) =>
    (match checkSize a.sizeMin a.sizeMax ws true raws.length with
     | .error e => .error e
     | .ok () =>
       let r : R (List PVal) := raws.foldlM (init := ([] : List PVal)) (elemStep isInt a ws)
       r.map PVal.list)

theorem fromWords_ints_eq (a : ListArgs) (env : EvalEnv) (opt : AttrVal) (ws : List Word) :
    fromWords (.ints a) env opt ws = listTail true a env ws := by
  unfold fromWords listTail elemStep
  rfl
theorem fromWords_floats_eq (a : ListArgs) (env : EvalEnv) (opt : AttrVal) (ws : List Word) :
    fromWords (.floats a) env opt ws = listTail false a env ws := by
  unfold fromWords listTail elemStep
  rfl

theorem elemStep_eq (isInt : Bool) (a : ListArgs) (ws : List Word) (acc : List PVal) (raw : PVal) :
    elemStep isInt a ws acc raw = (elemConv isInt a ws raw).map (fun v => acc ++ [v]) := by
  unfold elemStep elemConv convertChecked
  split
  · split <;> rfl
  · split <;> rfl
  · split
    · rfl
    · cases checkValue a.valueMin a.valueMax ws true _ <;> rfl
    · cases checkValue a.valueMin a.valueMax ws true _ <;> rfl
    · rfl

theorem elemOk_of_kind (isInt : Bool) (a : ListArgs) (v : PVal)
    (h : (if isInt then isIntIn a.valueMin a.valueMax v else isFloatIn a.valueMin a.valueMax v) = true) :
    elemOk isInt a v = true := by
  cases v <;> cases isInt <;> simp_all [elemOk, isIntIn, isFloatIn]

theorem elemConv_ok (isInt : Bool) (a : ListArgs) (ws : List Word) (raw v : PVal)
    (h : elemConv isInt a ws raw = .ok v) : elemOk isInt a v = true := by
  unfold elemConv at h
  split at h
  · split at h
    · cases h; simpa [elemOk]
    · cases h
  · split at h
    · cases h; simpa [elemOk]
    · cases h
  · exact elemOk_of_kind _ _ _ (convertChecked_ok _ _ _ _ _ _ h)

theorem foldlM_elemStep_ok (isInt : Bool) (a : ListArgs) (ws : List Word) (raws : List PVal) :
    ∀ (acc out : List PVal), raws.foldlM (elemStep isInt a ws) acc = .ok out →
      acc.all (elemOk isInt a) = true →
      out.all (elemOk isInt a) = true ∧ out.length = acc.length + raws.length := by
  induction raws with
  | nil =>
    intro acc out h hacc
    simp only [List.foldlM_nil] at h
    cases h
    exact ⟨hacc, by simp⟩
  | cons r rs ih =>
    intro acc out h hacc
    rw [List.foldlM_cons, elemStep_eq] at h
    cases hc : elemConv isInt a ws r with
    | error e => rw [hc] at h; cases h
    | ok v =>
      rw [hc] at h
      have hv := elemConv_ok _ _ _ _ _ hc
      have := ih (acc ++ [v]) out h (by simp [List.all_append, hacc, hv])
      refine ⟨this.1, ?_⟩
      rw [this.2]; simp; omega

theorem listTail_in_domain (isInt : Bool) (a : ListArgs) (env : EvalEnv) (ws : List Word) (v : PVal)
    (h : listTail isInt a env ws = .ok v) :
    v = .none ∨ v = .auto ∨
      ∃ l, v = .list l ∧ sizeOk a.sizeMin a.sizeMax l.length = true ∧ l.all (elemOk isInt a) = true := by
  unfold listTail at h
  split at h
  · cases h
  · cases h; exact .inr (.inl rfl)
  · cases h; exact .inl rfl
  · rename_i raws _
    split at h
    · cases h
    · rename_i hs
      simp only at h
      cases hf : List.foldlM (elemStep isInt a ws) [] raws with
      | error e => rw [hf] at h; cases h
      | ok out =>
        rw [hf] at h; cases h
        have := foldlM_elemStep_ok isInt a ws raws [] out hf (by simp)
        refine .inr (.inr ⟨out, rfl, ?_, this.1⟩)
        rw [this.2]
        simpa using checkSize_ok _ _ _ _ _ hs

theorem scalarTail_in_domain (isInt : Bool) (a : NumArgs) (env : EvalEnv) (ws : List Word) (v : PVal)
    (h : scalarTail isInt a env ws = .ok v) :
    (v = .none ∧ a.allowNone = true) ∨ v = .auto ∨
      (if isInt then isIntIn a.valueMin a.valueMax v else isFloatIn a.valueMin a.valueMax v) = true := by
  unfold scalarTail at h
  split at h
  · split at h
    · cases h; exact .inl ⟨rfl, by assumption⟩
    · cases h
  · cases h; exact .inr (.inl rfl)
  · split at h
    · cases h
    · split at h
      · cases h; exact .inl ⟨rfl, by assumption⟩
      · cases h
    · cases h; exact .inr (.inl rfl)
    · exact .inr (.inr (convertChecked_ok _ _ _ _ _ _ h))
  · cases h

theorem all_isStrVal_map (l : List Str) : (l.map PVal.str).all isStrVal = true := by
  induction l with
  | nil => rfl
  | cons x xs ih => simp [isStrVal]

/-- **C10 core**: whatever `from_words` returns lies in the declared domain of the type -/
theorem fromWords_in_domain (c : Conv) (env : EvalEnv) (opt : AttrVal) (ws : List Word) (v : PVal)
    (h : fromWords c env opt ws = .ok v) : InDomain c v = true := by
  cases c with
  | int a =>
    rw [fromWords_int_eq] at h
    rcases scalarTail_in_domain _ _ _ _ _ h with ⟨rfl, h1⟩ | rfl | h1
    · simpa [InDomain] using h1
    · simp [InDomain]
    · cases v <;> simp_all [InDomain, isIntIn]
  | float a =>
    rw [fromWords_float_eq] at h
    rcases scalarTail_in_domain _ _ _ _ _ h with ⟨rfl, h1⟩ | rfl | h1
    · simpa [InDomain] using h1
    · simp [InDomain]
    · cases v <;> simp_all [InDomain, isFloatIn]
  | ints a =>
    rw [fromWords_ints_eq] at h
    rcases listTail_in_domain _ _ _ _ _ h with rfl | rfl | ⟨l, rfl, h1, h2⟩
    · simp [InDomain]
    · simp [InDomain]
    · simp only [InDomain, h1, h2, Bool.and_self]
  | floats a =>
    rw [fromWords_floats_eq] at h
    rcases listTail_in_domain _ _ _ _ _ h with rfl | rfl | ⟨l, rfl, h1, h2⟩
    · simp [InDomain]
    · simp [InDomain]
    · simp only [InDomain, h1, h2, Bool.and_self]
  | bool =>
    unfold fromWords at h
    simp only at h
    split at h <;> first | (cases h; simp [InDomain]) | cases h
  | words =>
    unfold fromWords at h
    simp only at h
    split at h
    · cases h; simp [InDomain]
    · split at h <;> cases h <;> simp [InDomain]
  | strings =>
    unfold fromWords at h
    simp only at h
    split at h
    · cases h; simp [InDomain]
    · split at h <;> cases h <;> simp [InDomain, isStrVal]
  | str =>
    unfold fromWords at h
    simp only at h
    split at h <;> first | (cases h; simp [InDomain]) | cases h
  | key =>
    unfold fromWords at h
    simp only at h
    split at h <;> first | (cases h; simp [InDomain]) | cases h
  | path =>
    unfold fromWords at h
    simp only at h
    split at h
    · cases h; simp [InDomain]
    · cases h; simp [InDomain]
    · split at h <;> cases h; simp [InDomain]
    · cases h
  | qstr =>
    unfold fromWords at h
    simp only at h
    split at h
    · cases h; simp [InDomain]
    · split at h <;> cases h <;> simp [InDomain]
  | choice multi =>
    unfold fromWords at h
    simp only at h
    split at h
    · cases h; simp [InDomain]
    · split at h
      · split at h
        · cases h
        · rename_i hm _; cases h; subst hm; simp only [InDomain]; exact all_isStrVal_map _
      · rename_i hm
        have hm' : multi = false := by simpa using hm
        subst hm'
        split at h
        · split at h <;> cases h; simp [InDomain]
        · cases h; simp [InDomain]
        · cases h

/-! ### readable forms of `InDomain` -/

theorem inDomain_int (a : NumArgs) (v : PVal) :
    InDomain (.int a) v = true ↔
      (v = .none ∧ a.allowNone = true) ∨ v = .auto ∨
      (∃ i, v = .num (.int i) ∧ boundsOk a.valueMin a.valueMax (.int i) = true) ∨
      (∃ b, v = .bool b ∧ boundsOk a.valueMin a.valueMax (.int (if b then 1 else 0)) = true) := by
  cases v with
  | num n => cases n <;> simp [InDomain, isIntIn]
  | _ => simp [InDomain, isIntIn]

theorem inDomain_float (a : NumArgs) (v : PVal) :
    InDomain (.float a) v = true ↔
      (v = .none ∧ a.allowNone = true) ∨ v = .auto ∨
      (∃ n, v = .num n ∧ (∀ i, n ≠ .int i) ∧ boundsOk a.valueMin a.valueMax n = true) := by
  cases v with
  | num n => cases n <;> simp [InDomain, isFloatIn]
  | _ => simp [InDomain, isFloatIn]

theorem inDomain_bool (v : PVal) :
    InDomain .bool v = true ↔ v = .none ∨ v = .auto ∨ ∃ b, v = .bool b := by
  cases v <;> simp [InDomain]

theorem inDomain_ints (a : ListArgs) (v : PVal) :
    InDomain (.ints a) v = true ↔
      v = .none ∨ v = .auto ∨
      ∃ l, v = .list l ∧ sizeOk a.sizeMin a.sizeMax l.length = true ∧ ∀ x ∈ l, elemOk true a x = true := by
  cases v <;> simp [InDomain]

theorem inDomain_floats (a : ListArgs) (v : PVal) :
    InDomain (.floats a) v = true ↔
      v = .none ∨ v = .auto ∨
      ∃ l, v = .list l ∧ sizeOk a.sizeMin a.sizeMax l.length = true ∧ ∀ x ∈ l, elemOk false a x = true := by
  cases v <;> simp [InDomain]

theorem elemOk_iff (isInt : Bool) (a : ListArgs) (x : PVal) :
    elemOk isInt a x = true ↔
      (x = .none ∧ a.allowNoneEl = true) ∨ (x = .auto ∧ a.allowAutoEl = true) ∨
      (isInt = true ∧ isIntIn a.valueMin a.valueMax x = true) ∨
      (isInt = false ∧ isFloatIn a.valueMin a.valueMax x = true) := by
  cases x <;> cases isInt <;> simp [elemOk, isIntIn, isFloatIn]

theorem sizeOk_iff (smin smax : Option Int) (n : Nat) :
    sizeOk smin smax n = true ↔ (∀ m, smin = some m → m ≤ (n : Int)) ∧ (∀ M, smax = some M → (n : Int) ≤ M) := by
  cases smin <;> cases smax <;> simp [sizeOk]

theorem boundsOk_iff (lo hi : Option PNum) (v : PNum) :
    boundsOk lo hi v = true ↔ (∀ m, lo = some m → pyLe m v = true) ∧ (∀ M, hi = some M → pyLe v M = true) := by
  cases lo <;> cases hi <;> simp [boundsOk]

/-! ### nan satisfies no declared bound -/

theorem pyLt_nan_left (m : PNum) : pyLt .nan m = false := by
  cases m <;> rfl
theorem pyLt_nan_right (m : PNum) : pyLt m .nan = false := by
  cases m <;> rfl

theorem pyLe_nan_left (m : PNum) : pyLe .nan m = false := by
  cases m <;> rfl
theorem pyLe_nan_right (m : PNum) : pyLe m .nan = false := by
  cases m <;> rfl

/-- `a <= b` is `not (b < a)` away from nan, and false on nan -/
theorem pyLe_iff (a b : PNum) :
    pyLe a b = true ↔ a ≠ .nan ∧ b ≠ .nan ∧ pyLt b a = false := by
  cases a <;> cases b <;> simp [pyLe]

theorem pyLe_eq_false_iff (a b : PNum) :
    pyLe a b = false ↔ a = .nan ∨ b = .nan ∨ pyLt b a = true := by
  cases a <;> cases b <;> simp [pyLe]

/-- nan is within the bounds only when none is declared -/
theorem boundsOk_nan_iff (lo hi : Option PNum) :
    boundsOk lo hi .nan = true ↔ lo = Option.none ∧ hi = Option.none := by
  cases lo <;> cases hi <;> simp [boundsOk, pyLe_nan_left, pyLe_nan_right]

/-- a value within a declared bound is not nan -/
theorem boundsOk_ne_nan (lo hi : Option PNum) (v : PNum) (h : boundsOk lo hi v = true)
    (hd : lo.isSome = true ∨ hi.isSome = true) : v ≠ .nan := by
  intro hv
  subst hv
  obtain ⟨h1, h2⟩ := (boundsOk_nan_iff lo hi).mp h
  subst h1 h2
  simp at hd

/-- `_check_value` on nan: refused by the first declared bound -/
theorem checkValue_nan (lo hi : Option PNum) (ws : List Word) (wl : Bool) :
    checkValue lo hi ws wl .nan =
      (match lo, hi with
       | some _, _ => .error (.runtime "value_min" (if wl then firstLine ws else Option.none))
       | Option.none, some _ => .error (.runtime "value_max" (if wl then firstLine ws else Option.none))
       | Option.none, Option.none => .ok ()) := by
  unfold checkValue
  cases lo <;> cases hi <;> simp [pyLe_nan_left, pyLe_nan_right]

/-- the text-level special spellings of `number_from_value_string` -/
def isSpecialNumText (s : Str) : Bool :=
  let t := lower (strip s)
  t == "true".toList || t == "false".toList || t == "none".toList || t == "auto".toList

theorem numberFromValueString_plain (env : EvalEnv) (ws : List Word) (s : Str) (n : PNum)
    (hs : isSpecialNumText s = false) (he : env s = some (.num n)) :
    numberFromValueString env ws s = .ok (.num n) := by
  unfold isSpecialNumText at hs
  simp only [Bool.or_eq_false_iff] at hs
  obtain ⟨⟨⟨h1, h2⟩, h3⟩, h4⟩ := hs
  unfold numberFromValueString
  simp only [h1, h2, h3, h4, he, Bool.or_self, Bool.false_eq_true, ↓reduceIte]

/-- the float type with a declared bound (any `allow_none`, any `optional`) refuses a value string
    that evaluates to `nan`: "value_min" when `value_min` is declared, else "value_max" -/
theorem nan_refused_by_bounds_gen (env : EvalEnv) (a : NumArgs) (opt : AttrVal) (ws : List Word) (s : Str)
    (hw : strFromWords ws = .str s) (hs : isSpecialNumText s = false)
    (he : env s = some (.num .nan))
    (hb : a.valueMin.isSome = true ∨ a.valueMax.isSome = true) :
    fromWords (.float a) env opt ws =
      .error (.runtime (if a.valueMin.isSome then "value_min" else "value_max") (firstLine ws)) := by
  rw [fromWords_float_eq]
  unfold scalarTail
  simp only [hw, numberFromValueString_plain env ws s .nan hs he]
  unfold convertChecked
  simp only [Bool.false_eq_true, ↓reduceIte, floatFromNumber]
  rw [checkValue_nan]
  cases h1 : a.valueMin <;> cases h2 : a.valueMax <;> simp_all <;> rfl

/-- without any bound, `nan` is still accepted -/
theorem nan_accepted_without_bounds (env : EvalEnv) (a : NumArgs) (opt : AttrVal) (ws : List Word) (s : Str)
    (hw : strFromWords ws = .str s) (hs : isSpecialNumText s = false)
    (he : env s = some (.num .nan))
    (h1 : a.valueMin = Option.none) (h2 : a.valueMax = Option.none) :
    fromWords (.float a) env opt ws = .ok (.num .nan) := by
  rw [fromWords_float_eq]
  unfold scalarTail
  simp only [hw, numberFromValueString_plain env ws s .nan hs he]
  unfold convertChecked
  simp only [Bool.false_eq_true, ↓reduceIte, floatFromNumber]
  rw [checkValue_nan, h1, h2]
  rfl

theorem nan_refused_by_bounds (env : EvalEnv) (he : env "nan".toList = some (.num .nan)) :
    fromWords (.float { valueMin := some (.int 0) }) env .none [⟨"nan".toList, none, some 1⟩]
      = .error (.runtime "value_min" (some 1)) :=
  nan_refused_by_bounds_gen env _ _ _ "nan".toList (by rfl) (by rfl) he (.inl rfl)

/-- `InDomain` of a float type contains `nan` only when no bound is declared -/
theorem inDomain_float_nan (a : NumArgs) :
    InDomain (.float a) (.num .nan) = true ↔ a.valueMin = Option.none ∧ a.valueMax = Option.none := by
  simp [InDomain, isFloatIn, boundsOk_nan_iff]

/-- … and likewise for the elements of a `floats` list -/
theorem elemOk_float_nan (a : ListArgs) :
    elemOk false a (.num .nan) = true ↔ a.valueMin = Option.none ∧ a.valueMax = Option.none := by
  simp [elemOk, isFloatIn, boundsOk_nan_iff]

/-- `int` accepts a float (or any number) whose value is integral -/
theorem int_accepts_integral_gen (env : EvalEnv) (a : NumArgs) (opt : AttrVal) (ws : List Word)
    (s : Str) (n : Int) (d : Nat)
    (hw : strFromWords ws = .str s) (hs : isSpecialNumText s = false)
    (he : env s = some (.num (.flt n d))) (hd : d ≠ 0) (hm : n % (d : Int) = 0)
    (hb : boundsOk a.valueMin a.valueMax (.int (n / (d : Int))) = true) :
    fromWords (.int a) env opt ws = .ok (.num (.int (n / (d : Int)))) := by
  rw [fromWords_int_eq]
  unfold scalarTail
  simp only [hw, numberFromValueString_plain env ws s _ hs he]
  unfold convertChecked
  have hc : (d != 0 && n % (d : Int) == 0) = true := by simp [hd, hm]
  simp only [↓reduceIte, intFromNumber, hc]
  rw [checkValue_of_boundsOk _ _ _ _ _ hb]
  rfl

theorem int_accepts_integral (env : EvalEnv) (allowNone : Bool) (opt : AttrVal) (ws : List Word)
    (s : Str) (n : Int) (d : Nat)
    (hw : strFromWords ws = .str s) (hs : isSpecialNumText s = false)
    (he : env s = some (.num (.flt n d))) (hd : d ≠ 0) (hm : n % (d : Int) = 0) :
    fromWords (.int { allowNone := allowNone }) env opt ws = .ok (.num (.int (n / (d : Int)))) :=
  int_accepts_integral_gen env _ opt ws s n d hw hs he hd hm (by rfl)

/-- a non-integral float is refused by `int` -/
theorem int_rejects_fraction (env : EvalEnv) (a : NumArgs) (opt : AttrVal) (ws : List Word)
    (s : Str) (n : Int) (d : Nat)
    (hw : strFromWords ws = .str s) (hs : isSpecialNumText s = false)
    (he : env s = some (.num (.flt n d))) (hm : d = 0 ∨ n % (d : Int) ≠ 0) :
    fromWords (.int a) env opt ws = .error (wordsErr "integer_expected" ws) := by
  rw [fromWords_int_eq]
  unfold scalarTail
  simp only [hw, numberFromValueString_plain env ws s _ hs he]
  unfold convertChecked
  have : (d != 0 && n % (d : Int) == 0) = false := by
    rcases hm with h | h <;> simp [h]
  simp only [↓reduceIte, intFromNumber, this, Bool.false_eq_true]

/-! ### bool -/

theorem boolSpellings_disjoint (l : Str) (h : l ∈ boolTrueSpellings) : l ∉ boolFalseSpellings := by
  intro h2
  have : ∀ x ∈ boolTrueSpellings, ∀ y ∈ boolFalseSpellings, x ≠ y := by decide
  exact this l h l h2 rfl

/-- complete description of `bool_from_words` -/
theorem boolFromWords_spec (ws : List Word) :
    (strFromWords ws = .none ∧ boolFromWords ws = .ok .none) ∨
    (strFromWords ws = .auto ∧ boolFromWords ws = .ok .auto) ∨
    (∃ s, strFromWords ws = .str s ∧
      ((lower s ∈ boolFalseSpellings ∧ boolFromWords ws = .ok (.bool false)) ∨
       (lower s ∈ boolTrueSpellings ∧ boolFromWords ws = .ok (.bool true)) ∨
       (lower s ∉ boolFalseSpellings ∧ lower s ∉ boolTrueSpellings ∧
          boolFromWords ws = .error (if ws.isEmpty then .stray "AssertionError" "bool_from_words"
                                     else .runtime "bool_expected" (firstLine ws))))) := by
  unfold boolFromWords
  unfold strFromWords
  split
  · exact .inl ⟨rfl, rfl⟩
  · split
    · exact .inr (.inl ⟨rfl, rfl⟩)
    · refine .inr (.inr ⟨_, rfl, ?_⟩)
      simp only [List.contains_iff_mem]
      split
      · rename_i h; exact .inl ⟨h, rfl⟩
      · split
        · rename_i h; exact .inr (.inl ⟨h, rfl⟩)
        · rename_i h1 h2
          refine .inr (.inr ⟨h1, h2, ?_⟩)
          split <;> rfl

theorem bool_spellings (ws : List Word) (b : Bool) :
    boolFromWords ws = .ok (.bool b) ↔
      ∃ s, strFromWords ws = .str s ∧
        lower s ∈ (if b then boolTrueSpellings else boolFalseSpellings) := by
  rcases boolFromWords_spec ws with ⟨h1, h2⟩ | ⟨h1, h2⟩ | ⟨s, h1, ⟨h3, h2⟩ | ⟨h3, h2⟩ | ⟨h3, h4, h2⟩⟩
  · rw [h1, h2]; simp
  · rw [h1, h2]; simp
  · rw [h1, h2]
    cases b
    · simp [h3]
    · have := fun h => boolSpellings_disjoint (lower s) h h3
      simp; exact this
  · rw [h1, h2]
    cases b
    · have := boolSpellings_disjoint (lower s) h3
      simp; exact this
    · simp [h3]
  · rw [h1, h2]
    cases b <;> simp [h3, h4]

/-- nothing else is accepted -/
theorem bool_rejects_other (ws : List Word) (s : Str) (hs : strFromWords ws = .str s)
    (hf : lower s ∉ boolFalseSpellings) (ht : lower s ∉ boolTrueSpellings) :
    boolFromWords ws = .error (if ws.isEmpty then .stray "AssertionError" "bool_from_words"
                               else .runtime "bool_expected" (firstLine ws)) := by
  rcases boolFromWords_spec ws with ⟨h1, h2⟩ | ⟨h1, h2⟩ | ⟨s', h1, ⟨h3, h2⟩ | ⟨h3, h2⟩ | ⟨h3, h4, h2⟩⟩
  · rw [h1] at hs; cases hs
  · rw [h1] at hs; cases hs
  · rw [h1] at hs; cases hs; exact absurd h3 hf
  · rw [h1] at hs; cases hs; exact absurd h3 ht
  · exact h2

/-- `bool.from_words` = `bool_from_words` (the model's last arm is dead code) -/
theorem fromWords_bool (env : EvalEnv) (opt : AttrVal) (ws : List Word) :
    fromWords .bool env opt ws = (boolFromWords ws).map (fun v => match v with
      | .none => PVal.none | .auto => PVal.auto | .bool b => PVal.bool b | _ => PVal.none) := by
  unfold fromWords
  simp only
  rcases boolFromWords_spec ws with ⟨h1, h2⟩ | ⟨h1, h2⟩ | ⟨s', h1, ⟨h3, h2⟩ | ⟨h3, h2⟩ | ⟨h3, h4, h2⟩⟩ <;>
    rw [h2] <;> rfl

end Phil
