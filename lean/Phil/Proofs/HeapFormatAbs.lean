/-
  Simulation of the heap-level `formatH` (Phil/HeapFormat.lean) by the pure `formatObj` (Phil/Fetch.lean): whenever
  `formatH` returns, `formatObj` returns on the abstraction of the master object, and the result cell denotes the
  pure result.  Helper lemmas for Phil/Props/C17FormatAbs.lean.
-/
import Phil.Proofs.HeapFormatLemmas
import Phil.Proofs.HeapFetchAbs
import Phil.Proofs.ExtractTree
namespace Phil.Heap
open Phil

/-! ### the pure model, with its loop bodies named -/

/-- `result.append(object.format(x))` (pure) -/
def fmtAppP (F : Obj → PVal → R Obj) (o : Obj) : List Obj → PVal → R (List Obj) :=
  fun acc x => (F o x).map (fun r => acc ++ [r])

/-- the body of `for python_object_i in python_object` (pure) -/
def finnerP (F : Obj → PVal → R Obj) (o : Obj) (mult : Bool) :
    (List Obj × List (Str × Bool)) → PVal → R (List Obj × List (Str × Bool)) := fun st pi =>
  let out : List Obj := st.1
  let done : List (Str × Bool) := st.2
  match pi with
  | .record fs =>
    (match fieldGet fs o.name with
     | none => .ok (out, done)
     | some sub =>
       if !mult then (F o sub).map (fun r => (out ++ [r], done))
       else
         match fmtElems sub with
         | .error err => .error err
         | .ok [] => .ok (out ++ [withTmpl o 1], done)
         | .ok l =>
           let needTmpl : Bool := fmtNeedTmpl done o.name
           let out2 : List Obj := if needTmpl then out ++ [withTmpl o (-1)] else out
           let done2 : List (Str × Bool) :=
             if needTmpl then done.map (fun (p : Str × Bool) => if p.1 == o.name then (p.1, true) else p) else done
           (l.foldlM (fmtAppP F o) out2).map (fun r => (r, done2)))
  | _ => .error (.stray "AttributeError" "phil_get")

/-- the body of `for object in self.master_active_objects()` (pure) -/
def fstepP (F : Obj → PVal → R Obj) (v : PVal) :
    (List Obj × List (Str × Bool)) → (Nat × Obj) → R (List Obj × List (Str × Bool)) := fun st io =>
  let out : List Obj := st.1
  let done : List (Str × Bool) := st.2
  let o : Obj := io.2
  let mult := isMultiple o
  let skip := mult && o.isScope && done.any (·.1 == o.name)
  if skip then Except.ok (out, done) else
  let done := if mult && o.isScope then done ++ [(o.name, false)] else done
  match v with
  | .none => (F o .none).map (fun r => (out ++ [r], done))
  | .auto => (F o .auto).map (fun r => (out ++ [r], done))
  | _ =>
    match fmtPobjs v with
    | .error err => .error err
    | .ok pobjs => pobjs.foldlM (finnerP F o mult) (out, done)

theorem fstep_xt_eq_fstepP (F : Obj → PVal → R Obj) (v : PVal) : fstep_xt F v = fstepP F v := by
  rfl

/-! ### abstraction is stable under allocation -/

theorem Abs.grows {h h' : Heap} {x : Nat} {o : Obj} (a : Abs h x o) (g : Grows h h') : Abs h' x o := by
  obtain ⟨ext, rfl⟩ := g
  exact a.append ext

theorem AbsL.grows {h h' : Heap} {l : List Nat} {os : List Obj} (a : AbsL h l os) (g : Grows h h') : AbsL h' l os :=
  Rel2.imp (fun _ _ hh => Abs.grows hh g) a

/-- `obj = object.copy(); obj.is_template = t` denotes the master object with `is_template = t` -/
theorem fetchTemplate_abs {h h1 : Heap} {mid c : Nat} {o : Obj} {t : Int} (a : Abs h mid o)
    (hf : fetchTemplate h mid t = some (h1, c)) : Grows h h1 ∧ Abs h1 c (withTmpl o t) := by
  obtain ⟨n, hn, rfl, rfl⟩ := fetchTemplate_eq' hf
  refine ⟨Grows.alloc _ _, ?_⟩
  rcases Abs_cell a with ⟨m, ws, p, hx, rfl⟩ | ⟨m, ks, p, os, hx, rfl, hk⟩
  · rw [hx] at hn
    cases hn
    show Abs _ _ (.defn { m with tmpl := t } ws)
    refine Abs_defn_intro (p := p) ?_
    show (h ++ _)[h.length]? = _
    rw [List.getElem?_append_right (Nat.le_refl _), Nat.sub_self]
    rfl
  · rw [hx] at hn
    cases hn
    show Abs _ _ (.scope { m with tmpl := t } os)
    refine Abs_scope_intro (ks := ks) (p := p) ?_ (Rel2.imp (fun _ _ hh => Abs.append hh _) hk)
    show (h ++ _)[h.length]? = _
    rw [List.getElem?_append_right (Nat.le_refl _), Nat.sub_self]
    rfl

theorem formatDefn_shape {e : Envs} {m : Meta} {ws : List Word} {v : PVal} {o' : Obj}
    (h : formatDefn e m ws v = .ok o') : ∃ nws, o' = .defn { m with tmpl := 0 } nws := by
  unfold formatDefn at h
  dsimp only at h
  split at h
  · cases h
  · rename_i c _
    cases ha : asWords c e.fmt (m.attrs.get "optional") ws v with
    | error err => rw [ha] at h; cases h
    | ok nws =>
      rw [ha] at h
      simp only [Except.map, Except.ok.injEq] at h
      exact ⟨nws, h.symm⟩

/-! ### simulation -/

/-- what the callee one level down guarantees: it only allocates, and its result denotes the pure result -/
def RecSimF (F : Obj → PVal → R Obj) (rec : Nat → PVal → Heap → R (Heap × Nat)) : Prop :=
  ∀ x v h h' r o, Abs h x o → rec x v h = .ok (h', r) →
    Grows h h' ∧ ∃ ro, F o v = .ok ro ∧ Abs h' r ro

def RelA (hA : Heap) (acc : Heap × List Nat) (acc' : List Obj) : Prop :=
  Grows hA acc.1 ∧ AbsL acc.1 acc.2 acc'

def RelI (hA : Heap) (st : Heap × List Nat × List (Str × Bool)) (st' : List Obj × List (Str × Bool)) : Prop :=
  Grows hA st.1 ∧ AbsL st.1 st.2.1 st'.1 ∧ st.2.2 = st'.2

theorem fmtAppH_sim {F : Obj → PVal → R Obj} {rec : Nat → PVal → Heap → R (Heap × Nat)} (hsim : RecSimF F rec)
    {hA : Heap} {mid : Nat} {o : Obj} (hmo : Abs hA mid o) (acc acc2 : Heap × List Nat) (acc' : List Obj) (x : PVal)
    (hq : RelA hA acc acc') (hf : fmtAppH rec mid acc x = .ok acc2) :
    ∃ acc2', fmtAppP F o acc' x = .ok acc2' ∧ RelA hA acc2 acc2' := by
  obtain ⟨g, ha⟩ := hq
  unfold fmtAppH at hf
  split at hf
  · cases hf
  · rename_i h1 r hr
    simp only [Except.ok.injEq] at hf
    subst hf
    obtain ⟨g1, ro, hro, habs⟩ := hsim _ _ _ _ _ _ (hmo.grows g) hr
    refine ⟨acc' ++ [ro], ?_, g.trans g1, Rel2.append (ha.grows g1) ⟨habs, trivial⟩⟩
    simp only [fmtAppP, hro, Except.map]

theorem finnerH_sim {F : Obj → PVal → R Obj} {rec : Nat → PVal → Heap → R (Heap × Nat)} (hsim : RecSimF F rec)
    {hA : Heap} {mid : Nat} {o : Obj} (hmo : Abs hA mid o) (mult : Bool)
    (st st2 : Heap × List Nat × List (Str × Bool)) (st' : List Obj × List (Str × Bool)) (pi : PVal)
    (hq : RelI hA st st') (hf : finnerH rec o mid mult st pi = .ok st2) :
    ∃ st2', finnerP F o mult st' pi = .ok st2' ∧ RelI hA st2 st2' := by
  obtain ⟨h, out, done⟩ := st
  obtain ⟨pout, pdone⟩ := st'
  obtain ⟨g, ha, hd⟩ := hq
  simp only at g ha hd
  subst hd
  unfold finnerH at hf
  unfold finnerP
  dsimp only at hf ⊢
  split at hf
  · rename_i fs
    dsimp only
    cases hfg : fieldGet fs o.name with
    | none =>
      simp only [hfg, Except.ok.injEq] at hf ⊢
      subst hf
      exact ⟨_, rfl, g, ha, rfl⟩
    | some sub =>
      simp only [hfg] at hf ⊢
      cases mult with
      | false =>
        simp only [Bool.not_false, ↓reduceIte] at hf ⊢
        split at hf
        · cases hf
        · rename_i h1 r hr
          simp only [Except.ok.injEq] at hf
          subst hf
          obtain ⟨g1, ro, hro, habs⟩ := hsim _ _ _ _ _ _ (hmo.grows g) hr
          refine ⟨(pout ++ [ro], done), ?_, g.trans g1, Rel2.append (ha.grows g1) ⟨habs, trivial⟩, rfl⟩
          simp only [hro, Except.map]
      | true =>
        simp only [Bool.not_true, Bool.false_eq_true, ↓reduceIte] at hf ⊢
        cases hel : fmtElems sub with
        | error err => simp only [hel] at hf; cases hf
        | ok l =>
          cases l with
          | nil =>
            simp only [hel] at hf ⊢
            split at hf
            · cases hf
            · rename_i h1 c hft
              simp only [Except.ok.injEq] at hf
              subst hf
              obtain ⟨g1, habs⟩ := fetchTemplate_abs (hmo.grows g) hft
              exact ⟨_, rfl, g.trans g1, Rel2.append (ha.grows g1) ⟨habs, trivial⟩, rfl⟩
          | cons x xs =>
            simp only [hel] at hf ⊢
            -- the template copy before the first instance
            have hpre : ∀ acc, (if fmtNeedTmpl done o.name = true then
                  (match fetchTemplate h mid (-1) with
                   | none => (Except.error Err.outOfFuel : R (Heap × List Nat))
                   | some (h1, c) => .ok (h1, out ++ [c]))
                else .ok (h, out)) = .ok acc →
                RelA hA acc (if fmtNeedTmpl done o.name = true then pout ++ [withTmpl o (-1)] else pout) := by
              intro acc hp
              by_cases hn : fmtNeedTmpl done o.name = true
              · simp only [hn, ↓reduceIte] at hp ⊢
                split at hp
                · cases hp
                · rename_i h1 c hft
                  simp only [Except.ok.injEq] at hp
                  subst hp
                  obtain ⟨g1, habs⟩ := fetchTemplate_abs (hmo.grows g) hft
                  exact ⟨g.trans g1, Rel2.append (ha.grows g1) ⟨habs, trivial⟩⟩
              · simp only [hn, Bool.false_eq_true, ↓reduceIte, Except.ok.injEq] at hp ⊢
                subst hp
                exact ⟨g, ha⟩
            split at hf
            · cases hf
            · rename_i acc hacc
              have hqa := hpre acc hacc
              split at hf
              · cases hf
              · rename_i h3 out3 hfold
                simp only [Except.ok.injEq] at hf
                subst hf
                obtain ⟨t', ht, g3, ha3⟩ := foldSim (fmtAppH rec mid) (fmtAppP F o) (RelA hA) (fun a b => a = b)
                  (fun acc acc' a b acc2 hq hab hs => by
                    subst hab
                    exact fmtAppH_sim hsim hmo acc acc2 acc' a hq hs)
                  (x :: xs) (x :: xs) _ _ _ (Rel2.diag (fun _ _ => rfl)) hqa hfold
                refine ⟨(t', _), ?_, g3, ha3, rfl⟩
                simp only [ht, Except.map]
  · cases hf

theorem fstepH_sim {F : Obj → PVal → R Obj} {rec : Nat → PVal → Heap → R (Heap × Nat)} (hsim : RecSimF F rec)
    {hA : Heap} (mk : List Nat) (mobjs : List Obj) (v : PVal) (hmk : AbsL hA mk mobjs)
    (st st2 : Heap × List Nat × List (Str × Bool)) (st' : List Obj × List (Str × Bool)) (io : Nat × Obj)
    (hq : RelI hA st st') (hio : mobjs[io.1]? = some io.2) (hf : fstepH rec mk v st io = .ok st2) :
    ∃ st2', fstepP F v st' io = .ok st2' ∧ RelI hA st2 st2' := by
  obtain ⟨h, out, done⟩ := st
  obtain ⟨pout, pdone⟩ := st'
  obtain ⟨idx, o⟩ := io
  obtain ⟨g, ha, hd⟩ := hq
  simp only at g ha hd hio
  subst hd
  unfold fstepH at hf
  unfold fstepP
  dsimp only at hf ⊢
  cases hmidEq : mk[idx]? with
  | none => simp only [hmidEq] at hf; cases hf
  | some mid =>
    simp only [hmidEq] at hf
    have hmo : Abs hA mid o := Rel2.get hmk hmidEq hio
    by_cases hskip : (isMultiple o && o.isScope && done.any (·.1 == o.name)) = true
    · simp only [hskip, ↓reduceIte, Except.ok.injEq] at hf ⊢
      subst hf
      exact ⟨_, rfl, g, ha, rfl⟩
    · simp only [hskip, Bool.false_eq_true, ↓reduceIte] at hf ⊢
      generalize (if (isMultiple o && o.isScope) = true then done ++ [(o.name, false)] else done) = done1 at hf ⊢
      have hrecv : ∀ w, (match rec mid w h with
            | .error err => (Except.error err : R (Heap × List Nat × List (Str × Bool)))
            | .ok (h1, r) => .ok (h1, out ++ [r], done1)) = .ok st2 →
          ∃ st2', Except.map (fun r => (pout ++ [r], done1)) (F o w) = .ok st2' ∧ RelI hA st2 st2' := by
        intro w hw
        split at hw
        · cases hw
        · rename_i h1 r hr
          simp only [Except.ok.injEq] at hw
          subst hw
          obtain ⟨g1, ro, hro, habs⟩ := hsim _ _ _ _ _ _ (hmo.grows g) hr
          refine ⟨(pout ++ [ro], done1), ?_, g.trans g1, Rel2.append (ha.grows g1) ⟨habs, trivial⟩, rfl⟩
          simp only [hro, Except.map]
      have hloop : ∀ pobjs, foldH (finnerH rec o mid (isMultiple o)) (h, out, done1) pobjs = .ok st2 →
          ∃ st2', pobjs.foldlM (finnerP F o (isMultiple o)) (pout, done1) = .ok st2' ∧ RelI hA st2 st2' := by
        intro pobjs hfold
        exact foldSim (finnerH rec o mid (isMultiple o)) (finnerP F o (isMultiple o)) (RelI hA) (fun a b => a = b)
          (fun st st' a b st2 hq hab hs => by
            subst hab
            exact finnerH_sim hsim hmo (isMultiple o) st st2 st' a hq hs)
          pobjs pobjs _ _ _ (Rel2.diag (fun _ _ => rfl)) ⟨g, ha, rfl⟩ hfold
      cases v with
      | none => exact hrecv _ hf
      | auto => exact hrecv _ hf
      | record fs => exact hloop _ hf
      | multi opt l => exact hloop _ hf
      | list l => exact hloop _ hf
      | bool b => simp only [fmtPobjs] at hf; cases hf
      | num n => simp only [fmtPobjs] at hf; cases hf
      | str s => simp only [fmtPobjs] at hf; cases hf
      | words ws => simp only [fmtPobjs] at hf; cases hf

/-- the heap model of `format` is simulated by the pure model, at every fuel -/
theorem formatH_sim (e : Envs) : ∀ (fuel : Nat), RecSimF (formatObj e fuel) (formatH e fuel)
  | 0 => by
    intro x v h h' r o _ hf
    simp only [formatH] at hf
    cases hf
  | fuel + 1 => by
    intro x v h h' r o ha hf
    have ih := formatH_sim e fuel
    simp only [formatH] at hf
    rcases Abs_cell ha with ⟨m, ws, p, hx, rfl⟩ | ⟨m, ks, p, os, hx, rfl, hk⟩
    · simp only [hx] at hf
      cases hd : formatDefn e m ws v with
      | error err => simp only [hd] at hf; cases hf
      | ok o' =>
        simp only [hd] at hf
        obtain ⟨nws, rfl⟩ := formatDefn_shape hd
        split at hf
        · cases hf
        · rename_i h1 c hcc
          simp only [Except.ok.injEq, Prod.mk.injEq] at hf
          obtain ⟨rfl, rfl⟩ := hf
          obtain ⟨n, hn, rfl, rfl⟩ := customizedCopy_eq hcc
          rw [hx] at hn
          cases hn
          refine ⟨Grows.alloc _ _, .defn { m with tmpl := 0 } nws, ?_, ?_⟩
          · simp only [formatObj]
            exact hd
          · refine Abs_defn_intro (p := p) ?_
            show (h ++ _)[h.length]? = _
            rw [List.getElem?_append_right (Nat.le_refl _), Nat.sub_self]
            rfl
    · simp only [hx] at hf
      cases hmo : mapOpt (abs h) ks with
      | none => simp only [hmo] at hf; cases hf
      | some mobjs =>
        simp only [hmo] at hf
        have hEq : mobjs = os := AbsL_unique (AbsL_of_mapOpt hmo) hk
        subst hEq
        cases hact : masterActiveObjects mobjs with
        | error err => simp only [hact] at hf; cases hf
        | ok actives =>
          simp only [hact] at hf
          split at hf
          · cases hf
          · rename_i h2 out done hfold
            obtain ⟨st2', hp, g2, hout, _⟩ := foldSim (fstepH (formatH e fuel) ks v) (fstepP (formatObj e fuel) v) (RelI h)
              (fun (a b : Nat × Obj) => a = b ∧ mobjs[a.1]? = some a.2)
              (fun st st' a b st2 hq hab hs => by
                obtain ⟨rfl, hio⟩ := hab
                exact fstepH_sim ih ks mobjs v hk st st2 st' a hq hio hs)
              actives actives _ (([] : List Obj), ([] : List (Str × Bool))) _
              (Rel2.diag (fun a ha => ⟨rfl, masterActiveObjects_get hact a ha⟩))
              (show RelI h (h, [], []) ([], []) from ⟨Grows.refl _, trivial, rfl⟩) hfold
            obtain ⟨pout, pdone⟩ := st2'
            simp only at g2 hout
            split at hf
            · cases hf
            · rename_i h3 r' hres
              unfold fetchResult at hres
              obtain ⟨n', hn', rfl, rfl⟩ := customizedCopy_eq hres
              simp only [Except.ok.injEq, Prod.mk.injEq] at hf
              obtain ⟨rfl, rfl⟩ := hf
              rw [g2.get hx] at hn'
              cases hn'
              refine ⟨g2.trans (Grows.alloc _ _), .scope { m with tmpl := 0 } pout, ?_, ?_⟩
              · rw [formatObj_scope_xt, fstep_xt_eq_fstepP]
                simp only [hact, hp]
              · refine Abs_scope_intro (ks := out) (p := p) ?_ (Rel2.imp (fun _ _ hh => Abs.append hh _) hout)
                show (h2 ++ _)[h2.length]? = _
                rw [List.getElem?_append_right (Nat.le_refl _), Nat.sub_self]
                rfl

end Phil.Heap
