/-
  Phil.Proofs.ArgTransfer — lemmas behind the value-transfer clause of C14: what the successful result
  of `argument_interpreter.process_arg` IS.  `processArg` is restated as "one text per definition of the
  argument, first refusal wins, parse the concatenation" (`processArg_eq_at`); the text printed for a
  definition renamed to a dotted target path is the text of the chain of scopes a file line
  `a.b.c = …` parses to (`argText_chain_at`), so the nested print → parse theorems
  (Phil/Proofs/PrintParseNested.lean) give the parsed result.
  Every declaration carries the suffix `_at`.  Property statements: Phil/Props/C14Transfer.lean.
-/
import Phil.CmdLine
import Phil.Proofs.PrintParseNested
import Phil.Proofs.FetchLemmas
import Phil.Proofs.CmdLineLemmas
set_option linter.unusedSimpArgs false
set_option linter.unusedVariables false
namespace Phil

/-! ### 1. `process_arg` restated -/

/-- one entry of `scope.all_definitions()`: full path, object data, words -/
abbrev ArgDef_at := Str × Meta × List Word

/-- what `process_arg` does with ONE definition of the argument: the text it contributes to
    `complete_definitions` (the definition renamed to the chosen full target path, printed with
    `as_str()` at the default width), or the refusal -/
def argDefnText_at (home : Option Str) (targets : List Str) (experts : List Int) (d : ArgDef_at) :
    Except ArgOutcome Str :=
  match choosePath home targets experts d.1 with
  | .unknown => .error (.sorry_ "unknown" [])
  | .ambiguous best => .error (.sorry_ "ambiguous" (best.filterMap (targets[·]?)))
  | .chosen i _ =>
    match targets[i]? with
    | none => .error (.runtime (.stray "IndexError" "target_paths"))
    | some tp =>
      match showDefn {} { d.2.1 with name := tp, tmpl := 0 } d.2.2 [] [] with
      | .error e => .error (.runtime e)
      | .ok lines => .ok (unlines lines)

/-- the texts of the definitions of the argument in order, concatenated; the FIRST refusal wins -/
def argTexts_at (home : Option Str) (targets : List Str) (experts : List Int) :
    List ArgDef_at → Except ArgOutcome Str
  | [] => .ok []
  | d :: ds =>
    match argDefnText_at home targets experts d with
    | .error out => .error out
    | .ok t =>
      match argTexts_at home targets experts ds with
      | .error out => .error out
      | .ok ts => .ok (t ++ ts)

/-- `process_arg` after the argument has been parsed, as a function of its definitions -/
def processDefs_at (home : Option Str) (targets : List Str) (experts : List Int)
    (defs : List ArgDef_at) : ArgOutcome :=
  match argTexts_at home targets experts defs with
  | .error out => out
  | .ok text =>
    if text.isEmpty then .sorry_ "no_effect" []
    else (match parseObjs text with
      | .ok r => .ok r
      | .error e => .runtime e)

/-- the step function of the loop of `processArg`, with projections instead of the pattern -/
def argStep_at (home : Option Str) (targets : List Str) (experts : List Int)
    (acc : Option (Except ArgOutcome Str)) (x : ArgDef_at) : Option (Except ArgOutcome Str) :=
  match acc with
  | some (.error e) => some (.error e)
  | some (.ok text) =>
    (match choosePath home targets experts x.1 with
     | .unknown => some (.error (.sorry_ "unknown" []))
     | .ambiguous best => some (.error (.sorry_ "ambiguous" (best.filterMap (targets[·]?))))
     | .chosen i _ =>
       (match targets[i]? with
        | none => some (.error (.runtime (.stray "IndexError" "target_paths")))
        | some tp =>
          (match showDefn {} { x.2.1 with name := tp, tmpl := 0 } x.2.2 [] [] with
           | .error e => some (.error (.runtime e))
           | .ok lines => some (.ok (text ++ unlines lines)))))
  | none => none

theorem argFold_error_at (home : Option Str) (targets : List Str) (experts : List Int)
    (defs : List ArgDef_at) (e : ArgOutcome) :
    defs.foldl (argStep_at home targets experts) (some (.error e)) = some (.error e) := by
  induction defs with
  | nil => rfl
  | cons d ds ih => rw [List.foldl_cons]; exact ih

theorem argFold_at (home : Option Str) (targets : List Str) (experts : List Int)
    (defs : List ArgDef_at) : ∀ acc : Str,
    defs.foldl (argStep_at home targets experts) (some (.ok acc))
      = some (match argTexts_at home targets experts defs with
              | .error e => .error e
              | .ok t => .ok (acc ++ t)) := by
  induction defs with
  | nil => intro acc; simp [argTexts_at]
  | cons d ds ih =>
    intro acc
    rw [List.foldl_cons, argTexts_at]
    have hstep : argStep_at home targets experts (some (.ok acc)) d
        = match argDefnText_at home targets experts d with
          | .error e => some (.error e)
          | .ok t => some (.ok (acc ++ t)) := by
      unfold argStep_at argDefnText_at
      dsimp only
      split
      · rfl
      · rfl
      · split
        · rfl
        · split <;> rfl
    rw [hstep]
    cases hd : argDefnText_at home targets experts d with
    | error e => dsimp only; rw [argFold_error_at]
    | ok t =>
      dsimp only
      rw [ih]
      cases argTexts_at home targets experts ds with
      | error e => rfl
      | ok ts => simp

/-- **`processArg` restated**: parse the argument, then `processDefs_at` of its definitions -/
theorem processArg_eq_at (home : Option Str) (targets : List Str) (experts : List Int) (arg : Str) :
    processArg home targets experts arg =
      match parseObjs arg with
      | .error (.unsupported w) => .runtime (.unsupported w)
      | .error _ => .sorry_ "arg_syntax" []
      | .ok objs => processDefs_at home targets experts (allDefinitions objs) := by
  unfold processArg
  cases parseObjs arg with
  | error e => cases e <;> rfl
  | ok objs =>
    dsimp only
    have h := argFold_at home targets experts (allDefinitions objs) []
    show (match (allDefinitions objs).foldl (argStep_at home targets experts) (some (.ok [])) with
      | some (.error out) => out
      | some (.ok text) =>
        if text.isEmpty then ArgOutcome.sorry_ "no_effect" []
        else (match parseObjs text with
          | .ok r => ArgOutcome.ok r
          | .error e => ArgOutcome.runtime e)
      | none => ArgOutcome.runtime (.stray "?" "unreachable")) = _
    rw [h]
    unfold processDefs_at
    cases argTexts_at home targets experts (allDefinitions objs) with
    | error e => rfl
    | ok t => simp

/-! ### 2. the text printed for one definition of the argument -/

/-- the print width `as_str()` uses inside `process_arg`: the default, 79 -/
def argWidth_at : Int := ({} : ShowOpts).width

theorem argWidth_eq_at : argWidth_at = 79 := rfl

/-- `customized_copy(name=tp).as_str()` of an enabled definition that is not `.deprecated`: the
    value lines of `tp = w1 … wk` at the default width.  Attributes are not printed (attributes level
    0), ids, source positions and `merge_names` play no role. -/
theorem showDefn_arg_at (m : Meta) (tp : Str) (ws : List Word)
    (hdis : m.disabled = false) (hdep : (m.attrs.get "deprecated").truthy = false)
    (hinc : tp ≠ "include".toList) :
    showDefn {} { m with name := tp, tmpl := 0 } ws [] []
      = .ok (showWords argWidth_at (defIndent tp) ws (defHead tp) []) := by
  have hline : defnLine { m with name := tp, tmpl := 0 } [] [] = tp ++ [' ', '='] := by
    have hinc' : ¬ tp = ['i', 'n', 'c', 'l', 'u', 'd', 'e'] := hinc
    simp [defnLine, hdis, hinc', joinWith]
  rw [showDefn_eq, showDefnBody, hline]
  have h0 : ¬ ((0 : Int) < 0) := by omega
  simp only [h0, decide_false, Bool.false_and, Bool.false_eq_true, ↓reduceIte, hdep,
    expertHidden_none, expertGate_false, showAttributes_level_nonpos _ _ _ _ _ (Int.le_refl 0)]
  simp [defIndent, defHead, argWidth_at]

/-- the text of that definition -/
def argLineText_at (w : Int) (tp : Str) (ws : List Word) : Str :=
  tp ++ [' ', '='] ++ wrapTail w (defIndent tp) ws (defHead tp) ++ ['\n']

theorem argDefnText_chosen_at (home : Option Str) (targets : List Str) (experts : List Int)
    (d : ArgDef_at) (i : Nat) (wn : Bool) (tp : Str)
    (hch : choosePath home targets experts d.1 = .chosen i wn) (ht : targets[i]? = some tp)
    (hdis : d.2.1.disabled = false) (hdep : (d.2.1.attrs.get "deprecated").truthy = false)
    (hinc : tp ≠ "include".toList) :
    argDefnText_at home targets experts d = .ok (argLineText_at argWidth_at tp d.2.2) := by
  unfold argDefnText_at
  rw [hch]
  dsimp only
  rw [ht]
  dsimp only
  rw [showDefn_arg_at d.2.1 tp d.2.2 hdis hdep hinc]
  dsimp only
  rw [unlines_showWords]
  simp [argLineText_at, unlines, defHead]

/-! ### 3. the chain of scopes of a dotted path -/

/-- `(ms, nm, ws)`: the definition `nm = ws` below the scopes `ms` (outermost first); the full path is
    `dottedName ms nm` -/
abbrev ChainSpec_at := List Str × Str × List Word

/-- the tree a file line `m1.….mk.nm = ws` parses to, up to ids and source positions: the scopes
    `m1 { … mk { nm = ws } }` as `scope.adopt` builds them for a dotted name (`merge_names` True below
    the outermost scope) -/
def chainOf_at (c : ChainSpec_at) : Obj :=
  nestIn none false c.1 (.defn { name := c.2.1, mergeNames := !c.1.isEmpty } c.2.2)

/-- the full dotted path of a chain -/
def chainPath_at (c : ChainSpec_at) : Str := dottedName c.1 c.2.1

theorem firstMerges_nestIn_at (id : Option Nat) (ns : List Str) (leaf : Obj)
    (h : leaf.meta.mergeNames = true) : firstMerges [nestIn id true ns leaf] = true := by
  cases ns with
  | nil => exact h
  | cons n ns => rfl

theorem treeText_nestIn_at (w : Int) (id : Option Nat) (leaf : Obj) (ind : Str) :
    ∀ (ms pre : List Str) (b : Bool), (ms ≠ [] → leaf.meta.mergeNames = true) →
      treeText w (nestIn id b ms leaf) pre ind = treeText w leaf (pre ++ ms) ind := by
  intro ms
  induction ms with
  | nil => intro pre b _; simp [nestIn]
  | cons n ns ih =>
    intro pre b h
    have hm := h (by simp)
    rw [nestIn, treeText, firstMerges_nestIn_at id ns leaf hm, if_pos rfl, kidsText, kidsText,
      ih (pre ++ [n]) true (fun _ => hm)]
    simp

theorem wrapsOK_nestIn_at (w : Int) (id : Option Nat) (leaf : Obj) (ind : Str) :
    ∀ (ms pre : List Str) (b : Bool), (ms ≠ [] → leaf.meta.mergeNames = true) →
      (WrapsOK w (nestIn id b ms leaf) pre ind ↔ WrapsOK w leaf (pre ++ ms) ind) := by
  intro ms
  induction ms with
  | nil => intro pre b _; simp [nestIn]
  | cons n ns ih =>
    intro pre b h
    have hm := h (by simp)
    rw [nestIn, WrapsOK, firstMerges_nestIn_at id ns leaf hm, if_pos rfl, WrapsOKs, WrapsOKs,
      ih (pre ++ [n]) true (fun _ => hm)]
    simp

theorem fits_nestIn_at (w : Int) (id : Option Nat) (leaf : Obj) (ind : Str) :
    ∀ (ms pre : List Str) (b : Bool), (ms ≠ [] → leaf.meta.mergeNames = true) →
      (Fits w (nestIn id b ms leaf) pre ind ↔ Fits w leaf (pre ++ ms) ind) := by
  intro ms
  induction ms with
  | nil => intro pre b _; simp [nestIn]
  | cons n ns ih =>
    intro pre b h
    have hm := h (by simp)
    rw [nestIn, Fits, firstMerges_nestIn_at id ns leaf hm, if_pos rfl, FitsAll, FitsAll,
      ih (pre ++ [n]) true (fun _ => hm)]
    simp

theorem allDefns_nestIn_at (P : List Word → Prop) (id : Option Nat) (leaf : Obj) :
    ∀ (ms : List Str) (b : Bool), ((nestIn id b ms leaf).allDefns P ↔ leaf.allDefns P) := by
  intro ms
  induction ms with
  | nil => intro b; simp [nestIn]
  | cons n ns ih =>
    intro b
    rw [nestIn, Obj.allDefns, allDefnsList, allDefnsList, ih true]
    simp

theorem expIds_nestIn_at (id : Option Nat) (leaf : Obj) (i : Nat) :
    ∀ (ms : List Str) (b : Bool), (ms ≠ [] → leaf.meta.mergeNames = true) →
      expIds i (nestIn id b ms leaf) = List.replicate ms.length i ++ expIds i leaf := by
  intro ms
  induction ms with
  | nil => intro b _; simp [nestIn]
  | cons n ns ih =>
    intro b h
    have hm := h (by simp)
    rw [nestIn, expIds, firstMerges_nestIn_at id ns leaf hm, if_pos rfl, expIdsSame, expIdsSame,
      ih true (fun _ => hm)]
    simp [List.replicate_succ]

theorem items_nestIn_at (id : Option Nat) (leaf : Obj) :
    ∀ (ms : List Str) (b : Bool), (ms ≠ [] → leaf.meta.mergeNames = true) →
      (nestIn id b ms leaf).items = leaf.items := by
  intro ms
  induction ms with
  | nil => intro b _; simp [nestIn]
  | cons n ns ih =>
    intro b h
    have hm := h (by simp)
    rw [nestIn, Obj.items, firstMerges_nestIn_at id ns leaf hm, if_pos rfl, itemsList, itemsList,
      ih true (fun _ => hm)]
    simp

/-- the chain of a good dotted path is in the class of trees of the nested round trip -/
theorem rtNode_nestIn_at (nm : Str) (ws : List Word) (hn : goodName nm = true) (hne : ws ≠ [])
    (hw : ∀ x ∈ ws, goodWord x = true) :
    ∀ (ms pre : List Str), GoodPath ms → isReserved (dottedName (pre ++ ms) nm) = false →
      RTNode pre (nestIn none (!pre.isEmpty) ms
        (.defn { name := nm, mergeNames := !(pre ++ ms).isEmpty } ws)) := by
  intro ms
  induction ms with
  | nil =>
    intro pre _ hres
    simp only [nestIn, List.append_nil] at hres ⊢
    unfold RTNode
    exact ⟨rfl, hn, hres, hne, hw⟩
  | cons n ns ih =>
    intro pre hp hres
    have hgn : goodName n = true := hp n (by simp)
    have hp' : GoodPath ns := fun x hx => hp x (by simp [hx])
    have e1 : pre ++ n :: ns = (pre ++ [n]) ++ ns := by simp
    have e2 : (!(pre ++ [n]).isEmpty) = true := by cases pre <;> rfl
    have h := ih (pre ++ [n]) hp' (by rw [← e1]; exact hres)
    rw [e2, ← e1] at h
    rw [nestIn, RTNode]
    refine ⟨rfl, hgn, Or.inr ?_⟩
    unfold RTOne
    exact ⟨h, rfl⟩

/-! ### 4. parsing the texts of chains -/

/-- the hypotheses on one chain at print width `w`: good undotted components, the full path not a
    reserved identifier, at least one word, good words, and the exact wrapping condition of the round
    trip for the line `path = words` at width `w` -/
structure ChainGood_at (w : Int) (c : ChainSpec_at) : Prop where
  path : GoodPath c.1
  name : goodName c.2.1 = true
  notReserved : isReserved (chainPath_at c) = false
  nonempty : c.2.2 ≠ []
  words : ∀ x ∈ c.2.2, goodWord x = true
  wraps : wrapOK w (defIndent (chainPath_at c)) c.2.2 (defHead (chainPath_at c)) true = true

/-- the same for the unwrapped file line `path = words` -/
structure ChainGoodFile_at (c : ChainSpec_at) : Prop where
  path : GoodPath c.1
  name : goodName c.2.1 = true
  notReserved : isReserved (chainPath_at c) = false
  nonempty : c.2.2 ≠ []
  words : ∀ x ∈ c.2.2, goodWord x = true
  chain : chainOK true c.2.2 = true

/-- the wrapping condition implies the condition for the unwrapped line -/
theorem chainOK_of_wrapOK_at (w : Int) (indent : Str) (ws : List Word) :
    ∀ (line : Str) (same : Bool), wrapOK w indent ws line same = true → chainOK same ws = true := by
  induction ws with
  | nil => intro _ _ _; rfl
  | cons x xs ih =>
    intro line same h
    rw [wrapOK] at h
    rw [chainOK]
    split at h
    · simp only [Bool.and_eq_true] at h ⊢
      exact ⟨by simp [h.1], ih _ _ h.2⟩
    · simp only [Bool.and_eq_true] at h ⊢
      exact ⟨h.1, ih _ _ h.2⟩

theorem ChainGood_at.toFile {w : Int} {c : ChainSpec_at} (h : ChainGood_at w c) : ChainGoodFile_at c :=
  ⟨h.path, h.name, h.notReserved, h.nonempty, h.words, chainOK_of_wrapOK_at w _ _ _ _ h.wraps⟩

/-- the file line `path = w1 … wk` -/
def fileLine_at (tp : Str) (ws : List Word) : Str := tp ++ [' ', '='] ++ wordsText ws ++ ['\n']

theorem chainOf_rt_at {c : ChainSpec_at} (hp : GoodPath c.1) (hn : goodName c.2.1 = true)
    (hres : isReserved (chainPath_at c) = false) (hne : c.2.2 ≠ [])
    (hw : ∀ x ∈ c.2.2, goodWord x = true) : RTNode [] (chainOf_at c) :=
  rtNode_nestIn_at c.2.1 c.2.2 hn hne hw c.1 [] hp hres

theorem chainOf_merge_at (c : ChainSpec_at) :
    c.1 ≠ [] → (Obj.defn { name := c.2.1, mergeNames := !c.1.isEmpty } c.2.2).meta.mergeNames = true := by
  intro h
  cases hc : c.1 with
  | nil => exact absurd hc h
  | cons _ _ => rfl

theorem treeText_chain_at (w : Int) (c : ChainSpec_at) :
    treeText w (chainOf_at c) [] [] = argLineText_at w (chainPath_at c) c.2.2 := by
  unfold chainOf_at
  rw [treeText_nestIn_at w none _ [] c.1 [] false (chainOf_merge_at c), treeText]
  simp [argLineText_at, chainPath_at]

theorem kidsText_chains_at (w : Int) (cs : List ChainSpec_at) :
    kidsText w (cs.map chainOf_at) [] []
      = cs.flatMap (fun c => argLineText_at w (chainPath_at c) c.2.2) := by
  induction cs with
  | nil => rfl
  | cons c cs ih => rw [List.map_cons, kidsText, treeText_chain_at, ih, List.flatMap_cons]

/-- **Parsing the printed lines of chains** (width `w`, wrapped where `definition.show` wraps): the
    chains, in order, up to ids and source positions. -/
theorem parse_chains_at (w : Int) (cs : List ChainSpec_at) (h : ∀ c ∈ cs, ChainGood_at w c) :
    ∃ r, parseObjs (cs.flatMap (fun c => argLineText_at w (chainPath_at c) c.2.2)) = .ok r ∧
      eraseList r = eraseList (cs.map chainOf_at) ∧
      idsList r = (expIdsSeq 1 (cs.map chainOf_at)).map some := by
  rw [← kidsText_chains_at]
  refine parseObjs_trees w (cs.map chainOf_at) ?_ ?_
  · rw [RTAll_iff]
    intro x hx
    obtain ⟨c, hc, rfl⟩ := List.mem_map.mp hx
    have g := h c hc
    exact chainOf_rt_at g.path g.name g.notReserved g.nonempty g.words
  · rw [WrapsOKs_iff]
    intro x hx
    obtain ⟨c, hc, rfl⟩ := List.mem_map.mp hx
    have g := h c hc
    unfold chainOf_at
    rw [wrapsOK_nestIn_at w none _ [] c.1 [] false (chainOf_merge_at c), WrapsOK]
    simpa [chainPath_at] using g.wraps

theorem length_le_flatMap_at {α : Type} (f : α → Str) (cs : List α) (c : α) (hc : c ∈ cs) :
    (f c).length ≤ (cs.flatMap f).length := by
  induction cs with
  | nil => simp at hc
  | cons x xs ih =>
    rw [List.flatMap_cons, List.length_append]
    rcases List.mem_cons.mp hc with rfl | hc
    · omega
    · have := ih hc; omega

theorem fits_chain_at (W : Int) (c : ChainSpec_at) :
    Fits W (chainOf_at c) [] [] ↔
      ((defHead (chainPath_at c) ++ wordsText c.2.2).length : Int) ≤ W - 2 := by
  unfold chainOf_at
  rw [fits_nestIn_at W none _ [] c.1 [] false (chainOf_merge_at c), Fits]
  simp [chainPath_at]

theorem parse_fileLines_aux_at (W : Int) (cs : List ChainSpec_at) (h : ∀ c ∈ cs, ChainGoodFile_at c)
    (hfit : ∀ c ∈ cs, ((defHead (chainPath_at c) ++ wordsText c.2.2).length : Int) ≤ W - 2) :
    (∀ c ∈ cs, ChainGood_at W c) ∧
    cs.flatMap (fun c => argLineText_at W (chainPath_at c) c.2.2)
      = cs.flatMap (fun c => fileLine_at (chainPath_at c) c.2.2) := by
  constructor
  · intro c hc
    have g := h c hc
    refine ⟨g.path, g.name, g.notReserved, g.nonempty, g.words, ?_⟩
    rw [wrapOK_nowrap W _ _ _ true (hfit c hc)]
    exact g.chain
  · induction cs with
    | nil => rfl
    | cons c cs ih =>
      have e : argLineText_at W (chainPath_at c) c.2.2 = fileLine_at (chainPath_at c) c.2.2 := by
        rw [argLineText_at, fileLine_at, wrapTail_nowrap W _ _ _ (hfit c (by simp))]
      rw [List.flatMap_cons, List.flatMap_cons, e,
        ih (fun x hx => h x (by simp [hx])) (fun x hx => hfit x (by simp [hx]))]

/-- **Parsing the file lines of chains** (`path = w1 … wk`, one line each, nothing wrapped): the
    same chains. -/
theorem parse_fileLines_at (cs : List ChainSpec_at) (h : ∀ c ∈ cs, ChainGoodFile_at c) :
    ∃ r, parseObjs (cs.flatMap (fun c => fileLine_at (chainPath_at c) c.2.2)) = .ok r ∧
      eraseList r = eraseList (cs.map chainOf_at) ∧
      idsList r = (expIdsSeq 1 (cs.map chainOf_at)).map some := by
  have hfit : ∀ c ∈ cs, ((defHead (chainPath_at c) ++ wordsText c.2.2).length : Int)
      ≤ (((cs.flatMap (fun c => fileLine_at (chainPath_at c) c.2.2)).length : Int) + 2) - 2 := by
    intro c hc
    have hl := length_le_flatMap_at (fun c => fileLine_at (chainPath_at c) c.2.2) cs c hc
    have hl' : (defHead (chainPath_at c) ++ wordsText c.2.2).length
        ≤ (fileLine_at (chainPath_at c) c.2.2).length := by
      simp [fileLine_at, defHead]
    omega
  obtain ⟨hgood, hflat⟩ := parse_fileLines_aux_at _ cs h hfit
  have := parse_chains_at _ cs hgood
  rw [hflat] at this
  exact this

/-! ### 5. the definitions of an argument that are transferred -/

theorem chainPath_ne_include_at {ms : List Str} {nm : Str} (hp : GoodPath ms) (hn : goodName nm = true)
    (hres : isReserved (dottedName ms nm) = false) : dottedName ms nm ≠ "include".toList := by
  have h := (itemName_dotted hp hn hres).defName
  simp only [plainDefName, Bool.and_eq_true, bne_iff_ne, ne_eq] at h
  exact h.1.2

/-- `Transfers_at home targets experts d tc`: the definition `d = (path, object data, words)` of the
    argument is addressed to the target path `tc = (scopes, name)`:
    the selection step chooses an index whose target path is the dotted path of `tc`; the
    definition is enabled and not `.deprecated` (an argument never is, unless it says so itself);
    the components of the target path are good names, the words are good words and satisfy the exact
    wrapping condition for the line `full.path = words` at the default width 79. -/
structure Transfers_at (home : Option Str) (targets : List Str) (experts : List Int)
    (d : ArgDef_at) (tc : List Str × Str) : Prop where
  chosen : ∃ i wn, choosePath home targets experts d.1 = .chosen i wn ∧
    targets[i]? = some (dottedName tc.1 tc.2)
  enabled : d.2.1.disabled = false
  notDeprecated : (d.2.1.attrs.get "deprecated").truthy = false
  good : ChainGood_at argWidth_at (tc.1, tc.2, d.2.2)

/-- the chain a transferred definition ends up as -/
def chainSpecOf_at (p : ArgDef_at × (List Str × Str)) : ChainSpec_at := (p.2.1, p.2.2, p.1.2.2)

theorem argDefnText_transfer_at {home : Option Str} {targets : List Str} {experts : List Int}
    {d : ArgDef_at} {tc : List Str × Str} (h : Transfers_at home targets experts d tc) :
    argDefnText_at home targets experts d
      = .ok (argLineText_at argWidth_at (dottedName tc.1 tc.2) d.2.2) := by
  obtain ⟨i, wn, hch, ht⟩ := h.chosen
  exact argDefnText_chosen_at home targets experts d i wn _ hch ht h.enabled h.notDeprecated
    (chainPath_ne_include_at h.good.path h.good.name h.good.notReserved)

theorem argTexts_transfer_at (home : Option Str) (targets : List Str) (experts : List Int)
    (dts : List (ArgDef_at × (List Str × Str)))
    (h : ∀ p ∈ dts, Transfers_at home targets experts p.1 p.2) :
    argTexts_at home targets experts (dts.map (·.1))
      = .ok ((dts.map chainSpecOf_at).flatMap
          (fun c => argLineText_at argWidth_at (chainPath_at c) c.2.2)) := by
  induction dts with
  | nil => rfl
  | cons p ps ih =>
    rw [List.map_cons, argTexts_at, argDefnText_transfer_at (h p (by simp)),
      ih (fun q hq => h q (by simp [hq]))]
    rfl

theorem argLineText_ne_nil_at (w : Int) (tp : Str) (ws : List Word) : argLineText_at w tp ws ≠ [] := by
  simp [argLineText_at]

/-- **The successful result of `process_arg`, as a function of the argument's definitions**: when
    every definition is transferred, the result is the list of the chains — the target paths holding
    the argument's words — in order, up to ids and source positions. -/
theorem processDefs_transfer_at (home : Option Str) (targets : List Str) (experts : List Int)
    (dts : List (ArgDef_at × (List Str × Str))) (hne : dts ≠ [])
    (h : ∀ p ∈ dts, Transfers_at home targets experts p.1 p.2) :
    ∃ r, processDefs_at home targets experts (dts.map (·.1)) = .ok r ∧
      eraseList r = eraseList ((dts.map chainSpecOf_at).map chainOf_at) ∧
      idsList r = (expIdsSeq 1 ((dts.map chainSpecOf_at).map chainOf_at)).map some := by
  obtain ⟨r, hr, he, hi⟩ := parse_chains_at argWidth_at (dts.map chainSpecOf_at) (by
    intro c hc
    obtain ⟨p, hp, rfl⟩ := List.mem_map.mp hc
    exact (h p hp).good)
  refine ⟨r, ?_, he, hi⟩
  unfold processDefs_at
  rw [argTexts_transfer_at home targets experts dts h]
  dsimp only
  have hnil : ((dts.map chainSpecOf_at).flatMap
      (fun c => argLineText_at argWidth_at (chainPath_at c) c.2.2)).isEmpty = false := by
    cases dts with
    | nil => exact absurd rfl hne
    | cons p ps =>
      rw [List.map_cons, List.flatMap_cons]
      cases hl : argLineText_at argWidth_at (chainPath_at (chainSpecOf_at p)) (chainSpecOf_at p).2.2 with
      | nil => exact absurd hl (argLineText_ne_nil_at _ _ _)
      | cons _ _ => rfl
  rw [hnil, hr]
  rfl

/-- the first refusal wins -/
theorem processDefs_refusal_at (home : Option Str) (targets : List Str) (experts : List Int)
    (pre post : List ArgDef_at) (d : ArgDef_at) (out : ArgOutcome)
    (hpre : ∀ x ∈ pre, ∃ t, argDefnText_at home targets experts x = .ok t)
    (hd : argDefnText_at home targets experts d = .error out) :
    processDefs_at home targets experts (pre ++ d :: post) = out := by
  have : argTexts_at home targets experts (pre ++ d :: post) = .error out := by
    induction pre with
    | nil => rw [List.nil_append, argTexts_at, hd]
    | cons x xs ih =>
      obtain ⟨t, ht⟩ := hpre x (by simp)
      rw [List.cons_append, argTexts_at, ht, ih (fun y hy => hpre y (by simp [hy]))]
  unfold processDefs_at
  rw [this]

/-! ### 6. erasure: the result depends on the words up to their source lines -/

theorem chainOf_erase_at (c : ChainSpec_at) :
    (chainOf_at c).erase = chainOf_at (c.1, c.2.1, c.2.2.map Word.erase) := by
  unfold chainOf_at
  rw [nestIn_erase, Obj.erase_defn]
  rfl

theorem chainOf_erase_congr_at (ms : List Str) (nm : Str) (ws ws' : List Word)
    (h : ws.map Word.erase = ws'.map Word.erase) :
    (chainOf_at (ms, nm, ws)).erase = (chainOf_at (ms, nm, ws')).erase := by
  rw [chainOf_erase_at, chainOf_erase_at, h]

/-- ids of a single chain: the scopes of the chain share the id of the definition line -/
theorem expIds_chain_at (i : Nat) (c : ChainSpec_at) :
    expIds i (chainOf_at c) = List.replicate (c.1.length + 1) i := by
  unfold chainOf_at
  rw [expIds_nestIn_at none _ i c.1 false (chainOf_merge_at c), expIds, List.replicate_succ']

/-! ### 7. `all_definitions` of a chain, and of a tree known up to ids and source positions -/

/-- an entry of `all_definitions` without id and source positions -/
def argDefErase_at (d : ArgDef_at) : ArgDef_at := (d.1, d.2.1.erase, d.2.2.map Word.erase)

theorem allDefs_erase_at (o : Obj) :
    ∀ p : Str, allDefsObj o.erase p = (allDefsObj o p).map argDefErase_at := by
  induction o using Obj.rec
    (motive_2 := fun os => ∀ p : Str,
      allDefsObj.allDefsList (eraseList os) p = (allDefsObj.allDefsList os p).map argDefErase_at) with
  | defn m ws =>
    intro p
    rw [Obj.erase_defn, allDefsObj, allDefsObj]
    show (if m.name == "include".toList then [] else [(p ++ m.name, m.erase, ws.map Word.erase)]) = _
    split <;> rfl
  | scope m os ih =>
    intro p
    rw [Obj.erase_scope, allDefsObj, allDefsObj]
    exact ih _
  | nil => rename_i p; rw [eraseList_nil]; rfl
  | cons x xs ihx ihxs =>
    rename_i p
    rw [eraseList_cons, allDefsObj.allDefsList, allDefsObj.allDefsList, List.map_append, ihx, ihxs]
    have : x.erase.meta.disabled = x.meta.disabled := by cases x <;> rfl
    rw [this]
    split <;> rfl

theorem allDefsList_erase_at (os : List Obj) (p : Str) :
    allDefsObj.allDefsList (eraseList os) p = (allDefsObj.allDefsList os p).map argDefErase_at := by
  induction os with
  | nil => rw [eraseList_nil]; rfl
  | cons x xs ih =>
    rw [eraseList_cons, allDefsObj.allDefsList, allDefsObj.allDefsList, List.map_append,
      allDefs_erase_at, ih]
    have : x.erase.meta.disabled = x.meta.disabled := by cases x <;> rfl
    rw [this]
    split <;> rfl

theorem allDefinitions_erase_at (objs : List Obj) :
    allDefinitions (eraseList objs) = (allDefinitions objs).map argDefErase_at :=
  allDefsList_erase_at objs []

theorem dottedName_cons_at (n : Str) (ns : List Str) (nm : Str) :
    dottedName (n :: ns) nm = n ++ ['.'] ++ dottedName ns nm := by
  cases ns <;> rfl

theorem nestIn_enabled_at (id : Option Nat) (leaf : Obj) (h : leaf.meta.disabled = false)
    (ms : List Str) (b : Bool) : (nestIn id b ms leaf).meta.disabled = false := by
  cases ms with
  | nil => exact h
  | cons _ _ => rfl

theorem allDefs_nestIn_at (id : Option Nat) (leaf : Obj) (h : leaf.meta.disabled = false) :
    ∀ (ms : List Str) (b : Bool) (p : Str),
      allDefsObj (nestIn id b ms leaf) p = allDefsObj leaf (p ++ (ms.flatMap (· ++ ['.']))) := by
  intro ms
  induction ms with
  | nil => intro b p; simp [nestIn]
  | cons n ns ih =>
    intro b p
    rw [nestIn, allDefsObj, allDefsObj.allDefsList, allDefsObj.allDefsList,
      nestIn_enabled_at id leaf h ns true, ih]
    simp

theorem flatMap_dots_at (ms : List Str) (nm : Str) :
    ms.flatMap (· ++ ['.']) ++ nm = dottedName ms nm := by
  induction ms with
  | nil => rfl
  | cons n ns ih => rw [List.flatMap_cons, List.append_assoc, ih, dottedName_cons_at]

/-- `all_definitions` of a chain: the one definition, under its full dotted path -/
theorem allDefinitions_chain_at (c : ChainSpec_at) (hinc : c.2.1 ≠ "include".toList) :
    allDefinitions [chainOf_at c]
      = [(chainPath_at c, { name := c.2.1, mergeNames := !c.1.isEmpty }, c.2.2)] := by
  have hinc' : (c.2.1 == "include".toList) = false := by simpa using hinc
  unfold allDefinitions chainOf_at
  rw [allDefsObj.allDefsList, allDefsObj.allDefsList, nestIn_enabled_at none _ rfl c.1 false,
    allDefs_nestIn_at none _ rfl c.1 false [], allDefsObj]
  simp only [hinc', Bool.false_eq_true, ↓reduceIte, List.nil_append, List.append_nil]
  rw [flatMap_dots_at]
  rfl

theorem wrapOK_erase_at (w : Int) (indent : Str) (ws : List Word) :
    ∀ (line : Str) (same : Bool),
      wrapOK w indent (ws.map Word.erase) line same = wrapOK w indent ws line same := by
  induction ws with
  | nil => intro _ _; rfl
  | cons x xs ih =>
    intro line same
    have h1 : wraps w indent line x.erase = wraps w indent line x := rfl
    have h2 : x.erase.str = x.str := rfl
    have h3 : x.erase.value = x.value := rfl
    have h4 : x.erase.quote = x.quote := rfl
    rw [List.map_cons, wrapOK, wrapOK, h1, h2, h3, h4, ih, ih]

/-- the hypotheses on a chain depend on the words up to their source lines only -/
theorem chainGood_congr_at {w : Int} {ms : List Str} {nm : Str} {ws ws' : List Word}
    (he : ws'.map Word.erase = ws.map Word.erase) (h : ChainGood_at w (ms, nm, ws)) :
    ChainGood_at w (ms, nm, ws') := by
  refine ⟨h.path, h.name, h.notReserved, ?_, ?_, ?_⟩
  · intro e
    have e' : ws' = [] := e
    rw [e'] at he
    have : ws = [] := by simpa using he.symm
    exact h.nonempty this
  · intro x hx
    have hx' : x ∈ ws' := hx
    have : x.erase ∈ ws.map Word.erase := by rw [← he]; exact List.mem_map_of_mem hx'
    obtain ⟨y, hy, hxy⟩ := List.mem_map.mp this
    have hg := h.words y hy
    have e1 : goodWord x = goodWord x.erase := rfl
    have e2 : goodWord y = goodWord y.erase := rfl
    rw [e1, ← hxy, ← e2]
    exact hg
  · have := h.wraps
    show wrapOK w _ ws' _ true = true
    rw [← wrapOK_erase_at, he, wrapOK_erase_at]
    exact this

/-! ### 8. an argument given in the printed form `src = w1 … wk` -/

/-- what the argument `src = w1 … wk` (one line, `src` possibly dotted) parses to, as far as
    `process_arg` looks at it: one definition, under the path `src`, enabled, without attributes,
    with the words up to their source lines -/
theorem allDefinitions_fileLine_at (c : ChainSpec_at) (h : ChainGoodFile_at c) :
    ∃ objs d, parseObjs (fileLine_at (chainPath_at c) c.2.2) = .ok objs ∧
      allDefinitions objs = [d] ∧ d.1 = chainPath_at c ∧ d.2.1.disabled = false ∧ d.2.1.attrs = [] ∧
      d.2.2.map Word.erase = c.2.2.map Word.erase := by
  obtain ⟨objs, hobjs, herase, _⟩ := parse_fileLines_at [c] (by
    intro x hx; rw [List.mem_singleton.mp hx]; exact h)
  simp only [List.flatMap_cons, List.flatMap_nil, List.append_nil] at hobjs
  have hall : (allDefinitions objs).map argDefErase_at
      = [(chainPath_at c, { name := c.2.1, mergeNames := !c.1.isEmpty }, c.2.2.map Word.erase)] := by
    rw [← allDefinitions_erase_at, herase, List.map_cons, List.map_nil, eraseList_cons, eraseList_nil,
      chainOf_erase_at]
    exact allDefinitions_chain_at (c.1, c.2.1, c.2.2.map Word.erase) (goodName_not_include h.name)
  cases hd : allDefinitions objs with
  | nil => rw [hd] at hall; simp at hall
  | cons d ds =>
    rw [hd, List.map_cons] at hall
    have h1 := (List.cons.inj hall).1
    have h2 := (List.cons.inj hall).2
    have hds : ds = [] := by simpa using h2
    subst hds
    refine ⟨objs, d, hobjs, hd, ?_, ?_, ?_, ?_⟩
    · exact congrArg (·.1) h1
    · exact congrArg (·.2.1.disabled) h1
    · exact congrArg (·.2.1.attrs) h1
    · exact congrArg (·.2.2) h1

theorem attrs_nil_notDeprecated_at (m : Meta) (h : m.attrs = []) :
    (m.attrs.get "deprecated").truthy = false := by
  rw [h]; rfl

theorem expIdsSeq_single_chain_at (c : ChainSpec_at) :
    (expIdsSeq 1 ([c].map chainOf_at)).map some = List.replicate (c.1.length + 1) (some 1) := by
  rw [List.map_cons, List.map_nil, expIdsSeq, expIdsSeq, List.append_nil, expIds_chain_at]
  simp

/-! ### 9. every entry of `all_definitions` is enabled -/

theorem allDefs_enabled_at (o : Obj) :
    ∀ p : Str, o.meta.disabled = false → ∀ d ∈ allDefsObj o p, d.2.1.disabled = false := by
  induction o using Obj.rec
    (motive_2 := fun os => ∀ p : Str, ∀ d ∈ allDefsObj.allDefsList os p, d.2.1.disabled = false) with
  | defn m ws =>
    intro p hm d hd
    rw [allDefsObj] at hd
    split at hd
    · simp at hd
    · rw [List.mem_singleton.mp hd]; exact hm
  | scope m os ih =>
    intro p _ d hd
    rw [allDefsObj] at hd
    exact ih _ d hd
  | nil => rename_i p d hd; rw [allDefsObj.allDefsList] at hd; simp at hd
  | cons x xs ihx ihxs =>
    rename_i p d hd
    rw [allDefsObj.allDefsList, List.mem_append] at hd
    rcases hd with hd | hd
    · split at hd
      · simp at hd
      · rename_i hx
        exact ihx p (by simpa using hx) d hd
    · exact ihxs p d hd

theorem allDefsList_enabled_at (os : List Obj) (p : Str) :
    ∀ d ∈ allDefsObj.allDefsList os p, d.2.1.disabled = false := by
  induction os with
  | nil => intro d hd; rw [allDefsObj.allDefsList] at hd; simp at hd
  | cons x xs ih =>
    intro d hd
    rw [allDefsObj.allDefsList, List.mem_append] at hd
    rcases hd with hd | hd
    · split at hd
      · simp at hd
      · rename_i hx
        exact allDefs_enabled_at x p (by simpa using hx) d hd
    · exact ih d hd

/-- `all_definitions` lists enabled definitions only -/
theorem allDefinitions_enabled_at (objs : List Obj) :
    ∀ d ∈ allDefinitions objs, d.2.1.disabled = false :=
  allDefsList_enabled_at objs []

/-! ### 10. one definition; several definitions against the individual arguments; refusals -/

/-- `process_arg` on an argument whose parse holds exactly one definition, which is transferred -/
theorem processArg_single_at (home : Option Str) (targets : List Str) (experts : List Int) (arg : Str)
    (objs : List Obj) (d : ArgDef_at) (tc : List Str × Str)
    (hparse : parseObjs arg = .ok objs) (hone : allDefinitions objs = [d])
    (h : Transfers_at home targets experts d tc) :
    ∃ r, processArg home targets experts arg = .ok r ∧
      eraseList r = [chainOf_at (tc.1, tc.2, d.2.2.map Word.erase)] ∧
      idsList r = List.replicate (tc.1.length + 1) (some 1) := by
  obtain ⟨r, hr, he, hi⟩ := processDefs_transfer_at home targets experts [(d, tc)] (by simp)
    (by intro p hp; rw [List.mem_singleton.mp hp]; exact h)
  refine ⟨r, ?_, ?_, ?_⟩
  · rw [processArg_eq_at, hparse]
    dsimp only
    rw [hone]
    exact hr
  · rw [he, List.map_cons, List.map_nil, List.map_cons, List.map_nil, eraseList_cons, eraseList_nil,
      chainOf_erase_at]
    rfl
  · rw [hi]
    exact expIdsSeq_single_chain_at (chainSpecOf_at (d, tc))

theorem eraseList_append_at (a b : List Obj) : eraseList (a ++ b) = eraseList a ++ eraseList b := by
  rw [eraseList_eq_map, eraseList_eq_map, eraseList_eq_map, List.map_append]

/-- two lists of the same length whose elements are related position by position -/
inductive ListRel_at {α β : Type} (R : α → β → Prop) : List α → List β → Prop
  | nil : ListRel_at R [] []
  | cons {a : α} {b : β} {as : List α} {bs : List β} :
      R a b → ListRel_at R as bs → ListRel_at R (a :: as) (b :: bs)

/-- the individual arguments: for every definition `p` of the joint argument an argument text that
    parses to that one definition (same words up to source lines) and is transferred to the same
    target.  Their results, concatenated in order, are the chains of the joint argument. -/
theorem processArg_individual_at (home : Option Str) (targets : List Str) (experts : List Int)
    (args : List Str) (dts : List (ArgDef_at × (List Str × Str)))
    (hF : ListRel_at (fun (a : Str) (p : ArgDef_at × (List Str × Str)) =>
      ∃ o d', parseObjs a = .ok o ∧ allDefinitions o = [d'] ∧
        Transfers_at home targets experts d' p.2 ∧
        d'.2.2.map Word.erase = p.1.2.2.map Word.erase) args dts) :
    ∃ rs, ListRel_at (fun a rk => processArg home targets experts a = .ok rk) args rs ∧
      eraseList rs.flatten = eraseList ((dts.map chainSpecOf_at).map chainOf_at) := by
  induction hF with
  | nil => exact ⟨[], .nil, rfl⟩
  | @cons a p as ps hap _ ih =>
    obtain ⟨o, d', ho, hd', ht, hw⟩ := hap
    obtain ⟨rs, hrs, hers⟩ := ih
    obtain ⟨rk, hrk, hek, _⟩ := processArg_single_at home targets experts a o d' p.2 ho hd' ht
    refine ⟨rk :: rs, .cons hrk hrs, ?_⟩
    rw [List.flatten_cons, eraseList_append_at, hek, hers, List.map_cons, List.map_cons, eraseList_cons,
      chainOf_erase_at, hw]
    rfl

/-- `as_str()` at the default settings never fails -/
theorem showDefn_default_ok_at (m : Meta) (ws : List Word) (merged : List Str) (p : Str) :
    ∃ l, showDefn {} m ws merged p = .ok l := by
  rw [showDefn_eq]
  split
  · exact ⟨_, rfl⟩
  · split
    · exact ⟨_, rfl⟩
    · rw [expertHidden_none, expertGate_false, showDefnBody,
        showAttributes_level_nonpos _ _ _ _ _ (Int.le_refl 0)]
      exact ⟨_, rfl⟩

/-- a definition whose path is accepted by the selection step contributes a text -/
theorem argDefnText_ok_of_chosen_at (home : Option Str) (targets : List Str) (experts : List Int)
    (d : ArgDef_at) (i : Nat) (wn : Bool) (h : choosePath home targets experts d.1 = .chosen i wn) :
    ∃ t, argDefnText_at home targets experts d = .ok t := by
  obtain ⟨tp, htp, _⟩ := choose_sound h
  obtain ⟨l, hl⟩ := showDefn_default_ok_at { d.2.1 with name := tp, tmpl := 0 } d.2.2 [] []
  refine ⟨unlines l, ?_⟩
  unfold argDefnText_at
  rw [h]
  dsimp only
  rw [htp]
  dsimp only
  rw [hl]

/-! ### 11. lines that fit: the text handed to the parser IS the file text -/

/-- `Addressed_at home targets experts d tp`: the selection step addresses the definition `d` of the
    argument to the target path `tp` (ANY string other than `include`), `d` is not `.deprecated`, and
    the line `tp = words` fits into the 77 columns `definition.show` fills at the default width -/
structure Addressed_at (home : Option Str) (targets : List Str) (experts : List Int)
    (d : ArgDef_at) (tp : Str) : Prop where
  chosen : ∃ i wn, choosePath home targets experts d.1 = .chosen i wn ∧ targets[i]? = some tp
  enabled : d.2.1.disabled = false
  notDeprecated : (d.2.1.attrs.get "deprecated").truthy = false
  notInclude : tp ≠ "include".toList
  fits : ((tp ++ [' ', '='] ++ wordsText d.2.2).length : Int) ≤ 77

theorem argDefnText_fits_at {home : Option Str} {targets : List Str} {experts : List Int}
    {d : ArgDef_at} {tp : Str} (h : Addressed_at home targets experts d tp) :
    argDefnText_at home targets experts d = .ok (fileLine_at tp d.2.2) := by
  obtain ⟨i, wn, hch, ht⟩ := h.chosen
  rw [argDefnText_chosen_at home targets experts d i wn tp hch ht h.enabled h.notDeprecated h.notInclude,
    argLineText_at, fileLine_at, wrapTail_nowrap argWidth_at _ _ _ (by
      have := h.fits
      simp only [defHead, argWidth_eq_at]
      omega)]

theorem argTexts_fits_at (home : Option Str) (targets : List Str) (experts : List Int)
    (dts : List (ArgDef_at × Str)) (h : ∀ p ∈ dts, Addressed_at home targets experts p.1 p.2) :
    argTexts_at home targets experts (dts.map (·.1))
      = .ok (dts.flatMap (fun p => fileLine_at p.2 p.1.2.2)) := by
  induction dts with
  | nil => rfl
  | cons p ps ih =>
    rw [List.map_cons, argTexts_at, argDefnText_fits_at (h p (by simp)),
      ih (fun q hq => h q (by simp [hq]))]
    rfl

/-- **Lines that fit.**  When every definition of the argument is addressed and its line fits, the
    result of `process_arg` is, literally, the result of parsing the file text made of the lines
    `full.target.path = words` — success or failure, ids and source positions included; no
    hypothesis on the words. -/
theorem processArg_fits_at (home : Option Str) (targets : List Str) (experts : List Int) (arg : Str)
    (objs : List Obj) (dts : List (ArgDef_at × Str)) (hne : dts ≠ [])
    (hparse : parseObjs arg = .ok objs) (hdefs : allDefinitions objs = dts.map (·.1))
    (h : ∀ p ∈ dts, Addressed_at home targets experts p.1 p.2) :
    processArg home targets experts arg =
      match parseObjs (dts.flatMap (fun p => fileLine_at p.2 p.1.2.2)) with
      | .ok r => .ok r
      | .error e => .runtime e := by
  rw [processArg_eq_at, hparse]
  dsimp only
  rw [hdefs]
  unfold processDefs_at
  rw [argTexts_fits_at home targets experts dts h]
  dsimp only
  have hnil : (dts.flatMap (fun p => fileLine_at p.2 p.1.2.2)).isEmpty = false := by
    cases dts with
    | nil => exact absurd rfl hne
    | cons p ps =>
      rw [List.flatMap_cons]
      cases hl : fileLine_at p.2 p.1.2.2 with
      | nil => simp [fileLine_at] at hl
      | cons _ _ => rfl
  rw [hnil]
  rfl

#print axioms processArg_eq_at
#print axioms showDefn_arg_at
#print axioms parse_chains_at
#print axioms parse_fileLines_at
#print axioms processDefs_transfer_at
#print axioms processDefs_refusal_at
#print axioms allDefinitions_erase_at
#print axioms allDefinitions_chain_at
#print axioms allDefinitions_fileLine_at
#print axioms allDefinitions_enabled_at
#print axioms processArg_single_at
#print axioms processArg_individual_at
#print axioms processArg_fits_at

end Phil
