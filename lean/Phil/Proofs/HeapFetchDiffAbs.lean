/-
  Simulation of the heap-level diff fetch by the pure model: whenever `fetchDiffH` (Phil/HeapFetchDiff.lean) returns,
  the pure `fetchScope` (Phil/Fetch.lean, `diff = true`) returns on the abstractions of master and sources, and the
  result object denotes the pure result.  Diff twin of Phil/Proofs/HeapFetchAbs.lean, whose lemmas are reused wherever
  the diff flag only changes what is dropped.  Helper lemmas for Phil/Props/C17FetchDiffAbs.lean.
-/
import Phil.Proofs.HeapFetchDiffLemmas
import Phil.Proofs.HeapFetchAbs
namespace Phil.Heap
open Phil

/-! ### the pure model in diff mode, with its loop bodies named -/

/-- the bookkeeping of `processed_as_str` / `result_objs` (diff): a candidate from a further master instance only
    leaves the marker `-1` -/
def ctailDP (e : Envs) (fuel : Nat) (mo : Obj) (masterStr : Str) (fromM : Bool) (robjs : List (Option Obj))
    (processed : List (Str × Int)) (used u : List Nat) (c : Obj) : R (List (Option Obj) × List (Str × Int) × List Nat) :=
  match extractFormatStr e (fuel + 64) mo c with
  | .error err => .error err
  | .ok cs =>
    if cs == masterStr then .ok (robjs, processed, used ++ u)
    else
      let prev : Option (Str × Int) := processed.find? (fun (p : Str × Int) => p.1 == cs)
      if (match prev with | some p => p.2 == -1 | none => false) then .ok (robjs, processed, used ++ u)
      else
        let robjs : List (Option Obj) := match prev with
          | some p => robjs.zipIdx.map (fun (xi : Option Obj × Nat) => if (xi.2 : Int) == p.2 then none else xi.1)
          | none => robjs
        let processed : List (Str × Int) := processed.filter (fun (p : Str × Int) => p.1 != cs)
        if fromM then .ok (robjs, processed ++ [(cs, -1)], used ++ u)
        else .ok (robjs ++ [some c], processed ++ [(cs, (robjs.length : Int))], used ++ u)

/-- `candidate = master_object.fetch(source=matching_source, diff=True)` -/
def candDP (e : Envs) (fuel : Nat) (mo : Obj) (fromM : Bool) (ms : Obj) : R (Option Obj × List Nat) :=
  match mo, ms with
  | .defn _ _, _ =>
    (fetchDefn e fuel true mo ms).map (fun ro =>
      (ro, (match ms.meta.id with | some i => (if fromM then [] else [i]) | none => []) ++ (if fromM then [] else srcRefs ms)))
  | .scope mm kids, .scope _ skids =>
    (fetchScope e fuel true mm kids skids).map (fun (ro, u) =>
      ((if ro.children.isEmpty then none else some ro), if fromM then [] else u))
  | .scope _ _, .defn _ _ => .error (.runtime "incompatible" none)

def cstepDP (e : Envs) (fuel : Nat) (mo : Obj) (masterStr : Str) :
    (List (Option Obj) × List (Str × Int) × List Nat) → (Bool × Obj) → R (List (Option Obj) × List (Str × Int) × List Nat) :=
  fun acc fm =>
    match candDP e fuel mo fm.1 fm.2 with
    | .error err => .error err
    | .ok (none, u) => .ok (acc.1, acc.2.1, acc.2.2 ++ u)
    | .ok (some c, u) => ctailDP e fuel mo masterStr fm.1 acc.1 acc.2.1 acc.2.2 u c

def oneDP (e : Envs) (fuel : Nat) (mo : Obj) : (Option Obj × List Nat) → Obj → R (Option Obj × List Nat) :=
  fun acc ms =>
    (fetchDefn e fuel true mo ms).map (fun ro => (ro, acc.2 ++ (match ms.meta.id with | some i => [i] | none => []) ++ srcRefs ms))

def multiTailDP (e : Envs) (fuel : Nat) (mkids : List Obj) (idx : Nat) (mo : Obj) (masterStr : Str) (mP : List Obj)
    (out : List Obj) (used : List Nat) : R (List Obj × List Nat) :=
  match (((mkids.zipIdx.filter (fun (p : Obj × Nat) => !p.1.meta.disabled && p.1.name == mo.name && p.2 != idx)).map
          (fun (p : Obj × Nat) => (true, p.1))) ++ mP.map (fun (o : Obj) => (false, o))).foldlM
        (cstepDP e fuel mo masterStr) (([] : List (Option Obj)), ([] : List (Str × Int)), used) with
  | .error err => .error err
  | .ok (robjs, _, used) => .ok (out ++ [] ++ robjs.filterMap (fun (x : Option Obj) => x), used)

def stepDP (e : Envs) (fuel : Nat) (sm : Meta) (mkids combined : List Obj) :
    (List Obj × List Nat) → (Nat × Obj) → R (List Obj × List Nat) := fun st io =>
  if !isMultiple io.2 then
    match io.2 with
    | .defn _ _ =>
      (match (matchingP fuel sm combined io.2).foldlM (oneDP e fuel io.2) ((none : Option Obj), st.2) with
       | .error err => .error err
       | .ok (some ro, used) => .ok (st.1 ++ [ro], used)
       | .ok (none, used) => .ok (st.1, used))
    | .scope mm kids =>
      (match (matchingP fuel sm combined io.2).find? (·.isDefn) with
       | some _ => Except.error (.runtime "incompatible" none)
       | none =>
         match fetchScope e fuel true mm kids ((matchingP fuel sm combined io.2).flatMap Obj.children) with
         | .error err => .error err
         | .ok (ro, u2) => if ro.children.isEmpty then .ok (st.1, st.2 ++ u2) else .ok (st.1 ++ [ro], st.2 ++ u2))
  else
    match masterKeyOf e fuel io.2 (selfP e fuel io.2) with
    | .error err => .error err
    | .ok masterStr =>
      multiTailDP e fuel mkids io.1 io.2 masterStr (matchingP fuel sm combined io.2) st.1 st.2

theorem fetchScope_succ_diff (e : Envs) (fuel : Nat) (sm : Meta) (mkids combined : List Obj) :
    fetchScope e (fuel + 1) true sm mkids combined =
      match masterActiveObjects mkids with
      | .error err => .error err
      | .ok actives =>
        match actives.foldlM (stepDP e fuel sm mkids combined) (([] : List Obj), ([] : List Nat)) with
        | .error err => .error err
        | .ok (out, used) => .ok (.scope { sm with tmpl := 0 } out, used) := by
  rw [fetchScope]
  rfl

/-! ### simulation: pieces -/

theorem AbsL_isEmpty {h : Heap} : ∀ {l : List Nat} {l' : List Obj}, AbsL h l l' → l.isEmpty = l'.isEmpty
  | [], [], _ => rfl
  | _ :: _, _ :: _, _ => rfl
  | [], _ :: _, hr => hr.elim
  | _ :: _, [], hr => hr.elim

/-- `definition.fetch_diff` -/
theorem fetchDiffValueH_sim (e : Envs) (fuel : Nat) {mid sid : Nat} {s s' : HS} {ro : Option Nat} {mo ms : Obj}
    (hm : Abs s.heap mid mo) (hs : Abs s.heap sid ms) (hf : fetchDiffValueH e fuel mid sid s = .ok (s', ro)) :
    ∃ po, fetchDefn e fuel true mo ms = .ok po ∧ OptAbs s'.heap ro po := by
  unfold fetchDiffValueH at hf
  cases hv : fetchValueH mid sid s with
  | error err => simp only [hv] at hf; cases hf
  | ok q =>
    obtain ⟨s1, ro1⟩ := q
    simp only [hv] at hf
    obtain ⟨po1, hpo1, habs1⟩ := fetchValueH_sim hm hs hv
    cases ha : abs s.heap mid with
    | none => simp only [ha] at hf; cases hf
    | some mo' =>
      have hmo' : mo' = mo := Abs_unique ⟨_, ha⟩ hm
      subst hmo'
      simp only [ha] at hf
      have hco : ∀ co, (match ro1 with | some r => abs s1.heap r | none => some mo') = some co → co = po1.getD mo' := by
        intro co hc
        cases ro1 with
        | none =>
          cases po1 with
          | none => simp only [Option.some.injEq] at hc; exact hc.symm
          | some _ => exact habs1.elim
        | some r =>
          cases po1 with
          | none => exact habs1.elim
          | some pc => exact Abs_unique ⟨_, hc⟩ habs1
      split at hf
      · cases hf
      · rename_i co hcoeq
        have hco' := hco co hcoeq
        subst hco'
        unfold fetchDefn
        simp only [hpo1, Bool.not_true, Bool.false_eq_true, ↓reduceIte]
        unfold diffSame at hf
        cases h1 : extractFormatStr e fuel mo' (po1.getD mo') with
        | error err => simp only [h1] at hf; cases hf
        | ok a =>
          cases h2 : extractFormatStr e fuel mo' mo' with
          | error err => simp only [h1, h2] at hf; cases hf
          | ok b =>
            simp only [h1, h2] at hf ⊢
            cases hab : (a == b) with
            | true =>
              simp only [hab, Except.ok.injEq, Prod.mk.injEq] at hf
              obtain ⟨rfl, rfl⟩ := hf
              exact ⟨none, by simp only [↓reduceIte], trivial⟩
            | false =>
              simp only [hab, Except.ok.injEq, Prod.mk.injEq] at hf
              obtain ⟨rfl, rfl⟩ := hf
              exact ⟨po1, by simp only [Bool.false_eq_true, ↓reduceIte], habs1⟩

/-- the loop over the matching sources of a non-`.multiple` definition (diff) -/
theorem oneDiffFold_sim (e : Envs) (fuel : Nat) (mid : Nat) (mo : Obj) (s0 : HS) (hm : Abs s0.heap mid mo)
    (matching : List Nat) (pms : List Obj) (hl : AbsL s0.heap matching pms) (used : List Nat) (s1 : HS) (ro1 : Option Nat)
    (hf : foldH (fun (acc : HS × Option Nat) (ms : Nat) => fetchDiffValueH e fuel mid ms acc.1) (s0, none) matching = .ok (s1, ro1)) :
    ∃ po1 used1, pms.foldlM (oneDP e fuel mo) ((none : Option Obj), used) = .ok (po1, used1) ∧
      OptAbs s1.heap ro1 po1 ∧ HExt s0 s1 := by
  have := foldSim (fun (acc : HS × Option Nat) (ms : Nat) => fetchDiffValueH e fuel mid ms acc.1)
    (oneDP e fuel mo)
    (fun acc acc' => HExt s0 acc.1 ∧ OptAbs acc.1.heap acc.2 acc'.1)
    (fun a b => Abs s0.heap a b)
    (by
      intro st st' a b st2 ⟨hx, _⟩ hab hs
      obtain ⟨s2, r2⟩ := st2
      obtain ⟨h1, _⟩ := fetchDiffValueH_spec e fuel 0 (Nat.zero_le _) hs
      obtain ⟨po, hpo, habs⟩ := fetchDiffValueH_sim e fuel (hm.ext hx) (hab.ext hx) hs
      refine ⟨(po, st'.2 ++ (match b.meta.id with | some i => [i] | none => []) ++ srcRefs b), ?_, hx.trans h1, habs⟩
      unfold oneDP
      rw [hpo]
      rfl)
    matching pms (s0, none) (none, used) (s1, ro1) hl ⟨HExt.refl _, trivial⟩ hf
  obtain ⟨⟨po1, used1⟩, h1, h2, h3⟩ := this
  exact ⟨po1, used1, h1, h3, h2⟩

/-- what the diff callee one level down guarantees about abstractions -/
def RecSimD (e : Envs) (fuel n0 : Nat) (rec : Nat → List Nat → HS → R (HS × Nat)) : Prop :=
  ∀ self combined s s' r sm mk sp mobjs cobjs, n0 ≤ s.heap.length → ClosedBelow s.heap n0 → self < n0 →
    s.heap[self]? = some (.scope sm mk sp) → AbsL s.heap mk mobjs → AbsL s.heap combined cobjs →
    rec self combined s = .ok (s', r) →
    ∃ ro used, fetchScope e fuel true sm mobjs cobjs = .ok (ro, used) ∧ Abs s'.heap r ro

theorem ctailDP_false (e : Envs) (fuel : Nat) (mo : Obj) (masterStr : Str) (robjs : List (Option Obj))
    (processed : List (Str × Int)) (used u : List Nat) (c : Obj) :
    ctailDP e fuel mo masterStr false robjs processed used u c = ctailP e fuel mo masterStr robjs processed used u c := by
  rfl

theorem ctailDiffH_false (e : Envs) (fuel : Nat) (mo : Obj) (masterStr : Str) (s2 : HS) (robjs : List (Option Nat))
    (processed : List (Str × Int)) (c : Nat) :
    ctailDiffH e fuel mo masterStr false s2 robjs processed c = ctailH e fuel mo masterStr s2 robjs processed c := by
  rfl

theorem ctailDiff_sim (e : Envs) (fuel : Nat) (mo : Obj) (masterStr : Str) (fromM : Bool) {s2 : HS}
    {robjs : List (Option Nat)} {probjs : List (Option Obj)} {processed : List (Str × Int)} (used u : List Nat) {c : Nat}
    {pc : Obj} {acc2 : HS × List (Option Nat) × List (Str × Int)}
    (hrl : Rel2 (OptAbs s2.heap) robjs probjs) (hc : Abs s2.heap c pc)
    (hf : ctailDiffH e fuel mo masterStr fromM s2 robjs processed c = .ok acc2) :
    ∃ acc2', ctailDP e fuel mo masterStr fromM probjs processed used u pc = .ok acc2' ∧
      acc2.1 = s2 ∧ Rel2 (OptAbs s2.heap) acc2.2.1 acc2'.1 ∧ acc2.2.2 = acc2'.2.1 := by
  cases fromM with
  | false =>
    rw [ctailDiffH_false] at hf
    rw [ctailDP_false]
    exact ctail_sim e fuel mo masterStr used u hrl hc hf
  | true =>
    unfold ctailDiffH at hf
    cases ha : abs s2.heap c with
    | none => simp only [ha] at hf; cases hf
    | some co =>
      simp only [ha] at hf
      have hco : co = pc := Abs_unique ⟨_, ha⟩ hc
      subst hco
      unfold ctailDP
      cases hx : extractFormatStr e (fuel + 64) mo co with
      | error err => simp only [hx] at hf; cases hf
      | ok cs =>
        simp only [hx, Except.ok.injEq] at hf
        subst hf
        by_cases h1 : (cs == masterStr) = true
        · have hb : bookDiffH true robjs processed cs masterStr c = (robjs, processed) := by
            simp only [bookDiffH, h1, Bool.not_true, Bool.false_eq_true, ↓reduceIte]
          refine ⟨(probjs, processed, used ++ u), ?_, rfl, ?_, ?_⟩
          · simp only [h1, ↓reduceIte]
          · simp only [hb]; exact hrl
          · simp only [hb]
        · cases hp : processed.find? (fun (p : Str × Int) => p.1 == cs) with
          | none =>
            have hb : bookDiffH true robjs processed cs masterStr c =
                (robjs, processed.filter (fun (p : Str × Int) => p.1 != cs) ++ [(cs, -1)]) := by
              simp only [bookDiffH, h1, hp, Bool.not_true, Bool.false_eq_true, ↓reduceIte]
            refine ⟨(probjs, processed.filter (fun (p : Str × Int) => p.1 != cs) ++ [(cs, -1)], used ++ u), ?_, rfl, ?_, ?_⟩
            · simp only [h1, hp, Bool.false_eq_true, ↓reduceIte]
            · simp only [hb]; exact hrl
            · simp only [hb]
          | some p =>
            by_cases h2 : (p.2 == -1) = true
            · have hb : bookDiffH true robjs processed cs masterStr c = (robjs, processed) := by
                simp only [bookDiffH, h1, hp, h2, Bool.not_true, Bool.false_eq_true, ↓reduceIte]
              refine ⟨(probjs, processed, used ++ u), ?_, rfl, ?_, ?_⟩
              · simp only [h1, hp, h2, Bool.false_eq_true, ↓reduceIte]
              · simp only [hb]; exact hrl
              · simp only [hb]
            · have hb : bookDiffH true robjs processed cs masterStr c =
                  (robjs.zipIdx.map (fun (xi : Option Nat × Nat) => if (xi.2 : Int) == p.2 then none else xi.1),
                   processed.filter (fun (p : Str × Int) => p.1 != cs) ++ [(cs, -1)]) := by
                simp only [bookDiffH, h1, hp, h2, Bool.not_true, Bool.false_eq_true, ↓reduceIte]
              refine ⟨(probjs.zipIdx.map (fun (xi : Option Obj × Nat) => if (xi.2 : Int) == p.2 then none else xi.1),
                   processed.filter (fun (p : Str × Int) => p.1 != cs) ++ [(cs, -1)], used ++ u), ?_, rfl, ?_, ?_⟩
              · simp only [h1, hp, h2, Bool.false_eq_true, ↓reduceIte]
              · simp only [hb]; exact Rel2.erase p.2 hrl
              · simp only [hb]

/-! ### simulation: the candidate loop (diff) -/

theorem cstepDiffH_sim (e : Envs) {rec : Nat → List Nat → HS → R (HS × Nat)} {n0 fuel : Nat} (hrec : RecOKD n0 rec)
    (hsim : RecSimD e fuel n0 rec) (mo : Obj) (mid : Nat) (masterStr : Str) (hmid : mid < n0) (s1 : HS)
    (hA : n0 ≤ s1.heap.length) (hcl : ClosedBelow s1.heap n0) (hmo : Abs s1.heap mid mo)
    (acc acc2 : HS × List (Option Nat) × List (Str × Int)) (acc' : List (Option Obj) × List (Str × Int) × List Nat)
    (fm : Bool × Nat) (fm' : Bool × Obj)
    (hq : RelC s1 acc acc') (hfm : fm.1 = fm'.1 ∧ Abs s1.heap fm.2 fm'.2)
    (hf : cstepDiffH e rec fuel mo mid masterStr acc fm = .ok acc2) :
    ∃ acc2', cstepDP e fuel mo masterStr acc' fm' = .ok acc2' ∧ RelC s1 acc2 acc2' := by
  obtain ⟨hext, hrl, hpr⟩ := hq
  obtain ⟨s, robjs, processed⟩ := acc
  obtain ⟨probjs, pprocessed, pused⟩ := acc'
  obtain ⟨fb, fid⟩ := fm
  obtain ⟨fb', fo⟩ := fm'
  simp only at hext hrl hpr hfm
  obtain ⟨rfl, hfo⟩ := hfm
  subst hpr
  have hlen : n0 ≤ s.heap.length := Nat.le_trans hA hext.length_le
  have hcl' : ClosedBelow s.heap n0 := hext.closed hcl hA
  have hmo' := hmo.ext hext
  have hfo' := hfo.ext hext
  -- the candidate
  have hcand : ∀ s2 co, candDiffH e fuel rec mid fid s = .ok (s2, co) →
      HExt s s2 ∧ ∃ po u, candDP e fuel mo fb fo = .ok (po, u) ∧ OptAbs s2.heap co po := by
    intro s2 co hc
    refine ⟨(candDiffH_spec e fuel hrec hmid hlen hcl' hc).1, ?_⟩
    unfold candDiffH at hc
    rcases Abs_cell hmo' with ⟨mm, mws, mp, hcm, rfl⟩ | ⟨mm, mks, mp, mos, hcm, rfl, hmk⟩
    · simp only [hcm] at hc
      obtain ⟨po, hpo, habs⟩ := fetchDiffValueH_sim e fuel hmo' hfo' hc
      refine ⟨po, (match fo.meta.id with | some i => (if fb then [] else [i]) | none => []) ++ (if fb then [] else srcRefs fo), ?_, habs⟩
      unfold candDP
      simp only [hpo, Except.map]
    · simp only [hcm] at hc
      rcases Abs_cell hfo' with ⟨sm', sws, sp', hcf, rfl⟩ | ⟨sm', sk, sp', skids, hcf, rfl, hsk⟩
      · simp only [hcf] at hc
        cases hc
      · simp only [hcf] at hc
        cases hr : rec mid sk s with
        | error err => simp only [hr] at hc; cases hc
        | ok p =>
          obtain ⟨s3, r3⟩ := p
          simp only [hr] at hc
          obtain ⟨ro, u, hfs, habs⟩ := hsim mid sk s s3 r3 mm mks mp mos skids hlen hcl' hmid hcm hmk hsk hr
          have hemp : (kidsOf s3.heap r3).isEmpty = ro.children.isEmpty := AbsL_isEmpty (Abs_kidsOf habs)
          rw [hemp] at hc
          unfold candDP
          simp only [hfs, Except.map]
          by_cases hE : ro.children.isEmpty = true
          · simp only [hE, ↓reduceIte, Except.ok.injEq, Prod.mk.injEq] at hc ⊢
            obtain ⟨rfl, rfl⟩ := hc
            exact ⟨none, _, ⟨rfl, rfl⟩, trivial⟩
          · simp only [hE, Bool.false_eq_true, ↓reduceIte, Except.ok.injEq, Prod.mk.injEq] at hc ⊢
            obtain ⟨rfl, rfl⟩ := hc
            exact ⟨some ro, _, ⟨rfl, rfl⟩, habs⟩
  unfold cstepDiffH at hf
  dsimp only at hf
  cases hc : candDiffH e fuel rec mid fid s with
  | error err => simp only [hc] at hf; cases hf
  | ok p =>
    obtain ⟨s2, co⟩ := p
    obtain ⟨h12, po, u, hpo, habs⟩ := hcand s2 co hc
    simp only [hc] at hf
    unfold cstepDP
    simp only [hpo]
    cases co with
    | none =>
      cases po with
      | some _ => exact habs.elim
      | none =>
        simp only [Except.ok.injEq] at hf
        subst hf
        exact ⟨_, rfl, hext.trans h12, OptAbs_list_ext hrl h12, rfl⟩
    | some c =>
      cases po with
      | none => exact habs.elim
      | some pc =>
        simp only at hf
        obtain ⟨acc2', h1, h2, h3, h4⟩ := ctailDiff_sim e fuel mo masterStr fb pused u (OptAbs_list_ext hrl h12) habs hf
        obtain ⟨sx, rx, px⟩ := acc2
        simp only at h2 h3 h4
        subst h2
        exact ⟨acc2', h1, hext.trans h12, h3, h4⟩

/-! ### simulation: the `.multiple` branch (diff) -/

theorem multiTailDiff_sim (e : Envs) {rec : Nat → List Nat → HS → R (HS × Nat)} {n0 fuel : Nat} (hrec : RecOKD n0 rec)
    (hsim : RecSimD e fuel n0 rec) (mk : List Nat) (mobjs : List Obj) (idx : Nat) (mo : Obj) (mid : Nat) (masterStr : Str)
    (hmid : mid < n0) (s1 : HS) (hA : n0 ≤ s1.heap.length) (hcl : ClosedBelow s1.heap n0)
    (hmo : Abs s1.heap mid mo) (hmk : AbsL s1.heap mk mobjs) (mH : List Nat) (mP : List Obj) (hmat : AbsL s1.heap mH mP)
    (out : List Nat) (pout : List Obj) (hout : AbsL s1.heap out pout) (pused : List Nat) (st2 : HS × List Nat)
    (hf : multiTailDiffH e rec fuel mk idx mo mid masterStr mH s1 out = .ok st2) :
    ∃ st2', multiTailDP e fuel mobjs idx mo masterStr mP pout pused = .ok st2' ∧ HExt s1 st2.1 ∧
      AbsL st2.1.heap st2.2 st2'.1 := by
  unfold multiTailDiffH at hf
  dsimp only at hf
  simp only [List.map_map] at hf
  cases hfold : foldH (cstepDiffH e rec fuel mo mid masterStr) (s1, ([] : List (Option Nat)), ([] : List (Str × Int)))
      (List.map ((fun x => (true, x)) ∘ fun (x : Nat × Nat) => x.1)
          (List.filter (fun (p : Nat × Nat) => liveB s1.heap p.1 && nameAt s1.heap p.1 == mo.name && p.2 != idx) mk.zipIdx) ++
        List.map (fun x => (false, x)) mH) with
  | error err => simp only [hfold] at hf; cases hf
  | ok acc =>
    obtain ⟨s2, robjs, processed⟩ := acc
    simp only [hfold, Except.ok.injEq] at hf
    subst hf
    obtain ⟨acc', hp, hext2, hrl, hpr⟩ := foldSim (cstepDiffH e rec fuel mo mid masterStr) (cstepDP e fuel mo masterStr) (RelC s1)
      (fun (a : Bool × Nat) (b : Bool × Obj) => a.1 = b.1 ∧ Abs s1.heap a.2 b.2)
      (fun acc acc' fm fm' acc2 hq hfm hs =>
        cstepDiffH_sim e hrec hsim mo mid masterStr hmid s1 hA hcl hmo acc acc2 acc' fm fm' hq hfm hs)
      _ (((mobjs.zipIdx.filter (fun (p : Obj × Nat) => !p.1.meta.disabled && p.1.name == mo.name && p.2 != idx)).map
          (fun (p : Obj × Nat) => (true, p.1))) ++ mP.map (fun (o : Obj) => (false, o)))
      _ (([] : List (Option Obj)), ([] : List (Str × Int)), pused) _
      (Rel2.append
        (Rel2.map _ _ (fun a b hab => ⟨rfl, hab.1⟩)
          (Rel2.filter _ _ (fun a b hab => by rw [Abs_liveB hab.1, Abs_nameAt hab.1, hab.2])
            (Rel2.zipIdx 0 hmk)))
        (Rel2.map _ _ (fun a b hab => ⟨rfl, hab⟩) hmat))
      (show RelC s1 (s1, [], []) ([], [], pused) from ⟨HExt.refl _, trivial, rfl⟩) hfold
    obtain ⟨probjs, pprocessed, pused2⟩ := acc'
    simp only at hext2 hrl hpr
    unfold multiTailDP
    simp only [hp]
    refine ⟨_, rfl, hext2, ?_⟩
    simp only [List.append_nil]
    exact Rel2.append (hout.ext hext2) (Rel2.filterMap_id hrl)

/-! ### simulation: the loop over the active master objects, and `scope.fetch(diff=True)` -/

theorem stepDiffH_sim (e : Envs) {recN recD : Nat → List Nat → HS → R (HS × Nat)} {n0 fuel : Nat}
    (hrecN : RecOK n0 recN) (hsimN : RecSim e fuel n0 recN) (hrecD : RecOKD n0 recD) (hsimD : RecSimD e fuel n0 recD)
    (sm : Meta) (mk : List Nat) (src : Nat) (mobjs cobjs : List Obj)
    (hmk : ∀ k ∈ mk, k < n0) (s0 : HS) (hA : n0 ≤ s0.heap.length) (hcl : ClosedBelow s0.heap n0)
    (hmobjs : AbsL s0.heap mk mobjs) (hsrc : Abs s0.heap src (.scope { sm with tmpl := 0 } cobjs))
    (st st2 : HS × List Nat) (st' : List Obj × List Nat) (io : Nat × Obj)
    (hq : RelS s0 st st') (hio : mobjs[io.1]? = some io.2)
    (hf : stepDiffH e recN recD fuel sm mk src st io = .ok st2) :
    ∃ st2', stepDP e fuel sm mobjs cobjs st' io = .ok st2' ∧ RelS s0 st2 st2' := by
  obtain ⟨hext, hout⟩ := hq
  obtain ⟨s, out⟩ := st
  obtain ⟨pout, pused⟩ := st'
  obtain ⟨idx, mo⟩ := io
  simp only at hext hout hio
  have hlen : n0 ≤ s.heap.length := Nat.le_trans hA hext.length_le
  have hcl' : ClosedBelow s.heap n0 := hext.closed hcl hA
  unfold stepDiffH at hf
  dsimp only at hf
  cases hmidEq : mk[idx]? with
  | none => simp only [hmidEq] at hf; cases hf
  | some mid =>
    simp only [hmidEq] at hf
    have hmid : mid < n0 := hmk mid (List.mem_of_getElem? hmidEq)
    have hmo : Abs s.heap mid mo := (Rel2.get hmobjs hmidEq hio).ext hext
    have hmat : AbsL s.heap ((getWS (fuel + 64) s.heap src (pathOf sm mo)).filter (liveB s.heap)) (matchingP fuel sm cobjs mo) :=
      Rel2.filter _ _ (fun _ _ h => Abs_liveB h) (getWS_abs _ _ _ _ _ (hsrc.ext hext))
    generalize (getWS (fuel + 64) s.heap src (pathOf sm mo)).filter (liveB s.heap) = mH at hf hmat
    unfold stepDP
    dsimp only
    generalize matchingP fuel sm cobjs mo = mP at hmat
    by_cases hmu : (!isMultiple mo) = true
    · simp only [hmu, ↓reduceIte] at hf ⊢
      rcases Abs_cell hmo with ⟨mm, mws, mp, hcm, rfl⟩ | ⟨mm, mks, mp, mos, hcm, rfl, hmks⟩
      · -- a definition
        simp only [hcm] at hf
        cases hfold : foldH (fun (acc : HS × Option Nat) (ms : Nat) => fetchDiffValueH e fuel mid ms acc.1) (s, (none : Option Nat)) mH with
        | error err => simp only [hfold] at hf; cases hf
        | ok p =>
          obtain ⟨s1, ro1⟩ := p
          simp only [hfold] at hf
          obtain ⟨po1, used1, hp1, habs, h01⟩ := oneDiffFold_sim e fuel mid _ s hmo mH mP hmat pused s1 ro1 hfold
          simp only [hp1]
          cases ro1 with
          | some r =>
            cases po1 with
            | none => exact habs.elim
            | some o =>
              simp only [Except.ok.injEq] at hf
              subst hf
              exact ⟨_, rfl, hext.trans h01, Rel2.append (hout.ext h01) ⟨habs, trivial⟩⟩
          | none =>
            cases po1 with
            | some _ => exact habs.elim
            | none =>
              simp only [Except.ok.injEq] at hf
              subst hf
              exact ⟨_, rfl, hext.trans h01, hout.ext h01⟩
      · -- a scope
        simp only [hcm] at hf
        by_cases hany : mH.any (isDefnAt s.heap) = true
        · simp only [hany, ↓reduceIte] at hf; cases hf
        · simp only [hany, Bool.false_eq_true, ↓reduceIte] at hf
          have hany' : mH.any (isDefnAt s.heap) = false := by
            cases h : mH.any (isDefnAt s.heap) with
            | false => rfl
            | true => exact absurd h hany
          rw [find_isDefn_none hmat hany']
          simp only
          cases hr : recD mid (mH.flatMap (kidsOf s.heap)) s with
          | error err => simp only [hr] at hf; cases hf
          | ok q =>
            obtain ⟨s1, r⟩ := q
            simp only [hr] at hf
            obtain ⟨ro, u, hfs, habs⟩ := hsimD mid _ s s1 r mm mks mp mos (mP.flatMap Obj.children) hlen hcl' hmid hcm hmks
              (Rel2.flatMap _ _ (fun _ _ h => Abs_kidsOf h) hmat) hr
            have h01 := (hrecD _ _ _ _ _ hlen hcl' hmid hr).1
            have hemp : (kidsOf s1.heap r).isEmpty = ro.children.isEmpty := AbsL_isEmpty (Abs_kidsOf habs)
            rw [hemp] at hf
            simp only [hfs]
            by_cases hE : ro.children.isEmpty = true
            · simp only [hE, ↓reduceIte, Except.ok.injEq] at hf ⊢
              subst hf
              exact ⟨_, rfl, hext.trans h01, hout.ext h01⟩
            · simp only [hE, Bool.false_eq_true, ↓reduceIte, Except.ok.injEq] at hf ⊢
              subst hf
              exact ⟨_, rfl, hext.trans h01, Rel2.append (hout.ext h01) ⟨habs, trivial⟩⟩
    · -- .multiple
      simp only [hmu, Bool.false_eq_true, ↓reduceIte] at hf ⊢
      cases hself : selfFetchH recN mo mid s with
      | error err => simp only [hself] at hf; cases hf
      | ok q =>
        obtain ⟨s1, selfId⟩ := q
        simp only [hself] at hf
        have h01 : HExt s s1 := selfFetchH_spec hrecN hmid hlen hcl' hself
        have hlen1 : n0 ≤ s1.heap.length := Nat.le_trans hlen h01.length_le
        have hcl1 : ClosedBelow s1.heap n0 := h01.closed hcl' hlen
        -- the master key is the pure one
        have hkey : ∀ masterStr, masterKeyOf e fuel mo
            (match selfId with
              | some r => (match abs s1.heap r with | some o => .ok (o, []) | none => .error .outOfFuel)
              | none => .error .outOfFuel) = .ok masterStr →
            masterKeyOf e fuel mo (selfP e fuel mo) = .ok masterStr := by
          intro masterStr hk
          unfold selfFetchH at hself
          rcases Abs_cell hmo with ⟨mm, mws, mp, hcm, rfl⟩ | ⟨mm, mks, mp, mos, hcm, rfl, hmks⟩
          · simp only [masterKeyOf] at hk ⊢
            exact hk
          · simp only at hself
            cases hr : recN mid [] s with
            | error err => simp only [hr] at hself; cases hself
            | ok q =>
              obtain ⟨s3, r3⟩ := q
              simp only [hr, Except.ok.injEq, Prod.mk.injEq] at hself
              obtain ⟨rfl, rfl⟩ := hself
              obtain ⟨ro, u, hfs, habs⟩ := hsimN mid [] s s3 r3 mm mks mp mos [] hlen hcl' hmid hcm hmks trivial hr
              simp only at hk
              cases ha : abs s3.heap r3 with
              | none => simp only [ha, masterKeyOf] at hk; cases hk
              | some o =>
                have ho : o = ro := Abs_unique ⟨_, ha⟩ habs
                subst ho
                simp only [ha, masterKeyOf] at hk
                simp only [selfP, hfs, masterKeyOf]
                exact hk
        split at hf
        · cases hf
        · rename_i masterStr hk
          rw [hkey masterStr hk]
          simp only
          obtain ⟨st2', h1, h2, h3⟩ := multiTailDiff_sim e hrecD hsimD mk mobjs idx mo mid masterStr hmid s1 hlen1 hcl1
            (hmo.ext h01) ((hmobjs.ext hext).ext h01) mH mP (hmat.ext h01) out pout (hout.ext h01) pused st2 hf
          exact ⟨st2', h1, (hext.trans h01).trans h2, h3⟩

theorem fetchDiffH_sim (e : Envs) (n0 : Nat) : ∀ (fuel : Nat), RecSimD e fuel n0 (fetchDiffH e fuel)
  | 0 => by
    intro self combined s s' r sm mk sp mobjs cobjs _ _ _ _ _ _ hf
    simp only [fetchDiffH] at hf
    cases hf
  | fuel + 1 => by
    intro self combined s s' r sm mk sp mobjs cobjs hlen hcl hself hcell hmobjs hcobjs hf
    have ih := fetchDiffH_sim e n0 fuel
    have ihok := fetchDiffH_spec e n0 fuel
    have ihN := fetchH_sim e n0 fuel
    have ihNok := fetchH_spec e n0 fuel
    have hmk : ∀ k ∈ mk, k < n0 := fun k hk => hcl self _ hself hcell k hk
    simp only [fetchDiffH, hcell] at hf
    cases hcc : customizedCopy s.heap self none none (some combined) with
    | none => simp only [hcc] at hf; cases hf
    | some q =>
      obtain ⟨h1, src⟩ := q
      simp only [hcc] at hf
      obtain ⟨n, hn, rfl, rfl⟩ := customizedCopy_eq hcc
      rw [hcell] at hn
      cases hn
      have hA := HExt.alloc s [ccNode (Node.scope sm mk sp) none none (some combined)]
      cases hmo : mapOpt (abs (s.heap ++ [ccNode (Node.scope sm mk sp) none none (some combined)])) mk with
      | none => simp only [hmo] at hf; cases hf
      | some mobjs' =>
        simp only [hmo] at hf
        have hmobjs' : AbsL (s.heap ++ [ccNode (Node.scope sm mk sp) none none (some combined)]) mk mobjs' := AbsL_of_mapOpt hmo
        have hmobjs1 : AbsL (s.heap ++ [ccNode (Node.scope sm mk sp) none none (some combined)]) mk mobjs :=
          Rel2.imp (fun _ _ h => Abs.append h _) hmobjs
        have hEq : mobjs' = mobjs := AbsL_unique hmobjs' hmobjs1
        subst hEq
        cases hact : masterActiveObjects mobjs' with
        | error err => simp only [hact] at hf; cases hf
        | ok actives =>
          simp only [hact] at hf
          cases hfold : foldH (stepDiffH e (fetchH e fuel) (fetchDiffH e fuel) fuel sm mk s.heap.length)
              ({ s with heap := s.heap ++ [ccNode (Node.scope sm mk sp) none none (some combined)] }, ([] : List Nat)) actives with
          | error err => simp only [hfold] at hf; cases hf
          | ok q =>
            obtain ⟨s2, out⟩ := q
            simp only [hfold] at hf
            have hsrc : Abs (s.heap ++ [ccNode (Node.scope sm mk sp) none none (some combined)]) s.heap.length
                (.scope { sm with tmpl := 0 } cobjs) := by
              refine Abs_scope_intro (ks := combined) (p := sp) ?_ (Rel2.imp (fun _ _ h => Abs.append h _) hcobjs)
              rw [List.getElem?_append_right (Nat.le_refl _), Nat.sub_self]
              rfl
            obtain ⟨st2', hp, hext2, hout⟩ := foldSim (stepDiffH e (fetchH e fuel) (fetchDiffH e fuel) fuel sm mk s.heap.length)
              (stepDP e fuel sm mobjs' cobjs)
              (RelS { s with heap := s.heap ++ [ccNode (Node.scope sm mk sp) none none (some combined)] })
              (fun (a b : Nat × Obj) => a = b ∧ mobjs'[a.1]? = some a.2)
              (fun st st' a b st2 hq hab hs => by
                obtain ⟨rfl, hio⟩ := hab
                exact stepDiffH_sim e ihNok ihN ihok ih sm mk s.heap.length mobjs' cobjs hmk _
                  (Nat.le_trans hlen hA.length_le) (hA.closed hcl hlen) hmobjs' hsrc st st2 st' a hq hio hs)
              actives actives _ (([] : List Obj), ([] : List Nat)) _
              (Rel2.diag (fun a ha => ⟨rfl, masterActiveObjects_get hact a ha⟩))
              (show RelS _ (_, []) ([], []) from ⟨HExt.refl _, trivial⟩) hfold
            obtain ⟨pout, pused⟩ := st2'
            simp only at hext2 hout
            unfold fetchResult at hf
            cases hres : customizedCopy s2.heap self none none (some out) with
            | none => simp only [hres] at hf; cases hf
            | some q =>
              obtain ⟨h3, r'⟩ := q
              simp only [hres, Except.ok.injEq, Prod.mk.injEq] at hf
              obtain ⟨rfl, rfl⟩ := hf
              obtain ⟨n', hn', rfl, rfl⟩ := customizedCopy_eq hres
              have h02 := hA.trans hext2
              rw [h02.get hcell] at hn'
              cases hn'
              refine ⟨.scope { sm with tmpl := 0 } pout, pused, ?_, ?_⟩
              · rw [fetchScope_succ_diff]
                simp only [hact, hp]
              · refine Abs_scope_intro (ks := out) (p := sp) ?_ (Rel2.imp (fun _ _ h => Abs.append h _) hout)
                show (s2.heap ++ _)[s2.heap.length]? = _
                rw [List.getElem?_append_right (Nat.le_refl _), Nat.sub_self]
                rfl

end Phil.Heap
