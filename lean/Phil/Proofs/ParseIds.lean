/-
  Phil.Proofs.ParseIds — the ids the parser assigns.  Link between the parser model
  (`collectObjects`, `adopt`/`wrapDotted`) and the well-formedness predicate `DocIds` of
  Phil/Proofs/VarsSpec.lean.  Lemmas carry the suffix `_pid`.

  The invariant (`CollectInv`): while `collectObjects` runs with lower bound `lo`, counter `n = st.nextId`,
  accumulated objects `acc` and an optional active definition `pending`,
    * every id in the tree `acc` is `some i` with `lo ≤ i < n` (`< j` if a definition with id `j` is
      pending, and then `n = j + 1`), the levels of `acc` are `levelOk`/`okList`;
    * `n ≤ lo + sizeList acc (+ 1 if a definition is pending)` — one object per id at least.
-/
import Phil.Proofs.VarsSpec
set_option linter.unusedSimpArgs false
set_option linter.unusedVariables false
namespace Phil.C12
open Phil

/-! ### ids in a range -/

/-- the id of an object is present and lies in `[lo, hi)` -/
def idIn (lo hi : Nat) (m : Meta) : Bool :=
  match m.id with
  | some i => decide (lo ≤ i) && decide (i < hi)
  | none => false

mutual
/-- every id in the tree is present and lies in `[lo, hi)` -/
def inRngObj (lo hi : Nat) : Obj → Bool
  | .defn m _ => idIn lo hi m
  | .scope m kids => idIn lo hi m && inRngList lo hi kids
def inRngList (lo hi : Nat) : List Obj → Bool
  | [] => true
  | o :: rest => inRngObj lo hi o && inRngList lo hi rest
end

theorem idIn_iff_pid {lo hi : Nat} {m : Meta} :
    idIn lo hi m = true ↔ ∃ i, m.id = some i ∧ lo ≤ i ∧ i < hi := by
  unfold idIn
  cases m.id with
  | none => simp
  | some i => simp

theorem idIn_mono_pid {lo hi lo' hi' : Nat} {m : Meta} (hl : lo' ≤ lo) (hh : hi ≤ hi')
    (h : idIn lo hi m = true) : idIn lo' hi' m = true := by
  rw [idIn_iff_pid] at h ⊢
  obtain ⟨i, hi1, h2, h3⟩ := h
  exact ⟨i, hi1, by omega, by omega⟩

mutual
theorem inRngObj_mono_pid {lo hi lo' hi' : Nat} (hl : lo' ≤ lo) (hh : hi ≤ hi') :
    ∀ (o : Obj), inRngObj lo hi o = true → inRngObj lo' hi' o = true
  | .defn m ws => by
    intro h
    simp only [inRngObj] at h ⊢
    exact idIn_mono_pid hl hh h
  | .scope m kids => by
    intro h
    simp only [inRngObj, Bool.and_eq_true] at h ⊢
    exact ⟨idIn_mono_pid hl hh h.1, inRngList_mono_pid hl hh kids h.2⟩
theorem inRngList_mono_pid {lo hi lo' hi' : Nat} (hl : lo' ≤ lo) (hh : hi ≤ hi') :
    ∀ (l : List Obj), inRngList lo hi l = true → inRngList lo' hi' l = true
  | [] => by intro _; simp [inRngList]
  | o :: rest => by
    intro h
    simp only [inRngList, Bool.and_eq_true] at h ⊢
    exact ⟨inRngObj_mono_pid hl hh o h.1, inRngList_mono_pid hl hh rest h.2⟩
end

theorem inRngObj_meta_pid {lo hi : Nat} : ∀ (o : Obj), inRngObj lo hi o = true → idIn lo hi o.meta = true
  | .defn m ws => by intro h; simpa [inRngObj, Obj.meta] using h
  | .scope m kids => by
    intro h
    simp only [inRngObj, Bool.and_eq_true] at h
    exact h.1

theorem inRngList_mem_pid {lo hi : Nat} : ∀ (l : List Obj) (a : Obj), inRngList lo hi l = true → a ∈ l →
    inRngObj lo hi a = true := by
  intro l
  induction l with
  | nil => intro a _ h; cases h
  | cons b r ih =>
    intro a h ha
    simp only [inRngList, Bool.and_eq_true] at h
    cases ha with
    | head => exact h.1
    | tail _ ha' => exact ih a h.2 ha'

theorem inRngList_append_pid {lo hi : Nat} : ∀ (l r : List Obj),
    inRngList lo hi (l ++ r) = (inRngList lo hi l && inRngList lo hi r) := by
  intro l
  induction l with
  | nil => intro r; simp [inRngList]
  | cons a l ih => intro r; simp [inRngList, ih, Bool.and_assoc]

theorem okList_append_pid : ∀ (l r : List Obj), okList (l ++ r) = (okList l && okList r) := by
  intro l
  induction l with
  | nil => intro r; simp [okList]
  | cons a l ih => intro r; simp [okList, ih, Bool.and_assoc]

theorem sizeList_append_pid : ∀ (l r : List Obj), sizeList (l ++ r) = sizeList l + sizeList r := by
  intro l
  induction l with
  | nil => intro r; simp [sizeList]
  | cons a l ih => intro r; simp [sizeList, ih, Nat.add_assoc]

theorem sizeObj_pos_pid : ∀ (o : Obj), 1 ≤ sizeObj o
  | .defn _ _ => by simp [sizeObj]
  | .scope _ _ => by simp [sizeObj]

mutual
theorem inRngObj_idsLe_pid {lo b : Nat} : ∀ (o : Obj), inRngObj lo (b + 1) o = true → idsLeObj b o = true
  | .defn m ws => by
    intro h
    simp only [inRngObj, idIn_iff_pid] at h
    obtain ⟨i, hi, _, h3⟩ := h
    simp only [idsLeObj, hi, decide_eq_true_eq]
    omega
  | .scope m kids => by
    intro h
    simp only [inRngObj, Bool.and_eq_true, idIn_iff_pid] at h
    obtain ⟨⟨i, hi, _, h3⟩, hk⟩ := h
    simp only [idsLeObj, hi, Bool.and_eq_true, decide_eq_true_eq]
    exact ⟨by omega, inRngList_idsLe_pid kids hk⟩
theorem inRngList_idsLe_pid {lo b : Nat} : ∀ (l : List Obj), inRngList lo (b + 1) l = true →
    idsLeList b l = true
  | [] => by intro _; simp [idsLeList]
  | o :: rest => by
    intro h
    simp only [inRngList, Bool.and_eq_true] at h
    simp only [idsLeList, Bool.and_eq_true]
    exact ⟨inRngObj_idsLe_pid o h.1, inRngList_idsLe_pid rest h.2⟩
end

mutual
theorem idsLeObj_mono_pid {b b' : Nat} (hb : b ≤ b') : ∀ (o : Obj), idsLeObj b o = true → idsLeObj b' o = true
  | .defn m ws => by
    intro h
    simp only [idsLeObj] at h ⊢
    cases hm : m.id with
    | none => simp
    | some i => rw [hm] at h; simp at h ⊢; omega
  | .scope m kids => by
    intro h
    simp only [idsLeObj, Bool.and_eq_true] at h ⊢
    refine ⟨?_, idsLeList_mono_pid hb kids h.2⟩
    have h1 := h.1
    cases hm : m.id with
    | none => simp
    | some i => rw [hm] at h1; simp at h1 ⊢; omega
theorem idsLeList_mono_pid {b b' : Nat} (hb : b ≤ b') : ∀ (l : List Obj), idsLeList b l = true →
    idsLeList b' l = true
  | [] => by intro _; simp [idsLeList]
  | o :: rest => by
    intro h
    simp only [idsLeList, Bool.and_eq_true] at h ⊢
    exact ⟨idsLeObj_mono_pid hb o h.1, idsLeList_mono_pid hb rest h.2⟩
end

/-! ### one level: appending an object -/

theorem idLe_of_ids_pid {a o : Obj} {i j : Nat} (ha : a.meta.id = some i) (ho : o.meta.id = some j)
    (h : i ≤ j) : idLe a o = true := by
  simp [idLe, ha, ho, h]

theorem levelOk_snoc_pid (o : Obj) (hid : o.meta.id.isSome = true) (hdot : '.' ∉ o.name) :
    ∀ (acc : List Obj), levelOk acc = true → (∀ a ∈ acc, idLe a o = true) →
      levelOk (acc ++ [o]) = true := by
  intro acc
  induction acc with
  | nil => intro _ _; simp [levelOk, hid, hdot]
  | cons a r ih =>
    intro h hall
    simp only [levelOk, Bool.and_eq_true] at h
    obtain ⟨⟨⟨h1, h2⟩, h3⟩, h4⟩ := h
    simp only [List.cons_append, levelOk, Bool.and_eq_true, List.all_append, List.all_cons, List.all_nil,
      Bool.and_true]
    exact ⟨⟨⟨h1, h2⟩, h3, hall a (by simp)⟩, ih h4 (fun b hb => hall b (by simp [hb]))⟩

/-- a list of objects as `collectObjects` accumulates it: levels in order, ids in `[lo, hi)` -/
def IdSeg (lo hi : Nat) (l : List Obj) : Prop :=
  levelOk l = true ∧ okList l = true ∧ inRngList lo hi l = true

/-- an object ready to be appended: numbered `j`, dot-free name, subtree in order and in range -/
def IdGood (lo hi j : Nat) (o : Obj) : Prop :=
  o.meta.id = some j ∧ '.' ∉ o.name ∧ okObj o = true ∧ inRngObj lo hi o = true

theorem IdSeg.nil_pid (lo hi : Nat) : IdSeg lo hi [] := by
  simp [IdSeg, levelOk, okList, inRngList]

theorem IdSeg.snoc_pid {lo hi j : Nat} {acc : List Obj} {o : Obj} (hs : IdSeg lo j acc) (ho : IdGood lo hi j o) :
    IdSeg lo hi (acc ++ [o]) := by
  obtain ⟨h1, h2, h3⟩ := hs
  obtain ⟨g1, g2, g3, g4⟩ := ho
  have hj : lo ≤ j ∧ j < hi := by
    have := inRngObj_meta_pid o g4
    rw [idIn_iff_pid] at this
    obtain ⟨i, hi1, h2', h3'⟩ := this
    rw [g1] at hi1; cases hi1; exact ⟨h2', h3'⟩
  refine ⟨?_, ?_, ?_⟩
  · refine levelOk_snoc_pid o (by simp [g1]) g2 acc h1 ?_
    intro a ha
    have := inRngObj_meta_pid a (inRngList_mem_pid acc a h3 ha)
    rw [idIn_iff_pid] at this
    obtain ⟨i, hi1, _, hlt⟩ := this
    exact idLe_of_ids_pid hi1 g1 (by omega)
  · simp [okList_append_pid, h2, okList, g3]
  · simp [inRngList_append_pid, inRngList, g4, inRngList_mono_pid (Nat.le_refl lo) (Nat.le_of_lt hj.2) acc h3]

/-! ### dotted names: `wrapDotted` -/

theorem splitOn_comp_pid (sep : Char) : ∀ (s : Str), ∀ c ∈ splitOn sep s, sep ∉ c := by
  intro s
  induction s with
  | nil => intro c hc; simp [splitOn] at hc; subst hc; simp
  | cons d ds ih =>
    intro c hc
    unfold splitOn at hc
    split at hc
    · simp at hc; subst hc; simp
    · rename_i p ps hp
      rw [hp] at ih
      split at hc
      · rename_i hd
        simp only [List.mem_cons] at hc
        rcases hc with hc | hc | hc
        · subst hc; simp
        · exact ih c (by simp [hc])
        · exact ih c (by simp [hc])
      · rename_i hd
        simp only [List.mem_cons] at hc
        rcases hc with hc | hc
        · subst hc
          have := ih p (by simp)
          simp only [List.mem_cons, not_or]
          exact ⟨fun e => hd (by simp [e]), this⟩
        · exact ih c (by simp [hc])

theorem splitOn_single_pid (sep : Char) : ∀ (s x : Str), splitOn sep s = [x] → sep ∉ s := by
  intro s
  induction s with
  | nil => intro x _; simp
  | cons d ds ih =>
    intro x h
    unfold splitOn at h
    split at h
    · rename_i hp; exact absurd hp (splitOn_ne_nil_vs sep ds)
    · rename_i p ps hp
      split at h
      · simp at h
      · rename_i hd
        simp only [List.cons.injEq] at h
        obtain ⟨_, hps⟩ := h
        subst hps
        have := ih p hp
        simp only [List.mem_cons, not_or]
        exact ⟨fun e => hd (by simp [e]), this⟩

theorem idLe_meta_pid {a b : Obj} (x : Obj) (h : a.meta.id = b.meta.id) : idLe a x = idLe b x := by
  simp [idLe, h]

theorem build_good_pid (o : Obj) {lo hi j : Nat} (hid : o.meta.id = some j) :
    ∀ (ns : List Str) (acc : Obj), (∀ n ∈ ns, '.' ∉ n) → IdGood lo hi j acc →
      IdGood lo hi j (wrapDotted.build o ns acc) ∧ sizeObj acc ≤ sizeObj (wrapDotted.build o ns acc) := by
  intro ns
  induction ns with
  | nil => intro acc _ h; exact ⟨by simpa [wrapDotted.build] using h, by simp [wrapDotted.build]⟩
  | cons n more ih =>
    intro acc hns h
    rw [wrapDotted.build]
    obtain ⟨g1, g2, g3, g4⟩ := h
    have hidin : idIn lo hi acc.meta = true := inRngObj_meta_pid acc g4
    have hidin' : ∀ (m : Meta), m.id = some j → idIn lo hi m = true := by
      intro m hm
      rw [idIn_iff_pid] at hidin ⊢
      obtain ⟨i, hi1, h2, h3⟩ := hidin
      rw [g1] at hi1; cases hi1
      exact ⟨j, hm, h2, h3⟩
    have hgood : IdGood lo hi j (.scope { name := n, id := o.meta.id, mergeNames := !more.isEmpty } [acc]) := by
      refine ⟨hid, by simpa [Obj.name, Obj.meta] using hns n (by simp), ?_, ?_⟩
      · simp only [okObj, levelOk, okList, List.all_cons, List.all_nil, Bool.and_true, Bool.and_eq_true,
          Bool.not_eq_true', g3]
        refine ⟨⟨by simp [g1], by simpa using g2⟩, ?_⟩
        exact idLe_of_ids_pid hid g1 (Nat.le_refl j)
      · simp only [inRngObj, inRngList, Bool.and_true, Bool.and_eq_true, g4, and_true]
        exact hidin' _ hid
    obtain ⟨r1, r2⟩ := ih _ (fun k hk => hns k (by simp [hk])) hgood
    refine ⟨r1, Nat.le_trans ?_ r2⟩
    simp [sizeObj, sizeList]

theorem okObj_withMeta_pid (f : Meta → Meta) (hf : ∀ m, (f m).id = m.id) :
    ∀ (o : Obj), okObj o = true → okObj (o.withMeta f) = true
  | .defn m ws => by intro _; simp [Obj.withMeta, okObj]
  | .scope m kids => by
    intro h
    simp only [Obj.withMeta, okObj, Bool.and_eq_true] at h ⊢
    refine ⟨h.1, ?_⟩
    have h2 := h.2
    rw [List.all_eq_true] at h2 ⊢
    intro x hx
    rw [idLe_meta_pid (b := .scope m kids) x (by simp [Obj.meta, hf])]
    exact h2 x hx

theorem inRngObj_withMeta_pid {lo hi : Nat} (f : Meta → Meta) (hf : ∀ m, (f m).id = m.id) :
    ∀ (o : Obj), inRngObj lo hi o = true → inRngObj lo hi (o.withMeta f) = true
  | .defn m ws => by intro h; simpa [Obj.withMeta, inRngObj, idIn, hf] using h
  | .scope m kids => by intro h; simpa [Obj.withMeta, inRngObj, idIn, hf] using h

theorem sizeObj_withMeta_pid (f : Meta → Meta) : ∀ (o : Obj), sizeObj (o.withMeta f) = sizeObj o
  | .defn m ws => by simp [Obj.withMeta, sizeObj]
  | .scope m kids => by simp [Obj.withMeta, sizeObj]

theorem meta_withMeta_pid (f : Meta → Meta) : ∀ (o : Obj), (o.withMeta f).meta = f o.meta
  | .defn m ws => rfl
  | .scope m kids => rfl

/-- `adopt` of an object numbered `j`: the chain of scopes built for a dotted name shares the id `j`,
    has dot-free names, and is not smaller than the object -/
theorem wrapDotted_good_pid {lo hi j : Nat} (o : Obj) (hid : o.meta.id = some j) (hok : okObj o = true)
    (hr : inRngObj lo hi o = true) :
    IdGood lo hi j (wrapDotted o) ∧ sizeObj o ≤ sizeObj (wrapDotted o) := by
  unfold wrapDotted
  dsimp only
  split
  · rename_i hrev
    have : splitOn '.' o.name = [] := by simpa using hrev
    exact absurd this (splitOn_ne_nil_vs '.' o.name)
  · rename_i x hrev
    have hx : splitOn '.' o.name = [x] := by simpa using congrArg List.reverse hrev
    exact ⟨⟨hid, splitOn_single_pid '.' o.name x hx, hok, hr⟩, Nat.le_refl _⟩
  · rename_i xs last initRev _ hrev
    have hmem : ∀ c ∈ last :: initRev, '.' ∉ c := by
      intro c hc
      refine splitOn_comp_pid '.' o.name c ?_
      rw [← List.mem_reverse, hrev]; exact hc
    have hinner : IdGood lo hi j (o.withMeta (fun m => { m with name := last, mergeNames := true })) := by
      refine ⟨by simp [meta_withMeta_pid, hid], ?_,
        okObj_withMeta_pid (fun m => { m with name := last, mergeNames := true }) (fun _ => rfl) o hok,
        inRngObj_withMeta_pid (fun m => { m with name := last, mergeNames := true }) (fun _ => rfl) o hr⟩
      simpa [Obj.name, meta_withMeta_pid] using hmem last (by simp)
    obtain ⟨r1, r2⟩ := build_good_pid o hid initRev _ (fun n hn => hmem n (by simp [hn])) hinner
    exact ⟨r1, by rw [sizeObj_withMeta_pid] at r2; exact r2⟩

/-! ### the invariant of `collectObjects` -/

/-- the state of `collectObjects`: lower bound `lo`, counter `n`, accumulated objects, active definition -/
def CollectInv (lo n : Nat) (acc : List Obj) : Option Obj → Prop
  | none => IdSeg lo n acc ∧ lo ≤ n ∧ n ≤ lo + sizeList acc
  | some d => ∃ m ws j, d = .defn m ws ∧ m.id = some j ∧ n = j + 1 ∧
      IdSeg lo j acc ∧ lo ≤ j ∧ j ≤ lo + sizeList acc

theorem CollectInv.adopt_pid {lo j n' : Nat} {acc : List Obj} {o : Obj} (h : CollectInv lo j acc none)
    (hid : o.meta.id = some j) (hok : okObj o = true) (hr : inRngObj lo n' o = true)
    (hsz : n' ≤ j + sizeObj o) : CollectInv lo n' (adopt acc o) none := by
  obtain ⟨hs, hlo, hn⟩ := h
  obtain ⟨hg, hw⟩ := wrapDotted_good_pid o hid hok hr
  have hj : j < n' := by
    have := inRngObj_meta_pid o hr
    rw [idIn_iff_pid] at this
    obtain ⟨i, hi1, _, h3⟩ := this
    rw [hid] at hi1; cases hi1; exact h3
  refine ⟨hs.snoc_pid hg, by omega, ?_⟩
  simp only [adopt, sizeList_append_pid, sizeList]
  omega

theorem CollectInv.flush_pid {lo n : Nat} {acc : List Obj} {pending : Option Obj} (h : CollectInv lo n acc pending) :
    CollectInv lo n (flush acc pending) none := by
  cases pending with
  | none => exact h
  | some d =>
    obtain ⟨m, ws, j, hd, hid, hn, hs, hlo, hsz⟩ := h
    subst hd
    subst hn
    refine CollectInv.adopt_pid (o := .defn m ws) ⟨hs, hlo, hsz⟩ hid (by simp [okObj]) ?_ (by simp [sizeObj])
    simp only [inRngObj, idIn_iff_pid]
    exact ⟨j, hid, hlo, Nat.lt_succ_self j⟩

theorem CollectInv.nil_pid (n : Nat) : CollectInv n n [] none :=
  ⟨IdSeg.nil_pid n n, Nat.le_refl n, by simp [sizeList]⟩

/-- a scope numbered `n` whose objects were collected with the counter running from `n + 1` to `n'` -/
theorem CollectInv.scope_pid {lo n n' : Nat} {acc kids : List Obj} (m : Meta) (h : CollectInv lo n acc none)
    (hk : CollectInv (n + 1) n' kids none) (hid : m.id = some n) : CollectInv lo n' (adopt acc (.scope m kids)) none := by
  obtain ⟨⟨k1, k2, k3⟩, klo, ksz⟩ := hk
  have hlo : lo ≤ n := h.2.1
  refine CollectInv.adopt_pid h (by simpa [Obj.meta] using hid) ?_ ?_ ?_
  · simp only [okObj, k1, k2, Bool.true_and]
    rw [List.all_eq_true]
    intro x hx
    have := inRngObj_meta_pid x (inRngList_mem_pid kids x k3 hx)
    rw [idIn_iff_pid] at this
    obtain ⟨i, hi1, h2, _⟩ := this
    exact idLe_of_ids_pid (by simpa [Obj.meta] using hid) hi1 (by omega)
  · simp only [inRngObj, Bool.and_eq_true, idIn_iff_pid]
    exact ⟨⟨n, hid, hlo, by omega⟩, inRngList_mono_pid (by omega) (Nat.le_refl _) kids k3⟩
  · simp only [sizeObj]; omega

theorem collectObjects_inv_pid : ∀ (fuel : Nat) (st : PState) (stop : Option Word) (prev : Nat)
    (acc : List Obj) (pending : Option Obj) (objs : List Obj) (st' : PState) (lo : Nat),
    collectObjects fuel st stop prev acc pending = .ok (objs, st') → CollectInv lo st.nextId acc pending →
      CollectInv lo st'.nextId objs none ∧ st.nextId ≤ st'.nextId := by
  intro fuel
  induction fuel with
  | zero => intro st stop prev acc pending objs st' lo h; simp [collectObjects] at h
  | succ fuel ih =>
    intro st stop prev acc pending objs st' lo h hinv
    simp only [collectObjects] at h
    split at h
    · cases h
    · split at h
      · cases h; exact ⟨hinv.flush_pid, Nat.le_refl _⟩
      · cases h
    · rename_i lead ci1 h1
      split at h
      · split at h
        · cases h
        · rename_i w ci2 h2
          split at h
          · split at h
            · cases h; exact ⟨hinv.flush_pid, Nat.le_refl _⟩
            · cases h
          · split at h
            · exact ih { st with ci := ci2 } _ _ _ _ _ _ lo h hinv
            · split at h
              · cases h
              · split at h
                · split at h
                  · cases h; exact ⟨hinv.flush_pid, Nat.le_refl _⟩
                  · cases h
                · have r := ih _ _ _ _ _ _ _ lo h hinv
                  exact r
      · split at h
        · cases h; exact ⟨hinv.flush_pid, Nat.le_refl _⟩
        · split at h
          · cases h
          · split at h
            · cases h
            · rename_i w ci2 h2
              split at h
              · split at h
                · cases h
                · split at h
                  · cases h
                  · split at h
                    · cases h
                    · rename_i attrs brace ci3 h3
                      split at h
                      · cases h
                      · rename_i children st1 h4
                        obtain ⟨hk, hle⟩ := ih { ci := ci3, nextId := st.nextId + 1 } (some brace) 0 [] none
                          children st1 (st.nextId + 1) h4 (CollectInv.nil_pid _)
                        have hle' : st.nextId + 1 ≤ st1.nextId := hle
                        obtain ⟨r1, r2⟩ := ih st1 _ _ _ _ _ _ lo h
                          (CollectInv.scope_pid _ hinv.flush_pid hk rfl)
                        exact ⟨r1, by omega⟩
              · split at h
                · split at h
                  · cases h
                  · split at h
                    · cases h
                    · rename_i ci3 h3
                      split at h
                      · cases h
                      · rename_i ws ci4 h4
                        split at h
                        · cases h
                        · have hf := hinv.flush_pid
                          obtain ⟨r1, r2⟩ := ih { ci := ci4, nextId := st.nextId + 1 } _ _ _ _ _ _ lo h
                            ⟨_, ws, st.nextId, rfl, rfl, rfl, hf.1, hf.2.1, hf.2.2⟩
                          have r2' : st.nextId + 1 ≤ st'.nextId := r2
                          exact ⟨r1, by omega⟩
                · split at h
                  · cases h
                  · rename_i d
                    split at h
                    · cases h
                    · split at h
                      · cases h
                      · rename_i eq ci3 h3
                        split at h
                        · cases h
                        · split at h
                          · cases h
                          · rename_i ws ci4 h4
                            split at h
                            · exact ih { st with ci := ci4 } _ _ _ _ _ _ lo h hinv
                            · split at h
                              · cases h
                              · rename_i v hv
                                refine ih { st with ci := ci4 } _ _ _ _ _ _ lo h ?_
                                obtain ⟨m, ws', j, hd, hid, hn, hs, hlo, hsz⟩ := hinv
                                subst hd
                                exact ⟨_, ws', j, rfl, hid, hn, hs, hlo, hsz⟩

/-- the objects of a parsed text: ids in `[1, n)` where `n ≤ 1 + number of objects` -/
theorem parseObjs_inv_pid (text : Str) (root : List Obj) (h : parseObjs text = .ok root) :
    ∃ n, CollectInv 1 n root none := by
  unfold parseObjs at h
  split at h
  · cases h
  · rename_i objs st' hc
    cases h
    exact ⟨st'.nextId, (collectObjects_inv_pid _ _ _ _ _ _ _ _ 1 hc (CollectInv.nil_pid 1)).1⟩

theorem parse_docIds_pid (text : Str) (root : List Obj) (h : parseObjs text = .ok root) : DocIds root := by
  obtain ⟨n, ⟨h1, h2, h3⟩, hlo, hsz⟩ := parseObjs_inv_pid text root h
  refine ⟨⟨h1, h2⟩, ?_⟩
  have : inRngList 1 (sizeList root + 1) root = true :=
    inRngList_mono_pid (Nat.le_refl 1) (by omega) root h3
  exact inRngList_idsLe_pid root this

end Phil.C12
