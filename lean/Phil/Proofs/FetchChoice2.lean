/-
  Phil.Proofs.FetchChoice2 — two additions to Phil/Proofs/FetchChoice.lean for masters with choices
  (`TreeMasterC`):
    A. C06: the consumed ids `treeUsed` are exactly the ids of the `all_definitions(sources)` entries
       whose path names a master definition (`tree_used_exact` re-proved on `TreeMasterC`: the proof
       never used the restriction to plain definitions), hence the exact unused list;
    B. C07: `choiceFetch` of its own result is the identity for masters' choices with pairwise
       distinct keys, no double stars, no `+` and a number of alternatives other than one
       (`ChoiceRefetchOK`).
-/
import Phil.Proofs.FetchChoice
set_option linter.unusedVariables false
set_option linter.unusedSimpArgs false
namespace Phil

/-! ## A. C06 on `TreeMasterC` -/

mutual
theorem mem_treeUsedObj_treeC : ∀ (mo : Obj) (srcs : List Obj) (p : Str) (i : Nat),
    TreeObjC mo → NoIncludeTree [mo] → SrcPlain srcs →
    (i ∈ treeUsedObj mo srcs ↔
      ∃ x ∈ allDefsObj.allDefsList srcs p, x.2.1.id = some i ∧ x.1 ∈ defPathsObj mo p)
  | .defn mm mws, srcs, p, i, ht, hinc, hs => by
    rw [TreeObjC] at ht
    have hinc' : mm.name ≠ "include".toList :=
      hinc (.defn mm mws) (.here (List.mem_singleton.mpr rfl) ht.2.2.2) rfl
    have hB := allDefs_defsNamed_tree mm.name p ht.2.2.1 hinc' srcs
    rw [treeUsedObj, defPathsObj]
    constructor
    · intro hi
      rw [List.mem_flatMap] at hi
      obtain ⟨d, hd, hid⟩ := hi
      have hd' := mem_defsNamed.mp hd
      have hid' := (mem_marksOf_noRefs (hs.noRefs d (.here hd'.1 hd'.2.2.1) hd'.2.1)).mp hid
      have hx : (p ++ mm.name, d.meta, d.words) ∈
          (allDefsObj.allDefsList srcs p).filter (fun x => x.1 == p ++ mm.name) := by
        rw [hB]; exact List.mem_map.mpr ⟨d, hd, rfl⟩
      exact ⟨_, (List.mem_filter.mp hx).1, hid', List.mem_singleton.mpr rfl⟩
    · rintro ⟨x, hx, hid, hpath⟩
      rw [List.mem_singleton] at hpath
      have hx' : x ∈ (allDefsObj.allDefsList srcs p).filter (fun x => x.1 == p ++ mm.name) :=
        List.mem_filter.mpr ⟨hx, by simpa using hpath⟩
      rw [hB, List.mem_map] at hx'
      obtain ⟨d, hd, hdx⟩ := hx'
      have hd' := mem_defsNamed.mp hd
      rw [List.mem_flatMap]
      refine ⟨d, hd, (mem_marksOf_noRefs (hs.noRefs d (.here hd'.1 hd'.2.2.1) hd'.2.1)).mpr ?_⟩
      rw [← hdx] at hid
      exact hid
  | .scope mm kids, srcs, p, i, ht, hinc, hs => by
    have hkids := (TreeMasterC.of_scope ht).kids
    rw [TreeObjC] at ht
    have hinck : NoIncludeTree kids := fun d hd hdef =>
      hinc d (.deeper (List.mem_singleton.mpr rfl) ht.2.2.2.1 hd) hdef
    have hA := allDefs_srcStep_tree mm.name p ht.2.2.1 srcs (fun o ho hd => hs.dotfree o (.here ho hd))
    rw [treeUsedObj, defPathsObj,
      mem_treeUsed_treeC kids (srcStep srcs mm.name) (p ++ mm.name ++ ['.']) i hkids hinck (hs.step mm.name),
      ← hA]
    constructor
    · rintro ⟨x, hx, hid, hpath⟩
      exact ⟨x, (List.mem_filter.mp hx).1, hid, hpath⟩
    · rintro ⟨x, hx, hid, hpath⟩
      obtain ⟨r, hr⟩ := defPaths_prefix_tree kids _ _ hpath
      exact ⟨x, List.mem_filter.mpr ⟨hx, (startsWith_iff_tree _ _).mpr ⟨r, hr⟩⟩, hid, hpath⟩
theorem mem_treeUsed_treeC : ∀ (mkids : List Obj) (srcs : List Obj) (p : Str) (i : Nat),
    TreeKidsC mkids → NoIncludeTree mkids → SrcPlain srcs →
    (i ∈ treeUsed mkids srcs ↔
      ∃ x ∈ allDefsObj.allDefsList srcs p, x.2.1.id = some i ∧ x.1 ∈ defPaths mkids p)
  | [], srcs, p, i, _, _, _ => by
    rw [treeUsed, defPaths]
    simp
  | mo :: rest, srcs, p, i, ht, hinc, hs => by
    rw [TreeKidsC] at ht
    rw [treeUsed, defPaths, List.mem_append, mem_treeUsedObj_treeC mo srcs p i ht.1 hinc.head hs,
      mem_treeUsed_treeC rest srcs p i ht.2 hinc.tail hs]
    constructor
    · rintro (⟨x, hx, hid, hp⟩ | ⟨x, hx, hid, hp⟩)
      · exact ⟨x, hx, hid, List.mem_append.mpr (.inl hp)⟩
      · exact ⟨x, hx, hid, List.mem_append.mpr (.inr hp)⟩
    · rintro ⟨x, hx, hid, hp⟩
      rcases List.mem_append.mp hp with hp | hp
      · exact .inl ⟨x, hx, hid, hp⟩
      · exact .inr ⟨x, hx, hid, hp⟩
end

/-- the consumed ids of a master with choices, exactly -/
theorem tree_choice_used_exact (mkids srcs : List Obj) (hf : TreeMasterC mkids) (hinc : NoIncludeTree mkids)
    (hs : SrcPlain srcs) (i : Nat) :
    i ∈ treeUsed mkids srcs ↔
      ∃ x ∈ allDefinitions srcs, x.2.1.id = some i ∧ x.1 ∈ defPaths mkids [] :=
  mem_treeUsed_treeC mkids srcs [] i hf.kids hinc hs

mutual
theorem defPathsObj_eq_allDefs_treeC : ∀ (o : Obj) (p : Str), TreeObjC o → NoIncludeTree [o] →
    defPathsObj o p = (allDefsObj o p).map (·.1)
  | .defn mm mws, p, ht, hinc => by
    rw [TreeObjC] at ht
    have hinc' : mm.name ≠ "include".toList :=
      hinc (.defn mm mws) (.here (List.mem_singleton.mpr rfl) ht.2.2.2) rfl
    have : (mm.name == "include".toList) = false := beq_eq_false_iff_ne.mpr hinc'
    rw [defPathsObj, allDefsObj, this]
    rfl
  | .scope mm kids, p, ht, hinc => by
    have hk := (TreeMasterC.of_scope ht).kids
    rw [TreeObjC] at ht
    rw [defPathsObj, allDefsObj]
    exact defPaths_eq_allDefs_treeC kids _ hk
      (fun d hd hdef => hinc d (.deeper (List.mem_singleton.mpr rfl) ht.2.2.2.1 hd) hdef)
theorem defPaths_eq_allDefs_treeC : ∀ (l : List Obj) (p : Str), TreeKidsC l → NoIncludeTree l →
    defPaths l p = (allDefsObj.allDefsList l p).map (·.1)
  | [], p, _, _ => by rw [defPaths, allDefsObj.allDefsList]; rfl
  | o :: os, p, ht, hinc => by
    rw [TreeKidsC] at ht
    have hen : o.meta.disabled = false := ht.1.enabled
    rw [defPaths, allDefsObj.allDefsList, hen, List.map_append,
      defPathsObj_eq_allDefs_treeC o p ht.1 hinc.head, defPaths_eq_allDefs_treeC os p ht.2 hinc.tail]
    rfl
end

theorem defPaths_eq_allDefinitions_treeC (mkids : List Obj) (hf : TreeMasterC mkids)
    (hinc : NoIncludeTree mkids) : defPaths mkids [] = (allDefinitions mkids).map (·.1) :=
  defPaths_eq_allDefs_treeC mkids [] hf.kids hinc

/-- a successful fetch of a master with choices returns the specification -/
theorem fetch_tree_choice_ok (e : Envs) (fuel : Nat) (sm : Meta) (mkids srcs : List Obj)
    (hf : TreeMasterC mkids) (hfuel : depthL mkids < fuel) (hsd : sm.disabled = false)
    (hsrc : SrcTree srcs) (ro : Obj) (used : List Nat)
    (h : fetchScope e fuel false sm mkids srcs = .ok (ro, used)) :
    (∃ r, treeResultC mkids srcs = .ok r ∧ ro = .scope { sm with tmpl := 0 } r) ∧
      used = treeUsed mkids srcs := by
  rw [fetch_tree_choice_total e fuel sm mkids srcs hf hfuel hsd hsrc] at h
  cases hr : treeResultC mkids srcs with
  | error err => rw [hr] at h; cases h
  | ok r =>
    rw [hr] at h
    cases h
    exact ⟨⟨r, rfl, rfl⟩, rfl⟩

/-! ## B. C07: `choiceFetch` of its own result -/

/-- the master choices whose fetched value is reproduced by a re-fetch: a number of alternatives
    other than one (a one-word source SELECTS its word), no `+` in an alternative (the re-fetch would
    split it), no double star, pairwise distinct lower-cased names -/
structure ChoiceRefetchOK (mws : List Word) : Prop where
  notOne : mws.length ≠ 1
  noPlus : ∀ w ∈ mws, w.value.contains '+' = false
  noDouble : NoDoubleStar mws
  distinct : (altKeys mws).Nodup

instance (mws : List Word) : Decidable (NoDoubleStar mws) := by unfold NoDoubleStar; infer_instance

def choiceRefetchOKB (mws : List Word) : Bool :=
  decide (mws.length ≠ 1) && mws.all (fun w => !w.value.contains '+') &&
    mws.all (fun w => !(stripStar (stripStar w.value).1).2) && decide ((altKeys mws).Nodup)

theorem choiceRefetchOKB_sound (mws : List Word) (h : choiceRefetchOKB mws = true) : ChoiceRefetchOK mws := by
  unfold choiceRefetchOKB at h
  simp only [Bool.and_eq_true, decide_eq_true_eq, List.all_eq_true, Bool.not_eq_true'] at h
  exact ⟨h.1.1.1, h.1.1.2, h.1.2, h.2⟩

theorem isPlainNone_of_length_ne_one (l : List Word) (h : l.length ≠ 1) : isPlainNone l = false := by
  unfold isPlainNone
  split
  · simp at h
  · rfl

theorem isPlainAuto_of_length_ne_one (l : List Word) (h : l.length ≠ 1) : isPlainAuto l = false := by
  unfold isPlainAuto
  split
  · simp at h
  · rfl

/-- the flag a table gives the alternative `w` -/
def onOf (F : Flags) (w : Word) : Bool := (flagGet F (lower (stripStar w.value).1)).getD false

def altKeyOf (w : Word) : Str := lower (stripStar w.value).1

theorem stripStar_render (F : Flags) (w : Word) (h : (stripStar (stripStar w.value).1).2 = false) :
    stripStar (renderStar F w).value = ((stripStar w.value).1, onOf F w) := by
  unfold renderStar onOf
  simp only
  cases (flagGet F (lower (stripStar w.value).1)).getD false with
  | true => rfl
  | false => exact stripStar_of_not_star _ h

theorem stripStar_fst_noPlus (v : Str) (h : v.contains '+' = false) : (stripStar v).1.contains '+' = false := by
  unfold stripStar
  split
  · simp only [List.contains_eq_mem, List.mem_cons, decide_eq_false_iff_not, not_or] at h ⊢
    exact h.2
  · exact h

theorem render_noPlus (F : Flags) (w : Word) (h : w.value.contains '+' = false) :
    (renderStar F w).value.contains '+' = false := by
  have hn := stripStar_fst_noPlus _ h
  unfold renderStar
  simp only
  split
  · simp only [List.contains_eq_mem, List.mem_cons, decide_eq_false_iff_not, not_or] at hn ⊢
    exact ⟨by decide, hn⟩
  · exact hn

theorem renderStar_congr (F F' : Flags) (w : Word) (h : onOf F' w = onOf F w) :
    renderStar F' w = renderStar F w := by
  unfold onOf at h
  unfold renderStar
  simp only
  rw [h]

/-- the re-fetch's scan over rendered words: every word is known, so each step sets its key -/
theorem foldlM_starStep_render (mws : List Word) (F : Flags) (hd : NoDoubleStar mws) :
    ∀ (l : List Word), (∀ w ∈ l, w ∈ mws) → ∀ (fl : Flags),
      (l.map (renderStar F)).foldlM (starStep mws false false) fl =
        .ok (l.foldl (fun fl w => flagSet fl (altKeyOf w) (onOf F w)) fl) := by
  intro l
  induction l with
  | nil => intro _ fl; rfl
  | cons a l ih =>
    intro hl fl
    have ha := hl a List.mem_cons_self
    have hk : (flagGet (flags0Of mws) (lower (stripStar a.value).1)).isNone = false := by
      cases hc : (flagGet (flags0Of mws) (lower (stripStar a.value).1)).isNone with
      | false => rfl
      | true => exact absurd (List.mem_map.mpr ⟨a, ha, rfl⟩) ((flagGet_flags0_isNone mws _).mp hc)
    have hstep : starStep mws false false fl (renderStar F a) = .ok (flagSet fl (altKeyOf a) (onOf F a)) := by
      unfold starStep
      rw [stripStar_render F a (hd a ha)]
      simp only [Bool.or_false, hk, Bool.and_false, Bool.false_eq_true, if_false]
      rfl
    rw [List.map_cons, List.foldlM_cons, hstep]
    exact ih (fun w hw => hl w (List.mem_cons_of_mem _ hw)) _

theorem flagGet_foldl_notin (g : Word → Bool) (k : Str) : ∀ (l : List Word) (fl : Flags),
    k ∉ l.map altKeyOf →
    flagGet (l.foldl (fun fl w => flagSet fl (altKeyOf w) (g w)) fl) k = flagGet fl k := by
  intro l
  induction l with
  | nil => intro fl _; rfl
  | cons a l ih =>
    intro fl hk
    rw [List.map_cons, List.mem_cons, not_or] at hk
    rw [List.foldl_cons, ih _ hk.2, flagGet_flagSet, if_neg hk.1]

theorem flagGet_foldl_nodup (g : Word → Bool) : ∀ (l : List Word) (fl : Flags),
    (l.map altKeyOf).Nodup → ∀ w ∈ l,
    flagGet (l.foldl (fun fl w => flagSet fl (altKeyOf w) (g w)) fl) (altKeyOf w) = some (g w) := by
  intro l
  induction l with
  | nil => intro fl _ w hw; cases hw
  | cons a l ih =>
    intro fl hnd w hw
    rw [List.map_cons, List.nodup_cons] at hnd
    rw [List.foldl_cons]
    rcases List.mem_cons.mp hw with rfl | hw
    · rw [flagGet_foldl_notin g _ l _ hnd.1, flagGet_flagSet, if_pos rfl]
    · exact ih _ hnd.2 w hw

/-- **the rendered word list is a fixed point of the fetch**: for `ChoiceRefetchOK` alternatives and
    ANY flag table, fetching the rendered list against the same master gives it back -/
theorem choiceFetch_render_refetch (mws : List Word) (opt : AttrVal) (F : Flags) (h : ChoiceRefetchOK mws) :
    choiceFetch mws opt (mws.map (renderStar F)) false = .ok (mws.map (renderStar F)) := by
  have hlen : (mws.map (renderStar F)).length ≠ 1 := by rw [List.length_map]; exact h.notOne
  have hplus : plusMode (mws.map (renderStar F)) = false := by
    apply plusMode_false_of_no_plus
    intro w hw
    obtain ⟨a, ha, rfl⟩ := List.mem_map.mp hw
    exact render_noPlus F a (h.noPlus a ha)
  have hsingle : ((mws.map (renderStar F)).length == 1) = false := by simpa using hlen
  rw [choiceFetch_eq, isPlainNone_of_length_ne_one mws h.notOne, isPlainAuto_of_length_ne_one mws h.notOne,
    isPlainAuto_of_length_ne_one _ hlen]
  simp only [Bool.or_false, Bool.false_eq_true, if_false]
  unfold fetchFlags
  rw [isPlainNone_of_length_ne_one _ hlen, hplus, hsingle]
  simp only [Bool.not_false, Bool.or_true, if_true, Bool.false_eq_true, if_false]
  rw [foldlM_starStep_render mws F h.noDouble mws (fun w hw => hw)]
  simp only
  congr 1
  apply List.map_congr_left
  intro w hw
  apply renderStar_congr
  show (flagGet _ (altKeyOf w)).getD false = _
  rw [flagGet_foldl_nodup (onOf F) mws _ h.distinct w hw]
  rfl

/-- **`choiceFetch` is idempotent**: whatever a successful fetch returned is returned again when it
    is fetched against the same master -/
theorem choiceFetch_refetch (mws : List Word) (opt : AttrVal) (src out : List Word)
    (h : ChoiceRefetchOK mws) (hf : choiceFetch mws opt src false = .ok out) :
    choiceFetch mws opt out false = .ok out := by
  rcases choiceFetch_ok_shape _ _ _ _ _ hf with ⟨_, rfl⟩ | ⟨_, flags, _, rfl⟩
  · rw [choiceFetch_eq, isPlainNone_of_length_ne_one mws h.notOne, isPlainAuto_of_length_ne_one mws h.notOne]
    rfl
  · exact choiceFetch_render_refetch mws opt flags h

/-- the table that reads the master's own stars -/
def selfFlags (mws : List Word) : Flags :=
  mws.foldl (fun fl w => flagSet fl (altKeyOf w) (stripStar w.value).2) []

theorem render_self (mws : List Word) (h : (altKeys mws).Nodup) :
    mws.map (renderStar (selfFlags mws)) = mws := by
  have : mws.map (renderStar (selfFlags mws)) = mws.map id := by
    apply List.map_congr_left
    intro w hw
    have hg : onOf (selfFlags mws) w = (stripStar w.value).2 := by
      show (flagGet _ (altKeyOf w)).getD false = _
      unfold selfFlags
      rw [flagGet_foldl_nodup (fun w => (stripStar w.value).2) mws _ h w hw]
      rfl
    have : renderStar (selfFlags mws) w =
        { value := if onOf (selfFlags mws) w then '*' :: (stripStar w.value).1 else (stripStar w.value).1,
          quote := w.quote, line := w.line } := rfl
    rw [this, hg]
    cases w with
    | mk value quote line =>
      simp only [id]
      congr 1
      unfold stripStar
      split <;> rfl
  rw [this, List.map_id]

/-- **a `ChoiceRefetchOK` master value fetched against itself is unchanged** -/
theorem choiceFetch_self (mws : List Word) (opt : AttrVal) (h : ChoiceRefetchOK mws) :
    choiceFetch mws opt mws false = .ok mws := by
  have := choiceFetch_render_refetch mws opt (selfFlags mws) h
  rw [render_self mws h.distinct] at this
  exact this

/-! ## C. one master definition: its result, as the only source, is reproduced -/

/-- a master definition fit for re-fetching: not template-marked, no recorded resolution, not
    deprecated, and — when it is a choice — `ChoiceRefetchOK` alternatives -/
structure DefRefetchOK (mm : Meta) (mws : List Word) : Prop where
  tmpl : mm.tmpl = 0
  varRes : mm.varRes = none
  notDep : (mm.attrs.get "deprecated").truthy = false
  choice : ∀ b, mm.attrs.get "type" = .conv (.choice b) → ChoiceRefetchOK mws

theorem meta_tmpl_zero (mm : Meta) (h : mm.tmpl = 0) : { mm with tmpl := 0 } = mm := by
  cases mm
  simp only at h
  subst h
  rfl

theorem srcWords_defn_none (m : Meta) (ws : List Word) (h : m.varRes = none) :
    (Obj.defn m ws).srcWords = ws := srcWords_of_varRes_none (.defn m ws) h

theorem fetchValueW_notDep (mm : Meta) (mws sws : List Word) (hd : (mm.attrs.get "deprecated").truthy = false) :
    fetchValueW mm mws sws =
      match mm.attrs.get "type" with
      | .conv (.choice _) =>
        (choiceFetch mws (mm.attrs.get "optional") sws false).map (fun ws => some (.defn { mm with tmpl := 0 } ws))
      | _ => .ok (some (.defn { mm with tmpl := 0 } sws)) := by
  simp only [fetchValueW, hd, Bool.false_and, Bool.false_eq_true, if_false]
  split
  · rename_i b hb; rw [hb]
  · rename_i hne
    split
    · rename_i b hb; exact absurd hb (hne b)
    · rfl

/-- what a source yielded is reproduced when it is the source -/
theorem srcVal_val_refetch (mm : Meta) (mws : List Word) (h : DefRefetchOK mm mws) (d ro : Obj)
    (hv : srcVal mm mws d = .ok (some ro)) : srcVal mm mws ro = .ok (some ro) := by
  cases d with
  | scope m k => rw [srcVal] at hv; cases hv
  | defn sm sws =>
    rw [srcVal, fetchValueW_notDep mm mws _ h.notDep] at hv
    have hvr : ({ mm with tmpl := 0 } : Meta).varRes = none := h.varRes
    split at hv
    · rename_i b hb
      obtain ⟨ws, hc, hw⟩ := except_map_ok hv
      cases hw
      rw [srcVal, srcWords_defn_none _ _ hvr, fetchValueW_notDep mm mws _ h.notDep, hb]
      show (choiceFetch mws (mm.attrs.get "optional") ws false).map _ = _
      rw [choiceFetch_refetch mws _ _ ws (h.choice b hb) hc]
      rfl
    · rename_i hne
      cases hv
      rw [srcVal, srcWords_defn_none _ _ hvr, fetchValueW_notDep mm mws _ h.notDep]
      split
      · rename_i b hb; exact absurd hb (hne b)
      · rfl

/-- the master definition itself, as the source, is reproduced -/
theorem srcVal_self_refetch (mm : Meta) (mws : List Word) (h : DefRefetchOK mm mws) :
    srcVal mm mws (.defn mm mws) = .ok (some (.defn mm mws)) := by
  rw [srcVal, srcWords_defn_none _ _ h.varRes, fetchValueW_notDep mm mws _ h.notDep,
    meta_tmpl_zero mm h.tmpl]
  split
  · rename_i b hb
    show (choiceFetch mws (mm.attrs.get "optional") mws false).map _ = _
    rw [choiceFetch_self mws _ (h.choice b hb)]
    rfl
  · rfl

/-- the result of a definition fit for re-fetching is ONE definition that reproduces itself -/
theorem treeObjC_defn_shape (mm : Meta) (mws : List Word) (h : DefRefetchOK mm mws) (srcs os : List Obj)
    (h1 : treeObjC (.defn mm mws) srcs = .ok os) :
    ∃ ro, os = [ro] ∧ ro.isDefn = true ∧ srcVal mm mws ro = .ok (some ro) := by
  have hself : ∃ ro, finishC mm mws none = [ro] ∧ ro.isDefn = true ∧ srcVal mm mws ro = .ok (some ro) :=
    ⟨.defn mm mws, by simp [finishC, h.notDep], rfl, srcVal_self_refetch mm mws h⟩
  rw [treeObjC] at h1
  split at h1
  · cases h1
  · cases h1
    cases lastDef srcs mm.name with
    | none => exact hself
    | some d =>
      simp only
      cases hsv : srcVal mm mws d with
      | error e => exact hself
      | ok v =>
        cases v with
        | none => exact hself
        | some ro =>
          obtain ⟨ws, hws⟩ := srcVal_shape mm mws d ro hsv
          exact ⟨ro, rfl, by rw [hws]; rfl, srcVal_val_refetch mm mws h d ro hsv⟩

theorem treeObjC_defn_of_view (mm : Meta) (mws : List Word) (R : List Obj) (ro : Obj)
    (hv : activeNamed mm.name R = [ro]) (hd : ro.isDefn = true)
    (hs : srcVal mm mws ro = .ok (some ro)) : treeObjC (.defn mm mws) R = .ok [ro] := by
  have hdn : defsNamed mm.name R = [ro] := by
    rw [defsNamed_eq_filter_tree, hv, List.filter_cons, hd]; rfl
  have hfe : firstErrC mm mws (activeNamed mm.name R) = none := by
    rw [hv, firstErrC_cons, hs]; rfl
  rw [treeObjC, hfe]
  simp only
  unfold lastDef
  rw [hdn]
  simp only [List.getLast?_singleton, hs, valOfC, finishC]

/-- **one definition**: if the enabled objects called like the master definition are exactly what
    the fetch left for it, fetching again leaves the same -/
theorem treeObjC_defn_refetch (mm : Meta) (mws : List Word) (h : DefRefetchOK mm mws) (srcs os R : List Obj)
    (h1 : treeObjC (.defn mm mws) srcs = .ok os) (hv : activeNamed mm.name R = os) :
    treeObjC (.defn mm mws) R = .ok os := by
  obtain ⟨ro, rfl, hd, hs⟩ := treeObjC_defn_shape mm mws h srcs os h1
  exact treeObjC_defn_of_view mm mws R ro hv hd hs

/-! ## D. the tree: the specification is idempotent -/

/-- every active definition of the master is fit for re-fetching (`DefRefetchOK`) -/
def RefetchTreeC (mkids : List Obj) : Prop :=
  ∀ d, ActiveIn d mkids → d.isDefn = true → DefRefetchOK d.meta d.words

theorem RefetchTreeC.headC {mo : Obj} {rest : List Obj} (h : RefetchTreeC (mo :: rest)) : RefetchTreeC [mo] :=
  fun d hd hdef =>
    h d (hd.mono (by intro y hy; rw [List.mem_singleton] at hy; subst hy; exact List.mem_cons_self)) hdef

theorem RefetchTreeC.tailC {mo : Obj} {rest : List Obj} (h : RefetchTreeC (mo :: rest)) : RefetchTreeC rest :=
  fun d hd hdef => h d (hd.mono (fun y hy => List.mem_cons_of_mem _ hy)) hdef

theorem RefetchTreeC.kidsC {mm : Meta} {kids : List Obj} (h : RefetchTreeC [.scope mm kids])
    (hd : mm.disabled = false) : RefetchTreeC kids :=
  fun d hdk hdef => h d (.deeper (List.mem_singleton.mpr rfl) hd hdk) hdef

theorem treeObjC_disabled (mo : Obj) (srcs os : List Obj) (h : treeObjC mo srcs = .ok os) :
    ∀ o ∈ os, o.meta.disabled = mo.meta.disabled := by
  intro o ho
  cases mo with
  | defn mm mws =>
    rw [treeObjC] at h
    split at h
    · cases h
    · cases h
      have key : ∀ v : Option Obj, (∀ ro, v = some ro → ∃ ws, ro = .defn { mm with tmpl := 0 } ws) →
          o ∈ finishC mm mws v → o.meta.disabled = (Obj.defn mm mws).meta.disabled := by
        intro v hv ho
        cases v with
        | none =>
          simp only [finishC] at ho
          split at ho
          · cases ho
          · rw [List.mem_singleton] at ho; subst ho; rfl
        | some ro =>
          simp only [finishC, List.mem_singleton] at ho
          obtain ⟨ws, hws⟩ := hv ro rfl
          subst ho; rw [hws]; rfl
      apply key _ _ ho
      intro ro hro
      cases hl : lastDef srcs mm.name with
      | none => rw [hl] at hro; cases hro
      | some d => rw [hl] at hro; exact valOfC_shape mm mws d ro hro
  | scope mm kids =>
    rw [treeObjC] at h
    split at h
    · split at h
      · cases h
      · cases h; rw [List.mem_singleton] at ho; subst ho; rfl
    · cases h

theorem activeNamed_append_c (n : Str) (a b : List Obj) :
    activeNamed n (a ++ b) = activeNamed n a ++ activeNamed n b := by
  unfold activeNamed; rw [List.filter_append]

theorem activeNamed_all_c (n : Str) (l : List Obj) (h : ∀ o ∈ l, o.meta.disabled = false ∧ o.name = n) :
    activeNamed n l = l := by
  unfold activeNamed
  rw [List.filter_eq_self]
  intro o ho
  obtain ⟨h1, h2⟩ := h o ho
  simp [h1, h2]

theorem activeNamed_none_c (n : Str) (l : List Obj) (h : ∀ o ∈ l, o.name ≠ n) : activeNamed n l = [] := by
  unfold activeNamed
  rw [List.filter_eq_nil_iff]
  intro o ho
  simp [h o ho]

/-- in the result, the enabled objects called like a master child are what the fetch left for it -/
theorem treeResultC_view : ∀ (mkids srcs R : List Obj), (mkids.map Obj.name).Pairwise (· ≠ ·) →
    (∀ o ∈ mkids, o.meta.disabled = false) → treeResultC mkids srcs = .ok R →
    ∀ mo ∈ mkids, ∃ os, treeObjC mo srcs = .ok os ∧ activeNamed mo.name R = os
  | [], srcs, R, _, _, _ => fun mo hmo => nomatch hmo
  | a :: rest, srcs, R, hd, hen, h => by
    rw [treeResultC] at h
    cases h1 : treeObjC a srcs with
    | error e => rw [h1] at h; cases h
    | ok os' =>
      rw [h1] at h
      cases h2 : treeResultC rest srcs with
      | error e => rw [h2] at h; cases h
      | ok r =>
        rw [h2] at h; cases h
        rw [List.map_cons, List.pairwise_cons] at hd
        intro mo hmo
        rcases List.mem_cons.mp hmo with rfl | hmo
        · refine ⟨os', h1, ?_⟩
          have e1 : activeNamed mo.name os' = os' := by
            apply activeNamed_all_c
            intro o ho
            exact ⟨by rw [treeObjC_disabled _ _ _ h1 o ho]; exact hen _ List.mem_cons_self,
              (treeObjC_names _ _ _ h1 o ho).1⟩
          have e2 : activeNamed mo.name r = [] := by
            apply activeNamed_none_c
            intro o ho heq
            obtain ⟨mo2, hm2, hn2⟩ := treeResultC_names rest srcs r h2 o ho
            exact hd.1 mo2.name (List.mem_map.mpr ⟨mo2, hm2, rfl⟩) (by rw [← hn2, heq])
          rw [activeNamed_append_c, e1, e2, List.append_nil]
        · obtain ⟨os, ho1, ho2⟩ := treeResultC_view rest srcs r hd.2
            (fun o ho => hen o (List.mem_cons_of_mem _ ho)) h2 mo hmo
          refine ⟨os, ho1, ?_⟩
          have e1 : activeNamed mo.name os' = [] := by
            apply activeNamed_none_c
            intro o ho heq
            exact hd.1 mo.name (List.mem_map.mpr ⟨mo, hmo, rfl⟩)
              (by rw [← heq, (treeObjC_names _ _ _ h1 o ho).1])
          rw [activeNamed_append_c, e1, List.nil_append]
          exact ho2

mutual
theorem treeObjC_view_idem : ∀ (mo : Obj) (srcs os R : List Obj), TreeObjC mo → RefetchTreeC [mo] →
    treeObjC mo srcs = .ok os → activeNamed mo.name R = os → treeObjC mo R = .ok os
  | .defn mm mws, srcs, os, R, ht, hr, h1, hv => by
    rw [TreeObjC] at ht
    exact treeObjC_defn_refetch mm mws
      (hr (.defn mm mws) (.here (List.mem_singleton.mpr rfl) ht.2.2.2) rfl) srcs os R h1 hv
  | .scope mm kids, srcs, os, R, ht, hr, h1, hv => by
    have hk := TreeMasterC.of_scope ht
    rw [TreeObjC] at ht
    rw [treeObjC] at h1
    split at h1
    · cases h3 : treeResultC kids (srcStep srcs mm.name) with
      | error e => rw [h3] at h1; cases h1
      | ok r =>
        rw [h3] at h1; cases h1
        have hv' : activeNamed mm.name R = [.scope { mm with tmpl := 0 } r] := hv
        have hstep : srcStep R mm.name = r := by
          rw [← activeNamed_children_tree, hv']; simp [Obj.children]
        have hdn : defsNamed mm.name R = [] := by
          rw [defsNamed_eq_filter_tree, hv']; rfl
        rw [treeObjC, hdn, hstep]
        simp only [List.isEmpty_nil, if_true]
        rw [treeResultC_view_idem kids (srcStep srcs mm.name) r r hk.kids (hr.kidsC ht.2.2.2.1) h3
          (treeResultC_view kids _ r hk.distinct (fun o ho => (hk.obj o ho).enabled) h3)]
    · cases h1
theorem treeResultC_view_idem : ∀ (l srcs Rl R : List Obj), TreeKidsC l → RefetchTreeC l →
    treeResultC l srcs = .ok Rl →
    (∀ mo ∈ l, ∃ os, treeObjC mo srcs = .ok os ∧ activeNamed mo.name R = os) →
    treeResultC l R = .ok Rl
  | [], srcs, Rl, R, _, _, h, _ => by rw [treeResultC] at h ⊢; exact h
  | mo :: rest, srcs, Rl, R, ht, hr, h, hv => by
    rw [TreeKidsC] at ht
    rw [treeResultC] at h
    cases h1 : treeObjC mo srcs with
    | error e => rw [h1] at h; cases h
    | ok os =>
      rw [h1] at h
      cases h2 : treeResultC rest srcs with
      | error e => rw [h2] at h; cases h
      | ok r =>
        rw [h2] at h; cases h
        obtain ⟨os2, ho1, ho2⟩ := hv mo List.mem_cons_self
        rw [h1] at ho1; cases ho1
        rw [treeResultC, treeObjC_view_idem mo srcs os R ht.1 hr.headC h1 ho2,
          treeResultC_view_idem rest srcs r R ht.2 hr.tailC h2
            (fun o ho => hv o (List.mem_cons_of_mem _ ho))]
end

/-- **the specification is idempotent on masters with choices**: a successful result, taken as the
    only source, is reproduced (and the re-fetch cannot fail) -/
theorem treeResultC_idem (mkids srcs r : List Obj) (hf : TreeMasterC mkids) (hr : RefetchTreeC mkids)
    (h : treeResultC mkids srcs = .ok r) : treeResultC mkids r = .ok r :=
  treeResultC_view_idem mkids srcs r r hf.kids hr h
    (treeResultC_view mkids srcs r hf.distinct (fun o ho => (hf.obj o ho).enabled) h)

/-! ## E. the result is a well-formed source tree; the re-fetch at the level of `fetchScope` -/

/-- the master's defaults are variable-free, at every depth -/
def NoDollarTree (mkids : List Obj) : Prop :=
  ∀ d, ActiveIn d mkids → d.isDefn = true → hasDollar d.words = false

theorem NoDollarTree.headC {mo : Obj} {rest : List Obj} (h : NoDollarTree (mo :: rest)) : NoDollarTree [mo] :=
  fun d hd hdef =>
    h d (hd.mono (by intro y hy; rw [List.mem_singleton] at hy; subst hy; exact List.mem_cons_self)) hdef

theorem NoDollarTree.tailC {mo : Obj} {rest : List Obj} (h : NoDollarTree (mo :: rest)) : NoDollarTree rest :=
  fun d hd hdef => h d (hd.mono (fun y hy => List.mem_cons_of_mem _ hy)) hdef

theorem NoDollarTree.kidsC {mm : Meta} {kids : List Obj} (h : NoDollarTree [.scope mm kids])
    (hd : mm.disabled = false) : NoDollarTree kids :=
  fun d hdk hdef => h d (.deeper (List.mem_singleton.mpr rfl) hd hdk) hdef

theorem stripStar_fst_noDollar (v : Str) (h : v.contains '$' = false) : (stripStar v).1.contains '$' = false := by
  unfold stripStar
  split
  · simp only [List.contains_eq_mem, List.mem_cons, decide_eq_false_iff_not, not_or] at h ⊢
    exact h.2
  · exact h

theorem render_noDollar (F : Flags) (w : Word) (h : w.value.contains '$' = false) :
    (renderStar F w).value.contains '$' = false := by
  have hn := stripStar_fst_noDollar _ h
  unfold renderStar
  simp only
  split
  · simp only [List.contains_eq_mem, List.mem_cons, decide_eq_false_iff_not, not_or] at hn ⊢
    exact ⟨by decide, hn⟩
  · exact hn

theorem hasDollar_render (F : Flags) (mws : List Word) (h : hasDollar mws = false) :
    hasDollar (mws.map (renderStar F)) = false := by
  unfold hasDollar at h ⊢
  rw [List.any_eq_false] at h ⊢
  intro w hw
  obtain ⟨a, ha, rfl⟩ := List.mem_map.mp hw
  have ha' := h a ha
  intro hp
  apply ha'
  rw [Bool.and_eq_true] at hp ⊢
  refine ⟨hp.1, ?_⟩
  cases hc : a.value.contains '$' with
  | true => rfl
  | false =>
    have := render_noDollar F a hc
    rw [this] at hp
    exact absurd hp.2 (by decide)

theorem srcOK_of_srcVal (mm : Meta) (mws : List Word) (h : DefRefetchOK mm mws) (hnd : hasDollar mws = false)
    (d ro : Obj) (hd : hasDollar d.srcWords = false) (hv : srcVal mm mws d = .ok (some ro)) : SrcOK ro := by
  cases d with
  | scope m k => rw [srcVal] at hv; cases hv
  | defn sm sws =>
    rw [srcVal, fetchValueW_notDep mm mws _ h.notDep] at hv
    have hvr : ({ mm with tmpl := 0 } : Meta).varRes = none := h.varRes
    split at hv
    · obtain ⟨ws, hc, hw⟩ := except_map_ok hv
      cases hw
      refine .inr ⟨hvr, ?_⟩
      rcases choiceFetch_ok_shape _ _ _ _ _ hc with ⟨_, rfl⟩ | ⟨_, flags, _, rfl⟩
      · show hasDollar [wordOf "Auto"] = false
        decide
      · exact hasDollar_render flags mws hnd
    · cases hv
      exact .inr ⟨hvr, hd⟩

/-- what a definition fit for re-fetching leaves is a definition that resolves -/
theorem treeObjC_defn_srcOK (mm : Meta) (mws : List Word) (h : DefRefetchOK mm mws) (hnd : hasDollar mws = false)
    (srcs os : List Obj) (hdol : SrcNoDollar srcs) (h1 : treeObjC (.defn mm mws) srcs = .ok os) :
    ∀ o ∈ os, o.isDefn = true ∧ SrcOK o := by
  have hself : ∀ o ∈ finishC mm mws none, o.isDefn = true ∧ SrcOK o := by
    intro o ho
    simp only [finishC, h.notDep, Bool.false_eq_true, if_false, List.mem_singleton] at ho
    subst ho
    exact ⟨rfl, .inr ⟨h.varRes, hnd⟩⟩
  rw [treeObjC] at h1
  split at h1
  · cases h1
  · cases h1
    cases hl : lastDef srcs mm.name with
    | none => exact hself
    | some d =>
      simp only
      have hd := mem_defsNamed.mp (List.mem_of_getLast? hl)
      cases hsv : srcVal mm mws d with
      | error e => exact hself
      | ok v =>
        cases v with
        | none => exact hself
        | some ro =>
          intro o ho
          simp only [valOfC, finishC, List.mem_singleton] at ho
          subst ho
          obtain ⟨ws, hws⟩ := srcVal_shape mm mws d o hsv
          exact ⟨by rw [hws]; rfl,
            srcOK_of_srcVal mm mws h hnd d o (hdol d (.here hd.1 hd.2.2.1) hd.2.1) hsv⟩

theorem SrcNoDollar.stepC {srcs : List Obj} (h : SrcNoDollar srcs) (n : Str) : SrcNoDollar (srcStep srcs n) :=
  fun x hx hd => h x (activeIn_srcStep hx) hd

theorem activeIn_append_c {x : Obj} {a b : List Obj} (h : ActiveIn x (a ++ b)) : ActiveIn x a ∨ ActiveIn x b := by
  cases h with
  | here hm hd =>
    rcases List.mem_append.mp hm with hm | hm
    · exact .inl (.here hm hd)
    · exact .inr (.here hm hd)
  | deeper hm hd hk =>
    rcases List.mem_append.mp hm with hm | hm
    · exact .inl (.deeper hm hd hk)
    · exact .inr (.deeper hm hd hk)

theorem srcTree_append_c {a b : List Obj} (ha : SrcTree a) (hb : SrcTree b) : SrcTree (a ++ b) :=
  ⟨fun x hx hd => (activeIn_append_c hx).elim (fun h => ha.ok x h hd) (fun h => hb.ok x h hd),
   fun m kids hx => (activeIn_append_c hx).elim (fun h => ha.named m kids h) (fun h => hb.named m kids h)⟩

theorem srcTree_nil_c : SrcTree [] := by
  constructor
  · intro x hx _
    cases hx with
    | here hm _ => cases hm
    | deeper hm _ _ => cases hm
  · intro m kids hx
    cases hx with
    | here hm _ => cases hm
    | deeper hm _ _ => cases hm

theorem srcTree_scope_c {m : Meta} {kids : List Obj} (hn : m.name ≠ []) (hk : SrcTree kids) :
    SrcTree [.scope m kids] := by
  constructor
  · intro x hx hd
    cases hx with
    | here hm _ => rw [List.mem_singleton] at hm; subst hm; cases hd
    | deeper hm _ hk' =>
      rw [List.mem_singleton] at hm
      cases hm
      exact hk.ok x hk' hd
  · intro m' kids' hx
    cases hx with
    | here hm _ => rw [List.mem_singleton] at hm; cases hm; exact hn
    | deeper hm _ hk' =>
      rw [List.mem_singleton] at hm
      cases hm
      exact hk.named m' kids' hk'

theorem srcTree_defns_c (os : List Obj) (h : ∀ o ∈ os, o.isDefn = true ∧ SrcOK o) : SrcTree os := by
  constructor
  · intro x hx hd
    cases hx with
    | here hm _ => exact (h x hm).2
    | deeper hm _ _ => have := (h _ hm).1; cases this
  · intro m kids hx
    cases hx with
    | here hm _ => have := (h _ hm).1; cases this
    | deeper hm _ _ => have := (h _ hm).1; cases this

mutual
theorem srcTree_treeObjC : ∀ (mo : Obj) (srcs os : List Obj), TreeObjC mo → RefetchTreeC [mo] →
    NoDollarTree [mo] → SrcNoDollar srcs → treeObjC mo srcs = .ok os → SrcTree os
  | .defn mm mws, srcs, os, ht, hr, hn, hdol, h1 => by
    rw [TreeObjC] at ht
    have ha : ActiveIn (.defn mm mws) [.defn mm mws] := .here (List.mem_singleton.mpr rfl) ht.2.2.2
    exact srcTree_defns_c os (treeObjC_defn_srcOK mm mws (hr _ ha rfl) (hn _ ha rfl) srcs os hdol h1)
  | .scope mm kids, srcs, os, ht, hr, hn, hdol, h1 => by
    have hk := TreeMasterC.of_scope ht
    rw [TreeObjC] at ht
    rw [treeObjC] at h1
    split at h1
    · cases h3 : treeResultC kids (srcStep srcs mm.name) with
      | error e => rw [h3] at h1; cases h1
      | ok r =>
        rw [h3] at h1; cases h1
        exact srcTree_scope_c ht.2.1
          (srcTree_treeResultC kids (srcStep srcs mm.name) r hk.kids (hr.kidsC ht.2.2.2.1)
            (hn.kidsC ht.2.2.2.1) (hdol.stepC mm.name) h3)
    · cases h1
theorem srcTree_treeResultC : ∀ (l srcs R : List Obj), TreeKidsC l → RefetchTreeC l →
    NoDollarTree l → SrcNoDollar srcs → treeResultC l srcs = .ok R → SrcTree R
  | [], srcs, R, _, _, _, _, h => by rw [treeResultC] at h; cases h; exact srcTree_nil_c
  | mo :: rest, srcs, R, ht, hr, hn, hdol, h => by
    rw [TreeKidsC] at ht
    rw [treeResultC] at h
    cases h1 : treeObjC mo srcs with
    | error e => rw [h1] at h; cases h
    | ok os =>
      rw [h1] at h
      cases h2 : treeResultC rest srcs with
      | error e => rw [h2] at h; cases h
      | ok r =>
        rw [h2] at h; cases h
        exact srcTree_append_c (srcTree_treeObjC mo srcs os ht.1 hr.headC hn.headC hdol h1)
          (srcTree_treeResultC rest srcs r ht.2 hr.tailC hn.tailC hdol h2)
end

/-- **C07 on masters with choices.**  Whenever the fetch succeeds with result `r`, fetching `r`
    again — as the only source — succeeds and returns `r`. -/
theorem tree_choice_refetch_idempotent (e : Envs) (fuel : Nat) (sm : Meta) (mkids srcs r : List Obj)
    (hf : TreeMasterC mkids) (hfuel : depthL mkids < fuel) (hsd : sm.disabled = false)
    (hr : RefetchTreeC mkids) (hn : NoDollarTree mkids) (hdol : SrcNoDollar srcs)
    (h : treeResultC mkids srcs = .ok r) :
    fetchScope e fuel false sm mkids r =
      .ok (.scope { sm with tmpl := 0 } r, treeUsed mkids r) := by
  rw [fetch_tree_choice_total e fuel sm mkids r hf hfuel hsd
    (srcTree_treeResultC mkids srcs r hf.kids hr hn hdol h), treeResultC_idem mkids srcs r hf hr h]

/-! ## F. the master itself as the source: `M.fetch(M) = M.fetch()` -/

theorem activeNamed_self_c (l : List Obj) (hd : (l.map Obj.name).Pairwise (· ≠ ·))
    (hen : ∀ o ∈ l, o.meta.disabled = false) : ∀ mo ∈ l, activeNamed mo.name l = [mo] := by
  intro mo hmo
  have := activeNamed_map_distinct id (fun _ => rfl) (fun _ => rfl) l hd hen mo hmo
  simpa using this

mutual
theorem treeObjC_self : ∀ (mo : Obj) (R : List Obj), TreeObjC mo → RefetchTreeC [mo] →
    activeNamed mo.name R = [mo] → treeObjC mo R = treeObjC mo []
  | .defn mm mws, R, ht, hr, hv => by
    rw [TreeObjC] at ht
    have h := hr (.defn mm mws) (.here (List.mem_singleton.mpr rfl) ht.2.2.2) rfl
    have h0 : treeObjC (.defn mm mws) [] = .ok [.defn mm mws] := by
      have hn : (mm.attrs.get "deprecated").truthy = false := h.notDep
      rw [treeObjC]
      simp [activeNamed, firstErrC, lastDef, defsNamed, finishC, hn]
    rw [treeObjC_defn_of_view mm mws R (.defn mm mws) hv rfl (srcVal_self_refetch mm mws h), h0]
  | .scope mm kids, R, ht, hr, hv => by
    have hk := TreeMasterC.of_scope ht
    rw [TreeObjC] at ht
    have hv' : activeNamed mm.name R = [.scope mm kids] := hv
    have hstep : srcStep R mm.name = kids := by
      rw [← activeNamed_children_tree, hv']; simp [Obj.children]
    have hdn : defsNamed mm.name R = [] := by
      rw [defsNamed_eq_filter_tree, hv']; rfl
    have hstep0 : srcStep [] mm.name = [] := rfl
    have hdn0 : defsNamed mm.name [] = [] := rfl
    rw [treeObjC, treeObjC, hdn, hstep, hdn0, hstep0,
      treeResultC_self kids kids hk.kids (hr.kidsC ht.2.2.2.1)
        (activeNamed_self_c kids hk.distinct (fun o ho => (hk.obj o ho).enabled))]
theorem treeResultC_self : ∀ (l R : List Obj), TreeKidsC l → RefetchTreeC l →
    (∀ mo ∈ l, activeNamed mo.name R = [mo]) → treeResultC l R = treeResultC l []
  | [], R, _, _, _ => by rw [treeResultC, treeResultC]
  | mo :: rest, R, ht, hr, hv => by
    rw [TreeKidsC] at ht
    rw [treeResultC, treeResultC, treeObjC_self mo R ht.1 hr.headC (hv mo List.mem_cons_self),
      treeResultC_self rest R ht.2 hr.tailC (fun o ho => hv o (List.mem_cons_of_mem _ ho))]
end

/-- **the specification: the master as its own source changes nothing** -/
theorem treeResultC_master_itself (mkids : List Obj) (hf : TreeMasterC mkids) (hr : RefetchTreeC mkids) :
    treeResultC mkids mkids = treeResultC mkids [] :=
  treeResultC_self mkids mkids hf.kids hr
    (activeNamed_self_c mkids hf.distinct (fun o ho => (hf.obj o ho).enabled))

theorem treeObjC_of_activeIn_c {mo : Obj} {l : List Obj} (h : ActiveIn mo l) : TreeKidsC l → TreeObjC mo := by
  induction h with
  | here hm _ => intro ht; exact (treeKidsC_iff _).mp ht _ hm
  | deeper hm _ _ ih =>
    intro ht
    exact ih (TreeMasterC.of_scope ((treeKidsC_iff _).mp ht _ hm)).kids

/-- a master fit for re-fetching is itself a well-formed source tree -/
theorem srcTree_master_c (mkids : List Obj) (hf : TreeMasterC mkids) (hr : RefetchTreeC mkids)
    (hn : NoDollarTree mkids) : SrcTree mkids :=
  ⟨fun x hx hd => .inr ⟨(hr x hx hd).varRes, hn x hx hd⟩,
   fun m kids hx => (treeObjC_of_activeIn_c hx hf.kids).name_ne⟩

/-- **`M.fetch(M) = M.fetch()`** on masters with choices: whatever the fetch without sources
    returns, the fetch with the master itself as the only source returns too -/
theorem tree_choice_fetch_master_itself (e : Envs) (fuel : Nat) (sm : Meta) (mkids : List Obj)
    (hf : TreeMasterC mkids) (hfuel : depthL mkids < fuel) (hsd : sm.disabled = false)
    (hr : RefetchTreeC mkids) (hn : NoDollarTree mkids) :
    (fetchScope e fuel false sm mkids mkids).map (·.1) = (fetchScope e fuel false sm mkids []).map (·.1) := by
  rw [fetch_tree_choice_total e fuel sm mkids mkids hf hfuel hsd (srcTree_master_c mkids hf hr hn),
    fetch_tree_choice_total e fuel sm mkids [] hf hfuel hsd srcTree_nil_c,
    treeResultC_master_itself mkids hf hr]
  cases treeResultC mkids [] <;> rfl

end Phil
