/-
  The parse-shaped construction of Phil/Heap.lean (`cells`, `build`, `ofObjs`): the object allocated for a
  tree denotes that tree (abs ∘ build = id).
-/
import Phil.Proofs.HeapLemmas
namespace Phil.Heap

mutual
theorem cells_length : ∀ (o : Obj) (p : Option Nat) (b : Nat), (cells o p b).length = size o
  | .defn m ws, p, b => by simp [cells, size]
  | .scope m os, p, b => by
    simp only [cells, size, List.length_cons]
    rw [kidCells_length os b (b + 1)]; omega
theorem kidCells_length : ∀ (os : List Obj) (p : Nat) (b : Nat), (kidCells os p b).length = sizeKids os
  | [], _, _ => by simp [kidCells, sizeKids]
  | o :: os, p, b => by
    simp only [kidCells, sizeKids, List.length_append]
    rw [cells_length o (some p) b, kidCells_length os p (b + size o)]
end

theorem get_mid {α : Type} (pre : List α) (c : α) (rest : List α) : (pre ++ (c :: rest))[pre.length]? = some c := by
  rw [List.getElem?_append_right (Nat.le_refl _), Nat.sub_self]; rfl

mutual
/-- a block `cells o p b` sitting at offset `b` of any heap denotes `o` -/
theorem absF_cells : ∀ (o : Obj) (p : Option Nat) (b : Nat) (pre post : Heap), pre.length = b →
    absF (size o) (pre ++ (cells o p b ++ post)) b = some o
  | .defn m ws, p, b, pre, post, hb => by
    subst hb
    simp only [size, cells, List.singleton_append, absF]
    rw [get_mid]
  | .scope m os, p, b, pre, post, hb => by
    subst hb
    have hsz : size (.scope m os) = sizeKids os + 1 := by rw [size]; omega
    rw [hsz]
    simp only [cells, List.cons_append, absF]
    rw [get_mid]
    simp only
    have := mapOpt_kidCells os pre.length (pre.length + 1)
      (pre ++ [Node.scope m (kidIds os (pre.length + 1)) p]) post (by simp) (sizeKids os) (Nat.le_refl _)
    rw [List.append_assoc, List.singleton_append] at this
    rw [this]
    rfl
theorem mapOpt_kidCells : ∀ (os : List Obj) (p : Nat) (b : Nat) (pre post : Heap), pre.length = b →
    ∀ f, sizeKids os ≤ f → mapOpt (absF f (pre ++ (kidCells os p b ++ post))) (kidIds os b) = some os
  | [], _, _, _, _, _, _, _ => by simp [kidIds, mapOpt]
  | o :: os, p, b, pre, post, hb, f, hf => by
    rw [sizeKids] at hf
    simp only [kidCells, kidIds, mapOpt, List.append_assoc]
    have h1 := absF_cells o (some p) b pre (kidCells os p (b + size o) ++ post) hb
    rw [absF_mono_le _ _ _ (size o) f (by omega) h1]
    have h2 := mapOpt_kidCells os p (b + size o) (pre ++ cells o (some p) b) post
      (by rw [List.length_append, cells_length, hb]) f (by omega)
    rw [List.append_assoc] at h2
    rw [h2]
end

/-- **abs ∘ build = id**: the object `build` allocates for `o` denotes `o`, in any heap, under any parent -/
theorem build_abs (o : Obj) (p : Option Nat) (h : Heap) : Abs (build o p h).1 (build o p h).2 o := by
  refine ⟨size o, ?_⟩
  have := absF_cells o p h.length h [] rfl
  simpa [build] using this

/-- building does not touch existing objects and allocates `size o` new ones -/
theorem build_frame (o : Obj) (p : Option Nat) (h : Heap) :
    (build o p h).1.length = h.length + size o ∧ ∀ i, i < h.length → (build o p h).1[i]? = h[i]? := by
  refine ⟨by simp [build, cells_length], fun i hi => ?_⟩
  simp only [build]
  exact List.getElem?_append_left hi

end Phil.Heap
