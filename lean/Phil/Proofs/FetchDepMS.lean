/-
  Phil.Proofs.FetchDepMS — `.deprecated` definitions inside the closed form of fetch for masters WITH
  `.multiple` scopes (`MSMaster` of Phil/Proofs/FetchTreeMS.lean): the class `MSMasterD` adds
  deprecated (non-multiple, non-choice) definitions at every level that is not inside a `.multiple`
  scope (inside a `.multiple` scope the class is the old one: the keys of the list rule are renderings
  of whole blocks, and a deprecated definition changes what a block renders to).
  The `dep` early exit of `definition.fetch_value`: a deprecated definition is dropped from the result
  unless its LAST source gives a value different from the default.
-/
import Phil.Proofs.FetchTreeMS
import Phil.Proofs.FetchChoice
set_option linter.unusedVariables false
namespace Phil

/-- a deprecated master definition: `.deprecated` truthy, not `.multiple`, not a choice -/
structure DepMeta (mm : Meta) : Prop where
  notMultiple : (mm.attrs.get "multiple").truthy = false
  deprecated : (mm.attrs.get "deprecated").truthy = true
  notChoice : ∀ b, mm.attrs.get "type" ≠ .conv (.choice b)

/-- what a deprecated definition leaves in the result: nothing without a source or when the last
    source re-states the default, else the definition with the words of the last source -/
def depBlock (mm : Meta) (mws : List Word) (srcs : List Obj) : List Obj :=
  finishC mm mws (match lastDef srcs mm.name with
                  | some d => valOfC (srcVal mm mws d)
                  | none => none)

mutual
def msBlockD (e : Envs) : Obj → List Obj → List Obj
  | .defn mm mws, srcs =>
    if (mm.attrs.get "deprecated").truthy then depBlock mm mws srcs else tmBlock e (.defn mm mws) srcs
  | .scope mm kids, srcs =>
    if (mm.attrs.get "multiple").truthy then msBlock e (.scope mm kids) srcs
    else [.scope { mm with tmpl := 0 } (msResultD e kids (srcStep srcs mm.name))]
/-- `msResult` with deprecated definitions outside `.multiple` scopes -/
def msResultD (e : Envs) : List Obj → List Obj → List Obj
  | [], _ => []
  | mo :: rest, srcs => msBlockD e mo srcs ++ msResultD e rest srcs
end

mutual
def MSObjD : Obj → Prop
  | .defn mm _ => (DefnMeta mm ∨ DepMeta mm) ∧ mm.name ≠ [] ∧ '.' ∉ mm.name ∧ mm.disabled = false
  | .scope mm kids =>
    if (mm.attrs.get "multiple").truthy then MSObj (.scope mm kids)
    else mm.name ≠ [] ∧ '.' ∉ mm.name ∧ mm.disabled = false ∧ MSKidsD kids ∧
      (kids.map Obj.name).Pairwise (· ≠ ·)
def MSKidsD : List Obj → Prop
  | [] => True
  | o :: os => MSObjD o ∧ MSKidsD os
end

/-- `MSMaster` plus deprecated definitions outside `.multiple` scopes -/
structure MSMasterD (mkids : List Obj) : Prop where
  kids : MSKidsD mkids
  distinct : (mkids.map Obj.name).Pairwise (· ≠ ·)

theorem msResultD_eq_flatMap (e : Envs) (srcs : List Obj) : ∀ (mkids : List Obj),
    msResultD e mkids srcs = mkids.flatMap (fun mo => msBlockD e mo srcs)
  | [] => by rw [msResultD]; rfl
  | mo :: rest => by rw [msResultD, msResultD_eq_flatMap e srcs rest]; rfl

theorem msKidsD_iff : ∀ (l : List Obj), MSKidsD l ↔ ∀ o ∈ l, MSObjD o
  | [] => by rw [MSKidsD]; simp
  | o :: os => by rw [MSKidsD, msKidsD_iff os]; simp

theorem MSMasterD.obj {mkids : List Obj} (h : MSMasterD mkids) : ∀ o ∈ mkids, MSObjD o :=
  (msKidsD_iff mkids).mp h.kids

theorem MSObjD.basic : ∀ {o : Obj}, MSObjD o → o.name ≠ [] ∧ '.' ∉ o.name ∧ o.meta.disabled = false
  | .defn mm _, h => by rw [MSObjD] at h; exact h.2
  | .scope mm kids, h => by
    rw [MSObjD] at h
    split at h
    · rw [MSObj] at h; exact ⟨h.1, h.2.1, h.2.2.1⟩
    · exact ⟨h.1, h.2.1, h.2.2.1⟩

theorem masterActive_msD (mkids : List Obj) (hf : MSMasterD mkids) :
    masterActiveObjects mkids = .ok (indexed mkids) := by
  have hsnd := indexed_map_snd mkids
  show masterActiveObjects.go (indexed mkids) [] [] = _
  rw [masterActive_go_all (indexed mkids) [] []]
  · simp
  · intro p hp
    have : p.2 ∈ mkids := by rw [← hsnd]; exact List.mem_map.mpr ⟨p, hp, rfl⟩
    exact (hf.obj _ this).basic.2.2
  · rw [map_snd_comp Obj.name, hsnd]; exact hf.distinct
  · intro p _ q hq; cases hq

/-- the specification of Phil/Proofs/FetchChoice.lean on a deprecated non-choice definition: the only
    error is "incompatible", exactly when an enabled source scope bears the name -/
theorem treeObjC_dep (mm : Meta) (mws : List Word) (srcs : List Obj) (hp : DepMeta mm) :
    treeObjC (.defn mm mws) srcs =
      if noClashObj (.defn mm mws) srcs then .ok (depBlock mm mws srcs) else .error incompatibleErr := by
  rw [treeObjC, noClashObj]
  have hdef : ∀ ms ∈ activeNamed mm.name srcs, ms.isDefn = true → errOf (srcVal mm mws ms) = none := by
    intro ms _ hd
    cases hv : srcVal mm mws ms with
    | ok v => rfl
    | error err =>
      rcases srcVal_error mm mws ms err hv with ⟨h1, _⟩ | ⟨_, b, hb, _⟩
      · rw [hd] at h1; cases h1
      · exact absurd hb (hp.notChoice b)
  cases hsc : scopesNamed mm.name srcs with
  | nil =>
    have hnone : firstErrC mm mws (activeNamed mm.name srcs) = none := by
      unfold firstErrC
      rw [List.findSome?_eq_none_iff]
      intro ms hms
      rw [activeNamed_eq_defsNamed _ _ hsc] at hms
      exact hdef ms (by rw [activeNamed_eq_defsNamed _ _ hsc]; exact hms) (mem_defsNamed.mp hms).2.1
    rw [hnone]
    simp only [List.isEmpty_nil, if_true, depBlock]
    cases lastDef srcs mm.name <;> rfl
  | cons sc rest =>
    have hmem : sc ∈ scopesNamed mm.name srcs := by rw [hsc]; exact List.mem_cons_self
    have hs := mem_scopesNamed.mp hmem
    cases hfe : firstErrC mm mws (activeNamed mm.name srcs) with
    | none =>
      exfalso
      have := scopesNamed_nil_of_firstErrC hfe
      rw [hsc] at this; cases this
    | some err =>
      have herr : err = incompatibleErr := by
        unfold firstErrC at hfe
        obtain ⟨ms, hms, hmse⟩ := List.exists_of_findSome?_eq_some hfe
        rcases srcVal_error mm mws ms err (eq_error_of_errOf hmse) with ⟨_, h2⟩ | ⟨_, b, hb, _⟩
        · exact h2
        · exact absurd hb (hp.notChoice b)
      subst herr
      simp

/-- the step of the master loop for a deprecated definition -/
theorem stepG_dep_ms (F : FetchFn) (e : Envs) (fuel : Nat) (sm : Meta)
    (mkids combined : List Obj) (st : List Obj × List Nat) (idx : Nat) (mm : Meta) (mws : List Word)
    (hp : DepMeta mm)
    (hmatch : fetchMatching fuel sm combined (.defn mm mws) = activeNamed mm.name combined)
    (hsrc : ∀ o ∈ combined, o.meta.disabled = false → o.isDefn = true → SrcOK o) :
    stepG F e fuel false sm mkids combined st (idx, .defn mm mws) =
      if noClashObj (.defn mm mws) combined then
        .ok (st.1 ++ depBlock mm mws combined, st.2 ++ treeUsedObj (.defn mm mws) combined)
      else .error incompatibleErr := by
  rw [stepG_defn_choice F e fuel sm mkids combined st idx mm mws hp.notMultiple hmatch hsrc,
    treeObjC_dep mm mws combined hp]
  cases noClashObj (.defn mm mws) combined <;> rfl

/-- the step for a non-multiple master scope, whatever the callee returns on the next level -/
theorem stepG_scope_gen_ms (F : FetchFn) (e : Envs) (fuel : Nat) (sm : Meta)
    (mkids combined : List Obj) (st : List Obj × List Nat) (idx : Nat) (mm : Meta) (kids : List Obj)
    (RES : List Obj) (hmult : (mm.attrs.get "multiple").truthy = false)
    (hmatch : fetchMatching fuel sm combined (.scope mm kids) = activeNamed mm.name combined)
    (hF : F false mm kids (srcStep combined mm.name) =
      if msNoClash kids (srcStep combined mm.name) then
        .ok (.scope { mm with tmpl := 0 } RES, msUsed kids (srcStep combined mm.name))
      else .error incompatibleErr) :
    stepG F e fuel false sm mkids combined st (idx, .scope mm kids) =
      if msNoClashObj (.scope mm kids) combined then
        .ok (st.1 ++ [.scope { mm with tmpl := 0 } RES], st.2 ++ msUsedObj (.scope mm kids) combined)
      else .error incompatibleErr := by
  have hm : isMultiple (.scope mm kids) = false := hmult
  have hstep : stepG F e fuel false sm mkids combined st (idx, .scope mm kids) =
      scopeBranch F false mm kids (activeNamed mm.name combined) st.1 st.2 := by
    unfold stepG
    simp only [hm, Bool.not_false, if_true]
    rw [hmatch]
  rw [hstep, msNoClashObj, msUsedObj]
  simp only [hmult, Bool.false_eq_true, if_false]
  unfold scopeBranch
  cases hdn : defsNamed mm.name combined with
  | nil =>
    rw [find_isDefn_activeNamed_none _ _ hdn, activeNamed_children_tree, hF]
    simp only [List.isEmpty_nil, Bool.true_and]
    cases msNoClash kids (srcStep combined mm.name) with
    | true => simp
    | false => simp
  | cons d rest =>
    obtain ⟨x, hx⟩ := find_isDefn_activeNamed_some mm.name combined (by rw [hdn]; exact List.cons_ne_nil _ _)
    rw [hx]
    simp only [List.isEmpty_cons, Bool.false_and, Bool.false_eq_true, if_false]
    rfl

/-- **closed form of fetch on masters with `.multiple` scopes and deprecated definitions** -/
theorem fetch_ms_dep_total (e : Envs) : ∀ (fuel : Nat) (sm : Meta) (mkids srcs : List Obj),
    MSMasterD mkids → depthL mkids < fuel → sm.disabled = false → SrcTree srcs →
    KeysDefinedMS e mkids srcs →
    fetchScope e fuel false sm mkids srcs =
      if msNoClash mkids srcs then
        .ok (.scope { sm with tmpl := 0 } (msResultD e mkids srcs), msUsed mkids srcs)
      else .error incompatibleErr := by
  intro fuel
  induction fuel with
  | zero => intro sm mkids srcs _ hd; exact absurd hd (Nat.not_lt_zero _)
  | succ fuel ih =>
    intro sm mkids srcs hf hdepth hsd hsrc hkeys
    rw [fetchScope_succ, masterActive_msD mkids hf]
    simp only
    have hsc : ∀ m kids, Obj.scope m kids ∈ srcs → m.disabled = false → m.name ≠ [] :=
      fun m kids hm hd => hsrc.named m kids (.here hm hd)
    have hok : ∀ o ∈ srcs, o.meta.disabled = false → o.isDefn = true → SrcOK o :=
      fun o ho hd hdef => hsrc.ok o (.here ho hd) hdef
    rw [foldlM_cond_tree _ (fun io => msNoClashObj io.2 srcs) (fun io => msBlockD e io.2 srcs)
      (fun io => msUsedObj io.2 srcs) incompatibleErr]
    · have hall : (indexed mkids).all (fun io => msNoClashObj io.2 srcs) = msNoClash mkids srcs := by
        rw [msNoClash_eq_all]
        conv => rhs; rw [← indexed_map_snd mkids]
        rw [List.all_map]
        rfl
      rw [hall]
      cases msNoClash mkids srcs with
      | false => rfl
      | true =>
        simp only [if_true, List.nil_append]
        unfold fetchFinish
        rw [flatMap_snd (fun mo => msBlockD e mo srcs),
          flatMap_snd (fun mo => msUsedObj mo srcs), indexed_map_snd,
          ← msResultD_eq_flatMap, ← msUsed_eq_flatMap]
    · intro st a ha
      have hmem : a.2 ∈ mkids := by rw [← indexed_map_snd mkids]; exact List.mem_map.mpr ⟨a, ha, rfl⟩
      have hto := hf.obj _ hmem
      have hko := hkeys.obj _ hmem
      have hb := hto.basic
      have hmatch := fetchMatching_tree fuel sm srcs a.2 hsd hb.1 hb.2.1 hsc
      obtain ⟨i, mo⟩ := a
      simp only at hmem hto hmatch hko hb ⊢
      cases mo with
      | defn mm mws =>
        rw [MSObjD] at hto
        rw [KeysDefinedMSObj] at hko
        rw [msNoClashObj, msBlockD, msUsedObj, ← noClashObj, ← treeUsedObj]
        rcases hto.1 with hp | hp
        · simp only [hp.notDeprecated, Bool.false_eq_true, if_false]
          cases hmult : isMultiple (.defn mm mws) with
          | false => exact stepG_plain_tm _ e fuel sm mkids srcs st i mm mws hp hmult hmatch hok
          | true =>
            exact stepG_multi_tm _ e fuel sm mkids srcs st i mm mws hp hmult
              (fromMasterOf_nil mkids hf.distinct i _ ha) hmatch hok (hko hmult)
        · simp only [hp.deprecated, if_true]
          exact stepG_dep_ms _ e fuel sm mkids srcs st i mm mws hp hmatch hok
      | scope mm kids =>
        have hd1 := depthT_le_depthL mkids _ hmem
        rw [depthT] at hd1
        rw [MSObjD] at hto
        rw [KeysDefinedMSObj] at hko
        cases hmult : (mm.attrs.get "multiple").truthy with
        | false =>
          simp only [hmult, Bool.false_eq_true, if_false] at hko hto
          rw [msBlockD]
          simp only [hmult, Bool.false_eq_true, if_false]
          exact stepG_scope_gen_ms _ e fuel sm mkids srcs st i mm kids _ hmult hmatch
            (ih mm kids (srcStep srcs mm.name) ⟨hto.2.2.2.1, hto.2.2.2.2⟩ (by omega) hto.2.2.1
              (hsrc.step mm.name) hko)
        | true =>
          simp only [hmult, if_true] at hko hto
          have hkids := MSMaster.of_scope hto
          rw [MSObj] at hto
          rw [msBlockD]
          simp only [hmult, if_true]
          have h0 := fetch_ms_total e fuel mm kids [] hkids (by omega) hto.2.2.1 SrcTree.nil_ms hko.1
          rw [msNoClash_nil_src] at h0
          simp only [if_true] at h0
          refine stepG_multiscope_ms _ e fuel sm mkids srcs st i mm kids hmult
            (fromMasterOf_nil mkids hf.distinct i _ ha) hmatch (by omega) h0 ?_ hko.2.1
            (fun s hs => (hko.2.2 s hs).2)
          intro s hs
          have hs' := mem_scopesNamed.mp hs
          exact fetch_ms_total e fuel mm kids s.children hkids (by omega) hto.2.2.1
            (hsrc.child_ms hs'.1 hs'.2.2.1) (hko.2.2 s hs).1

/-- every `MSMaster` is an `MSMasterD`, with the same specification -/
theorem fetchRoot_ms_dep (e : Envs) (master : List Obj) (ss : List (List Obj))
    (hf : MSMasterD master) (hd : depthL master ≤ 1000) (hsrc : SrcTree ss.flatten)
    (hkeys : KeysDefinedMS e master ss.flatten) :
    fetchRoot e false master ss =
      if msNoClash master ss.flatten then
        .ok (.scope { name := [], id := some 0 } (msResultD e master ss.flatten), msUsed master ss.flatten)
      else .error incompatibleErr :=
  fetch_ms_dep_total e _ _ master ss.flatten hf (fetchRoot_fuel_tree master hd) rfl hsrc hkeys

/-! ### the clauses of `depBlock` -/

theorem depBlock_no_source (mm : Meta) (mws : List Word) (srcs : List Obj) (hp : DepMeta mm)
    (h : lastDef srcs mm.name = none) : depBlock mm mws srcs = [] := by
  unfold depBlock; rw [h]; simp [finishC, hp.deprecated]

theorem depBlock_last (mm : Meta) (mws : List Word) (srcs : List Obj) (hp : DepMeta mm)
    (sm : Meta) (sws : List Word) (h : lastDef srcs mm.name = some (.defn sm sws)) :
    depBlock mm mws srcs =
      if (isPlainNone (Obj.defn sm sws).srcWords && isPlainNone mws) ||
         (isPlainAuto (Obj.defn sm sws).srcWords && isPlainAuto mws) ||
         (!isPlainNone (Obj.defn sm sws).srcWords && !isPlainAuto (Obj.defn sm sws).srcWords &&
           !isPlainNone mws && !isPlainAuto mws &&
           (Obj.defn sm sws).srcWords.map (fun (w : Word) => w.value) == mws.map (fun (w : Word) => w.value))
      then [] else [.defn { mm with tmpl := 0 } (Obj.defn sm sws).srcWords] := by
  unfold depBlock
  rw [h]
  simp only [srcVal, fetchValueW, hp.deprecated, Bool.true_and]
  split
  · simp [valOfC, finishC, hp.deprecated]
  · split
    · rename_i b hb; exact absurd hb (hp.notChoice b)
    · simp [valOfC, finishC]

/-! ### the old class is included, with the old specification -/

mutual
theorem msObj_toD : ∀ (o : Obj), MSObj o → MSObjD o
  | .defn mm mws, h => by rw [MSObj] at h; rw [MSObjD]; exact ⟨.inl h.1, h.2⟩
  | .scope mm kids, h => by
    rw [MSObjD]
    split
    · exact h
    · rw [MSObj] at h
      exact ⟨h.1, h.2.1, h.2.2.1, msKids_toD kids h.2.2.2.1, h.2.2.2.2⟩
theorem msKids_toD : ∀ (l : List Obj), MSKids l → MSKidsD l
  | [], _ => by rw [MSKidsD]; trivial
  | o :: os, h => by rw [MSKids] at h; rw [MSKidsD]; exact ⟨msObj_toD o h.1, msKids_toD os h.2⟩
end

theorem MSMaster.toD {mkids : List Obj} (h : MSMaster mkids) : MSMasterD mkids :=
  ⟨msKids_toD mkids h.kids, h.distinct⟩

mutual
theorem msBlockD_eq_ms (e : Envs) : ∀ (o : Obj) (srcs : List Obj), MSObj o → msBlockD e o srcs = msBlock e o srcs
  | .defn mm mws, srcs, h => by
    rw [MSObj] at h
    rw [msBlockD, msBlock]
    simp only [h.1.notDeprecated, Bool.false_eq_true, if_false]
  | .scope mm kids, srcs, h => by
    rw [MSObj] at h
    rw [msBlockD, msBlock]
    split
    · rfl
    · rw [msResultD_eq_ms e kids _ h.2.2.2.1]
theorem msResultD_eq_ms (e : Envs) : ∀ (l : List Obj) (srcs : List Obj), MSKids l → msResultD e l srcs = msResult e l srcs
  | [], srcs, _ => by rw [msResultD, msResult]
  | o :: os, srcs, h => by
    rw [MSKids] at h
    rw [msResultD, msResult, msBlockD_eq_ms e o srcs h.1, msResultD_eq_ms e os srcs h.2]
end

/-! ### executable class check -/

def depMetaB (mm : Meta) : Bool :=
  !(mm.attrs.get "multiple").truthy && (mm.attrs.get "deprecated").truthy &&
    (match mm.attrs.get "type" with
     | .conv (.choice _) => false
     | _ => true)

theorem depMetaB_sound (mm : Meta) (h : depMetaB mm = true) : DepMeta mm := by
  unfold depMetaB at h
  simp only [Bool.and_eq_true, Bool.not_eq_true'] at h
  refine ⟨h.1.1, h.1.2, ?_⟩
  intro b hb
  rw [hb] at h
  exact absurd h.2 (by simp)

mutual
def msObjDB : Obj → Bool
  | .defn mm _ => (defnMetaB_tm mm || depMetaB mm) && !mm.name.isEmpty && !mm.name.contains '.' && !mm.disabled
  | .scope mm kids =>
    if (mm.attrs.get "multiple").truthy then msObjB (.scope mm kids)
    else !mm.name.isEmpty && !mm.name.contains '.' && !mm.disabled &&
      msKidsDB kids && decide ((kids.map Obj.name).Pairwise (· ≠ ·))
def msKidsDB : List Obj → Bool
  | [] => true
  | o :: os => msObjDB o && msKidsDB os
end

mutual
theorem msObjDB_sound : ∀ (o : Obj), msObjDB o = true → MSObjD o
  | .defn mm mws, h => by
    rw [msObjDB] at h
    simp only [Bool.and_eq_true, Bool.or_eq_true, Bool.not_eq_true', List.contains_eq_mem,
      decide_eq_false_iff_not] at h
    rw [MSObjD]
    refine ⟨?_, str_ne_nil_of_isEmpty h.1.1.2, h.1.2, h.2⟩
    rcases h.1.1.1 with h1 | h1
    · exact .inl (defnMetaB_tm_sound mm h1)
    · exact .inr (depMetaB_sound mm h1)
  | .scope mm kids, h => by
    rw [msObjDB] at h
    rw [MSObjD]
    cases hm : (mm.attrs.get "multiple").truthy with
    | true =>
      rw [hm] at h
      simp only [if_true] at h ⊢
      exact msObjB_sound _ h
    | false =>
      rw [hm] at h
      simp only [Bool.false_eq_true, if_false, Bool.and_eq_true, Bool.not_eq_true', List.contains_eq_mem,
        decide_eq_false_iff_not, decide_eq_true_eq] at h ⊢
      exact ⟨str_ne_nil_of_isEmpty h.1.1.1.1, h.1.1.1.2, h.1.1.2, msKidsDB_sound kids h.1.2, h.2⟩
theorem msKidsDB_sound : ∀ (l : List Obj), msKidsDB l = true → MSKidsD l
  | [], _ => by rw [MSKidsD]; trivial
  | o :: os, h => by
    rw [msKidsDB, Bool.and_eq_true] at h
    rw [MSKidsD]
    exact ⟨msObjDB_sound o h.1, msKidsDB_sound os h.2⟩
end

/-- executable form of `MSMasterD` with the depth bound of `fetchRoot` -/
def msMasterDB (mkids : List Obj) : Bool :=
  msKidsDB mkids && decide ((mkids.map Obj.name).Pairwise (· ≠ ·)) && decide (depthL mkids ≤ 1000)

theorem msMasterDB_sound (mkids : List Obj) (h : msMasterDB mkids = true) :
    MSMasterD mkids ∧ depthL mkids ≤ 1000 := by
  unfold msMasterDB at h
  simp only [Bool.and_eq_true, decide_eq_true_eq] at h
  exact ⟨⟨msKidsDB_sound mkids h.1.1, h.1.2⟩, h.2⟩

end Phil
