/-
  Phil.Proofs.FetchVars2 — `$variables` inside the closed form of scope.fetch, continued
  (properties C12, C05, C06).  Lemmas carry the suffix `_pv`.

    A. parser lemmas: every output of `parseObjs` carries no recorded resolution (`Fresh`), names
       every scope (`ScopesNamed`) and numbers its definitions with present, pairwise distinct ids
       (second invariant of `collectObjects`, next to `CollectInv` of Phil/Proofs/ParseIds.lean);
    B. whole-fetch environment independence;
    C. `.multiple` definitions: the candidates are the denoted words;
    D. diff mode.
-/
import Phil.Proofs.FetchVars
import Phil.Proofs.ParseIds
import Phil.Proofs.FetchTreeMulti
set_option linter.unusedVariables false
set_option linter.unusedSimpArgs false
namespace Phil
open Phil.C12

/-! ## A. parser lemmas -/

mutual
/-- no resolution recorded anywhere in the tree, and every scope (enabled or not) has a name -/
def cleanObj : Obj → Bool
  | .defn m _ => m.varRes.isNone
  | .scope m kids => m.varRes.isNone && !m.name.isEmpty && cleanList kids
def cleanList : List Obj → Bool
  | [] => true
  | o :: r => cleanObj o && cleanList r
end

mutual
/-- the ids of ALL definitions of the tree (enabled or not), in document order -/
def didsObj : Obj → List (Option Nat)
  | .defn m _ => [m.id]
  | .scope _ kids => didsList kids
def didsList : List Obj → List (Option Nat)
  | [] => []
  | o :: r => didsObj o ++ didsList r
end

theorem cleanList_append_pv : ∀ (l r : List Obj), cleanList (l ++ r) = (cleanList l && cleanList r)
  | [], r => by simp [cleanList]
  | a :: l, r => by simp [cleanList, cleanList_append_pv l r, Bool.and_assoc]

theorem didsList_append_pv : ∀ (l r : List Obj), didsList (l ++ r) = didsList l ++ didsList r
  | [], r => by simp [didsList]
  | a :: l, r => by simp [didsList, didsList_append_pv l r, List.append_assoc]

theorem cleanList_mem_pv : ∀ (l : List Obj) (o : Obj), cleanList l = true → o ∈ l → cleanObj o = true
  | [], o, _, h => by cases h
  | a :: l, o, h, ho => by
    simp only [cleanList, Bool.and_eq_true] at h
    rw [List.mem_cons] at ho
    rcases ho with rfl | ho
    · exact h.1
    · exact cleanList_mem_pv l o h.2 ho

mutual
theorem dids_inRngObj_pv {lo hi : Nat} : ∀ (o : Obj), inRngObj lo hi o = true →
    ∀ x ∈ didsObj o, ∃ i, x = some i ∧ lo ≤ i ∧ i < hi
  | .defn m ws => by
    intro h x hx
    simp only [didsObj, List.mem_singleton] at hx
    simp only [inRngObj, idIn_iff_pid] at h
    obtain ⟨i, hi1, h2, h3⟩ := h
    exact ⟨i, by rw [hx, hi1], h2, h3⟩
  | .scope m kids => by
    intro h x hx
    simp only [inRngObj, Bool.and_eq_true] at h
    rw [didsObj] at hx
    exact dids_inRngList_pv kids h.2 x hx
theorem dids_inRngList_pv {lo hi : Nat} : ∀ (l : List Obj), inRngList lo hi l = true →
    ∀ x ∈ didsList l, ∃ i, x = some i ∧ lo ≤ i ∧ i < hi
  | [] => by intro _ x hx; rw [didsList] at hx; cases hx
  | o :: r => by
    intro h x hx
    simp only [inRngList, Bool.and_eq_true] at h
    rw [didsList, List.mem_append] at hx
    rcases hx with hx | hx
    · exact dids_inRngObj_pv o h.1 x hx
    · exact dids_inRngList_pv r h.2 x hx
end

/-! ### dotted names -/

theorem isSimpleIdent_ne_nil_pv {s : Str} (h : isSimpleIdent s = true) : s ≠ [] := by
  intro hs; subst hs; simp [isSimpleIdent] at h

theorem isStdIdent_ne_nil_pv {s : Str} (h : isStdIdent s = true) : s ≠ [] := by
  intro hs; subst hs; simp [isStdIdent] at h

theorem isStdIdent_parts_pv {s : Str} (h : isStdIdent s = true) :
    (splitOn '.' s).length ≤ 1 ∨ ∀ p ∈ splitOn '.' s, p ≠ [] := by
  cases s with
  | nil => simp [isStdIdent] at h
  | cons c cs =>
    simp only [isStdIdent, Bool.and_eq_true, Bool.or_eq_true, decide_eq_true_eq, List.all_eq_true] at h
    rcases h.2 with h2 | h2
    · exact .inl h2
    · exact .inr (fun p hp => isSimpleIdent_ne_nil_pv (h2 p hp))

theorem didsObj_withMeta_pv (f : Meta → Meta) (hf : ∀ m, (f m).id = m.id) :
    ∀ (o : Obj), didsObj (o.withMeta f) = didsObj o
  | .defn m ws => by simp [Obj.withMeta, didsObj, hf]
  | .scope m kids => by simp [Obj.withMeta, didsObj]

theorem cleanObj_withMeta_pv (f : Meta → Meta) (hv : ∀ m, (f m).varRes = m.varRes) :
    ∀ (o : Obj), cleanObj o = true → (o.isDefn = true ∨ (f o.meta).name ≠ []) →
      cleanObj (o.withMeta f) = true
  | .defn m ws => by intro h _; simpa [Obj.withMeta, cleanObj, hv] using h
  | .scope m kids => by
    intro h hn
    simp only [cleanObj, Bool.and_eq_true] at h
    rcases hn with hn | hn
    · cases hn
    · simp only [Obj.withMeta, cleanObj, hv, Bool.and_eq_true, h.1.1, h.2, true_and, and_true]
      simpa [Obj.meta] using hn

theorem build_dids_pv (o : Obj) : ∀ (ns : List Str) (acc : Obj),
    didsObj (wrapDotted.build o ns acc) = didsObj acc
  | [], acc => by rw [wrapDotted.build]
  | n :: more, acc => by
    rw [wrapDotted.build, build_dids_pv o more]
    simp [didsObj, didsList]

theorem build_clean_pv (o : Obj) : ∀ (ns : List Str) (acc : Obj), (∀ n ∈ ns, n ≠ []) →
    cleanObj acc = true → cleanObj (wrapDotted.build o ns acc) = true
  | [], acc, _, h => by rw [wrapDotted.build]; exact h
  | n :: more, acc, hns, h => by
    rw [wrapDotted.build]
    apply build_clean_pv o more _ (fun k hk => hns k (List.mem_cons_of_mem _ hk))
    have hn : n ≠ [] := hns n List.mem_cons_self
    simp only [cleanObj, cleanList, h, Bool.and_true, Bool.and_eq_true, Bool.not_eq_true',
      Option.isNone_none, true_and]
    cases n with
    | nil => exact absurd rfl hn
    | cons c cs => rfl

theorem wrapDotted_dids_pv (o : Obj) : didsObj (wrapDotted o) = didsObj o := by
  unfold wrapDotted
  dsimp only
  split
  · rfl
  · rfl
  · rename_i xs last initRev hne hrev
    rw [build_dids_pv]
    exact didsObj_withMeta_pv (fun m => { m with name := last, mergeNames := true }) (fun _ => rfl) o

theorem wrapDotted_clean_pv (o : Obj) (hc : cleanObj o = true) (hn : isStdIdent o.name = true) :
    cleanObj (wrapDotted o) = true := by
  unfold wrapDotted
  dsimp only
  split
  · exact hc
  · exact hc
  · rename_i xs last initRev hne hrev
    have hparts : ∀ p ∈ splitOn '.' o.name, p ≠ [] := by
      rcases isStdIdent_parts_pv hn with hl | hall
      · exfalso
        have : (splitOn '.' o.name).reverse.length ≤ 1 := by simpa using hl
        rw [hrev] at this
        cases initRev with
        | nil => exact hne rfl
        | cons a b => simp at this
      · exact hall
    have hmem : ∀ c ∈ last :: initRev, c ≠ [] := by
      intro c hc'
      apply hparts c
      rw [← List.mem_reverse, hrev]; exact hc'
    apply build_clean_pv o initRev _ (fun n hn' => hmem n (List.mem_cons_of_mem _ hn'))
    exact cleanObj_withMeta_pv (fun m => { m with name := last, mergeNames := true }) (fun _ => rfl) o hc
      (.inr (hmem last List.mem_cons_self))

/-! ### the second invariant of `collectObjects` -/

/-- accumulated objects clean, definition ids pairwise distinct; an active definition is clean and
    has a standard identifier as its name -/
def Extra (acc : List Obj) : Option Obj → Prop
  | none => cleanList acc = true ∧ (didsList acc).Nodup
  | some d => cleanList acc = true ∧ (didsList acc).Nodup ∧
      ∃ m ws, d = .defn m ws ∧ m.varRes = none ∧ isStdIdent m.name = true

theorem Extra.adopt_pv {lo j : Nat} {acc : List Obj} {o : Obj} (hr : inRngList lo j acc = true)
    (h : Extra acc none) (hc : cleanObj o = true) (hn : isStdIdent o.name = true)
    (hnd : (didsObj o).Nodup) (hge : ∀ x ∈ didsObj o, ∃ i, x = some i ∧ j ≤ i) :
    Extra (adopt acc o) none := by
  obtain ⟨h1, h2⟩ := h
  refine ⟨?_, ?_⟩
  · simp only [adopt, cleanList_append_pv, cleanList, h1, wrapDotted_clean_pv o hc hn, Bool.and_true]
  · simp only [adopt, didsList_append_pv, didsList, List.append_nil, wrapDotted_dids_pv]
    rw [List.nodup_append]
    refine ⟨h2, hnd, ?_⟩
    intro a ha b hb hab
    obtain ⟨i, hi, _, hlt⟩ := dids_inRngList_pv acc hr a ha
    obtain ⟨i', hi', hle⟩ := hge b hb
    rw [hab, hi'] at hi
    cases hi
    omega

theorem Extra.flush_pv {lo n : Nat} {acc : List Obj} {pending : Option Obj}
    (hi : CollectInv lo n acc pending) (h : Extra acc pending) : Extra (flush acc pending) none := by
  cases pending with
  | none => exact h
  | some d =>
    obtain ⟨m, ws, j, hd, hid, hn, hs, hlo, hsz⟩ := hi
    obtain ⟨h1, h2, m', ws', hd', hv, hname⟩ := h
    subst hd
    cases hd'
    refine Extra.adopt_pv (lo := lo) (j := j) hs.2.2 ⟨h1, h2⟩ ?_ hname ?_ ?_
    · simp [cleanObj, hv]
    · simp [didsObj]
    · intro x hx
      simp only [didsObj, List.mem_singleton] at hx
      exact ⟨j, by rw [hx, hid], Nat.le_refl j⟩

theorem Extra.scope_pv {lo n n' : Nat} {acc kids : List Obj} (m : Meta)
    (hi : CollectInv lo n acc none) (h : Extra acc none)
    (hk : CollectInv (n + 1) n' kids none) (hke : Extra kids none)
    (hv : m.varRes = none) (hname : isStdIdent m.name = true) :
    Extra (adopt acc (.scope m kids)) none := by
  refine Extra.adopt_pv (lo := lo) (j := n) hi.1.2.2 h ?_ hname ?_ ?_
  · have hne := isStdIdent_ne_nil_pv hname
    simp only [cleanObj, hv, hke.1, Option.isNone_none, Bool.and_true, Bool.true_and, Bool.not_eq_true']
    cases hm : m.name with
    | nil => exact absurd hm hne
    | cons c cs => rfl
  · rw [didsObj]; exact hke.2
  · intro x hx
    rw [didsObj] at hx
    obtain ⟨i, hi1, h2, _⟩ := dids_inRngList_pv kids hk.1.2.2 x hx
    exact ⟨i, hi1, by omega⟩

theorem not_not_bool_pv {b : Bool} (h : ¬ (!b) = true) : b = true := by
  cases b <;> simp at h ⊢

theorem collectObjects_extra_pv : ∀ (fuel : Nat) (st : PState) (stop : Option Word) (prev : Nat)
    (acc : List Obj) (pending : Option Obj) (objs : List Obj) (st' : PState) (lo : Nat),
    collectObjects fuel st stop prev acc pending = .ok (objs, st') → CollectInv lo st.nextId acc pending →
      Extra acc pending → Extra objs none := by
  intro fuel
  induction fuel with
  | zero => intro st stop prev acc pending objs st' lo h; simp [collectObjects] at h
  | succ fuel ih =>
    intro st stop prev acc pending objs st' lo h hinv hex
    simp only [collectObjects] at h
    split at h
    · cases h
    · split at h
      · cases h; exact hex.flush_pv hinv
      · cases h
    · rename_i lead ci1 h1
      split at h
      · split at h
        · cases h
        · rename_i w ci2 h2
          split at h
          · split at h
            · cases h; exact hex.flush_pv hinv
            · cases h
          · split at h
            · exact ih { st with ci := ci2 } _ _ _ _ _ _ lo h hinv hex
            · split at h
              · cases h
              · split at h
                · split at h
                  · cases h; exact hex.flush_pv hinv
                  · cases h
                · exact ih _ _ _ _ _ _ _ lo h hinv hex
      · split at h
        · cases h; exact hex.flush_pv hinv
        · split at h
          · cases h
          · split at h
            · cases h
            · rename_i w ci2 h2
              split at h
              · split at h
                · cases h
                · rename_i hstd
                  split at h
                  · cases h
                  · split at h
                    · cases h
                    · rename_i attrs brace ci3 h3
                      split at h
                      · cases h
                      · rename_i children st1 h4
                        obtain ⟨hk, hle⟩ := collectObjects_inv_pid fuel { ci := ci3, nextId := st.nextId + 1 }
                          (some brace) 0 [] none children st1 (st.nextId + 1) h4 (CollectInv.nil_pid _)
                        have hke := ih { ci := ci3, nextId := st.nextId + 1 } (some brace) 0 [] none
                          children st1 (st.nextId + 1) h4 (CollectInv.nil_pid _)
                          (by simp [Extra, cleanList, didsList])
                        exact ih st1 _ _ _ _ _ _ lo h
                          (CollectInv.scope_pid _ hinv.flush_pid hk rfl)
                          (Extra.scope_pv _ hinv.flush_pid (hex.flush_pv hinv) hk hke rfl
                            (not_not_bool_pv hstd))
              · split at h
                · split at h
                  · cases h
                  · rename_i hstd
                    split at h
                    · cases h
                    · rename_i ci3 h3
                      split at h
                      · cases h
                      · rename_i ws ci4 h4
                        split at h
                        · cases h
                        · have hf := hinv.flush_pid
                          exact ih { ci := ci4, nextId := st.nextId + 1 } _ _ _ _ _ _ lo h
                            ⟨_, ws, st.nextId, rfl, rfl, rfl, hf.1, hf.2.1, hf.2.2⟩
                            ⟨(hex.flush_pv hinv).1, (hex.flush_pv hinv).2, _, ws, rfl, rfl,
                              not_not_bool_pv hstd⟩
                · split at h
                  · cases h
                  · rename_i d
                    split at h
                    · cases h
                    · split at h
                      · cases h
                      · rename_i eq ci3 h3
                        split at h
                        · cases h
                        · split at h
                          · cases h
                          · rename_i ws ci4 h4
                            split at h
                            · exact ih { st with ci := ci4 } _ _ _ _ _ _ lo h hinv hex
                            · split at h
                              · cases h
                              · rename_i v hv
                                obtain ⟨m, ws', j, hd, hid, hn, hs, hlo, hsz⟩ := hinv
                                obtain ⟨e1, e2, m', ws'', hd', hvr, hname⟩ := hex
                                subst hd
                                cases hd'
                                exact ih { st with ci := ci4 } _ _ _ _ _ _ lo h
                                  ⟨_, ws', j, rfl, hid, hn, hs, hlo, hsz⟩
                                  ⟨e1, e2, _, ws', rfl, hvr, hname⟩

/-- **second parser invariant**: a parsed document carries no recorded resolution, names every
    scope, and numbers its definitions with present, pairwise distinct ids -/
theorem parseObjs_extra_pv (text : Str) (root : List Obj) (h : parseObjs text = .ok root) :
    cleanList root = true ∧ (didsList root).Nodup ∧ ∀ x ∈ didsList root, x ≠ none := by
  obtain ⟨n, hinv⟩ := parseObjs_inv_pid text root h
  unfold parseObjs at h
  split at h
  · cases h
  · rename_i objs st' hc
    cases h
    have := collectObjects_extra_pv _ _ _ _ _ _ _ _ 1 hc (CollectInv.nil_pid 1)
      (by simp [Extra, cleanList, didsList])
    refine ⟨this.1, this.2, ?_⟩
    intro x hx
    obtain ⟨i, hi, _, _⟩ := dids_inRngList_pv _ hinv.1.2.2 x hx
    rw [hi]; simp

/-! ### consequences in the vocabulary of the fetch theorems -/

theorem clean_activeIn_pv {x : Obj} {l : List Obj} (h : ActiveIn x l) :
    cleanList l = true → cleanObj x = true := by
  induction h with
  | here hm _ => intro hc; exact cleanList_mem_pv _ _ hc hm
  | deeper hm _ _ ih =>
    intro hc
    have := cleanList_mem_pv _ _ hc hm
    simp only [cleanObj, Bool.and_eq_true] at this
    exact ih this.2

theorem fresh_of_clean_pv (l : List Obj) (h : cleanList l = true) : Fresh l := by
  intro x hx
  have := clean_activeIn_pv hx h
  cases x with
  | defn m ws =>
    show m.varRes = none
    simpa [cleanObj] using this
  | scope m kids =>
    show m.varRes = none
    simp only [cleanObj, Bool.and_eq_true] at this
    simpa using this.1.1

theorem scopesNamed_of_clean_pv (l : List Obj) (h : cleanList l = true) : ScopesNamed l := by
  intro m kids hx
  have := clean_activeIn_pv hx h
  simp only [cleanObj, Bool.and_eq_true, Bool.not_eq_true'] at this
  intro hn
  rw [hn] at this
  simp at this

/-- **every parsed document is `Fresh`** -/
theorem parse_fresh_pv (text : Str) (root : List Obj) (h : parseObjs text = .ok root) : Fresh root :=
  fresh_of_clean_pv root (parseObjs_extra_pv text root h).1

/-- **every parsed document names its scopes** -/
theorem parse_scopesNamed_pv (text : Str) (root : List Obj) (h : parseObjs text = .ok root) :
    ScopesNamed root :=
  scopesNamed_of_clean_pv root (parseObjs_extra_pv text root h).1

theorem scopesNamed_flatten_pv (docs : List (List Obj)) (h : ∀ d ∈ docs, ScopesNamed d) :
    ScopesNamed docs.flatten := by
  intro m kids hx
  obtain ⟨l, hl, hxl⟩ := activeIn_flatten_fv hx
  exact h l hl m kids hxl

/-- the documents of a successful `mapM parseObjs` are parser outputs -/
theorem mapM_parse_mem_pv : ∀ (ts : List Str) (ds : List (List Obj)), ts.mapM parseObjs = .ok ds →
    ∀ d ∈ ds, ∃ t, parseObjs t = .ok d := by
  intro ts
  induction ts with
  | nil => intro ds h d hd; rw [mapM_nil_vs] at h; cases h; cases hd
  | cons t ts ih =>
    intro ds h d hd
    rw [mapM_cons_vs] at h
    cases ht : parseObjs t with
    | error e => rw [ht] at h; cases h
    | ok d0 =>
      rw [ht] at h
      simp only at h
      cases hts : ts.mapM parseObjs with
      | error e => rw [hts] at h; cases h
      | ok ds0 =>
        rw [hts] at h
        cases h
        rw [List.mem_cons] at hd
        rcases hd with rfl | hd
        · exact ⟨t, ht⟩
        · exact ih ds0 hts d hd

/-! ### ids of `all_definitions` -/

mutual
theorem allDefsObj_ids_sublist_pv : ∀ (o : Obj) (p : Str),
    ((allDefsObj o p).map (fun x => x.2.1.id)).Sublist (didsObj o)
  | .defn m ws, p => by
    rw [allDefsObj, didsObj]
    split
    · exact List.nil_sublist _
    · exact List.Sublist.refl _
  | .scope m kids, p => by
    rw [allDefsObj, didsObj]
    exact allDefsList_ids_sublist_pv kids _
theorem allDefsList_ids_sublist_pv : ∀ (l : List Obj) (p : Str),
    ((allDefsObj.allDefsList l p).map (fun x => x.2.1.id)).Sublist (didsList l)
  | [], p => by rw [allDefsObj.allDefsList, didsList]; exact List.Sublist.refl _
  | o :: r, p => by
    rw [allDefsObj.allDefsList, didsList, List.map_append]
    apply List.Sublist.append _ (allDefsList_ids_sublist_pv r p)
    split
    · exact List.nil_sublist _
    · exact allDefsObj_ids_sublist_pv o p
end

mutual
theorem didsObj_annObj_pv (env : Env) (diff : Bool) (root : List Obj) : ∀ (o : Obj) (pos : List Nat),
    didsObj (annObj env diff root pos o) = didsObj o
  | .defn m ws, pos => by
    rcases annObj_defn_cases env diff root pos m ws with h | ⟨_, n, _, h⟩ <;> rw [h] <;> rfl
  | .scope m kids, pos => by
    rw [annObj_scope, didsObj, didsObj, didsList_annList_pv env diff root kids pos 0]
theorem didsList_annList_pv (env : Env) (diff : Bool) (root : List Obj) : ∀ (l : List Obj) (pfx : List Nat)
    (k : Nat), didsList (annList env diff root pfx k l) = didsList l
  | [], pfx, k => by rw [annList]
  | o :: r, pfx, k => by
    rw [annList, didsList, didsList, didsObj_annObj_pv env diff root o, didsList_annList_pv env diff root r]
end

/-- the ids of the entries of `all_definitions` of a parsed, denoted document are present and
    pairwise distinct -/
theorem parse_allDefinitions_ids_pv (env : Env) (diff : Bool) (text : Str) (root : List Obj)
    (h : parseObjs text = .ok root) :
    (∀ x ∈ allDefinitions (denoteDoc env diff root), x.2.1.id ≠ none) ∧
      ((allDefinitions (denoteDoc env diff root)).map (fun x => x.2.1.id)).Nodup := by
  obtain ⟨_, hnd, hsome⟩ := parseObjs_extra_pv text root h
  have hsub := allDefsList_ids_sublist_pv (denoteDoc env diff root) []
  unfold denoteDoc at hsub
  rw [didsList_annList_pv] at hsub
  refine ⟨?_, List.Nodup.sublist hsub hnd⟩
  intro x hx
  exact hsome _ (hsub.subset (List.mem_map.mpr ⟨x, hx, rfl⟩))

/-! ## B. whole-fetch environment independence -/

mutual
/-- `b` is `a` up to the recorded resolutions of definitions, and IDENTICAL to `a` wherever `a`
    carries no resolution error -/
def envRelObj : Obj → Obj → Prop
  | .defn m1 w1, .defn m2 w2 => m1.name = m2.name ∧ m1.disabled = m2.disabled ∧
      (srcErrOf (.defn m1 w1) = none → Obj.defn m2 w2 = .defn m1 w1)
  | .scope m1 k1, .scope m2 k2 => m1 = m2 ∧ envRelList k1 k2
  | .defn _ _, .scope _ _ => False
  | .scope _ _, .defn _ _ => False
def envRelList : List Obj → List Obj → Prop
  | [], [] => True
  | a :: l, b :: r => envRelObj a b ∧ envRelList l r
  | [], _ :: _ => False
  | _ :: _, [] => False
end

theorem envRelObj_attrs_pv : ∀ (a b : Obj), envRelObj a b →
    a.isDefn = b.isDefn ∧ a.meta.disabled = b.meta.disabled ∧ a.name = b.name
  | .defn m1 w1, .defn m2 w2, h => by rw [envRelObj] at h; exact ⟨rfl, h.2.1, h.1⟩
  | .scope m1 k1, .scope m2 k2, h => by rw [envRelObj] at h; obtain ⟨rfl, _⟩ := h; exact ⟨rfl, rfl, rfl⟩
  | .defn _ _, .scope _ _, h => by rw [envRelObj] at h; exact h.elim
  | .scope _ _, .defn _ _, h => by rw [envRelObj] at h; exact h.elim

theorem envRelList_nil_left_pv : ∀ (r : List Obj), envRelList [] r → r = []
  | [], _ => rfl
  | _ :: _, h => by rw [envRelList] at h; exact h.elim

theorem envRelList_filter_pv (p : Obj → Bool) (hp : ∀ a b, envRelObj a b → p a = p b) :
    ∀ (l r : List Obj), envRelList l r → envRelList (l.filter p) (r.filter p)
  | [], [], _ => by simp [envRelList]
  | [], _ :: _, h => by rw [envRelList] at h; exact h.elim
  | _ :: _, [], h => by rw [envRelList] at h; exact h.elim
  | a :: l, b :: r, h => by
    rw [envRelList] at h
    have ih := envRelList_filter_pv p hp l r h.2
    rw [List.filter_cons, List.filter_cons, ← hp a b h.1]
    cases p a with
    | true => simp only [if_true]; rw [envRelList]; exact ⟨h.1, ih⟩
    | false => simpa using ih

theorem envRelList_append_pv : ∀ (l1 r1 l2 r2 : List Obj), envRelList l1 r1 → envRelList l2 r2 →
    envRelList (l1 ++ l2) (r1 ++ r2)
  | [], [], l2, r2, _, h2 => by simpa using h2
  | [], _ :: _, _, _, h, _ => by rw [envRelList] at h; exact h.elim
  | _ :: _, [], _, _, h, _ => by rw [envRelList] at h; exact h.elim
  | a :: l, b :: r, l2, r2, h, h2 => by
    rw [envRelList] at h
    rw [List.cons_append, List.cons_append, envRelList]
    exact ⟨h.1, envRelList_append_pv l r l2 r2 h.2 h2⟩

theorem envRelObj_children_pv : ∀ (a b : Obj), envRelObj a b → envRelList a.children b.children
  | .defn m1 w1, .defn m2 w2, _ => by simp [Obj.children, envRelList]
  | .scope m1 k1, .scope m2 k2, h => by rw [envRelObj] at h; exact h.2
  | .defn _ _, .scope _ _, h => by rw [envRelObj] at h; exact h.elim
  | .scope _ _, .defn _ _, h => by rw [envRelObj] at h; exact h.elim

theorem envRelList_flatMap_children_pv : ∀ (l r : List Obj), envRelList l r →
    envRelList (l.flatMap Obj.children) (r.flatMap Obj.children)
  | [], [], _ => by simp [envRelList]
  | [], _ :: _, h => by rw [envRelList] at h; exact h.elim
  | _ :: _, [], h => by rw [envRelList] at h; exact h.elim
  | a :: l, b :: r, h => by
    rw [envRelList] at h
    rw [List.flatMap_cons, List.flatMap_cons]
    exact envRelList_append_pv _ _ _ _ (envRelObj_children_pv a b h.1) (envRelList_flatMap_children_pv l r h.2)

theorem envRelList_activeNamed_pv (n : Str) (l r : List Obj) (h : envRelList l r) :
    envRelList (activeNamed n l) (activeNamed n r) := by
  unfold activeNamed
  apply envRelList_filter_pv _ _ l r h
  intro a b hab
  obtain ⟨_, h2, h3⟩ := envRelObj_attrs_pv a b hab
  rw [h2, h3]

theorem envRelList_defsNamed_pv (n : Str) (l r : List Obj) (h : envRelList l r) :
    envRelList (defsNamed n l) (defsNamed n r) := by
  unfold defsNamed
  apply envRelList_filter_pv _ _ l r h
  intro a b hab
  obtain ⟨h1, h2, h3⟩ := envRelObj_attrs_pv a b hab
  rw [h1, h2, h3]

theorem envRelList_srcStep_pv (n : Str) (l r : List Obj) (h : envRelList l r) :
    envRelList (srcStep l n) (srcStep r n) := by
  unfold srcStep scopesNamed
  apply envRelList_flatMap_children_pv
  apply envRelList_filter_pv _ _ l r h
  intro a b hab
  obtain ⟨h1, h2, h3⟩ := envRelObj_attrs_pv a b hab
  unfold Obj.isScope
  rw [h1, h2, h3]

/-- related lists are equal where the first carries no error -/
theorem envRelList_eq_pv : ∀ (l r : List Obj), envRelList l r → (∀ o ∈ l, srcErrOf o = none) → r = l
  | [], r, h, _ => envRelList_nil_left_pv r h
  | _ :: _, [], h, _ => by rw [envRelList] at h; exact h.elim
  | a :: l, b :: r, h, hall => by
    rw [envRelList] at h
    have ht := envRelList_eq_pv l r h.2 (fun o ho => hall o (List.mem_cons_of_mem _ ho))
    have ha := hall a List.mem_cons_self
    cases a with
    | scope m k => simp [srcErrOf] at ha
    | defn m1 w1 =>
      cases b with
      | scope m k => have := h.1; rw [envRelObj] at this; exact this.elim
      | defn m2 w2 =>
        have h1 := h.1
        rw [envRelObj] at h1
        rw [h1.2.2 ha, ht]

mutual
theorem envRel_treeObj_pv : ∀ (mo : Obj) (s1 s2 : List Obj), firstErrObj mo s1 = none → envRelList s1 s2 →
    firstErrObj mo s2 = none ∧ treeObj mo s2 = treeObj mo s1 ∧ treeUsedObj mo s2 = treeUsedObj mo s1
  | .defn mm mws, s1, s2, h1, hr => by
    rw [firstErrObj] at h1
    have hnone : ∀ o ∈ activeNamed mm.name s1, srcErrOf o = none := by
      rw [List.findSome?_eq_none_iff] at h1; exact h1
    have ha := envRelList_eq_pv _ _ (envRelList_activeNamed_pv mm.name s1 s2 hr) hnone
    have hd := envRelList_eq_pv _ _ (envRelList_defsNamed_pv mm.name s1 s2 hr) (fun o ho => by
      have := mem_defsNamed.mp ho
      exact hnone o (mem_activeNamed.mpr ⟨this.1, this.2.2.1, this.2.2.2⟩))
    refine ⟨by rw [firstErrObj, ha]; exact h1, ?_, ?_⟩
    · rw [treeObj, treeObj]; unfold lastDef; rw [hd]
    · rw [treeUsedObj, treeUsedObj, hd]
  | .scope mm kids, s1, s2, h1, hr => by
    rw [firstErrObj] at h1
    split at h1
    · rename_i hemp
      have hd : defsNamed mm.name s2 = [] := by
        have hr' := envRelList_defsNamed_pv mm.name s1 s2 hr
        have : defsNamed mm.name s1 = [] := by simpa using hemp
        rw [this] at hr'
        exact envRelList_nil_left_pv _ hr'
      obtain ⟨r1, r2, r3⟩ := envRel_tree_pv kids (srcStep s1 mm.name) (srcStep s2 mm.name) h1
        (envRelList_srcStep_pv mm.name s1 s2 hr)
      refine ⟨by rw [firstErrObj, hd]; simpa using r1, ?_, ?_⟩
      · rw [treeObj, treeObj, r2]
      · rw [treeUsedObj, treeUsedObj, r3]
    · cases h1
theorem envRel_tree_pv : ∀ (mkids : List Obj) (s1 s2 : List Obj), firstErr mkids s1 = none → envRelList s1 s2 →
    firstErr mkids s2 = none ∧ treeResult mkids s2 = treeResult mkids s1 ∧ treeUsed mkids s2 = treeUsed mkids s1
  | [], s1, s2, _, _ => by simp [firstErr, treeResult, treeUsed]
  | mo :: rest, s1, s2, h1, hr => by
    rw [firstErr] at h1
    cases ho : firstErrObj mo s1 with
    | some e => rw [ho] at h1; cases h1
    | none =>
      rw [ho] at h1
      obtain ⟨a1, a2, a3⟩ := envRel_treeObj_pv mo s1 s2 ho hr
      obtain ⟨b1, b2, b3⟩ := envRel_tree_pv rest s1 s2 h1 hr
      refine ⟨by rw [firstErr, a1]; exact b1, ?_, ?_⟩
      · rw [treeResult, treeResult, a2, b2]
      · rw [treeUsed, treeUsed, a3, b3]
end

/-- **congruence of the closed form**: a successful `treeFetch` is not changed by replacing the sources
    by related ones -/
theorem treeFetch_envRel_pv (sm : Meta) (mkids s1 s2 : List Obj) (hr : envRelList s1 s2) (r : Obj × List Nat)
    (h : treeFetch sm mkids s1 = .ok r) : treeFetch sm mkids s2 = .ok r := by
  unfold treeFetch at h ⊢
  cases hfe : firstErr mkids s1 with
  | some e => rw [hfe] at h; cases h
  | none =>
    rw [hfe] at h
    obtain ⟨a1, a2, a3⟩ := envRel_tree_pv mkids s1 s2 hfe hr
    rw [a1, a2, a3]
    exact h

/-- the empty environment -/
def emptyEnv : Env := fun _ => none

theorem srcErrOf_varResOf_pv (m : Meta) (ws : List Word) (r : R (List Word)) (refs : List Nat)
    (h : srcErrOf (.defn { m with varRes := some (varResOf r refs) } ws) = none) : ∃ rws, r = .ok rws := by
  cases r with
  | ok rws => exact ⟨rws, rfl⟩
  | error e => cases e <;> simp [srcErrOf, srcWordsR, varResOf] at h

mutual
theorem envRel_annObj_pv (env : Env) (root : List Obj) (hd : DocIds root) : ∀ (o : Obj) (pos : List Nat),
    envRelObj (annObj emptyEnv false root pos o) (annObj env false root pos o)
  | .defn m ws, pos => by
    by_cases hl : hasLiveDollar ws = true
    · cases hid : m.id with
      | none =>
        have h0 : ∀ env', annObj env' false root pos (.defn m ws) = .defn m ws := by
          intro env'; rw [annObj]; simp [hl, hid]
        rw [h0, h0, envRelObj]
        exact ⟨rfl, rfl, fun _ => rfl⟩
      | some n =>
        have h0 : ∀ env', annObj env' false root pos (.defn m ws) =
            .defn { m with varRes := some (varResOf (denote env' root pos false) (refsAt root pos)) } ws := by
          intro env'; rw [annObj]; simp [hl, hid]
        rw [h0, h0, envRelObj]
        refine ⟨rfl, rfl, ?_⟩
        intro hnone
        obtain ⟨rws, hr⟩ := srcErrOf_varResOf_pv m ws _ _ hnone
        rw [env_closed_vs env root hd pos false rws hr, hr]
    · have h0 : ∀ env', annObj env' false root pos (.defn m ws) = .defn m ws := by
        intro env'; rw [annObj]; simp [hl]
      rw [h0, h0, envRelObj]
      exact ⟨rfl, rfl, fun _ => rfl⟩
  | .scope m kids, pos => by
    rw [annObj_scope, annObj_scope, envRelObj]
    exact ⟨rfl, envRel_annList_pv env root hd kids pos 0⟩
theorem envRel_annList_pv (env : Env) (root : List Obj) (hd : DocIds root) : ∀ (l : List Obj) (pfx : List Nat)
    (k : Nat), envRelList (annList emptyEnv false root pfx k l) (annList env false root pfx k l)
  | [], pfx, k => by rw [annList, annList, envRelList]; trivial
  | o :: r, pfx, k => by
    rw [annList, annList, envRelList]
    exact ⟨envRel_annObj_pv env root hd o _, envRel_annList_pv env root hd r pfx (k + 1)⟩
end

theorem envRel_docs_pv (env : Env) : ∀ (docs : List (List Obj)), (∀ d ∈ docs, DocIds d) →
    envRelList (docs.map (denoteDoc emptyEnv false)).flatten (docs.map (denoteDoc env false)).flatten
  | [], _ => by simp [envRelList]
  | d :: ds, h => by
    rw [List.map_cons, List.map_cons, List.flatten_cons, List.flatten_cons]
    exact envRelList_append_pv _ _ _ _ (envRel_annList_pv env d (h d List.mem_cons_self) d [] 0)
      (envRel_docs_pv env ds (fun x hx => h x (List.mem_cons_of_mem _ hx)))

/-- **whole-fetch environment independence**: a fetch that succeeds on documents pre-resolved with the
    EMPTY environment (every consumed definition resolves inside its own document) gives the same
    result — tree and consumed ids — under every environment -/
theorem fetchRoot_env_independent_pv (e : Envs) (env : Env) (master : List Obj) (docs : List (List Obj))
    (hf : TreeMaster master) (hd : depthL master ≤ 1000) (hdocs : ∀ d ∈ docs, DocIds d)
    (hnamed : ScopesNamed docs.flatten) (r : Obj × List Nat)
    (h : fetchRoot e false master (docs.map (preResolve emptyEnv false)) = .ok r) :
    fetchRoot e false master (docs.map (preResolve env false)) = .ok r := by
  rw [fetchRoot_preResolved e _ master docs hf hd hdocs hnamed] at h ⊢
  exact treeFetch_envRel_pv _ master _ _ (envRel_docs_pv env docs hdocs) r h

/-! ## C. `.multiple` definitions: the candidates are the denoted words -/

/-- **the specification of `fetch` on a nested master whose definitions may be `.multiple`**: the first
    error in master order, else `treeMultiResult` with the consumed ids -/
def treeMultiFetch (e : Envs) (sm : Meta) (mkids srcs : List Obj) : R (Obj × List Nat) :=
  match firstErr mkids srcs with
  | some E => .error E
  | none => .ok (.scope { sm with tmpl := 0 } (treeMultiResult e mkids srcs), treeUsed mkids srcs)

theorem foldlM_first_error_pv {α β : Type} (f : β → α → R β) (c : α → Option Err) :
    ∀ (l : List α),
      (∀ a ∈ l, ∀ b, (c a = none → ∃ b', f b a = .ok b') ∧ (∀ E, c a = some E → f b a = .error E)) →
      ∀ E, l.findSome? c = some E → ∀ init, l.foldlM f init = .error E := by
  intro l
  induction l with
  | nil => intro _ E h; simp at h
  | cons a l ih =>
    intro hstep E hE init
    rw [List.foldlM_cons]
    rw [List.findSome?_cons] at hE
    cases hc : c a with
    | some E' =>
      rw [hc] at hE
      cases hE
      rw [(hstep a List.mem_cons_self init).2 E hc]
      rfl
    | none =>
      rw [hc] at hE
      obtain ⟨b', hb⟩ := (hstep a List.mem_cons_self init).1 hc
      rw [hb]
      exact ih (fun a' ha' => hstep a' (List.mem_cons_of_mem _ ha')) E hE b'

theorem srcOK_of_srcErrOf_none_pv (dm : Meta) (dws : List Word) (h : srcErrOf (.defn dm dws) = none) :
    SrcOK (.defn dm dws) := by
  simp only [srcErrOf, srcWordsR] at h
  unfold SrcOK
  simp only [Obj.meta, Obj.words]
  cases hv : dm.varRes with
  | none =>
    rw [hv] at h
    simp only at h
    right
    refine ⟨rfl, ?_⟩
    cases hd : hasDollar dws with
    | false => rfl
    | true => rw [hd] at h; simp at h
  | some r =>
    cases r with
    | ok rws refs => exact .inl ⟨rws, refs, rfl⟩
    | err site line => rw [hv] at h; simp at h

theorem cstepG_defn_err_pv (F : FetchFn) (e : Envs) (fuel : Nat) (mm : Meta) (mws : List Word)
    (k0 : Str) (dm : Meta) (dws : List Word) (err : Err) (h : srcWordsR dm dws = .error err) (acc : CAcc) :
    cstepG F e fuel false (.defn mm mws) k0 acc (false, .defn dm dws) = .error err := by
  unfold cstepG
  simp only [candOf_defn_nodiff, fetchValue_defn, h]
  rfl

/-- the step of the master loop for a `.multiple` master definition, ANY annotated sources at this
    level: the first error among the enabled source objects of its name (a recorded resolution error,
    or the clash of kinds), else the list rule over the (resolved) words of the source definitions -/
theorem stepG_multi_vars_pv (F : FetchFn) (e : Envs) (fuel : Nat) (sm : Meta)
    (mkids combined : List Obj) (st : List Obj × List Nat) (idx : Nat) (mm : Meta) (mws : List Word)
    (hp : DefnMeta mm) (hmult : isMultiple (.defn mm mws) = true)
    (hfm : fromMasterOf mkids idx (.defn mm mws) = [])
    (hmatch : fetchMatching fuel sm combined (.defn mm mws) = activeNamed mm.name combined)
    (hkeys : KeysDefined e 0 (.defn mm mws) (defsNamed mm.name combined)) :
    stepG F e fuel false sm mkids combined st (idx, .defn mm mws) =
      match firstErrObj (.defn mm mws) combined with
      | some err => .error err
      | none =>
        .ok (st.1 ++ tmBlock e (.defn mm mws) combined, st.2 ++ treeUsedObj (.defn mm mws) combined) := by
  obtain ⟨⟨k0, hk0⟩, hcand⟩ := keysDefined_fuel_tm e fuel mm mws _ hkeys
  rw [firstErrObj, tmBlock, treeUsedObj]
  simp only [hmult, if_true]
  cases hfs : (activeNamed mm.name combined).findSome? srcErrOf with
  | none =>
    simp only
    have hall := findSome_srcErrOf_none hfs
    have hnone : ∀ o ∈ activeNamed mm.name combined, srcErrOf o = none := by
      rw [List.findSome?_eq_none_iff] at hfs; exact hfs
    have hsc : scopesNamed mm.name combined = [] := by
      rw [List.eq_nil_iff_forall_not_mem]
      intro x hx
      have hx' := mem_scopesNamed.mp hx
      have := hall x (mem_activeNamed.mpr ⟨hx'.1, hx'.2.2.1, hx'.2.2.2⟩)
      rw [hx'.2.1] at this
      cases this
    have hm : fetchMatching fuel sm combined (.defn mm mws) = defsNamed mm.name combined := by
      rw [hmatch, activeNamed_eq_defsNamed _ _ hsc]
    have hl : Forall2 (CandLink e fuel (.defn mm mws)) (fetchMatching fuel sm combined (.defn mm mws))
        (candsOf e fuel (.defn mm mws) (defsNamed mm.name combined)) := by
      rw [hm]
      apply forall2_map
      intro d hd
      have hd' := mem_defsNamed.mp hd
      obtain ⟨k, hk⟩ := hcand d hd
      cases d with
      | scope m k => cases hd'.2.1
      | defn dm dws =>
        have hok := srcOK_of_srcErrOf_none_pv dm dws
          (hnone _ (mem_activeNamed.mpr ⟨hd'.1, hd'.2.2.1, hd'.2.2.2⟩))
        exact ⟨fetchValue_defnMeta mm mws dm dws hp hok, by rw [keyOf_ok hk]; exact hk⟩
    rw [multi_step F e fuel sm mkids combined st idx mm mws k0 _ hmult hfm hk0 hl, hm,
      candsOf_fuel_tm, ← keyOf_self_fuel_tm e fuel, keyOf_ok hk0]
  | some err =>
    simp only
    unfold stepG
    simp only [hmult, Bool.not_true, Bool.false_eq_true, if_false]
    unfold multiBranch
    rw [masterKeyG_defn, hk0, hfm, List.nil_append, hmatch]
    simp only
    rw [foldlM_first_error_pv (cstepG F e fuel false (.defn mm mws) k0) (fun fm => srcErrOf fm.2) _ _ err]
    · rw [List.findSome?_map]
      exact hfs
    · intro a ha b
      obtain ⟨o, ho, rfl⟩ := List.mem_map.mp ha
      have ho' := mem_activeNamed.mp ho
      cases o with
      | scope m' k' =>
        refine ⟨fun h => by simp [srcErrOf] at h, fun E hE => ?_⟩
        simp only [srcErrOf, Option.some.injEq] at hE
        rw [← hE]
        exact cstepG_scope_incompatible_tm F e fuel mm mws k0 m' k' b
      | defn dm dws =>
        refine ⟨fun h => ?_, fun E hE => ?_⟩
        · exact cstepG_defn_ok_tm F e fuel mm mws hp k0 dm dws (srcOK_of_srcErrOf_none_pv dm dws h)
            (hcand _ (mem_defsNamed.mpr ⟨ho'.1, rfl, ho'.2.1, ho'.2.2⟩)) b
        · apply cstepG_defn_err_pv
          simp only [srcErrOf] at hE
          cases hw : srcWordsR dm dws with
          | ok w => rw [hw] at hE; cases hE
          | error e' => rw [hw] at hE; cases hE; rfl

/-- the step for a non-multiple master scope, given the callee on the next level (`.multiple` version) -/
theorem stepG_scope_multi_vars_pv (F : FetchFn) (e : Envs) (fuel : Nat) (sm : Meta)
    (mkids combined : List Obj) (st : List Obj × List Nat) (idx : Nat) (mm : Meta) (kids : List Obj)
    (hmult : (mm.attrs.get "multiple").truthy = false)
    (hmatch : fetchMatching fuel sm combined (.scope mm kids) = activeNamed mm.name combined)
    (hF : F false mm kids (srcStep combined mm.name) = treeMultiFetch e mm kids (srcStep combined mm.name)) :
    stepG F e fuel false sm mkids combined st (idx, .scope mm kids) =
      match firstErrObj (.scope mm kids) combined with
      | some err => .error err
      | none =>
        .ok (st.1 ++ tmBlock e (.scope mm kids) combined, st.2 ++ treeUsedObj (.scope mm kids) combined) := by
  have hm : isMultiple (.scope mm kids) = false := hmult
  have hstep : stepG F e fuel false sm mkids combined st (idx, .scope mm kids) =
      scopeBranch F false mm kids (activeNamed mm.name combined) st.1 st.2 := by
    unfold stepG
    simp only [hm, Bool.not_false, if_true]
    rw [hmatch]
  rw [hstep, firstErrObj, tmBlock, treeUsedObj]
  unfold scopeBranch
  cases hdn : defsNamed mm.name combined with
  | nil =>
    rw [find_isDefn_activeNamed_none _ _ hdn, activeNamed_children_tree, hF]
    simp only [List.isEmpty_nil, if_true]
    unfold treeMultiFetch
    cases firstErr kids (srcStep combined mm.name) with
    | some err => rfl
    | none => simp
  | cons d rest =>
    obtain ⟨x, hx⟩ := find_isDefn_activeNamed_some mm.name combined (by rw [hdn]; exact List.cons_ne_nil _ _)
    rw [hx]
    simp only [List.isEmpty_cons, Bool.false_eq_true, if_false]
    rfl

/-- **closed form of the fetch of a nested master whose definitions may be `.multiple`, ANY annotated
    sources** (non-diff mode, no `SrcTree`/`SrcNoDollar`): the error of the first offending source
    object in master order, else `treeMultiResult` (candidates = the resolved words) and `treeUsed`. -/
theorem fetch_tree_multi_vars_total (e : Envs) : ∀ (fuel : Nat) (sm : Meta) (mkids srcs : List Obj),
    TreeMultiMaster mkids → depthL mkids < fuel → sm.disabled = false → ScopesNamed srcs →
    KeysDefinedTree e mkids srcs →
    fetchScope e fuel false sm mkids srcs = treeMultiFetch e sm mkids srcs := by
  intro fuel
  induction fuel with
  | zero => intro sm mkids srcs _ hd; exact absurd hd (Nat.not_lt_zero _)
  | succ fuel ih =>
    intro sm mkids srcs hf hdepth hsd hsrc hkeys
    rw [fetchScope_succ, masterActive_tm mkids hf]
    simp only
    have hsc : ∀ m kids, Obj.scope m kids ∈ srcs → m.disabled = false → m.name ≠ [] :=
      fun m kids hm hd => hsrc m kids (.here hm hd)
    rw [foldlM_firstErr_vars _ (fun io => firstErrObj io.2 srcs) (fun io => tmBlock e io.2 srcs)
      (fun io => treeUsedObj io.2 srcs)]
    · have hall : (indexed mkids).findSome? (fun io => firstErrObj io.2 srcs) = firstErr mkids srcs := by
        rw [firstErr_eq_findSome]
        conv => rhs; rw [← indexed_map_snd mkids]
        rw [List.findSome?_map]
        rfl
      rw [hall]
      unfold treeMultiFetch
      cases firstErr mkids srcs with
      | some err => rfl
      | none =>
        simp only [List.nil_append]
        unfold fetchFinish
        rw [flatMap_snd (fun mo => tmBlock e mo srcs),
          flatMap_snd (fun mo => treeUsedObj mo srcs), indexed_map_snd,
          ← treeMultiResult_eq_flatMap, ← treeUsed_eq_flatMap]
    · intro st a ha
      have hmem : a.2 ∈ mkids := by rw [← indexed_map_snd mkids]; exact List.mem_map.mpr ⟨a, ha, rfl⟩
      have hto := hf.obj _ hmem
      have hko := hkeys.obj _ hmem
      have hmatch := fetchMatching_tree fuel sm srcs a.2 hsd hto.name_ne hto.dotfree hsc
      obtain ⟨i, mo⟩ := a
      simp only at hmem hto hmatch hko ⊢
      cases mo with
      | defn mm mws =>
        rw [TMObj] at hto
        rw [KeysDefinedObj] at hko
        cases hmult : isMultiple (.defn mm mws) with
        | false =>
          rw [stepG_defn_vars _ e fuel sm mkids srcs st i mm mws (hto.1.plain hmult) hmatch,
            treeObj_defn_eq_lastWins, tmBlock]
          simp only [hmult, Bool.false_eq_true, if_false]
        | true =>
          exact stepG_multi_vars_pv _ e fuel sm mkids srcs st i mm mws hto.1 hmult
            (fromMasterOf_nil mkids hf.distinct i _ ha) hmatch (hko hmult)
      | scope mm kids =>
        have hkids := TreeMultiMaster.of_scope hto
        have hd1 := depthT_le_depthL mkids _ hmem
        rw [depthT] at hd1
        rw [TMObj] at hto
        rw [KeysDefinedObj] at hko
        exact stepG_scope_multi_vars_pv _ e fuel sm mkids srcs st i mm kids hto.1 hmatch
          (ih mm kids (srcStep srcs mm.name) hkids (by omega) hto.2.2.2.1 (hsrc.step mm.name) hko)

/-- **`master.fetch(sources)` with `$variables`, master with `.multiple` definitions**: the fetch of
    pre-resolved documents is `treeMultiFetch` on the DENOTED documents -/
theorem fetchRoot_multi_preResolved_pv (e : Envs) (env : Env) (master : List Obj) (docs : List (List Obj))
    (hf : TreeMultiMaster master) (hd : depthL master ≤ 1000) (hdocs : ∀ d ∈ docs, DocIds d)
    (hnamed : ScopesNamed docs.flatten)
    (hkeys : KeysDefinedTree e master (docs.map (denoteDoc env false)).flatten) :
    fetchRoot e false master (docs.map (preResolve env false)) =
      treeMultiFetch e { name := [], id := some 0 } master (docs.map (denoteDoc env false)).flatten := by
  have hmap : docs.map (preResolve env false) = docs.map (denoteDoc env false) :=
    List.map_congr_left (fun d hdm => preResolve_eq_denoteDoc env false d (hdocs d hdm))
  rw [hmap]
  exact fetch_tree_multi_vars_total e _ _ master _ hf (fetchRoot_fuel_tree master hd) rfl
    (scopesNamed_denoteDocs env false docs hnamed) hkeys

/-- every enabled source definition reached by a path is a definition of one of the documents and
    contributes the denotation at its own position (`lastDef_denoted` for ANY member) -/
theorem matched_denoted_pv (env : Env) (docs : List (List Obj)) (hdocs : ∀ d ∈ docs, DocIds d)
    (hfresh : ∀ d ∈ docs, Fresh d) (ps : List Str) (n : Str) (d : Obj)
    (hmem : d ∈ defsNamed n (srcAt (docs.map (denoteDoc env false)).flatten ps)) :
    ∃ doc ∈ docs, ∃ pos m ws, objAt doc pos = some (.defn m ws) ∧ m.name = n ∧ m.disabled = false ∧
      d = annObj env false doc pos (.defn m ws) ∧
      srcErrOf d = (match denote env doc pos false with
                    | .ok _ => none
                    | .error e => some e) ∧
      ∀ r, denote env doc pos false = .ok r → d.srcWords = r ∧ srcRefs d = refsAt doc pos := by
  have hd := mem_defsNamed.mp hmem
  have hact := activeIn_srcAt_fv ps _ d (.here hd.1 hd.2.2.1)
  obtain ⟨l, hl, hdl⟩ := activeIn_flatten_fv hact
  obtain ⟨doc, hdoc, rfl⟩ := List.mem_map.mp hl
  obtain ⟨pos, m, ws, ho, ha, hx, herr, hok⟩ :=
    activeDefn_denoted env false doc (hdocs doc hdoc) (hfresh doc hdoc) hdl hd.2.1
  refine ⟨doc, hdoc, pos, m, ws, ho, ?_, ?_, hx, herr, hok⟩
  · have := annObj_name env false doc pos (.defn m ws)
    rw [← hx, hd.2.2.2] at this
    exact this.symm
  · have := annObj_disabled env false doc pos (.defn m ws)
    rw [← hx, hd.2.2.1] at this
    exact this.symm

end Phil
