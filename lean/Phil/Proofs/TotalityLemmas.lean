/-
  Phil.Proofs.TotalityLemmas — machinery for property C16 ("user mistakes surface as RuntimeError or
  Sorry, never as internal errors; every call returns"): progress of the tokenizer, totality and
  error classification of collect_assigned_words, of the attribute-value converters, of
  collect_objects / parse, of the `from_words` converters and of choice fetch.
-/
import Phil.Conv
import Phil.Proofs.Lines
import Phil.Proofs.ConvDomain
import Phil.Proofs.ChoiceLemmas
set_option autoImplicit false

namespace Phil

/-! ### error classes -/

/-- a Python `RuntimeError` raised at a named site -/
def Err.isRuntime : Err → Bool
  | .runtime _ _ => true
  | _ => false

/-- `RuntimeError`, or an input the model declares outside its domain -/
def Err.benign : Err → Bool
  | .runtime _ _ => true
  | .unsupported _ => true
  | _ => false

theorem Err.isRuntime_iff (e : Err) : e.isRuntime = true ↔ ∃ s l, e = .runtime s l := by
  cases e <;> simp [Err.isRuntime]

theorem Err.benign_iff (e : Err) :
    e.benign = true ↔ (∃ s l, e = .runtime s l) ∨ (∃ w, e = .unsupported w) := by
  cases e <;> simp [Err.benign]

theorem Err.benign_of_isRuntime {e : Err} (h : e.isRuntime = true) : e.benign = true := by
  cases e <;> simp_all [Err.isRuntime, Err.benign]

theorem Err.benign_ne_outOfFuel {e : Err} (h : e.benign = true) : e ≠ .outOfFuel := by
  intro h'; subst h'; cases h

/-! ### 1. progress of the tokenizer -/

theorem nextWordAux_consumes (s : Settings) (b : Bool) (cs : Str) (line : Nat) (w : Word) (ci' : CI)
    (h : nextWordAux s b cs line = .ok (some (w, ci'))) : ci'.rest.length < cs.length := by
  obtain ⟨rest, line'⟩ := ci'
  obtain ⟨pre, c, tail, hcs, -⟩ := nextWordAux_line_strong s cs b line w rest line' h
  rw [hcs]
  simp only [List.length_append, List.length_cons]
  omega

/-- every word returned by `word_iterator.__next__` consumes at least one character -/
theorem nextWord_consumes (s : Settings) (ci : CI) (w : Word) (ci' : CI)
    (h : nextWord s ci = .ok (some (w, ci'))) : ci'.rest.length < ci.rest.length :=
  nextWordAux_consumes s false ci.rest ci.line w ci' h

theorem tokErr_isRuntime (e : TokErr) : (tokErr e).isRuntime = true := by cases e; rfl

theorem tokErr_site (e : TokErr) : ∃ l, tokErr e = .runtime "missing_closing_quote" (some l) := by
  cases e with | missingClosingQuote l => exact ⟨l, rfl⟩

theorem tryPop_consumes {s : Settings} {ci : CI} {w : Word} {ci' : CI}
    (h : tryPop s ci = .ok (some (w, ci'))) : ci'.rest.length < ci.rest.length := by
  unfold tryPop at h
  split at h
  · cases h
  · rename_i r hr
    cases h
    exact nextWord_consumes s ci w ci' hr

theorem tryPop_error {s : Settings} {ci : CI} {e : Err} (h : tryPop s ci = .error e) :
    ∃ l, e = .runtime "missing_closing_quote" (some l) := by
  unfold tryPop at h
  split at h
  · rename_i te _
    cases h
    exact tokErr_site te
  · cases h

theorem pop_consumes {s : Settings} {ci : CI} {w : Word} {ci' : CI}
    (h : pop s ci = .ok (w, ci')) : ci'.rest.length < ci.rest.length := by
  unfold pop at h
  split at h
  · cases h
  · cases h
  · rename_i r hr
    cases h
    exact tryPop_consumes hr

theorem pop_error {s : Settings} {ci : CI} {e : Err} (h : pop s ci = .error e) :
    e.isRuntime = true := by
  unfold pop at h
  split at h
  · rename_i e' he
    cases h
    obtain ⟨l, rfl⟩ := tryPop_error he
    rfl
  · cases h; rfl
  · cases h

theorem popUnquoted_consumes {s : Settings} {ci : CI} {w : Word} {ci' : CI}
    (h : popUnquoted s ci = .ok (w, ci')) : ci'.rest.length < ci.rest.length := by
  unfold popUnquoted at h
  split at h
  · cases h
  · rename_i w0 ci0 hp
    split at h
    · cases h
    · cases h
      exact pop_consumes hp

theorem popUnquoted_error {s : Settings} {ci : CI} {e : Err} (h : popUnquoted s ci = .error e) :
    e.isRuntime = true := by
  unfold popUnquoted at h
  split at h
  · rename_i e' he
    cases h
    exact pop_error he
  · split at h
    · cases h; rfl
    · cases h

theorem tryPopUnquoted_consumes {s : Settings} {ci : CI} {w : Word} {ci' : CI}
    (h : tryPopUnquoted s ci = .ok (some (w, ci'))) : ci'.rest.length < ci.rest.length := by
  unfold tryPopUnquoted at h
  split at h
  · cases h
  · cases h
  · rename_i w0 ci0 hp
    split at h
    · cases h
    · cases h
      exact tryPop_consumes hp

theorem tryPopUnquoted_error {s : Settings} {ci : CI} {e : Err} (h : tryPopUnquoted s ci = .error e) :
    e.isRuntime = true := by
  unfold tryPopUnquoted at h
  split at h
  · rename_i e' he
    cases h
    obtain ⟨l, rfl⟩ := tryPop_error he
    rfl
  · cases h
  · split at h
    · cases h; rfl
    · cases h

/-! ### 2. collect_assigned_words -/


/-- one iteration of `collect_assigned_words` after a word has been read: it returns (with the state
    after the word or backed up before it) or goes round again from the state after the word -/
theorem cAA_step (fuel : Nat) (ci : CI) (last : Word) (hc : Bool) (acc : List Word) (w : Word) (ci' : CI)
    (h : tryPop valueSettings ci = .ok (some (w, ci'))) :
    collectAssignedAux (fuel + 1) ci last hc acc = .ok (acc.reverse, ci') ∨
    collectAssignedAux (fuel + 1) ci last hc acc = .ok (acc.reverse, ci) ∨
    ∃ hc' acc', collectAssignedAux (fuel + 1) ci last hc acc = collectAssignedAux fuel ci' w hc' acc' := by
  simp only [collectAssignedAux, h]
  split
  · split
    · exact .inl rfl
    · split
      · exact .inr (.inl rfl)
      · exact .inr (.inr ⟨_, _, rfl⟩)
  · split
    · exact .inr (.inr ⟨_, _, rfl⟩)
    · split
      · exact .inr (.inl rfl)
      · split
        · exact .inr (.inr ⟨_, _, rfl⟩)
        · exact .inr (.inr ⟨_, _, rfl⟩)

theorem collectAssignedAux_progress : ∀ (fuel : Nat) (ci : CI) (last : Word) (hc : Bool) (acc ws : List Word) (ci' : CI),
    collectAssignedAux fuel ci last hc acc = .ok (ws, ci') → ci'.rest.length ≤ ci.rest.length := by
  intro fuel
  induction fuel with
  | zero => intro ci last hc acc ws ci' h; simp [collectAssignedAux] at h
  | succ fuel ih =>
    intro ci last hc acc ws ci' h
    cases ht : tryPop valueSettings ci with
    | error e => simp [collectAssignedAux, ht] at h
    | ok r =>
      cases r with
      | none =>
        simp only [collectAssignedAux, ht, Except.ok.injEq, Prod.mk.injEq] at h
        rw [← h.2]; exact Nat.le_refl _
      | some p =>
        obtain ⟨w, ci1⟩ := p
        have hlt := tryPop_consumes ht
        rcases cAA_step fuel ci last hc acc w ci1 ht with h1 | h1 | ⟨hc', acc', h1⟩
        · rw [h1] at h; cases h; omega
        · rw [h1] at h; cases h; omega
        · rw [h1] at h
          have := ih _ _ _ _ _ _ h
          omega

theorem collectAssignedAux_fuel : ∀ (fuel : Nat) (ci : CI) (last : Word) (hc : Bool) (acc : List Word),
    ci.rest.length < fuel → collectAssignedAux fuel ci last hc acc ≠ .error .outOfFuel := by
  intro fuel
  induction fuel with
  | zero => intro ci last hc acc hf; omega
  | succ fuel ih =>
    intro ci last hc acc hf
    cases ht : tryPop valueSettings ci with
    | error e =>
      obtain ⟨l, rfl⟩ := tryPop_error ht
      simp [collectAssignedAux, ht]
    | ok r =>
      cases r with
      | none => simp [collectAssignedAux, ht]
      | some p =>
        obtain ⟨w, ci1⟩ := p
        have hlt := tryPop_consumes ht
        rcases cAA_step fuel ci last hc acc w ci1 ht with h1 | h1 | ⟨hc', acc', h1⟩
        · rw [h1]; simp
        · rw [h1]; simp
        · rw [h1]
          exact ih _ _ _ _ (by omega)

theorem collectAssignedAux_error : ∀ (fuel : Nat) (ci : CI) (last : Word) (hc : Bool) (acc : List Word) (e : Err),
    collectAssignedAux fuel ci last hc acc = .error e →
    e = .outOfFuel ∨ ∃ l, e = .runtime "missing_closing_quote" (some l) := by
  intro fuel
  induction fuel with
  | zero => intro ci last hc acc e h; simp [collectAssignedAux] at h; exact .inl h.symm
  | succ fuel ih =>
    intro ci last hc acc e h
    cases ht : tryPop valueSettings ci with
    | error e' =>
      simp only [collectAssignedAux, ht, Except.error.injEq] at h
      subst h
      exact .inr (tryPop_error ht)
    | ok r =>
      cases r with
      | none => simp [collectAssignedAux, ht] at h
      | some p =>
        obtain ⟨w, ci1⟩ := p
        rcases cAA_step fuel ci last hc acc w ci1 ht with h1 | h1 | ⟨hc', acc', h1⟩
        · rw [h1] at h; cases h
        · rw [h1] at h; cases h
        · rw [h1] at h
          exact ih _ _ _ _ _ h

theorem collectAssigned_nonempty {ci : CI} {lead : Word} {ws : List Word} {ci' : CI}
    (h : collectAssigned ci lead = .ok (ws, ci')) : ws ≠ [] := by
  unfold collectAssigned at h
  split at h
  · cases h
  · split at h
    · cases h
    · rename_i hne
      cases h
      intro h0; subst h0; simp at hne

theorem collectAssigned_progress {ci : CI} {lead : Word} {ws : List Word} {ci' : CI}
    (h : collectAssigned ci lead = .ok (ws, ci')) : ci'.rest.length ≤ ci.rest.length := by
  unfold collectAssigned at h
  split at h
  · cases h
  · rename_i ws0 ci0 h0
    split at h
    · cases h
    · cases h
      exact collectAssignedAux_progress _ _ _ _ _ _ _ h0

theorem collectAssigned_errors {ci : CI} {lead : Word} {e : Err}
    (h : collectAssigned ci lead = .error e) :
    (∃ l, e = .runtime "missing_closing_quote" (some l)) ∨ e = .runtime "missing_value" lead.line := by
  unfold collectAssigned at h
  split at h
  · rename_i e' h0
    cases h
    rcases collectAssignedAux_error _ _ _ _ _ _ h0 with h1 | h1
    · exact absurd h0 (h1 ▸ collectAssignedAux_fuel _ _ _ _ _ (Nat.lt_succ_self _))
    · exact .inl h1
  · split at h
    · cases h; exact .inr rfl
    · cases h

theorem collectAssigned_isRuntime {ci : CI} {lead : Word} {e : Err}
    (h : collectAssigned ci lead = .error e) : e.isRuntime = true := by
  rcases collectAssigned_errors h with ⟨l, rfl⟩ | rfl <;> rfl

theorem collectAssigned_ne_outOfFuel (ci : CI) (lead : Word) :
    collectAssigned ci lead ≠ .error .outOfFuel := by
  intro h
  have := collectAssigned_isRuntime h
  cases this

/-! ### 3. attribute values -/


/-- result is a value or a benign error -/
def OkOrBenign {α : Type} : R α → Prop
  | .ok _ => True
  | .error e => e.benign = true

theorem OkOrBenign.error {α : Type} {r : R α} {e : Err} (h : OkOrBenign r) (he : r = .error e) :
    e.benign = true := by subst he; exact h

theorem OkOrBenign.ite {α : Type} {c : Prop} [Decidable c] {a b : R α} (ha : OkOrBenign a)
    (hb : OkOrBenign b) : OkOrBenign (if c then a else b) := by
  split <;> assumption

theorem convFromExpr_okOrBenign (expr : Str) (line : Option Nat) :
    OkOrBenign (convFromExpr expr line) := by
  unfold convFromExpr
  split
  · rfl
  · dsimp only
    split
    · split <;> rfl
    · split
      · rfl
      · split
        · rfl
        · have hs : ∀ c : Conv, ∀ args : List (Str × Lit), OkOrBenign (if args.isEmpty then Except.ok c else .error (errConstruct line)) := by
            intro c args; split <;> first | trivial | rfl
          split
          all_goals first
            | exact hs _ _
            | skip
          · split
            · rfl
            · split
              · trivial
              · rfl
          · split
            · rfl
            · split
              · exact OkOrBenign.ite rfl trivial
              · rfl
          · split
            · rfl
            · split
              · exact OkOrBenign.ite rfl trivial
              · rfl
          · split
            · rfl
            · split
              · exact OkOrBenign.ite rfl trivial
              · rfl

/-- the `.type` expression reader fails only with RuntimeError or "outside the modelled domain" -/
theorem convFromExpr_errors (expr : Str) (line : Option Nat) (e : Err)
    (h : convFromExpr expr line = .error e) :
    (∃ s l, e = .runtime s l) ∨ (∃ w, e = .unsupported w) :=
  (Err.benign_iff e).1 ((convFromExpr_okOrBenign expr line).error h)


theorem boolFromWords_errors {ws : List Word} (hne : ws ≠ []) {e : Err}
    (h : boolFromWords ws = .error e) : e = .runtime "bool_expected" (firstLine ws) := by
  rcases boolFromWords_spec ws with ⟨_, h2⟩ | ⟨_, h2⟩ | ⟨s, _, ⟨_, h2⟩ | ⟨_, h2⟩ | ⟨_, _, h2⟩⟩
  all_goals rw [h2] at h
  all_goals first | (cases h; done) | skip
  cases ws with
  | nil => exact absurd rfl hne
  | cons w ws => simp only [List.isEmpty_cons, Bool.false_eq_true, ↓reduceIte, Except.error.injEq] at h; exact h.symm

theorem boolFromWords_okOrBenign {ws : List Word} (hne : ws ≠ []) : OkOrBenign (boolFromWords ws) := by
  cases h : boolFromWords ws with
  | ok v => trivial
  | error e => rw [boolFromWords_errors hne h]; rfl

theorem intFromWordsLit_okOrBenign (ws : List Word) : OkOrBenign (intFromWordsLit ws) := by
  unfold intFromWordsLit
  split
  · dsimp only
    split
    · rfl
    · split
      · trivial
      · split
        · trivial
        · split
          · trivial
          · rfl
  · trivial

theorem defAttrValue_okOrBenign (name : String) {ws : List Word} (hne : ws ≠ []) :
    OkOrBenign (defAttrValue name ws) := by
  unfold defAttrValue
  split
  · exact boolFromWords_okOrBenign hne
  · split
    · split
      · trivial
      · split
        · trivial
        · split
          · have := convFromExpr_okOrBenign (strip ‹Str›) (firstLine ws)
            revert this
            cases convFromExpr (strip ‹Str›) (firstLine ws) <;> exact id
          · trivial
    · split
      · exact intFromWordsLit_okOrBenign ws
      · trivial

theorem scopeAttrValue_okOrBenign (name : String) {ws : List Word} (hne : ws ≠ []) :
    OkOrBenign (scopeAttrValue name ws) := by
  unfold scopeAttrValue
  split
  · exact boolFromWords_okOrBenign hne
  · split
    · exact intFromWordsLit_okOrBenign ws
    · split
      · split
        · trivial
        · split
          · trivial
          · rfl
      · split
        · split
          · trivial
          · rfl
        · trivial

/-! ### 4./5. the parser loops -/


/-- invariant of the parser loops: a successful result leaves at most `n` characters unread; an
    error is benign (RuntimeError / outside the modelled domain), or it is `outOfFuel` and the fuel
    condition `p` did not hold -/
def Good {α : Type} (len : α → Nat) (n : Nat) (p : Prop) : R α → Prop
  | .ok r => len r ≤ n
  | .error e => e.benign = true ∨ (e = .outOfFuel ∧ ¬ p)

theorem Good.mono {α : Type} {len : α → Nat} {n m : Nat} {p q : Prop} {r : R α}
    (h : Good len n p r) (hnm : n ≤ m) (hqp : q → p) : Good len m q r := by
  cases r with
  | ok r => exact Nat.le_trans h hnm
  | error e =>
    rcases h with h | ⟨h1, h2⟩
    · exact .inl h
    · exact .inr ⟨h1, fun hq => h2 (hqp hq)⟩

theorem Good.of_benign {α : Type} {len : α → Nat} {n : Nat} {p : Prop} {e : Err}
    (h : e.benign = true) : Good len n p (.error e : R α) := .inl h

theorem Good.of_isRuntime {α : Type} {len : α → Nat} {n : Nat} {p : Prop} {e : Err}
    (h : e.isRuntime = true) : Good len n p (.error e : R α) := .inl (Err.benign_of_isRuntime h)

theorem map_error_benign {α β : Type} {r : R α} {f : α → β} {e : Err} (hr : OkOrBenign r)
    (h : r.map f = .error e) : e.benign = true := by
  cases r with
  | ok v => cases h
  | error e' => cases h; exact hr

def salLen (r : Attrs × Word × CI) : Nat := r.2.2.rest.length

theorem scopeAttrsLoop_good : ∀ (fuel : Nat) (ci : CI) (w : Word) (attrs : Attrs),
    Good salLen ci.rest.length (ci.rest.length < fuel) (scopeAttrsLoop fuel ci w attrs) := by
  intro fuel
  induction fuel with
  | zero => intro ci w attrs; exact .inr ⟨rfl, by omega⟩
  | succ fuel ih =>
    intro ci w attrs
    simp only [scopeAttrsLoop]
    split
    · exact Nat.le_refl _
    · split
      · exact .inl rfl
      · split
        · rename_i e he
          exact Good.of_isRuntime (popUnquoted_error he)
        · rename_i eq ci1 h1
          have l1 := popUnquoted_consumes h1
          split
          · exact .inl rfl
          · split
            · rename_i e he
              exact Good.of_isRuntime (collectAssigned_isRuntime he)
            · rename_i ws ci2 h2
              have l2 := collectAssigned_progress h2
              have hne := collectAssigned_nonempty h2
              split
              · rename_i e he
                refine Good.of_benign ?_
                split at he
                · cases he
                · exact map_error_benign (scopeAttrValue_okOrBenign _ hne) he
              · split
                · rename_i e he
                  exact Good.of_isRuntime (popUnquoted_error he)
                · rename_i w' ci3 h3
                  have l3 := popUnquoted_consumes h3
                  exact (ih ci3 w' _).mono (by omega) (by omega)


def coLen (r : List Obj × PState) : Nat := r.2.ci.rest.length

theorem scanForStart_phil_len (fuel : Nat) (cs : Str) (line : Nat) :
    (scanForStart "#phil".toList ["__END__".toList, "__ON__".toList] fuel cs line).2.rest.length
      ≤ cs.length := by
  obtain ⟨consumed, h, -⟩ := scanForStart_phil_line fuel cs line
    (scanForStart "#phil".toList ["__END__".toList, "__ON__".toList] fuel cs line).1
    (scanForStart "#phil".toList ["__END__".toList, "__ON__".toList] fuel cs line).2.rest
    (scanForStart "#phil".toList ["__END__".toList, "__ON__".toList] fuel cs line).2.line rfl
  conv => rhs; rw [h]
  simp only [List.length_append]
  omega

theorem Good.error_true {α : Type} {len : α → Nat} {n : Nat} {p : Prop} {r : R α} {e : Err}
    (h : Good len n p r) (he : r = .error e) (hp : p) : e.benign = true := by
  subst he
  rcases h with h | ⟨_, h⟩
  · exact h
  · exact absurd hp h

theorem Good.error {α : Type} {len : α → Nat} {n : Nat} {p : Prop} {r : R α} {e : Err}
    (h : Good len n p r) (he : r = .error e) : Good len n p (.error e : R α) := he ▸ h

theorem Good.ok {α : Type} {len : α → Nat} {n : Nat} {p : Prop} {r : R α} {v : α}
    (h : Good len n p r) (he : r = .ok v) : len v ≤ n := by subst he; exact h

theorem collectObjects_good : ∀ (fuel : Nat) (st : PState) (stop : Option Word) (prev : Nat)
    (acc : List Obj) (pending : Option Obj),
    Good coLen st.ci.rest.length (st.ci.rest.length < fuel) (collectObjects fuel st stop prev acc pending) := by
  intro fuel
  induction fuel with
  | zero => intro st stop prev acc pending; exact .inr ⟨rfl, by omega⟩
  | succ fuel ih =>
    intro st stop prev acc pending
    simp only [collectObjects]
    split
    · rename_i e he
      exact Good.of_isRuntime (tryPopUnquoted_error he)
    · split
      · exact Nat.le_refl _
      · exact .inl rfl
    · rename_i lead ci1 h1
      have l1 := tryPopUnquoted_consumes h1
      split
      · split
        · rename_i e he
          exact Good.of_isRuntime (popUnquoted_error he)
        · rename_i w ci2 h2
          have l2 := popUnquoted_consumes h2
          split
          · split
            · show ci2.rest.length ≤ _
              omega
            · exact .inl rfl
          · split
            · exact (ih { st with ci := ci2 } _ _ _ _).mono (by show ci2.rest.length ≤ _; omega)
                (by show _ → ci2.rest.length < _; omega)
            · split
              · exact .inl rfl
              · have l3 := scanForStart_phil_len (ci2.rest.length + 1) ci2.rest ci2.line
                split
                · split
                  · show (scanForStart _ _ _ _ _).2.rest.length ≤ _
                    omega
                  · exact .inl rfl
                · exact (ih { st with ci := _ } _ _ _ _).mono
                    (by show (scanForStart _ _ _ _ _).2.rest.length ≤ _; omega)
                    (by show _ → (scanForStart _ _ _ _ _).2.rest.length < _; omega)
      · split
        · show ci1.rest.length ≤ _
          omega
        · split
          · exact .inl rfl
          · split
            · rename_i e he
              exact Good.of_isRuntime (pop_error he)
            · rename_i w ci2 h2
              have l2 := pop_consumes h2
              split
              · split
                · exact .inl rfl
                · split
                  · exact .inl rfl
                  · split
                    · rename_i e he
                      exact Good.of_benign ((scopeAttrsLoop_good _ ci2 w []).error_true he (by omega))
                    · rename_i attrs brace ci3 h3
                      have l3 : ci3.rest.length ≤ ci2.rest.length := (scopeAttrsLoop_good _ ci2 w []).ok h3
                      have hin := ih { ci := ci3, nextId := st.nextId + 1 } (some brace) 0 [] none
                      split
                      · rename_i e he
                        exact (hin.error he).mono (by show ci3.rest.length ≤ _; omega)
                          (by show _ → ci3.rest.length < _; omega)
                      · rename_i children st' h4
                        have l4 : st'.ci.rest.length ≤ ci3.rest.length := hin.ok h4
                        exact (ih st' _ _ _ _).mono (by omega) (by omega)
              · split
                · split
                  · exact .inl rfl
                  · split
                    · rename_i e he
                      refine Good.of_isRuntime ?_
                      split at he
                      · split at he
                        · rename_i e' he'
                          cases he
                          exact popUnquoted_error he'
                        · split at he
                          · cases he; rfl
                          · cases he
                      · cases he
                    · rename_i ci3 h3
                      have l3 : ci3.rest.length ≤ ci1.rest.length := by
                        split at h3
                        · split at h3
                          · cases h3
                          · rename_i eq ci' hp
                            split at h3
                            · cases h3
                            · cases h3
                              exact Nat.le_of_lt (popUnquoted_consumes hp)
                        · cases h3
                          exact Nat.le_refl _
                      split
                      · rename_i e he
                        exact Good.of_isRuntime (collectAssigned_isRuntime he)
                      · rename_i ws ci4 h4
                        have l4 := collectAssigned_progress h4
                        split
                        · exact .inl rfl
                        · exact (ih { ci := ci4, nextId := st.nextId + 1 } _ _ _ _).mono
                            (by show ci4.rest.length ≤ _; omega)
                            (by show _ → ci4.rest.length < _; omega)
                · split
                  · exact .inl rfl
                  · split
                    · exact .inl rfl
                    · split
                      · rename_i e he
                        exact Good.of_isRuntime (popUnquoted_error he)
                      · rename_i eq ci3 h3
                        have l3 := popUnquoted_consumes h3
                        split
                        · exact .inl rfl
                        · split
                          · rename_i e he
                            exact Good.of_isRuntime (collectAssigned_isRuntime he)
                          · rename_i ws ci4 h4
                            have l4 := collectAssigned_progress h4
                            have hne := collectAssigned_nonempty h4
                            split
                            · exact (ih { st with ci := ci4 } _ _ _ _).mono (by show ci4.rest.length ≤ _; omega)
                                (by show _ → ci4.rest.length < _; omega)
                            · split
                              · rename_i e he
                                exact Good.of_benign ((defAttrValue_okOrBenign _ hne).error he)
                              · exact (ih { st with ci := ci4 } _ _ _ _).mono (by show ci4.rest.length ≤ _; omega)
                                  (by show _ → ci4.rest.length < _; omega)

theorem Good.no_stray {α : Type} {len : α → Nat} {n : Nat} {p : Prop} {r : R α} {e : Err}
    (h : Good len n p r) (he : r = .error e) : e.benign = true ∨ e = .outOfFuel := by
  subst he
  rcases h with h | ⟨h, _⟩
  · exact .inl h
  · exact .inr h

theorem scopeAttrsLoop_no_stray {fuel : Nat} {ci : CI} {w : Word} {attrs : Attrs} {e : Err}
    (h : scopeAttrsLoop fuel ci w attrs = .error e) : e.benign = true ∨ e = .outOfFuel :=
  (scopeAttrsLoop_good fuel ci w attrs).no_stray h

theorem scopeAttrsLoop_total {fuel : Nat} {ci : CI} (w : Word) (attrs : Attrs)
    (hf : ci.rest.length < fuel) : scopeAttrsLoop fuel ci w attrs ≠ .error .outOfFuel := fun h =>
  Err.benign_ne_outOfFuel ((scopeAttrsLoop_good fuel ci w attrs).error_true h hf) rfl

theorem scopeAttrsLoop_progress {fuel : Nat} {ci : CI} {w : Word} {attrs attrs' : Attrs} {b : Word}
    {ci' : CI} (h : scopeAttrsLoop fuel ci w attrs = .ok (attrs', b, ci')) :
    ci'.rest.length ≤ ci.rest.length :=
  (scopeAttrsLoop_good fuel ci w attrs).ok h

theorem collectObjects_no_stray {fuel : Nat} {st : PState} {stop : Option Word} {prev : Nat}
    {acc : List Obj} {pending : Option Obj} {e : Err}
    (h : collectObjects fuel st stop prev acc pending = .error e) : e.benign = true ∨ e = .outOfFuel :=
  (collectObjects_good fuel st stop prev acc pending).no_stray h

theorem collectObjects_total {fuel : Nat} {st : PState} (stop : Option Word) (prev : Nat)
    (acc : List Obj) (pending : Option Obj) (hf : st.ci.rest.length < fuel) :
    collectObjects fuel st stop prev acc pending ≠ .error .outOfFuel := fun h =>
  Err.benign_ne_outOfFuel ((collectObjects_good fuel st stop prev acc pending).error_true h hf) rfl

theorem collectObjects_progress {fuel : Nat} {st : PState} {stop : Option Word} {prev : Nat}
    {acc : List Obj} {pending : Option Obj} {objs : List Obj} {st' : PState}
    (h : collectObjects fuel st stop prev acc pending = .ok (objs, st')) :
    st'.ci.rest.length ≤ st.ci.rest.length :=
  (collectObjects_good fuel st stop prev acc pending).ok h

/-! ### 4./5. `parse` -/

theorem parseObjs_benign (text : Str) (e : Err) (h : parseObjs text = .error e) : e.benign = true := by
  unfold parseObjs at h
  split at h
  · rename_i e' he
    cases h
    exact (collectObjects_good _ _ _ _ _ _).error_true he (by show text.length < _; omega)
  · cases h

/-! ### 6. converters -/


theorem OkOrBenign.map {α β : Type} {r : R α} (f : α → β) (h : OkOrBenign r) : OkOrBenign (r.map f) := by
  cases r with
  | ok v => trivial
  | error e => exact h

theorem foldlM_okOrBenign {α β : Type} (f : β → α → R β) (hf : ∀ b a, OkOrBenign (f b a)) :
    ∀ (l : List α) (b : β), OkOrBenign (l.foldlM f b) := by
  intro l
  induction l with
  | nil => intro b; trivial
  | cons a as ih =>
    intro b
    rw [List.foldlM_cons]
    have := hf b a
    cases hc : f b a with
    | error e => rw [hc] at this; exact this
    | ok b' => exact ih b'

theorem numberFromValueString_okOrBenign (env : EvalEnv) (ws : List Word) (s : Str) :
    OkOrBenign (numberFromValueString env ws s) := by
  unfold numberFromValueString
  dsimp only
  split
  · rfl
  · split
    · trivial
    · split
      · trivial
      · split <;> first | trivial | rfl

theorem intFromNumber_okOrBenign (ws : List Word) (v : PVal) : OkOrBenign (intFromNumber ws v) := by
  unfold intFromNumber
  split
  · trivial
  · trivial
  · split
    · trivial
    · rfl
  · rfl

theorem floatFromNumber_okOrBenign (ws : List Word) (v : PVal) : OkOrBenign (floatFromNumber ws v) := by
  unfold floatFromNumber
  split <;> first | trivial | rfl | skip
  split <;> first | trivial | rfl

theorem checkValue_okOrBenign (lo hi : Option PNum) (ws : List Word) (wl : Bool) (v : PNum) :
    OkOrBenign (checkValue lo hi ws wl v) := by
  unfold checkValue
  dsimp only
  split
  · split
    · rfl
    · split
      · split <;> first | trivial | rfl
      · trivial
  · split
    · split <;> first | trivial | rfl
    · trivial

theorem checkSize_okOrBenign (smin smax : Option Int) (ws : List Word) (wl : Bool) (n : Nat) :
    OkOrBenign (checkSize smin smax ws wl n) := by
  unfold checkSize
  dsimp only
  split
  · split
    · rfl
    · split
      · split <;> first | trivial | rfl
      · trivial
  · split
    · split <;> first | trivial | rfl
    · trivial

theorem convertChecked_okOrBenign (isInt : Bool) (lo hi : Option PNum) (ws : List Word) (raw : PVal) :
    OkOrBenign (convertChecked isInt lo hi ws raw) := by
  unfold convertChecked
  split
  · rename_i e he
    have : OkOrBenign (if isInt then intFromNumber ws raw else floatFromNumber ws raw) :=
      OkOrBenign.ite (intFromNumber_okOrBenign ws raw) (floatFromNumber_okOrBenign ws raw)
    exact this.error he
  · exact (checkValue_okOrBenign _ _ _ _ _).map _
  · exact (checkValue_okOrBenign _ _ _ _ _).map _
  · trivial

theorem scalarTail_okOrBenign (isInt : Bool) (a : NumArgs) (env : EvalEnv) (ws : List Word) :
    OkOrBenign (scalarTail isInt a env ws) := by
  unfold scalarTail
  split
  · split <;> first | trivial | rfl
  · trivial
  · split
    · rename_i e he
      exact (numberFromValueString_okOrBenign env ws _).error he
    · split <;> first | trivial | rfl
    · trivial
    · exact convertChecked_okOrBenign _ _ _ _ _
  · rfl

theorem numbersFromWords_okOrBenign (env : EvalEnv) (ws : List Word) :
    OkOrBenign (numbersFromWords env ws) := by
  unfold numbersFromWords
  split
  · trivial
  · trivial
  · dsimp only
    refine OkOrBenign.map _ (foldlM_okOrBenign _ ?_ _ _)
    intro b a
    exact (numberFromValueString_okOrBenign env ws a).map _
  · rfl

theorem elemConv_okOrBenign (isInt : Bool) (a : ListArgs) (ws : List Word) (raw : PVal) :
    OkOrBenign (elemConv isInt a ws raw) := by
  unfold elemConv
  split
  · split <;> first | trivial | rfl
  · split <;> first | trivial | rfl
  · exact convertChecked_okOrBenign _ _ _ _ _

theorem listTail_okOrBenign (isInt : Bool) (a : ListArgs) (env : EvalEnv) (ws : List Word) :
    OkOrBenign (listTail isInt a env ws) := by
  unfold listTail
  split
  · rename_i e he
    exact (numbersFromWords_okOrBenign env ws).error he
  · trivial
  · trivial
  · split
    · rename_i e he
      exact (checkSize_okOrBenign _ _ _ _ _).error he
    · dsimp only
      refine OkOrBenign.map _ (foldlM_okOrBenign _ ?_ _ _)
      intro b x
      rw [elemStep_eq]
      exact (elemConv_okOrBenign isInt a ws x).map _

/-- item 6: `from_words` of every built-in type, on a non-empty word list, returns a value,
    a RuntimeError, or leaves the modelled domain — never another exception class -/
theorem fromWords_okOrBenign (c : Conv) (env : EvalEnv) (opt : AttrVal) {ws : List Word}
    (hne : ws ≠ []) : OkOrBenign (fromWords c env opt ws) := by
  cases c with
  | words => unfold fromWords; dsimp only; exact OkOrBenign.ite trivial (OkOrBenign.ite trivial trivial)
  | strings => unfold fromWords; dsimp only; exact OkOrBenign.ite trivial (OkOrBenign.ite trivial trivial)
  | str => unfold fromWords; dsimp only; split <;> first | trivial | rfl
  | key => unfold fromWords; dsimp only; split <;> first | trivial | rfl
  | qstr => unfold fromWords; dsimp only; exact OkOrBenign.ite trivial (OkOrBenign.ite trivial trivial)
  | path =>
    unfold fromWords; dsimp only
    split
    · trivial
    · trivial
    · split <;> first | trivial | rfl
    · rfl
  | bool =>
    rw [fromWords_bool]
    exact (boolFromWords_okOrBenign hne).map _
  | int a => rw [fromWords_int_eq]; exact scalarTail_okOrBenign _ _ _ _
  | float a => rw [fromWords_float_eq]; exact scalarTail_okOrBenign _ _ _ _
  | ints a => rw [fromWords_ints_eq]; exact listTail_okOrBenign _ _ _ _
  | floats a => rw [fromWords_floats_eq]; exact listTail_okOrBenign _ _ _ _
  | choice multi =>
    rw [fromWords_choice_eq]
    split
    · trivial
    · split
      · split <;> first | trivial | rfl
      · split
        · split <;> first | trivial | rfl
        · trivial
        · rfl

/-- `choice_converters.fetch` on a master that is not plain None/Auto: a value or Sorry -/
theorem choiceFetch_okOrSorry (mwords : List Word) (opt : AttrVal) (src : List Word) (ign : Bool)
    (hm : (isPlainNone mwords || isPlainAuto mwords) = false) (e : Err)
    (h : choiceFetch mwords opt src ign = .error e) :
    e = .sorry_ "not_a_possible_choice" (mwords.map (·.value)) := by
  rcases choiceFetch_error mwords opt src ign e h with ⟨h1, _⟩ | ⟨_, _, h2⟩
  · rw [hm] at h1; cases h1
  · exact h2

end Phil
