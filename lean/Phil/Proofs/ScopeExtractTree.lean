/-
  Phil.Proofs.ScopeExtractTree — the `scope_extract` theorems of C18 (Phil/Props/C18.lean: path of a
  node, assignment guard, inject-once) lifted from ONE node to WHOLE extracted trees.
    0. the path / error path of the node reached through the names `p` (root first);
    1. `scopePaths`: the dotted paths of the enabled scopes of a tree, pre-order;
       `nodePaths_extract_st`: the node paths of an extraction are the scope paths of the tree;
    2. `nodeAt` / `scopeAt_st`: navigation in the extracted value and in the tree;
       `nodeAt_extractSpec_st`: the node at `p` is the extraction of the scope at `p`;
    3. values with `.multi` lists of records: `fieldsPaths_st`, `nodePaths_value_st`;
    4. the result of a tree fetch: `scopePathsKids_treeResult_st`.
  Every name defined here ends in `_st` except `scopePaths` and `nodeAt` (named in the task).
-/
import Phil.Proofs.ExtractTree
import Phil.Props.C18
set_option linter.unusedVariables false
set_option linter.unusedSimpArgs false
namespace Phil
open Phil.C18

/-! ## 0. the node reached from the root through the names `p` -/

theorem chainOf_snoc_st (p : List Str) (n : Str) :
    some n :: chainOf p.reverse = chainOf (p ++ [n]).reverse := by
  simp [chainOf]

/-- the node reached through the non-empty names `p` reports `dotted p`; the root reports `""` -/
theorem philPath_node_st (p : List Str) (hp : ∀ s ∈ p, s ≠ []) :
    philPath (chainOf p.reverse) none = dotted p := by
  cases p with
  | nil => simp [chainOf, philPath, dotted]
  | cons a t =>
    have := phil_path_correct (a :: t).reverse (by intro n hn; exact hp n (List.mem_reverse.mp hn)) (by simp)
    simpa using this

/-- the path spelled by the AttributeError of the node at `p` for the attribute `name` -/
theorem errPath_node_st (p : List Str) (hp : ∀ s ∈ p, s ≠ []) (name : Str) :
    errPath (chainOf p.reverse) name = dotted (p ++ [name]) := by
  cases p with
  | nil => simp [errPath, chainOf, philPath, dotted]
  | cons a t =>
    have := setattr_error_path (a :: t).reverse (by intro n hn; exact hp n (List.mem_reverse.mp hn)) (by simp) name
    simpa using this

/-- the path the node at `p` reports for its attribute `name` -/
theorem philPath_param_st (p : List Str) (hp : ∀ s ∈ p, s ≠ []) (name : Str) :
    philPath (chainOf p.reverse) (some name) = dotted (p ++ [name]) := by
  cases p with
  | nil => simp [chainOf, philPath, dotted]
  | cons a t =>
    have := phil_path_of_parameter (a :: t).reverse (by intro n hn; exact hp n (List.mem_reverse.mp hn)) (by simp) name
    simpa using this

/-! ## 1. node paths of an extraction -/

mutual
def scopePathsObj_st : Obj → List Str → List Str
  | .defn _ _, _ => []
  | .scope m kids, p =>
    if !m.disabled && m.tmpl == 0 then dotted (p ++ [m.name]) :: scopePathsKids_st kids (p ++ [m.name])
    else []
/-- the dotted paths of the enabled, non-template scopes below the scope with path `p`, pre-order -/
def scopePathsKids_st : List Obj → List Str → List Str
  | [], _ => []
  | o :: os, p => scopePathsObj_st o p ++ scopePathsKids_st os p
end

/-- the dotted paths of the enabled scopes of a tree in pre-order: the scope itself (path `p`, given
    root first; `[]` for the root, whose dotted path is empty), then those of its children -/
def scopePaths (kids : List Obj) (p : List Str) : List Str := dotted p :: scopePathsKids_st kids p

mutual
/-- every scope of the tree has a non-empty name -/
def ScopeNamed_st : Obj → Prop
  | .defn _ _ => True
  | .scope m kids => m.name ≠ [] ∧ ScopeNamedKids_st kids
def ScopeNamedKids_st : List Obj → Prop
  | [] => True
  | o :: os => ScopeNamed_st o ∧ ScopeNamedKids_st os
end

theorem scopeNamedKids_iff_st : ∀ (l : List Obj), ScopeNamedKids_st l ↔ ∀ o ∈ l, ScopeNamed_st o
  | [] => by rw [ScopeNamedKids_st]; simp
  | o :: os => by rw [ScopeNamedKids_st, scopeNamedKids_iff_st os]; simp

mutual
def scopeNamedB_st : Obj → Bool
  | .defn _ _ => true
  | .scope m kids => !m.name.isEmpty && scopeNamedKidsB_st kids
def scopeNamedKidsB_st : List Obj → Bool
  | [] => true
  | o :: os => scopeNamedB_st o && scopeNamedKidsB_st os
end

mutual
theorem scopeNamedB_sound_st : ∀ (o : Obj), scopeNamedB_st o = true → ScopeNamed_st o
  | .defn _ _, _ => by rw [ScopeNamed_st]; trivial
  | .scope m kids, h => by
    rw [scopeNamedB_st, Bool.and_eq_true] at h
    rw [ScopeNamed_st]
    refine ⟨?_, scopeNamedKidsB_sound_st kids h.2⟩
    intro hn
    rw [hn] at h
    simp at h
theorem scopeNamedKidsB_sound_st : ∀ (l : List Obj), scopeNamedKidsB_st l = true → ScopeNamedKids_st l
  | [], _ => by rw [ScopeNamedKids_st]; trivial
  | o :: os, h => by
    rw [scopeNamedKidsB_st, Bool.and_eq_true] at h
    rw [ScopeNamedKids_st]
    exact ⟨scopeNamedB_sound_st o h.1, scopeNamedKidsB_sound_st os h.2⟩
end

/-- what one field contributes to `nodePaths` (the function mapped over the fields) -/
def kidPaths_st (fuel : Nat) (chain : List (Option Str)) (kv : Str × PVal) : List Str :=
  match kv.2 with
  | .record _ => nodePaths fuel (some kv.1 :: chain) kv.2
  | .multi _ l => l.flatMap (fun x => match x with
      | .record _ => nodePaths fuel (some kv.1 :: chain) x
      | _ => [])
  | _ => []

theorem nodePaths_record_st (fuel : Nat) (chain : List (Option Str)) (fs : List (Str × PVal)) :
    nodePaths (fuel + 1) chain (.record fs) = philPath chain none :: fs.flatMap (kidPaths_st fuel chain) := by
  rw [nodePaths]; rfl

theorem inDomain_record_st (c : Conv) (fs : List (Str × PVal)) : InDomain c (.record fs) = false := by
  cases c <;> first | rfl | (rename_i b; cases b <;> rfl)

theorem inDomain_multi_st (c : Conv) (o : AttrVal) (l : List PVal) : InDomain c (.multi o l) = false := by
  cases c <;> first | rfl | (rename_i b; cases b <;> rfl)

/-- a definition never extracts to a `scope_extract` or a `scope_extract_list` -/
theorem extractDefn_not_node_st (e : Envs) (m : Meta) (ws : List Word) (v : PVal)
    (h : extractDefn e m ws = .ok v) : (∀ fs, v ≠ .record fs) ∧ (∀ o l, v ≠ .multi o l) := by
  obtain ⟨c, _, hfw⟩ := extractDefn_ok_conv_xt e m ws v h
  have hd := fromWords_in_domain c _ _ ws v hfw
  constructor
  · intro fs hv; rw [hv, inDomain_record_st] at hd; cases hd
  · intro o l hv; rw [hv, inDomain_multi_st] at hd; cases hd

theorem kidPaths_leaf_st (fuel : Nat) (chain : List (Option Str)) (n : Str) (v : PVal)
    (h1 : ∀ fs, v ≠ .record fs) (h2 : ∀ o l, v ≠ .multi o l) : kidPaths_st fuel chain (n, v) = [] := by
  cases v with
  | record fs => exact absurd rfl (h1 fs)
  | multi o l => exact absurd rfl (h2 o l)
  | _ => rfl

theorem liveObjB_scope_st (m : Meta) (kids : List Obj) :
    liveObjB_xt (.scope m kids) = (!m.disabled && m.tmpl == 0) := rfl

theorem not_live_st (o : Obj) (h : (o.meta.disabled || decide (o.meta.tmpl > 0)) = true ∨ o.meta.tmpl < 0) :
    liveObjB_xt o = false := by
  unfold liveObjB_xt
  rcases h with h | h
  · simp only [Bool.or_eq_true, decide_eq_true_eq] at h
    rcases h with h | h
    · simp [h]
    · have : (o.meta.tmpl == 0) = false := by simp; omega
      simp [this]
  · have : (o.meta.tmpl == 0) = false := by simp; omega
    simp [this]

theorem scopePathsObj_dead_st (o : Obj) (p : List Str) (h : liveObjB_xt o = false) :
    scopePathsObj_st o p = [] := by
  cases o with
  | defn m ws => rw [scopePathsObj_st]
  | scope m kids =>
    rw [liveObjB_scope_st] at h
    rw [scopePathsObj_st, h]; rfl

mutual
theorem kidPaths_extractSpec_st (e : Envs) : ∀ (o : Obj) (v : PVal) (q : List Str) (fuel : Nat),
    ScopeNamed_st o → (∀ s ∈ q, s ≠ []) → liveObjB_xt o = true → extractSpec e o = .ok v →
    depthT o ≤ fuel → kidPaths_st fuel (chainOf q.reverse) (o.name, v) = scopePathsObj_st o q
  | .defn m ws, v, q, fuel, _, _, _, hv, _ => by
    rw [extractSpec] at hv
    obtain ⟨h1, h2⟩ := extractDefn_not_node_st e m ws v hv
    rw [kidPaths_leaf_st fuel _ _ v h1 h2, scopePathsObj_st]
  | .scope m kids, v, q, fuel, hn, hq, hl, hv, hd => by
    obtain ⟨fs, rfl, hfs⟩ := extractSpec_scope_record_xt e m kids v hv
    rw [ScopeNamed_st] at hn
    rw [depthT] at hd
    rw [liveObjB_scope_st] at hl
    rw [scopePathsObj_st, hl]
    simp only [if_true]
    cases fuel with
    | zero => omega
    | succ f =>
      have hq' : ∀ s ∈ q ++ [m.name], s ≠ [] := by
        intro s hs
        rcases List.mem_append.mp hs with hs | hs
        · exact hq s hs
        · simp only [List.mem_singleton] at hs; rw [hs]; exact hn.1
      show nodePaths (f + 1) (some m.name :: chainOf q.reverse) (.record fs) = _
      rw [nodePaths_record_st, chainOf_snoc_st, philPath_node_st _ hq',
        kidsPaths_extractSpec_st e kids fs (q ++ [m.name]) f hn.2 hq' hfs (by omega)]
theorem kidsPaths_extractSpec_st (e : Envs) : ∀ (kids : List Obj) (fs : List (Str × PVal)) (q : List Str)
    (fuel : Nat), ScopeNamedKids_st kids → (∀ s ∈ q, s ≠ []) → extractSpecKids e kids = .ok fs →
    depthL kids ≤ fuel → fs.flatMap (kidPaths_st fuel (chainOf q.reverse)) = scopePathsKids_st kids q
  | [], fs, q, fuel, _, _, h, _ => by
    rw [extractSpecKids] at h
    cases h
    rw [scopePathsKids_st]; rfl
  | o :: os, fs, q, fuel, hn, hq, h, hd => by
    rw [ScopeNamedKids_st] at hn
    rw [depthL] at hd
    have hdo : depthT o ≤ fuel := Nat.le_trans (Nat.le_max_left _ _) hd
    have hds : depthL os ≤ fuel := Nat.le_trans (Nat.le_max_right _ _) hd
    rw [extractSpecKids] at h
    rw [scopePathsKids_st]
    by_cases ht : o.meta.tmpl < 0
    · simp only [ht, if_true] at h
      rw [scopePathsObj_dead_st o q (not_live_st o (.inr ht)), List.nil_append]
      exact kidsPaths_extractSpec_st e os fs q fuel hn.2 hq h hds
    · simp only [ht, if_false] at h
      by_cases hdis : (o.meta.disabled || decide (o.meta.tmpl > 0)) = true
      · simp only [hdis, if_true] at h
        cases hr : extractSpecKids e os with
        | error err => rw [hr] at h; cases h
        | ok rest =>
          rw [hr] at h
          simp only [Except.map, Except.ok.injEq] at h
          subst h
          rw [scopePathsObj_dead_st o q (not_live_st o (.inl hdis)), List.nil_append, List.flatMap_cons,
            kidsPaths_extractSpec_st e os rest q fuel hn.2 hq hr hds]
          rfl
      · simp only [hdis, if_false, Bool.false_eq_true] at h
        have hlive : liveObjB_xt o = true := by
          unfold liveObjB_xt
          simp only [Bool.or_eq_true, decide_eq_true_eq, not_or, Bool.not_eq_true] at hdis
          simp only [Bool.and_eq_true, Bool.not_eq_true', beq_iff_eq]
          exact ⟨hdis.1, by omega⟩
        cases hv : extractSpec e o with
        | error err => rw [hv] at h; cases h
        | ok v =>
          rw [hv] at h
          cases hr : extractSpecKids e os with
          | error err => rw [hr] at h; cases h
          | ok rest =>
            rw [hr] at h
            simp only [Except.map, Except.ok.injEq] at h
            subst h
            rw [List.flatMap_cons, kidPaths_extractSpec_st e o v q fuel hn.1 hq hlive hv hdo,
              kidsPaths_extractSpec_st e os rest q fuel hn.2 hq hr hds]
end

/-- **node paths of an extraction**: on a tree without `.multiple` whose sibling names are pairwise
    distinct and whose scopes are named, every `scope_extract` node reports the dotted path of the
    scope it was extracted from -/
theorem nodePaths_extract_st (e : Envs) (fuel fuel' : Nat) (root : Meta) (kids : List Obj) (v : PVal)
    (hk : DKids_xt kids) (hpw : (kids.map Obj.name).Pairwise (· ≠ ·)) (hn : ScopeNamedKids_st kids)
    (hd : depthL kids + 1 < fuel) (hd' : depthL kids < fuel')
    (h : extractObj e fuel (.scope root kids) = .ok v) :
    nodePaths fuel' [some []] v = scopePaths kids [] := by
  rw [extractObj_root_eq_spec_xt e fuel root kids hk hpw hd] at h
  obtain ⟨fs, rfl, hfs⟩ := extractSpec_scope_record_xt e root kids v h
  cases fuel' with
  | zero => omega
  | succ f =>
    have hq : ∀ s ∈ ([] : List Str), s ≠ [] := by intro s hs; cases hs
    have hc : ([some []] : List (Option Str)) = chainOf ([] : List Str).reverse := rfl
    rw [hc, nodePaths_record_st, philPath_node_st _ hq,
      kidsPaths_extractSpec_st e kids fs [] f hn hq hfs (by omega)]
    rfl

/-! ## 2. navigation: the node at a path is the extraction of the scope at that path -/

/-- the fields of the `scope_extract` reached from `v` through the attribute names `p` -/
def nodeAt : PVal → List Str → Option (List (Str × PVal))
  | .record fs, [] => some fs
  | .record fs, s :: ps =>
    (match fieldGet fs s with
     | some sub => nodeAt sub ps
     | none => none)
  | _, _ => none

/-- the children of the scope reached through the names `p`, every scope on the way enabled and not a
    template -/
def scopeAt_st : List Obj → List Str → Option (List Obj)
  | kids, [] => some kids
  | kids, s :: ps =>
    match findNamedTree kids s with
    | some (.scope m k') => if liveObjB_xt (.scope m k') then scopeAt_st k' ps else none
    | _ => none

theorem nodeAt_some_record_st (v : PVal) (p : List Str) (fields : List (Str × PVal))
    (h : nodeAt v p = some fields) : ∃ fs, v = .record fs := by
  cases v with
  | record fs => exact ⟨fs, rfl⟩
  | _ => cases p <;> simp [nodeAt] at h

theorem extractSpecKids_names_st (e : Envs) (kids : List Obj) (fs : List (Str × PVal))
    (h : extractSpecKids e kids = .ok fs) : fs.map (fun p => p.1) = (liveKids kids).map Obj.name := by
  rw [extractSpecKids_eq_mapR_xt] at h
  refine mapR_names_xt _ Obj.name (fun p => p.1) ?_ _ _ h
  intro o y hy
  cases hv : kidValue e o with
  | error err => rw [hv] at hy; cases hy
  | ok v => rw [hv] at hy; cases hy; rfl

theorem findNamed_of_mem_distinct_st : ∀ (kids : List Obj) (o : Obj),
    (kids.map Obj.name).Pairwise (· ≠ ·) → o ∈ kids → findNamedTree kids o.name = some o
  | [], o, _, h => by cases h
  | k :: ks, o, hpw, h => by
    rw [List.map_cons, List.pairwise_cons] at hpw
    rcases List.mem_cons.mp h with rfl | h'
    · exact findNamed_cons_self_xt _ _
    · rw [findNamed_cons_ne_xt k ks o.name (hpw.1 o.name (List.mem_map_of_mem h'))]
      exact findNamed_of_mem_distinct_st ks o hpw.2 h'

theorem fieldGet_some_mem_st (fs : List (Str × PVal)) (s : Str) (v : PVal) (h : fieldGet fs s = some v) :
    s ∈ fs.map (fun p => p.1) := by
  unfold fieldGet at h
  cases hf : fs.find? (fun p => p.1 == s) with
  | none => rw [hf] at h; cases h
  | some kv =>
    have h1 := List.mem_of_find?_eq_some hf
    have h2 := List.find?_some hf
    simp only [beq_iff_eq] at h2
    rw [← h2]
    exact List.mem_map_of_mem h1

/-- a field of an extraction is the value of the child of that name -/
theorem fieldGet_extract_kid_st (e : Envs) (kids : List Obj) (fs : List (Str × PVal)) (s : Str) (sub : PVal)
    (hpw : (kids.map Obj.name).Pairwise (· ≠ ·)) (hfs : extractSpecKids e kids = .ok fs)
    (hg : fieldGet fs s = some sub) :
    ∃ o, o ∈ kids ∧ findNamedTree kids s = some o ∧ ¬ o.meta.tmpl < 0 ∧ kidValue e o = .ok sub := by
  have hmem := fieldGet_some_mem_st fs s sub hg
  rw [extractSpecKids_names_st e kids fs hfs] at hmem
  obtain ⟨o, ho, hname⟩ := List.mem_map.mp hmem
  unfold liveKids at ho
  rw [List.mem_filter] at ho
  have ht : ¬ o.meta.tmpl < 0 := by simpa using ho.2
  obtain ⟨v, hv, hg'⟩ := fieldGet_extractSpecKids_xt e kids fs hpw hfs o ho.1 ht
  rw [hname, hg] at hg'
  cases hg'
  refine ⟨o, ho.1, ?_, ht, hv⟩
  rw [← hname]
  exact findNamed_of_mem_distinct_st kids o hpw ho.1

/-- a child whose value is a record is an enabled non-template scope -/
theorem kidValue_record_st (e : Envs) (o : Obj) (x : List (Str × PVal)) (ht : ¬ o.meta.tmpl < 0)
    (h : kidValue e o = .ok (.record x)) :
    ∃ m k', o = .scope m k' ∧ liveObjB_xt o = true ∧ extractSpecKids e k' = .ok x := by
  unfold kidValue at h
  by_cases hdis : (o.meta.disabled || decide (o.meta.tmpl > 0)) = true
  · simp only [hdis, if_true] at h; cases h
  · simp only [hdis, if_false, Bool.false_eq_true] at h
    have hlive : liveObjB_xt o = true := by
      unfold liveObjB_xt
      simp only [Bool.or_eq_true, decide_eq_true_eq, not_or, Bool.not_eq_true] at hdis
      simp only [Bool.and_eq_true, Bool.not_eq_true', beq_iff_eq]
      exact ⟨hdis.1, by omega⟩
    cases o with
    | defn m ws =>
      rw [extractSpec] at h
      exact absurd rfl ((extractDefn_not_node_st e m ws _ h).1 x)
    | scope m k' =>
      obtain ⟨fs, hr, hfs⟩ := extractSpec_scope_record_xt e m k' _ h
      cases hr
      exact ⟨m, k', rfl, hlive, hfs⟩

/-- **every node of the extraction is the extraction of a scope of the tree**: the node reached
    through the attribute names `p` holds the fields extracted from the children `mk` of the scope
    reached through the same names -/
theorem nodeAt_extractSpec_st (e : Envs) : ∀ (p : List Str) (kids : List Obj) (fs fields : List (Str × PVal)),
    DKids_xt kids → (kids.map Obj.name).Pairwise (· ≠ ·) → extractSpecKids e kids = .ok fs →
    nodeAt (.record fs) p = some fields →
    ∃ mk, scopeAt_st kids p = some mk ∧ extractSpecKids e mk = .ok fields
  | [], kids, fs, fields, _, _, hfs, h => by
    rw [nodeAt] at h
    cases h
    exact ⟨kids, by rw [scopeAt_st], hfs⟩
  | s :: ps, kids, fs, fields, hk, hpw, hfs, h => by
    rw [nodeAt] at h
    cases hg : fieldGet fs s with
    | none => rw [hg] at h; cases h
    | some sub =>
      rw [hg] at h
      simp only at h
      obtain ⟨x, rfl⟩ := nodeAt_some_record_st sub ps fields h
      obtain ⟨o, hmem, hfind, ht, hkv⟩ := fieldGet_extract_kid_st e kids fs s _ hpw hfs hg
      obtain ⟨m, k', rfl, hlive, hx⟩ := kidValue_record_st e o x ht hkv
      have hdo := (dkids_iff_xt kids).1 hk _ hmem
      rw [DObj_xt] at hdo
      obtain ⟨mk, h1, h2⟩ := nodeAt_extractSpec_st e ps k' x fields hdo.2.1 hdo.2.2 hx h
      refine ⟨mk, ?_, h2⟩
      rw [scopeAt_st, hfind]
      simp only [hlive, if_true]
      exact h1

/-- conversely, every enabled scope of the tree has its node -/
theorem scopeAt_has_node_st (e : Envs) : ∀ (p : List Str) (kids mk : List Obj) (fs : List (Str × PVal)),
    DKids_xt kids → (kids.map Obj.name).Pairwise (· ≠ ·) → extractSpecKids e kids = .ok fs →
    scopeAt_st kids p = some mk →
    ∃ fields, nodeAt (.record fs) p = some fields ∧ extractSpecKids e mk = .ok fields
  | [], kids, mk, fs, _, _, hfs, h => by
    rw [scopeAt_st] at h
    cases h
    exact ⟨fs, by rw [nodeAt], hfs⟩
  | s :: ps, kids, mk, fs, hk, hpw, hfs, h => by
    rw [scopeAt_st] at h
    cases hfn : findNamedTree kids s with
    | none => rw [hfn] at h; cases h
    | some o =>
      rw [hfn] at h
      cases o with
      | defn m ws => cases h
      | scope m k' =>
        simp only at h
        by_cases hlive : liveObjB_xt (.scope m k') = true
        · simp only [hlive, if_true] at h
          obtain ⟨hmem, hname⟩ := findNamed_mem_xt hfn
          obtain ⟨v, hv, hg⟩ := fieldGet_extractSpecKids_xt e kids fs hpw hfs _ hmem
            (live_not_placeholder_xt _ hlive)
          rw [kidValue_live_xt e _ hlive] at hv
          obtain ⟨x, rfl, hx⟩ := extractSpec_scope_record_xt e m k' v hv
          have hdo := (dkids_iff_xt kids).1 hk _ hmem
          rw [DObj_xt] at hdo
          obtain ⟨fields, h1, h2⟩ := scopeAt_has_node_st e ps k' mk x hdo.2.1 hdo.2.2 hx h
          refine ⟨fields, ?_, h2⟩
          rw [hname] at hg
          rw [nodeAt, hg]
          exact h1
        · simp only [hlive, if_false, Bool.false_eq_true] at h
          cases h

/-- the names on a path to a scope are non-empty -/
theorem scopeAt_names_st : ∀ (p : List Str) (kids mk : List Obj), ScopeNamedKids_st kids →
    scopeAt_st kids p = some mk → ∀ s ∈ p, s ≠ []
  | [], _, _, _, _ => by intro s hs; cases hs
  | s :: ps, kids, mk, hn, h => by
    rw [scopeAt_st] at h
    cases hfn : findNamedTree kids s with
    | none => rw [hfn] at h; cases h
    | some o =>
      rw [hfn] at h
      cases o with
      | defn m ws => cases h
      | scope m k' =>
        simp only at h
        by_cases hlive : liveObjB_xt (.scope m k') = true
        · simp only [hlive, if_true] at h
          obtain ⟨hmem, hname⟩ := findNamed_mem_xt hfn
          have hso := (scopeNamedKids_iff_st kids).1 hn _ hmem
          rw [ScopeNamed_st] at hso
          intro t ht
          rcases List.mem_cons.mp ht with rfl | ht
          · rw [← hname]; exact hso.1
          · exact scopeAt_names_st ps k' mk hso.2 h t ht
        · simp only [hlive, if_false, Bool.false_eq_true] at h
          cases h

theorem any_fst_iff_st (fields : List (Str × PVal)) (name : Str) :
    fields.any (fun p => p.1 == name) = true ↔ name ∈ fields.map (fun p => p.1) := by
  simp only [List.any_eq_true, beq_iff_eq, List.mem_map]

/-- the assignment guard of the node at `p` -/
theorem setAttr_node_st (p : List Str) (hp : ∀ s ∈ p, s ≠ []) (fields : List (Str × PVal)) (name : Str)
    (x : PVal) :
    (name ∈ fields.map (fun q => q.1) →
      setAttr (chainOf p.reverse) fields name x = .ok (fieldSet fields name x)) ∧
    (name ∉ fields.map (fun q => q.1) → builtinAttrs.contains (String.ofList name) = false →
      setAttr (chainOf p.reverse) fields name x = .attributeError (dotted (p ++ [name]))) := by
  constructor
  · intro h
    exact setattr_declared _ fields name x ((any_fst_iff_st fields name).2 h)
  · intro h hb
    have : fields.any (fun q => q.1 == name) = false := by
      cases hh : fields.any (fun q => q.1 == name) with
      | false => rfl
      | true => exact absurd ((any_fst_iff_st fields name).1 hh) h
    rw [setattr_guard _ fields name x this hb, errPath_node_st p hp]

/-- inject-once at the node at `p` -/
theorem inject_node_st (p : List Str) (hp : ∀ s ∈ p, s ≠ []) (fields : List (Str × PVal)) (name : Str)
    (x x' : PVal) (h : name ∉ fields.map (fun q => q.1))
    (hb : builtinAttrs.contains (String.ofList name) = false) :
    ∃ fields', inject (chainOf p.reverse) fields name x = .ok fields' ∧
      fields' = fields ++ [(name, x)] ∧
      inject (chainOf p.reverse) fields' name x' = .attributeError (dotted (p ++ [name])) := by
  have hany : fields.any (fun q => q.1 == name) = false := by
    cases hh : fields.any (fun q => q.1 == name) with
    | false => rfl
    | true => exact absurd ((any_fst_iff_st fields name).1 hh) h
  obtain ⟨fields', h1, h2⟩ := inject_once (chainOf p.reverse) fields name x x' hany hb
  refine ⟨fields', h1, ?_, ?_⟩
  · have hb' : String.ofList name ∉ builtinAttrs := by simpa using hb
    simp only [inject, hasAttr, hany, hb', List.contains_eq_mem, decide_false, Bool.or_self,
      Bool.false_eq_true, if_false, SetResult.ok.injEq] at h1
    rw [← h1]
    simp [fieldSet, hany]
  · rw [h2, errPath_node_st p hp]

/-! ## 3. extracted values with `scope_extract_list`s: records and `.multi` lists of records -/

mutual
/-- the paths reported below a node with path `p` (root first): a record field `n` is a node with path
    `p.n`; EVERY record element of a `.multi` field `n` is a node with that same path `p.n` -/
def fieldsPaths_st : List (Str × PVal) → List Str → List Str
  | [], _ => []
  | (n, x) :: rest, p =>
    (match x with
     | .record fs => dotted (p ++ [n]) :: fieldsPaths_st fs (p ++ [n])
     | .multi _ l => elemsPaths_st l (p ++ [n])
     | _ => []) ++ fieldsPaths_st rest p
/-- the elements of a `scope_extract_list` whose path is `q` -/
def elemsPaths_st : List PVal → List Str → List Str
  | [], _ => []
  | x :: xs, q =>
    (match x with
     | .record fs => dotted q :: fieldsPaths_st fs q
     | _ => []) ++ elemsPaths_st xs q
end

/-- the paths of all nodes of a value whose own path is `p` -/
def valPaths_st (v : PVal) (p : List Str) : List Str :=
  match v with
  | .record fs => dotted p :: fieldsPaths_st fs p
  | _ => []

mutual
/-- nesting depth of records -/
def valDepth_st : PVal → Nat
  | .record fs => fieldsDepth_st fs + 1
  | .multi _ l => elemsDepth_st l
  | _ => 0
def fieldsDepth_st : List (Str × PVal) → Nat
  | [] => 0
  | (_, x) :: rest => Nat.max (valDepth_st x) (fieldsDepth_st rest)
def elemsDepth_st : List PVal → Nat
  | [] => 0
  | x :: xs => Nat.max (valDepth_st x) (elemsDepth_st xs)
end

mutual
/-- every attribute name at every depth is non-empty (Python attribute names are) -/
def NamedVal_st : PVal → Prop
  | .record fs => NamedFields_st fs
  | .multi _ l => NamedElems_st l
  | _ => True
def NamedFields_st : List (Str × PVal) → Prop
  | [] => True
  | (n, x) :: rest => n ≠ [] ∧ NamedVal_st x ∧ NamedFields_st rest
def NamedElems_st : List PVal → Prop
  | [] => True
  | x :: xs => NamedVal_st x ∧ NamedElems_st xs
end

mutual
def namedValB_st : PVal → Bool
  | .record fs => namedFieldsB_st fs
  | .multi _ l => namedElemsB_st l
  | _ => true
def namedFieldsB_st : List (Str × PVal) → Bool
  | [] => true
  | (n, x) :: rest => !n.isEmpty && namedValB_st x && namedFieldsB_st rest
def namedElemsB_st : List PVal → Bool
  | [] => true
  | x :: xs => namedValB_st x && namedElemsB_st xs
end

mutual
theorem namedValB_sound_st : ∀ (v : PVal), namedValB_st v = true → NamedVal_st v
  | .record fs, h => by rw [namedValB_st] at h; rw [NamedVal_st]; exact namedFieldsB_sound_st fs h
  | .multi _ l, h => by rw [namedValB_st] at h; rw [NamedVal_st]; exact namedElemsB_sound_st l h
  | .none, _ => by simp [NamedVal_st]
  | .auto, _ => by simp [NamedVal_st]
  | .bool _, _ => by simp [NamedVal_st]
  | .num _, _ => by simp [NamedVal_st]
  | .str _, _ => by simp [NamedVal_st]
  | .list _, _ => by simp [NamedVal_st]
  | .words _, _ => by simp [NamedVal_st]
theorem namedFieldsB_sound_st : ∀ (fs : List (Str × PVal)), namedFieldsB_st fs = true → NamedFields_st fs
  | [], _ => by rw [NamedFields_st]; trivial
  | (n, x) :: rest, h => by
    rw [namedFieldsB_st] at h
    simp only [Bool.and_eq_true] at h
    rw [NamedFields_st]
    refine ⟨?_, namedValB_sound_st x h.1.2, namedFieldsB_sound_st rest h.2⟩
    intro hn
    rw [hn] at h
    simp at h
theorem namedElemsB_sound_st : ∀ (l : List PVal), namedElemsB_st l = true → NamedElems_st l
  | [], _ => by rw [NamedElems_st]; trivial
  | x :: xs, h => by
    rw [namedElemsB_st, Bool.and_eq_true] at h
    rw [NamedElems_st]
    exact ⟨namedValB_sound_st x h.1, namedElemsB_sound_st xs h.2⟩
end

/-- the function `nodePaths` maps over the elements of a `.multi` field named `n` -/
def elemPaths_st (fuel : Nat) (chain : List (Option Str)) (n : Str) (x : PVal) : List Str :=
  match x with
  | .record _ => nodePaths fuel (some n :: chain) x
  | _ => []

theorem kidPaths_multi_st (fuel : Nat) (chain : List (Option Str)) (n : Str) (o : AttrVal) (l : List PVal) :
    kidPaths_st fuel chain (n, .multi o l) = l.flatMap (elemPaths_st fuel chain n) := rfl

theorem snoc_named_st (q : List Str) (n : Str) (hq : ∀ s ∈ q, s ≠ []) (hn : n ≠ []) :
    ∀ s ∈ q ++ [n], s ≠ [] := by
  intro s hs
  rcases List.mem_append.mp hs with hs | hs
  · exact hq s hs
  · simp only [List.mem_singleton] at hs; rw [hs]; exact hn

theorem fieldsPaths_cons_st (n : Str) (x : PVal) (rest : List (Str × PVal)) (p : List Str) :
    fieldsPaths_st ((n, x) :: rest) p =
      (match x with
       | .record fs => dotted (p ++ [n]) :: fieldsPaths_st fs (p ++ [n])
       | .multi _ l => elemsPaths_st l (p ++ [n])
       | _ => []) ++ fieldsPaths_st rest p := by
  cases x <;> simp [fieldsPaths_st]

theorem elemsPaths_cons_st (x : PVal) (xs : List PVal) (q : List Str) :
    elemsPaths_st (x :: xs) q =
      (match x with
       | .record fs => dotted q :: fieldsPaths_st fs q
       | _ => []) ++ elemsPaths_st xs q := by
  cases x <;> simp [elemsPaths_st]

mutual
theorem fieldsPaths_nodePaths_st : ∀ (fs : List (Str × PVal)) (q : List Str) (fuel : Nat),
    NamedFields_st fs → (∀ s ∈ q, s ≠ []) → fieldsDepth_st fs ≤ fuel →
    fs.flatMap (kidPaths_st fuel (chainOf q.reverse)) = fieldsPaths_st fs q
  | [], q, fuel, _, _, _ => by rw [fieldsPaths_st]; rfl
  | (n, x) :: rest, q, fuel, hn, hq, hd => by
    rw [NamedFields_st] at hn
    rw [fieldsDepth_st] at hd
    have hdx : valDepth_st x ≤ fuel := Nat.le_trans (Nat.le_max_left _ _) hd
    have hdr : fieldsDepth_st rest ≤ fuel := Nat.le_trans (Nat.le_max_right _ _) hd
    have hq' := snoc_named_st q n hq hn.1
    rw [List.flatMap_cons, fieldsPaths_cons_st, fieldsPaths_nodePaths_st rest q fuel hn.2.2 hq hdr]
    congr 1
    cases x with
    | record fs' =>
      rw [valDepth_st] at hdx
      have hnx := hn.2.1
      rw [NamedVal_st] at hnx
      cases fuel with
      | zero => omega
      | succ f =>
        show nodePaths (f + 1) (some n :: chainOf q.reverse) (.record fs') = _
        rw [nodePaths_record_st, chainOf_snoc_st, philPath_node_st _ hq',
          fieldsPaths_nodePaths_st fs' (q ++ [n]) f hnx hq' (by omega)]
    | multi o l =>
      rw [valDepth_st] at hdx
      have hnx := hn.2.1
      rw [NamedVal_st] at hnx
      rw [kidPaths_multi_st]
      exact elemsPaths_nodePaths_st l q n fuel hnx hq hn.1 hdx
    | _ => rfl
theorem elemsPaths_nodePaths_st : ∀ (l : List PVal) (q : List Str) (n : Str) (fuel : Nat),
    NamedElems_st l → (∀ s ∈ q, s ≠ []) → n ≠ [] → elemsDepth_st l ≤ fuel →
    l.flatMap (elemPaths_st fuel (chainOf q.reverse) n) = elemsPaths_st l (q ++ [n])
  | [], q, n, fuel, _, _, _, _ => by rw [elemsPaths_st]; rfl
  | x :: xs, q, n, fuel, hl, hq, hn, hd => by
    rw [NamedElems_st] at hl
    rw [elemsDepth_st] at hd
    have hdx : valDepth_st x ≤ fuel := Nat.le_trans (Nat.le_max_left _ _) hd
    have hdr : elemsDepth_st xs ≤ fuel := Nat.le_trans (Nat.le_max_right _ _) hd
    have hq' := snoc_named_st q n hq hn
    rw [List.flatMap_cons, elemsPaths_cons_st, elemsPaths_nodePaths_st xs q n fuel hl.2 hq hn hdr]
    congr 1
    cases x with
    | record fs' =>
      rw [valDepth_st] at hdx
      have hnx := hl.1
      rw [NamedVal_st] at hnx
      cases fuel with
      | zero => omega
      | succ f =>
        show nodePaths (f + 1) (some n :: chainOf q.reverse) (.record fs') = _
        rw [nodePaths_record_st, chainOf_snoc_st, philPath_node_st _ hq',
          fieldsPaths_nodePaths_st fs' (q ++ [n]) f hnx hq' (by omega)]
    | _ => rfl
end

/-- **node paths of any extracted value** (records, `.multi` lists of records, to any depth): the node
    with path `q` reports `dotted q`, and so on below it -/
theorem nodePaths_value_st (fs : List (Str × PVal)) (q : List Str) (fuel : Nat)
    (hn : NamedFields_st fs) (hq : ∀ s ∈ q, s ≠ []) (hd : fieldsDepth_st fs < fuel) :
    nodePaths fuel (chainOf q.reverse) (.record fs) = dotted q :: fieldsPaths_st fs q := by
  cases fuel with
  | zero => omega
  | succ f =>
    rw [nodePaths_record_st, philPath_node_st _ hq, fieldsPaths_nodePaths_st fs q f hn hq (by omega)]

theorem elemsPaths_eq_flatMap_st : ∀ (l : List PVal) (q : List Str),
    elemsPaths_st l q = l.flatMap (fun x => valPaths_st x q)
  | [], q => by rw [elemsPaths_st]; rfl
  | x :: xs, q => by
    rw [elemsPaths_cons_st, List.flatMap_cons, elemsPaths_eq_flatMap_st xs q]
    congr 1

/-- a record none of whose fields is a node -/
def LeafRecord_st (x : PVal) : Prop := ∃ fs, x = .record fs ∧ fieldsPaths_st fs = fun _ => []

theorem elemsPaths_leaves_st : ∀ (l : List PVal) (q : List Str), (∀ x ∈ l, LeafRecord_st x) →
    elemsPaths_st l q = List.replicate l.length (dotted q)
  | [], q, _ => by rw [elemsPaths_st]; rfl
  | x :: xs, q, h => by
    obtain ⟨fs, rfl, hfs⟩ := h x List.mem_cons_self
    rw [elemsPaths_cons_st, elemsPaths_leaves_st xs q (fun y hy => h y (List.mem_cons_of_mem _ hy))]
    simp only [hfs, List.length_cons, List.replicate_succ]
    rfl

/-! ## 4. the result of a tree fetch: its scopes are the master's, whatever the sources -/

mutual
def masterScopePathsObj_st : Obj → List Str → List Str
  | .defn _ _, _ => []
  | .scope m kids, p => dotted (p ++ [m.name]) :: masterScopePathsKids_st kids (p ++ [m.name])
/-- the dotted paths of ALL scopes below the scope with path `p`, pre-order -/
def masterScopePathsKids_st : List Obj → List Str → List Str
  | [], _ => []
  | o :: os, p => masterScopePathsObj_st o p ++ masterScopePathsKids_st os p
end

/-- the dotted paths of all scopes of a master (every scope of a `TreeMaster` is enabled) -/
def masterScopePaths_st (kids : List Obj) (p : List Str) : List Str :=
  dotted p :: masterScopePathsKids_st kids p

mutual
/-- every scope is enabled and not a template -/
def scopesLiveB_st : Obj → Bool
  | .defn _ _ => true
  | .scope m kids => !m.disabled && m.tmpl == 0 && scopesLiveKidsB_st kids
def scopesLiveKidsB_st : List Obj → Bool
  | [] => true
  | o :: os => scopesLiveB_st o && scopesLiveKidsB_st os
end

mutual
theorem masterScopePathsObj_live_st : ∀ (o : Obj) (p : List Str), scopesLiveB_st o = true →
    masterScopePathsObj_st o p = scopePathsObj_st o p
  | .defn _ _, p, _ => by rw [masterScopePathsObj_st, scopePathsObj_st]
  | .scope m kids, p, h => by
    rw [scopesLiveB_st, Bool.and_eq_true] at h
    rw [masterScopePathsObj_st, scopePathsObj_st, h.1, masterScopePathsKids_live_st kids _ h.2]
    rfl
theorem masterScopePathsKids_live_st : ∀ (l : List Obj) (p : List Str), scopesLiveKidsB_st l = true →
    masterScopePathsKids_st l p = scopePathsKids_st l p
  | [], p, _ => by rw [masterScopePathsKids_st, scopePathsKids_st]
  | o :: os, p, h => by
    rw [scopesLiveKidsB_st, Bool.and_eq_true] at h
    rw [masterScopePathsKids_st, scopePathsKids_st, masterScopePathsObj_live_st o p h.1,
      masterScopePathsKids_live_st os p h.2]
end

/-- when every scope of the master is enabled and not a template (what the parser delivers for a
    `TreeMaster`), all its scopes are its enabled scopes -/
theorem masterScopePaths_live_st (kids : List Obj) (p : List Str) (h : scopesLiveKidsB_st kids = true) :
    masterScopePaths_st kids p = scopePaths kids p := by
  unfold masterScopePaths_st scopePaths
  rw [masterScopePathsKids_live_st kids p h]

mutual
theorem scopePathsObj_treeObj_st : ∀ (mo : Obj) (srcs : List Obj) (p : List Str), TreeObj mo →
    scopePathsObj_st (treeObj mo srcs) p = masterScopePathsObj_st mo p
  | .defn mm mws, srcs, p, _ => by
    rw [treeObj, masterScopePathsObj_st]
    cases lastDef srcs mm.name <;> (dsimp only; rw [scopePathsObj_st])
  | .scope mm kids, srcs, p, ht => by
    rw [TreeObj] at ht
    rw [treeObj, scopePathsObj_st, masterScopePathsObj_st]
    simp only [ht.2.2.2.1, Bool.not_false, beq_self_eq_true, Bool.and_self, if_true]
    rw [scopePathsKids_treeResult_st kids _ _ ht.2.2.2.2.1]
theorem scopePathsKids_treeResult_st : ∀ (mkids : List Obj) (srcs : List Obj) (p : List Str),
    TreeKids mkids → scopePathsKids_st (treeResult mkids srcs) p = masterScopePathsKids_st mkids p
  | [], srcs, p, _ => by rw [treeResult, scopePathsKids_st, masterScopePathsKids_st]
  | mo :: rest, srcs, p, ht => by
    rw [TreeKids] at ht
    rw [treeResult, scopePathsKids_st, masterScopePathsKids_st, scopePathsObj_treeObj_st mo srcs p ht.1,
      scopePathsKids_treeResult_st rest srcs p ht.2]
end

mutual
theorem scopeNamed_treeObj_st : ∀ (mo : Obj) (srcs : List Obj), TreeObj mo → ScopeNamed_st (treeObj mo srcs)
  | .defn mm mws, srcs, _ => by
    rw [treeObj]
    cases lastDef srcs mm.name <;> (dsimp only; rw [ScopeNamed_st]; trivial)
  | .scope mm kids, srcs, ht => by
    rw [TreeObj] at ht
    rw [treeObj, ScopeNamed_st]
    exact ⟨ht.2.1, scopeNamedKids_treeResult_st kids _ ht.2.2.2.2.1⟩
theorem scopeNamedKids_treeResult_st : ∀ (mkids : List Obj) (srcs : List Obj), TreeKids mkids →
    ScopeNamedKids_st (treeResult mkids srcs)
  | [], srcs, _ => by rw [treeResult, ScopeNamedKids_st]; trivial
  | mo :: rest, srcs, ht => by
    rw [TreeKids] at ht
    rw [treeResult, ScopeNamedKids_st]
    exact ⟨scopeNamed_treeObj_st mo srcs ht.1, scopeNamedKids_treeResult_st rest srcs ht.2⟩
end

mutual
theorem scopeNamed_of_treeObj_st : ∀ (mo : Obj), TreeObj mo → ScopeNamed_st mo
  | .defn mm mws, _ => by rw [ScopeNamed_st]; trivial
  | .scope mm kids, ht => by
    rw [TreeObj] at ht
    rw [ScopeNamed_st]
    exact ⟨ht.2.1, scopeNamedKids_of_treeKids_st kids ht.2.2.2.2.1⟩
theorem scopeNamedKids_of_treeKids_st : ∀ (mkids : List Obj), TreeKids mkids → ScopeNamedKids_st mkids
  | [], _ => by rw [ScopeNamedKids_st]; trivial
  | mo :: rest, ht => by
    rw [TreeKids] at ht
    rw [ScopeNamedKids_st]
    exact ⟨scopeNamed_of_treeObj_st mo ht.1, scopeNamedKids_of_treeKids_st rest ht.2⟩
end

/-- the children of the master scope reached through the names `p` -/
def masterAt_st : List Obj → List Str → Option (List Obj)
  | kids, [] => some kids
  | kids, s :: ps =>
    match findNamedTree kids s with
    | some (.scope _ k') => masterAt_st k' ps
    | _ => none

/-- the scope of the result at a path is the result of the master scope at that path, computed from
    the sources reached by that path -/
theorem scopeAt_treeResult_st : ∀ (ps : List Str) (mkids srcs : List Obj), TreeKids mkids →
    scopeAt_st (treeResult mkids srcs) ps = (masterAt_st mkids ps).map (fun mk => treeResult mk (srcAt srcs ps))
  | [], mkids, srcs, _ => by rw [scopeAt_st, masterAt_st, srcAt]; rfl
  | s :: ps, mkids, srcs, ht => by
    rw [scopeAt_st, masterAt_st, findNamed_treeResult, srcAt]
    cases hfn : findNamedTree mkids s with
    | none => rfl
    | some mo =>
      have hto := (treeKids_iff mkids).1 ht mo (findNamed_mem hfn)
      cases mo with
      | defn mm mws =>
        simp only [Option.map_some]
        rw [treeObj]
        cases lastDef srcs mm.name <;> rfl
      | scope mm kids =>
        have hname : mm.name = s := findNamed_name hfn
        rw [TreeObj] at hto
        simp only [Option.map_some, treeObj]
        have hlive : liveObjB_xt (.scope { mm with tmpl := 0 } (treeResult kids (srcStep srcs mm.name))) = true := by
          rw [liveObjB_scope_st]; simp [hto.2.2.2.1]
        simp only [hlive, if_true]
        rw [scopeAt_treeResult_st ps kids (srcStep srcs mm.name) hto.2.2.2.2.1, hname]

theorem masterAt_treeKids_st : ∀ (ps : List Str) (mkids mk : List Obj), TreeKids mkids →
    masterAt_st mkids ps = some mk → TreeKids mk
  | [], mkids, mk, ht, h => by rw [masterAt_st] at h; cases h; exact ht
  | s :: ps, mkids, mk, ht, h => by
    rw [masterAt_st] at h
    cases hfn : findNamedTree mkids s with
    | none => rw [hfn] at h; cases h
    | some mo =>
      rw [hfn] at h
      have hto := (treeKids_iff mkids).1 ht mo (findNamed_mem hfn)
      cases mo with
      | defn mm mws => cases h
      | scope mm kids =>
        rw [TreeObj] at hto
        exact masterAt_treeKids_st ps kids mk hto.2.2.2.2.1 h

theorem treeObj_tmpl_st (mo : Obj) (srcs : List Obj) (h : ¬ mo.meta.tmpl < 0) :
    ¬ (treeObj mo srcs).meta.tmpl < 0 := by
  cases mo with
  | defn mm mws =>
    rw [treeObj]
    cases lastDef srcs mm.name with
    | none => exact h
    | some d => simp [Obj.meta]
  | scope mm kids => rw [treeObj]; simp [Obj.meta]

/-- the fields of a node of `master.fetch(sources).extract()` carry the names of the master's
    children (none of them a template placeholder), whatever the sources -/
theorem liveKids_treeResult_names_st (mk srcs : List Obj) (h : ∀ o ∈ mk, ¬ o.meta.tmpl < 0) :
    (liveKids (treeResult mk srcs)).map Obj.name = mk.map Obj.name := by
  have : liveKids (treeResult mk srcs) = treeResult mk srcs := by
    unfold liveKids
    rw [List.filter_eq_self]
    intro o ho
    rw [treeResult_eq_map] at ho
    obtain ⟨mo, hmo, rfl⟩ := List.mem_map.mp ho
    have := treeObj_tmpl_st mo srcs (h mo hmo)
    simpa using this
  rw [this, treeResult_names]

end Phil
