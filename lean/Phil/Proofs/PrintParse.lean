/-
  Lemmas behind the print → parse round trip (C01): what `definition.show` prints for a definition
  without attributes when no line is wrapped, what `collect_assigned_words` reads back from such a
  line (any number of words, plain or quoted, quoted words of any content), and the loop of
  `collect_objects` over a flat document of such lines.
-/
import Phil.Show
import Phil.Proofs.ParseLemmas
import Phil.Proofs.ShowLaws
set_option linter.unusedSimpArgs false
set_option linter.unusedVariables false
namespace Phil

/-! ### the printed text of a word list -/

/-- what `definition.show` appends to `name =` when nothing is wrapped: a blank and `str(word)` per word -/
def wordsText : List Word → Str
  | [] => []
  | w :: ws => ' ' :: (w.str ++ wordsText ws)

/-- a word the round trip is stated for: a quoted word of any content, or a plain unquoted word -/
def goodWord (w : Word) : Bool := w.quote.isSome || plainWord w.value

/-- An unquoted word must not directly follow a quoted word that contains a newline (the parser ends
    the value in front of it: it compares the line of the word with the line on which the previous
    word *started*).  `same` = the previous word ended on the line on which it started. -/
def chainOK : Bool → List Word → Bool
  | _, [] => true
  | same, w :: ws => (w.quote.isSome || same) && chainOK (nlCount w.value == 0) ws

/-- the words as the parser returns them: every word carries the line on which it starts -/
def reline : Nat → List Word → List Word
  | _, [] => []
  | l, w :: ws => { w with line := some l } :: reline (l + nlCount w.value) ws

/-- the line on which the last word ends -/
def endLine : Nat → List Word → Nat
  | l, [] => l
  | l, w :: ws => endLine (l + nlCount w.value) ws

theorem endLine_eq (l : Nat) (ws : List Word) :
    endLine l ws = l + nlCount (ws.flatMap (·.value)) := by
  induction ws generalizing l with
  | nil => rfl
  | cons w ws ih => rw [endLine, ih, List.flatMap_cons, nlCount_append]; omega

theorem reline_length (l : Nat) (ws : List Word) : (reline l ws).length = ws.length := by
  induction ws generalizing l with
  | nil => rfl
  | cons w ws ih => simp [reline, ih]

/-- without newlines in the words every word is on the line of the name -/
theorem reline_noNl (l : Nat) (ws : List Word) (h : ∀ w ∈ ws, nlCount w.value = 0) :
    reline l ws = ws.map (fun w => { w with line := some l }) := by
  induction ws with
  | nil => rfl
  | cons w ws ih =>
    have hw := h w (by simp)
    rw [reline, hw, Nat.add_zero, ih (fun v hv => h v (by simp [hv]))]
    rfl

theorem endLine_noNl (l : Nat) (ws : List Word) (h : ∀ w ∈ ws, nlCount w.value = 0) :
    endLine l ws = l := by
  induction ws with
  | nil => rfl
  | cons w ws ih =>
    have hw := h w (by simp)
    rw [endLine, hw, Nat.add_zero, ih (fun v hv => h v (by simp [hv]))]

theorem chainOK_noNl (b : Bool) (ws : List Word) (hb : b = true ∨ ∀ w, ws.head? = some w → w.quote.isSome)
    (h : ∀ w ∈ ws, nlCount w.value = 0) : chainOK b ws = true := by
  induction ws generalizing b with
  | nil => rfl
  | cons w ws ih =>
    have hw := h w (by simp)
    rw [chainOK, hw]
    have : (w.quote.isSome || b) = true := by
      rcases hb with hb | hb
      · simp [hb]
      · simp [hb w rfl]
    rw [this, Bool.true_and]
    exact ih _ (Or.inl (by rfl)) (fun v hv => h v (by simp [hv]))

/-! ### `showWords` when nothing is wrapped -/

theorem wordsText_length_cons (w : Word) (ws : List Word) :
    (wordsText (w :: ws)).length = 1 + w.str.length + (wordsText ws).length := by
  simp [wordsText]; omega

/-- if the complete line fits into `width - 2` columns, all words are printed on it -/
theorem showWords_nowrap (width : Int) (indent : Str) :
    ∀ (ws : List Word) (line : Str) (out : List Str),
      ((line ++ wordsText ws).length : Int) ≤ width - 2 →
      showWords width indent ws line out = out ++ [line ++ wordsText ws] := by
  intro ws
  induction ws with
  | nil => intro line out _; simp [showWords, wordsText]
  | cons w ws ih =>
    intro line out h
    have hlen : ((line ++ ' ' :: w.str).length : Int) ≤ width - 2 := by
      simp only [List.length_append, wordsText_length_cons, List.length_cons] at h ⊢
      omega
    have hnot : ¬ ((line ++ ' ' :: w.str).length : Int) > width - 2 := by omega
    rw [showWords]
    simp only [hnot, decide_false, Bool.false_and, Bool.false_eq_true, ↓reduceIte]
    have e : line ++ wordsText (w :: ws) = (line ++ ' ' :: w.str) ++ wordsText ws := by
      simp [wordsText]
    rw [e] at h ⊢
    exact ih _ out h

/-! ### character classes of names and plain words -/

theorem plain_char_ne_nl {c : Char} (h : endsUnquoted valueSettings c = false) : c ≠ '\n' :=
  ne_nl_of_not_space (isSpace_false_of_not_ends h)

theorem nlCount_of_no_nl (s : Str) (h : ∀ c ∈ s, c ≠ '\n') : nlCount s = 0 := by
  induction s with
  | nil => rfl
  | cons c cs ih =>
    rw [nlCount_cons_ne c cs (h c (by simp))]
    exact ih (fun d hd => h d (by simp [hd]))

theorem plainWord_nlCount {w : Str} (h : plainWord w = true) : nlCount w = 0 := by
  obtain ⟨c, t, rfl, hall, _, _, _⟩ := plainWord_cases h
  exact nlCount_of_no_nl _ (fun d hd => plain_char_ne_nl (hall d hd))

/-! ### the value collector on a whole line of words -/

/-- a newline ends the value whose last word started on line `l ≤ L` when the first non-blank
    character after it (if there is one) is not a quote, not `;` and not `#` -/
theorem EndsValue_next_line_le (rest : Str) (L l : Nat) (hle : l ≤ L)
    (hnext : ∀ c, firstNonSpace rest = some c → isQuoteChar c = false ∧ c ≠ ';' ∧ c ≠ '#') :
    EndsValue ⟨'\n' :: rest, L⟩ l := by
  unfold EndsValue
  rw [nextWord_newline]
  rcases nextWordAux_firstNonSpace valueSettings rfl rest (L + 1) with ⟨_, h⟩ | ⟨c, sp, r, v, rest', hf, _, _, _, h⟩
  · exact Or.inl h
  · obtain ⟨hq, h1, h2⟩ := hnext c hf
    refine Or.inr ⟨_, _, h hq, rfl, ?_, ?_, ?_⟩
    · intro e; simp only [List.cons.injEq] at e; exact h1 e.1
    · intro e; simp only [List.cons.injEq] at e; exact h2 e.1
    · intro e; simp only [Option.some.injEq] at e; omega

/-- the text after a printed word begins with a blank or the newline -/
theorem wordsText_tail_head (ws : List Word) (rest : Str) :
    ∃ d t, wordsText ws ++ '\n' :: rest = d :: t ∧ (d = ' ' ∨ d = '\n') := by
  cases ws with
  | nil => exact ⟨'\n', rest, rfl, Or.inr rfl⟩
  | cons w ws => exact ⟨' ', _, rfl, Or.inl rfl⟩

theorem wordsText_tail_stops (ws : List Word) (rest : Str) :
    stopsAt valueSettings (wordsText ws ++ '\n' :: rest) = true := by
  obtain ⟨d, t, e, hd⟩ := wordsText_tail_head ws rest
  rw [e]
  rcases hd with rfl | rfl <;> rfl

theorem wordsText_tail_not_quote (ws : List Word) (rest : Str) (q : Quote) :
    ∀ r, wordsText ws ++ '\n' :: rest ≠ q.char :: r := by
  intro r h
  obtain ⟨d, t, e, hd⟩ := wordsText_tail_head ws rest
  rw [e] at h
  simp only [List.cons.injEq] at h
  have := h.1
  rcases hd with rfl | rfl <;> cases q <;> simp [Quote.char] at this

theorem space_blank : ∀ d ∈ [' '], isSpace d = true := by
  intro d hd; simp at hd; subst hd; rfl

theorem nlCount_blank : nlCount [' '] = 0 := by decide

/-- `collect_assigned_words` (inner loop) on the printed words of a definition followed by the
    newline: every word is read back with its value and quote style and the line on which it
    starts; the collector stops in front of the newline. -/
theorem cAA_words (rest : Str)
    (hnext : ∀ c, firstNonSpace rest = some c → isQuoteChar c = false ∧ c ≠ ';' ∧ c ≠ '#') :
    ∀ (ws : List Word) (fuel l l0 : Nat) (same : Bool) (last : Word) (acc : List Word),
      (∀ w ∈ ws, goodWord w = true) → chainOK same ws = true → ws.length + 1 ≤ fuel →
      last.line = some l0 → l0 ≤ l → (same = true → l0 = l) → isUnq last "\\" = false →
      collectAssignedAux fuel ⟨wordsText ws ++ '\n' :: rest, l⟩ last false acc
        = .ok (acc.reverse ++ reline l ws, ⟨'\n' :: rest, endLine l ws⟩) := by
  intro ws
  induction ws with
  | nil =>
    intro fuel l l0 same last acc _ _ hf hl hle _ hbs
    obtain ⟨f, rfl⟩ : ∃ f, fuel = f + 1 := ⟨fuel - 1, by simp at hf; omega⟩
    simp only [wordsText, List.nil_append, reline, endLine, List.append_nil]
    exact cAA_stop f _ last acc l0 (EndsValue_next_line_le rest l l0 hle hnext) hl hbs
  | cons w ws ih =>
    intro fuel l l0 same last acc hgood hchain hf hl hle hsame hbs
    obtain ⟨f, rfl⟩ : ∃ f, fuel = f + 1 := ⟨fuel - 1, by simp at hf; omega⟩
    have hf' : ws.length + 1 ≤ f := by simp at hf; omega
    have hgw := hgood w (by simp)
    have hgood' : ∀ v ∈ ws, goodWord v = true := fun v hv => hgood v (by simp [hv])
    rw [chainOK, Bool.and_eq_true] at hchain
    obtain ⟨hc1, hc2⟩ := hchain
    have htext : wordsText (w :: ws) ++ '\n' :: rest
        = [' '] ++ w.str ++ (wordsText ws ++ '\n' :: rest) := by simp [wordsText]
    rw [htext]
    cases hq : w.quote with
    | some q =>
      have hstr : w.str = quoteStr q w.value := by simp [Word.str, hq]
      have hw : nextWord valueSettings ⟨[' '] ++ w.str ++ (wordsText ws ++ '\n' :: rest), l⟩
          = .ok (some ({ value := w.value, quote := some q, line := some l },
                       ⟨wordsText ws ++ '\n' :: rest, l + nlCount w.value⟩)) := by
        unfold nextWord
        simp only []
        rw [List.append_assoc, nextWordAux_skip valueSettings [' '] _ space_blank, nlCount_blank,
          Nat.add_zero, hstr,
          Phil.C03.next_word_of_quoted valueSettings q w.value _ l rfl
            (wordsText_tail_not_quote ws rest q)]
      rw [cAA_quoted f _ _ last _ acc q hw rfl,
        ih f (l + nlCount w.value) l (nlCount w.value == 0) _ _ hgood' hc2 hf' rfl (by omega)
          (by intro h; simp at h; omega) (by simp [isUnq])]
      have : ({ w with line := some l } : Word) = { value := w.value, quote := some q, line := some l } := by
        rw [← hq]
      simp [reline, endLine, this]
    | none =>
      have hpw : plainWord w.value = true := by simpa [goodWord, hq] using hgw
      have hsm : same = true := by simpa [hq] using hc1
      have hll : l0 = l := hsame hsm
      have hstr : w.str = w.value := by simp [Word.str, hq]
      have hnl := plainWord_nlCount hpw
      have hw := nextWord_value_plain [' '] w.value (wordsText ws ++ '\n' :: rest) l space_blank hpw
        (wordsText_tail_stops ws rest)
      rw [nlCount_blank, Nat.add_zero] at hw
      obtain ⟨c, t, e, hall, hqc, hb, hh⟩ := plainWord_cases hpw
      have hsv : isSpecialValue w.value = false := by rw [e]; exact not_special_of_plain hall hh
      have hbv : w.value ≠ ['\\'] := by rw [e]; exact hb
      rw [hstr, cAA_take f _ _ last _ acc hw rfl hsv hbv (by rw [hl, hll]),
        ih f l l (nlCount w.value == 0) _ _ hgood' hc2 hf' rfl (Nat.le_refl _) (fun _ => rfl)
          (by rw [isUnq_backslash]; simpa using hbv)]
      have : ({ w with line := some l } : Word) = { value := w.value, quote := none, line := some l } := by
        rw [← hq]
      simp [reline, endLine, this, hnl]

theorem wordsText_length_ge (ws : List Word) : ws.length ≤ (wordsText ws).length := by
  induction ws with
  | nil => simp [wordsText]
  | cons w ws ih => simp only [wordsText, List.length_cons, List.length_append]; omega

/-- `collect_assigned_words` on the printed, unwrapped value of a definition: the words come back
    with value and quote style, each with the line on which it starts; the newline is left. -/
theorem collectAssigned_words (ws : List Word) (rest : Str) (l : Nat) (lead : Word)
    (hne : ws ≠ []) (hgood : ∀ w ∈ ws, goodWord w = true) (hchain : chainOK true ws = true)
    (hlead : lead.line = some l) (hbs : isUnq lead "\\" = false)
    (hnext : ∀ c, firstNonSpace rest = some c → isQuoteChar c = false ∧ c ≠ ';' ∧ c ≠ '#') :
    collectAssigned ⟨wordsText ws ++ '\n' :: rest, l⟩ lead
      = .ok (reline l ws, ⟨'\n' :: rest, endLine l ws⟩) := by
  have hlen : ws.length + 1 ≤ (wordsText ws ++ '\n' :: rest).length + 1 := by
    have := wordsText_length_ge ws
    simp only [List.length_append, List.length_cons]; omega
  unfold collectAssigned
  simp only []
  rw [cAA_words rest hnext ws _ l l true lead [] hgood hchain hlen hlead (Nat.le_refl _)
    (fun _ => rfl) hbs]
  have : (reline l ws).isEmpty = false := by
    cases ws with
    | nil => exact absurd rfl hne
    | cons w ws => simp [reline]
  simp [this]

/-! ### identifier characters -/

theorem idCont_toNat {c : Char} (h : isIdCont c = true) :
    c.toNat = 46 ∨ (48 ≤ c.toNat ∧ c.toNat ≤ 57) ∨ (65 ≤ c.toNat ∧ c.toNat ≤ 90) ∨
      c.toNat = 95 ∨ (97 ≤ c.toNat ∧ c.toNat ≤ 122) := by
  simp only [isIdCont, isIdStart, isUpperAscii, isLowerAscii, isDigit, Bool.or_eq_true, Bool.and_eq_true,
    decide_eq_true_eq, beq_iff_eq] at h
  simp at h
  rcases h with (((h | h) | h) | h) | h
  · subst h; right; right; right; left; rfl
  · right; right; left; exact h
  · right; right; right; right; exact h
  · subst h; left; rfl
  · right; left; exact h

theorem idStart_cont {c : Char} (h : isIdStart c = true) : isIdCont c = true := by
  simp [isIdCont, h]

theorem char_ne_of_toNat' (c d : Char) (h : c.toNat ≠ d.toNat) : c ≠ d := by
  intro e; subst e; exact h rfl

theorem idCont_not_space {c : Char} (h : isIdCont c = true) : isSpace c = false := by
  have ht := idCont_toNat h
  simp only [isSpace, Bool.or_eq_false_iff, Bool.and_eq_false_iff, decide_eq_false_iff_not, beq_eq_false_iff_ne]
  omega

theorem idCont_facts {c : Char} (h : isIdCont c = true) :
    c ≠ '{' ∧ c ≠ '}' ∧ c ≠ '=' ∧ c ≠ ';' ∧ c ≠ '#' ∧ c ≠ '"' ∧ c ≠ '\'' ∧ c ≠ '\\' ∧ c ≠ '!' := by
  have ht := idCont_toNat h
  refine ⟨?_, ?_, ?_, ?_, ?_, ?_, ?_, ?_, ?_⟩ <;> (apply char_ne_of_toNat'; simp; omega)

theorem idCont_not_ends {c : Char} (h : isIdCont c = true) : endsUnquoted structSettings c = false := by
  obtain ⟨h1, h2, h3, _⟩ := idCont_facts h
  simp [endsUnquoted, structSettings, Gen.structSingle, idCont_not_space h, h1, h2, h3]

theorem idCont_not_quote {c : Char} (h : isIdCont c = true) : isQuoteChar c = false := by
  obtain ⟨_, _, _, _, _, h6, h7, _⟩ := idCont_facts h
  simp [isQuoteChar, h6, h7]


/-! ### a flat document of definitions -/

/-- a definition name the round trip is stated for: accepted by the parser as the name of an ordinary
    definition (`plainDefName`) and without a dot (`a.b = 1` is read as a scope `a` holding `b`) -/
def goodName (nm : Str) : Bool := plainDefName nm && !nm.contains '.'

theorem goodName_cases {nm : Str} (h : goodName nm = true) :
    ∃ c w, nm = c :: w ∧ isIdStart c = true ∧ (∀ d ∈ c :: w, isIdCont d = true) ∧
      plainDefName nm = true ∧ '.' ∉ nm := by
  simp only [goodName, Bool.and_eq_true, Bool.not_eq_true', List.contains_eq_mem,
    decide_eq_false_iff_not] at h
  obtain ⟨hp, hdot⟩ := h
  have hstd : isStdIdent nm = true := by
    simp only [plainDefName, Bool.and_eq_true] at hp
    exact hp.1.1.2
  cases nm with
  | nil => simp [isStdIdent] at hstd
  | cons c w =>
    simp only [isStdIdent, Bool.and_eq_true, List.all_eq_true] at hstd
    refine ⟨c, w, rfl, hstd.1.1, ?_, hp, hdot⟩
    intro d hd
    rcases List.mem_cons.mp hd with rfl | hd
    · exact idStart_cont hstd.1.1
    · exact hstd.1.2 d hd

/-- One printed definition, abstractly: its name, the text printed after `name =` up to (not
    including) the final newline, the words the value collector returns (as a function of the line of
    the name) and the line on which the value ends. -/
structure DefLine where
  name : Str
  vtext : Str
  words : Nat → List Word
  endL : Nat → Nat

/-- the value collector reads the printed value back, whatever follows on the next line (as long as
    that does not start with a quote, `;` or `#`) -/
def DefLine.Reads (d : DefLine) : Prop :=
  ∀ (rest : Str) (l : Nat) (lead : Word), lead.line = some l → isUnq lead "\\" = false →
    (∀ c, firstNonSpace rest = some c → isQuoteChar c = false ∧ c ≠ ';' ∧ c ≠ '#') →
    collectAssigned ⟨d.vtext ++ '\n' :: rest, l⟩ lead = .ok (d.words l, ⟨'\n' :: rest, d.endL l⟩)

def DefLine.Good (d : DefLine) : Prop := goodName d.name = true ∧ d.Reads

/-- the text of a flat document -/
def linesText : List DefLine → Str
  | [] => []
  | d :: ds => d.name ++ (' ' :: '=' :: (d.vtext ++ '\n' :: linesText ds))

/-- what the parser builds: ids in order from `i`, every definition on the line after the end of the
    previous one -/
def parsedLines : Nat → Nat → List DefLine → List Obj
  | _, _, [] => []
  | l, i, d :: ds =>
    .defn { name := d.name, id := some i, line := some l } (d.words l)
      :: parsedLines (d.endL l + 1) (i + 1) ds

theorem linesText_first (ds : List DefLine) (h : ∀ d ∈ ds, d.Good) :
    ∀ c, firstNonSpace (linesText ds) = some c → isQuoteChar c = false ∧ c ≠ ';' ∧ c ≠ '#' := by
  intro c hc
  cases ds with
  | nil => simp [linesText, firstNonSpace] at hc
  | cons d ds =>
    obtain ⟨c0, w, e, hs, hall, _, _⟩ := goodName_cases (h d (by simp)).1
    have hcont := idStart_cont hs
    simp only [linesText, e, List.cons_append, firstNonSpace, idCont_not_space hcont,
      Bool.false_eq_true, ↓reduceIte, Option.some.injEq] at hc
    subst hc
    obtain ⟨_, _, _, h4, h5, _⟩ := idCont_facts hcont
    exact ⟨idCont_not_quote hcont, h4, h5⟩

theorem nlCount_nl : nlCount ['\n'] = 1 := by decide

theorem space_nl : ∀ d ∈ ['\n'], isSpace d = true := by
  intro d hd; simp at hd; subst hd; rfl

/-- the loop of `collect_objects` over the printed text of a flat document -/
theorem collectObjects_lines :
    ∀ (ds : List DefLine) (fuel : Nat) (pre : Str) (l i prevLine : Nat) (acc : List Obj)
      (pending : Option Obj),
      (∀ d ∈ ds, d.Good) → (∀ c ∈ pre, isSpace c = true) → ds.length + 1 ≤ fuel →
      ∃ st', collectObjects fuel { ci := ⟨pre ++ linesText ds, l⟩, nextId := i } none prevLine acc pending
        = .ok (flush acc pending ++ parsedLines (l + nlCount pre) i ds, st') := by
  intro ds
  induction ds with
  | nil =>
    intro fuel pre l i prevLine acc pending _ hpre hf
    obtain ⟨f, rfl⟩ : ∃ f, fuel = f + 1 := ⟨fuel - 1, by simp at hf; omega⟩
    refine ⟨{ ci := ⟨pre ++ linesText [], l⟩, nextId := i }, ?_⟩
    rw [collectObjects_end f _ prevLine acc pending
      (by simpa [linesText, nextWord] using nextWordAux_blank_eof structSettings pre l hpre)]
    simp [parsedLines]
  | cons d ds ih =>
    intro fuel pre l i prevLine acc pending hgood hpre hf
    obtain ⟨f, rfl⟩ : ∃ f, fuel = f + 1 := ⟨fuel - 1, by simp at hf; omega⟩
    have hf' : ds.length + 1 ≤ f := by simp at hf; omega
    have hgood' : ∀ x ∈ ds, x.Good := fun x hx => hgood x (by simp [hx])
    obtain ⟨hname, hreads⟩ := hgood d (by simp)
    obtain ⟨c, w, e, hs, hall, hpd, hdot⟩ := goodName_cases hname
    have hcont := idStart_cont hs
    obtain ⟨_, _, _, _, h5, _, _, h8, _⟩ := idCont_facts hcont
    have hci : (⟨pre ++ linesText (d :: ds), l⟩ : CI)
        = ⟨pre ++ (c :: w) ++ ([' '] ++ '=' :: (d.vtext ++ '\n' :: linesText ds)), l⟩ := by
      simp [linesText, e]
    have h3 := hreads (linesText ds) (l + nlCount pre + nlCount [' '])
      { value := c :: w, quote := none, line := some (l + nlCount pre) }
      (by rw [nlCount_blank]; rfl) (by rw [isUnq_backslash]; simp [h8])
      (linesText_first ds hgood')
    rw [collectObjects_simple_defn f _ none prevLine acc pending pre c w [' '] _ l _ _ hci hpre
      space_blank (fun x hx => idCont_not_ends (hall x hx)) (idCont_not_quote hcont) h5
      (by rw [← e]; exact hpd) h3]
    simp only []
    obtain ⟨st', hih⟩ := ih f ['\n'] (d.endL (l + nlCount pre + nlCount [' '])) (i + 1)
      (l + nlCount pre) (flush acc pending)
      (some (.defn { name := c :: w, id := some i, line := some (l + nlCount pre) }
        (d.words (l + nlCount pre + nlCount [' '])))) hgood' space_nl hf'
    refine ⟨st', ?_⟩
    have hcons : (['\n'] ++ linesText ds) = '\n' :: linesText ds := rfl
    rw [hcons] at hih
    rw [hih, flush_some_undotted _ _ (by rw [← e]; exact hdot)]
    simp [parsedLines, nlCount_blank, nlCount_nl, e]

theorem linesText_length_ge (ds : List DefLine) : ds.length ≤ (linesText ds).length := by
  induction ds with
  | nil => simp [linesText]
  | cons d ds ih => simp only [linesText, List.length_cons, List.length_append]; omega

/-- `parse` of the text of a flat document -/
theorem parseObjs_linesText (ds : List DefLine) (h : ∀ d ∈ ds, d.Good) :
    parseObjs (linesText ds) = .ok (parsedLines 1 1 ds) := by
  have hlen : ds.length + 1 ≤ (linesText ds).length + 2 := by
    have := linesText_length_ge ds; omega
  obtain ⟨st', hst⟩ := collectObjects_lines ds _ [] 1 1 0 [] none h (by intro c hc; simp at hc) hlen
  unfold parseObjs
  rw [List.nil_append] at hst
  rw [hst]
  simp [flush]

/-! ### the unwrapped flat document -/

/-- name and words of a definition -/
abbrev DefSpec := Str × List Word

def GoodDefn (d : DefSpec) : Prop :=
  goodName d.1 = true ∧ d.2 ≠ [] ∧ (∀ w ∈ d.2, goodWord w = true) ∧ chainOK true d.2 = true

/-- the text printed for a flat document when nothing is wrapped -/
def docText : List DefSpec → Str
  | [] => []
  | d :: ds => d.1 ++ (' ' :: '=' :: (wordsText d.2 ++ '\n' :: docText ds))

/-- what the parser builds from it: ids in order from `i`, every definition on the line after the end
    of the previous one, every word on the line on which it starts -/
def parsedDefs : Nat → Nat → List DefSpec → List Obj
  | _, _, [] => []
  | l, i, d :: ds =>
    .defn { name := d.1, id := some i, line := some l } (reline l d.2)
      :: parsedDefs (endLine l d.2 + 1) (i + 1) ds

def DefSpec.toLine (d : DefSpec) : DefLine :=
  { name := d.1, vtext := wordsText d.2, words := fun l => reline l d.2, endL := fun l => endLine l d.2 }

theorem GoodDefn.toLine {d : DefSpec} (h : GoodDefn d) : d.toLine.Good :=
  ⟨h.1, fun rest l lead hl hbs hnext =>
    collectAssigned_words d.2 rest l lead h.2.1 h.2.2.1 h.2.2.2 hl hbs hnext⟩

theorem docText_eq (ds : List DefSpec) : docText ds = linesText (ds.map DefSpec.toLine) := by
  induction ds with
  | nil => rfl
  | cons d ds ih => simp [docText, linesText, ih, DefSpec.toLine]

theorem parsedDefs_eq (ds : List DefSpec) : ∀ l i,
    parsedDefs l i ds = parsedLines l i (ds.map DefSpec.toLine) := by
  induction ds with
  | nil => intro l i; rfl
  | cons d ds ih => intro l i; simp [parsedDefs, parsedLines, ih, DefSpec.toLine]

/-- `parse` of the printed text of an unwrapped flat document -/
theorem parseObjs_docText (ds : List DefSpec) (h : ∀ d ∈ ds, GoodDefn d) :
    parseObjs (docText ds) = .ok (parsedDefs 1 1 ds) := by
  rw [docText_eq, parsedDefs_eq]
  apply parseObjs_linesText
  intro d hd
  obtain ⟨x, hx, rfl⟩ := List.mem_map.mp hd
  exact (h x hx).toLine

/-! ### the printer on a flat document -/

/-- the line printed for a definition when nothing is wrapped -/
def defnText (d : DefSpec) : Str := d.1 ++ ' ' :: '=' :: wordsText d.2

/-- the sufficient condition for "nothing is wrapped": the complete line fits into `width - 2` columns -/
def lineFits (width : Int) (d : DefSpec) : Prop := ((defnText d).length : Int) ≤ width - 2

theorem attrs_get_nil (n : String) : Attrs.get [] n = AttrVal.none := rfl

/-- `definition.show` for an enabled definition without attributes, attributes level 0, empty prefix,
    when the line fits: one line `name = w1 w2 …` -/
theorem showDefn_plain (o : ShowOpts) (hl : o.level ≤ 0) (nm : Str) (i l : Option Nat)
    (ws : List Word) (hinc : nm ≠ "include".toList) (hfit : lineFits o.width (nm, ws)) :
    showDefn o { name := nm, id := i, line := l } ws [] [] = .ok [defnText (nm, ws)] := by
  have hline : defnLine { name := nm, id := i, line := l } [] [] = nm ++ [' ', '='] := by
    simp only [defnLine, bne_iff_ne, ne_eq, hinc, not_false_eq_true, ↓reduceIte]
    simp [joinWith]
  have htxt : nm ++ [' ', '='] ++ wordsText ws = defnText (nm, ws) := by simp [defnText]
  rw [showDefn_eq]
  simp only [attrs_get_nil, AttrVal.truthy, Bool.false_and, Bool.false_eq_true, ↓reduceIte]
  have h0 : ¬ ((0 : Int) < 0) := by omega
  simp only [h0, decide_false, Bool.false_and, Bool.false_eq_true, ↓reduceIte, expertHidden,
    expertGate_false, showDefnBody, hline, showAttributes, hl]
  rw [showWords_nowrap _ _ _ _ _ (by rw [htxt]; exact hfit), htxt]
  rfl

/-- an enabled definition without attributes, template flag or resolved variables; `id` and `line`
    are arbitrary (the printer ignores them) -/
def PlainDefn (x : Obj) : Prop :=
  ∃ nm ws i l, x = .defn { name := nm, id := i, line := l } ws

/-- name and words of an object -/
def Obj.spec : Obj → DefSpec
  | .defn m ws => (m.name, ws)
  | .scope m _ => (m.name, [])

theorem unlines_cons (a : Str) (ls : List Str) : unlines (a :: ls) = a ++ '\n' :: unlines ls := rfl

theorem unlines_defnText (ds : List DefSpec) : unlines (ds.map defnText) = docText ds := by
  induction ds with
  | nil => rfl
  | cons d ds ih =>
    rw [List.map_cons, unlines_cons, ih]
    simp [defnText, docText]

theorem goodName_not_include {nm : Str} (h : goodName nm = true) : nm ≠ "include".toList := by
  obtain ⟨_, _, _, _, _, hp, _⟩ := goodName_cases h
  simp only [plainDefName, Bool.and_eq_true, bne_iff_ne, ne_eq] at hp
  exact hp.1.2

/-- `scope.show` of the root of a flat document: one line per definition -/
theorem showObjs_flat (o : ShowOpts) (hl : o.level ≤ 0) (objs : List Obj)
    (h : ∀ x ∈ objs, PlainDefn x ∧ goodName x.spec.1 = true ∧ lineFits o.width x.spec) :
    showObjs o objs [] [] = .ok (objs.map (fun x => defnText x.spec)) := by
  induction objs with
  | nil => rfl
  | cons x xs ih =>
    obtain ⟨⟨nm, ws, i, l, rfl⟩, hn, hfit⟩ := h _ (List.mem_cons_self ..)
    rw [showObjs_cons, showObj_defn_eq, showDefn_plain o hl nm i l ws (goodName_not_include hn) hfit,
      ih (fun y hy => h y (by simp [hy]))]
    rfl


/-! ### wrapped values -/

/-- the test of `definition.show`: the word does not fit and the line already holds a word -/
def wraps (width : Int) (indent line : Str) (w : Word) : Bool :=
  decide (((line ++ ' ' :: w.str).length : Int) > width - 2) && decide (line.length > indent.length)

theorem showWords_cons (width : Int) (indent : Str) (w : Word) (ws : List Word) (line : Str)
    (out : List Str) :
    showWords width indent (w :: ws) line out =
      if wraps width indent line w = true then
        showWords width indent ws (indent ++ ' ' :: w.str) (out ++ [line ++ [' ', '\\']])
      else showWords width indent ws (line ++ ' ' :: w.str) out := by
  rw [showWords]; rfl

/-- the text `definition.show` emits after the current line `line` for the remaining words -/
def wrapTail (width : Int) (indent : Str) : List Word → Str → Str
  | [], _ => []
  | w :: ws, line =>
    if wraps width indent line w then
      ' ' :: '\\' :: '\n' :: (indent ++ [' ']) ++ w.str ++ wrapTail width indent ws (indent ++ ' ' :: w.str)
    else [' '] ++ w.str ++ wrapTail width indent ws (line ++ ' ' :: w.str)

/-- the words as the parser returns them -/
def wrapWords (width : Int) (indent : Str) : List Word → Str → Nat → List Word
  | [], _, _ => []
  | w :: ws, line, l =>
    if wraps width indent line w then
      { w with line := some (l + 1) }
        :: wrapWords width indent ws (indent ++ ' ' :: w.str) (l + 1 + nlCount w.value)
    else { w with line := some l } :: wrapWords width indent ws (line ++ ' ' :: w.str) (l + nlCount w.value)

def wrapEnd (width : Int) (indent : Str) : List Word → Str → Nat → Nat
  | [], _, l => l
  | w :: ws, line, l =>
    if wraps width indent line w then
      wrapEnd width indent ws (indent ++ ' ' :: w.str) (l + 1 + nlCount w.value)
    else wrapEnd width indent ws (line ++ ' ' :: w.str) (l + nlCount w.value)

/-- The exact condition under which the printed value is read back: the continuation ` \` must not
    follow a word that contains a newline, and (as without wrapping) an unquoted word must not follow
    such a word on the same printed line. -/
def wrapOK (width : Int) (indent : Str) : List Word → Str → Bool → Bool
  | [], _, _ => true
  | w :: ws, line, same =>
    if wraps width indent line w then
      same && wrapOK width indent ws (indent ++ ' ' :: w.str) (nlCount w.value == 0)
    else (w.quote.isSome || same) && wrapOK width indent ws (line ++ ' ' :: w.str) (nlCount w.value == 0)

theorem unlines_append (a b : List Str) : unlines (a ++ b) = unlines a ++ unlines b := by
  induction a with
  | nil => rfl
  | cons x xs ih => simp [unlines_cons, ih]

theorem unlines_showWords (width : Int) (indent : Str) :
    ∀ (ws : List Word) (line : Str) (out : List Str),
      unlines (showWords width indent ws line out)
        = unlines out ++ (line ++ wrapTail width indent ws line ++ ['\n']) := by
  intro ws
  induction ws with
  | nil =>
    intro line out
    simp only [showWords, wrapTail, List.append_nil]
    rw [unlines_append]; rfl
  | cons w ws ih =>
    intro line out
    rw [showWords_cons, wrapTail]
    split
    · rw [ih, unlines_append]; simp [unlines_cons, unlines]
    · rw [ih]; simp

theorem wrapTail_head (width : Int) (indent : Str) (ws : List Word) (line rest : Str) :
    ∃ d t, wrapTail width indent ws line ++ '\n' :: rest = d :: t ∧ (d = ' ' ∨ d = '\n') := by
  cases ws with
  | nil => exact ⟨'\n', rest, rfl, Or.inr rfl⟩
  | cons w ws =>
    rw [wrapTail]
    split
    · exact ⟨' ', _, rfl, Or.inl rfl⟩
    · exact ⟨' ', _, rfl, Or.inl rfl⟩

/-- an ordinary unquoted word is taken when it is on the line of the previous word or the previous
    word is the continuation backslash -/
theorem cAA_take' (fuel : Nat) (ci ci' : CI) (last w : Word) (acc : List Word)
    (h : nextWord valueSettings ci = .ok (some (w, ci'))) (hq : w.quote = none)
    (hv : isSpecialValue w.value = false) (hb : w.value ≠ ['\\'])
    (hline : isUnq last "\\" = true ∨ w.line = last.line) :
    collectAssignedAux (fuel + 1) ci last false acc
      = collectAssignedAux fuel ci' w false (w :: acc) := by
  have hv' : (w.value == ['{'] || w.value == ['}'] || w.value == [';'] || w.value == ['#']) = false := hv
  rcases hline with hlast | hline
  · simp [collectAssignedAux, tryPop, h, hq, hv', hb, hlast]
  · exact cAA_take fuel ci ci' last w acc h hq hv hb hline

/-- the continuation backslash on the line of the previous word is skipped -/
theorem cAA_continuation (fuel : Nat) (ci ci' : CI) (last w : Word) (acc : List Word)
    (h : nextWord valueSettings ci = .ok (some (w, ci'))) (hq : w.quote = none)
    (hv : w.value = ['\\']) (hlast : isUnq last "\\" = false) (hline : w.line = last.line) :
    collectAssignedAux (fuel + 1) ci last false acc = collectAssignedAux fuel ci' w false acc := by
  simp [collectAssignedAux, tryPop, h, hq, hv, hlast, hline]

/-- the collector takes one printed word (after white space `sp`) -/
theorem cAA_good_word (sp : Str) (hsp : ∀ d ∈ sp, isSpace d = true) (w : Word)
    (hg : goodWord w = true) (tail : Str) (htail : ∃ d t, tail = d :: t ∧ (d = ' ' ∨ d = '\n'))
    (fuel l : Nat) (last : Word) (acc : List Word)
    (hcond : w.quote = none → isUnq last "\\" = true ∨ last.line = some (l + nlCount sp)) :
    collectAssignedAux (fuel + 1) ⟨sp ++ w.str ++ tail, l⟩ last false acc
      = collectAssignedAux fuel ⟨tail, l + nlCount sp + nlCount w.value⟩
          { w with line := some (l + nlCount sp) } false ({ w with line := some (l + nlCount sp) } :: acc)
    ∧ isUnq { w with line := some (l + nlCount sp) } "\\" = false := by
  obtain ⟨d, t, e, hd⟩ := htail
  cases hq : w.quote with
  | some q =>
    have hstr : w.str = quoteStr q w.value := by simp [Word.str, hq]
    have hnq : ∀ r, tail ≠ q.char :: r := by
      intro r h
      rw [e] at h
      simp only [List.cons.injEq] at h
      have := h.1
      rcases hd with rfl | rfl <;> cases q <;> simp [Quote.char] at this
    have hw : nextWord valueSettings ⟨sp ++ w.str ++ tail, l⟩
        = .ok (some ({ value := w.value, quote := some q, line := some (l + nlCount sp) },
                     ⟨tail, l + nlCount sp + nlCount w.value⟩)) := by
      unfold nextWord
      simp only []
      rw [List.append_assoc, nextWordAux_skip valueSettings sp _ hsp, hstr,
        Phil.C03.next_word_of_quoted valueSettings q w.value _ _ rfl hnq]
    exact ⟨cAA_quoted fuel _ _ last _ acc q hw rfl, by simp [isUnq]⟩
  | none =>
    have hpw : plainWord w.value = true := by simpa [goodWord, hq] using hg
    have hstr : w.str = w.value := by simp [Word.str, hq]
    have hnl := plainWord_nlCount hpw
    have hst : stopsAt valueSettings tail = true := by
      rw [e]; rcases hd with rfl | rfl <;> rfl
    have hw := nextWord_value_plain sp w.value tail l hsp hpw hst
    obtain ⟨c, t', e', hall, hqc, hb, hh⟩ := plainWord_cases hpw
    have hsv : isSpecialValue w.value = false := by rw [e']; exact not_special_of_plain hall hh
    have hbv : w.value ≠ ['\\'] := by rw [e']; exact hb
    rw [hstr, hnl, Nat.add_zero]
    refine ⟨cAA_take' fuel _ _ last _ acc hw rfl hsv hbv ?_, by rw [isUnq_backslash]; simpa using hbv⟩
    rcases hcond hq with h | h
    · exact Or.inl h
    · exact Or.inr h.symm

theorem nlCount_indent (indent : Str) (hind : ∀ d ∈ indent, d = ' ') :
    nlCount ('\n' :: (indent ++ [' '])) = 1 := by
  rw [nlCount_cons_nl, nlCount_append, nlCount_blank,
    nlCount_of_no_nl indent (fun c hc => by rw [hind c hc]; decide)]

theorem space_indent (indent : Str) (hind : ∀ d ∈ indent, d = ' ') :
    ∀ d ∈ '\n' :: (indent ++ [' ']), isSpace d = true := by
  intro d hd
  simp only [List.mem_cons, List.mem_append, List.not_mem_nil, or_false] at hd
  rcases hd with rfl | hd | rfl
  · rfl
  · rw [hind d hd]; rfl
  · rfl

/-- `collect_assigned_words` (inner loop) on the printed words of a definition, wrapped at any
    width, followed by the newline. -/
theorem cAA_wrapped (width : Int) (indent rest : Str) (hind : ∀ d ∈ indent, d = ' ')
    (hnext : ∀ c, firstNonSpace rest = some c → isQuoteChar c = false ∧ c ≠ ';' ∧ c ≠ '#') :
    ∀ (ws : List Word) (fuel : Nat) (line : Str) (l l0 : Nat) (same : Bool) (last : Word)
      (acc : List Word),
      (∀ w ∈ ws, goodWord w = true) → wrapOK width indent ws line same = true →
      2 * ws.length + 1 ≤ fuel →
      last.line = some l0 → l0 ≤ l → (same = true → l0 = l) → isUnq last "\\" = false →
      collectAssignedAux fuel ⟨wrapTail width indent ws line ++ '\n' :: rest, l⟩ last false acc
        = .ok (acc.reverse ++ wrapWords width indent ws line l,
               ⟨'\n' :: rest, wrapEnd width indent ws line l⟩) := by
  intro ws
  induction ws with
  | nil =>
    intro fuel line l l0 same last acc _ _ hf hl hle _ hbs
    obtain ⟨f, rfl⟩ : ∃ f, fuel = f + 1 := ⟨fuel - 1, by simp at hf; omega⟩
    simp only [wrapTail, List.nil_append, wrapWords, wrapEnd, List.append_nil]
    exact cAA_stop f _ last acc l0 (EndsValue_next_line_le rest l l0 hle hnext) hl hbs
  | cons w ws ih =>
    intro fuel line l l0 same last acc hgood hok hf hl hle hsame hbs
    have hgw := hgood w (by simp)
    have hgood' : ∀ v ∈ ws, goodWord v = true := fun v hv => hgood v (by simp [hv])
    rw [wrapOK] at hok
    rw [wrapTail, wrapWords, wrapEnd]
    split at hok
    · -- the line is wrapped in front of `w`
      rename_i hwr
      simp only [hwr, ↓reduceIte]
      rw [Bool.and_eq_true] at hok
      obtain ⟨hsm, hok'⟩ := hok
      have hll : l0 = l := hsame hsm
      obtain ⟨f, rfl⟩ : ∃ f, fuel = f + 2 := ⟨fuel - 2, by simp at hf; omega⟩
      have hf' : 2 * ws.length + 1 ≤ f := by simp at hf; omega
      -- the continuation backslash
      have hbsw : nextWord valueSettings
          ⟨' ' :: '\\' :: '\n' :: (indent ++ [' ']) ++ w.str
              ++ wrapTail width indent ws (indent ++ ' ' :: w.str) ++ '\n' :: rest, l⟩
          = .ok (some ({ value := ['\\'], quote := none, line := some l },
              ⟨'\n' :: (indent ++ [' ']) ++ w.str
                ++ (wrapTail width indent ws (indent ++ ' ' :: w.str) ++ '\n' :: rest), l⟩)) := by
        have key : nextWordAux valueSettings false ([' '] ++ ('\\' :: [] ++
            ('\n' :: (indent ++ [' ']) ++ w.str
              ++ (wrapTail width indent ws (indent ++ ' ' :: w.str) ++ '\n' :: rest)))) l
            = .ok (some ({ value := ['\\'], quote := none, line := some (l + 0) },
              ⟨'\n' :: (indent ++ [' ']) ++ w.str
                ++ (wrapTail width indent ws (indent ++ ' ' :: w.str) ++ '\n' :: rest), l + 0⟩)) := by
          rw [nextWordAux_skip valueSettings [' '] _ space_blank, nlCount_blank]
          exact nextWordAux_plain valueSettings '\\' [] _ (l + 0)
            (by rfl) (by rfl) (by rfl) (by rfl) (by intro d hd; simp at hd) (by rfl)
        unfold nextWord
        simp only []
        simpa using key
      rw [cAA_continuation (f + 1) _ _ last _ acc hbsw rfl rfl hbs (by rw [hl, hll])]
      obtain ⟨hstep, hbs'⟩ := cAA_good_word ('\n' :: (indent ++ [' '])) (space_indent indent hind) w hgw
        (wrapTail width indent ws (indent ++ ' ' :: w.str) ++ '\n' :: rest)
        (wrapTail_head width indent ws _ rest) f l
        { value := ['\\'], quote := none, line := some l } acc (fun _ => Or.inl (by rfl))
      rw [nlCount_indent indent hind] at hstep hbs'
      rw [hstep, ih f _ (l + 1 + nlCount w.value) (l + 1) (nlCount w.value == 0) _ _ hgood' hok' hf' rfl
        (by omega) (by intro h; simp at h; omega) hbs']
      simp
    · -- `w` stays on the line
      rename_i hwr
      simp only [hwr, Bool.false_eq_true, ↓reduceIte]
      rw [Bool.and_eq_true] at hok
      obtain ⟨hc1, hok'⟩ := hok
      obtain ⟨f, rfl⟩ : ∃ f, fuel = f + 1 := ⟨fuel - 1, by simp at hf; omega⟩
      have hf' : 2 * ws.length + 1 ≤ f := by simp at hf; omega
      obtain ⟨hstep, hbs'⟩ := cAA_good_word [' '] space_blank w hgw
        (wrapTail width indent ws (line ++ ' ' :: w.str) ++ '\n' :: rest)
        (wrapTail_head width indent ws _ rest) f l last acc
        (by
          intro hq
          right
          have hsm : same = true := by simpa [hq] using hc1
          rw [hl, hsame hsm, nlCount_blank]; rfl)
      rw [nlCount_blank] at hstep hbs'
      rw [List.append_assoc, hstep, ih f _ (l + 0 + nlCount w.value) (l + 0) (nlCount w.value == 0) _ _
        hgood' hok' hf' rfl (by omega) (by intro h; simp at h; omega) hbs']
      simp

theorem str_length_pos {w : Word} (h : goodWord w = true) : 1 ≤ w.str.length := by
  cases hq : w.quote with
  | some q => simp only [Word.str, hq]; exact quoteStr_length_pos q w.value
  | none =>
    have hpw : plainWord w.value = true := by simpa [goodWord, hq] using h
    obtain ⟨c, t, e, _⟩ := plainWord_cases hpw
    simp [Word.str, hq, e]

theorem wrapTail_length_good (width : Int) (indent : Str) (ws : List Word)
    (hgood : ∀ w ∈ ws, goodWord w = true) :
    ∀ line, 2 * ws.length ≤ (wrapTail width indent ws line).length := by
  induction ws with
  | nil => intro line; simp
  | cons w ws ih =>
    intro line
    have hw := str_length_pos (hgood w (by simp))
    have hgood' : ∀ v ∈ ws, goodWord v = true := fun v hv => hgood v (by simp [hv])
    rw [wrapTail]
    split
    · have := ih hgood' (indent ++ ' ' :: w.str)
      simp only [List.length_cons, List.length_append]; omega
    · have := ih hgood' (line ++ ' ' :: w.str)
      simp only [List.length_cons, List.length_append]; omega

/-- `collect_assigned_words` on the printed value of a definition, wrapped at any width -/
theorem collectAssigned_wrapped (width : Int) (indent line : Str) (ws : List Word) (rest : Str)
    (l : Nat) (lead : Word) (hind : ∀ d ∈ indent, d = ' ')
    (hne : ws ≠ []) (hgood : ∀ w ∈ ws, goodWord w = true)
    (hok : wrapOK width indent ws line true = true)
    (hlead : lead.line = some l) (hbs : isUnq lead "\\" = false)
    (hnext : ∀ c, firstNonSpace rest = some c → isQuoteChar c = false ∧ c ≠ ';' ∧ c ≠ '#') :
    collectAssigned ⟨wrapTail width indent ws line ++ '\n' :: rest, l⟩ lead
      = .ok (wrapWords width indent ws line l, ⟨'\n' :: rest, wrapEnd width indent ws line l⟩) := by
  have hlen : 2 * ws.length + 1 ≤ (wrapTail width indent ws line ++ '\n' :: rest).length + 1 := by
    have := wrapTail_length_good width indent ws hgood line
    simp only [List.length_append, List.length_cons]; omega
  unfold collectAssigned
  simp only []
  rw [cAA_wrapped width indent rest hind hnext ws _ line l l true lead [] hgood hok hlen hlead
    (Nat.le_refl _) (fun _ => rfl) hbs]
  have : (wrapWords width indent ws line l).isEmpty = false := by
    cases ws with
    | nil => exact absurd rfl hne
    | cons w ws => rw [wrapWords]; split <;> rfl
  simp [this]

/-- width-independent sufficient condition: only the last word may contain a newline -/
theorem wrapOK_of_noNl (width : Int) (indent : Str) (ws : List Word) :
    ∀ (line : Str) (same : Bool), (ws ≠ [] → same = true) →
      (∀ w ∈ ws.dropLast, nlCount w.value = 0) → wrapOK width indent ws line same = true := by
  induction ws with
  | nil => intro line same _ _; rfl
  | cons w ws ih =>
    intro line same hs hall
    have hsame : same = true := hs (by simp)
    have hnext : ws ≠ [] → (nlCount w.value == 0) = true := by
      intro hne
      have : w ∈ (w :: ws).dropLast := by
        cases ws with
        | nil => exact absurd rfl hne
        | cons v vs => simp [List.dropLast]
      simp [hall w this]
    have hall' : ∀ v ∈ ws.dropLast, nlCount v.value = 0 := by
      intro v hv
      apply hall v
      cases ws with
      | nil => simp at hv
      | cons u us => simp only [List.dropLast_cons_cons, List.mem_cons]; exact Or.inr hv
    rw [wrapOK]
    split <;> simp [hsame, ih _ _ hnext hall']

/-! ### erasing source positions -/

/-- a word without its source line -/
def Word.erase (w : Word) : Word := { w with line := none }
/-- object data without `primary_id` and source line -/
def Meta.erase (m : Meta) : Meta := { m with id := none, line := none }

mutual
/-- a tree without ids and source positions -/
def Obj.erase : Obj → Obj
  | .defn m ws => .defn m.erase (ws.map Word.erase)
  | .scope m os => .scope m.erase (eraseList os)
def eraseList : List Obj → List Obj
  | [] => []
  | x :: xs => x.erase :: eraseList xs
end

theorem eraseList_eq_map (xs : List Obj) : eraseList xs = xs.map Obj.erase := by
  induction xs with
  | nil => simp [eraseList]
  | cons x xs ih => simp [eraseList, ih]

theorem Obj.erase_defn (m : Meta) (ws : List Word) :
    (Obj.defn m ws).erase = .defn m.erase (ws.map Word.erase) := by simp [Obj.erase]
theorem Obj.erase_scope (m : Meta) (os : List Obj) :
    (Obj.scope m os).erase = .scope m.erase (eraseList os) := by simp [Obj.erase]
theorem eraseList_cons (x : Obj) (xs : List Obj) : eraseList (x :: xs) = x.erase :: eraseList xs := by
  simp [eraseList]
theorem eraseList_nil : eraseList [] = [] := by simp [eraseList]

theorem showWords_erase (width : Int) (indent : Str) :
    ∀ (ws : List Word) (line : Str) (out : List Str),
      showWords width indent (ws.map Word.erase) line out = showWords width indent ws line out := by
  intro ws
  induction ws with
  | nil => intro line out; rfl
  | cons w ws ih =>
    intro line out
    have hs : (Word.erase w).str = w.str := rfl
    rw [List.map_cons, showWords, showWords, hs]
    split
    · exact ih _ _
    · exact ih _ _

theorem showDefn_erase (o : ShowOpts) (m : Meta) (ws : List Word) (ms : List Str) (pre : Str) :
    showDefn o m.erase (ws.map Word.erase) ms pre = showDefn o m ws ms pre := by
  rw [showDefn_eq, showDefn_eq]
  simp only [showDefnBody, showWords_erase]
  rfl

theorem firstMerges_erase (objs : List Obj) : firstMerges (eraseList objs) = firstMerges objs := by
  cases objs with
  | nil => simp [eraseList]
  | cons x xs => rw [eraseList_cons]; cases x <;> simp [firstMerges, Obj.erase, Obj.meta, Meta.erase]

/-- the printer does not look at `primary_id`, the source line of an object or the source lines of
    words -/
theorem showObj_erase (o : ShowOpts) (t : Obj) :
    ∀ (ms : List Str) (pre : Str), showObj o t.erase ms pre = showObj o t ms pre := by
  induction t using Obj.rec
    (motive_2 := fun ts => ∀ (ms : List Str) (pre : Str),
      showObjs o (eraseList ts) ms pre = showObjs o ts ms pre) with
  | defn m ws => intro ms pre; rw [Obj.erase_defn, showObj_defn_eq, showObj_defn_eq, showDefn_erase]
  | scope m objs ih =>
    intro ms pre
    have hfun : showObjs o (eraseList objs) = showObjs o objs := by funext ms pre; exact ih ms pre
    rw [Obj.erase_scope, showObj_scope_eq, showObj_scope_eq, firstMerges_erase, hfun]
    rfl
  | nil => rw [eraseList_nil]
  | cons x xs ihx ihxs =>
    rw [eraseList_cons, showObjs_cons, showObjs_cons, ihx, ihxs]

theorem showObjs_erase (o : ShowOpts) (ts : List Obj) (ms : List Str) (pre : Str) :
    showObjs o (eraseList ts) ms pre = showObjs o ts ms pre := by
  induction ts with
  | nil => rw [eraseList_nil]
  | cons x xs ih => rw [eraseList_cons, showObjs_cons, showObjs_cons, showObj_erase, ih]

/-- two trees that differ only in ids and source positions print identically -/
theorem showObj_congr_erase (o : ShowOpts) (t t' : Obj) (h : t.erase = t'.erase) (ms : List Str)
    (pre : Str) : showObj o t ms pre = showObj o t' ms pre := by
  rw [← showObj_erase o t, ← showObj_erase o t', h]

theorem reline_erase (ws : List Word) : ∀ l, (reline l ws).map Word.erase = ws.map Word.erase := by
  induction ws with
  | nil => intro l; rfl
  | cons w ws ih => intro l; simp [reline, ih, Word.erase]

theorem wrapWords_erase (width : Int) (indent : Str) (ws : List Word) :
    ∀ line l, (wrapWords width indent ws line l).map Word.erase = ws.map Word.erase := by
  induction ws with
  | nil => intro line l; rfl
  | cons w ws ih =>
    intro line l
    rw [wrapWords]
    split <;> simp [ih, Word.erase]



/-! ### the printer on a flat document, any width -/

/-- the indentation of continuation lines: as wide as `name =` -/
def defIndent (nm : Str) : Str := spaces (nm.length + 2)
/-- the head of the first line -/
def defHead (nm : Str) : Str := nm ++ [' ', '=']

theorem defIndent_blank (nm : Str) : ∀ d ∈ defIndent nm, d = ' ' := by
  intro d hd
  simp only [defIndent, spaces, List.mem_replicate] at hd
  exact hd.2

/-- `definition.show` for an enabled definition without attributes, attributes level 0, empty prefix,
    any width -/
theorem showDefn_any (o : ShowOpts) (hl : o.level ≤ 0) (nm : Str) (i l : Option Nat)
    (ws : List Word) (hinc : nm ≠ "include".toList) :
    showDefn o { name := nm, id := i, line := l } ws [] []
      = .ok (showWords o.width (defIndent nm) ws (defHead nm) []) := by
  have hline : defnLine { name := nm, id := i, line := l } [] [] = nm ++ [' ', '='] := by
    simp only [defnLine, bne_iff_ne, ne_eq, hinc, not_false_eq_true, ↓reduceIte]
    simp [joinWith]
  rw [showDefn_eq]
  simp only [attrs_get_nil, AttrVal.truthy, Bool.false_and, Bool.false_eq_true, ↓reduceIte]
  have h0 : ¬ ((0 : Int) < 0) := by omega
  simp only [h0, decide_false, Bool.false_and, Bool.false_eq_true, ↓reduceIte, expertHidden,
    expertGate_false, showDefnBody, hline, showAttributes, hl]
  rw [attrs_get_nil]
  simp only [AttrVal.truthy, Bool.false_eq_true, ↓reduceIte, List.nil_append, List.append_nil,
    List.length_nil, Nat.sub_zero, List.length_append, List.length_cons, defIndent, defHead]

/-- the printed definition at width `width` as a `DefLine` -/
def wrappedLine (width : Int) (d : DefSpec) : DefLine :=
  { name := d.1
    vtext := wrapTail width (defIndent d.1) d.2 (defHead d.1)
    words := fun l => wrapWords width (defIndent d.1) d.2 (defHead d.1) l
    endL := fun l => wrapEnd width (defIndent d.1) d.2 (defHead d.1) l }

/-- a definition the round trip at width `width` is proved for -/
def GoodDefnW (width : Int) (d : DefSpec) : Prop :=
  goodName d.1 = true ∧ d.2 ≠ [] ∧ (∀ w ∈ d.2, goodWord w = true) ∧
    wrapOK width (defIndent d.1) d.2 (defHead d.1) true = true

theorem GoodDefnW.toLine {width : Int} {d : DefSpec} (h : GoodDefnW width d) :
    (wrappedLine width d).Good :=
  ⟨h.1, fun rest l lead hl hbs hnext =>
    collectAssigned_wrapped width (defIndent d.1) (defHead d.1) d.2 rest l lead (defIndent_blank d.1)
      h.2.1 h.2.2.1 h.2.2.2 hl hbs hnext⟩

/-- width-independent sufficient condition: only the last word of a definition may contain a newline -/
theorem GoodDefnW_of_noNl (width : Int) (d : DefSpec) (hn : goodName d.1 = true) (hne : d.2 ≠ [])
    (hg : ∀ w ∈ d.2, goodWord w = true) (hnl : ∀ w ∈ d.2.dropLast, nlCount w.value = 0) :
    GoodDefnW width d :=
  ⟨hn, hne, hg, wrapOK_of_noNl width _ d.2 _ true (fun _ => rfl) hnl⟩

theorem showObjs_flat_any (o : ShowOpts) (hl : o.level ≤ 0) (objs : List Obj)
    (h : ∀ x ∈ objs, PlainDefn x ∧ goodName x.spec.1 = true) :
    showObjs o objs [] []
      = .ok ((objs.map Obj.spec).flatMap
          (fun d => showWords o.width (defIndent d.1) d.2 (defHead d.1) [])) := by
  induction objs with
  | nil => rfl
  | cons x xs ih =>
    obtain ⟨⟨nm, ws, i, l, rfl⟩, hn⟩ := h _ (List.mem_cons_self ..)
    rw [showObjs_cons, showObj_defn_eq, showDefn_any o hl nm i l ws (goodName_not_include hn),
      ih (fun y hy => h y (by simp [hy]))]
    rfl

theorem unlines_flat_any (width : Int) (ds : List DefSpec) :
    unlines (ds.flatMap (fun d => showWords width (defIndent d.1) d.2 (defHead d.1) []))
      = linesText (ds.map (wrappedLine width)) := by
  induction ds with
  | nil => rfl
  | cons d ds ih =>
    rw [List.flatMap_cons, unlines_append, ih, unlines_showWords]
    simp [linesText, wrappedLine, defHead, unlines]


theorem asStr_root (o : ShowOpts) (objs : List Obj) :
    asStr o (rootOf objs) = (showObjs o objs [] []).map unlines := by
  have h0 : ¬ ((0 : Int) < 0) := by omega
  rw [asStr, rootOf, showObj_scope_eq]
  simp only [h0, decide_false, Bool.false_and, Bool.false_eq_true, ↓reduceIte, attrs_get_nil,
    expertHidden, expertGate_false, showScopeBody, List.isEmpty_nil]

theorem parse_eq (text : Str) : parse text = (parseObjs text).map rootOf := rfl

theorem parsedLines_erase (width : Int) (objs : List Obj) (h : ∀ x ∈ objs, PlainDefn x) :
    ∀ l i, eraseList (parsedLines l i ((objs.map Obj.spec).map (wrappedLine width))) = eraseList objs := by
  induction objs with
  | nil => intro l i; rfl
  | cons x xs ih =>
    intro l i
    obtain ⟨nm, ws, i0, l0, rfl⟩ := h _ (List.mem_cons_self ..)
    simp only [List.map_cons, parsedLines, eraseList_cons, ih (fun y hy => h y (by simp [hy]))]
    simp [Obj.erase, Obj.spec, wrappedLine, wrapWords_erase, Meta.erase]

theorem parsedDefs_erase (objs : List Obj) (h : ∀ x ∈ objs, PlainDefn x) :
    ∀ l i, eraseList (parsedDefs l i (objs.map Obj.spec)) = eraseList objs := by
  induction objs with
  | nil => intro l i; rfl
  | cons x xs ih =>
    intro l i
    obtain ⟨nm, ws, i0, l0, rfl⟩ := h _ (List.mem_cons_self ..)
    simp only [List.map_cons, parsedDefs, eraseList_cons, ih (fun y hy => h y (by simp [hy]))]
    simp [Obj.erase, Obj.spec, reline_erase, Meta.erase]

/-- the ids the parser assigns: `i, i+1, …` in document order -/
theorem parsedLines_ids (ds : List DefLine) : ∀ l i,
    (parsedLines l i ds).map (fun x => x.meta.id) = (List.range' i ds.length).map some := by
  induction ds with
  | nil => intro l i; rfl
  | cons d ds ih =>
    intro l i
    simp only [parsedLines, List.map_cons, List.length_cons, List.range'_succ, ih]
    rfl

/-- print at any width, then parse: the text is the concatenation of the printed definitions and the
    parser returns them one by one -/
theorem print_parse_lines (o : ShowOpts) (hl : o.level ≤ 0) (objs : List Obj)
    (h : ∀ x ∈ objs, PlainDefn x ∧ GoodDefnW o.width x.spec) :
    asStr o (rootOf objs) = .ok (linesText ((objs.map Obj.spec).map (wrappedLine o.width))) ∧
    parseObjs (linesText ((objs.map Obj.spec).map (wrappedLine o.width)))
      = .ok (parsedLines 1 1 ((objs.map Obj.spec).map (wrappedLine o.width))) := by
  constructor
  · rw [asStr_root, showObjs_flat_any o hl objs (fun x hx => ⟨(h x hx).1, (h x hx).2.1⟩)]
    simp only [Except.map, unlines_flat_any]
  · apply parseObjs_linesText
    intro d hd
    obtain ⟨s, hs, rfl⟩ := List.mem_map.mp hd
    obtain ⟨x, hx, rfl⟩ := List.mem_map.mp hs
    exact (h x hx).2.toLine


/-! ### words without newlines: everything stays on the line of the name -/

theorem nlCount_of_not_mem {s : Str} (h : '\n' ∉ s) : nlCount s = 0 :=
  nlCount_of_no_nl s (fun c hc e => h (e ▸ hc))

/-- definition `k` of the document on line `k` with id `k`, all its words on that line -/
def numbered : Nat → List DefSpec → List Obj
  | _, [] => []
  | k, d :: ds =>
    .defn { name := d.1, id := some k, line := some k } (d.2.map (fun w => { w with line := some k }))
      :: numbered (k + 1) ds

theorem parsedDefs_noNl (ds : List DefSpec) (h : ∀ d ∈ ds, ∀ w ∈ d.2, nlCount w.value = 0) :
    ∀ k, parsedDefs k k ds = numbered k ds := by
  induction ds with
  | nil => intro k; rfl
  | cons d ds ih =>
    intro k
    have hd := h d (by simp)
    rw [parsedDefs, numbered, reline_noNl k d.2 hd, endLine_noNl k d.2 hd,
      ih (fun x hx => h x (by simp [hx]))]

end Phil
