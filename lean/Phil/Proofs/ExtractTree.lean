/-
  Phil.Proofs.ExtractTree — `scope.extract` and `scope.format` on WHOLE TREES, in closed form, and the
  per-converter theorems C10 (`fromWords_in_domain`) and C09 (round trips) lifted to them.
    1. `extractSpec` / `extractSpecKids`: extraction by structural recursion (no fuel);
       `extractObj_eq_spec_xt`: `extractObj e fuel o = extractSpec e o` on trees without `.multiple`
       whose sibling names are pairwise distinct (`DObj_xt`), fuel beyond the depth;
    2. `valueAt`, `valueAt_extract_xt` (the value at a path is the extraction of the definition at
       that path), `extractSpec_error_leaf_xt` (an error is the error of a leaf), in-domain lifting;
    3. `formatSpec` / `formatSpecKids`: closed form of `formatObj` on masters without `.multiple`
       (`FObj_xt`); `RoundTripLeaf`, `leaf_round_trip_xt`, `format_extract_spec_xt`.
  Every name defined here ends in `_xt` except the specification functions named in the task
  (`extractSpec`, `extractSpecKids`, `kidValue`, `liveKids`, `valueAt`, `declConv`, `formatSpec`,
  `formatSpecKids`, `RoundTripLeaf`, `RTObj`, `RTKids`).
-/
import Phil.Proofs.NoStray
import Phil.Proofs.RoundTrip
set_option linter.unusedVariables false
namespace Phil

/-! ## 1. extraction in closed form -/

mutual
/-- `scope.extract` / `definition.extract` by structural recursion -/
def extractSpec (e : Envs) : Obj → R PVal
  | .defn m ws => extractDefn e m ws
  | .scope _ kids => (extractSpecKids e kids).map PVal.record
/-- the fields of the `scope_extract`, in document order: template placeholders (`is_template < 0`)
    contribute nothing, disabled objects and templates (`is_template > 0`) contribute `None`, every
    other child its own extraction; the first failing child (document order) decides the error -/
def extractSpecKids (e : Envs) : List Obj → R (List (Str × PVal))
  | [] => .ok []
  | o :: os =>
    if o.meta.tmpl < 0 then extractSpecKids e os
    else if o.meta.disabled || o.meta.tmpl > 0 then
      (extractSpecKids e os).map (fun r => (o.name, PVal.none) :: r)
    else
      match extractSpec e o with
      | .error err => .error err
      | .ok v => (extractSpecKids e os).map (fun r => (o.name, v) :: r)
end

mutual
/-- no `.multiple` anywhere, sibling names pairwise distinct at every depth (enabled or not, template
    or not, with or without words) -/
def DObj_xt : Obj → Prop
  | .defn m _ => (m.attrs.get "multiple").truthy = false
  | .scope m kids =>
    (m.attrs.get "multiple").truthy = false ∧ DKids_xt kids ∧ (kids.map Obj.name).Pairwise (· ≠ ·)
def DKids_xt : List Obj → Prop
  | [] => True
  | o :: os => DObj_xt o ∧ DKids_xt os
end

theorem dkids_iff_xt : ∀ (l : List Obj), DKids_xt l ↔ ∀ o ∈ l, DObj_xt o
  | [] => by rw [DKids_xt]; simp
  | o :: os => by rw [DKids_xt, dkids_iff_xt os]; simp

theorem DObj_xt.notMultiple : ∀ {o : Obj}, DObj_xt o → isMultiple o = false
  | .defn m ws, h => by rw [DObj_xt] at h; exact h
  | .scope m kids, h => by rw [DObj_xt] at h; exact h.1

mutual
theorem dobj_of_xobj_xt : ∀ (o : Obj), XObj_ns o → DObj_xt o
  | .defn m ws, h => by rw [XObj_ns] at h; rw [DObj_xt]; exact h.2
  | .scope m kids, h => by
    rw [XObj_ns] at h; rw [DObj_xt]; exact ⟨h.1, dkids_of_xkids_xt kids h.2.1, h.2.2⟩
theorem dkids_of_xkids_xt : ∀ (l : List Obj), XKids_ns l → DKids_xt l
  | [], _ => by rw [DKids_xt]; trivial
  | o :: os, h => by
    rw [XKids_ns] at h; rw [DKids_xt]; exact ⟨dobj_of_xobj_xt o h.1, dkids_of_xkids_xt os h.2⟩
end

/-- the loop body of `scope.extract` (the model's `step`), the recursive call a parameter -/
def xstep_xt (X : Obj → R PVal) (fs : List (Str × PVal)) (o : Obj) : R (List (Str × PVal)) :=
  if o.meta.tmpl < 0 then Except.ok fs else
  match (if o.meta.disabled || o.meta.tmpl > 0 then Except.ok XVal.disabled
         else (X o).map XVal.val : R XVal) with
  | .error err => Except.error err
  | .ok x => philSet fs o.name (o.attr "optional") (isMultiple o) x

theorem extractObj_scope_xt (e : Envs) (fuel : Nat) (m : Meta) (kids : List Obj) :
    extractObj e (fuel + 1) (.scope m kids) =
      (kids.foldlM (xstep_xt (extractObj e fuel)) ([] : List (Str × PVal))).map PVal.record := by
  rw [extractObj]; rfl

theorem map_cons_append_xt (r : R (List (Str × PVal))) (fs : List (Str × PVal)) (p : Str × PVal) :
    (r.map (fun r => p :: r)).map (fun r => fs ++ r) = r.map (fun r => (fs ++ [p]) ++ r) := by
  cases r with
  | error err => rfl
  | ok l => simp [Except.map]

/-- the loop over children with fresh, pairwise distinct names is the specification -/
theorem extractFold_spec_xt (e : Envs) (X : Obj → R PVal) :
    ∀ (kids : List Obj) (fs : List (Str × PVal)),
      (∀ k ∈ kids, fieldGet fs k.name = none) → (kids.map Obj.name).Pairwise (· ≠ ·) →
      (∀ k ∈ kids, isMultiple k = false ∧ X k = extractSpec e k) →
      kids.foldlM (xstep_xt X) fs = (extractSpecKids e kids).map (fun r => fs ++ r) := by
  intro kids
  induction kids with
  | nil =>
    intro fs _ _ _
    rw [extractSpecKids]
    simp [Except.map, pure, Except.pure]
  | cons o os ihk =>
    intro fs hfresh hpw hx
    rw [List.foldlM_cons, extractSpecKids]
    rw [List.map_cons, List.pairwise_cons] at hpw
    have hxo := hx o List.mem_cons_self
    have hrest : ∀ k ∈ os, isMultiple k = false ∧ X k = extractSpec e k :=
      fun k hk => hx k (List.mem_cons_of_mem _ hk)
    have hfo := hfresh o List.mem_cons_self
    have hfrest : ∀ k ∈ os, fieldGet fs k.name = none := fun k hk => hfresh k (List.mem_cons_of_mem _ hk)
    have hnext : ∀ v, ∀ k ∈ os, fieldGet (fs ++ [(o.name, v)]) k.name = none := by
      intro v k hk
      rw [← fieldSet_fresh_ns fs o.name v hfo]
      exact fieldGet_fieldSet_ne_ns fs o.name k.name _ hfo (hfrest k hk)
        (hpw.1 k.name (List.mem_map_of_mem hk))
    unfold xstep_xt
    by_cases ht : o.meta.tmpl < 0
    · simp only [ht, if_true]
      exact ihk fs hfrest hpw.2 hrest
    · simp only [ht, if_false]
      rw [hxo.1]
      by_cases hdis : (o.meta.disabled || decide (o.meta.tmpl > 0)) = true
      · simp only [hdis, if_true]
        rw [philSet_fresh_ns fs o.name _ _ hfo, fieldSet_fresh_ns fs o.name _ hfo]
        show os.foldlM (xstep_xt X) (fs ++ [(o.name, PVal.none)]) = _
        rw [ihk _ (hnext _) hpw.2 hrest, map_cons_append_xt]
      · simp only [hdis, if_false, Bool.false_eq_true]
        rw [hxo.2]
        cases hv : extractSpec e o with
        | error err => rfl
        | ok v =>
          simp only [Except.map]
          rw [philSet_fresh_ns fs o.name _ _ hfo, fieldSet_fresh_ns fs o.name _ hfo]
          show os.foldlM (xstep_xt X) (fs ++ [(o.name, v)]) = _
          rw [ihk _ (hnext _) hpw.2 hrest]
          exact (map_cons_append_xt _ fs (o.name, v)).symm

/-- **closed form of `scope.extract`**: on a tree without `.multiple` whose sibling names are
    pairwise distinct, with fuel beyond the depth, the fuelled model is the structural
    specification — values and errors alike. -/
theorem extractObj_eq_spec_xt (e : Envs) : ∀ (fuel : Nat) (o : Obj), DObj_xt o → depthT o < fuel →
    extractObj e fuel o = extractSpec e o := by
  intro fuel
  induction fuel with
  | zero => intro o _ h; exact absurd h (Nat.not_lt_zero _)
  | succ fuel ih =>
    intro o hx hd
    cases o with
    | defn m ws => rw [extractObj, extractSpec]
    | scope m kids =>
      rw [extractObj_scope_xt, extractSpec]
      rw [DObj_xt] at hx
      rw [depthT] at hd
      rw [extractFold_spec_xt e (extractObj e fuel) kids [] (fun k _ => rfl) hx.2.2]
      · cases extractSpecKids e kids with
        | error err => rfl
        | ok l => simp [Except.map]
      · intro k hk
        have hk' := (dkids_iff_xt kids).1 hx.2.1 k hk
        refine ⟨hk'.notMultiple, ih k hk' ?_⟩
        have := depthT_le_depthL kids k hk
        omega

/-! ### the specification as a map over the live children -/

/-- the children that contribute a field: everything but template placeholders -/
def liveKids (kids : List Obj) : List Obj := kids.filter (fun o => !decide (o.meta.tmpl < 0))

/-- the value a live child contributes -/
def kidValue (e : Envs) (o : Obj) : R PVal :=
  if o.meta.disabled || o.meta.tmpl > 0 then .ok .none else extractSpec e o

theorem extractSpecKids_eq_mapR_xt (e : Envs) : ∀ (kids : List Obj),
    extractSpecKids e kids = mapR (fun o => (kidValue e o).map (fun v => (o.name, v))) (liveKids kids)
  | [] => by rw [extractSpecKids]; rfl
  | o :: os => by
    rw [extractSpecKids, extractSpecKids_eq_mapR_xt e os]
    unfold liveKids
    rw [List.filter_cons]
    by_cases ht : o.meta.tmpl < 0
    · simp [ht]
    · simp only [ht, if_false, decide_false, Bool.not_false, if_true, mapR]
      generalize mapR (fun o => (kidValue e o).map (fun v => (o.name, v))) (List.filter _ os) = M
      unfold kidValue
      by_cases hdis : (o.meta.disabled || decide (o.meta.tmpl > 0)) = true
      · simp only [hdis, if_true]
        cases M <;> rfl
      · simp only [hdis, if_false, Bool.false_eq_true]
        cases extractSpec e o with
        | error err => rfl
        | ok v => cases M <;> rfl

theorem mapR_ok_iff_xt {α β : Type} (g : α → R β) : ∀ (l : List α),
    (∃ ys, mapR g l = .ok ys) ↔ ∀ x ∈ l, ∃ y, g x = .ok y
  | [] => ⟨fun _ x hx => (by cases hx), fun _ => ⟨[], rfl⟩⟩
  | x :: xs => by
    have ih := mapR_ok_iff_xt g xs
    constructor
    · rintro ⟨ys, h⟩ z hz
      simp only [mapR] at h
      cases hg : g x with
      | error err => rw [hg] at h; cases h
      | ok y =>
        rw [hg] at h
        cases hm : mapR g xs with
        | error err => rw [hm] at h; cases h
        | ok ys' =>
          rcases List.mem_cons.mp hz with rfl | hz
          · exact ⟨y, hg⟩
          · exact ih.1 ⟨ys', hm⟩ z hz
    · intro h
      obtain ⟨y, hy⟩ := h x List.mem_cons_self
      obtain ⟨ys, hys⟩ := ih.2 (fun z hz => h z (List.mem_cons_of_mem _ hz))
      exact ⟨y :: ys, by simp only [mapR, hy, hys]⟩

theorem mapR_names_xt {α β γ : Type} (g : α → R β) (k : α → γ) (k' : β → γ)
    (hk : ∀ x y, g x = .ok y → k' y = k x) : ∀ (l : List α) (ys : List β),
    mapR g l = .ok ys → ys.map k' = l.map k
  | [], ys, h => by cases h; rfl
  | x :: xs, ys, h => by
    simp only [mapR] at h
    cases hg : g x with
    | error err => rw [hg] at h; cases h
    | ok y =>
      rw [hg] at h
      cases hm : mapR g xs with
      | error err => rw [hm] at h; cases h
      | ok ys' =>
        rw [hm] at h; cases h
        rw [List.map_cons, List.map_cons, hk x y hg, mapR_names_xt g k k' hk xs ys' hm]

theorem mapR_mem_xt {α β : Type} (g : α → R β) : ∀ (l : List α) (ys : List β),
    mapR g l = .ok ys → ∀ x ∈ l, ∃ y ∈ ys, g x = .ok y
  | [], ys, h, x, hx => by cases hx
  | a :: xs, ys, h, x, hx => by
    simp only [mapR] at h
    cases hg : g a with
    | error err => rw [hg] at h; cases h
    | ok y =>
      rw [hg] at h
      cases hm : mapR g xs with
      | error err => rw [hm] at h; cases h
      | ok ys' =>
        rw [hm] at h; cases h
        rcases List.mem_cons.mp hx with rfl | hx
        · exact ⟨y, List.mem_cons_self, hg⟩
        · obtain ⟨y', hy', hg'⟩ := mapR_mem_xt g xs ys' hm x hx
          exact ⟨y', List.mem_cons_of_mem _ hy', hg'⟩

/-! ## 2. the value at a path; errors come from leaves -/

/-- the value stored in an extracted record under a path of scope names and a final name -/
def valueAt : PVal → List Str → Str → Option PVal
  | .record fs, [], n => fieldGet fs n
  | .record fs, s :: ps, n =>
    match fieldGet fs s with
    | some sub => valueAt sub ps n
    | none => none
  | _, _, _ => none

/-- the converter a definition declares: `strings` when it declares no `.type` -/
def declConv (m : Meta) : Option Conv :=
  match m.attrs.get "type" with
  | .none => some .strings
  | .conv c => some c
  | _ => none

theorem extractDefn_ok_conv_xt (e : Envs) (m : Meta) (ws : List Word) (v : PVal)
    (h : extractDefn e m ws = .ok v) :
    ∃ c, declConv m = some c ∧ fromWords c e.eval (m.attrs.get "optional") ws = .ok v := by
  unfold extractDefn at h
  unfold declConv
  cases ht : m.attrs.get "type" <;> rw [ht] at h <;> first | exact ⟨_, rfl, h⟩ | cases h

/-- enabled and not a template: the object contributes its own extraction -/
def liveObjB_xt (o : Obj) : Bool := !o.meta.disabled && o.meta.tmpl == 0

/-- every object on the path (the scopes and the final object) is enabled and not a template -/
def livePath_xt : List Obj → List Str → Str → Bool
  | objs, [], n =>
    match findNamedTree objs n with
    | some o => liveObjB_xt o
    | none => false
  | objs, s :: ps, n =>
    match findNamedTree objs s with
    | some (.scope m kids) => liveObjB_xt (.scope m kids) && livePath_xt kids ps n
    | _ => false

theorem kidValue_live_xt (e : Envs) (o : Obj) (h : liveObjB_xt o = true) : kidValue e o = extractSpec e o := by
  unfold liveObjB_xt at h
  simp only [Bool.and_eq_true, Bool.not_eq_true', beq_iff_eq] at h
  unfold kidValue
  simp [h.1, h.2]

theorem live_not_placeholder_xt (o : Obj) (h : liveObjB_xt o = true) : ¬ o.meta.tmpl < 0 := by
  unfold liveObjB_xt at h
  simp only [Bool.and_eq_true, Bool.not_eq_true', beq_iff_eq] at h
  omega

theorem findNamed_mem_xt {l : List Obj} {n : Str} {o : Obj} (h : findNamedTree l n = some o) :
    o ∈ l ∧ o.name = n :=
  ⟨List.mem_of_find?_eq_some h, findNamed_name h⟩

theorem fieldGet_cons_xt (k : Str) (v : PVal) (r : List (Str × PVal)) (n : Str) :
    fieldGet ((k, v) :: r) n = if k == n then some v else fieldGet r n := by
  unfold fieldGet
  rw [List.find?_cons]
  by_cases h : (k == n) = true
  · simp [h]
  · simp [h]

/-- the field of a child that is not a template placeholder holds the child's value -/
theorem fieldGet_extractSpecKids_xt (e : Envs) : ∀ (kids : List Obj) (fs : List (Str × PVal)),
    (kids.map Obj.name).Pairwise (· ≠ ·) → extractSpecKids e kids = .ok fs →
    ∀ o ∈ kids, ¬ o.meta.tmpl < 0 → ∃ v, kidValue e o = .ok v ∧ fieldGet fs o.name = some v
  | [], fs, _, _, o, ho, _ => by cases ho
  | k :: os, fs, hpw, h, o, ho, ht => by
    rw [List.map_cons, List.pairwise_cons] at hpw
    rw [extractSpecKids] at h
    have ih := fieldGet_extractSpecKids_xt e os
    -- the value contributed by the head, and the rest
    have key : ∀ (v : PVal) (rest : List (Str × PVal)), fs = (k.name, v) :: rest →
        extractSpecKids e os = .ok rest → kidValue e k = .ok v →
        ∃ v, kidValue e o = .ok v ∧ fieldGet fs o.name = some v := by
      intro v rest hfs hrest hkv
      rcases List.mem_cons.mp ho with rfl | ho'
      · exact ⟨v, hkv, by rw [hfs, fieldGet_cons_xt]; simp⟩
      · obtain ⟨v', hv', hg⟩ := ih rest hpw.2 hrest o ho' ht
        refine ⟨v', hv', ?_⟩
        rw [hfs, fieldGet_cons_xt]
        have hne : k.name ≠ o.name := hpw.1 o.name (List.mem_map_of_mem ho')
        simp [hne, hg]
    by_cases hkt : k.meta.tmpl < 0
    · simp only [hkt, if_true] at h
      rcases List.mem_cons.mp ho with rfl | ho'
      · exact absurd hkt ht
      · exact ih fs hpw.2 h o ho' ht
    · simp only [hkt, if_false] at h
      by_cases hdis : (k.meta.disabled || decide (k.meta.tmpl > 0)) = true
      · simp only [hdis, if_true] at h
        cases hr : extractSpecKids e os with
        | error err => rw [hr] at h; cases h
        | ok rest =>
          rw [hr] at h
          simp only [Except.map, Except.ok.injEq] at h
          exact key .none rest h.symm hr (by unfold kidValue; simp [hdis])
      · simp only [hdis, if_false, Bool.false_eq_true] at h
        cases hv : extractSpec e k with
        | error err => rw [hv] at h; cases h
        | ok v =>
          rw [hv] at h
          cases hr : extractSpecKids e os with
          | error err => rw [hr] at h; cases h
          | ok rest =>
            rw [hr] at h
            simp only [Except.map, Except.ok.injEq] at h
            exact key v rest h.symm hr (by unfold kidValue; simp [hdis, hv])

/-- **the value at a live path is the extraction of the definition at that path** -/
theorem valueAt_extract_xt (e : Envs) : ∀ (ps : List Str) (kids : List Obj) (fs : List (Str × PVal))
    (n : Str) (dm : Meta) (dws : List Word),
    DKids_xt kids → (kids.map Obj.name).Pairwise (· ≠ ·) → extractSpecKids e kids = .ok fs →
    defAt kids ps n = some (.defn dm dws) → livePath_xt kids ps n = true →
    ∃ leaf, valueAt (.record fs) ps n = some leaf ∧ extractDefn e dm dws = .ok leaf
  | [], kids, fs, n, dm, dws, hk, hpw, hfs, hd, hl => by
    rw [defAt] at hd
    rw [livePath_xt] at hl
    cases hfn : findNamedTree kids n with
    | none => rw [hfn] at hd; cases hd
    | some o =>
      rw [hfn] at hd hl
      cases o with
      | scope m k' => cases hd
      | defn m ws =>
        simp only [Option.some.injEq, Obj.defn.injEq] at hd
        obtain ⟨rfl, rfl⟩ := hd
        simp only at hl
        obtain ⟨hmem, hname⟩ := findNamed_mem_xt hfn
        obtain ⟨v, hv, hg⟩ := fieldGet_extractSpecKids_xt e kids fs hpw hfs _ hmem
          (live_not_placeholder_xt _ hl)
        rw [kidValue_live_xt e _ hl, extractSpec] at hv
        rw [hname] at hg
        exact ⟨v, by rw [valueAt]; exact hg, hv⟩
  | s :: ps, kids, fs, n, dm, dws, hk, hpw, hfs, hd, hl => by
    rw [defAt] at hd
    rw [livePath_xt] at hl
    cases hfn : findNamedTree kids s with
    | none => rw [hfn] at hd; cases hd
    | some o =>
      rw [hfn] at hd hl
      cases o with
      | defn m ws => cases hd
      | scope m k' =>
        simp only [Bool.and_eq_true] at hl hd
        obtain ⟨hmem, hname⟩ := findNamed_mem_xt hfn
        obtain ⟨v, hv, hg⟩ := fieldGet_extractSpecKids_xt e kids fs hpw hfs _ hmem
          (live_not_placeholder_xt _ hl.1)
        rw [kidValue_live_xt e _ hl.1, extractSpec] at hv
        have hdo := (dkids_iff_xt kids).1 hk _ hmem
        rw [DObj_xt] at hdo
        cases hr : extractSpecKids e k' with
        | error err => rw [hr] at hv; cases hv
        | ok fs' =>
          rw [hr] at hv
          simp only [Except.map, Except.ok.injEq] at hv
          obtain ⟨leaf, h1, h2⟩ := valueAt_extract_xt e ps k' fs' n dm dws hdo.2.1 hdo.2.2 hr hd hl.2
          rw [hname] at hg
          refine ⟨leaf, ?_, h2⟩
          rw [valueAt, hg, ← hv]
          exact h1

/-! ### an error of the extraction is the error of a live definition -/

/-- the first component of a path -/
def pathHead_xt (ps : List Str) (n : Str) : Str :=
  match ps with
  | [] => n
  | s :: _ => s

theorem findNamed_cons_ne_xt (o : Obj) (os : List Obj) (n : Str) (h : o.name ≠ n) :
    findNamedTree (o :: os) n = findNamedTree os n := by
  unfold findNamedTree
  rw [List.find?_cons]
  have : (o.name == n) = false := by simpa using h
  simp [this]

theorem findNamed_cons_self_xt (o : Obj) (os : List Obj) : findNamedTree (o :: os) o.name = some o := by
  unfold findNamedTree
  rw [List.find?_cons]
  simp

theorem defAt_cons_ne_xt (o : Obj) (os : List Obj) (ps : List Str) (n : Str)
    (h : o.name ≠ pathHead_xt ps n) : defAt (o :: os) ps n = defAt os ps n := by
  cases ps with
  | nil => rw [defAt, defAt, findNamed_cons_ne_xt o os n h]
  | cons s ps => rw [defAt, defAt, findNamed_cons_ne_xt o os s h]

theorem livePath_cons_ne_xt (o : Obj) (os : List Obj) (ps : List Str) (n : Str)
    (h : o.name ≠ pathHead_xt ps n) : livePath_xt (o :: os) ps n = livePath_xt os ps n := by
  cases ps with
  | nil => rw [livePath_xt, livePath_xt, findNamed_cons_ne_xt o os n h]
  | cons s ps => rw [livePath_xt, livePath_xt, findNamed_cons_ne_xt o os s h]

theorem defAt_some_mem_xt (os : List Obj) (ps : List Str) (n : Str) (d : Obj)
    (h : defAt os ps n = some d) : ∃ x ∈ os, x.name = pathHead_xt ps n := by
  cases ps with
  | nil =>
    rw [defAt] at h
    cases hfn : findNamedTree os n with
    | none => rw [hfn] at h; cases h
    | some x => exact ⟨x, (findNamed_mem_xt hfn).1, (findNamed_mem_xt hfn).2⟩
  | cons s ps =>
    rw [defAt] at h
    cases hfn : findNamedTree os s with
    | none => rw [hfn] at h; cases h
    | some x => exact ⟨x, (findNamed_mem_xt hfn).1, (findNamed_mem_xt hfn).2⟩

mutual
theorem extractSpec_error_leaf_xt (e : Envs) : ∀ (m : Meta) (kids : List Obj) (err : Err),
    (kids.map Obj.name).Pairwise (· ≠ ·) → DKids_xt kids →
    extractSpec e (.scope m kids) = .error err →
    ∃ ps n dm dws, defAt kids ps n = some (.defn dm dws) ∧ livePath_xt kids ps n = true ∧
      extractDefn e dm dws = .error err
  | m, kids, err, hpw, hk, h => by
    rw [extractSpec] at h
    cases hr : extractSpecKids e kids with
    | ok fs => rw [hr] at h; cases h
    | error err' =>
      rw [hr] at h
      simp only [Except.map, Except.error.injEq] at h
      subst h
      exact extractSpecKids_error_leaf_xt e kids err' hpw hk hr
theorem extractSpecKids_error_leaf_xt (e : Envs) : ∀ (kids : List Obj) (err : Err),
    (kids.map Obj.name).Pairwise (· ≠ ·) → DKids_xt kids →
    extractSpecKids e kids = .error err →
    ∃ ps n dm dws, defAt kids ps n = some (.defn dm dws) ∧ livePath_xt kids ps n = true ∧
      extractDefn e dm dws = .error err
  | [], err, _, _, h => by rw [extractSpecKids] at h; cases h
  | o :: os, err, hpw, hk, h => by
    rw [List.map_cons, List.pairwise_cons] at hpw
    rw [DKids_xt] at hk
    rw [extractSpecKids] at h
    -- an error of the rest is found below the rest; the head's name differs from the path's head
    have fromRest : extractSpecKids e os = .error err →
        ∃ ps n dm dws, defAt (o :: os) ps n = some (.defn dm dws) ∧ livePath_xt (o :: os) ps n = true ∧
          extractDefn e dm dws = .error err := by
      intro hr
      obtain ⟨ps, n, dm, dws, h1, h2, h3⟩ := extractSpecKids_error_leaf_xt e os err hpw.2 hk.2 hr
      obtain ⟨x, hx, hxn⟩ := defAt_some_mem_xt os ps n _ h1
      have hne : o.name ≠ pathHead_xt ps n := by
        rw [← hxn]; exact hpw.1 x.name (List.mem_map_of_mem hx)
      exact ⟨ps, n, dm, dws, by rw [defAt_cons_ne_xt o os ps n hne]; exact h1,
        by rw [livePath_cons_ne_xt o os ps n hne]; exact h2, h3⟩
    have mapErr : ∀ (f : List (Str × PVal) → List (Str × PVal)),
        (extractSpecKids e os).map f = .error err → extractSpecKids e os = .error err := by
      intro f hf
      cases hr : extractSpecKids e os with
      | ok r => rw [hr] at hf; cases hf
      | error e' => rw [hr] at hf; simp only [Except.map, Except.error.injEq] at hf; rw [hf]
    by_cases ht : o.meta.tmpl < 0
    · simp only [ht, if_true] at h
      exact fromRest h
    · simp only [ht, if_false] at h
      by_cases hdis : (o.meta.disabled || decide (o.meta.tmpl > 0)) = true
      · simp only [hdis, if_true] at h
        exact fromRest (mapErr _ h)
      · simp only [hdis, if_false, Bool.false_eq_true] at h
        have hlive : liveObjB_xt o = true := by
          unfold liveObjB_xt
          simp only [Bool.or_eq_true, decide_eq_true_eq, not_or, Bool.not_eq_true] at hdis
          simp only [Bool.and_eq_true, Bool.not_eq_true', beq_iff_eq]
          exact ⟨hdis.1, by omega⟩
        cases hv : extractSpec e o with
        | ok v =>
          rw [hv] at h
          exact fromRest (mapErr _ h)
        | error err' =>
          rw [hv] at h
          simp only [Except.error.injEq] at h
          subst h
          cases o with
          | defn dm dws =>
            rw [extractSpec] at hv
            refine ⟨[], dm.name, dm, dws, ?_, ?_, hv⟩
            · rw [defAt]
              have := findNamed_cons_self_xt (.defn dm dws) os
              simp only [Obj.name, Obj.meta] at this
              rw [this]
            · rw [livePath_xt]
              have := findNamed_cons_self_xt (.defn dm dws) os
              simp only [Obj.name, Obj.meta] at this
              rw [this]
              exact hlive
          | scope sm k' =>
            have hdo := hk.1
            rw [DObj_xt] at hdo
            obtain ⟨ps, n, dm, dws, h1, h2, h3⟩ :=
              extractSpec_error_leaf_xt e sm k' err' hdo.2.2 hdo.2.1 hv
            have hself := findNamed_cons_self_xt (.scope sm k') os
            simp only [Obj.name, Obj.meta] at hself
            refine ⟨sm.name :: ps, n, dm, dws, ?_, ?_, h3⟩
            · rw [defAt, hself]; exact h1
            · rw [livePath_xt, hself]
              simp only [Bool.and_eq_true]
              exact ⟨hlive, h2⟩
end

/-! ### the root scope: its own meta data play no role -/

theorem extractObj_root_eq_spec_xt (e : Envs) (fuel : Nat) (m : Meta) (kids : List Obj)
    (hk : DKids_xt kids) (hpw : (kids.map Obj.name).Pairwise (· ≠ ·)) (hd : depthL kids + 1 < fuel) :
    extractObj e fuel (.scope m kids) = extractSpec e (.scope m kids) := by
  cases fuel with
  | zero => exact absurd hd (Nat.not_lt_zero _)
  | succ fuel =>
    rw [extractObj_scope_xt, extractSpec]
    rw [extractFold_spec_xt e (extractObj e fuel) kids [] (fun k _ => rfl) hpw]
    · cases extractSpecKids e kids with
      | error err => rfl
      | ok l => simp [Except.map]
    · intro k hk'
      have hk'' := (dkids_iff_xt kids).1 hk k hk'
      refine ⟨hk''.notMultiple, extractObj_eq_spec_xt e fuel k hk'' ?_⟩
      have := depthT_le_depthL kids k hk'
      omega

theorem extractSpec_scope_record_xt (e : Envs) (m : Meta) (kids : List Obj) (v : PVal)
    (h : extractSpec e (.scope m kids) = .ok v) : ∃ fs, v = .record fs ∧ extractSpecKids e kids = .ok fs := by
  rw [extractSpec] at h
  cases hr : extractSpecKids e kids with
  | error err => rw [hr] at h; cases h
  | ok fs =>
    rw [hr] at h
    simp only [Except.map, Except.ok.injEq] at h
    exact ⟨fs, h.symm, rfl⟩

/-! ### the result of a tree fetch -/

mutual
theorem dobj_treeObj_xt : ∀ (mo : Obj) (srcs : List Obj), TreeObj mo → DObj_xt (treeObj mo srcs)
  | .defn mm mws, srcs, ht => by
    rw [TreeObj] at ht
    rw [treeObj]
    cases lastDef srcs mm.name with
    | none => dsimp only; rw [DObj_xt]; exact ht.1.notMultiple
    | some d => dsimp only; rw [DObj_xt]; exact ht.1.notMultiple
  | .scope mm kids, srcs, ht => by
    rw [TreeObj] at ht
    rw [treeObj, DObj_xt]
    refine ⟨ht.1, dkids_treeResult_xt kids (srcStep srcs mm.name) ht.2.2.2.2.1, ?_⟩
    rw [treeResult_names]
    exact ht.2.2.2.2.2
theorem dkids_treeResult_xt : ∀ (mkids : List Obj) (srcs : List Obj), TreeKids mkids →
    DKids_xt (treeResult mkids srcs)
  | [], srcs, _ => by rw [treeResult, DKids_xt]; trivial
  | mo :: rest, srcs, ht => by
    rw [TreeKids] at ht
    rw [treeResult, DKids_xt]
    exact ⟨dobj_treeObj_xt mo srcs ht.1, dkids_treeResult_xt rest srcs ht.2⟩
end

/-- the words of the result definition: those of the last enabled source definition of that name at
    that level, the master's own if there is none -/
def treeWords_xt (mm : Meta) (mws : List Word) (srcs : List Obj) : List Word :=
  match lastDef srcs mm.name with
  | some d => d.srcWords
  | none => mws

theorem extractDefn_tmpl_xt (e : Envs) (mm : Meta) (t : Int) (ws : List Word) :
    extractDefn e { mm with tmpl := t } ws = extractDefn e mm ws := rfl

theorem treeObj_defn_xt (mm : Meta) (mws : List Word) (srcs : List Obj) :
    ∃ mm', treeObj (.defn mm mws) srcs = .defn mm' (treeWords_xt mm mws srcs) ∧
      (mm' = mm ∨ mm' = { mm with tmpl := 0 }) := by
  rw [treeObj]
  unfold treeWords_xt
  cases lastDef srcs mm.name with
  | none => exact ⟨mm, rfl, .inl rfl⟩
  | some d => exact ⟨_, rfl, .inr rfl⟩

theorem livePath_treeResult_xt : ∀ (ps : List Str) (mkids srcs : List Obj) (n : Str) (mm : Meta)
    (mws : List Word), TreeKids mkids → defAt mkids ps n = some (.defn mm mws) → mm.tmpl = 0 →
    livePath_xt (treeResult mkids srcs) ps n = true
  | [], mkids, srcs, n, mm, mws, ht, hd, h0 => by
    rw [defAt] at hd
    rw [livePath_xt, findNamed_treeResult]
    cases hfn : findNamedTree mkids n with
    | none => rw [hfn] at hd; cases hd
    | some o =>
      rw [hfn] at hd
      cases o with
      | scope m k' => cases hd
      | defn m ws =>
        simp only [Option.some.injEq, Obj.defn.injEq] at hd
        obtain ⟨rfl, rfl⟩ := hd
        have hto := (treeKids_iff mkids).1 ht _ (findNamed_mem_xt hfn).1
        rw [TreeObj] at hto
        simp only [Option.map_some]
        obtain ⟨mm', heq, hmm⟩ := treeObj_defn_xt m ws srcs
        rw [heq]
        unfold liveObjB_xt
        rcases hmm with rfl | rfl <;> simp [Obj.meta, hto.2.2.2, h0]
  | s :: ps, mkids, srcs, n, mm, mws, ht, hd, h0 => by
    rw [defAt] at hd
    rw [livePath_xt, findNamed_treeResult]
    cases hfn : findNamedTree mkids s with
    | none => rw [hfn] at hd; cases hd
    | some o =>
      rw [hfn] at hd
      cases o with
      | defn m ws => cases hd
      | scope sm k' =>
        have hto := (treeKids_iff mkids).1 ht _ (findNamed_mem_xt hfn).1
        rw [TreeObj] at hto
        simp only [Option.map_some, treeObj, Bool.and_eq_true]
        refine ⟨?_, livePath_treeResult_xt ps k' (srcStep srcs sm.name) n mm mws hto.2.2.2.2.1 hd h0⟩
        unfold liveObjB_xt
        simp [Obj.meta, hto.2.2.2.1]

/-- **extraction of the closed-form result of a tree fetch**: an error is the converter's error on
    the final words of some master definition; a success holds, at the path of every master
    definition (not a template), the conversion of that definition's final words. -/
theorem extract_treeResult_xt (e : Envs) (m : Meta) (mkids srcs : List Obj) (hf : TreeMaster mkids) :
    (∀ err, extractSpec e (.scope m (treeResult mkids srcs)) = .error err →
      ∃ ps n mm mws, defAt mkids ps n = some (.defn mm mws) ∧
        extractDefn e mm (treeWords_xt mm mws (srcAt srcs ps)) = .error err) ∧
    (∀ v, extractSpec e (.scope m (treeResult mkids srcs)) = .ok v →
      ∀ ps n mm mws, defAt mkids ps n = some (.defn mm mws) → mm.tmpl = 0 →
        ∃ leaf, valueAt v ps n = some leaf ∧
          extractDefn e mm (treeWords_xt mm mws (srcAt srcs ps)) = .ok leaf) := by
  have hdk := dkids_treeResult_xt mkids srcs hf.kids
  have hpw : ((treeResult mkids srcs).map Obj.name).Pairwise (· ≠ ·) := by
    rw [treeResult_names]; exact hf.distinct
  constructor
  · intro err h
    obtain ⟨ps, n, dm, dws, h1, _, h3⟩ := extractSpec_error_leaf_xt e m _ err hpw hdk h
    rw [defAt_treeResult] at h1
    cases hd : defAt mkids ps n with
    | none => rw [hd] at h1; cases h1
    | some mo =>
      rw [hd] at h1
      simp only [Option.map_some, Option.some.injEq] at h1
      cases mo with
      | scope sm k' => rw [treeObj] at h1; cases h1
      | defn mm mws =>
        obtain ⟨mm', heq, hmm⟩ := treeObj_defn_xt mm mws (srcAt srcs ps)
        rw [heq] at h1
        simp only [Obj.defn.injEq] at h1
        obtain ⟨rfl, rfl⟩ := h1
        refine ⟨ps, n, mm, mws, hd, ?_⟩
        rcases hmm with rfl | rfl
        · exact h3
        · rw [extractDefn_tmpl_xt] at h3; exact h3
  · intro v h ps n mm mws hd h0
    obtain ⟨fs, rfl, hfs⟩ := extractSpec_scope_record_xt e m _ v h
    obtain ⟨mm', heq, hmm⟩ := treeObj_defn_xt mm mws (srcAt srcs ps)
    have hd' : defAt (treeResult mkids srcs) ps n = some (.defn mm' (treeWords_xt mm mws (srcAt srcs ps))) := by
      rw [defAt_treeResult, hd, Option.map_some, heq]
    obtain ⟨leaf, h1, h2⟩ := valueAt_extract_xt e ps _ fs n _ _ hdk hpw hfs hd'
      (livePath_treeResult_xt ps mkids srcs n mm mws hf.kids hd h0)
    refine ⟨leaf, h1, ?_⟩
    rcases hmm with rfl | rfl
    · exact h2
    · rw [extractDefn_tmpl_xt] at h2; exact h2

/-! ## 3. `scope.format` in closed form -/

/-- the loop body of `scope.format` (the model's `step`), the recursive call a parameter -/
def fstep_xt (F : Obj → PVal → R Obj) (v : PVal) :
    (List Obj × List (Str × Bool)) → (Nat × Obj) → R (List Obj × List (Str × Bool)) := fun st io =>
  let out : List Obj := st.1
  let done : List (Str × Bool) := st.2
  let o : Obj := io.2
  let mult := isMultiple o
  let skip := mult && o.isScope && done.any (·.1 == o.name)
  if skip then Except.ok (out, done) else
  let done := if mult && o.isScope then done ++ [(o.name, false)] else done
  match v with
  | .none => (F o .none).map (fun r => (out ++ [r], done))
  | .auto => (F o .auto).map (fun r => (out ++ [r], done))
  | _ =>
    let pobjs : R (List PVal) := match v with
      | .record _ => .ok [v]
      | .multi _ l => .ok l
      | .list l => .ok l
      | _ => .error (.stray "TypeError" "format_iterate")
    match pobjs with
    | .error err => .error err
    | .ok pobjs =>
      let inner : (List Obj × List (Str × Bool)) → PVal → R (List Obj × List (Str × Bool)) := fun st pi =>
        let out : List Obj := st.1
        let done : List (Str × Bool) := st.2
        match pi with
        | .record fs =>
          (match fieldGet fs o.name with
           | none => .ok (out, done)
           | some sub =>
             if !mult then (F o sub).map (fun r => (out ++ [r], done))
             else
               let elems : R (List PVal) := match sub with
                 | .multi _ l => .ok l
                 | .list l => .ok l
                 | .words ws => .ok (ws.map (fun _ => PVal.none))
                 | .str _ => .error (.unsupported "len() of a str")
                 | _ => .error (.stray "TypeError" "format_len")
               match elems with
               | .error err => .error err
               | .ok [] => .ok (out ++ [withTmpl o 1], done)
               | .ok l =>
                 let needTmpl : Bool := match done.find? (fun (p : Str × Bool) => p.1 == o.name) with
                   | some p => !p.2
                   | none => false
                 let out2 : List Obj := if needTmpl then out ++ [withTmpl o (-1)] else out
                 let done2 : List (Str × Bool) :=
                   if needTmpl then done.map (fun (p : Str × Bool) => if p.1 == o.name then (p.1, true) else p) else done
                 let accStep : List Obj → PVal → R (List Obj) := fun acc x =>
                   (F o x).map (fun r => acc ++ [r])
                 (l.foldlM accStep out2).map (fun r => (r, done2)))
        | _ => .error (.stray "AttributeError" "phil_get")
      pobjs.foldlM inner (out, done)

theorem formatObj_scope_xt (e : Envs) (fuel : Nat) (m : Meta) (kids : List Obj) (v : PVal) :
    formatObj e (fuel + 1) (.scope m kids) v =
      match masterActiveObjects kids with
      | .error err => .error err
      | .ok actives =>
        match actives.foldlM (fstep_xt (formatObj e fuel) v) (([] : List Obj), ([] : List (Str × Bool))) with
        | .error err => .error err
        | .ok (out, _) => .ok (.scope { m with tmpl := 0 } out) := by
  rfl

/-- what `scope.format` iterates over: a `scope_extract` stands for the one-element list of itself -/
def pobjsOf_xt (v : PVal) : R (List PVal) :=
  match v with
  | .record _ => .ok [v]
  | .multi _ l => .ok l
  | .list l => .ok l
  | _ => .error (.stray "TypeError" "format_iterate")

/-- the objects one element of that iteration contributes for the master child called `nm`: none if
    the element has no such attribute, the child formatted with the attribute's value otherwise -/
def itemFormat_xt (F : PVal → R Obj) (nm : Str) (pi : PVal) : R (List Obj) :=
  match pi with
  | .record fs =>
    (match fieldGet fs nm with
     | none => .ok []
     | some sub => (F sub).map (fun r => [r]))
  | _ => .error (.stray "AttributeError" "phil_get")

/-- the objects a non-multiple master child called `nm` contributes to `scope.format(v)`; `F` formats
    the child itself -/
def kidFormat_xt (F : PVal → R Obj) (nm : Str) (v : PVal) : R (List Obj) :=
  match v with
  | .none => (F .none).map (fun r => [r])
  | .auto => (F .auto).map (fun r => [r])
  | _ =>
    match pobjsOf_xt v with
    | .error err => .error err
    | .ok ps => (mapR (itemFormat_xt F nm) ps).map List.flatten

mutual
/-- `scope.format` / `definition.format` by structural recursion, for masters without `.multiple`
    whose objects are enabled and whose sibling names are pairwise distinct -/
def formatSpec (e : Envs) : Obj → PVal → R Obj
  | .defn m ws, v => formatDefn e m ws v
  | .scope m kids, v => (formatSpecKids e kids v).map (fun out => Obj.scope { m with tmpl := 0 } out)
/-- the objects of the formatted scope: the contributions of the master's children, in order -/
def formatSpecKids (e : Envs) : List Obj → PVal → R (List Obj)
  | [], _ => .ok []
  | o :: os, v =>
    match kidFormat_xt (formatSpec e o) o.name v with
    | .error err => .error err
    | .ok rs => (formatSpecKids e os v).map (fun rest => rs ++ rest)
end

/-- on a `scope_extract` the contribution of a child is: nothing if the record lacks the field, the
    child formatted with the field's value otherwise -/
theorem kidFormat_record_xt (F : PVal → R Obj) (nm : Str) (fs : List (Str × PVal)) :
    kidFormat_xt F nm (.record fs) =
      match fieldGet fs nm with
      | none => .ok []
      | some sub => (F sub).map (fun r => [r]) := by
  unfold kidFormat_xt pobjsOf_xt
  simp only [mapR, itemFormat_xt]
  cases fieldGet fs nm with
  | none => rfl
  | some sub =>
    simp only []
    cases F sub <;> rfl

/-- the inner loop over the iterated elements, non-multiple child -/
theorem finner_fold_xt (F : PVal → R Obj) (nm : Str) (done : List (Str × Bool)) :
    ∀ (ps : List PVal) (out : List Obj),
      ps.foldlM (fun (st : List Obj × List (Str × Bool)) (pi : PVal) =>
          (match pi with
           | .record fs =>
             (match fieldGet fs nm with
              | none => (Except.ok (st.1, st.2) : R (List Obj × List (Str × Bool)))
              | some sub => (F sub).map (fun r => (st.1 ++ [r], st.2)))
           | _ => .error (.stray "AttributeError" "phil_get"))) (out, done)
        = (mapR (itemFormat_xt F nm) ps).map (fun rs => (out ++ rs.flatten, done)) := by
  intro ps
  induction ps with
  | nil => intro out; simp [mapR, Except.map, pure, Except.pure]
  | cons pi ps ih =>
    intro out
    rw [List.foldlM_cons]
    simp only [mapR]
    cases pi with
    | record fs =>
      simp only [itemFormat_xt]
      cases hg : fieldGet fs nm with
      | none =>
        show ps.foldlM _ (out, done) = _
        rw [ih out]
        cases mapR (itemFormat_xt F nm) ps <;> simp [Except.map]
      | some sub =>
        simp only []
        cases hF : F sub with
        | error err => rfl
        | ok r =>
          show ps.foldlM _ (out ++ [r], done) = _
          rw [ih (out ++ [r])]
          cases mapR (itemFormat_xt F nm) ps <;> simp [Except.map]
    | _ => rfl

/-- one step of the master loop for a non-multiple child -/
theorem fstep_plain_xt (F : Obj → PVal → R Obj) (v : PVal) (out : List Obj) (done : List (Str × Bool))
    (i : Nat) (o : Obj) (hm : isMultiple o = false) :
    fstep_xt F v (out, done) (i, o) =
      (kidFormat_xt (F o) o.name v).map (fun rs => (out ++ rs, done)) := by
  have hin := finner_fold_xt (F o) o.name done
  unfold fstep_xt kidFormat_xt pobjsOf_xt
  simp only [hm, Bool.false_and, Bool.false_eq_true, if_false, Bool.not_false, if_true]
  cases v with
  | none => simp only; cases F o .none <;> simp [Except.map]
  | auto => simp only; cases F o .auto <;> simp [Except.map]
  | record fs =>
    simp only
    rw [hin]
    cases mapR (itemFormat_xt (F o) o.name) [PVal.record fs] <;> simp [Except.map]
  | multi opt l =>
    simp only
    rw [hin]
    cases mapR (itemFormat_xt (F o) o.name) l <;> simp [Except.map]
  | list l =>
    simp only
    rw [hin]
    cases mapR (itemFormat_xt (F o) o.name) l <;> simp [Except.map]
  | _ => rfl

mutual
/-- a master without `.multiple`: every object enabled, sibling names pairwise distinct at every
    depth; definitions of any type (choices included), with or without `.deprecated` -/
def FObj_xt : Obj → Prop
  | .defn m _ => (m.attrs.get "multiple").truthy = false ∧ m.disabled = false
  | .scope m kids =>
    (m.attrs.get "multiple").truthy = false ∧ m.disabled = false ∧ FKids_xt kids ∧
      (kids.map Obj.name).Pairwise (· ≠ ·)
def FKids_xt : List Obj → Prop
  | [] => True
  | o :: os => FObj_xt o ∧ FKids_xt os
end

theorem fkids_iff_xt : ∀ (l : List Obj), FKids_xt l ↔ ∀ o ∈ l, FObj_xt o
  | [] => by rw [FKids_xt]; simp
  | o :: os => by rw [FKids_xt, fkids_iff_xt os]; simp

theorem FObj_xt.notMultiple : ∀ {o : Obj}, FObj_xt o → isMultiple o = false
  | .defn m ws, h => by rw [FObj_xt] at h; exact h.1
  | .scope m kids, h => by rw [FObj_xt] at h; exact h.1

theorem FObj_xt.enabled : ∀ {o : Obj}, FObj_xt o → o.meta.disabled = false
  | .defn m ws, h => by rw [FObj_xt] at h; exact h.2
  | .scope m kids, h => by rw [FObj_xt] at h; exact h.2.1

mutual
theorem fobj_of_treeObj_xt : ∀ (o : Obj), TreeObj o → FObj_xt o
  | .defn m ws, h => by rw [TreeObj] at h; rw [FObj_xt]; exact ⟨h.1.notMultiple, h.2.2.2⟩
  | .scope m kids, h => by
    rw [TreeObj] at h; rw [FObj_xt]
    exact ⟨h.1, h.2.2.2.1, fkids_of_treeKids_xt kids h.2.2.2.2.1, h.2.2.2.2.2⟩
theorem fkids_of_treeKids_xt : ∀ (l : List Obj), TreeKids l → FKids_xt l
  | [], _ => by rw [FKids_xt]; trivial
  | o :: os, h => by
    rw [TreeKids] at h; rw [FKids_xt]; exact ⟨fobj_of_treeObj_xt o h.1, fkids_of_treeKids_xt os h.2⟩
end

theorem masterActive_fkids_xt (kids : List Obj) (hk : FKids_xt kids)
    (hpw : (kids.map Obj.name).Pairwise (· ≠ ·)) : masterActiveObjects kids = .ok (indexed kids) := by
  have hsnd := indexed_map_snd kids
  show masterActiveObjects.go (indexed kids) [] [] = _
  rw [masterActive_go_all (indexed kids) [] []]
  · simp
  · intro p hp
    have : p.2 ∈ kids := by rw [← hsnd]; exact List.mem_map.mpr ⟨p, hp, rfl⟩
    exact ((fkids_iff_xt kids).1 hk _ this).enabled
  · rw [map_snd_comp Obj.name, hsnd]; exact hpw
  · intro p _ q hq; cases hq

/-- the master loop of `scope.format` over non-multiple children is the specification -/
theorem formatFold_spec_xt (e : Envs) (F : Obj → PVal → R Obj) (v : PVal) :
    ∀ (l : List (Nat × Obj)) (out : List Obj),
      (∀ p ∈ l, isMultiple p.2 = false ∧ F p.2 = formatSpec e p.2) →
      l.foldlM (fstep_xt F v) (out, ([] : List (Str × Bool))) =
        (formatSpecKids e (l.map (fun p => p.2)) v).map (fun rs => (out ++ rs, ([] : List (Str × Bool)))) := by
  intro l
  induction l with
  | nil => intro out _; rw [List.map_nil, formatSpecKids]; simp [Except.map, pure, Except.pure]
  | cons p l ih =>
    intro out h
    obtain ⟨i, o⟩ := p
    have ho := h (i, o) List.mem_cons_self
    simp only at ho
    rw [List.foldlM_cons, fstep_plain_xt F v out [] i o ho.1, ho.2, List.map_cons, formatSpecKids]
    cases hk : kidFormat_xt (formatSpec e o) o.name v with
    | error err => rfl
    | ok rs =>
      show l.foldlM (fstep_xt F v) (out ++ rs, []) = _
      rw [ih (out ++ rs) (fun p hp => h p (List.mem_cons_of_mem _ hp))]
      cases formatSpecKids e (l.map (fun p => p.2)) v <;> simp [Except.map]

/-- **closed form of `scope.format`**: on a master without `.multiple` (enabled objects, pairwise
    distinct sibling names), with fuel beyond the depth, for EVERY Python value — a `scope_extract`,
    `None`, `Auto`, a list, anything — the fuelled model is the structural specification. -/
theorem formatObj_eq_spec_xt (e : Envs) : ∀ (fuel : Nat) (o : Obj), FObj_xt o → depthT o < fuel →
    ∀ v, formatObj e fuel o v = formatSpec e o v := by
  intro fuel
  induction fuel with
  | zero => intro o _ h; exact absurd h (Nat.not_lt_zero _)
  | succ fuel ih =>
    intro o hx hd v
    cases o with
    | defn m ws => rw [formatObj, formatSpec]
    | scope m kids =>
      rw [FObj_xt] at hx
      rw [depthT] at hd
      rw [formatObj_scope_xt, formatSpec, masterActive_fkids_xt kids hx.2.2.1 hx.2.2.2]
      simp only
      rw [formatFold_spec_xt e (formatObj e fuel) v (indexed kids) [], indexed_map_snd]
      · cases formatSpecKids e kids v <;> simp [Except.map]
      · intro p hp
        have hmem : p.2 ∈ kids := by rw [← indexed_map_snd kids]; exact List.mem_map.mpr ⟨p, hp, rfl⟩
        have hk' := (fkids_iff_xt kids).1 hx.2.2.1 _ hmem
        refine ⟨hk'.notMultiple, ?_⟩
        funext x
        refine ih p.2 hk' ?_ x
        have := depthT_le_depthL kids _ hmem
        omega

/-! ## 4. the round trip of one leaf -/

/-- the word `as_words` writes for the master alternative `w` when `s` is the selected name -/
def starAt_xt (s : Str) (w : Word) : Word :=
  { value := if (stripStar w.value).1 == s then '*' :: (stripStar w.value).1 else (stripStar w.value).1,
    quote := w.quote }

theorem starredNames_starAt_xt (s : Str) (mws : List Word) (hds : NoDoubleStar mws) :
    starredNames (mws.map (starAt_xt s)) =
      (mws.filter (fun w => (stripStar w.value).1 == s)).map (fun _ => s) := by
  induction mws with
  | nil => rfl
  | cons w ws ih =>
    have hw := hds w (by simp)
    have := ih (fun x hx => hds x (by simp [hx]))
    unfold starredNames at this ⊢
    rw [List.map_cons, List.filterMap_cons, List.filter_cons]
    by_cases hit : ((stripStar w.value).1 == s) = true
    · have hs : (stripStar w.value).1 = s := by simpa using hit
      simp only [starAt_xt, hit, if_true, stripStar_cons_star, List.map_cons]
      rw [this, hs]
    · simp only [starAt_xt, hit, Bool.false_eq_true, if_false, hw]
      exact this

theorem isPlainAuto_false_of_star_xt (ws : List Word) (hstar : ∃ w ∈ ws, (stripStar w.value).2 = true) :
    isPlainAuto ws = false := by
  unfold isPlainAuto
  split
  · rename_i w
    obtain ⟨w', hw', hs⟩ := hstar
    simp only [List.mem_singleton] at hw'
    subst hw'
    unfold stripStar at hs
    split at hs
    · rename_i r heq
      rw [heq, lower_cons]
      have h1 : lowerChar '*' = '*' := by decide
      have h2 : ("auto".toList) = 'a' :: "uto".toList := by rfl
      rw [h1, h2]
      have h3 : ('*' == 'a') = false := by decide
      simp [h3]
    · cases hs
  · rfl

/-- **a selected alternative of a single `choice` round-trips** (not among the per-converter
    theorems of `Phil.C09`): if `as_words` accepts the name `s` (exactly one alternative of the
    master is called `s`) and no alternative of the master carries two stars, the written words
    read back as `s`. -/
theorem choice_str_round_trip_xt (fmt : FmtEnv) (env : EvalEnv) (opt : AttrVal) (mws ws : List Word)
    (s : Str) (hds : NoDoubleStar mws) (h : asWords (.choice false) fmt opt mws (.str s) = .ok ws) :
    ws = mws.map (starAt_xt s) ∧ fromWords (.choice false) env opt ws = .ok (.str s) := by
  rw [asWords_choice_str] at h
  simp only at h
  split at h
  · cases h
  · rename_i hle
    split at h
    · cases h
    · rename_i hne
      have hws : ws = mws.map (starAt_xt s) := by cases h; rfl
      refine ⟨hws, ?_⟩
      have hlen : (mws.filter (fun w => (stripStar w.value).1 == s)).length = 1 := by
        have h1 : (mws.filter (fun w => (stripStar w.value).1 == s)) ≠ [] := by
          intro h0; rw [h0] at hne; exact hne rfl
        have h2 := List.length_pos_iff.mpr h1
        omega
      have hsn : starredNames ws = [s] := by
        rw [hws, starredNames_starAt_xt s mws hds]
        obtain ⟨x, hx⟩ := List.length_eq_one_iff.mp hlen
        rw [hx]; rfl
      have hpa : isPlainAuto ws = false := by
        apply isPlainAuto_false_of_star_xt
        have hmem : s ∈ starredNames ws := by rw [hsn]; simp
        unfold starredNames at hmem
        rw [List.mem_filterMap] at hmem
        obtain ⟨w, hw, hv⟩ := hmem
        refine ⟨w, hw, ?_⟩
        by_cases hb : (stripStar w.value).2 = true
        · exact hb
        · simp [hb] at hv
      rw [fromWords_choice_eq, hpa, hsn]
      rfl

/-- **the hypotheses of the per-converter round-trip theorems**, one constructor per theorem:
    `RoundTripLeaf c mws x` says that theorem applies to the Python value `x` for a definition of
    type `c` whose master words are `mws`.  Not covered (no per-converter theorem): `float`,
    `floats`, `qstr`, `words`, a non-empty selection of a multi `choice`, `True`/`False` held by an
    `int` (written `1`/`0`, read back as the int), the lists `[]`, `[None]`, `[Auto]` of `ints`. -/
inductive RoundTripLeaf : Conv → List Word → PVal → Prop
  /-- `Phil.C09.auto_round_trip` -/
  | auto (c : Conv) (mws : List Word) : RoundTripLeaf c mws .auto
  /-- `Phil.C09.none_round_trip` -/
  | none (c : Conv) (mws : List Word) (hc : ∀ m, c ≠ .choice m) : RoundTripLeaf c mws .none
  /-- `Phil.C09.choice_none_round_trip` -/
  | choiceNone (mws : List Word) (hds : NoDoubleStar mws) (hpa : isPlainAuto (mws.map unstar) = false) :
      RoundTripLeaf (.choice false) mws .none
  /-- `Phil.C09.multi_choice_empty_round_trip` -/
  | multiEmpty (mws : List Word) (hds : NoDoubleStar mws) (hpa : isPlainAuto (mws.map unstar) = false) :
      RoundTripLeaf (.choice true) mws (.list [])
  /-- `Phil.choice_str_round_trip_xt` (new) -/
  | choiceStr (mws : List Word) (s : Str) (hds : NoDoubleStar mws) : RoundTripLeaf (.choice false) mws (.str s)
  /-- `Phil.C09.bool_round_trip` -/
  | bool (mws : List Word) (b : Bool) : RoundTripLeaf .bool mws (.bool b)
  /-- `Phil.C09.str_round_trip` -/
  | str (c : Conv) (mws : List Word) (s : Str) (hc : c = .str ∨ c = .key) : RoundTripLeaf c mws (.str s)
  /-- `Phil.C09.path_round_trip` -/
  | path (mws : List Word) (s : Str) (hs : s.take 1 ≠ ['~']) : RoundTripLeaf .path mws (.str s)
  /-- `Phil.C09.strings_round_trip` -/
  | strings (mws : List Word) (l : List Str) : RoundTripLeaf .strings mws (.list (l.map PVal.str))
  /-- `Phil.C09.int_round_trip` -/
  | int (a : NumArgs) (mws : List Word) (i : Int) : RoundTripLeaf (.int a) mws (.num (.int i))
  /-- `Phil.C09.ints_round_trip` -/
  | ints (a : ListArgs) (mws : List Word) (l : List PVal)
      (hne : 2 ≤ l.length ∨ ∃ i, l = [.num (.int i)]) : RoundTripLeaf (.ints a) mws (.list l)

/-- **one leaf**: whatever `as_words` writes for a value covered by a per-converter theorem,
    `from_words` reads back as that value (same `.optional`, any `"%.10g"` oracle, an evaluator that
    reads decimal integer literals). -/
theorem leaf_round_trip_xt (c : Conv) (fmt : FmtEnv) (env : EvalEnv) (opt : AttrVal) (mws ws : List Word)
    (x : PVal) (henv : EnvDecimal env) (hx : RoundTripLeaf c mws x)
    (h : asWords c fmt opt mws x = .ok ws) : fromWords c env opt ws = .ok x := by
  cases hx with
  | auto _ _ =>
    rw [asWords_auto] at h; cases h
    exact fromWords_auto_word c env opt
  | none _ _ hc =>
    obtain ⟨rfl, hn⟩ := asWords_none_cases c hc fmt opt mws ws h
    exact fromWords_none_word c hc hn env opt
  | choiceNone _ hds hpa =>
    have hws : ws = mws.map unstar := by
      rw [asWords_choice_none] at h
      split at h
      · cases h
      · cases h; rfl
    exact (choice_none_round_trip fmt env opt mws ws hds h (by rw [hws]; exact hpa)).2
  | multiEmpty _ hds hpa =>
    have hws : ws = mws.map unstar := by
      have h' := h
      rw [asWords_multi_nil, foldl_multiStep_nil] at h'
      simp only [Bool.false_eq_true, ↓reduceIte, List.isEmpty_nil, Bool.true_and, List.nil_append] at h'
      split at h'
      · cases h'
      · cases h'; rfl
    exact (multi_choice_empty_round_trip fmt env opt mws ws hds h (by rw [hws]; exact hpa)).2
  | choiceStr _ s hds => exact (choice_str_round_trip_xt fmt env opt mws ws s hds h).2
  | bool _ b =>
    rw [asWords_bool] at h; cases h
    exact fromWords_bool_word env opt b
  | str _ _ s hc =>
    rw [asWords_str c (by rcases hc with h | h <;> simp [h]) fmt opt mws s] at h
    cases h
    exact fromWords_str_quoted c hc env opt .d1 none s
  | path _ s hs =>
    rw [asWords_str .path (.inr (.inr rfl)) fmt opt mws s] at h
    cases h
    exact fromWords_path_quoted env opt .d1 none s hs
  | strings _ l => exact (strings_round_trip fmt env opt opt mws ws l h).2
  | int a _ i => exact (int_round_trip a fmt env opt opt mws ws i henv h).2
  | ints a _ l hne => exact (ints_round_trip a fmt env opt opt mws ws l henv hne h).2

/-! ## 5. format, then extract: the whole tree -/

mutual
/-- `RTObj master v`: the Python object `v` has exactly the master's shape — for a scope a
    `scope_extract` holding one attribute per master child, in the master's order, for a definition
    a value covered by a per-converter round-trip theorem for the declared type (`strings` when no
    type is declared) -/
def RTObj : Obj → PVal → Prop
  | .defn m ws, x => ∃ c, declConv m = some c ∧ RoundTripLeaf c ws x
  | .scope _ kids, v => ∃ fs, v = .record fs ∧ RTKids kids fs
def RTKids : List Obj → List (Str × PVal) → Prop
  | [], fs => fs = []
  | o :: os, fs => ∃ x rest, fs = (o.name, x) :: rest ∧ RTObj o x ∧ RTKids os rest
end

theorem rtkids_keys_xt : ∀ (os : List Obj) (rest : List (Str × PVal)), RTKids os rest →
    rest.map (fun p => p.1) = os.map Obj.name
  | [], rest, h => by rw [RTKids] at h; subst h; rfl
  | o :: os, rest, h => by
    rw [RTKids] at h
    obtain ⟨x, rest', rfl, _, hr⟩ := h
    rw [List.map_cons, List.map_cons, rtkids_keys_xt os rest' hr]

theorem fieldGet_of_distinct_xt : ∀ (fs : List (Str × PVal)),
    (fs.map (fun p => p.1)).Pairwise (· ≠ ·) → ∀ p ∈ fs, fieldGet fs p.1 = some p.2
  | [], _, p, hp => by cases hp
  | (k, v) :: r, hpw, p, hp => by
    rw [List.map_cons, List.pairwise_cons] at hpw
    rw [fieldGet_cons_xt]
    rcases List.mem_cons.mp hp with rfl | hp'
    · simp
    · have hne : k ≠ p.1 := hpw.1 p.1 (List.mem_map_of_mem hp')
      simp only [beq_iff_eq, hne, if_false]
      exact fieldGet_of_distinct_xt r hpw.2 p hp'

theorem extractSpecKids_cons_live_xt (e : Envs) (o : Obj) (os : List Obj) (h : liveObjB_xt o = true) :
    extractSpecKids e (o :: os) =
      match extractSpec e o with
      | .error err => .error err
      | .ok v => (extractSpecKids e os).map (fun r => (o.name, v) :: r) := by
  unfold liveObjB_xt at h
  simp only [Bool.and_eq_true, Bool.not_eq_true', beq_iff_eq] at h
  rw [extractSpecKids]
  simp [h.1, h.2]

theorem formatDefn_ok_xt (e : Envs) (m : Meta) (ws : List Word) (x : PVal) (w : Obj) (c : Conv)
    (hc : declConv m = some c) (h : formatDefn e m ws x = .ok w) :
    ∃ nws, asWords c e.fmt (m.attrs.get "optional") ws x = .ok nws ∧ w = .defn { m with tmpl := 0 } nws := by
  unfold declConv at hc
  unfold formatDefn at h
  cases ht : m.attrs.get "type" <;> rw [ht] at hc h <;> simp only [Option.some.injEq, reduceCtorEq] at hc
  all_goals
    subst hc
    simp only at h
    cases ha : asWords _ e.fmt (m.attrs.get "optional") ws x with
    | error err => rw [ha] at h; cases h
    | ok nws =>
      rw [ha] at h
      simp only [Except.map, Except.ok.injEq] at h
      exact ⟨nws, rfl, h.symm⟩

mutual
theorem format_extract_obj_xt (e : Envs) (henv : EnvDecimal e.eval) : ∀ (o : Obj) (x : PVal) (w : Obj),
    FObj_xt o → RTObj o x → formatSpec e o x = .ok w →
    extractSpec e w = .ok x ∧ DObj_xt w ∧ w.name = o.name ∧ depthT w = depthT o ∧ liveObjB_xt w = true
  | .defn m mws, x, w, hf, hr, h => by
    rw [FObj_xt] at hf
    rw [RTObj] at hr
    obtain ⟨c, hc, hleaf⟩ := hr
    rw [formatSpec] at h
    obtain ⟨nws, ha, rfl⟩ := formatDefn_ok_xt e m mws x w c hc h
    refine ⟨?_, ?_, rfl, ?_, ?_⟩
    · rw [extractSpec, extractDefn_tmpl_xt]
      have hfw := leaf_round_trip_xt c e.fmt e.eval _ mws nws x henv hleaf ha
      unfold declConv at hc
      unfold extractDefn
      cases ht : m.attrs.get "type" <;> rw [ht] at hc <;> simp only [Option.some.injEq, reduceCtorEq] at hc
      all_goals
        subst hc
        exact hfw
    · rw [DObj_xt]; exact hf.1
    · rw [depthT, depthT]
    · unfold liveObjB_xt; simp [Obj.meta, hf.2]
  | .scope m kids, x, w, hf, hr, h => by
    rw [FObj_xt] at hf
    rw [RTObj] at hr
    obtain ⟨fs, rfl, hk⟩ := hr
    rw [formatSpec] at h
    cases hfk : formatSpecKids e kids (.record fs) with
    | error err => rw [hfk] at h; cases h
    | ok ws =>
      rw [hfk] at h
      simp only [Except.map, Except.ok.injEq] at h
      subst h
      have hkeys := rtkids_keys_xt kids fs hk
      have hget : ∀ p ∈ fs, fieldGet fs p.1 = some p.2 :=
        fieldGet_of_distinct_xt fs (by rw [hkeys]; exact hf.2.2.2)
      obtain ⟨h1, h2, h3, h4⟩ := format_extract_kids_xt e henv kids fs fs ws hf.2.2.1 hk hget hfk
      refine ⟨?_, ?_, rfl, ?_, ?_⟩
      · rw [extractSpec, h1]; rfl
      · rw [DObj_xt]; exact ⟨hf.1, h2, by rw [h3]; exact hf.2.2.2⟩
      · rw [depthT, depthT, h4]
      · unfold liveObjB_xt; simp [Obj.meta, hf.2.1]
theorem format_extract_kids_xt (e : Envs) (henv : EnvDecimal e.eval) :
    ∀ (os : List Obj) (fs rest : List (Str × PVal)) (ws : List Obj),
    FKids_xt os → RTKids os rest → (∀ p ∈ rest, fieldGet fs p.1 = some p.2) →
    formatSpecKids e os (.record fs) = .ok ws →
    extractSpecKids e ws = .ok rest ∧ DKids_xt ws ∧ ws.map Obj.name = os.map Obj.name ∧
      depthL ws = depthL os
  | [], fs, rest, ws, _, hr, _, h => by
    rw [RTKids] at hr
    rw [formatSpecKids] at h
    cases h
    subst hr
    refine ⟨by rw [extractSpecKids], by rw [DKids_xt]; trivial, rfl, rfl⟩
  | o :: os, fs, rest, ws, hf, hr, hget, h => by
    rw [FKids_xt] at hf
    rw [RTKids] at hr
    obtain ⟨x, rest', rfl, hox, hrest⟩ := hr
    rw [formatSpecKids, kidFormat_record_xt, hget (o.name, x) List.mem_cons_self] at h
    simp only at h
    cases hfo : formatSpec e o x with
    | error err => rw [hfo] at h; cases h
    | ok w =>
      rw [hfo] at h
      simp only [Except.map] at h
      cases hfk : formatSpecKids e os (.record fs) with
      | error err => rw [hfk] at h; cases h
      | ok ws' =>
        rw [hfk] at h
        simp only [Except.ok.injEq, List.cons_append, List.nil_append] at h
        subst h
        obtain ⟨a1, a2, a3, a4, a5⟩ := format_extract_obj_xt e henv o x w hf.1 hox hfo
        obtain ⟨b1, b2, b3, b4⟩ := format_extract_kids_xt e henv os fs rest' ws' hf.2 hrest
          (fun p hp => hget p (List.mem_cons_of_mem _ hp)) hfk
        refine ⟨?_, ?_, ?_, ?_⟩
        · rw [extractSpecKids_cons_live_xt e w ws' a5, a1, b1, a3]; rfl
        · rw [DKids_xt]; exact ⟨a2, b2⟩
        · rw [List.map_cons, List.map_cons, a3, b3]
        · rw [depthL, depthL, a4, b4]
end

/-- **C09 on whole trees**: for a master without `.multiple` (enabled objects, pairwise distinct
    sibling names, fuel beyond its depth) and a Python object of exactly the master's shape whose
    leaves are covered by the per-converter round-trip theorems, whatever `master.format(v)` returns
    extracts back to `v`. -/
theorem format_extract_tree_xt (e : Envs) (henv : EnvDecimal e.eval) (fuel : Nat) (master : Obj) (v : PVal)
    (w : Obj) (hf : FObj_xt master) (hd : depthT master < fuel) (hv : RTObj master v)
    (h : formatObj e fuel master v = .ok w) : extractObj e fuel w = .ok v := by
  rw [formatObj_eq_spec_xt e fuel master hf hd v] at h
  obtain ⟨h1, h2, _, h4, _⟩ := format_extract_obj_xt e henv master v w hf hv h
  rw [extractObj_eq_spec_xt e fuel w h2 (by rw [h4]; exact hd)]
  exact h1

/-! ### a refusal of `format` is the refusal of a leaf -/

mutual
theorem formatSpec_error_leaf_xt (e : Envs) : ∀ (m : Meta) (kids : List Obj) (fs : List (Str × PVal))
    (err : Err), FKids_xt kids → (kids.map Obj.name).Pairwise (· ≠ ·) → RTKids kids fs →
    formatSpec e (.scope m kids) (.record fs) = .error err →
    ∃ ps n dm dws x, defAt kids ps n = some (.defn dm dws) ∧ valueAt (.record fs) ps n = some x ∧
      formatDefn e dm dws x = .error err
  | m, kids, fs, err, hf, hpw, hk, h => by
    rw [formatSpec] at h
    cases hr : formatSpecKids e kids (.record fs) with
    | ok ws => rw [hr] at h; cases h
    | error err' =>
      rw [hr] at h
      simp only [Except.map, Except.error.injEq] at h
      subst h
      have hkeys := rtkids_keys_xt kids fs hk
      exact formatSpecKids_error_leaf_xt e kids fs fs err' hf hpw hk
        (fieldGet_of_distinct_xt fs (by rw [hkeys]; exact hpw)) hr
theorem formatSpecKids_error_leaf_xt (e : Envs) : ∀ (os : List Obj) (fs rest : List (Str × PVal))
    (err : Err), FKids_xt os → (os.map Obj.name).Pairwise (· ≠ ·) → RTKids os rest →
    (∀ p ∈ rest, fieldGet fs p.1 = some p.2) →
    formatSpecKids e os (.record fs) = .error err →
    ∃ ps n dm dws x, defAt os ps n = some (.defn dm dws) ∧ valueAt (.record fs) ps n = some x ∧
      formatDefn e dm dws x = .error err
  | [], fs, rest, err, _, _, _, _, h => by rw [formatSpecKids] at h; cases h
  | o :: os, fs, rest, err, hf, hpw, hr, hget, h => by
    rw [FKids_xt] at hf
    rw [List.map_cons, List.pairwise_cons] at hpw
    rw [RTKids] at hr
    obtain ⟨x, rest', rfl, hox, hrest⟩ := hr
    have hgo := hget (o.name, x) List.mem_cons_self
    simp only at hgo
    rw [formatSpecKids, kidFormat_record_xt, hgo] at h
    simp only at h
    cases hfo : formatSpec e o x with
    | ok w =>
      rw [hfo] at h
      simp only [Except.map] at h
      cases hfk : formatSpecKids e os (.record fs) with
      | ok ws' => rw [hfk] at h; cases h
      | error err' =>
        rw [hfk] at h
        simp only [Except.error.injEq] at h
        subst h
        obtain ⟨ps, n, dm, dws, x', h1, h2, h3⟩ := formatSpecKids_error_leaf_xt e os fs rest' err' hf.2 hpw.2
          hrest (fun p hp => hget p (List.mem_cons_of_mem _ hp)) hfk
        obtain ⟨y, hy, hyn⟩ := defAt_some_mem_xt os ps n _ h1
        have hne : o.name ≠ pathHead_xt ps n := by
          rw [← hyn]; exact hpw.1 y.name (List.mem_map_of_mem hy)
        exact ⟨ps, n, dm, dws, x', by rw [defAt_cons_ne_xt o os ps n hne]; exact h1, h2, h3⟩
    | error err' =>
      rw [hfo] at h
      simp only [Except.map, Except.error.injEq] at h
      subst h
      cases o with
      | defn dm dws =>
        rw [formatSpec] at hfo
        have hself := findNamed_cons_self_xt (.defn dm dws) os
        simp only [Obj.name, Obj.meta] at hself hgo
        refine ⟨[], dm.name, dm, dws, x, ?_, ?_, hfo⟩
        · rw [defAt, hself]
        · rw [valueAt]; exact hgo
      | scope sm k' =>
        have hfo' := hf.1
        rw [FObj_xt] at hfo'
        rw [RTObj] at hox
        obtain ⟨fs', rfl, hk'⟩ := hox
        obtain ⟨ps, n, dm, dws, x', h1, h2, h3⟩ :=
          formatSpec_error_leaf_xt e sm k' fs' err' hfo'.2.2.1 hfo'.2.2.2 hk' hfo
        have hself := findNamed_cons_self_xt (.scope sm k') os
        simp only [Obj.name, Obj.meta] at hself hgo
        refine ⟨sm.name :: ps, n, dm, dws, x', ?_, ?_, h3⟩
        · rw [defAt, hself]; exact h1
        · rw [valueAt, hgo]; exact h2
end

/-- `master.format(v)` on a value of the master's shape: a result that extracts back to `v`, or the
    refusal of `definition.format` for one master definition and the value `v` holds at its path -/
theorem format_tree_total_xt (e : Envs) (henv : EnvDecimal e.eval) (fuel : Nat) (m : Meta) (kids : List Obj)
    (v : PVal) (hf : FObj_xt (.scope m kids)) (hd : depthL kids + 1 < fuel)
    (hv : RTObj (.scope m kids) v) :
    (∃ w, formatObj e fuel (.scope m kids) v = .ok w ∧ extractObj e fuel w = .ok v) ∨
    (∃ err ps n dm dws x, formatObj e fuel (.scope m kids) v = .error err ∧
      defAt kids ps n = some (.defn dm dws) ∧ valueAt v ps n = some x ∧
      formatDefn e dm dws x = .error err) := by
  have hd' : depthT (.scope m kids) < fuel := by rw [depthT]; exact hd
  cases h : formatObj e fuel (.scope m kids) v with
  | ok w => exact .inl ⟨w, rfl, format_extract_tree_xt e henv fuel _ v w hf hd' hv h⟩
  | error err =>
    right
    rw [formatObj_eq_spec_xt e fuel _ hf hd' v] at h
    have hf' := hf
    rw [FObj_xt] at hf'
    rw [RTObj] at hv
    obtain ⟨fs, rfl, hk⟩ := hv
    obtain ⟨ps, n, dm, dws, x, h1, h2, h3⟩ :=
      formatSpec_error_leaf_xt e m kids fs err hf'.2.2.1 hf'.2.2.2 hk h
    exact ⟨err, ps, n, dm, dws, x, rfl, h1, h2, h3⟩

/-! ## 6. executable forms of the hypotheses (for parsed instances) -/

mutual
/-- structural equality test on extracted values (`PVal` derives no `DecidableEq`) -/
def pvalBeq_xt : PVal → PVal → Bool
  | .none, .none => true
  | .auto, .auto => true
  | .bool a, .bool b => a == b
  | .num a, .num b => a == b
  | .str a, .str b => a == b
  | .list a, .list b => pvalsBeq_xt a b
  | .words a, .words b => a == b
  | .record a, .record b => fieldsBeq_xt a b
  | .multi o a, .multi o' b => o == o' && pvalsBeq_xt a b
  | _, _ => false
def pvalsBeq_xt : List PVal → List PVal → Bool
  | [], [] => true
  | x :: xs, y :: ys => pvalBeq_xt x y && pvalsBeq_xt xs ys
  | _, _ => false
def fieldsBeq_xt : List (Str × PVal) → List (Str × PVal) → Bool
  | [], [] => true
  | (k, x) :: xs, (k', y) :: ys => k == k' && pvalBeq_xt x y && fieldsBeq_xt xs ys
  | _, _ => false
end

mutual
theorem pvalBeq_sound_xt : ∀ (a b : PVal), pvalBeq_xt a b = true → a = b
  | .none, b, h => by cases b <;> simp [pvalBeq_xt] at h ⊢
  | .auto, b, h => by cases b <;> simp [pvalBeq_xt] at h ⊢
  | .bool a, b, h => by cases b <;> simp [pvalBeq_xt] at h ⊢; exact h
  | .num a, b, h => by cases b <;> simp [pvalBeq_xt] at h ⊢; exact h
  | .str a, b, h => by cases b <;> simp [pvalBeq_xt] at h ⊢; exact h
  | .words a, b, h => by cases b <;> simp [pvalBeq_xt] at h ⊢; exact h
  | .list a, b, h => by
    cases b <;> simp [pvalBeq_xt] at h ⊢
    exact pvalsBeq_sound_xt _ _ h
  | .record a, b, h => by
    cases b <;> simp [pvalBeq_xt] at h ⊢
    exact fieldsBeq_sound_xt _ _ h
  | .multi o a, b, h => by
    cases b <;> simp [pvalBeq_xt] at h ⊢
    exact ⟨h.1, pvalsBeq_sound_xt _ _ h.2⟩
theorem pvalsBeq_sound_xt : ∀ (a b : List PVal), pvalsBeq_xt a b = true → a = b
  | [], b, h => by cases b <;> simp [pvalsBeq_xt] at h ⊢
  | x :: xs, b, h => by
    cases b with
    | nil => simp [pvalsBeq_xt] at h
    | cons y ys =>
      simp [pvalsBeq_xt] at h ⊢
      exact ⟨pvalBeq_sound_xt _ _ h.1, pvalsBeq_sound_xt _ _ h.2⟩
theorem fieldsBeq_sound_xt : ∀ (a b : List (Str × PVal)), fieldsBeq_xt a b = true → a = b
  | [], b, h => by cases b <;> simp [fieldsBeq_xt] at h ⊢
  | (k, x) :: xs, b, h => by
    cases b with
    | nil => simp [fieldsBeq_xt] at h
    | cons p ys =>
      obtain ⟨k', y⟩ := p
      simp [fieldsBeq_xt] at h ⊢
      exact ⟨⟨h.1.1, pvalBeq_sound_xt _ _ h.1.2⟩, fieldsBeq_sound_xt _ _ h.2⟩
end

mutual
def dobjB_xt : Obj → Bool
  | .defn m _ => !(m.attrs.get "multiple").truthy
  | .scope m kids =>
    !(m.attrs.get "multiple").truthy && dkidsB_xt kids && decide ((kids.map Obj.name).Pairwise (· ≠ ·))
def dkidsB_xt : List Obj → Bool
  | [] => true
  | o :: os => dobjB_xt o && dkidsB_xt os
end

mutual
theorem dobjB_sound_xt : ∀ (o : Obj), dobjB_xt o = true → DObj_xt o
  | .defn m ws, h => by
    rw [dobjB_xt] at h; rw [DObj_xt]; simpa using h
  | .scope m kids, h => by
    rw [dobjB_xt] at h; rw [DObj_xt]
    simp only [Bool.and_eq_true, Bool.not_eq_true', decide_eq_true_eq] at h
    exact ⟨h.1.1, dkidsB_sound_xt kids h.1.2, h.2⟩
theorem dkidsB_sound_xt : ∀ (l : List Obj), dkidsB_xt l = true → DKids_xt l
  | [], _ => by rw [DKids_xt]; trivial
  | o :: os, h => by
    rw [dkidsB_xt, Bool.and_eq_true] at h; rw [DKids_xt]
    exact ⟨dobjB_sound_xt o h.1, dkidsB_sound_xt os h.2⟩
end

mutual
def fobjB_xt : Obj → Bool
  | .defn m _ => !(m.attrs.get "multiple").truthy && !m.disabled
  | .scope m kids =>
    !(m.attrs.get "multiple").truthy && !m.disabled && fkidsB_xt kids &&
      decide ((kids.map Obj.name).Pairwise (· ≠ ·))
def fkidsB_xt : List Obj → Bool
  | [] => true
  | o :: os => fobjB_xt o && fkidsB_xt os
end

mutual
theorem fobjB_sound_xt : ∀ (o : Obj), fobjB_xt o = true → FObj_xt o
  | .defn m ws, h => by
    rw [fobjB_xt] at h; rw [FObj_xt]; simpa using h
  | .scope m kids, h => by
    rw [fobjB_xt] at h; rw [FObj_xt]
    simp only [Bool.and_eq_true, Bool.not_eq_true', decide_eq_true_eq] at h
    exact ⟨h.1.1.1, h.1.1.2, fkidsB_sound_xt kids h.1.2, h.2⟩
theorem fkidsB_sound_xt : ∀ (l : List Obj), fkidsB_xt l = true → FKids_xt l
  | [], _ => by rw [FKids_xt]; trivial
  | o :: os, h => by
    rw [fkidsB_xt, Bool.and_eq_true] at h; rw [FKids_xt]
    exact ⟨fobjB_sound_xt o h.1, fkidsB_sound_xt os h.2⟩
end

def noDoubleStarB_xt (mws : List Word) : Bool :=
  mws.all (fun w => !(stripStar (stripStar w.value).1).2)

theorem noDoubleStarB_sound_xt (mws : List Word) (h : noDoubleStarB_xt mws = true) : NoDoubleStar mws := by
  intro w hw
  unfold noDoubleStarB_xt at h
  rw [List.all_eq_true] at h
  simpa using h w hw

def strsOf_xt : List PVal → Option (List Str)
  | [] => some []
  | .str s :: r => (strsOf_xt r).map (fun l => s :: l)
  | _ :: _ => none

theorem strsOf_sound_xt : ∀ (l : List PVal) (ss : List Str), strsOf_xt l = some ss → l = ss.map PVal.str
  | [], ss, h => by simp only [strsOf_xt, Option.some.injEq] at h; subst h; rfl
  | x :: r, ss, h => by
    cases x with
    | str s =>
      simp only [strsOf_xt] at h
      cases hr : strsOf_xt r with
      | none => rw [hr] at h; cases h
      | some l' =>
        rw [hr] at h
        simp only [Option.map_some, Option.some.injEq] at h
        subst h
        rw [List.map_cons, ← strsOf_sound_xt r l' hr]
    | _ => simp [strsOf_xt] at h

def isIntSingleton_xt : List PVal → Bool
  | [.num (.int _)] => true
  | _ => false

theorem isIntSingleton_sound_xt (l : List PVal) (h : isIntSingleton_xt l = true) : ∃ i, l = [.num (.int i)] := by
  unfold isIntSingleton_xt at h
  split at h
  · exact ⟨_, rfl⟩
  · cases h

/-- executable sufficient condition for `RoundTripLeaf` -/
def rtLeafB_xt (c : Conv) (mws : List Word) (x : PVal) : Bool :=
  match x with
  | .auto => true
  | .none =>
    (match c with
     | .choice false => noDoubleStarB_xt mws && !isPlainAuto (mws.map unstar)
     | .choice true => false
     | _ => true)
  | .bool _ => (match c with | .bool => true | _ => false)
  | .str s =>
    (match c with
     | .str => true
     | .key => true
     | .path => s.take 1 != ['~']
     | .choice false => noDoubleStarB_xt mws
     | _ => false)
  | .num (.int _) => (match c with | .int _ => true | _ => false)
  | .list l =>
    (match c with
     | .strings => (strsOf_xt l).isSome
     | .ints _ => decide (2 ≤ l.length) || isIntSingleton_xt l
     | .choice true => l.isEmpty && noDoubleStarB_xt mws && !isPlainAuto (mws.map unstar)
     | _ => false)
  | _ => false

theorem rtLeafB_sound_xt (c : Conv) (mws : List Word) (x : PVal) (h : rtLeafB_xt c mws x = true) :
    RoundTripLeaf c mws x := by
  cases x with
  | auto => exact .auto _ _
  | none =>
    cases c with
    | choice b =>
      cases b with
      | false =>
        simp only [rtLeafB_xt, Bool.and_eq_true, Bool.not_eq_true'] at h
        exact .choiceNone _ (noDoubleStarB_sound_xt _ h.1) h.2
      | true => simp [rtLeafB_xt] at h
    | _ => exact .none _ _ (fun m hm => by cases hm)
  | bool b => cases c <;> first | exact .bool _ _ | simp [rtLeafB_xt] at h
  | str s =>
    cases c with
    | str => exact .str _ _ _ (.inl rfl)
    | key => exact .str _ _ _ (.inr rfl)
    | path =>
      simp only [rtLeafB_xt, bne_iff_ne, ne_eq] at h
      exact .path _ _ h
    | choice b =>
      cases b with
      | false =>
        simp only [rtLeafB_xt] at h
        exact .choiceStr _ _ (noDoubleStarB_sound_xt _ h)
      | true => simp [rtLeafB_xt] at h
    | _ => simp [rtLeafB_xt] at h
  | num n =>
    cases n with
    | int i => cases c <;> first | exact .int _ _ _ | simp [rtLeafB_xt] at h
    | _ => simp [rtLeafB_xt] at h
  | list l =>
    cases c with
    | strings =>
      simp only [rtLeafB_xt] at h
      cases hs : strsOf_xt l with
      | none => rw [hs] at h; cases h
      | some ss => rw [strsOf_sound_xt l ss hs]; exact .strings _ _
    | ints a =>
      simp only [rtLeafB_xt, Bool.or_eq_true, decide_eq_true_eq] at h
      rcases h with h | h
      · exact RoundTripLeaf.ints a mws l (.inl h)
      · exact RoundTripLeaf.ints a mws l (.inr (isIntSingleton_sound_xt l h))
    | choice b =>
      cases b with
      | true =>
        simp only [rtLeafB_xt, Bool.and_eq_true, Bool.not_eq_true', List.isEmpty_iff] at h
        obtain ⟨⟨rfl, h2⟩, h3⟩ := h
        exact .multiEmpty _ (noDoubleStarB_sound_xt _ h2) h3
      | false => simp [rtLeafB_xt] at h
    | _ => simp [rtLeafB_xt] at h
  | _ => simp [rtLeafB_xt] at h

/-- the leaf test of `rtObjB_xt` -/
def rtDefnB_xt (m : Meta) (ws : List Word) (x : PVal) : Bool :=
  match declConv m with
  | some c => rtLeafB_xt c ws x
  | none => false

mutual
/-- executable sufficient condition for `RTObj` -/
def rtObjB_xt : Obj → PVal → Bool
  | .defn m ws, x => rtDefnB_xt m ws x
  | .scope _ kids, .record fs => rtKidsB_xt kids fs
  | .scope _ _, _ => false
def rtKidsB_xt : List Obj → List (Str × PVal) → Bool
  | [], fs => fs.isEmpty
  | o :: os, (k, x) :: rest => k == o.name && rtObjB_xt o x && rtKidsB_xt os rest
  | _ :: _, [] => false
end

mutual
theorem rtObjB_sound_xt : ∀ (o : Obj) (v : PVal), rtObjB_xt o v = true → RTObj o v
  | .defn m ws, x, h => by
    rw [rtObjB_xt] at h
    unfold rtDefnB_xt at h
    rw [RTObj]
    cases hc : declConv m with
    | none => rw [hc] at h; cases h
    | some c => rw [hc] at h; exact ⟨c, rfl, rtLeafB_sound_xt c ws x h⟩
  | .scope m kids, .record fs, h => by
    rw [rtObjB_xt] at h
    rw [RTObj]
    exact ⟨fs, rfl, rtKidsB_sound_xt kids fs h⟩
  | .scope m kids, .none, h => by simp [rtObjB_xt] at h
  | .scope m kids, .auto, h => by simp [rtObjB_xt] at h
  | .scope m kids, .bool _, h => by simp [rtObjB_xt] at h
  | .scope m kids, .num _, h => by simp [rtObjB_xt] at h
  | .scope m kids, .str _, h => by simp [rtObjB_xt] at h
  | .scope m kids, .list _, h => by simp [rtObjB_xt] at h
  | .scope m kids, .words _, h => by simp [rtObjB_xt] at h
  | .scope m kids, .multi _ _, h => by simp [rtObjB_xt] at h
theorem rtKidsB_sound_xt : ∀ (os : List Obj) (fs : List (Str × PVal)), rtKidsB_xt os fs = true → RTKids os fs
  | [], fs, h => by
    rw [rtKidsB_xt] at h; rw [RTKids]; simpa using h
  | o :: os, [], h => by rw [rtKidsB_xt] at h; cases h
  | o :: os, (k, x) :: rest, h => by
    rw [rtKidsB_xt] at h
    rw [RTKids]
    simp only [Bool.and_eq_true, beq_iff_eq] at h
    obtain ⟨⟨rfl, h2⟩, h3⟩ := h
    exact ⟨x, rest, rfl, rtObjB_sound_xt o x h2, rtKidsB_sound_xt os rest h3⟩
end

end Phil
