/-
  Phil.Proofs.IndexConcreteLemmas — the kernel laws of the parameter index (C20) discharged for the
  concrete kernel (`Phil.concreteKernel`, Phil/IndexConcrete.lean) on flat masters.

    1. a successful fetch against a `FlatMultiMaster` has defined keys (converse of the closed form
       `fetch_flat_multi`), hence the closed form holds for every SUCCESSFUL fetch;
    2. `FlatCtx`, `GoodSrc`, `Reached`; reached working sets are closed-form results and good sources;
    3. `refetch w = w` on reached working sets;
    4. `merge` (path collection, deletion of `.multiple` instances) on definition-only edits;
       reached working sets are closed under `merge`;
    5. `Reached` is an invariant of histories; pop restores exactly;
    6. the same edit twice.
  All names carry the suffix `_ick`.
-/
import Phil.IndexConcrete
import Phil.Proofs.FetchSpec
import Phil.Proofs.IndexLemmas
set_option linter.unusedVariables false
namespace Phil

/-! ## 1. a successful fetch has defined keys -/

theorem foldlM_ok_each_ick {α β : Type} (f : β → α → R β) :
    ∀ (l : List α) (init r : β), l.foldlM f init = .ok r → ∀ a ∈ l, ∃ b b', f b a = .ok b' := by
  intro l
  induction l with
  | nil => intro _ _ _ a ha; cases ha
  | cons x l ih =>
    intro init r h a ha
    rw [List.foldlM_cons] at h
    cases hf : f init x with
    | error err => rw [hf] at h; cases h
    | ok b' =>
      rw [hf] at h
      rw [List.mem_cons] at ha
      rcases ha with rfl | ha
      · exact ⟨init, b', hf⟩
      · exact ih b' r h a ha

/-- a candidate step that succeeds on a source definition has computed the candidate's key -/
theorem cstepG_ok_key_ick (F : FetchFn) (e : Envs) (fuel : Nat) (mm : Meta) (mws : List Word) (k0 : Str)
    (sm : Meta) (sws : List Word) (hp : DefnMeta mm) (hok : SrcOK (.defn sm sws)) (acc acc' : CAcc)
    (h : cstepG F e fuel false (.defn mm mws) k0 acc (false, .defn sm sws) = .ok acc') :
    ∃ k, extractFormatStr e (fuel + 64) (.defn mm mws) (candOfSrc (.defn mm mws) (.defn sm sws)) = .ok k := by
  unfold cstepG at h
  simp only [candOf_defn_nodiff, fetchValue_defnMeta mm mws sm sws hp hok, Except.map] at h
  cases hx : extractFormatStr e (fuel + 64) (.defn mm mws)
      (.defn { mm with tmpl := 0 } (Obj.defn sm sws).srcWords) with
  | error err => rw [hx] at h; cases h
  | ok k => exact ⟨k, hx⟩

theorem multiBranch_ok_keys_ick (F : FetchFn) (e : Envs) (fuel : Nat) (mkids : List Obj) (idx : Nat)
    (mm : Meta) (mws : List Word) (M : List Obj) (out : List Obj) (used : List Nat)
    (hfm : fromMasterOf mkids idx (.defn mm mws) = []) (hp : DefnMeta mm)
    (hM : ∀ o ∈ M, o.isDefn = true ∧ SrcOK o) (r : List Obj × List Nat)
    (h : multiBranch F e fuel false mkids idx (.defn mm mws) M out used = .ok r) :
    KeysDefined e fuel (.defn mm mws) M := by
  unfold multiBranch at h
  rw [masterKeyG_defn, hfm, List.nil_append] at h
  cases hk : extractFormatStr e (fuel + 64) (.defn mm mws) (.defn mm mws) with
  | error err => rw [hk] at h; cases h
  | ok k0 =>
    rw [hk] at h
    simp only at h
    refine ⟨⟨k0, hk⟩, ?_⟩
    intro d hd
    cases hfold : (M.map (fun (o : Obj) => (false, o))).foldlM
        (cstepG F e fuel false (.defn mm mws) k0) (([] : List (Option Obj)), ([] : List (Str × Int)), used) with
    | error err => rw [hfold] at h; cases h
    | ok acc =>
      obtain ⟨b, b', hb⟩ := foldlM_ok_each_ick _ _ _ _ hfold (false, d) (List.mem_map.mpr ⟨d, hd, rfl⟩)
      obtain ⟨hdd, hds⟩ := hM d hd
      cases d with
      | scope m k => cases hdd
      | defn sm sws => exact cstepG_ok_key_ick F e fuel mm mws k0 sm sws hp hds b b' hb

/-- **a successful fetch has defined keys** (flat masters with `.multiple` definitions,
    definition-only `SrcOK` sources) -/
theorem fetch_ok_keys_ick (e : Envs) (fuel : Nat) (sm : Meta) (mkids combined : List Obj)
    (hf : FlatMultiMaster mkids) (hsm : sm.name = []) (hsd : sm.disabled = false)
    (hdef : ∀ o ∈ combined, o.isDefn = true) (hsrc : ∀ o ∈ combined, SrcOK o)
    (r : Obj × List Nat) (h : fetchScope e (fuel + 1) false sm mkids combined = .ok r) :
    ∀ mo ∈ mkids, isMultiple mo = true → KeysDefined e fuel mo (activeNamed mo.name combined) := by
  intro mo hmo hmult
  rw [fetchScope_succ, masterActive_flatMulti mkids hf] at h
  simp only at h
  cases hfold : (indexed mkids).foldlM (stepG (fetchScope e fuel) e fuel false sm mkids combined)
      (([] : List Obj), ([] : List Nat)) with
  | error err => rw [hfold] at h; cases h
  | ok st' =>
    have hmem : mo ∈ (indexed mkids).map (fun p => p.2) := by rw [indexed_map_snd]; exact hmo
    obtain ⟨⟨i, o⟩, ha, hae⟩ := List.mem_map.mp hmem
    simp only at hae
    subst hae
    obtain ⟨st, st1, hst⟩ := foldlM_ok_each_ick _ _ _ _ hfold _ ha
    obtain ⟨mm, mws, rfl, hp, hname, _⟩ := hf.defn _ hmo
    unfold stepG at hst
    simp only [hmult, Bool.not_true, Bool.false_eq_true, if_false] at hst
    rw [fetchMatching_flat fuel sm combined (.defn mm mws) hsm hsd hname hdef] at hst
    refine multiBranch_ok_keys_ick _ e fuel mkids i mm mws _ st.1 st.2
      (fromMasterOf_nil mkids hf.distinct i _ ha) hp ?_ st1 hst
    intro d hd
    have := (List.mem_filter.mp hd).1
    exact ⟨hdef d this, hsrc d this⟩

/-! ## 2. the class of contexts, good sources, reached working sets -/

/-- the contexts covered: a flat master (enabled definitions with pairwise distinct non-empty names,
    not `.deprecated`, not choices, `.multiple` or not), fit for re-fetching (not template-marked,
    `$`-free, no recorded variable resolution), and `multiple` lists exactly the names of the
    `.multiple` master definitions (what `build_index(collect_multiple=True)` records) -/
structure FlatCtx (c : IndexCtx) : Prop where
  flat : FlatMultiMaster c.master
  refetch : RefetchOK c.master
  multiple : ∀ p, p ∈ c.multiple ↔ ∃ mo ∈ c.master, isMultiple mo = true ∧ mo.name = p

/-- definition-only, `$`-free sources whose variable resolution succeeds in the model -/
structure GoodSrc (D : List Obj) : Prop where
  isDefn : ∀ o ∈ D, o.isDefn = true
  srcOK : ∀ o ∈ D, SrcOK o
  noDollar : ∀ o ∈ D, hasDollar o.srcWords = false

theorem GoodSrc.nil : GoodSrc [] := by
  constructor <;> intro o ho <;> cases ho

theorem GoodSrc.append {a b : List Obj} (ha : GoodSrc a) (hb : GoodSrc b) : GoodSrc (a ++ b) := by
  constructor <;> intro o ho <;> rcases List.mem_append.mp ho with h | h
  · exact ha.isDefn o h
  · exact hb.isDefn o h
  · exact ha.srcOK o h
  · exact hb.srcOK o h
  · exact ha.noDollar o h
  · exact hb.noDollar o h

theorem GoodSrc.subset {a b : List Obj} (hb : GoodSrc b) (h : ∀ o ∈ a, o ∈ b) : GoodSrc a :=
  ⟨fun o ho => hb.isDefn o (h o ho), fun o ho => hb.srcOK o (h o ho), fun o ho => hb.noDollar o (h o ho)⟩

/-- **the invariant**: the working set is the result of fetching the master against some
    definition-only, `$`-free source list -/
def Reached (c : IndexCtx) (w : List Obj) : Prop :=
  ∃ D used, GoodSrc D ∧ fetchRoot c.envs false c.master [D] = .ok (rootOf w, used)

/-- the keys the list rule compares are defined for the sources `D` -/
def KeysOK (c : IndexCtx) (D : List Obj) : Prop :=
  ∀ mo ∈ c.master, isMultiple mo = true →
    KeysDefined c.envs (rootFuel c.master) mo (activeNamed mo.name D)

/-- the closed form of `master.fetch(sources = D)`: one block per master definition -/
def closedForm (c : IndexCtx) (D : List Obj) : List Obj :=
  c.master.flatMap (blockOf c.envs (rootFuel c.master) D)

theorem rootOf_inj_ick {a b : List Obj} (h : rootOf a = rootOf b) : a = b := by
  unfold rootOf at h; injection h

theorem flatten_one_ick (D : List Obj) : ([D] : List (List Obj)).flatten = D := by simp
theorem flatten_two_ick (A B : List Obj) : ([A, B] : List (List Obj)).flatten = A ++ B := by simp

/-- every SUCCESSFUL fetch of good sources is given by the closed form, and its keys are defined -/
theorem fetchRoot_good_ick {c : IndexCtx} (hc : FlatCtx c) {D : List Obj} (hD : GoodSrc D)
    {r : Obj} {u : List Nat} (h : fetchRoot c.envs false c.master [D] = .ok (r, u)) :
    KeysOK c D ∧ r = rootOf (closedForm c D) := by
  rw [fetchRoot_eq, flatten_one_ick] at h
  have hk := fetch_ok_keys_ick c.envs (rootFuel c.master) _ c.master D hc.flat rfl rfl hD.isDefn hD.srcOK _ h
  refine ⟨hk, ?_⟩
  rw [fetch_flat_multi c.envs (rootFuel c.master) _ c.master D hc.flat rfl rfl hD.isDefn hD.srcOK hk] at h
  cases h
  rfl

/-- conversely the fetch of good sources with defined keys succeeds -/
theorem fetchRoot_closed_ick {c : IndexCtx} (hc : FlatCtx c) {D : List Obj} (hD : GoodSrc D)
    (hk : KeysOK c D) :
    fetchRoot c.envs false c.master [D] = .ok (rootOf (closedForm c D), flatUsed c.master D) := by
  rw [fetchRoot_eq, flatten_one_ick,
    fetch_flat_multi c.envs (rootFuel c.master) _ c.master D hc.flat rfl rfl hD.isDefn hD.srcOK hk]
  rfl

theorem reached_closed_ick {c : IndexCtx} (hc : FlatCtx c) {w : List Obj} (h : Reached c w) :
    ∃ D, GoodSrc D ∧ KeysOK c D ∧ w = closedForm c D := by
  obtain ⟨D, u, hD, hf⟩ := h
  obtain ⟨hk, hr⟩ := fetchRoot_good_ick hc hD hf
  exact ⟨D, hD, hk, rootOf_inj_ick hr⟩

theorem closed_reached_ick {c : IndexCtx} (hc : FlatCtx c) {D : List Obj} (hD : GoodSrc D)
    (hk : KeysOK c D) : Reached c (closedForm c D) :=
  ⟨D, _, hD, fetchRoot_closed_ick hc hD hk⟩

/-- the objects of the closed form are result objects of their master definition -/
theorem closed_resObj_ick {c : IndexCtx} (hc : FlatCtx c) {D : List Obj} (hD : GoodSrc D) :
    ∀ mo ∈ c.master, ∀ o ∈ blockOf c.envs (rootFuel c.master) D mo, ResObj mo o := by
  intro mo hmo
  obtain ⟨mm, mws, rfl, _, _, hen⟩ := hc.flat.defn mo hmo
  exact blockOf_resObj c.envs _ D mm mws hen (hc.refetch _ hmo).2.1 (hc.refetch _ hmo).2.2 hD.noDollar

theorem closed_mem_ick {c : IndexCtx} (hc : FlatCtx c) {D : List Obj} (hD : GoodSrc D) :
    ∀ o ∈ closedForm c D, ∃ mo ∈ c.master, ResObj mo o := by
  intro o ho
  obtain ⟨mo, hmo, ho'⟩ := List.mem_flatMap.mp ho
  exact ⟨mo, hmo, closed_resObj_ick hc hD mo hmo o ho'⟩

theorem closed_goodSrc_ick {c : IndexCtx} (hc : FlatCtx c) {D : List Obj} (hD : GoodSrc D) :
    GoodSrc (closedForm c D) := by
  constructor <;> intro o ho <;> obtain ⟨mo, _, h⟩ := closed_mem_ick hc hD o ho
  · exact h.isDefn
  · exact h.srcOK
  · rw [h.srcWords]; exact h.noDollar

/-- a reached working set is itself a good source list -/
theorem reached_goodSrc_ick {c : IndexCtx} (hc : FlatCtx c) {w : List Obj} (h : Reached c w) :
    GoodSrc w := by
  obtain ⟨D, hD, _, rfl⟩ := reached_closed_ick hc h
  exact closed_goodSrc_ick hc hD

/-- the enabled objects of the closed form called like the master definition `mo`: its block -/
theorem closed_activeNamed_ick {c : IndexCtx} (hc : FlatCtx c) {D : List Obj} (hD : GoodSrc D) :
    ∀ mo ∈ c.master, activeNamed mo.name (closedForm c D) = blockOf c.envs (rootFuel c.master) D mo :=
  activeNamed_flatMap_distinct _ c.master hc.flat.distinct
    (fun mo hmo o ho => ⟨(closed_resObj_ick hc hD mo hmo o ho).name,
      (closed_resObj_ick hc hD mo hmo o ho).enabled⟩)

/-! ## 3. re-fetching a reached working set gives it back -/

theorem refetch_eq_ick (c : IndexCtx) (w : List Obj) :
    (concreteKernel c).refetch w =
      match fetchRoot c.envs false c.master [w] with
      | .ok (r, _) => r.children
      | .error _ => w := rfl

/-- **`refetch` is the identity on reached working sets** (C07 for flat masters) -/
theorem refetch_exact_ick {c : IndexCtx} (hc : FlatCtx c) {w : List Obj} (h : Reached c w) :
    (concreteKernel c).refetch w = w := by
  obtain ⟨D, u, hD, hf⟩ := h
  obtain ⟨hk, _⟩ := fetchRoot_good_ick hc hD hf
  rw [fetchRoot_eq, flatten_one_ick] at hf
  obtain ⟨u', hu⟩ := fetch_flat_multi_idempotent c.envs (rootFuel c.master) _ c.master D hc.flat hc.refetch
    rfl rfl hD.isDefn hD.srcOK hD.noDollar hk _ w u hf
  rw [refetch_eq_ick, fetchRoot_eq, flatten_one_ick, hu]
  rfl

/-! ## 4. `merge` on definition-only edits -/

/-- the paths of the edit that name `.multiple` objects (`redundant_paths` of `merge_phil`) -/
def redundantOf (c : IndexCtx) (edit : List Obj) : List Str :=
  (allPathNames 1000 [] edit).filter (fun p => c.multiple.contains p)

/-- the old working set after `delete_phil_objects(old_phil, redundant_paths)` -/
def oldOf (c : IndexCtx) (edit w : List Obj) : List Obj :=
  if (redundantOf c edit).isEmpty then w else deletePhilObjects 1000 (redundantOf c edit) [] w

theorem merge_eq_ick (c : IndexCtx) (w : List Obj) (text : Str) :
    (concreteKernel c).merge w text =
      match parseObjs text with
      | .error _ => none
      | .ok edit =>
        match fetchRoot c.envs false c.master [edit] with
        | .error _ => none
        | .ok _ =>
          match fetchRoot c.envs false c.master [oldOf c edit w, edit] with
          | .error _ => none
          | .ok (r, _) => some r.children := rfl

theorem joinPath_nil_ick (n : Str) : joinPath [] n = n := rfl

/-- one step of `get_all_path_names` -/
def pathStep (fuel : Nat) (pfx : Str) (acc : List Str) (o : Obj) : List Str :=
  let fp := joinPath pfx o.name
  let acc := if acc.contains fp then acc else acc ++ [fp]
  match o with
  | .scope _ kids => (allPathNames fuel fp kids).foldl (fun a p => if a.contains p then a else a ++ [p]) acc
  | _ => acc

theorem allPathNames_succ_ick (fuel : Nat) (pfx : Str) (objs : List Obj) :
    allPathNames (fuel + 1) pfx objs = objs.foldl (pathStep fuel pfx) [] := by
  rw [allPathNames]; rfl

theorem pathStep_defn_ick (fuel : Nat) (acc : List Str) (m : Meta) (ws : List Word) :
    pathStep fuel [] acc (.defn m ws) = if acc.contains m.name then acc else acc ++ [m.name] := rfl

/-- `get_all_path_names` of a definition-only edit: the names of its definitions -/
theorem mem_allPathNames_defns_ick (fuel : Nat) (p : Str) :
    ∀ (objs : List Obj), (∀ o ∈ objs, o.isDefn = true) →
      (p ∈ allPathNames (fuel + 1) [] objs ↔ ∃ o ∈ objs, o.name = p) := by
  have key : ∀ (objs : List Obj) (acc : List Str), (∀ o ∈ objs, o.isDefn = true) →
      (p ∈ objs.foldl (pathStep fuel []) acc ↔ p ∈ acc ∨ ∃ o ∈ objs, o.name = p) := by
    intro objs
    induction objs with
    | nil => intro acc _; simp
    | cons o objs ih =>
      intro acc hd
      cases o with
      | scope m k => exact absurd (hd _ List.mem_cons_self) (by simp [Obj.isDefn])
      | defn m ws =>
        rw [List.foldl_cons, pathStep_defn_ick]
        rw [ih _ (fun o ho => hd o (List.mem_cons_of_mem _ ho))]
        have hnm : (Obj.defn m ws).name = m.name := rfl
        simp only [hnm, List.mem_cons, exists_eq_or_imp]
        by_cases hc : acc.contains m.name = true
        · simp only [hc, if_true]
          constructor
          · rintro (h | h)
            · exact .inl h
            · exact .inr (.inr h)
          · rintro (h | h | h)
            · exact .inl h
            · exact .inl (by rw [← h]; simpa using hc)
            · exact .inr h
        · simp only [hc, if_false, Bool.false_eq_true, List.mem_append, List.mem_singleton]
          constructor
          · rintro ((h | h) | h)
            · exact .inl h
            · exact .inr (.inl h.symm)
            · exact .inr (.inr h)
          · rintro (h | h | h)
            · exact .inl (.inl h)
            · exact .inl (.inr h.symm)
            · exact .inr h
  intro objs hd
  rw [allPathNames_succ_ick, key objs [] hd]
  simp

theorem mem_redundantOf_ick (c : IndexCtx) (edit : List Obj) (he : ∀ o ∈ edit, o.isDefn = true) (p : Str) :
    p ∈ redundantOf c edit ↔ (∃ o ∈ edit, o.name = p) ∧ p ∈ c.multiple := by
  unfold redundantOf
  rw [List.mem_filter, mem_allPathNames_defns_ick 999 p edit he]
  simp

/-- what `delete_phil_objects` keeps of a root-level definition -/
def keepB (paths : List Str) (o : Obj) : Bool := o.meta.tmpl != 0 || !paths.contains o.name

/-- one step of `delete_phil_objects` -/
def delStep (fuel : Nat) (paths : List Str) (pfx : Str) (o : Obj) : Option Obj :=
  let fp := joinPath pfx o.name
  if o.meta.tmpl != 0 then some o
  else if paths.contains fp then none
  else match o with
    | .scope m kids =>
      if paths.any (fun p => startsWith fp p) then some (.scope m (deletePhilObjects fuel paths fp kids)) else some o
    | d => some d

theorem deletePhil_succ_ick (fuel : Nat) (paths : List Str) (pfx : Str) (objs : List Obj) :
    deletePhilObjects (fuel + 1) paths pfx objs = objs.filterMap (delStep fuel paths pfx) := by
  rw [deletePhilObjects]; rfl

theorem delStep_defn_ick (fuel : Nat) (paths : List Str) (m : Meta) (ws : List Word) :
    delStep fuel paths [] (.defn m ws) =
      if m.tmpl != 0 then some (.defn m ws) else if paths.contains m.name then none else some (.defn m ws) := rfl

theorem deletePhil_defns_ick (fuel : Nat) (paths : List Str) :
    ∀ (w : List Obj), (∀ o ∈ w, o.isDefn = true) →
      deletePhilObjects (fuel + 1) paths [] w = w.filter (keepB paths) := by
  intro w hw
  rw [deletePhil_succ_ick]
  induction w with
  | nil => rfl
  | cons o w ih =>
    have ih' := ih (fun o ho => hw o (List.mem_cons_of_mem _ ho))
    cases o with
    | scope m k => exact absurd (hw _ List.mem_cons_self) (by simp [Obj.isDefn])
    | defn m ws =>
      rw [List.filterMap_cons, List.filter_cons, ih', delStep_defn_ick]
      have hnm : (Obj.defn m ws).name = m.name := rfl
      have hmt : (Obj.defn m ws).meta = m := rfl
      simp only [keepB, hnm, hmt]
      by_cases h1 : (m.tmpl != 0) = true
      · simp [h1]
      · by_cases h2 : m.name ∈ paths
        · simp [h1, h2]
        · simp [h1, h2]

theorem oldOf_eq_filter_ick (c : IndexCtx) (edit w : List Obj) (hw : ∀ o ∈ w, o.isDefn = true) :
    oldOf c edit w = w.filter (keepB (redundantOf c edit)) := by
  unfold oldOf
  split
  · rename_i h
    have : redundantOf c edit = [] := by simpa using h
    rw [this]
    symm
    rw [List.filter_eq_self]
    intro o _
    simp [keepB]
  · exact deletePhil_defns_ick 999 _ w hw

theorem oldOf_good_ick (c : IndexCtx) (edit : List Obj) {w : List Obj} (hw : GoodSrc w) :
    GoodSrc (oldOf c edit w) := by
  rw [oldOf_eq_filter_ick c edit w hw.isDefn]
  exact hw.subset (fun o ho => (List.mem_filter.mp ho).1)

theorem fetchRoot_two_ick (c : IndexCtx) (A B : List Obj) :
    fetchRoot c.envs false c.master [A, B] = fetchRoot c.envs false c.master [A ++ B] := by
  rw [fetchRoot_eq, fetchRoot_eq, flatten_one_ick, flatten_two_ick]

/-- a successful merge of a definition-only edit into a good working set: the edit alone fetches,
    the keys are defined, and the result is the closed form on `old ++ edit` -/
theorem merge_some_ick {c : IndexCtx} (hc : FlatCtx c) {w : List Obj} (hw : GoodSrc w)
    {text : Str} {edit : List Obj} (hp : parseObjs text = .ok edit) (he : GoodSrc edit)
    {w' : List Obj} (h : (concreteKernel c).merge w text = some w') :
    (∃ r, fetchRoot c.envs false c.master [edit] = .ok r) ∧
      KeysOK c (oldOf c edit w ++ edit) ∧ w' = closedForm c (oldOf c edit w ++ edit) := by
  rw [merge_eq_ick, hp] at h
  simp only at h
  cases hr : fetchRoot c.envs false c.master [edit] with
  | error err => rw [hr] at h; cases h
  | ok r0 =>
    rw [hr] at h
    simp only at h
    cases hf : fetchRoot c.envs false c.master [oldOf c edit w, edit] with
    | error err => rw [hf] at h; cases h
    | ok ru =>
      rw [hf] at h
      obtain ⟨r, u⟩ := ru
      simp only [Option.some.injEq] at h
      rw [fetchRoot_two_ick] at hf
      obtain ⟨hk, hrr⟩ := fetchRoot_good_ick hc ((oldOf_good_ick c edit hw).append he) hf
      refine ⟨⟨r0, rfl⟩, hk, ?_⟩
      rw [← h, hrr]
      rfl

/-- conversely, when the edit alone fetches and the keys are defined, the merge succeeds -/
theorem merge_of_keys_ick {c : IndexCtx} (hc : FlatCtx c) {w : List Obj} (hw : GoodSrc w)
    {text : Str} {edit : List Obj} (hp : parseObjs text = .ok edit) (he : GoodSrc edit)
    {r : Obj × List Nat} (hr : fetchRoot c.envs false c.master [edit] = .ok r)
    (hk : KeysOK c (oldOf c edit w ++ edit)) :
    (concreteKernel c).merge w text = some (closedForm c (oldOf c edit w ++ edit)) := by
  rw [merge_eq_ick, hp]
  simp only
  rw [hr]
  simp only
  rw [fetchRoot_two_ick, fetchRoot_closed_ick hc ((oldOf_good_ick c edit hw).append he) hk]
  rfl

/-- the edits covered: whenever the text parses, it parses to definition-only, `$`-free objects -/
def DefEdit (text : Str) : Prop := ∀ edit, parseObjs text = .ok edit → GoodSrc edit

/-- **every successful merge from a reached working set yields a reached working set** -/
theorem merge_reached_ick {c : IndexCtx} (hc : FlatCtx c) {w : List Obj} (hw : Reached c w)
    {text : Str} (ht : DefEdit text) {w' : List Obj}
    (h : (concreteKernel c).merge w text = some w') : Reached c w' := by
  cases hp : parseObjs text with
  | error err => rw [merge_eq_ick, hp] at h; cases h
  | ok edit =>
    have hgw := reached_goodSrc_ick hc hw
    obtain ⟨_, hk, rfl⟩ := merge_some_ick hc hgw hp (ht edit hp) h
    exact closed_reached_ick hc ((oldOf_good_ick c edit hgw).append (ht edit hp)) hk

/-- the initial working set `master.fetch()` is reached -/
theorem init_reached_ick {c : IndexCtx} {r : Obj} {u : List Nat} (hc : FlatCtx c)
    (h : fetchRoot c.envs false c.master [] = .ok (r, u)) : Reached c r.children := by
  have h' : fetchRoot c.envs false c.master [[]] = .ok (r, u) := by
    rw [fetchRoot_eq] at h ⊢; simpa using h
  obtain ⟨_, hr⟩ := fetchRoot_good_ick hc GoodSrc.nil h'
  refine ⟨[], u, GoodSrc.nil, ?_⟩
  rw [h', hr]
  rfl

/-! ## 5. `Reached` is an invariant of histories; pop restores exactly -/

/-- the state invariant: the working set and every saved state are reached -/
def StateReached (c : IndexCtx) (s : Index.State (List Obj) PVal) : Prop :=
  Reached c s.working ∧ ∀ w ∈ s.states, Reached c w

/-- histories covered by the invariant: no `update_from_python` (its working set `master.format(obj)`
    is in general NOT a fetch result), every string edit is a definition-only edit -/
def GoodOps : List (Index.Op PVal Str) → Prop
  | [] => True
  | .update e :: ops => DefEdit e ∧ GoodOps ops
  | .updateFromPython _ :: _ => False
  | .push :: ops => GoodOps ops
  | .pop :: ops => GoodOps ops
  | .setState _ :: ops => GoodOps ops
  | .getPython :: ops => GoodOps ops

theorem step_update_reached_ick {c : IndexCtx} (hc : FlatCtx c) {s : Index.State (List Obj) PVal}
    (hs : StateReached c s) {e : Str} (he : DefEdit e) :
    StateReached c (Index.step (concreteKernel c) s (.update e)).1 := by
  cases hm : (concreteKernel c).merge s.working e with
  | none => rw [Index.update_refused hm]; exact hs
  | some w' =>
    rw [Index.update_accepted hm]
    exact ⟨merge_reached_ick hc hs.1 he hm, hs.2⟩

theorem step_push_reached_ick {c : IndexCtx} (hc : FlatCtx c) {s : Index.State (List Obj) PVal}
    (hs : StateReached c s) : StateReached c (Index.step (concreteKernel c) s .push).1 := by
  refine ⟨hs.1, ?_⟩
  intro w hw
  have : w ∈ s.states ++ [(concreteKernel c).refetch s.working] := hw
  rw [refetch_exact_ick hc hs.1, List.mem_append, List.mem_singleton] at this
  rcases this with h | h
  · exact hs.2 w h
  · rw [h]; exact hs.1

theorem step_pop_reached_ick {c : IndexCtx} {s : Index.State (List Obj) PVal}
    (hs : StateReached c s) : StateReached c (Index.step (concreteKernel c) s .pop).1 := by
  cases hrev : s.states.reverse with
  | nil =>
    have : s.states = [] := by simpa using hrev
    rw [Index.step_pop_empty _ s this]; exact hs
  | cons w rest =>
    have hst : s.states = rest.reverse ++ [w] := by
      have := congrArg List.reverse hrev; simpa using this
    rw [Index.step_pop_snoc _ s rest.reverse w hst]
    refine ⟨hs.2 w (by rw [hst]; simp), ?_⟩
    intro w' hw'
    exact hs.2 w' (by rw [hst]; exact List.mem_append_left _ hw')

theorem step_setState_reached_ick {c : IndexCtx} (hc : FlatCtx c) {s : Index.State (List Obj) PVal}
    (hs : StateReached c s) (i : Nat) :
    StateReached c (Index.step (concreteKernel c) s (.setState i)).1 := by
  cases hi : s.states[i]? with
  | none => rw [Index.step_setState_none _ s i hi]; exact hs
  | some w =>
    rw [Index.step_setState_some _ s i w hi]
    have hw : Reached c w := hs.2 w (List.mem_of_getElem? hi)
    exact ⟨by rw [refetch_exact_ick hc hw]; exact hw, hs.2⟩

theorem step_getPython_reached_ick {c : IndexCtx} {s : Index.State (List Obj) PVal}
    (hs : StateReached c s) : StateReached c (Index.step (concreteKernel c) s .getPython).1 := by
  unfold StateReached
  rw [Index.getPython_working, Index.getPython_states]
  exact hs

/-- **the invariant over histories** -/
theorem run_reached_ick {c : IndexCtx} (hc : FlatCtx c) :
    ∀ (ops : List (Index.Op PVal Str)) (s : Index.State (List Obj) PVal),
      GoodOps ops → StateReached c s → StateReached c (Index.run (concreteKernel c) s ops) := by
  intro ops
  induction ops with
  | nil => intro s _ hs; exact hs
  | cons op ops ih =>
    intro s hg hs
    rw [Index.run_cons]
    cases op with
    | update e => exact ih _ hg.2 (step_update_reached_ick hc hs hg.1)
    | updateFromPython p => exact absurd hg (by simp [GoodOps])
    | push => exact ih _ hg (step_push_reached_ick hc hs)
    | pop => exact ih _ hg (step_pop_reached_ick hs)
    | setState i => exact ih _ hg (step_setState_reached_ick hc hs i)
    | getPython => exact ih _ hg (step_getPython_reached_ick hs)

theorem init_stateReached_ick {c : IndexCtx} {w : List Obj} (h : Reached c w) :
    StateReached c (Index.init (concreteKernel c) w) :=
  ⟨h, fun _ hw => by cases hw⟩

/-! ## 6. the same edit twice -/

/-- the block of one master definition as a function of its matching sources -/
def blkOf (e : Envs) (fuel : Nat) (mo : Obj) (L : List Obj) : List Obj :=
  if isMultiple mo then multiBlock mo (keyOf e fuel mo mo) (candsOf e fuel mo L) else [lastWins mo L]

theorem blockOf_eq_blk_ick (e : Envs) (fuel : Nat) (D : List Obj) (mo : Obj) :
    blockOf e fuel D mo = blkOf e fuel mo (activeNamed mo.name D) := rfl

theorem blk_name_ick (e : Envs) (fuel : Nat) (mm : Meta) (mws : List Word) (L : List Obj) :
    ∀ o ∈ blkOf e fuel (.defn mm mws) L, o.name = mm.name := by
  intro o ho
  unfold blkOf at ho
  split at ho
  · unfold multiBlock at ho
    rw [List.mem_cons] at ho
    rcases ho with rfl | ho
    · exact withTmpl_name _ _
    · obtain ⟨x, hx, rfl⟩ := List.mem_map.mp ho
      obtain ⟨⟨d, _, hxd⟩, _, _⟩ := mem_surv hx
      rw [hxd]; rfl
  · simp only [List.mem_singleton] at ho
    subst ho
    exact lastWins_name _ _

/-- the last value wins, whatever came before it -/
theorem lastWins_absorb_ick (mm : Meta) (mws : List Word) (ht : mm.tmpl = 0) (hv : mm.varRes = none)
    (l A : List Obj) :
    lastWins (.defn mm mws) ([lastWins (.defn mm mws) (l ++ A)] ++ A) = lastWins (.defn mm mws) (l ++ A) := by
  cases A with
  | nil =>
    simp only [List.append_nil]
    exact lastWins_idem mm mws l ht hv
  | cons a A =>
    have hlast : ∀ (l : List Obj), (l ++ a :: A).getLast? = (a :: A).getLast? := by
      intro l
      rw [List.getLast?_append]
      cases h : (a :: A).getLast? with
      | none => simp at h
      | some x => rfl
    unfold lastWins
    rw [hlast, hlast]

/-- of a `.multiple` block only the template object can carry a non-zero template flag -/
theorem multiBlock_tmpl_ick (e : Envs) (fuel : Nat) (mm : Meta) (mws : List Word) (k0 : Str) (L : List Obj) :
    ∀ o ∈ multiBlock (.defn mm mws) k0 (candsOf e fuel (.defn mm mws) L), (o.meta.tmpl != 0) = true →
      ∃ t, o = withTmpl (.defn mm mws) t := by
  intro o ho ht
  unfold multiBlock at ho
  rw [List.mem_cons] at ho
  rcases ho with rfl | ho
  · exact ⟨_, rfl⟩
  · obtain ⟨x, hx, rfl⟩ := List.mem_map.mp ho
    obtain ⟨⟨d, _, hxd⟩, _, _⟩ := mem_surv hx
    rw [hxd] at ht
    exact absurd ht (by simp [candOfSrc, Obj.meta])

/-- template objects among the sources do not count: their candidate is the master definition -/
theorem multiBlock_tmplOnly_ick (e : Envs) (fuel : Nat) (mm : Meta) (mws : List Word)
    (ht : mm.tmpl = 0) (hv : mm.varRes = none) (T A : List Obj)
    (hT : ∀ o ∈ T, ∃ t, o = withTmpl (.defn mm mws) t) :
    multiBlock (.defn mm mws) (keyOf e fuel (.defn mm mws) (.defn mm mws))
        (candsOf e fuel (.defn mm mws) (T ++ A)) =
      multiBlock (.defn mm mws) (keyOf e fuel (.defn mm mws) (.defn mm mws))
        (candsOf e fuel (.defn mm mws) A) := by
  have hnil : (candsOf e fuel (.defn mm mws) T).filter
      (fun y => y.2 != keyOf e fuel (.defn mm mws) (.defn mm mws)) = [] := by
    rw [List.filter_eq_nil_iff]
    intro y hy
    unfold candsOf at hy
    obtain ⟨d, hd, rfl⟩ := List.mem_map.mp hy
    obtain ⟨t, rfl⟩ := hT d hd
    rw [candOfSrc_tmpl mm mws ht hv]
    simp
  unfold multiBlock
  have : candsOf e fuel (.defn mm mws) (T ++ A) =
      candsOf e fuel (.defn mm mws) T ++ candsOf e fuel (.defn mm mws) A := by
    unfold candsOf; rw [List.map_append]
  rw [this, List.filter_append, hnil, List.nil_append]

/-- the keys of the objects of a `.multiple` block are defined -/
theorem multiBlock_keys_ick (e : Envs) (fuel : Nat) (mm : Meta) (mws : List Word)
    (ht : mm.tmpl = 0) (hv : mm.varRes = none) (L : List Obj)
    (hk : KeysDefined e fuel (.defn mm mws) L) :
    ∀ d ∈ multiBlock (.defn mm mws) (keyOf e fuel (.defn mm mws) (.defn mm mws))
        (candsOf e fuel (.defn mm mws) L),
      ∃ k, extractFormatStr e (fuel + 64) (.defn mm mws) (candOfSrc (.defn mm mws) d) = .ok k := by
  intro d hd
  unfold multiBlock at hd
  rw [List.mem_cons] at hd
  rcases hd with rfl | hd
  · rw [candOfSrc_tmpl mm mws ht hv]; exact hk.1
  · obtain ⟨x, hx, rfl⟩ := List.mem_map.mp hd
    obtain ⟨⟨d0, hd0, hxd⟩, _, _⟩ := mem_surv hx
    rw [hxd, candOfSrc_cand mm mws hv]
    exact hk.2 d0 hd0

/-- **one block, one more application of the same edit.**  `keep` is what the deletion keeps, `A`
    the edit's definitions of this name; either the name is not redundant (everything is kept, and a
    `.multiple` definition is not mentioned by the edit) or it is (a `.multiple` definition: only
    template-flagged objects are kept). -/
theorem blk_step_idem_ick (e : Envs) (fuel : Nat) (mm : Meta) (mws : List Word)
    (ht : mm.tmpl = 0) (hv : mm.varRes = none) (keep : Obj → Bool) (L0 A : List Obj)
    (hcase : ((∀ o, o.name = mm.name → keep o = true) ∧ (isMultiple (.defn mm mws) = true → A = [])) ∨
      (isMultiple (.defn mm mws) = true ∧ ∀ o, o.name = mm.name → keep o = (o.meta.tmpl != 0))) :
    blkOf e fuel (.defn mm mws)
        ((blkOf e fuel (.defn mm mws) ((blkOf e fuel (.defn mm mws) L0).filter keep ++ A)).filter keep ++ A) =
      blkOf e fuel (.defn mm mws) ((blkOf e fuel (.defn mm mws) L0).filter keep ++ A) := by
  rcases hcase with ⟨hkeep, hA⟩ | ⟨hmult, hkeep⟩
  · have hfil : ∀ L, (blkOf e fuel (.defn mm mws) L).filter keep = blkOf e fuel (.defn mm mws) L := by
      intro L
      rw [List.filter_eq_self]
      intro o ho
      exact hkeep o (blk_name_ick e fuel mm mws L o ho)
    rw [hfil, hfil]
    cases hmult : isMultiple (.defn mm mws) with
    | false =>
      unfold blkOf
      simp only [hmult, Bool.false_eq_true, if_false]
      rw [lastWins_absorb_ick mm mws ht hv]
    | true =>
      rw [hA hmult]
      unfold blkOf
      simp only [hmult, if_true, List.append_nil]
      exact multiBlock_refetch e fuel mm mws _ ht hv
  · have htm : ∀ L, ∀ o ∈ (blkOf e fuel (.defn mm mws) L).filter keep, ∃ t, o = withTmpl (.defn mm mws) t := by
      intro L o ho
      obtain ⟨ho1, ho2⟩ := List.mem_filter.mp ho
      rw [hkeep o (blk_name_ick e fuel mm mws L o ho1)] at ho2
      unfold blkOf at ho1
      simp only [hmult, if_true] at ho1
      exact multiBlock_tmpl_ick e fuel mm mws _ L o ho1 ho2
    have hdrop : ∀ T, (∀ o ∈ T, ∃ t, o = withTmpl (.defn mm mws) t) →
        blkOf e fuel (.defn mm mws) (T ++ A) = blkOf e fuel (.defn mm mws) A := by
      intro T hT
      unfold blkOf
      simp only [hmult, if_true]
      exact multiBlock_tmplOnly_ick e fuel mm mws ht hv T A hT
    rw [hdrop _ (htm _), hdrop _ (htm _)]

theorem activeNamed_filter_ick (n : Str) (p : Obj → Bool) (l : List Obj) :
    activeNamed n (l.filter p) = (activeNamed n l).filter p := by
  unfold activeNamed
  rw [List.filter_filter, List.filter_filter]
  congr 1
  funext o
  exact Bool.and_comm _ _

theorem master_name_inj_ick {c : IndexCtx} (hc : FlatCtx c) {a b : Obj} (ha : a ∈ c.master)
    (hb : b ∈ c.master) (h : a.name = b.name) : a = b :=
  pairwise_map_eq Obj.name c.master hc.flat.distinct a ha b hb h

/-- the sources of the master definition `mo` in `old ++ edit` when the working set is a closed form -/
theorem activeNamed_old_ick {c : IndexCtx} (hc : FlatCtx c) {D : List Obj} (hD : GoodSrc D)
    (edit : List Obj) (mo : Obj) (hmo : mo ∈ c.master) :
    activeNamed mo.name (oldOf c edit (closedForm c D) ++ edit) =
      (blkOf c.envs (rootFuel c.master) mo (activeNamed mo.name D)).filter (keepB (redundantOf c edit)) ++
        activeNamed mo.name edit := by
  rw [activeNamed_append, oldOf_eq_filter_ick c edit _ (closed_goodSrc_ick hc hD).isDefn,
    activeNamed_filter_ick, closed_activeNamed_ick hc hD mo hmo, blockOf_eq_blk_ick]

/-- **the kernel law on reached working sets**: merging the same definition-only edit into its own
    result changes nothing -/
theorem merge_idem_ick {c : IndexCtx} (hc : FlatCtx c) {w : List Obj} (hw : Reached c w)
    {text : Str} (ht : DefEdit text) {w' : List Obj}
    (h : (concreteKernel c).merge w text = some w') : (concreteKernel c).merge w' text = some w' := by
  cases hp : parseObjs text with
  | error err => rw [merge_eq_ick, hp] at h; cases h
  | ok edit =>
    have he := ht edit hp
    obtain ⟨D, hD, hkD, rfl⟩ := reached_closed_ick hc hw
    have hgw := closed_goodSrc_ick hc hD
    obtain ⟨⟨r0, hr0⟩, hk1, rfl⟩ := merge_some_ick hc hgw hp he h
    -- abbreviations
    have hD1 : GoodSrc (oldOf c edit (closedForm c D) ++ edit) := (oldOf_good_ick c edit hgw).append he
    have hgw1 := closed_goodSrc_ick hc hD1
    -- the redundancy case of every master definition
    have hcase : ∀ mo ∈ c.master, ∀ mm mws, mo = .defn mm mws →
        ((∀ o, o.name = mm.name → keepB (redundantOf c edit) o = true) ∧
          (isMultiple (.defn mm mws) = true → activeNamed mm.name edit = [])) ∨
        (isMultiple (.defn mm mws) = true ∧
          ∀ o, o.name = mm.name → keepB (redundantOf c edit) o = (o.meta.tmpl != 0)) := by
      intro mo hmo mm mws hmo_eq
      subst hmo_eq
      by_cases hred : mm.name ∈ redundantOf c edit
      · right
        obtain ⟨_, hmul⟩ := (mem_redundantOf_ick c edit he.isDefn mm.name).mp hred
        obtain ⟨mo', hmo', hmult', hname'⟩ := (hc.multiple mm.name).mp hmul
        have : mo' = .defn mm mws := master_name_inj_ick hc hmo' hmo hname'
        subst this
        refine ⟨hmult', ?_⟩
        intro o ho
        unfold keepB
        rw [ho]
        simp [hred]
      · left
        refine ⟨?_, ?_⟩
        · intro o ho
          unfold keepB
          rw [ho]
          simp [hred]
        · intro hmult
          have hmul : mm.name ∈ c.multiple := (hc.multiple mm.name).mpr ⟨_, hmo, hmult, rfl⟩
          unfold activeNamed
          rw [List.filter_eq_nil_iff]
          intro o ho hpred
          apply hred
          rw [mem_redundantOf_ick c edit he.isDefn]
          simp only [Bool.and_eq_true, beq_iff_eq] at hpred
          exact ⟨⟨o, ho, hpred.2⟩, hmul⟩
    -- the blocks are reproduced
    have hblocks : closedForm c (oldOf c edit (closedForm c (oldOf c edit (closedForm c D) ++ edit)) ++ edit) =
        closedForm c (oldOf c edit (closedForm c D) ++ edit) := by
      unfold closedForm
      apply flatMap_congr_mem
      intro mo hmo
      obtain ⟨mm, mws, rfl, _, _, _⟩ := hc.flat.defn mo hmo
      rw [blockOf_eq_blk_ick, blockOf_eq_blk_ick]
      have h1 := activeNamed_old_ick hc hD edit _ hmo
      have h2 := activeNamed_old_ick hc hD1 edit _ hmo
      unfold closedForm at h1 h2
      rw [h2, h1]
      exact blk_step_idem_ick c.envs _ mm mws (hc.refetch _ hmo).1 (hc.refetch _ hmo).2.1 _ _ _
        (hcase _ hmo mm mws rfl)
    -- the keys of the second application are defined
    have hk2 : KeysOK c (oldOf c edit (closedForm c (oldOf c edit (closedForm c D) ++ edit)) ++ edit) := by
      intro mo hmo hmult
      obtain ⟨mm, mws, rfl, _, _, _⟩ := hc.flat.defn mo hmo
      have hk := hk1 _ hmo hmult
      refine ⟨hk.1, ?_⟩
      intro d hd
      have h2 := activeNamed_old_ick hc hD1 edit _ hmo
      rw [h2, List.mem_append] at hd
      rcases hd with hd | hd
      · have hd' := (List.mem_filter.mp hd).1
        unfold blkOf at hd'
        simp only [hmult, if_true] at hd'
        exact multiBlock_keys_ick c.envs _ mm mws (hc.refetch _ hmo).1 (hc.refetch _ hmo).2.1 _ hk d hd'
      · apply hk.2
        rw [activeNamed_append]
        exact List.mem_append_right _ hd
    rw [merge_of_keys_ick hc hgw1 hp he hr0 hk2, hblocks]

/-! ## 7. checking the hypotheses by evaluation -/

def defnMetaB (mm : Meta) : Bool :=
  !(mm.attrs.get "deprecated").truthy &&
    (match mm.attrs.get "type" with | .conv (.choice _) => false | _ => true)

theorem defnMeta_of_B_ick {mm : Meta} (h : defnMetaB mm = true) : DefnMeta mm := by
  unfold defnMetaB at h
  rw [Bool.and_eq_true] at h
  refine ⟨by simpa using h.1, ?_⟩
  intro b hb
  have h2 := h.2
  rw [hb] at h2
  cases h2

/-- a Boolean test for `FlatCtx` -/
def flatCtxB (c : IndexCtx) : Bool :=
  c.master.all (fun mo => mo.isDefn && defnMetaB mo.meta && !mo.name.isEmpty && !mo.meta.disabled
      && mo.meta.tmpl == 0 && mo.meta.varRes.isNone && !hasDollar mo.words)
  && decide ((c.master.map Obj.name).Pairwise (· ≠ ·))
  && c.multiple.all (fun p => c.master.any (fun mo => isMultiple mo && mo.name == p))
  && c.master.all (fun mo => !isMultiple mo || c.multiple.contains mo.name)

theorem flatCtx_of_B_ick {c : IndexCtx} (h : flatCtxB c = true) : FlatCtx c := by
  unfold flatCtxB at h
  simp only [Bool.and_eq_true, List.all_eq_true, decide_eq_true_eq] at h
  obtain ⟨⟨⟨h1, h2⟩, h3⟩, h4⟩ := h
  refine ⟨⟨?_, h2⟩, ?_, ?_⟩
  · intro mo hmo
    obtain ⟨⟨⟨⟨⟨⟨a1, a2⟩, a3⟩, a4⟩, a5⟩, a6⟩, a7⟩ := h1 mo hmo
    cases mo with
    | scope m k => cases a1
    | defn mm mws =>
      refine ⟨mm, mws, rfl, defnMeta_of_B_ick a2, ?_, by simpa [Obj.meta] using a4⟩
      intro hn
      have : (Obj.defn mm mws).name = mm.name := rfl
      rw [this, hn] at a3
      cases a3
  · intro mo hmo
    obtain ⟨⟨⟨⟨⟨⟨a1, a2⟩, a3⟩, a4⟩, a5⟩, a6⟩, a7⟩ := h1 mo hmo
    refine ⟨by simpa using a5, ?_, by simpa using a7⟩
    cases hv : mo.meta.varRes with
    | none => rfl
    | some v => rw [hv] at a6; cases a6
  · intro p
    constructor
    · intro hp
      have := h3 p hp
      rw [List.any_eq_true] at this
      obtain ⟨mo, hmo, hb⟩ := this
      rw [Bool.and_eq_true, beq_iff_eq] at hb
      exact ⟨mo, hmo, hb.1, hb.2⟩
    · rintro ⟨mo, hmo, hmult, rfl⟩
      have := h4 mo hmo
      rw [hmult] at this
      simpa using this

/-- a Boolean test for `GoodSrc` (on objects without recorded variable resolution) -/
def goodSrcB (D : List Obj) : Bool :=
  D.all (fun o => o.isDefn && o.meta.varRes.isNone && !hasDollar o.words)

theorem goodSrc_of_B_ick {D : List Obj} (h : goodSrcB D = true) : GoodSrc D := by
  unfold goodSrcB at h
  simp only [List.all_eq_true, Bool.and_eq_true] at h
  have hv : ∀ o ∈ D, o.meta.varRes = none := by
    intro o ho
    cases hv : o.meta.varRes with
    | none => rfl
    | some v => have := (h o ho).1.2; rw [hv] at this; cases this
  refine ⟨fun o ho => (h o ho).1.1, fun o ho => .inr ⟨hv o ho, by simpa using (h o ho).2⟩, ?_⟩
  intro o ho
  rw [srcWords_of_varRes_none o (hv o ho)]
  simpa using (h o ho).2

/-- a Boolean test for `DefEdit` -/
def defEditB (text : Str) : Bool :=
  match parseObjs text with
  | .ok edit => goodSrcB edit
  | .error _ => true

theorem defEdit_of_B_ick {text : Str} (h : defEditB text = true) : DefEdit text := by
  intro edit hp
  unfold defEditB at h
  rw [hp] at h
  exact goodSrc_of_B_ick h

end Phil
