/-
  Phil.IncludeParents — include processing WITH the `primary_parent_scope` links and `primary_id`s that the Python
  code leaves on the spliced objects (finding D71).

  Model of: common.py `parse(file_name=…, process_includes=True)`, `scope.process_includes`,
  `process_include_scope`, `scope.change_primary_parent_scope`, `scope.customized_copy`, `definition.copy`,
  `full_path`, and (through `Phil.Vars.lexicalGet`) `scope.lexical_get` on the resulting object graph.

  What the code does with parents:
  * `parse` gives every object of ONE text its parent (the scope object that lists it) and ids 1, 2, … in document
    order; the root is `scope(name="", primary_id=0)` with parent `None`.
  * `scope.process_includes` builds a NEW list and returns `self.customized_copy(objects=result)`: a copy of the
    scope with the same slots (same `primary_parent_scope`, same `primary_id`), `is_template = 0`.  Objects that
    are kept (disabled objects, ordinary definitions) are the SAME objects: their parent is still the ORIGINAL,
    pre-expansion scope object — the one whose `.objects` still holds the `include` statements.  A processed
    sub-scope is a copy whose parent slot is the original parent as well.
  * `include file`: `result.extend(parse(file_name=…, process_includes=True).objects)` — the objects of the
    separately parsed file are spliced in untouched: parents and ids are those of the file's own parse (D71).
  * `include scope`: `result.change_primary_parent_scope(object.primary_parent_scope)` copies every object of the
    selection; the top ones get the parent of the `include` statement, the objects below a scope `k` get a copy
    of `k` (same name, `.objects` = the old children) as parent.  Ids are kept (foreign ids).

  A parent link is therefore modelled by what can be observed by climbing it: the chain of frames
  (`name`, `.objects`) of the scope objects reached through `primary_parent_scope`, innermost first; the last frame
  is a root (`name = ""`).  `full_path()` reads the names, `lexical_get` reads the object lists
  (`PChain.toChain` is the `Chain` of Phil.Vars).  The id of an object is `Meta.id`, already carried by `Obj`.
-/
import Phil.Include
import Phil.Vars
namespace Phil

/-- a scope object as seen from below: its name and its `.objects` -/
structure Frame where
  name : Str
  objs : List Obj
  deriving Repr, Inhabited

/-- the `primary_parent_scope` links of an object: the scopes reached by climbing, innermost first -/
abbrev PChain := List Frame

def PChain.toChain (ch : PChain) : Chain := ch.map (·.objs)

/-- a PHIL object together with its parent link (and the parent links of everything below it) -/
inductive PObj
  | defn (m : Meta) (words : List Word) (par : PChain)
  | scope (m : Meta) (kids : List PObj) (par : PChain)
  deriving Repr, Inhabited

def PObj.meta : PObj → Meta
  | .defn m _ _ => m
  | .scope m _ _ => m
def PObj.par : PObj → PChain
  | .defn _ _ p => p
  | .scope _ _ p => p
def PObj.name (o : PObj) : Str := o.meta.name

mutual
/-- forget the parent links -/
def PObj.erase : PObj → Obj
  | .defn m ws _ => .defn m ws
  | .scope m kids _ => .scope m (eraseL kids)
def eraseL : List PObj → List Obj
  | [] => []
  | o :: os => o.erase :: eraseL os
end

mutual
/-- the parent links inside ONE consistently linked tree (a parsed text; the result of
    `change_primary_parent_scope`): the objects of a list that hangs below the chain `ch` -/
def annotObj (ch : PChain) : Obj → PObj
  | .defn m ws => .defn m ws ch
  | .scope m kids => .scope m (annotL ({ name := m.name, objs := kids } :: ch) kids) ch
def annotL (ch : PChain) : List Obj → List PObj
  | [] => []
  | o :: os => annotObj ch o :: annotL ch os
end

/-- the root scope of a parsed text: `scope(name="", primary_id=0)`, parent `None` -/
def rootChain (objs : List Obj) : PChain := [{ name := [], objs := objs }]

/-- the names `full_path` collects while climbing: it stops at the first scope with an empty name -/
def climbNames : PChain → List Str
  | [] => []
  | f :: rest => if f.name.isEmpty then [] else f.name :: climbNames rest

/-- the module-level `full_path(self)` -/
def fullPathOf (name : Str) (par : PChain) : Str := joinWith ['.'] ((name :: climbNames par).reverse)

/-- `o.full_path()` -/
def fullPathP (o : PObj) : Str := fullPathOf o.name o.par

mutual
/-- `full_path()` of every object, in document order -/
def fullPathsObjP : PObj → List Str
  | .defn m _ p => [fullPathOf m.name p]
  | .scope m kids p => fullPathOf m.name p :: fullPathsP kids
def fullPathsP : List PObj → List Str
  | [] => []
  | o :: os => fullPathsObjP o ++ fullPathsP os
end

mutual
/-- every object below (and including) the given ones, in document order -/
def nodesObjP : PObj → List PObj
  | .defn m ws p => [.defn m ws p]
  | .scope m kids p => .scope m kids p :: nodesP kids
def nodesP : List PObj → List PObj
  | [] => []
  | o :: os => nodesObjP o ++ nodesP os
end

/-- the selection and re-parenting part of `process_include_scope` on the plain tree of the imported scope
    (same computation as in `processIncludes`); `change_primary_parent_scope` discards the old parents -/
def includeScopeSel (env : IncEnv) (fuel : Nat) (stack : List Path) (p : Str) (sub : Option Str)
    (line : Option Nat) : R (List Obj) :=
  match env.imported p with
  | none => .error (.unsupported "python import")
  | some text =>
    match parseObjs text with
    | .error e => .error e
    | .ok src =>
      match fuel with
      | 0 => .error .outOfFuel
      | f + 1 =>
        match processIncludes env f env.cwd stack src with
        | .error e => .error e
        | .ok expanded =>
          match sub with
          | none => .ok expanded
          | some q =>
            let sel := selectPath expanded q
            if sel.isEmpty then .error (.runtime "include_scope_not_found" line)
            else if sel.any (anyDollar 1000) then .error (.unsupported "variable in included selection")
            else .ok sel

mutual
/-- what one object of a scope contributes to the processed list; `ch` is the parent link of the objects of
    the list being processed (the ORIGINAL scope object), `incl` is `parse(file_name=…, process_includes=True)` -/
def processObjP (env : IncEnv) (incl : Path → List Path → R (List PObj)) (fuel : Nat) (refdir : Path)
    (stack : List Path) (ch : PChain) : Obj → R (List PObj)
  | .defn m ws =>
    if m.disabled then .ok [.defn m ws ch]
    else if m.name != "include".toList then .ok [.defn m ws ch]
    else if containsDollar ws then .error (.unsupported "variable in include")
    else if ws.length < 2 then .error (.runtime "include_two_arguments" m.line)
    else
      let ty := lower (ws.headD default).value
      if ty == "file".toList then
        if ws.length != 2 then .error (.runtime "include_file_one_argument" m.line)
        else incl (resolvePath refdir (ws.getD 1 default).value) stack
      else if ty == "scope".toList then
        if ws.length > 3 then .error (.runtime "include_scope_arguments" m.line)
        else
          (includeScopeSel env fuel stack (ws.getD 1 default).value
            (if ws.length == 2 then none else some (ws.getD 2 default).value) m.line).map (annotL ch)
      else .error (.runtime "unknown_include_type" m.line)
  | .scope m kids =>
    if m.disabled then .ok [annotObj ch (.scope m kids)]
    else
      (processListP env incl fuel refdir stack ({ name := m.name, objs := kids } :: ch) kids).map
        (fun ks => [PObj.scope { m with tmpl := 0 } ks ch])
/-- `scope.process_includes` on the objects of a scope whose (original) parent chain is `ch` -/
def processListP (env : IncEnv) (incl : Path → List Path → R (List PObj)) (fuel : Nat) (refdir : Path)
    (stack : List Path) (ch : PChain) : List Obj → R (List PObj)
  | [] => .ok []
  | o :: rest =>
    match processObjP env incl fuel refdir stack ch o with
    | .error e => .error e
    | .ok l => (processListP env incl fuel refdir stack ch rest).map (fun r => l ++ r)
end

/-- `parse(file_name=…, process_includes=True)` at the fuel level where `processIncludes` runs with `fuel`:
    an `include file` is followed only if `fuel > 0` (as in `Phil.processIncludes`) -/
def expandFileP (env : IncEnv) : Nat → Path → List Path → R (List PObj)
  | 0, _, _ => .error .outOfFuel
  | fuel + 1, path, stack =>
    match env.fs.read path with
    | none => .error (.stray "FileNotFoundError" "open")
    | some text =>
      match parseObjs text with
      | .error e => .error e
      | .ok objs =>
        if stack.contains path then .error (.runtime "include_cycle" none)
        else
          processListP env
            (fun p s => match fuel with
              | 0 => .error .outOfFuel
              | _ + 1 => expandFileP env fuel p s)
            fuel path.dropLast (stack ++ [path]) (rootChain objs) objs

/-- `parse(file_name=root, process_includes=True).objects` with parent links and ids -/
def expandP (env : IncEnv) (root : Path) : R (List PObj) :=
  expandFileP env ((env.fs.length + 1) * (env.imports.length + 1) + 1) root []

/-- `scope.lexical_get(path, stop_id)` called on the parent of `o` (what `resolve_variables` does for `$path`) -/
def lexicalGetP (o : PObj) (path : Str) : Option (Obj × Chain) :=
  match o.meta.id with
  | none => none
  | some id => lexicalGet (2 * path.length + o.par.length + 1) o.par.toChain path id true

end Phil
