/-
  C17, the fetch clauses, on the object-identity model: purity of `scope.fetch` (non-diff) as theorems about the
  heap-level model `fetchH` (Phil/HeapFetch2.lean), which follows common.py line by line for what the call
  ALLOCATES, WRITES and SHARES and is tied to /repo by the identity-graph correspondence `heap_fetch_graph` of
  ./check C17 (graph of the new objects reachable from the real result, parent links, old objects among the
  children, `tmp` writes).

  * `fetchH_frame`            — no existing cell is written: the heap only grows; the only other effect are the
                                 `tmp = True` marks, and they go to definition cells;
  * `fetchH_sharing`          — the shape of the result (`ResShape`): new cells all the way down, except below
                                 TEMPLATE COPIES of `.multiple` scopes, which hold the child list of an old cell;
  * `fetchH_old_only_through_templates` — exactly which old objects are reachable from the result through
                                 `objects`: those below the children of an old scope of which the result holds a
                                 template copy — nothing else (finding D21 is the sharp edge:
                                 `template_children_are_reached`, `assignment_below_template_leaks`);
  * `fetchH_assign_frame`     — any history of field assignments to NEW objects (every object of the result
                                 that is not one of those shared children) leaves the abstraction of every old
                                 object — master and sources — unchanged;
  * `fetchH_abs`              — abstraction: whenever the heap-level fetch returns, the pure model `fetchScope`
                                 (Phil/Fetch.lean, the model of C04–C08) returns on the trees that master and
                                 sources denote, and the result OBJECT denotes the pure result TREE — all masters
                                 (`.multiple` definitions and scopes, nested, mandatory, deprecated, choices), all
                                 variable-free sources;
  * `fetchRootH_*`            — the same for `master.fetch(sources=…)` of parsed documents (no hypothesis left).

  Input class: every heap without dangling child / parent reference (`closedB`, decidable; every parsed document),
  every master scope `self` in it, every list of source object ids, every fuel, every state of `tmp` marks,
  every outcome `ok`.  (`closedB` is used for the sharing statement — the master objects are old cells — and is
  kept for the frame statement because both come out of one induction; a heap with a dangling child makes `fetchH`
  fail, so nothing is lost.)
-/
import Phil.Proofs.HeapFetchLemmas
import Phil.Proofs.HeapFetchAbs
import Phil.Proofs.HeapTotal
import Phil.Proofs.HeapBuild
import Phil.Props.C17Heap
namespace Phil.C17FetchHeap
open Phil Phil.Heap

/-! ### (1) frame -/

/-- **`fetch` writes no existing cell.**  After `self.fetch(sources=…)` every cell that existed before holds
    what it held (all slots, the child list, the parent); cells were only added; the only other effect is that
    `tmp = True` was written to some objects, all of them definitions. -/
theorem fetchH_frame (e : Envs) (fuel self : Nat) (combined : List Nat) (s s' : HS) (r : Nat)
    (hc : closedB s.heap = true) (hself : self < s.heap.length)
    (hf : fetchH e fuel self combined s = .ok (s', r)) :
    (∃ ext, s'.heap = s.heap ++ ext) ∧
    (∀ i, i < s.heap.length → s'.heap[i]? = s.heap[i]?) ∧
    (∃ t, s'.tmp = s.tmp ++ t ∧ ∀ i ∈ t, ∃ m ws p, s'.heap[i]? = some (.defn m ws p)) := by
  have h := (fetchH_spec e s.heap.length fuel self combined s s' r (Nat.le_refl _)
    (closedB_sound hc).below hself hf).1
  exact ⟨h.heap, fun i hi => h.get_lt hi, h.tmp⟩

/-! ### (3) sharing -/

/-- **The shape of a fetch result.**  The result is a new object; below it (through `objects`) every object is
    new — a definition, or a scope whose children are again such objects — until a template copy of a
    `.multiple` scope is met: a new cell that equals an OLD scope cell up to `is_template = ±1` and holds that
    cell's own child list. -/
theorem fetchH_sharing (e : Envs) (fuel self : Nat) (combined : List Nat) (s s' : HS) (r : Nat)
    (hc : closedB s.heap = true) (hself : self < s.heap.length)
    (hf : fetchH e fuel self combined s = .ok (s', r)) :
    ResShape s.heap.length s'.heap r :=
  (fetchH_spec e s.heap.length fuel self combined s s' r (Nat.le_refl _) (closedB_sound hc).below hself hf).2

/-- `z` is reachable from `x` through `objects` lists -/
inductive KReach (h : Heap) : Nat → Nat → Prop
  | refl (x : Nat) : KReach h x x
  | step {x k z : Nat} {n : Node} : h[x]? = some n → k ∈ n.kids → KReach h k z → KReach h x z

/-- `c` is a template copy of the old scope `y`: a new cell, equal to the cell of `y` up to `is_template = ±1`,
    with the SAME child list -/
def TemplateCopyOf (n0 : Nat) (h : Heap) (c y : Nat) : Prop :=
  n0 ≤ c ∧ y < n0 ∧ ∃ m ks p t, h[y]? = some (.scope m ks p) ∧ h[c]? = some (.scope { m with tmpl := t } ks p) ∧
    (t = 1 ∨ t = -1)

theorem resShape_old_only_through_templates {n0 : Nat} {h : Heap} {x z : Nat} (hr : KReach h x z) :
    ResShape n0 h x → z < n0 →
    ∃ c y k, KReach h x c ∧ TemplateCopyOf n0 h c y ∧ (∃ n, h[y]? = some n ∧ k ∈ n.kids) ∧ KReach h k z := by
  induction hr with
  | refl x => intro hs hz; exact absurd hs.ge (by omega)
  | @step x k z n hx hk hkz ih =>
    intro hs hz
    cases hs with
    | defn _ hcell => rw [hcell] at hx; cases hx; cases hk
    | scope _ hcell hkids =>
      rw [hcell] at hx; cases hx
      obtain ⟨c, y, k', h1, h2, h3, h4⟩ := ih (hkids k hk) hz
      exact ⟨c, y, k', .step hcell hk h1, h2, h3, h4⟩
    | @tmpl _ y m ks p t hge hy hcy hcx ht =>
      rw [hcx] at hx; cases hx
      exact ⟨x, y, k, .refl x, ⟨hge, hy, m, ks, p, t, hcy, hcx, ht⟩, ⟨_, hcy, hk⟩, hkz⟩

/-- **Exactly which old objects are reachable from the result.**  Whatever old object `z` (an object of the
    master or of a source) is reachable from the result `r` through `objects` lists is reached through a template
    copy `c` of an old scope `y`: `z` is a child `k` of `y`, or lies below one.  Nothing else of the master or the
    sources is reachable. -/
theorem fetchH_old_only_through_templates (e : Envs) (fuel self : Nat) (combined : List Nat) (s s' : HS) (r z : Nat)
    (hc : closedB s.heap = true) (hself : self < s.heap.length)
    (hf : fetchH e fuel self combined s = .ok (s', r))
    (hreach : KReach s'.heap r z) (hz : z < s.heap.length) :
    ∃ c y k, KReach s'.heap r c ∧ TemplateCopyOf s.heap.length s'.heap c y ∧
      (∃ n, s.heap[y]? = some n ∧ k ∈ n.kids) ∧ KReach s'.heap k z := by
  obtain ⟨c, y, k, h1, h2, ⟨n, hn, hk⟩, h4⟩ :=
    resShape_old_only_through_templates hreach (fetchH_sharing e fuel self combined s s' r hc hself hf) hz
  have hfr := (fetchH_frame e fuel self combined s s' r hc hself hf).2.1
  exact ⟨c, y, k, h1, h2, ⟨n, by rw [← hfr y h2.2.1]; exact hn, hk⟩, h4⟩

/-- a result without template copies shares NO object with master or sources -/
theorem fetchH_disjoint_without_templates (e : Envs) (fuel self : Nat) (combined : List Nat) (s s' : HS) (r z : Nat)
    (hc : closedB s.heap = true) (hself : self < s.heap.length)
    (hf : fetchH e fuel self combined s = .ok (s', r))
    (hnt : ∀ c y, ¬ TemplateCopyOf s.heap.length s'.heap c y)
    (hreach : KReach s'.heap r z) : s.heap.length ≤ z := by
  rcases Nat.lt_or_ge z s.heap.length with hz | hz
  · obtain ⟨c, y, _, _, h2, _⟩ := fetchH_old_only_through_templates e fuel self combined s s' r z hc hself hf hreach hz
    exact absurd h2 (hnt c y)
  · exact hz

/-! ### (4) assignments to the result -/

/-- **Assigning fields of a fetch result never changes the objects it was made from.**  After ANY history of
    slot assignments (scalar slots, `words`, `objects`, `primary_parent_scope`) whose targets are NEW objects —
    the result, and every object below it except the shared children of template copies (`fetchH_sharing`) —
    every old cell is what it was and every old object (master, sources, their descendants) denotes the tree it
    denoted. -/
theorem fetchH_assign_frame (e : Envs) (fuel self : Nat) (combined : List Nat) (s s' : HS) (r : Nat)
    (hc : closedB s.heap = true) (hself : self < s.heap.length)
    (hf : fetchH e fuel self combined s = .ok (s', r))
    (ops : List (Nat × Assign)) (hops : ∀ op ∈ ops, s.heap.length ≤ op.1) :
    (∀ i, i < s.heap.length → (assignMany s'.heap ops)[i]? = s.heap[i]?) ∧
    (∀ x o, x < s.heap.length → Abs s.heap x o → Abs (assignMany s'.heap ops) x o) := by
  have hfr := (fetchH_frame e fuel self combined s s' r hc hself hf).2.1
  have hag : ∀ i, i < s.heap.length → (assignMany s'.heap ops)[i]? = s.heap[i]? := fun i hi => by
    rw [assignMany_get_below s.heap.length ops s'.heap hops i hi]; exact hfr i hi
  refine ⟨hag, ?_⟩
  intro x o hx ⟨f, hf'⟩
  exact ⟨f, by rw [absF_agree _ s.heap s.heap.length hag (closedB_sound hc).below f x hx]; exact hf'⟩

/-! ### (2) abstraction -/

/-- **The heap-level fetch refines the pure model.**  Let the master scope `self` be the cell
    `.scope sm mk sp`, let its children denote the trees `mobjs` and the source objects `combined` the trees
    `cobjs`.  Whenever `fetchH` returns `(s', r)`, the pure `fetchScope` returns on `(sm, mobjs, cobjs)` with the
    same fuel, and `r` denotes its result in the new heap. -/
theorem fetchH_abs (e : Envs) (fuel self : Nat) (combined : List Nat) (s s' : HS) (r : Nat)
    (sm : Meta) (mk : List Nat) (sp : Option Nat) (mobjs cobjs : List Obj)
    (hc : closedB s.heap = true) (hself : self < s.heap.length)
    (hcell : s.heap[self]? = some (.scope sm mk sp))
    (hm : Rel2 (Abs s.heap) mk mobjs) (hs : Rel2 (Abs s.heap) combined cobjs)
    (hf : fetchH e fuel self combined s = .ok (s', r)) :
    ∃ ro used, fetchScope e fuel false sm mobjs cobjs = .ok (ro, used) ∧ Abs s'.heap r ro :=
  fetchH_sim e s.heap.length fuel self combined s s' r sm mk sp mobjs cobjs (Nat.le_refl _)
    (closedB_sound hc).below hself hcell hm hs hf

/-- `abs` form: the executable abstraction of the result, whenever it answers, is the pure result -/
theorem fetchH_abs_eq (e : Envs) (fuel self : Nat) (combined : List Nat) (s s' : HS) (r : Nat)
    (sm : Meta) (mk : List Nat) (sp : Option Nat) (mobjs cobjs : List Obj)
    (hc : closedB s.heap = true) (hself : self < s.heap.length)
    (hcell : s.heap[self]? = some (.scope sm mk sp))
    (hm : Rel2 (Abs s.heap) mk mobjs) (hs : Rel2 (Abs s.heap) combined cobjs)
    (hf : fetchH e fuel self combined s = .ok (s', r)) (o : Obj) (ho : abs s'.heap r = some o) :
    (fetchScope e fuel false sm mobjs cobjs).map (·.1) = .ok o := by
  obtain ⟨ro, used, h1, h2⟩ := fetchH_abs e fuel self combined s s' r sm mk sp mobjs cobjs hc hself hcell hm hs hf
  rw [h1, Abs_unique ⟨_, ho⟩ h2]
  rfl

/-! ### parsed documents -/

theorem buildSources_closed : ∀ (ss : List (List Obj)) (h : Heap), Closed h →
    Closed (buildSources h ss).1 ∧ h.length ≤ (buildSources h ss).1.length
  | [], h, hc => ⟨hc, Nat.le_refl _⟩
  | os :: rest, h, hc => by
    simp only [buildSources]
    have h1 := build_closed (.scope { name := [] } os) none h hc (by intro q hq; cases hq)
    have h2 := (build_frame (.scope { name := [] } os) none h).1
    obtain ⟨h3, h4⟩ := buildSources_closed rest _ h1
    exact ⟨h3, by omega⟩

/-- the start heap of `master.fetch(sources=…)` on parsed documents is closed and holds the master root at 0 -/
theorem fetchRootH_start (e : Envs) (master : List Obj) (sources : List (List Obj)) :
    closedB (fetchRootH e master sources).1 = true ∧ 0 < (fetchRootH e master sources).1.length := by
  have h0 : Closed ([] : Heap) := by intro i n hi; simp at hi
  have h1 := build_closed (.scope { name := [], id := some 0 } master) none [] h0 (by intro q hq; cases hq)
  have h2 := (build_frame (.scope { name := [], id := some 0 } master) none []).1
  obtain ⟨h3, h4⟩ := buildSources_closed sources _ h1
  have hp := size_pos (.scope { name := [], id := some 0 } master)
  refine ⟨closedB_complete h3, ?_⟩
  show 0 < (buildSources _ sources).1.length
  simp only [List.length_nil, Nat.zero_add] at h2
  omega

/-- **`master.fetch(sources=…)` of parsed documents**: frame, shape of the result, and the assignment frame —
    no hypothesis beyond "the call returned". -/
theorem fetchRootH_pure (e : Envs) (master : List Obj) (sources : List (List Obj)) (s' : HS) (r : Nat)
    (hf : (fetchRootH e master sources).2 = .ok (s', r)) :
    let h0 := (fetchRootH e master sources).1
    (∃ ext, s'.heap = h0 ++ ext) ∧
    (∀ i ∈ s'.tmp, ∃ m ws p, s'.heap[i]? = some (.defn m ws p)) ∧
    ResShape h0.length s'.heap r ∧
    (∀ ops : List (Nat × Assign), (∀ op ∈ ops, h0.length ≤ op.1) →
      ∀ x o, x < h0.length → Abs h0 x o → Abs (assignMany s'.heap ops) x o) := by
  intro h0
  obtain ⟨hc, hpos⟩ := fetchRootH_start e master sources
  have hf' : fetchH e _ 0 _ { heap := h0, tmp := [] } = .ok (s', r) := hf
  obtain ⟨h1, _, ⟨t, ht, hd⟩⟩ := fetchH_frame e _ 0 _ { heap := h0, tmp := [] } s' r hc hpos hf'
  refine ⟨h1, ?_, fetchH_sharing e _ 0 _ { heap := h0, tmp := [] } s' r hc hpos hf', ?_⟩
  · intro i hi
    simp only [List.nil_append] at ht
    exact hd i (ht ▸ hi)
  · intro ops hops x o hx ha
    exact (fetchH_assign_frame e _ 0 _ { heap := h0, tmp := [] } s' r hc hpos hf' ops hops).2 x o hx ha

theorem buildSources_spec : ∀ (ss : List (List Obj)) (h : Heap),
    (∃ ext, (buildSources h ss).1 = h ++ ext) ∧
    Rel2 (fun r os => Abs (buildSources h ss).1 r (.scope { name := [] } os)) (buildSources h ss).2 ss
  | [], h => ⟨⟨[], by simp [buildSources]⟩, trivial⟩
  | os :: rest, h => by
    simp only [buildSources]
    obtain ⟨⟨ext, he⟩, hr⟩ := buildSources_spec rest (build (.scope { name := [] } os) none h).1
    refine ⟨⟨cells (.scope { name := [] } os) none h.length ++ ext, ?_⟩, ?_, hr⟩
    · rw [he]; simp only [build, List.append_assoc]
    · rw [he]; exact (build_abs (.scope { name := [] } os) none h).append ext

/-- **`master.fetch(sources=…)` of parsed documents refines the pure `fetchRoot`** (the model the merge properties
    C04–C08 are proved about): if the heap-level call returns, so does `fetchRoot`, and the result object denotes
    the pure result. -/
theorem fetchRootH_abs (e : Envs) (master : List Obj) (sources : List (List Obj)) (s' : HS) (r : Nat)
    (hf : (fetchRootH e master sources).2 = .ok (s', r)) :
    ∃ ro used, fetchRoot e false master sources = .ok (ro, used) ∧ Abs s'.heap r ro := by
  obtain ⟨hc, hpos⟩ := fetchRootH_start e master sources
  have hb := build_abs (.scope { name := [], id := some 0 } master) none []
  obtain ⟨⟨ext, he⟩, hr⟩ := buildSources_spec sources (build (.scope { name := [], id := some 0 } master) none []).1
  have hroot : Abs (fetchRootH e master sources).1 0 (.scope { name := [], id := some 0 } master) := by
    show Abs (buildSources _ sources).1 0 _
    rw [he]; exact hb.append ext
  rcases Abs_cell hroot with ⟨m, ws, p, _, hx⟩ | ⟨m, ks, p, os, hcell, hx, hks⟩
  · cases hx
  · cases hx
    have hcomb : Rel2 (Abs (fetchRootH e master sources).1)
        ((buildSources (build (.scope { name := [], id := some 0 } master) none []).1 sources).2.flatMap
          (kidsOf (fetchRootH e master sources).1)) sources.flatten := by
      rw [List.flatten_eq_flatMap]
      exact Rel2.flatMap _ _ (fun a b hab => Abs_kidsOf hab) hr
    exact fetchH_abs e _ 0 _ { heap := (fetchRootH e master sources).1, tmp := [] } s' r _ ks p master sources.flatten
      hc hpos hcell hks hcomb hf

/-! ### witnesses (kernel-checked): the hypotheses are satisfiable, the D21 edge is sharp -/

/-- an environment without `eval` / number-format answers: enough for untyped definitions -/
def envNone : Envs := { eval := fun _ => none, fmt := fun _ => none }

/-- master `s .multiple=True { a = 1 } ; b = 2`, source `s { a = 5 } ; b = 7` -/
def wMaster : String := "s\n  .multiple = True\n{\n  a = 1\n}\nb = 2\n"
def wSource : String := "s {\n  a = 5\n}\nb = 7\n"

def wRun : Option (Heap × HS × Nat) :=
  match parseObjs wMaster.toList, parseObjs wSource.toList with
  | .ok m, .ok s =>
    (match fetchRootH envNone m [s] with
     | (h0, .ok (s', r)) => some (h0, s', r)
     | _ => none)
  | _, _ => none

/-- The run succeeds on 8 old cells (master: root 0, s 1, a 2, b 3; source: root 4, s 5, a 6, b 7); the source
    definitions `a` (6) and `b` (7) get `tmp = True`; the result (19) has three children: the template copy of `s`
    (16, `is_template = -1`) whose child list is `[2]` — the MASTER's own `a` —, the instance fetched from the source
    (15, child 14: new) and `b` (18: new). -/
theorem template_children_are_reached :
    wRun.map (fun x => (x.2.1.heap[x.2.2]?.map Node.kids, x.2.1.heap[16]?.map Node.kids, x.1[1]?.map Node.kids)) =
    some (some [16, 15, 18], some [2], some [2]) := by
  decide +kernel

theorem witness_run_template_flag :
    wRun.map (fun x => (x.2.1.heap[16]?.map (fun n => n.meta.tmpl), x.2.1.heap[15]?.map Node.kids)) =
    some (some (-1 : Int), some [14]) := by
  decide +kernel

theorem witness_run_marks :
    wRun.map (fun x => (x.1.length, x.2.1.tmp, x.2.2)) = some (8, [6, 7], 19) := by
  decide +kernel

/-- **D21, the stated exception of `fetchH_assign_frame` is sharp**: cell 2 is reachable from the result (through
    the template copy 16) and is OLD; assigning a field of it changes what the master's `s` (cell 1) denotes —
    whereas the same assignment to the new instance's child (14) does not. -/
theorem assignment_below_template_leaks :
    wRun.map (fun x =>
      (decide (C17Heap.childSlots (assign x.2.1.heap 2 C17Heap.setCaption) 1 ≠ C17Heap.childSlots x.1 1),
       decide (C17Heap.childSlots (assign x.2.1.heap 14 C17Heap.setCaption) 1 = C17Heap.childSlots x.1 1))) =
    some (true, true) := by
  decide +kernel

/-- `closedB` costs nothing: on a heap with a dangling child the heap-level fetch does not return (the real objects
    cannot dangle) -/
theorem fetchH_dangling_fails :
    (match fetchH envNone 3 0 [] { heap := [.scope { name := [] } [5] none], tmp := [] } with
     | .ok _ => false
     | .error _ => true) = true := by
  decide +kernel

/-- the run of the witness returns: `fetchRootH_pure` and `fetchRootH_abs` apply to it -/
example : wRun.isSome = true := by
  decide +kernel

/-- … and what its result denotes has the children the pure model computes: template `s`, instance `s`, `b` -/
example : wRun.map (fun x => (abs x.2.1.heap x.2.2).map (fun o => o.children.map (fun k => (k.name, k.meta.tmpl)))) =
    some (some [("s".toList, -1), ("s".toList, 0), ("b".toList, 0)]) := by
  decide +kernel

/-- the hypotheses of the theorems hold on this run -/
example : wRun.map (fun x => (closedB x.1, decide (0 < x.1.length))) = some (true, true) := by
  decide +kernel

end Phil.C17FetchHeap

#print axioms Phil.C17FetchHeap.fetchH_frame
#print axioms Phil.C17FetchHeap.fetchH_sharing
#print axioms Phil.C17FetchHeap.resShape_old_only_through_templates
#print axioms Phil.C17FetchHeap.fetchH_old_only_through_templates
#print axioms Phil.C17FetchHeap.fetchH_disjoint_without_templates
#print axioms Phil.C17FetchHeap.fetchH_assign_frame
#print axioms Phil.C17FetchHeap.buildSources_closed
#print axioms Phil.C17FetchHeap.fetchRootH_start
#print axioms Phil.C17FetchHeap.fetchRootH_pure
#print axioms Phil.C17FetchHeap.fetchH_abs
#print axioms Phil.C17FetchHeap.fetchH_abs_eq
#print axioms Phil.C17FetchHeap.buildSources_spec
#print axioms Phil.C17FetchHeap.fetchRootH_abs
#print axioms Phil.C17FetchHeap.template_children_are_reached
#print axioms Phil.C17FetchHeap.witness_run_marks
#print axioms Phil.C17FetchHeap.witness_run_template_flag
#print axioms Phil.C17FetchHeap.assignment_below_template_leaks
#print axioms Phil.C17FetchHeap.fetchH_dangling_fails
