/-
  C09 WITH `.multiple` — whole-tree `format` / `extract` for masters with `.multiple` definitions and
  `.multiple` scopes (namespace `Phil.C09`).

  Model: Phil/Fetch.lean (`formatObj`, `extractObj`, `philSet` = `scope_extract.__phil_set__`).
  Lemmas: Phil/Proofs/FormatMS.lean.
  Class `FObjM` (decidable: `fobjMB`): every object of the master enabled, sibling names pairwise
  distinct at every depth — so each `.multiple` object is declared once —, anything else free
  (`.multiple` definitions and scopes, nested; any type; any `.optional`).
  Specification `formatSpecM` (fuel-free, structural): a non-multiple child contributes what
  Phil/Props/C09Tree.lean says; a `.multiple` child whose attribute is a list `l` contributes
    * `l = []`  : the master object as a template (`is_template = 1`);
    * otherwise : for a SCOPE the placeholder template (`is_template = -1`) followed by one formatted
                  block per element; for a DEFINITION just the formatted elements.
  Value domain `RTObjM` (decidable sufficient condition `rtObjMB`): a `scope_extract` with one attribute
  per master child in the master's order; the attribute of a `.multiple` child is a
  `scope_extract_list` tagged with the child's `.optional` whose elements are in shape and are not
  `None` when `.optional = True`; leaves restricted to `RoundTripLeaf` (the per-converter theorems).
  Validation before proving: 1000 random (master with nested `.multiple` definitions / scopes, source)
  inputs: Python `M.format(M.fetch(S).extract())` (names, `is_template`, words, quotes) = `formatSpecM` on
  the extracted value, all 1000; Python `format(v).extract() == v` on all 1000.
-/
import Phil.Proofs.FormatMS
import Phil.Props.C09Tree
set_option linter.unusedVariables false

namespace Phil.C09
open Phil

/-! ### 1. closed form of `scope.format` with `.multiple` -/

/-- **`format` in closed form**: with fuel beyond the depth, for every value in `FDomM` (scope values
    are `scope_extract`s; attributes may be missing or extra; the attribute of a `.multiple` child is
    any list of in-domain values) the fuelled model is `formatSpecM`, values and errors alike. -/
theorem format_closed_ms (e : Envs) (fuel : Nat) (o : Obj) (hf : FObjM o) (hd : depthT o < fuel)
    (v : PVal) (hv : FDomM o v) : formatObj e fuel o v = formatSpecM e o v :=
  formatObj_eq_specM e fuel o hf hd v hv

/-- the clauses for a `.multiple` child: no attribute — nothing; -/
theorem format_multiple_absent (F : PVal → R Obj) (o : Obj) (fs : List (Str × PVal))
    (h : fieldGet fs o.name = none) : multiKidFormat F o fs = .ok [] :=
  multiKidFormat_absent F o fs h
/-- … the empty list — the master object as a template; -/
theorem format_multiple_empty (F : PVal → R Obj) (o : Obj) (fs : List (Str × PVal)) (sub : PVal)
    (h : fieldGet fs o.name = some sub) (hl : elemsOfM sub = .ok []) :
    multiKidFormat F o fs = .ok [withTmpl o 1] :=
  multiKidFormat_empty F o fs sub h hl
/-- … a non-empty list — one formatted instance per element, in order, after the placeholder
    template when the child is a scope. -/
theorem format_multiple_instances (F : PVal → R Obj) (o : Obj) (fs : List (Str × PVal)) (sub : PVal)
    (x : PVal) (xs : List PVal) (rs : List Obj)
    (h : fieldGet fs o.name = some sub) (hl : elemsOfM sub = .ok (x :: xs))
    (hr : mapR F (x :: xs) = .ok rs) :
    multiKidFormat F o fs = .ok ((if o.isScope then [withTmpl o (-1)] else []) ++ rs) :=
  multiKidFormat_instances F o fs sub x xs rs h hl hr

/-- in-shape values are in the domain of the closed form -/
theorem rt_values_in_format_domain (o : Obj) (v : PVal) (hf : FObjM o) (hv : RTObjM o v) : FDomM o v :=
  rtObjM_fdomM o v hf hv

/-! ### 2. format, then extract -/

/-- **`format_extract_ms`** — C09 on whole trees with `.multiple`: whatever `master.format(v)`
    returns for an in-shape value extracts back to `v` — `__phil_set__` rebuilds every
    `scope_extract_list` element by element, the templates contribute the (possibly empty) list and
    nothing else. -/
theorem format_extract_ms (e : Envs) (henv : EnvDecimal e.eval) (fuel : Nat) (master : Obj) (v : PVal)
    (w : Obj) (hf : FObjM master) (hd : depthT master < fuel) (hv : RTObjM master v)
    (h : formatObj e fuel master v = .ok w) : extractObj e fuel w = .ok v :=
  format_extract_ms_M e henv fuel master v w hf hd hv h

/-- the same, the formatted tree described: it is `formatSpecM`, and each of its instances is a live
    copy (same name and attributes, `is_template = 0`) of the master object it instantiates -/
theorem format_extract_ms_spec (e : Envs) (henv : EnvDecimal e.eval) (o : Obj) (x : PVal) (w : Obj)
    (hf : FObjM o) (hv : RTObjM o x) (h : formatSpecM e o x = .ok w) (fuel : Nat) (hd : depthT o < fuel) :
    extractObj e fuel w = .ok x ∧ w.name = o.name ∧ w.meta.tmpl = 0 ∧ w.meta.disabled = false ∧
      w.meta.attrs = o.meta.attrs :=
  have hi := format_extract_objM e henv o x w hf hv h fuel hd
  ⟨hi.value, hi.name, hi.tmpl, hi.enabled, hi.attrs⟩

/-- executable hypotheses -/
theorem format_extract_ms_checked (e : Envs) (henv : EnvDecimal e.eval) (fuel : Nat) (master : Obj)
    (v : PVal) (w : Obj) (hf : fobjMB master = true) (hd : depthT master < fuel)
    (hv : rtObjMB master v = true) (h : formatObj e fuel master v = .ok w) :
    extractObj e fuel w = .ok v :=
  format_extract_ms e henv fuel master v w (fobjMB_sound master hf) hd (rtObjMB_sound master v hv) h

/-! ### 2b. closed form of `scope.extract` with `.multiple` children (the `__phil_set__` accumulation) -/

/-- **One `.multiple` block** (the instances and templates of one `.multiple` object, adjacent, met
    with the attribute not yet set): the attribute becomes the `scope_extract_list`, tagged with the
    block's `.optional`, of the KEPT values of its LIVE instances in order (`blockVals`:
    placeholders, templates and disabled instances contribute nothing; `None` is dropped under
    `.optional = True`); no attribute at all if the block consists of placeholders only; the first
    failing live instance decides the error. -/
theorem extract_multiple_block (X : Obj → R PVal) (nm : Str) (opt : AttrVal) (ws : List Obj)
    (acc : List (Str × PVal)) (hacc : fieldGet acc nm = none) (hok : MultiBlockOK nm opt ws) :
    ws.foldlM (xstep_xt X) acc =
      (blockVals X opt ws).map (fun ys => if blockCreates ws then acc ++ [(nm, .multi opt ys)] else acc) :=
  xfold_block_fresh X nm opt ws acc hacc hok

/-- **`scope.extract` of one scope in closed form, `.multiple` children included** — no hypothesis on
    the objects themselves: cut the children into blocks (`blocksOf`: adjacent `.multiple` children of
    one name and `.optional`; every other child alone); whenever the block names are pairwise
    distinct, the `scope_extract` holds exactly the blocks' attributes in order (`scopeFieldsB`).
    This is the shape of every formatted tree and of every fetch result; iterating it over the levels
    gives the whole tree (the recursive call is the parameter `extractObj e fuel`).
    Validation: 1000 random fetch results with nested `.multiple` definitions / scopes: the
    specification iterated over all levels = Python `fetch(...).extract()` on all. -/
theorem extract_scope_closed_ms (e : Envs) (fuel : Nat) (m : Meta) (kids : List Obj)
    (hpw : ((blocksOf kids).map KidBlock.name).Pairwise (· ≠ ·)) :
    extractObj e (fuel + 1) (.scope m kids) =
      (scopeFieldsB (extractObj e fuel) (blocksOf kids)).map PVal.record :=
  extractObj_scope_closed_M e fuel m kids hpw

/-- the blocks are a partition of the children into well-formed blocks, always -/
theorem blocks_partition (kids : List Obj) :
    (blocksOf kids).flatMap KidBlock.objs = kids ∧ ∀ b ∈ blocksOf kids, b.OK :=
  blocksOf_spec kids

/-! ### 3. an instance through the parser, and the sharp edge (replayed on the Python library) -/

open Phil.C10 (objsT envT yields yields_sound)
private def S (s : String) : Str := s.toList
private def I (i : Int) : PVal := .num (.int i)

/-- master: a `.multiple` int `a`, a str `n`, a `.multiple` scope `s` holding a bool and a `.multiple`
    optional int `k`, a `.multiple` optional scope `e` -/
def msT : String :=
  "a = 1\n.type=int\n.multiple=True\nn = x\n.type=str\ns\n.multiple=True\n{\n  b = True\n  .type=bool\n  k = 2\n  .type=int\n  .multiple=True\n  .optional=True\n}\ne\n.multiple=True\n.optional=True\n{\n  z = 1\n  .type=int\n}\n"

/-- `a = [3, 4]`, `n = "hello"`, two instances of `s` (`k = [5, 6]` and `k = []`), no instance of `e` -/
def vMS : PVal :=
  .record [(S "a", .multi .none [I 3, I 4]), (S "n", .str (S "hello")),
    (S "s", .multi .none [.record [(S "b", .bool false), (S "k", .multi (.bool true) [I 5, I 6])],
                          .record [(S "b", .none), (S "k", .multi (.bool true) [])]]),
    (S "e", .multi (.bool true) [])]

/-- master and value satisfy the executable hypotheses -/
theorem msT_in_class : (fobjMB (rootT msT) && decide (depthT (rootT msT) = 2) && rtObjMB (rootT msT) vMS) = true := by
  decide +kernel

/-- the printed form (Python: the same text; the second `s` and `e` show their templates) -/
theorem msT_format_text : formatStrT msT vMS =
    some "a = 3\na = 4\nn = \"hello\"\ns {\n  b = False\n  k = 5\n  k = 6\n}\ns {\n  b = None\n  k = 2\n}\ne {\n  z = 1\n}\n" := by
  decide +kernel

/-- evaluated: format then extract returns the value (Python: `[3, 4] hello [(False, [5, 6]), (None, [])] []`) -/
theorem msT_round_trip_evaluated : yields (formatExtractT msT vMS) vMS = true := by decide +kernel

/-- **the theorem applied to the parsed master** -/
example (w : Obj) (h : formatObj envT 50 (rootT msT) vMS = .ok w) : extractObj envT 50 w = .ok vMS :=
  have hc := msT_in_class
  format_extract_ms_checked envT envT_decimal 50 (rootT msT) vMS w
    (by simp only [Bool.and_eq_true] at hc; exact hc.1.1)
    (by simp only [Bool.and_eq_true, decide_eq_true_eq] at hc; omega)
    (by simp only [Bool.and_eq_true] at hc; exact hc.2) h

/-! #### the second leg on instances: print → parse → fetch → extract, with fetch's collapse

  (The general theorem for this leg is NOT proved here; these are kernel-checked instances, each
  replayed on the Python library: `M.fetch(parse(M.format(v).as_str())).extract()`.) -/

open Phil.C10 (fetchExtractT)

/-- `master.fetch(parse(master.format(v).as_str())).extract()` -/
def legT (m : String) (v : PVal) : R PVal :=
  match formatStrT m v with
  | some text => fetchExtractT m text
  | none => .error (.unsupported "format")

/-- a value whose lists repeat themselves and the defaults: `a = [1, 3, 4, 3]` (1 is the default),
    three instances of `s`: the master's own block, `k = [5, 2, 5]`, `k = [5]` -/
def vDup : PVal :=
  .record [(S "a", .multi .none [I 1, I 3, I 4, I 3]), (S "n", .str (S "hello")),
    (S "s", .multi .none [.record [(S "b", .bool true), (S "k", .multi (.bool true) [])],
                          .record [(S "b", .bool false), (S "k", .multi (.bool true) [I 5, I 2, I 5])],
                          .record [(S "b", .bool false), (S "k", .multi (.bool true) [I 5])]]),
    (S "e", .multi (.bool true) [])]

/-- what fetch's collapse leaves of it: instances equal to the template are dropped, of equal
    instances the LAST stays — `a = [4, 3]`, ONE instance of `s` with `k = [5]` -/
def vDupCollapsed : PVal :=
  .record [(S "a", .multi .none [I 4, I 3]), (S "n", .str (S "hello")),
    (S "s", .multi .none [.record [(S "b", .bool false), (S "k", .multi (.bool true) [I 5])]]),
    (S "e", .multi (.bool true) [])]

/-- on `vMS` (no instance equals a template or repeats another) the whole leg is the identity
    (Python: `[3, 4] hello [(False, [5, 6]), (None, [])] []`) -/
theorem second_leg_identity_instance : yields (legT msT vMS) vMS = true := by decide +kernel

/-- on `vDup` the leg returns the collapsed value, while `format` / `extract` alone returns `vDup`
    itself (Python: `[4, 3] hello [(False, [5])] []`) -/
theorem second_leg_collapse_instance :
    (yields (legT msT vDup) vDupCollapsed && yields (formatExtractT msT vDup) vDup &&
     rtObjMB (rootT msT) vDup) = true := by decide +kernel

/-- what `fetch` + `extract` produce from a source is in `RTObjM`, and `format` / `extract` leaves it
    unchanged -/
theorem fetched_value_round_trips :
    (match fetchExtractT msT "a = 3\na = 4\ns {\n b = False\n k = 5\n}\n" with
     | .ok v => yields (formatExtractT msT v) v && rtObjMB (rootT msT) v
     | .error _ => false) = true := by decide +kernel

/-- **Sharp edge for `extract_scope_closed_ms` (the hypothesis "block names pairwise distinct")**:
    instances of a `.multiple` object that are NOT adjacent are still merged into one list, at the
    position of the first — `a = 1 ; b = 2 ; a = 3` (both `a` `.multiple`) extracts to
    `a = [[1], [3]], b = [2]`, while the block-wise reading would give `a`, `b`, `a`.
    (Python: `[['1'], ['3']] ['2']`, attribute order `['a', 'b']`.) -/
theorem nonadjacent_instances_merge :
    (yields (extractObj envT 50 (rootT "a = 1\n.multiple=True\nb = 2\na = 3\n.multiple=True\n"))
        (.record [(S "a", .multi .none [.list [.str (S "1")], .list [.str (S "3")]]),
                  (S "b", .list [.str (S "2")])]) &&
     yields ((scopeFieldsB (extractObj envT 49)
          (blocksOf (objsT "a = 1\n.multiple=True\nb = 2\na = 3\n.multiple=True\n"))).map PVal.record)
        (.record [(S "a", .multi .none [.list [.str (S "1")]]), (S "b", .list [.str (S "2")]),
                  (S "a", .multi .none [.list [.str (S "3")]])]) &&
     !decide (((blocksOf (objsT "a = 1\n.multiple=True\nb = 2\na = 3\n.multiple=True\n")).map
        KidBlock.name).Pairwise (· ≠ ·))) = true := by decide +kernel

/-- the hypothesis holds on the formatted tree of the instance above -/
theorem msT_blocks_distinct :
    (match formatObj envT 50 (rootT msT) vMS with
     | .ok (.scope _ kids) => decide (((blocksOf kids).map KidBlock.name).Pairwise (· ≠ ·))
     | _ => false) = true := by decide +kernel

def optT : String := "a = 1\n.type=int\n.multiple=True\n.optional=True\n"

/-- **Sharp edge (why `RTObjM` excludes `None` elements under `.optional = True`)**: `__phil_set__`
    drops a `None` instance of a `.multiple` object whose `.optional` is `True`: `[None]` formats to
    `a = None` and extracts to `[]`; `[None, 2]` to `[2]`.  (Python: `v.a = [None]` → `'a = None\n'` →
    `[]`; `[None, 2]` → `[2]`; without `.optional` `[None, 2]` survives.) -/
theorem optional_none_instance_dropped :
    (yields (formatExtractT optT (.record [(S "a", .multi (.bool true) [.none])]))
        (.record [(S "a", .multi (.bool true) [])]) &&
     yields (formatExtractT optT (.record [(S "a", .multi (.bool true) [.none, I 2])]))
        (.record [(S "a", .multi (.bool true) [I 2])]) &&
     !rtObjMB (rootT optT) (.record [(S "a", .multi (.bool true) [.none])])) = true := by
  decide +kernel

/-- … while without `.optional = True` the `None` element survives and is in `RTObjM` -/
theorem none_instance_kept_without_optional :
    (yields (formatExtractT "a = 1\n.type=int\n.multiple=True\n" (.record [(S "a", .multi .none [.none, I 2])]))
        (.record [(S "a", .multi .none [.none, I 2])]) &&
     rtObjMB (rootT "a = 1\n.type=int\n.multiple=True\n") (.record [(S "a", .multi .none [.none, I 2])])) = true := by
  decide +kernel

end Phil.C09

#print axioms Phil.C09.format_closed_ms
#print axioms Phil.C09.format_multiple_absent
#print axioms Phil.C09.format_multiple_empty
#print axioms Phil.C09.format_multiple_instances
#print axioms Phil.C09.rt_values_in_format_domain
#print axioms Phil.C09.format_extract_ms
#print axioms Phil.C09.extract_multiple_block
#print axioms Phil.C09.extract_scope_closed_ms
#print axioms Phil.C09.blocks_partition
#print axioms Phil.C09.nonadjacent_instances_merge
#print axioms Phil.C09.msT_blocks_distinct
#print axioms Phil.C09.format_extract_ms_spec
#print axioms Phil.C09.format_extract_ms_checked
#print axioms Phil.C09.msT_in_class
#print axioms Phil.C09.msT_format_text
#print axioms Phil.C09.msT_round_trip_evaluated
#print axioms Phil.C09.second_leg_identity_instance
#print axioms Phil.C09.second_leg_collapse_instance
#print axioms Phil.C09.fetched_value_round_trips
#print axioms Phil.C09.optional_none_instance_dropped
#print axioms Phil.C09.none_instance_kept_without_optional
