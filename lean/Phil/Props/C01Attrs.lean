/-
  C01 (part) — printing a PHIL tree WITH ATTRIBUTES at attributes level 1, 2 or 3 and re-parsing the
  text reproduces the tree: names, nesting, order, words, quote styles AND the value of every printed
  attribute; the second print is byte-identical.  Property theorems only; the lemmas are in
  Phil/Proofs/AttrRoundTrip.lean.  The attribute-free case (level 0) is Phil/Props/C01Nested.lean.

  What is covered: trees of the nested round-trip class (`RTNode` of the tree without its attributes:
  enabled definitions and scopes to any depth, empty scopes, dotted chains) whose definitions and
  proper scopes carry attributes — bool / int / None / Auto values, `.type` expressions, string
  values (see `attrOK` / `strOK` for the condition on strings) — at every attributes level and every
  print width, under the expert setting "show everything".
  What is not covered: disabled objects, templates, a deprecated definition that directly FOLLOWS a
  definition in the parse theorems (`depPlacedList`; the printer theorem covers every placement),
  `.call` / `.sequential_format` other than None (outside the model).
-/
import Phil.Proofs.AttrRoundTrip
import Phil.Props.C01Nested
set_option linter.unusedSimpArgs false
set_option linter.unusedVariables false
namespace Phil.C01
open Phil

attribute [local instance] objDecEqInst exceptDecEqRT

/-! ### the class

  `RTTreeAttr L w x`: the tree `x` without its attributes is an `RTTree` (Phil/Props/C01Nested.lean),
  and `x.attrsOKAt L w []` (by recursion on the tree, the indentation growing by two blanks per
  proper scope): every attribute that is PRINTED at level `L` (`attrShown`) satisfies `attrOK`:
    * its value is of the kind `assign_attribute` produces for the name — bool names: None / Auto /
      True / False; `input_size`, `expert_level`: None / Auto / an int; `type`: None / Auto / a
      converter that is `Printable` with a `safeText` rendering (`typeTextOK`); `call`: None / Auto;
      `sequential_format`: None; all others (help, caption, short_caption, style, alias): None / Auto /
      a string satisfying `strOK` at this indentation and width;
    * a definition with a truthy `deprecated` is allowed at level ≥ 3 only (below, it is not printed).
  Attributes that are not printed at level `L` are unrestricted. -/

/-- the class of trees with attributes the round trip at level `L`, width `w` is proved for -/
def RTTreeAttr (L w : Int) (x : Obj) : Prop := RTNode [] x.stripAttrs ∧ x.attrsOKAt L w [] = true

instance (L w : Int) (x : Obj) : Decidable (RTTreeAttr L w x) := by unfold RTTreeAttr; exact inferInstance

theorem rtAllAttr_of_forall {L w : Int} {objs : List Obj} (h : ∀ x ∈ objs, RTTreeAttr L w x) :
    RTAll (stripAttrsList objs) ∧ attrsOKsAt L w objs [] = true := by
  constructor
  · rw [RTAll_iff, stripAttrsList_eq_map]
    intro y hy
    obtain ⟨x, hx, rfl⟩ := List.mem_map.mp hy
    exact (h x hx).1
  · exact (attrsOKsAt_iff_art L w objs []).mpr (fun x hx => (h x hx).2)

/-- an attribute-free tree of the nested class is in the class at every level and width -/
theorem RTTree.toAttr {x : Obj} (h : RTTree x) (hx : x.stripAttrs = x) (L w : Int)
    (hok : x.attrsOKAt L w [] = true) : RTTreeAttr L w x := ⟨by rw [hx]; exact h, hok⟩

/-! ### what is printed

  `treeTextA L w x ms ind` = `treeText` plus the attribute lines: after the value lines of a definition
  the lines `ind ++ "  .name = value"` of every attribute shown at level `L` (`attrBlock`), in the
  order of `definition.attribute_names`; a scope prints `name {` when no attribute is shown and
  otherwise `name`, its attribute lines, and `{` on a line of its own; a deprecated definition is
  preceded by `# WARNING: deprecated parameter`. -/

/-- **The printer on the class**, every attributes level (0 … 3 and beyond), every width, deprecated
    definitions at level ≥ 3 included. -/
theorem print_tree_attrs (o : ShowOpts) (he : o.expert = none) (objs : List Obj)
    (h : ∀ x ∈ objs, RTTreeAttr o.level o.width x) :
    asStr o (rootOf objs) = .ok (kidsTextA o.level o.width objs [] []) := by
  obtain ⟨h1, h2⟩ := rtAllAttr_of_forall h
  exact asStr_treesA_art o he objs [] (by intro d hd; cases hd) h1 h2

/-! ### the round trip -/

/-- **C01 with attributes.**  (`depPlacedList`: no deprecated definition directly follows a definition
    — true of every document without deprecated definitions, `placed_of_noDeprecated`; at level 3 a
    deprecated definition may stand first in the document or in a scope, or after a scope.)
    For every attributes level `L = o.level` and every print width: the
    printed text parses, and the parser returns the same trees up to ids and source positions
    (`eraseList`: nesting, names, `merge_names`, words with values and quote styles, AND attributes)
    in which every object carries exactly the attributes shown at level `L`, each with its value
    (`normAList`: attribute list `shownAttrs`, in printing order; a scope that is only a dotted prefix
    carries none).  Ids as in `print_parse_tree_exact`. -/
theorem print_parse_tree_attrs (o : ShowOpts) (he : o.expert = none) (objs : List Obj)
    (h : ∀ x ∈ objs, RTTreeAttr o.level o.width x) (hnl : ∀ x ∈ objs, x.allDefns NlOnlyLast)
    (hnd : depPlacedList objs = true) :
    ∃ text objs', asStr o (rootOf objs) = .ok text ∧ text = kidsTextA o.level o.width objs [] [] ∧
      parseObjs text = .ok objs' ∧ eraseList objs' = eraseList (normAList o.level objs) ∧
      idsList objs' = (expIdsSeq 1 objs).map some := by
  obtain ⟨h1, h2⟩ := rtAllAttr_of_forall h
  have hw : WrapsOKs o.width (stripAttrsList objs) [] [] :=
    wrapsOKs_of_nlOnlyLast_ert o.width _ [] []
      ((allDefnsList_stripAttrs_ert NlOnlyLast objs).mpr ((allDefnsList_iff NlOnlyLast objs).mpr hnl))
  obtain ⟨objs', e1, e2, e3⟩ := parseObjs_treesA_art o.level o.width objs [] (by intro d hd; simp at hd)
    h1 hw h2 hnd
  exact ⟨_, objs', print_tree_attrs o he objs h, rfl, e1, e2, e3⟩

/-- documents without deprecated definitions satisfy the placement condition -/
theorem placed_of_noDeprecated (objs : List Obj) (hnd : ∀ x ∈ objs, x.noDeprecated = true) :
    depPlacedList objs = true :=
  depPlacedList_of_noDeprecated_art objs ((noDeprecatedList_iff_ert objs).mpr hnd)

/-- **Every attribute comes back with its value** (looked up by name on a re-parsed object): at
    level ≥ 2 the value of every attribute of the object's attribute list equals the original value —
    the one exception being a `deprecated` that is set but not truthy (`False`), which is never
    printed (see `deprecated_false_is_lost`). -/
theorem attribute_value_kept (isDef : Bool) (L : Int) (hL : 2 ≤ L) (attrs : Attrs) (n : String)
    (hn : n ∈ attrNamesOf isDef)
    (hdep : n = "deprecated" → (attrs.get n).truthy = true ∨ attrs.get n = .none) :
    (shownAttrs isDef L attrs).get n = attrs.get n := by
  rw [get_shownAttrs_art isDef L attrs n hn]
  by_cases hs : attrShown L n (attrs.get n) = true
  · have : 0 < L := by omega
    simp [hs, this]
  · have hs' : attrShown L n (attrs.get n) = false := by simpa using hs
    have hnone : attrs.get n = .none := by
      rw [attrShown_eq_B_art] at hs'
      by_cases hd : n = "deprecated"
      · rcases hdep hd with ht | hv
        · subst hd
          rw [ht] at hs'
          have h1 : decide (L > 1) = true := by simp; omega
          rw [h1] at hs'
          have key : ∀ h a i l2 : Bool, attrShownB true h a true i true l2 = false → i = true := by decide
          have := key _ _ _ _ hs'
          cases hv : attrs.get "deprecated" <;> simp_all [AttrVal.isNone]
        · exact hv
      · have hd' : (n == "deprecated") = false := by simpa using hd
        rw [hd'] at hs'
        have h1 : decide (L > 1) = true := by simp; omega
        rw [h1] at hs'
        have key : ∀ h a t i l2 : Bool, attrShownB false h a t i true l2 = false → i = true := by decide
        have := key _ _ _ _ _ hs'
        cases hv : attrs.get n <;> simp_all [AttrVal.isNone]
    simp [hs', hnone]

/-- the general form: an attribute of a re-parsed object is the original value if it was printed at
    the level, unset otherwise (level 1: help and alias only) -/
theorem attribute_value_read_back (isDef : Bool) (L : Int) (attrs : Attrs) (n : String)
    (hn : n ∈ attrNamesOf isDef) :
    (shownAttrs isDef L attrs).get n
      = if 0 < L ∧ attrShown L n (attrs.get n) = true then attrs.get n else .none :=
  get_shownAttrs_art isDef L attrs n hn

/-- **Print, parse, print again.**  The re-parsed root prints byte-identically at the same level and
    width. -/
theorem second_print_identical_attrs (o : ShowOpts) (he : o.expert = none) (objs : List Obj)
    (h : ∀ x ∈ objs, RTTreeAttr o.level o.width x) (hnl : ∀ x ∈ objs, x.allDefns NlOnlyLast)
    (hnd : depPlacedList objs = true) :
    ∃ text root', asStr o (rootOf objs) = .ok text ∧ parse text = .ok root' ∧
      asStr o root' = .ok text := by
  obtain ⟨text, objs', h1, ht, h2, h3, _⟩ := print_parse_tree_attrs o he objs h hnl hnd
  obtain ⟨r1, r2⟩ := rtAllAttr_of_forall h
  obtain ⟨n1, _, n3⟩ := normAList_props_art o.level o.width objs [] r2
  have herase : (rootOf objs').erase = (rootOf (normAList o.level objs)).erase := by
    simp only [rootOf, Obj.erase_scope, h3]
  refine ⟨text, rootOf objs', h1, by rw [parse_eq, h2]; rfl, ?_⟩
  rw [show_congr_positions o _ _ herase,
    asStr_treesA_art o he (normAList o.level objs) [] (by intro d hd; cases hd)
      (by rw [normAList_stripAttrs_art]; exact r1) n1,
    n3, ht]

/-! ### non-vacuity: a concrete document through the theorems

  ```
  a = 1
    .help = "some help"
    .optional = True
    .type = int(value_min=0, value_max=5, allow_none=False)
  s
    .style = box
    .expert_level = 2
  {
    x.y = "p q" r
      .caption = cap
    e {
    }
  }
  ```
  Replayed on the Python library at levels 1, 2, 3 (widths 79 and 40): same texts, same re-parsed
  attribute values. -/

def exAttrSrc : Str :=
  ("a = 1\n  .help = \"some help\"\n  .optional = True\n" ++
   "  .type = int(value_min=0, value_max=5, allow_none=False)\ns\n  .style = box\n  .expert_level = 2\n{\n  x.y = \"p q\" r\n" ++
   "    .caption = cap\n  e {\n  }\n}\n").toList

/-- the forest the parser builds from `exAttrSrc` (ids and positions erased) -/
def exAttrForest : List Obj :=
  [ .defn { name := ['a'], attrs := [("help", .str "some help".toList), ("optional", .bool true),
        ("type", .conv (.int { valueMin := some (.int 0), valueMax := some (.int 5), allowNone := false }))] }
      [{ value := ['1'] }],
    .scope { name := ['s'], attrs := [("style", .str "box".toList), ("expert_level", .int 2)] }
      [ .scope { name := ['x'] }
          [.defn { name := ['y'], mergeNames := true, attrs := [("caption", .str "cap".toList)] }
            [{ value := "p q".toList, quote := some .d1 }, { value := ['r'] }]],
        .scope { name := ['e'] } [] ] ]

example : (parseObjs exAttrSrc).map eraseList = .ok exAttrForest := by decide +kernel

theorem exAttr_ok2 : ∀ x ∈ exAttrForest, RTTreeAttr 2 79 x := by decide +kernel
theorem exAttr_ok3 : ∀ x ∈ exAttrForest, RTTreeAttr 3 40 x := by decide +kernel
theorem exAttr_ok1 : ∀ x ∈ exAttrForest, RTTreeAttr 1 79 x := by decide +kernel
theorem exAttr_nl : ∀ x ∈ exAttrForest, x.allDefns NlOnlyLast := by decide +kernel
theorem exAttr_nd : depPlacedList exAttrForest = true := by decide +kernel

/-- level 2 prints the source text again -/
example : asStr { level := 2 } (rootOf exAttrForest) = .ok exAttrSrc := by
  rw [print_tree_attrs { level := 2 } rfl exAttrForest exAttr_ok2]
  decide +kernel

/-- level 1 prints help only -/
example : asStr { level := 1 } (rootOf exAttrForest)
    = .ok "a = 1\n  .help = \"some help\"\ns {\n  x.y = \"p q\" r\n  e {\n  }\n}\n".toList := by
  rw [print_tree_attrs { level := 1 } rfl exAttrForest exAttr_ok1]
  decide +kernel

/-- the round trip at level 2: the re-parsed forest is the forest -/
example : ∃ text objs', asStr { level := 2 } (rootOf exAttrForest) = .ok text ∧
    parseObjs text = .ok objs' ∧ eraseList objs' = exAttrForest := by
  obtain ⟨text, objs', h1, _, h2, h3, _⟩ :=
    print_parse_tree_attrs { level := 2 } rfl exAttrForest exAttr_ok2 exAttr_nl exAttr_nd
  exact ⟨text, objs', h1, h2, by rw [h3]; decide +kernel⟩

/-- the round trip at level 3, width 40: every object comes back with its whole attribute list, the
    unset attributes as `None` -/
example : ∃ text root', asStr { level := 3, width := 40 } (rootOf exAttrForest) = .ok text ∧
    parse text = .ok root' ∧ asStr { level := 3, width := 40 } root' = .ok text :=
  second_print_identical_attrs { level := 3, width := 40 } rfl exAttrForest exAttr_ok3 exAttr_nl exAttr_nd

/-! ### sharp edges (kernel-checked in the model; each replayed on the Python library) -/

/-- **`.deprecated = False` does not survive the round trip** (new finding, replayed on Python:
    `a = 1⏎.deprecated = False` → `as_str(attributes_level=3)` has no `.deprecated` line → the re-parsed
    definition has `deprecated = None`).  `show_attributes` prints `.deprecated` only when it is truthy.
    This is why `attribute_value_kept` excludes a set-but-falsy `deprecated`. -/
theorem deprecated_false_is_lost :
    (parseObjs "a = 1\n.deprecated = False\n".toList).map eraseList
      = .ok [.defn { name := ['a'], attrs := [("deprecated", .bool false)] } [{ value := ['1'] }]] ∧
    (∀ x ∈ [Obj.defn { name := ['a'], attrs := [("deprecated", .bool false)] } [{ value := ['1'] }]],
      RTTreeAttr 3 79 x) ∧
    (shownAttrs true 3 [("deprecated", .bool false)]).get "deprecated" = .none ∧
    (parseObjs (kidsTextA 3 79
        [.defn { name := ['a'], attrs := [("deprecated", .bool false)] } [{ value := ['1'] }]] [] [])).map
      (fun os => os.map (fun x => x.attr "deprecated")) = .ok [.none] := by
  decide +kernel

/-- **Why the value must be of the attribute's kind.**  A string under a bool name (not producible by
    the parser, but by assignment in Python: `d.optional = "maybe"`) prints `.optional = maybe`, which
    is refused on re-parse. -/
theorem ill_typed_attribute_fails :
    let t : List Obj := [.defn { name := ['a'], attrs := [("optional", .str "maybe".toList)] } [{ value := ['1'] }]]
    ¬ (∀ x ∈ t, RTTreeAttr 2 79 x) ∧
    asStr { level := 2 } (rootOf t) = .ok "a = 1\n  .optional = maybe\n".toList ∧
    parseObjs "a = 1\n  .optional = maybe\n".toList = .error (.runtime "bool_expected" (some 2)) := by
  decide +kernel

/-- **Why a truthy `deprecated` is excluded below level 3**: the definition is not printed at all. -/
theorem deprecated_hidden_at_level2 :
    let t : List Obj := [.defn { name := ['a'], attrs := [("deprecated", .bool true)] } [{ value := ['1'] }]]
    ¬ (∀ x ∈ t, RTTreeAttr 2 79 x) ∧ (∀ x ∈ t, RTTreeAttr 3 79 x) ∧
    asStr { level := 2 } (rootOf t) = .ok [] ∧
    asStr { level := 3 } (rootOf t)
      = .ok ("# WARNING: deprecated parameter\na = 1\n  .help = None\n  .caption = None\n" ++
             "  .short_caption = None\n  .optional = None\n  .type = None\n  .multiple = None\n" ++
             "  .input_size = None\n  .style = None\n  .expert_level = None\n  .deprecated = True\n").toList := by
  decide +kernel

/-! ### wrapped free text (the `textwrap` branch of `show_attributes`)

  `strOK pre w name s` = `strOneLine … ∨ strWrapOK …`: a string value either stays on the line of its
  name (then its content is arbitrary: blanks, quotes, backslashes, newlines), or it is wrapped, and
  then the hypothesis is `strWrapOK`: the wrap width `w - 2 - indentation` is positive, and the text is
  SINGLE-SPACED (`singleSpaced`: non-empty words without white space, separated by single blanks).
  For such text `textwrap.wrap` only regroups the words (`twWrap_singleSpaced_art`), every block is
  printed as a quoted word, the parser joins the words of consecutive lines with single blanks — the
  value comes back EXACTLY, so all theorems above hold verbatim for wrapped attributes, the second
  print included.  Text with runs of white space is outside the class: `reflow_not_fixpoint` (finding
  D28) is the kernel-checked reason. -/

/-- the core fact about `textwrap.wrap` used above, restated: on single-spaced text the blocks are a
    regrouping of the words, each group joined by single blanks -/
theorem wrap_regroups_words (ws : List Str) (hw : ∀ w ∈ ws, twWord w = true) (W : Nat) :
    ∃ groups : List (List Str), groups.flatten = ws ∧ (∀ g ∈ groups, g ≠ []) ∧
      twWrap (joinWith [' '] ws) W = groups.map (joinWith [' ']) :=
  twWrap_singleSpaced_art ws hw W

/-- one wrapped attribute: printed as quoted blocks on consecutive lines, read back as the value -/
theorem wrapped_attribute_round_trip (isDef : Bool) (pre : Str) (hb : ∀ c ∈ pre, c = ' ') (width : Int)
    (n : String) (s : Str) (hk : kindOf isDef n = .str) (h : strWrapOK pre width n s = true) :
    (∃ ls, attrLines pre width n (.str s) = .ok ls ∧ unlines ls = attrLineText pre width n (.str s)) ∧
    ReadsAs (attrTail pre width n (.str s)) (attrValueOf isDef n) (.str s) :=
  attr_line_wrap_art isDef pre hb width n s hk h

def exWrapForest : List Obj :=
  [ .scope { name := ['s'], attrs := [("help", .str "scope help text that is long enough to wrap".toList)] }
      [ .defn { name := ['a'], attrs := [("help", .str "aaaaaaa bb ccccccc dddddd \"q\" back\\slash".toList),
          ("caption", .str "short".toList)] } [{ value := ['1'] }] ] ]

theorem exWrap_ok : ∀ x ∈ exWrapForest, RTTreeAttr 2 30 x := by decide +kernel
theorem exWrap_nl : ∀ x ∈ exWrapForest, x.allDefns NlOnlyLast := by decide +kernel
theorem exWrap_nd : depPlacedList exWrapForest = true := by decide +kernel

/-- the printed text at width 30 (replayed on Python: identical) -/
example : asStr { level := 2, width := 30 } (rootOf exWrapForest)
    = .ok ("s\n  .help = \"scope help text\"\n          \"that is long\"\n          \"enough to wrap\"\n{\n" ++
           "  a = 1\n    .help = \"aaaaaaa bb\"\n            \"ccccccc dddddd\"\n            \"\\\"q\\\"\"\n" ++
           "            \"back\\\\slash\"\n    .caption = short\n}\n").toList := by
  rw [print_tree_attrs { level := 2, width := 30 } rfl exWrapForest exWrap_ok]
  decide +kernel

/-- the round trip with wrapped attributes: the forest comes back exactly, second print identical -/
example : ∃ text objs', asStr { level := 2, width := 30 } (rootOf exWrapForest) = .ok text ∧
    parseObjs text = .ok objs' ∧ eraseList objs' = exWrapForest := by
  obtain ⟨text, objs', h1, _, h2, h3, _⟩ :=
    print_parse_tree_attrs { level := 2, width := 30 } rfl exWrapForest exWrap_ok exWrap_nl exWrap_nd
  exact ⟨text, objs', h1, h2, by rw [h3]; decide +kernel⟩

example : ∃ text root', asStr { level := 2, width := 30 } (rootOf exWrapForest) = .ok text ∧
    parse text = .ok root' ∧ asStr { level := 2, width := 30 } root' = .ok text :=
  second_print_identical_attrs { level := 2, width := 30 } rfl exWrapForest exWrap_ok exWrap_nl exWrap_nd

/-- **Finding D28, kernel-checked: a run of blanks in a wrapped attribute makes the second print
    differ.**  `.help = "aaaaaaa     bb ccccccc dddddd"` at level 1, width 24: the first print breaks
    after `aaaaaaa` (the run of five blanks does not fit), the re-parsed value is
    `aaaaaaa bb ccccccc dddddd` (equal up to runs of white space), and printing THAT puts `bb` on the
    first line.  The same text single-spaced is in the class and is a fixed point.  Replayed on
    Python: identical texts. -/
theorem reflow_not_fixpoint :
    let t : List Obj := [.defn { name := ['a'], attrs := [("help", .str "aaaaaaa     bb ccccccc dddddd".toList)] } [{ value := ['1'] }]]
    let t' : List Obj := [.defn { name := ['a'], attrs := [("help", .str "aaaaaaa bb ccccccc dddddd".toList)] } [{ value := ['1'] }]]
    ¬ (∀ x ∈ t, RTTreeAttr 1 24 x) ∧ (∀ x ∈ t', RTTreeAttr 1 24 x) ∧
    asStr { level := 1, width := 24 } (rootOf t)
      = .ok "a = 1\n  .help = \"aaaaaaa\"\n          \"bb ccccccc\"\n          \"dddddd\"\n".toList ∧
    (parseObjs "a = 1\n  .help = \"aaaaaaa\"\n          \"bb ccccccc\"\n          \"dddddd\"\n".toList).map eraseList
      = .ok t' ∧
    asStr { level := 1, width := 24 } (rootOf t')
      = .ok "a = 1\n  .help = \"aaaaaaa bb\"\n          \"ccccccc\"\n          \"dddddd\"\n".toList := by
  decide +kernel

/-- **Why the wrap width must be positive** ("provided the width leaves room beyond the indentation"):
    with no room `textwrap.wrap` raises `ValueError: invalid width` (Python) — `stray ValueError` in the
    model. -/
theorem no_room_fails :
    let t : List Obj := [.defn { name := ['a'], attrs := [("short_caption", .str "aaaa bbbb cccc dddd eeee".toList)] } [{ value := ['1'] }]]
    ¬ (∀ x ∈ t, RTTreeAttr 2 20 x) ∧
    asStr { level := 2, width := 20 } (rootOf t) = .error (.stray "ValueError" "textwrap_width") := by
  decide +kernel

/-! ### deprecated definitions at attributes level 3 (`# WARNING: deprecated parameter`) -/

/-- `d` (deprecated) first in the document, `a` (deprecated) first in the scope `s`, `b` (deprecated)
    after the scope `t` -/
def exDepForest : List Obj :=
  [ .defn { name := ['d'], attrs := [("deprecated", .bool true)] } [{ value := ['0'] }],
    .scope { name := ['s'] }
      [ .defn { name := ['a'], attrs := [("help", .str "old".toList), ("deprecated", .bool true)] } [{ value := ['1'] }],
        .scope { name := ['t'] } [],
        .defn { name := ['b'], attrs := [("deprecated", .bool true)] } [{ value := ['2'] }] ] ]

theorem exDep_ok : ∀ x ∈ exDepForest, RTTreeAttr 3 79 x := by decide +kernel
theorem exDep_nl : ∀ x ∈ exDepForest, x.allDefns NlOnlyLast := by decide +kernel
theorem exDep_placed : depPlacedList exDepForest = true := by decide +kernel

/-- the round trip at level 3 with deprecated definitions: every warning line is skipped, the
    definitions come back with `deprecated = True`; second print identical -/
example : ∃ text objs', asStr { level := 3 } (rootOf exDepForest) = .ok text ∧
    parseObjs text = .ok objs' ∧ eraseList objs' = eraseList (normAList 3 exDepForest) ∧
    objs'.map (fun x => x.attr "deprecated") = [.bool true, .none] := by
  obtain ⟨text, objs', h1, ht, h2, h3, _⟩ :=
    print_parse_tree_attrs { level := 3 } rfl exDepForest exDep_ok exDep_nl exDep_placed
  refine ⟨text, objs', h1, h2, h3, ?_⟩
  have : objs'.map (fun x => x.attr "deprecated") = (eraseList objs').map (fun x => x.attr "deprecated") := by
    rw [eraseList_eq_map, List.map_map]
    apply List.map_congr_left
    intro x _
    cases x <;> rfl
  rw [this, h3]
  decide +kernel

example : ∃ text root', asStr { level := 3 } (rootOf exDepForest) = .ok text ∧
    parse text = .ok root' ∧ asStr { level := 3 } root' = .ok text :=
  second_print_identical_attrs { level := 3 } rfl exDepForest exDep_ok exDep_nl exDep_placed

/-- **The placement condition is a limit of the proof, not of the code**: a deprecated definition that
    directly follows a definition is outside `depPlacedList` (its warning line is consumed as a comment
    by the value collector of the line before), yet the model — and Python, replayed — reads the text
    back.  Validation: 75 random documents with deprecated definitions in every placement at level 3
    agreed with the closed form. -/
theorem deprecated_after_definition_still_round_trips :
    let t : List Obj := [.defn { name := ['a'] } [{ value := ['1'] }],
                         .defn { name := ['b'], attrs := [("deprecated", .bool true)] } [{ value := ['2'] }]]
    depPlacedList t = false ∧ (∀ x ∈ t, RTTreeAttr 3 79 x) ∧
    (parseObjs (kidsTextA 3 79 t [] [])).map eraseList = .ok (eraseList (normAList 3 t)) := by
  decide +kernel

#print axioms rtAllAttr_of_forall
#print axioms RTTree.toAttr
#print axioms print_tree_attrs
#print axioms print_parse_tree_attrs
#print axioms placed_of_noDeprecated
#print axioms exDep_ok
#print axioms exDep_nl
#print axioms exDep_placed
#print axioms deprecated_after_definition_still_round_trips
#print axioms attribute_value_kept
#print axioms attribute_value_read_back
#print axioms second_print_identical_attrs
#print axioms exAttr_ok1
#print axioms exAttr_ok2
#print axioms exAttr_ok3
#print axioms exAttr_nl
#print axioms exAttr_nd
#print axioms deprecated_false_is_lost
#print axioms ill_typed_attribute_fails
#print axioms deprecated_hidden_at_level2
#print axioms wrap_regroups_words
#print axioms wrapped_attribute_round_trip
#print axioms exWrap_ok
#print axioms exWrap_nl
#print axioms exWrap_nd
#print axioms reflow_not_fixpoint
#print axioms no_room_fails

end Phil.C01
