/-
  C16 (continued) — User mistakes surface as RuntimeError or Sorry, never as internal errors: the
  argument interpreter, fetch, extract and format.

  In the model an escaping exception of any other class is `Err.stray cls site`, a loop bound that was
  too small is `Err.outOfFuel`; `Err.unsupported` marks inputs the model declares outside its domain.
  Parser and `from_words` are covered by Phil/Props/C16.lean.  Here:
    1. `processArg_no_stray`      — the argument interpreter, every text, every master;
    2. `asWords_no_stray` (+ `asWords_stray_iff`) — formatting a Python value, with the exact set
       `¬ ShapeOK c v` of ill-typed (converter, value) pairs that raise TypeError/AssertionError;
    3. `fetch_tree_no_stray`, `fetchRoot_tree_no_stray`, `extract_tree_no_stray` — nested masters
       without `.multiple`, arbitrary sources;
    4. `fetchRoot_stray_sites` (and the same for `fetchScope`, `extractObj`, `formatObj`, `philSet`,
       `philJoin`, `extractFormatStr`) — the exhaustive list of the stray sites reachable in general;
    5. kernel-checked instances through the parser, and a smallest input for every listed site.
  Property theorems only; lemmas are in Phil/Proofs/NoStray.lean.
-/
import Phil.Proofs.NoStray
namespace Phil.C16
open Phil

/-! ### 1. the argument interpreter -/

/-- **C16, `argument_interpreter.process_arg`.**  For every argument text, every list of target
    paths with their expert levels (i.e. every master) and every home scope, the interpreter returns
    the parsed objects, refuses with Sorry, fails with RuntimeError, or the text leaves the modelled
    domain.  Never `.stray` (in particular never the `IndexError` of `target_paths[i]`, nor the
    "unreachable" branch of the model), never `.outOfFuel`. -/
theorem processArg_no_stray (home : Option Str) (targets : List Str) (experts : List Int) (arg : Str) :
    (∃ objs, processArg home targets experts arg = .ok objs) ∨
    (∃ kind paths, processArg home targets experts arg = .sorry_ kind paths) ∨
    (∃ s l, processArg home targets experts arg = .runtime (.runtime s l)) ∨
    (∃ w, processArg home targets experts arg = .runtime (.unsupported w)) := by
  have h := processArg_fine_ns home targets experts arg
  cases hp : processArg home targets experts arg with
  | ok objs => exact .inl ⟨objs, rfl⟩
  | sorry_ k p => exact .inr (.inl ⟨k, p, rfl⟩)
  | runtime e =>
    rw [hp] at h
    rcases (Err.benign_iff e).1 h with ⟨s, l, rfl⟩ | ⟨w, rfl⟩
    · exact .inr (.inr (.inl ⟨s, l, rfl⟩))
    · exact .inr (.inr (.inr ⟨w, rfl⟩))

/-- the refusals are of four kinds: the argument does not parse ("arg_syntax"), a path matches no
    parameter ("unknown"), several equally well ("ambiguous"), or the argument defines nothing
    ("no_effect") -/
theorem processArg_sorry_kinds (home : Option Str) (targets : List Str) (experts : List Int) (arg : Str)
    (kind : String) (paths : List Str) (h : processArg home targets experts arg = .sorry_ kind paths) :
    kind ∈ ["arg_syntax", "unknown", "ambiguous", "no_effect"] := by
  have := processArg_kind_ns home targets experts arg
  rw [h] at this
  exact this

/-- the index chosen by the selection step always addresses a target path: the `IndexError` branch
    of the model is dead -/
theorem chosen_index_in_range (home : Option Str) (targets : List Str) (experts : List Int) (src : Str)
    (i : Nat) (w : Bool) (h : choosePath home targets experts src = .chosen i w) :
    i < targets.length := by
  obtain ⟨t, ht, _⟩ := choose_sound h
  exact (List.getElem?_eq_some_iff.1 ht).1

/-! ### 2. `as_words`: formatting a Python value -/

/-- the value has the converter's own shape as far as exceptions are concerned: a multi-choice is
    not handed `None`, `int`/`float` are handed `None`, `Auto`, a bool or a number.  (Every other
    pair is answered with a word list, a RuntimeError, or `unsupported`.) -/
def ShapeOK (c : Conv) (v : PVal) : Prop := asWordsStrays_ns c v = false

instance (c : Conv) (v : PVal) : Decidable (ShapeOK c v) :=
  inferInstanceAs (Decidable (asWordsStrays_ns c v = false))

def isNoneV : PVal → Bool
  | .none => true
  | _ => false

def isScalarV : PVal → Bool
  | .none | .auto | .bool _ | .num _ => true
  | _ => false

/-- `ShapeOK` spelled out -/
theorem shapeOK_iff (c : Conv) (v : PVal) :
    ShapeOK c v ↔
      (c = .choice true → isNoneV v = false) ∧
      (∀ a, c = .int a ∨ c = .float a → isScalarV v = true) := by
  unfold ShapeOK
  cases c with
  | choice multi =>
    cases multi <;> cases v <;> simp [asWordsStrays_ns, isNoneV]
  | int a => cases v <;> simp [asWordsStrays_ns, isScalarV]
  | float a => cases v <;> simp [asWordsStrays_ns, isScalarV]
  | _ => cases v <;> simp [asWordsStrays_ns]

/-- **C16, `type.as_words(python_object, master)`.**  On a value of the converter's shape the
    result is a word list, a RuntimeError, or outside the modelled domain — for every `"%.10g"`
    oracle, every `.optional`, every master word list. -/
theorem asWords_no_stray (c : Conv) (fmt : FmtEnv) (opt : AttrVal) (mw : List Word) (v : PVal)
    (h : ShapeOK c v) (e : Err) (he : asWords c fmt opt mw v = .error e) :
    (∃ s l, e = .runtime s l) ∨ (∃ w, e = .unsupported w) :=
  (Err.benign_iff e).1 ((asWords_benign_ns c fmt opt mw v h).error he)

/-- the form asked for: no `.stray`, and no `.outOfFuel` either -/
theorem asWords_ne_stray (c : Conv) (fmt : FmtEnv) (opt : AttrVal) (mw : List Word) (v : PVal)
    (h : ShapeOK c v) (cls site : String) : asWords c fmt opt mw v ≠ .error (.stray cls site) := by
  intro he
  rcases asWords_no_stray c fmt opt mw v h _ he with ⟨s, l, h1⟩ | ⟨w, h1⟩ <;> cases h1

/-- **the characterisation is exact**: `as_words` strays if and only if the pair is excluded, and
    then with AssertionError (`assert` of the multi-choice) resp. TypeError (`"%d" % value`). -/
theorem asWords_stray_iff (c : Conv) (fmt : FmtEnv) (opt : AttrVal) (mw : List Word) (v : PVal) :
    (∃ cls site, asWords c fmt opt mw v = .error (.stray cls site)) ↔ ¬ ShapeOK c v := by
  constructor
  · rintro ⟨cls, site, h⟩ hs
    exact asWords_ne_stray c fmt opt mw v hs cls site h
  · intro hs
    have ht : asWordsStrays_ns c v = true := by
      cases hb : asWordsStrays_ns c v with
      | true => rfl
      | false => exact absurd hb hs
    have := asWords_strays_ns c fmt opt mw v ht
    cases c <;> exact ⟨_, _, this⟩

/-- which exception: AssertionError for a choice, TypeError for `int`/`float` -/
theorem asWords_stray_class (c : Conv) (fmt : FmtEnv) (opt : AttrVal) (mw : List Word) (v : PVal)
    (h : ¬ ShapeOK c v) :
    asWords c fmt opt mw v =
      .error (match c with
        | .choice _ => .stray "AssertionError" "choice_as_words"
        | _ => .stray "TypeError" "value_as_str") := by
  have ht : asWordsStrays_ns c v = true := by
    cases hb : asWordsStrays_ns c v with
    | true => rfl
    | false => exact absurd hb h
  rw [asWords_strays_ns c fmt opt mw v ht]
  cases c <;> rfl

/-- the excluded pairs really stray (they are TypeErrors/AssertionErrors of the Python code for
    ill-typed Python values — outside the property, which speaks about texts) -/
example : Phil.errOf (asWords (.int {}) (fun _ => none) .none [] (.str "x".toList))
    = some (.stray "TypeError" "value_as_str") := by decide +kernel
example : Phil.errOf (asWords (.float {}) (fun _ => none) .none [] (.list []))
    = some (.stray "TypeError" "value_as_str") := by decide +kernel
example : Phil.errOf (asWords (.int {}) (fun _ => none) .none [] (.record []))
    = some (.stray "TypeError" "value_as_str") := by decide +kernel
example : Phil.errOf (asWords (.choice true) (fun _ => none) .none [{ value := "x".toList }] .none)
    = some (.stray "AssertionError" "choice_as_words") := by decide +kernel
example : ¬ ShapeOK (.int {}) (.str "x".toList) := by decide
example : ¬ ShapeOK (.choice true) .none := by decide
example : ShapeOK (.choice false) .none := by decide
example : ShapeOK (.int {}) (.num (.int 3)) := by decide
/-- a list handed to `str` is outside the model's domain, not a stray -/
example : ShapeOK .str (.list []) ∧
    Phil.errOf (asWords .str (fun _ => none) .none [] (.list []))
      = some (.unsupported "value outside the type's Python domain") := by
  constructor
  · decide
  · decide +kernel

/-! ### 3. nested masters without `.multiple`: fetch and extract never stray -/

/-- **C16, `scope.fetch`, `TreeMaster`.**  With fuel beyond the nesting depth the only failure of
    the fetch of a nested master without `.multiple` against ANY sources (enabled definitions
    resolve, enabled scopes are named) is RuntimeError — in fact "incompatible"
    (`Phil.fetch_tree_total`). -/
theorem fetch_tree_no_stray (e : Envs) (fuel : Nat) (sm : Meta) (mkids srcs : List Obj)
    (hf : TreeMaster mkids) (hfuel : depthL mkids < fuel) (hsd : sm.disabled = false)
    (hsrc : SrcTree srcs) (err : Err) (h : fetchScope e fuel false sm mkids srcs = .error err) :
    err = .runtime "incompatible" none := by
  rw [fetch_tree_total e fuel sm mkids srcs hf hfuel hsd hsrc] at h
  split at h
  · cases h
  · cases h; rfl

/-- the same at the entry point `master.fetch(sources)` (its fuel is adequate for depth ≤ 1000) -/
theorem fetchRoot_tree_no_stray (e : Envs) (master : List Obj) (ss : List (List Obj))
    (hf : TreeMaster master) (hd : depthL master ≤ 1000) (hsrc : SrcTree ss.flatten) (err : Err)
    (h : fetchRoot e false master ss = .error err) : err = .runtime "incompatible" none := by
  rw [fetchRoot_tree e master ss hf hd hsrc] at h
  split at h
  · cases h
  · cases h; rfl

/-- **C16, `scope.extract` of a fetch result, `TreeMaster`.**  If master and sources carry at least
    one word per definition (what the parser delivers: `collectAssigned_nonempty`), extraction of
    the fetch result fails only with the converters' RuntimeErrors (or leaves the modelled domain):
    `__phil_set__`/`__phil_join__` never raise, because sibling names of the result are pairwise
    distinct and nothing is `.multiple`; extraction fuel beyond the depth is never exhausted. -/
theorem extract_tree_no_stray (e : Envs) (fuel xfuel : Nat) (sm : Meta) (mkids srcs : List Obj)
    (hf : TreeMaster mkids) (hfuel : depthL mkids < fuel) (hsd : sm.disabled = false)
    (hsrc : SrcTree srcs) (hw : wordsKidsB_ns mkids = true) (hs : SrcWords_ns srcs)
    (hx : depthL mkids + 1 < xfuel) (ro : Obj) (used : List Nat)
    (h : fetchScope e fuel false sm mkids srcs = .ok (ro, used)) (err : Err)
    (he : extractObj e xfuel ro = .error err) :
    (∃ s l, err = .runtime s l) ∨ (∃ w, err = .unsupported w) :=
  (Err.benign_iff err).1
    ((extract_of_fetch_tree_benign_ns e fuel xfuel sm mkids srcs hf hfuel hsd hsrc hw hs hx ro used h).error he)

/-- the closed form: extraction of `treeResult mkids srcs` under any scope meta data -/
theorem extract_treeResult_no_stray (e : Envs) (xfuel : Nat) (m : Meta) (mkids srcs : List Obj)
    (hf : TreeMaster mkids) (hw : wordsKidsB_ns mkids = true) (hs : SrcWords_ns srcs)
    (hx : depthL mkids + 1 < xfuel) (err : Err)
    (he : extractObj e xfuel (.scope m (treeResult mkids srcs)) = .error err) :
    (∃ s l, err = .runtime s l) ∨ (∃ w, err = .unsupported w) :=
  (Err.benign_iff err).1 ((extract_treeResult_benign_ns e xfuel m mkids srcs hf hw hs hx).error he)

/-- the general reason: `scope.extract` of ANY object whose sibling names are pairwise distinct at
    every depth, without `.multiple`, every definition carrying a word (`XObj_ns`) -/
theorem extract_distinct_no_stray (e : Envs) (fuel : Nat) (o : Obj) (hx : XObj_ns o)
    (hd : depthT o < fuel) (err : Err) (he : extractObj e fuel o = .error err) :
    (∃ s l, err = .runtime s l) ∨ (∃ w, err = .unsupported w) :=
  (Err.benign_iff err).1 ((extract_xobj_benign_ns e fuel o hx hd).error he)

/-- `master.fetch(sources)` followed by `.extract()`, hypotheses in executable form (for parsed
    instances): no failure other than RuntimeError / outside the domain at either step -/
theorem fetch_extract_checked_no_stray (e : Envs) (master : List Obj) (ss : List (List Obj))
    (hm : treeMasterB master = true) (hd : depthL master ≤ 1000) (hw : wordsKidsB_ns master = true)
    (hs : srcCheck ss.flatten = true) (hsw : srcWordsB_ns ss.flatten = true) :
    (∀ err, fetchRoot e false master ss = .error err → err = .runtime "incompatible" none) ∧
    (∀ ro used, fetchRoot e false master ss = .ok (ro, used) →
      ∀ xfuel, depthL master + 1 < xfuel → ∀ err, extractObj e xfuel ro = .error err →
        (∃ s l, err = .runtime s l) ∨ (∃ w, err = .unsupported w)) := by
  have hf := treeMasterB_sound master hm
  have hsrc := (srcCheck_sound ss.flatten hs).tree
  refine ⟨fun err h => fetchRoot_tree_no_stray e master ss hf hd hsrc err h, ?_⟩
  intro ro used h xfuel hx err he
  exact extract_tree_no_stray e _ xfuel _ master ss.flatten hf (fetchRoot_fuel_tree master hd) rfl hsrc hw
    (srcWordsB_sound_ns _ hsw) hx ro used h err he

/-! ### 4. the stray sites reachable in general -/

/-- the (exception class, site) pairs of the model's `__phil_join__` -/
def philJoinSites : List (String × String) :=
  [("AssertionError", "phil_join"), ("AttributeError", "phil_join")]
/-- … of `__phil_set__` -/
def philSetSites : List (String × String) := ("AttributeError", "phil_set_append") :: philJoinSites
/-- … of `scope.extract` / `definition.extract` -/
def extractSites : List (String × String) := ("AssertionError", "bool_from_words") :: philSetSites
/-- … of `scope.format` / `definition.format` -/
def formatSites : List (String × String) :=
  [("TypeError", "value_as_str"), ("AssertionError", "choice_as_words"),
   ("TypeError", "format_iterate"), ("TypeError", "format_len"), ("AttributeError", "phil_get")]
/-- … of `scope.fetch` (which extracts and formats candidates of `.multiple` objects and, in diff
    mode, of every definition) -/
def fetchSites : List (String × String) :=
  ("AssertionError", "choice_fetch") :: (extractSites ++ formatSites)

example : philJoinSites = philJoinSites_ns ∧ philSetSites = philSetSites_ns ∧
    extractSites = extractSites_ns ∧ formatSites = formatSites_ns ∧ fetchSites = fetchSites_ns :=
  ⟨rfl, rfl, rfl, rfl, rfl⟩

/-- the ten sites, spelled out -/
example : fetchSites =
    [("AssertionError", "choice_fetch"), ("AssertionError", "bool_from_words"),
     ("AttributeError", "phil_set_append"), ("AssertionError", "phil_join"),
     ("AttributeError", "phil_join"), ("TypeError", "value_as_str"),
     ("AssertionError", "choice_as_words"), ("TypeError", "format_iterate"),
     ("TypeError", "format_len"), ("AttributeError", "phil_get")] := rfl

theorem philJoin_stray_sites (fuel : Nat) (self other : List (Str × PVal)) (cls site : String)
    (h : philJoin fuel self other = .error (.stray cls site)) : (cls, site) ∈ philJoinSites :=
  philJoin_strayIn_ns fuel self other _ h

theorem philSet_stray_sites (fs : List (Str × PVal)) (name : Str) (optional : AttrVal) (multiple : Bool)
    (x : XVal) (cls site : String)
    (h : philSet fs name optional multiple x = .error (.stray cls site)) : (cls, site) ∈ philSetSites :=
  philSet_strayIn_ns fs name optional multiple x _ h

/-- **`scope.extract`, any object, any fuel** -/
theorem extractObj_stray_sites (e : Envs) (fuel : Nat) (o : Obj) (cls site : String)
    (h : extractObj e fuel o = .error (.stray cls site)) : (cls, site) ∈ extractSites :=
  extractObj_strayIn_ns e fuel o _ h

/-- **`scope.format`, any object, any Python value, any fuel** -/
theorem formatObj_stray_sites (e : Envs) (fuel : Nat) (o : Obj) (v : PVal) (cls site : String)
    (h : formatObj e fuel o v = .error (.stray cls site)) : (cls, site) ∈ formatSites :=
  formatObj_strayIn_ns e fuel o v _ h

/-- `as_str()` with default options never fails at all -/
theorem showObj_default_total (o : Obj) (merged : List Str) (p : Str) :
    ∃ l, showObj {} o merged p = .ok l := showObj_default_ok_ns o merged p

/-- `master.extract_format(source=candidate).as_str()` -/
theorem extractFormatStr_stray_sites (e : Envs) (fuel : Nat) (master cand : Obj) (cls site : String)
    (h : extractFormatStr e fuel master cand = .error (.stray cls site)) :
    (cls, site) ∈ extractSites ++ formatSites :=
  extractFormatStr_strayIn_ns e fuel master cand _ h

/-- **`scope.fetch`, any fuel, diff or not, any master objects, any sources** -/
theorem fetchScope_stray_sites (e : Envs) (fuel : Nat) (diff : Bool) (sm : Meta)
    (mkids combined : List Obj) (cls site : String)
    (h : fetchScope e fuel diff sm mkids combined = .error (.stray cls site)) :
    (cls, site) ∈ fetchSites :=
  fetchScope_strayIn_ns e fuel diff sm mkids combined _ h

/-- **`master.fetch(sources, diff)` on parsed roots**: every escaping non-RuntimeError of the model
    is one of the ten listed (class, site) pairs — the model-side anchor of the harness's
    completeness-by-correspondence claim. -/
theorem fetchRoot_stray_sites (e : Envs) (diff : Bool) (master : List Obj) (sources : List (List Obj))
    (cls site : String) (h : fetchRoot e diff master sources = .error (.stray cls site)) :
    (cls, site) ∈ fetchSites :=
  fetchRoot_strayIn_ns e diff master sources _ h

/-- fetch, then extract the result -/
theorem fetchRoot_extract_stray_sites (e : Envs) (diff : Bool) (master : List Obj)
    (sources : List (List Obj)) (xfuel : Nat) (cls site : String)
    (h : (match fetchRoot e diff master sources with
          | .error err => (.error err : R PVal)
          | .ok (ro, _) => extractObj e xfuel ro) = .error (.stray cls site)) :
    (cls, site) ∈ fetchSites := by
  split at h
  · rename_i err herr
    cases h
    exact fetchRoot_stray_sites e diff master sources cls site herr
  · have := extractObj_stray_sites e xfuel _ cls site h
    exact List.mem_cons_of_mem _ (List.mem_append_left _ this)

/-! ### 5. instances through the parser -/

def objsX (t : String) : List Obj :=
  match parseObjs t.toList with
  | .ok m => m
  | .error _ => []

def rootX (t : String) : Obj := .scope { name := [], id := some 0 } (objsX t)

/-- error of `master.fetch(source)` -/
def fetchErrX (diff : Bool) (m s : String) : Option Err :=
  Phil.errOf (fetchRoot env12 diff (objsX m) [objsX s])

/-- error of `master.fetch(source).extract()` (`unsupported` if the fetch itself fails) -/
def fetchExtractErrX (m s : String) : Option Err :=
  match fetchRoot env12 false (objsX m) [objsX s] with
  | .error _ => some (.unsupported "fetch failed")
  | .ok (ro, _) => Phil.errOf (extractObj env12 50 ro)

def argKindX (o : ArgOutcome) : String :=
  match o with
  | .ok _ => "ok"
  | .sorry_ k _ => "refusal:" ++ k
  | .runtime (.runtime s _) => "runtime:" ++ s
  | .runtime (.unsupported w) => "unsupported:" ++ w
  | .runtime _ => "OTHER"

/-- a nested master `a (int); s { b (bool); t { c } }` -/
def masterX : List Obj := objsX "a = 1\n.type = int\ns {\n  b = yes\n  .type = bool\n  t {\n    c = None\n  }\n}\n"
def targetsX : List Str := (allDefinitions masterX).map (·.1)
def expertsX : List Int := expertLevels masterX

/-- the instance satisfies the executable hypotheses of `fetch_extract_checked_no_stray` -/
example : (masterX.length == 2 && treeMasterB masterX && depthL masterX == 2 && wordsKidsB_ns masterX &&
    targetsX.map String.ofList == ["a", "s.b", "s.t.c"]) = true := by
  decide +kernel

/-- user mistakes in a parameter file against that master: a non-number, a non-bool → RuntimeError
    from the converter at extraction -/
example : fetchExtractErrX "a = 1\n.type = int\ns {\n  b = yes\n  .type = bool\n  t {\n    c = None\n  }\n}\n"
    "a = true\n" = some (.runtime "numeric_expected" (some 1)) := by
  decide +kernel
example : fetchExtractErrX "a = 1\n.type = int\ns {\n  b = yes\n  .type = bool\n  t {\n    c = None\n  }\n}\n"
    "s.b = maybe\n" = some (.runtime "bool_expected" (some 1)) := by
  decide +kernel
/-- a scope where the master has a definition, a definition where it has a scope → RuntimeError -/
example : fetchErrX false "a = 1\n.type = int\ns {\n  b = yes\n  .type = bool\n  t {\n    c = None\n  }\n}\n"
    "s.b { x = 1 }\n" = some (.runtime "incompatible" none) := by
  decide +kernel
example : fetchErrX false "a = 1\n.type = int\ns {\n  b = yes\n  .type = bool\n  t {\n    c = None\n  }\n}\n"
    "s.t = 3\n" = some (.runtime "incompatible" none) := by
  decide +kernel
/-- a well-formed file goes through both steps -/
example : fetchExtractErrX "a = 1\n.type = int\ns {\n  b = yes\n  .type = bool\n  t {\n    c = None\n  }\n}\n"
    "s { b = no\n t.c = 5 }\na = 2\nzz = 1\n" = none := by
  decide +kernel

/-- the theorem applied to the parsed instance and a parsed source (all hypotheses discharged by
    kernel evaluation) -/
example (ro : Obj) (used : List Nat)
    (h : fetchRoot env12 false masterX [objsX "s { b = maybe\n t.c = 5 }\na = 2\nzz = 1\n"] = .ok (ro, used))
    (err : Err) (he : extractObj env12 50 ro = .error err) :
    (∃ s l, err = .runtime s l) ∨ (∃ w, err = .unsupported w) := by
  have hfl : ([objsX "s { b = maybe\n t.c = 5 }\na = 2\nzz = 1\n"] : List (List Obj)).flatten
      = objsX "s { b = maybe\n t.c = 5 }\na = 2\nzz = 1\n" := by simp
  have := (fetch_extract_checked_no_stray env12 masterX [objsX "s { b = maybe\n t.c = 5 }\na = 2\nzz = 1\n"]
    (by decide +kernel) (by decide +kernel) (by decide +kernel)
    (by rw [hfl]; decide +kernel) (by rw [hfl]; decide +kernel)).2 ro used h 50 (by decide +kernel) err he
  exact this

/-- the argument interpreter on that master: every kind of answer -/
example : argKindX (processArg none targetsX expertsX "c=7".toList) = "ok" := by decide +kernel
example : argKindX (processArg none targetsX expertsX "s.b=maybe".toList) = "ok" := by decide +kernel
example : argKindX (processArg none targetsX expertsX "q=1".toList) = "refusal:unknown" := by decide +kernel
example : argKindX (processArg none targetsX expertsX "s=1".toList) = "refusal:ambiguous" := by decide +kernel
example : argKindX (processArg none targetsX expertsX "a=".toList) = "refusal:arg_syntax" := by decide +kernel
example : argKindX (processArg none targetsX expertsX "a {".toList) = "refusal:arg_syntax" := by decide +kernel
example : argKindX (processArg none targetsX expertsX "a='".toList) = "refusal:arg_syntax" := by decide +kernel
example : argKindX (processArg none targetsX expertsX "!a=1".toList) = "refusal:no_effect" := by decide +kernel
example : argKindX (processArg none targetsX expertsX "".toList) = "refusal:no_effect" := by decide +kernel
example : argKindX (processArg none targetsX expertsX "a=1\n.expert_level=1+1".toList)
    = "unsupported:attribute value needs eval" := by decide +kernel
/-- expert levels shorter than the target list (no tie-break possible): still no stray -/
example : argKindX (processArg none targetsX [] "s=1".toList) = "refusal:ambiguous" := by decide +kernel

/-! ### every listed site is reached: a smallest model input for each

  First by a direct call (ill-typed Python values, empty word lists: outside the property) … -/

def defX (n : String) (attrs : Attrs) (ws : List String) : Obj :=
  .defn { name := n.toList, attrs := attrs } (ws.map (fun s => { value := s.toList }))
def scopeX (n : String) (attrs : Attrs) (kids : List Obj) : Obj :=
  .scope { name := n.toList, attrs := attrs } kids

/-- `bool_from_words(words=[])`: `assert len(words) > 0` -/
example : Phil.errOf (extractObj envNone 1 (defX "a" [("type", .conv .bool)] []))
    = some (.stray "AssertionError" "bool_from_words") := by decide +kernel
/-- `__phil_join__`: a `scope_extract_list` joined with something else -/
example : Phil.errOf (philJoin 1 [("k".toList, .multi .none [])] [("k".toList, .none)])
    = some (.stray "AssertionError" "phil_join") := by decide +kernel
/-- `__phil_join__`: a `scope_extract` joined with a value that has no `__dict__` -/
example : Phil.errOf (philJoin 1 [("k".toList, .record [])] [("k".toList, .none)])
    = some (.stray "AttributeError" "phil_join") := by decide +kernel
/-- `__phil_set__(multiple=True)`: `.append` on a `scope_extract` -/
example : Phil.errOf (philSet [("x".toList, .record [])] "x".toList .none true (.val .none))
    = some (.stray "AttributeError" "phil_set_append") := by decide +kernel
/-- `"%d" % "x"` -/
example : Phil.errOf (formatObj envNone 2 (scopeX "" [] [defX "a" [("type", .conv (.int {}))] ["1"]])
      (.record [("a".toList, .str "x".toList)]))
    = some (.stray "TypeError" "value_as_str") := by decide +kernel
/-- multi-choice handed `None` -/
example : Phil.errOf (formatObj envNone 2 (scopeX "" [] [defX "a" [("type", .conv (.choice true))] ["x"]])
      (.record [("a".toList, .none)]))
    = some (.stray "AssertionError" "choice_as_words") := by decide +kernel
/-- `master.format(True)`: `for … in True` -/
example : Phil.errOf (formatObj envNone 2 (scopeX "" [] [defX "a" [] ["1"]]) (.bool true))
    = some (.stray "TypeError" "format_iterate") := by decide +kernel
/-- `len(True)` for a `.multiple` object -/
example : Phil.errOf (formatObj envNone 2 (scopeX "" [] [defX "a" [("multiple", .bool true)] ["1"]])
      (.record [("a".toList, .bool true)]))
    = some (.stray "TypeError" "format_len") := by decide +kernel
/-- `master.format([True])`: `True.__phil_get__` -/
example : Phil.errOf (formatObj envNone 2 (scopeX "" [] [defX "a" [] ["1"]]) (.list [.bool true]))
    = some (.stray "AttributeError" "phil_get") := by decide +kernel
/-- `choice_converters.fetch`: `assert not is_plain_none(master.words)` -/
example : Phil.errOf (fetchValue (defX "a" [("type", .conv (.choice false))] ["None"]) (defX "a" [] ["x"]))
    = some (.stray "AssertionError" "choice_fetch") := by decide +kernel

/-! … then through the parser, where a site is reachable from text at all.  Every one of these
    needs a master that declares one name twice with conflicting kinds or types (or a choice whose
    value is `None`): the parser and `master_active_objects` accept such masters.  With a master
    whose sibling names are distinct the theorems of §3 exclude all of them. -/

/-- a choice definition whose master value is `None`/`Auto`, any source value -/
example : fetchErrX false "a = None\n.type = choice\n" "a = x\n"
    = some (.stray "AssertionError" "choice_fetch") := by decide +kernel
example : fetchErrX false "a = Auto\n.type = choice\n" "a = x\n"
    = some (.stray "AssertionError" "choice_fetch") := by decide +kernel
/-- `a.b` declared as a scope, then as a definition: `parse(text).extract()` and
    `master.fetch().extract()` -/
example : Phil.errOf (extractObj env12 50 (rootX "a { b { c = 1 } }\na { b = 1 }\n"))
    = some (.stray "AttributeError" "phil_join") := by decide +kernel
example : fetchExtractErrX "a { b { c = 1 } }\na { b = 1 }\n" ""
    = some (.stray "AttributeError" "phil_join") := by decide +kernel
/-- the other order is harmless -/
example : Phil.errOf (extractObj env12 50 (rootX "a { b = 1 }\na { b { c = 1 } }\n")) = none := by
  decide +kernel
/-- `a.k` declared `.multiple`, then not -/
example : fetchExtractErrX "a { k\n.multiple = True\n{ x = 1 } }\na { k { x = 1 } }\n" ""
    = some (.stray "AssertionError" "phil_join") := by decide +kernel
/-- `x` declared as a plain scope, then as a `.multiple` scope -/
example : fetchExtractErrX "x { a = 1 }\nx\n.multiple = True\n{ a = 2 }\n" ""
    = some (.stray "AttributeError" "phil_set_append") := by decide +kernel
/-- the same three inside a `.multiple` scope escape from `master.fetch()` itself (the block is
    extracted and formatted for the master key) -/
example : fetchErrX false "m\n.multiple = True\n{\na { b { c = 1 } }\na { b = 1 }\n}\n" ""
    = some (.stray "AttributeError" "phil_join") := by decide +kernel
example : fetchErrX false "m\n.multiple = True\n{\na { k\n.multiple = True\n{ x = 1 } }\na { k { x = 1 } }\n}\n" ""
    = some (.stray "AssertionError" "phil_join") := by decide +kernel
example : fetchErrX false "m\n.multiple = True\n{\nx { a = 1 }\nx\n.multiple = True\n{ a = 2 }\n}\n" ""
    = some (.stray "AttributeError" "phil_set_append") := by decide +kernel
/-- `s.a` declared `int`, then `str`, inside a `.multiple` scope: the later value is formatted with
    the earlier type -/
example : fetchErrX false "m\n.multiple = True\n{\ns { a = 1\n.type = int\n}\ns { a = x\n.type = str\n}\n}\n" ""
    = some (.stray "TypeError" "value_as_str") := by decide +kernel

end Phil.C16
