/-
  Phil.Props.Translated4 — the translated printer decisions composed into `scope.show` (C19), and the translated
  `full_path` tied to the `__phil_path__` of C18's theorems (C18).

  1. `showScope_hidden` / `showScope_shown`: `showObj` on a scope whose `.expert_level` is `None` or an int returns
     `.ok []` exactly when one of the TRANSLATED gates of `scope.show` (`Gen.scope_template_gate`,
     `Gen.scope_expert_gate`) is true; otherwise it is the header/body form `showScopeBodyT`.
  2. `phil_path_eq_full_path`: the path an extracted node reports (`philPath (chainOf …) none`, C18) is
     `Gen.full_path` of the master scope it was extracted from; `scope_paths_eq_full_paths` /
     `fetchRoot_extract_node_paths_full_path`: the same for ALL nodes of an extraction at once.
-/
import Phil.Props.Translated3
import Phil.Props.C18Tree
namespace Phil.Translated4
open Phil Phil.Translated3 Phil.C18

/-! ### 1. scope.show -/

/-- the rest of `scope.show` after the two gates: nameless scope → its objects; a scope whose first object merges
    names → the objects with the name pushed on `merged`; otherwise header (with attributes), body, closing brace -/
def showScopeBodyT (o : ShowOpts) (m : Meta) (objs : List Obj) (merged : List Str) (prefix_ : Str) : R (List Str) :=
  if m.name.isEmpty then showObjs o objs merged prefix_
  else
    let firstMerges := match objs with
      | c :: _ => c.meta.mergeNames
      | [] => false
    if firstMerges then showObjs o objs (merged ++ [m.name]) prefix_
    else
      let hash : Str := if m.disabled then ['!'] else []
      match showAttributes scopeAttrNames m.attrs prefix_ o.level o.width with
      | .error e => .error e
      | .ok attrs =>
        let mergedName := joinWith ['.'] (merged ++ [m.name])
        let head := if attrs.isEmpty then [prefix_ ++ hash ++ mergedName ++ " {".toList]
                    else [prefix_ ++ hash ++ mergedName] ++ attrs ++ [prefix_ ++ ['{']]
        match showObjs o objs [] (prefix_ ++ "  ".toList) with
        | .error e => .error e
        | .ok body => .ok (head ++ body ++ [prefix_ ++ ['}']])

/-- `scope.show` as the two gates followed by the body (all scopes, no hypothesis) -/
theorem showObj_scope_gates (o : ShowOpts) (m : Meta) (objs : List Obj) (merged : List Str) (prefix_ : Str) :
    showObj o (.scope m objs) merged prefix_ =
      if m.tmpl < 0 && o.level < 2 then .ok []
      else
        match expertHidden (m.attrs.get "expert_level") o.expert with
        | .error e => .error e
        | .ok true => .ok []
        | .ok false => showScopeBodyT o m objs merged prefix_ := by
  cases objs <;> rfl

/-- a scope whose `expert_level` is `None` or an int prints NOTHING (not even its braces, and none of its
    objects) when one of the translated gates of `scope.show` holds … -/
theorem showScope_hidden (o : ShowOpts) (m : Meta) (objs : List Obj) (merged : List Str) (prefix_ : Str)
    (e : Option Int) (he : m.attrs.get "expert_level" = optIntAttr e)
    (h : (Gen.scope_template_gate m.tmpl o.level || Gen.scope_expert_gate e o.expert) = true) :
    showObj o (.scope m objs) merged prefix_ = .ok [] := by
  rw [showObj_scope_gates, he, scope_expert_gate_eq]
  rw [scope_template_gate_eq] at h
  simp only [Bool.or_eq_true, Bool.and_eq_true, decide_eq_true_eq] at h
  by_cases h1 : m.tmpl < 0 ∧ o.level < 2
  · simp [h1]
  · have h3 : Gen.scope_expert_gate e o.expert = true := by
      rcases h with h | h
      · exact absurd h h1
      · exact h
    simp [h1, h3]

/-- … and otherwise its header/body form -/
theorem showScope_shown (o : ShowOpts) (m : Meta) (objs : List Obj) (merged : List Str) (prefix_ : Str)
    (e : Option Int) (he : m.attrs.get "expert_level" = optIntAttr e)
    (h : (Gen.scope_template_gate m.tmpl o.level || Gen.scope_expert_gate e o.expert) = false) :
    showObj o (.scope m objs) merged prefix_ = showScopeBodyT o m objs merged prefix_ := by
  rw [showObj_scope_gates, he, scope_expert_gate_eq]
  simp only [Bool.or_eq_false_iff] at h
  obtain ⟨h1, h3⟩ := h
  rw [scope_template_gate_eq] at h1
  simp only [h1, h3, Bool.false_eq_true, if_false]

/-- the two together: on the `None`-or-int class, "prints nothing because of a gate" is decided by the translated
    expression; when the gates are false the result is the body, whatever it is -/
theorem showScope_gate_iff (o : ShowOpts) (m : Meta) (objs : List Obj) (merged : List Str) (prefix_ : Str)
    (e : Option Int) (he : m.attrs.get "expert_level" = optIntAttr e) :
    showObj o (.scope m objs) merged prefix_
      = if Gen.scope_template_gate m.tmpl o.level || Gen.scope_expert_gate e o.expert then .ok []
        else showScopeBodyT o m objs merged prefix_ := by
  cases h : (Gen.scope_template_gate m.tmpl o.level || Gen.scope_expert_gate e o.expert)
  · rw [showScope_shown o m objs merged prefix_ e he h]; rfl
  · rw [showScope_hidden o m objs merged prefix_ e he h]; rfl

/-- a named scope with a non-merging first object and no printed attributes: header line, body, brace -/
theorem showScopeBodyT_plain (o : ShowOpts) (m : Meta) (x : Obj) (xs : List Obj) (merged : List Str) (prefix_ : Str)
    (hn : m.name.isEmpty = false) (hm : x.meta.mergeNames = false)
    (ha : showAttributes scopeAttrNames m.attrs prefix_ o.level o.width = .ok [])
    (body : List Str) (hb : showObjs o (x :: xs) [] (prefix_ ++ "  ".toList) = .ok body) :
    showScopeBodyT o m (x :: xs) merged prefix_
      = .ok ([prefix_ ++ (if m.disabled then ['!'] else []) ++ joinWith ['.'] (merged ++ [m.name]) ++ " {".toList]
              ++ body ++ [prefix_ ++ ['}']]) := by
  unfold showScopeBodyT
  simp only [hn, hm, ha, hb, Bool.false_eq_true, if_false]
  rfl

/-- the `None`-or-int hypothesis is sharp: with a string in `.expert_level` and a non-negative requested level
    `scope.show` raises (Python: TypeError from `>`), so no Boolean gate describes it -/
theorem showScope_str_expert_raises :
    showObj { expert := some 0 } (.scope { name := "s".toList, attrs := [("expert_level", .str "x".toList)] } [])
      [] [] = .error (.stray "TypeError" "expert_level_compare") := by rfl

/-! ### 2. full_path and `__phil_path__` -/

/-- `".".join(l)` is C18's `dotted l` -/
theorem joinWith_dot_eq_dotted : ∀ (l : List Str), joinWith ['.'] l = dotted l
  | [] => rfl
  | [_] => rfl
  | x :: y :: rest => by
    show x ++ ['.'] ++ joinWith ['.'] (y :: rest) = x ++ '.' :: dotted (y :: rest)
    rw [joinWith_dot_eq_dotted (y :: rest)]
    simp

/-- a parent chain that leads through the non-empty names `q` (innermost first) to the nameless root -/
theorem climbNames_to_root (q : List Str) (hq : ∀ n ∈ q, n ≠ []) :
    ∀ (ch : PChain), ch.map (·.name) = q ++ [[]] → climbNames ch = q := by
  induction q with
  | nil =>
    intro ch h
    cases ch with
    | nil => simp at h
    | cons f rest =>
      simp only [List.map_cons, List.nil_append, List.cons.injEq] at h
      simp [climbNames, h.1]
  | cons a q ih =>
    intro ch h
    cases ch with
    | nil => simp at h
    | cons f rest =>
      simp only [List.map_cons, List.cons_append, List.cons.injEq] at h
      obtain ⟨h1, h2⟩ := h
      subst h1
      have ha : f.name ≠ [] := hq f.name (by simp)
      have hf : f.name.isEmpty = false := nonempty_isEmpty ha
      simp only [climbNames, hf, Bool.false_eq_true, if_false]
      rw [ih (fun n hn => hq n (by simp [hn])) rest h2]

/-- **`full_path` is the dotted path.**  For an object named `name` whose parent chain leads through the scopes
    `p` (root first, all names non-empty) to the nameless root, the translated `full_path` is `p₁.….p_k.name` -/
theorem full_path_eq_dotted (name : Str) (p : List Str) (hp : ∀ n ∈ p, n ≠ []) (ch : PChain)
    (hch : ch.map (·.name) = p.reverse ++ [[]]) :
    Gen.full_path name (ch.map (·.name)) = dotted (p ++ [name]) := by
  rw [full_path_eq, fullPathOf, climbNames_to_root p.reverse (by simpa using hp) ch hch, joinWith_dot_eq_dotted]
  simp

/-- **`__phil_path__` is `full_path`.**  The extracted node reached from the root through the names `p ++ [name]`
    (its `__phil_name__` chain is `chainOf (name :: p.reverse)`) reports the `full_path()` of the master scope
    `name` whose parents are the scopes `p` — any depth, all non-empty names -/
theorem phil_path_eq_full_path (name : Str) (hn : name ≠ []) (p : List Str) (hp : ∀ n ∈ p, n ≠ []) (ch : PChain)
    (hch : ch.map (·.name) = p.reverse ++ [[]]) :
    philPath (chainOf (name :: p.reverse)) none = Gen.full_path name (ch.map (·.name)) := by
  rw [full_path_eq_dotted name p hp ch hch,
    phil_path_correct (name :: p.reverse) (by
      intro n h
      simp only [List.mem_cons, List.mem_reverse] at h
      rcases h with rfl | h
      · exact hn
      · exact hp n h) (by simp)]
  simp

/-- … and the path it reports for one of its parameters `o` is the `full_path()` of the master definition `o`
    in that scope -/
theorem phil_path_parameter_eq_full_path (name : Str) (hn : name ≠ []) (p : List Str) (hp : ∀ n ∈ p, n ≠ [])
    (ch : PChain) (hch : ch.map (·.name) = p.reverse ++ [[]]) (kids : List Obj) (o : Str) :
    philPath (chainOf (name :: p.reverse)) (some o)
      = Gen.full_path o (({ name := name, objs := kids } :: ch : PChain).map (·.name)) := by
  have hp' : ∀ n ∈ p ++ [name], n ≠ [] := by
    intro n h
    simp only [List.mem_append, List.mem_singleton] at h
    rcases h with h | rfl
    · exact hp n h
    · exact hn
  rw [full_path_eq_dotted o (p ++ [name]) hp' _ (by simp [hch]),
    phil_path_of_parameter (name :: p.reverse) (by
      intro n h
      simp only [List.mem_cons, List.mem_reverse] at h
      rcases h with rfl | h
      · exact hn
      · exact hp n h) (by simp)]
  simp

/-- the root node: `__phil_path__()` is `""`, the `full_path()` of the root scope (name `""`, no parent) -/
theorem phil_path_root_eq_full_path : philPath (chainOf []) none = Gen.full_path [] [] := by decide

/-! #### all nodes of an extraction at once -/

mutual
/-- the scopes of a linked tree that extract to a `scope_extract` node (enabled, not a template; nothing below a
    disabled scope or a template), pre-order -/
def liveScopesObjP : PObj → List PObj
  | .defn _ _ _ => []
  | .scope m kids par => if !m.disabled && m.tmpl == 0 then .scope m kids par :: liveScopesP kids else []
def liveScopesP : List PObj → List PObj
  | [] => []
  | o :: os => liveScopesObjP o ++ liveScopesP os
end

/-- `o.full_path()` through the translated function -/
def genFullPath (o : PObj) : Str := Gen.full_path o.name (o.par.map (·.name))

mutual
theorem scopePathsObj_eq_full_paths : ∀ (o : Obj) (p : List Str) (ch : PChain), ScopeNamed_st o →
    (∀ n ∈ p, n ≠ []) → ch.map (·.name) = p.reverse ++ [[]] →
    scopePathsObj_st o p = (liveScopesObjP (annotObj ch o)).map genFullPath
  | .defn _ _, _, _, _, _, _ => by rw [scopePathsObj_st, annotObj, liveScopesObjP]; rfl
  | .scope m kids, p, ch, hs, hp, hch => by
    rw [ScopeNamed_st] at hs
    rw [scopePathsObj_st, annotObj, liveScopesObjP]
    split
    · have hp' : ∀ n ∈ p ++ [m.name], n ≠ [] := by
        intro n h
        simp only [List.mem_append, List.mem_singleton] at h
        rcases h with h | rfl
        · exact hp n h
        · exact hs.1
      rw [List.map_cons, scopePathsKids_eq_full_paths kids (p ++ [m.name])
        ({ name := m.name, objs := kids } :: ch) hs.2 hp' (by simp [hch])]
      congr 1
      exact (full_path_eq_dotted m.name p hp ch hch).symm
    · rfl
theorem scopePathsKids_eq_full_paths : ∀ (l : List Obj) (p : List Str) (ch : PChain), ScopeNamedKids_st l →
    (∀ n ∈ p, n ≠ []) → ch.map (·.name) = p.reverse ++ [[]] →
    scopePathsKids_st l p = (liveScopesP (annotL ch l)).map genFullPath
  | [], _, _, _, _, _ => by rw [scopePathsKids_st, annotL, liveScopesP]; rfl
  | o :: os, p, ch, hs, hp, hch => by
    rw [ScopeNamedKids_st] at hs
    rw [scopePathsKids_st, annotL, liveScopesP, List.map_append,
      scopePathsObj_eq_full_paths o p ch hs.1 hp hch, scopePathsKids_eq_full_paths os p ch hs.2 hp hch]
end

/-- the root scope `parse` returns, with its parent links -/
def rootP (objs : List Obj) : PObj := .scope { name := [], id := some 0 } (annotL (rootChain objs) objs) []

/-- **`scope_paths_eq_full_paths`.**  C18's list of node paths of a tree (`scopePaths kids []`: the root, then every
    enabled non-template scope, pre-order) is the list of the TRANSLATED `full_path()` of those scope objects of
    the parsed, parent-linked tree — all trees with named scopes, any depth -/
theorem scope_paths_eq_full_paths (kids : List Obj) (hn : ScopeNamedKids_st kids) :
    scopePaths kids [] = (liveScopesObjP (rootP kids)).map genFullPath := by
  unfold scopePaths rootP
  rw [liveScopesObjP]
  simp only [Bool.not_false, Bool.true_and, show ((0 : Int) == 0) = true from rfl, if_true, List.map_cons]
  rw [scopePathsKids_eq_full_paths kids [] (rootChain kids) hn (by simp) (by simp [rootChain])]
  rfl

/-- **the extracted object's node paths are the master's full paths.**  For a nested master without `.multiple`
    (`TreeMaster`, no templates, depth ≤ 1000) and ARBITRARY sources: if `master.fetch(sources)` and `.extract()`
    succeed, then the `__phil_path__()` of ALL `scope_extract` nodes of the result, pre-order, are the translated
    `full_path()` of the master's scope objects, in document order -/
theorem fetchRoot_extract_node_paths_full_path (e : Envs) (master : List Obj) (ss : List (List Obj))
    (hf : TreeMaster master) (hd : depthL master ≤ 1000) (hsrc : SrcTree ss.flatten)
    (hlive : scopesLiveKidsB_st master = true) (hnamed : ScopeNamedKids_st master)
    (xfuel fuel' : Nat) (hx : depthL master + 1 < xfuel) (hd' : depthL master < fuel')
    (ro : Obj) (used : List Nat) (v : PVal)
    (h : fetchRoot e false master ss = .ok (ro, used)) (hv : extractObj e xfuel ro = .ok v) :
    nodePaths fuel' [some []] v = (liveScopesObjP (rootP master)).map genFullPath := by
  rw [fetchRoot_extract_node_paths' e master ss hf hd hsrc hlive xfuel fuel' hx hd' ro used v h hv,
    scope_paths_eq_full_paths master hnamed]

/-- the non-empty-name hypothesis of `full_path_eq_dotted` is sharp: below a scope with an EMPTY name `full_path`
    stops climbing, so it is not the dotted join of all names (the parser never produces an empty name) -/
theorem full_path_stops_at_empty_name :
    Gen.full_path "b".toList ["".toList, "a".toList, []] = "b".toList
    ∧ dotted ["a".toList, "".toList, "b".toList] = "a..b".toList := by decide

/-! #### without any hypothesis on the names

`__phil_path__` stops at a parent whose `__phil_name__` is empty exactly as `full_path` stops at a scope with an
empty name, so the two agree on EVERY chain of names (not only the parser's). -/

/-- the names `full_path_climb` collects -/
def climbS : List Str → List Str
  | [] => []
  | n :: rest => if n == ([] : Str) then [] else n :: climbS rest

theorem full_path_climb_climbS (ps acc : List Str) : Gen.full_path_climb ps acc = acc ++ climbS ps := by
  induction ps generalizing acc with
  | nil => simp [Gen.full_path_climb, climbS]
  | cons n rest ih =>
    simp only [Gen.full_path_climb, climbS]
    split
    · simp
    · rw [ih]; simp

theorem phil_path_climbS (ps : List Str) : ∀ (name : Str),
    philPath ((name :: ps).map some) none = dotted ((name :: climbS ps).reverse) := by
  induction ps with
  | nil => intro name; simp [philPath, climbS, dotted]
  | cons p rest ih =>
    intro name
    cases p with
    | nil => simp [philPath, climbS, dotted]
    | cons c cs =>
      have hstep := philPath_step name (c :: cs) (rest.map some) rfl none
      simp only [List.map_cons] at hstep ih ⊢
      rw [hstep, ih (c :: cs)]
      have h1 : ((c :: cs) == ([] : Str)) = false := rfl
      simp only [climbS, h1, Bool.false_eq_true, if_false]
      have hrev : (name :: (c :: cs) :: climbS rest).reverse = ((c :: cs) :: climbS rest).reverse ++ [name] := by simp
      rw [hrev, dotted_snoc _ _ (by simp)]
      simp

/-- **`__phil_path__()` = `full_path()` on all name chains**: a node whose `__phil_name__` is `name` and whose
    ancestors' names are `parents` (innermost first; any strings, empty ones included, any length) reports the
    translated `full_path` of an object with that name and those `primary_parent_scope` names -/
theorem phil_path_eq_full_path_all (name : Str) (parents : List Str) :
    philPath ((name :: parents).map some) none = Gen.full_path name parents := by
  rw [phil_path_climbS]
  unfold Gen.full_path Py.join
  simp only [full_path_climb_climbS, joinWith_dot_eq_dotted]
  rfl

/-! concrete instances: the hypotheses are satisfiable on parsed input -/

/-- `showScope_hidden` (requested expert level 1) and `showScope_shown` (level 2) apply to a parsed scope with
    `.expert_level = 2` -/
example : okAnd3 (parseObjs "s\n  .expert_level = 2\n{\n  a = 1\n}\n".toList) (fun objs => match objs with
    | [.scope m _] => decide (m.attrs.get "expert_level" = optIntAttr (some 2))
        && (Gen.scope_template_gate m.tmpl 0 || Gen.scope_expert_gate (some 2) (some 1))
        && !(Gen.scope_template_gate m.tmpl 0 || Gen.scope_expert_gate (some 2) (some 2))
    | _ => false) = true := by decide +kernel

/-- `scope_paths_eq_full_paths` on a parsed master with a disabled scope and a dotted scope name: the scopes are
    named, and the full paths are those Python reports (`['', 't', 't.u', 't.u.v']`) -/
example : okAnd3 (parseObjs "a = 1\n!s {\n  b = 1\n}\nt {\n  c = 1\n  u.v {\n   d = 1\n  }\n}\n".toList) (fun objs =>
    scopeNamedKidsB_st objs
      && (liveScopesObjP (rootP objs)).map genFullPath == ["".toList, "t".toList, "t.u".toList, "t.u.v".toList]
      && scopePaths objs [] == ["".toList, "t".toList, "t.u".toList, "t.u.v".toList]) = true := by decide +kernel

example : philPath (["v".toList, "u".toList, "t".toList, []].map some) none
    = Gen.full_path "v".toList ["u".toList, "t".toList, []] := phil_path_eq_full_path_all _ _

end Phil.Translated4

#print axioms Phil.Translated4.showObj_scope_gates
#print axioms Phil.Translated4.showScope_hidden
#print axioms Phil.Translated4.showScope_shown
#print axioms Phil.Translated4.showScope_gate_iff
#print axioms Phil.Translated4.showScopeBodyT_plain
#print axioms Phil.Translated4.showScope_str_expert_raises
#print axioms Phil.Translated4.joinWith_dot_eq_dotted
#print axioms Phil.Translated4.climbNames_to_root
#print axioms Phil.Translated4.full_path_eq_dotted
#print axioms Phil.Translated4.phil_path_eq_full_path
#print axioms Phil.Translated4.phil_path_parameter_eq_full_path
#print axioms Phil.Translated4.phil_path_root_eq_full_path
#print axioms Phil.Translated4.scopePathsObj_eq_full_paths
#print axioms Phil.Translated4.scopePathsKids_eq_full_paths
#print axioms Phil.Translated4.scope_paths_eq_full_paths
#print axioms Phil.Translated4.fetchRoot_extract_node_paths_full_path
#print axioms Phil.Translated4.full_path_stops_at_empty_name
#print axioms Phil.Translated4.full_path_climb_climbS
#print axioms Phil.Translated4.phil_path_climbS
#print axioms Phil.Translated4.phil_path_eq_full_path_all
