/-
  C15 (closed form, flat documents with attribute assignments) — attribute lines do not disturb the
  source lines: every definition and every word still reports `1 +` the number of newlines in the
  text in front of it, whatever attribute assignments (with their own filler lines, multi-line quoted
  values, `;`, trailing comments, `!`) stand between the definitions.

  Setting: Phil/Props/C02Attrs.lean (`ADef`, `AttrIt`, `flattenA`, `renderA`, `wfDocG`).  As in
  Phil/Props/C15Layout.lean the statement is not circular: `beforeNameG ds k` / `beforeWordG ds k j`
  are explicit functions of the document (no reference to the parser), and `beforeNameG_is_prefix` /
  `beforeWordG_is_prefix` show that they are the prefixes of the rendered text that end where the
  name (or its `!`) / the word begins.

  Property theorems only; lemmas are in Phil/Proofs/LayoutAttrs.lean.
-/
import Phil.Props.C02Attrs
set_option linter.unusedSimpArgs false
namespace Phil.C15
open Phil

attribute [local instance] Phil.C01.objDecEqInst Phil.C01.exceptDecEqRT

/-- `beforeNameG ds k` is the part of the text that ends exactly where definition `k` begins (at its
    `!` if it has one, else at its name); everything in front — including all attribute assignments
    of the definitions before — is in it -/
theorem beforeNameG_is_prefix (ds : List ADef) (post : Pre) (k : Nat) (a : ADef) (hk : ds[k]? = some a) :
    ∃ tail, renderA (flattenA ds) post = beforeNameG ds k ++ (bangText_l2 a.b ++ (a.d.1 ++ tail)) := by
  obtain ⟨tail, ht⟩ := beforeNameG_prefix_la post ds k a hk
  exact ⟨a.L.sp1 ++ '=' :: (wordsLay a.L.gaps a.d.2 ++ a.L.term.text) ++ tail, by
    rw [ht]; simp [defText]⟩

/-- `beforeWordG ds k j` is the part of the text that ends exactly where word `j` of definition `k`
    begins -/
theorem beforeWordG_is_prefix (ds : List ADef) (post : Pre) (h : wfDocG ds post = true) (k j : Nat)
    (a : ADef) (w : Word) (hk : ds[k]? = some a) (hj : a.d.2[j]? = some w) :
    ∃ tail, renderA (flattenA ds) post = beforeWordG ds k j ++ (w.str ++ tail) :=
  beforeWordG_prefix_la post ds k j a w hk (wfDef_gaps_length (wfDocG_get_la post ds k a h hk).2.1) hj

/-- **C15, flat documents with attributes.**  For every well-formed layout, `parse` returns one
    definition per definition of the document, and for every `k`: the `k`-th object has the `k`-th
    name, id `k + 1`, the attribute assignments `attrsOf`, and its source line is `1 +` the number of
    newlines in the text in front of it — attribute lines of earlier definitions included; its `j`-th
    word is the `j`-th word (value, quote style) with source line `1 +` the number of newlines in the
    text in front of that word. -/
theorem attrs_lines_correct (ds : List ADef) (post : Pre) (h : wfDocG ds post = true) :
    ∃ objs, parseObjs (renderA (flattenA ds) post) = .ok objs ∧ objs.length = ds.length ∧
      ∀ (k : Nat) (a : ADef), ds[k]? = some a →
        ∃ ws, objs[k]? = some (.defn
            { name := a.d.1, id := some (1 + k), disabled := a.b,
              line := some (1 + nlCount (beforeNameG ds k)), attrs := attrsOf a.attrs } ws) ∧
          ws.length = a.d.2.length ∧
          ∀ (j : Nat) (w' : Word), ws[j]? = some w' →
            ∃ w : Word, a.d.2[j]? = some w ∧ w'.value = w.value ∧ w'.quote = w.quote ∧
              w'.line = some (1 + nlCount (beforeWordG ds k j)) := by
  refine ⟨linedG [] 1 ds, parseObjs_renderG_lined_la ds post h, linedG_length_la ds [] 1, ?_⟩
  intro k a hk
  obtain ⟨_, hwd, _⟩ := wfDocG_get_la post ds k a h hk
  have hlen := wfDef_gaps_length hwd
  have hget := linedG_get_la ds [] 1 k a hk
  refine ⟨_, by simpa using hget, linedWords_length a.d.2 a.L.gaps _ hlen, ?_⟩
  intro j w' hj
  obtain ⟨w, hw, e⟩ := linedWords_get a.d.2 a.L.gaps _ j w' hlen hj
  refine ⟨w, hw, by rw [e], by rw [e], ?_⟩
  rw [e, beforeWordG, hk]
  simp

/-- the same in one equation: the parse result is `linedG [] 1 ds`, the list of definitions in which
    every line is computed from the text in front -/
theorem attrs_lines_closed_form (ds : List ADef) (post : Pre) (h : wfDocG ds post = true) :
    parseObjs (renderA (flattenA ds) post) = .ok (linedG [] 1 ds) :=
  parseObjs_renderG_lined_la ds post h

/-! ### non-vacuity: `exAttrs` of C02Attrs -/

open Phil.C02 in
/-- the text in front of `!b` (7 lines: a header comment, `a`, four attribute assignments on three
    lines, a blank line, a comment line) and in front of its second word -/
example : beforeNameG exAttrs 1 =
    ("# header\na = 1 # trailing comment\n  .help = \"two words\" more\n" ++
     "!.caption = dropped ; .type = ints(size=2)\n\n# stand-alone comment\n\t.optional\t=\tYes\n").toList ∧
    beforeWordG exAttrs 1 1 = beforeNameG exAttrs 1 ++ "!b = x ".toList ∧
    1 + nlCount (beforeNameG exAttrs 1) = 8 := by decide +kernel

open Phil.C02 in
/-- through the theorem: `b` is on line 8 although only one definition stands in front of it -/
example : ∃ objs ws, parseObjs (renderA (flattenA exAttrs) {}) = .ok objs ∧
    objs[1]? = some (Obj.defn (Meta.mk "b".toList (some 2) true (some 8) false 0
      [("expert_level", AttrVal.int 2), ("help", AttrVal.str "first".toList), ("help", AttrVal.str "last".toList)]
      none) ws) := by
  obtain ⟨objs, hp, _, hk⟩ := attrs_lines_correct exAttrs {} exAttrs_wf
  obtain ⟨ws, h1, _, _⟩ := hk 1 _ rfl
  refine ⟨objs, ws, hp, ?_⟩
  rw [h1]
  have : 1 + nlCount (beforeNameG exAttrs 1) = 8 := by decide +kernel
  rw [this]
  rfl

/-! ### sharp edges: the lines cited by attribute errors (model = Python) -/

/-- the error of a refused attribute value cites the line of the value, counted through the
    multi-line word of the definition in front
    (Python: `One True or False value expected, .optional="maybe" found (input line 4)`) -/
theorem attribute_error_line :
    parseObjs "a = 'x\ny'\n\n.optional = maybe".toList = .error (.runtime "bool_expected" (some 4)) := by
  decide +kernel

/-- an unknown attribute after filler lines: the line of the attribute (line 5) -/
example : parseObjs "a = 1\n# c\n\n  # d\n.nope = 1".toList
    = .error (.runtime "unexpected_definition_attribute" (some 5)) := by decide +kernel

/-! ### scope headers with attributes -/

/-- **C15, scope headers with attributes.**  In the parsed tree `hObjs xs 1 1` every line is given by
    counting: the `k`-th top-level scope reports the line on which the filler in front of it starts
    plus the number of its filler lines; the line of `{` (from which the lines of the body are counted
    exactly as for a scope without header attributes, C15Nested) is the line after the header
    assignments (`attrsEnd`: per assignment its filler lines, the newlines inside its words, the
    newline of its terminator) plus the filler lines in front of `{`; the next scope starts after the
    body and the filler in front of `}`. -/
theorem scope_attrs_lines_closed_form (xs : List HScope) (post : Pre) (h : wfDocH xs post = true) :
    ∃ objs, parseObjs (renderH xs post) = .ok objs ∧ objs = hObjs xs 1 1 ∧
      ∀ (x : HScope) (rest : List HScope) (l i : Nat),
        hObjs (x :: rest) l i
          = .scope { name := x.nm, id := some i, disabled := x.b, line := some (l + x.pre.lines.length),
                     attrs := sattrsOf x.ts }
              (layObjs x.kids (attrsEnd (l + x.pre.lines.length) x.ts + x.gap.lines.length) (i + 1))
            :: hObjs rest (layEndLn x.kids (attrsEnd (l + x.pre.lines.length) x.ts + x.gap.lines.length)
                            + x.close.lines.length) (i + (1 + layCount x.kids)) :=
  ⟨_, parseObjs_renderH_ls xs post h, rfl, fun _ _ _ _ => rfl⟩

/-- the line after header assignments is the line in front plus the newlines of their text -/
theorem header_lines_count (ts : List AttrIt) (h : ∀ t ∈ ts, t.item.wf = true) (l : Nat) :
    attrsEnd l ts = l + nlCount (attrsText ts) := attrsEnd_eq_la ts h l

open Phil.C02 in
/-- through the theorem: in `exScopes` the child `b` is on line 6 (after a 4-line header and a comment
    line) and the second scope on line 7 -/
example : ∃ objs, parseObjs (renderH exScopes {}) = .ok objs ∧
    objs.map (fun o => (o.meta.line, o.children.map (fun c => c.meta.line))) = [(some 1, [some 6]), (some 7, [])] := by
  obtain ⟨objs, hp, rfl, _⟩ := scope_attrs_lines_closed_form exScopes {} exScopes_wf
  exact ⟨_, hp, by decide +kernel⟩

#print axioms beforeNameG_is_prefix
#print axioms beforeWordG_is_prefix
#print axioms attrs_lines_correct
#print axioms attrs_lines_closed_form
#print axioms attribute_error_line
#print axioms scope_attrs_lines_closed_form
#print axioms header_lines_count

end Phil.C15
