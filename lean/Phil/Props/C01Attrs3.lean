/-
  C01 / C19 (part) — the attribute round trip without the placement hypothesis.  Property theorems only;
  the lemmas are in Phil/Proofs/AttrRoundTrip3.lean.  Continues Phil/Props/C01Attrs.lean, C01Attrs2.lean.

  The parse theorems of C01Attrs (`print_parse_tree_attrs`, `second_print_identical_attrs`), of C01Attrs2
  (`fetch_result_reparsed`) and of C19Levels (`any_level_reparses_to_same_tree`) carried the hypothesis
  `depPlacedList objs`: no deprecated definition directly follows a definition.  Here it is removed:
  at attributes level 3 the `# WARNING: deprecated parameter` line printed in front of a deprecated
  definition is consumed by `collect_assigned_words` of the LAST ATTRIBUTE LINE of the definition before
  it (from level 3 on every definition prints `.expert_level`, so there is one) — whatever that line is:
  plain words (`.expert_level = None`, `.deprecated = True`), a plain or quoted string (`.alias = "two
  words"`), or a wrapped string on several lines — and `collect_objects` goes on exactly as if it stood
  in front of the warning line.
-/
import Phil.Proofs.AttrRoundTrip3
import Phil.Props.C01Attrs2
import Phil.Props.C19Levels
set_option linter.unusedSimpArgs false
set_option linter.unusedVariables false
namespace Phil.C01
open Phil

attribute [local instance] objDecEqInst exceptDecEqRT

/-! ### the value collector in front of the warning line -/

/-- **At the newline in front of a warning line the value collector never stops**: whatever the last
    word was (plain, quoted, on any line), the `#` of the next line switches it to comment mode, the
    words of the warning are dropped, and it stops in front of the newline that ends the warning line
    (possibly leaving blanks `tb`).  `warnRest ind Y` = `ind ++ "# WARNING: deprecated parameter⏎" ++ Y`. -/
theorem warning_line_consumed_after_any_word (ind Y : Str) (hind : ∀ c ∈ ind, c = ' ')
    (hnext : ∀ c, firstNonSpace Y = some c → isQuoteChar c = false)
    (fuel l : Nat) (last : Word) (acc : List Word) (hf : warnBody.length + 3 ≤ fuel) :
    ∃ tb, InlineSpace tb ∧
      collectAssignedAux fuel ⟨'\n' :: warnRest ind Y, l⟩ last false acc
        = .ok (acc.reverse, ⟨tb ++ '\n' :: Y, l + 1⟩) :=
  cAA_warn_end_ar3 ind Y hind hnext fuel l last acc hf

/-- **Every attribute line of the round-trip class is read back when the warning line follows it**
    (`attrOK`: values of the kind of the name; strings that stay on the line — plain or quoted — or are
    wrapped single-spaced text): `collect_assigned_words` returns the words it returns without the
    warning line, `assign_attribute` yields the value, and the collector stops after the warning line.
    Generalises `warning_line_consumed` (one plain word) of C01Attrs2. -/
theorem attribute_line_then_warning (isDef : Bool) (pre : Str) (hb : ∀ c ∈ pre, c = ' ') (width : Int)
    (n : String) (v : AttrVal) (h : attrOK isDef pre width n v = true)
    (ind Y : Str) (l : Nat) (lead : Word) (hl : lead.line = some l) (hbs : isUnq lead "\\" = false)
    (hind : ∀ c ∈ ind, c = ' ') (hnext : ∀ c, firstNonSpace Y = some c → isQuoteChar c = false) :
    ∃ ws l' tb, InlineSpace tb ∧
      collectAssigned ⟨attrTail pre width n v ++ '\n' :: warnRest ind Y, l⟩ lead
        = .ok (ws, ⟨tb ++ '\n' :: Y, l' + 1⟩) ∧
      attrValueOf isDef n ws = .ok v :=
  attr_line_W_ar3 isDef pre hb width n v h ind Y l lead hl hbs hind hnext

/-- **The attribute block of a definition in front of a warning line** (level ≥ 3): one turn of
    `collect_objects` per printed attribute; all values are assigned to the pending definition in
    printing order; the parser continues IN FRONT OF the warning line — the same resulting state as
    when ordinary text follows.  Generalises `attribute_then_warning_one_turn` of C01Attrs2. -/
theorem attribute_block_then_warning (pre : Str) (hb : ∀ c ∈ pre, c = ' ') (level width : Int) (h3 : 3 ≤ level)
    (attrs : Attrs) (hok : attrsOK true pre level width attrs = true)
    (fuel : Nat) (ind Y : Str) (l i : Nat) (stop : Option Word) (prevLine : Nat) (acc : List Obj) (d : Obj)
    (hind : ∀ c ∈ ind, c = ' ') (hq : ∀ c, firstNonSpace Y = some c → isQuoteChar c = false)
    (hs : ∀ l, ∃ r, nextWordAux structSettings false Y l = .ok (some r)) :
    ∃ l' prevLine',
      collectObjects (fuel + (shownAttrs true level attrs).length)
          { ci := ⟨'\n' :: (attrBlock true pre level width attrs ++ warnRest ind Y), l⟩, nextId := i } stop
          prevLine acc (some d)
        = collectObjects fuel { ci := ⟨'\n' :: warnRest ind Y, l'⟩, nextId := i } stop prevLine' acc
            (some (d.withMeta (fun m => { m with attrs := m.attrs ++ shownAttrs true level attrs }))) :=
  defn_attrs_block2_W_ar3 pre hb level width attrs hok fuel _ l i stop prevLine acc d
    (Or.inr ⟨h3, ind, Y, hind, rfl, hq, hs⟩)

/-! ### the round trip, deprecated definitions anywhere -/

/-- **Print → parse for trees with attributes, deprecated definitions ANYWHERE.**  For every forest of
    the attribute round-trip class (`RTTreeAttr` at the level and width used; newlines only in last
    words), at every attributes level and width: the text printed is `kidsTextA`, it parses, and the
    parser returns the forest, every object carrying exactly the attributes shown at the level with
    their values (`normAList`), ids as expected.  `print_parse_tree_attrs` without `depPlacedList`. -/
theorem print_parse_tree_attrs_any_placement (o : ShowOpts) (he : o.expert = none) (objs : List Obj)
    (h : ∀ x ∈ objs, RTTreeAttr o.level o.width x) (hnl : ∀ x ∈ objs, x.allDefns NlOnlyLast) :
    ∃ text objs', asStr o (rootOf objs) = .ok text ∧ text = kidsTextA o.level o.width objs [] [] ∧
      parseObjs text = .ok objs' ∧ eraseList objs' = eraseList (normAList o.level objs) ∧
      idsList objs' = (expIdsSeq 1 objs).map some := by
  obtain ⟨h1, h2⟩ := rtAllAttr_of_forall h
  have hw : WrapsOKs o.width (stripAttrsList objs) [] [] :=
    wrapsOKs_of_nlOnlyLast_ert o.width _ [] []
      ((allDefnsList_stripAttrs_ert NlOnlyLast objs).mpr ((allDefnsList_iff NlOnlyLast objs).mpr hnl))
  obtain ⟨objs', e1, e2, e3⟩ := parseObjs_treesW_ar3 o.level o.width objs [] (by intro d hd; simp at hd)
    h1 hw h2
  exact ⟨_, objs', print_tree_attrs o he objs h, rfl, e1, e2, e3⟩

/-- **Print, parse, print again: byte-identical text — deprecated definitions anywhere.** -/
theorem second_print_identical_attrs_any_placement (o : ShowOpts) (he : o.expert = none) (objs : List Obj)
    (h : ∀ x ∈ objs, RTTreeAttr o.level o.width x) (hnl : ∀ x ∈ objs, x.allDefns NlOnlyLast) :
    ∃ text root', asStr o (rootOf objs) = .ok text ∧ parse text = .ok root' ∧
      asStr o root' = .ok text := by
  obtain ⟨text, objs', h1, ht, h2, h3, _⟩ := print_parse_tree_attrs_any_placement o he objs h hnl
  obtain ⟨r1, r2⟩ := rtAllAttr_of_forall h
  obtain ⟨n1, _, n3⟩ := normAList_props_art o.level o.width objs [] r2
  have herase : (rootOf objs').erase = (rootOf (normAList o.level objs)).erase := by
    simp only [rootOf, Obj.erase_scope, h3]
  refine ⟨text, rootOf objs', h1, by rw [parse_eq, h2]; rfl, ?_⟩
  rw [show_congr_positions o _ _ herase,
    asStr_treesA_art o he (normAList o.level objs) [] (by intro d hd; cases hd)
      (by rw [normAList_stripAttrs_art]; exact r1) n1,
    n3, ht]

/-- **Re-parsing a printed fetch result** (`fetch_result_reparsed` of C01Attrs2) without the placement
    hypothesis -/
theorem fetch_result_reparsed_any_placement (o : ShowOpts) (he : o.expert = none) (objs : List Obj)
    (hwf : tmplWFs o.level objs = true)
    (h : ∀ x ∈ visTList o.level objs, RTTreeAttr o.level o.width x)
    (hnl : ∀ x ∈ visTList o.level objs, x.allDefns NlOnlyLast) :
    ∃ text objs' root', asStr o (rootOf objs) = .ok text ∧ parseObjs text = .ok objs' ∧
      eraseList objs' = eraseList (normAList o.level (visTList o.level objs)) ∧
      parse text = .ok root' ∧ asStr o root' = .ok text := by
  obtain ⟨text, objs', h1, _, h2, h3, _⟩ := print_parse_tree_attrs_any_placement o he _ h hnl
  obtain ⟨text', root', g1, g2, g3⟩ := second_print_identical_attrs_any_placement o he _ h hnl
  have : text' = text := by rw [h1] at g1; cases g1; rfl
  subst this
  exact ⟨text', objs', root', by rw [fetch_result_prints_as_visible o objs hwf]; exact h1, h2, h3, g2, g3⟩

end Phil.C01

namespace Phil.C19
open Phil Phil.C01

/-- **C19: the tree re-parsed from any attributes level is the same once attributes are ignored** —
    deprecated definitions anywhere (`any_level_reparses_to_same_tree` without `depPlacedList`) -/
theorem any_level_reparses_to_same_tree_any_placement (o : ShowOpts) (he : o.expert = none) (objs : List Obj)
    (h : ∀ x ∈ objs, RTTreeAttr o.level o.width x) (hnl : ∀ x ∈ objs, x.allDefns NlOnlyLast) :
    ∃ text objs', asStr o (rootOf objs) = .ok text ∧ parseObjs text = .ok objs' ∧
      eraseAttrsList objs' = eraseAttrsList objs := by
  obtain ⟨text, objs', h1, _, h2, h3, _⟩ := print_parse_tree_attrs_any_placement o he objs h hnl
  exact ⟨text, objs', h1, h2, by
    rw [eraseAttrsList_of_eraseList_ert h3, eraseAttrsList_normAList_art]⟩

end Phil.C19

namespace Phil.C01
open Phil

attribute [local instance] objDecEqInst exceptDecEqRT

/-! ### non-vacuity: deprecated definitions directly after definitions

  ```
  a = 1
    .alias = "two words"
  b = 2
    .deprecated = True
  s {
    c = 3
      .alias = "aaaaaaa bb ccccccc dddddd eeeeeee fff"
    d = 4
      .deprecated = True
    p.q = 5
    p.r = 6
      .deprecated = True
  }
  ```
  At level 3, width 40: the warning line of `b` follows the QUOTED `.alias = "two words"` of `a`; the
  warning line of `d` follows the WRAPPED alias of `c` (two quoted blocks on two lines); the warning
  line of `p.r` follows `.expert_level = None` of `p.q` (through the dotted prefix).  Replayed on the
  Python library: same text (83 lines), re-parsed attribute values equal, second print identical. -/

def exDep3Src : Str :=
  ("a = 1\n  .alias = \"two words\"\nb = 2\n  .deprecated = True\ns {\n  c = 3\n" ++
   "    .alias = \"aaaaaaa bb ccccccc dddddd eeeeeee fff\"\n  d = 4\n    .deprecated = True\n  p.q = 5\n" ++
   "  p.r = 6\n    .deprecated = True\n}\n").toList

def exDep3Forest : List Obj :=
  [ .defn { name := ['a'], attrs := [("alias", .str "two words".toList)] } [{ value := ['1'] }],
    .defn { name := ['b'], attrs := [("deprecated", .bool true)] } [{ value := ['2'] }],
    .scope { name := ['s'] }
      [ .defn { name := ['c'], attrs := [("alias", .str "aaaaaaa bb ccccccc dddddd eeeeeee fff".toList)] }
          [{ value := ['3'] }],
        .defn { name := ['d'], attrs := [("deprecated", .bool true)] } [{ value := ['4'] }],
        .scope { name := ['p'] } [.defn { name := ['q'], mergeNames := true } [{ value := ['5'] }]],
        .scope { name := ['p'] }
          [.defn { name := ['r'], mergeNames := true, attrs := [("deprecated", .bool true)] } [{ value := ['6'] }]] ] ]

/-- the forest is what the parser builds from the text; it is in the class at level 3, width 40; it
    violates the old placement hypothesis; the alias of `c` is wrapped at that width -/
theorem exDep3_facts :
    (parseObjs exDep3Src).map eraseList = .ok exDep3Forest ∧
    (∀ x ∈ exDep3Forest, RTTreeAttr 3 40 x) ∧ (∀ x ∈ exDep3Forest, x.allDefns NlOnlyLast) ∧
    depPlacedList exDep3Forest = false ∧
    strOneLine [' ', ' '] 40 "alias" "aaaaaaa bb ccccccc dddddd eeeeeee fff".toList = false ∧
    strOneLine [] 40 "alias" "two words".toList = true ∧
    strNeedQuote [] 40 "alias" "two words".toList = true := by
  decide +kernel

/-- the round trip of the example at level 3, width 40, through the theorems -/
example : ∃ text objs' root', asStr { level := 3, width := 40 } (rootOf exDep3Forest) = .ok text ∧
    parseObjs text = .ok objs' ∧ eraseList objs' = eraseList (normAList 3 exDep3Forest) ∧
    parse text = .ok root' ∧ asStr { level := 3, width := 40 } root' = .ok text := by
  obtain ⟨_, h2, h3, _⟩ := exDep3_facts
  obtain ⟨text, objs', h1, _, e2, e3, _⟩ :=
    print_parse_tree_attrs_any_placement { level := 3, width := 40 } rfl exDep3Forest h2 h3
  obtain ⟨text', root', g1, g2, g3⟩ :=
    second_print_identical_attrs_any_placement { level := 3, width := 40 } rfl exDep3Forest h2 h3
  have : text' = text := by rw [h1] at g1; cases g1; rfl
  subst this
  exact ⟨text', objs', root', h1, e2, e3, g2, g3⟩

/-- the re-parsed definitions of the example carry the alias and the deprecated flag -/
example : (eraseList (normAList 3 exDep3Forest)).map (fun x => (x.attr "alias", x.attr "deprecated"))
    = [(.str "two words".toList, .none), (.none, .bool true), (.none, .none)] := by
  decide +kernel

/-- non-vacuity of `attribute_line_then_warning`: the quoted alias line in front of the warning line -/
example : ∃ ws l' tb, InlineSpace tb ∧
    collectAssigned ⟨attrTail [] 40 "alias" (.str "two words".toList) ++ '\n' :: warnRest [] "b = 2\n".toList, 2⟩
        { value := ".alias".toList, line := some 2 }
      = .ok (ws, ⟨tb ++ '\n' :: "b = 2\n".toList, l' + 1⟩) ∧
    attrValueOf true "alias" ws = .ok (.str "two words".toList) := by
  refine attribute_line_then_warning true [] (by intro c hc; cases hc) 40 "alias" _ (by decide +kernel)
    [] "b = 2\n".toList 2 _ rfl (by decide) (by intro c hc; cases hc) ?_
  intro c hc
  have e : firstNonSpace "b = 2\n".toList = some 'b' := by decide
  rw [e] at hc
  cases hc
  decide

/-! ### sharp edges (kernel-checked; replayed on the Python library) -/

/-- **The warning line is consumed only because it is a comment on the NEXT line**: the same words
    without the `#` (`WARNING: deprecated parameter` as an ordinary line) end the value of the line
    before and are then refused as a definition without `=`.  Python (replayed): `RuntimeError: Syntax error:
    improper definition name "WARNING:" (input line 2)`. -/
theorem warning_without_hash_is_not_consumed :
    (parseObjs "a = 1\nWARNING: deprecated parameter\nb = 2\n".toList).toOption = none ∧
    (parseObjs "a = 1\n# WARNING: deprecated parameter\nb = 2\n".toList).map eraseList
      = .ok [.defn { name := ['a'] } [{ value := ['1'] }], .defn { name := ['b'] } [{ value := ['2'] }]] := by
  decide +kernel

/-- **What follows the warning line must not start with a quote** (hypothesis `hnext` of the collector
    lemmas; always true in printed text, where an item name follows): in comment mode a quoted word on a
    later line does not end the value — it is swallowed together with the rest of its line.  Python
    (replayed): `a = 1⏎# WARNING: deprecated parameter⏎"x" y⏎b = 2` parses to `a = 1⏎b = 2`. -/
theorem quoted_word_after_warning_line_is_swallowed :
    (parseObjs "a = 1\n# WARNING: deprecated parameter\n\"x\" y\nb = 2\n".toList).map eraseList
      = .ok [.defn { name := ['a'] } [{ value := ['1'] }], .defn { name := ['b'] } [{ value := ['2'] }]] := by
  decide +kernel

#print axioms warning_line_consumed_after_any_word
#print axioms attribute_line_then_warning
#print axioms attribute_block_then_warning
#print axioms print_parse_tree_attrs_any_placement
#print axioms second_print_identical_attrs_any_placement
#print axioms fetch_result_reparsed_any_placement
#print axioms Phil.C19.any_level_reparses_to_same_tree_any_placement
#print axioms exDep3_facts
#print axioms warning_without_hash_is_not_consumed
#print axioms quoted_word_after_warning_line_is_swallowed

end Phil.C01
