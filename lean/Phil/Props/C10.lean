/-
  C10 — Extraction never yields a value outside the declared type: whatever `type.from_words` returns
  for a word list lies in the set of Python objects the type declares (`InDomain`), for every
  constructor-argument combination, every answer of the Python evaluator (`env`) and every word list.
  Property theorems only; lemmas are in Phil/Proofs/ConvDomain.lean.
-/
import Phil.Proofs.ConvDomain
namespace Phil.C10
open Phil

/-- The main statement, all twelve built-in types at once.  `InDomain c v` is the executable
    predicate of Phil/Proofs/ConvDomain.lean; the theorems below spell it out per type. -/
theorem fromWords_in_domain (c : Conv) (env : EvalEnv) (opt : AttrVal) (ws : List Word) (v : PVal)
    (h : fromWords c env opt ws = .ok v) : InDomain c v = true :=
  Phil.fromWords_in_domain c env opt ws v h

/-- `int(value_min, value_max, allow_none)`: `None` (only when allowed), `Auto`, a Python `int`, or
    `True`/`False` (instances of `int`; compared as 1/0) — never a float, `inf` or `nan`.  Bounds
    are stated as the code guarantees them: `value_min <= v` and `v <= value_max` are both true
    (Python comparisons, `pyLe`). -/
theorem int_in_domain (a : NumArgs) (env : EvalEnv) (opt : AttrVal) (ws : List Word) (v : PVal)
    (h : fromWords (.int a) env opt ws = .ok v) :
    (v = .none ∧ a.allowNone = true) ∨ v = .auto ∨
    (∃ i, v = .num (.int i) ∧
       (∀ lo, a.valueMin = some lo → pyLe lo (.int i) = true) ∧
       (∀ hi, a.valueMax = some hi → pyLe (.int i) hi = true)) ∨
    (∃ b, v = .bool b ∧
       (∀ lo, a.valueMin = some lo → pyLe lo (.int (if b then 1 else 0)) = true) ∧
       (∀ hi, a.valueMax = some hi → pyLe (.int (if b then 1 else 0)) hi = true)) := by
  have := (inDomain_int a v).mp (Phil.fromWords_in_domain _ env opt ws v h)
  simpa only [boundsOk_iff] using this

/-- `float(...)`: `None` (only when allowed), `Auto`, or a Python `float` — a finite `n/d`, `inf`,
    `-inf` or `nan`; never an `int` (ints are converted, `3` becomes `3.0` = `flt 3 1`) and never a
    `bool`.  The declared bounds hold as Python `<=`; in particular the value is `nan` only when no
    bound is declared. -/
theorem float_in_domain (a : NumArgs) (env : EvalEnv) (opt : AttrVal) (ws : List Word) (v : PVal)
    (h : fromWords (.float a) env opt ws = .ok v) :
    (v = .none ∧ a.allowNone = true) ∨ v = .auto ∨
    (∃ n, v = .num n ∧ (∀ i, n ≠ .int i) ∧
       (∀ lo, a.valueMin = some lo → pyLe lo n = true) ∧
       (∀ hi, a.valueMax = some hi → pyLe n hi = true) ∧
       (n = .nan → a.valueMin = none ∧ a.valueMax = none)) := by
  rcases (inDomain_float a v).mp (Phil.fromWords_in_domain _ env opt ws v h) with h | h | ⟨n, h1, h2, h3⟩
  · exact .inl h
  · exact .inr (.inl h)
  · refine .inr (.inr ⟨n, h1, h2, ((boundsOk_iff _ _ _).mp h3).1, ((boundsOk_iff _ _ _).mp h3).2, ?_⟩)
    intro hn
    subst hn
    exact (boundsOk_nan_iff _ _).mp h3

/-- what the Python `<=` of the bounds means: neither side is `nan` and the reverse `<` is false -/
theorem pyLe_iff (x y : PNum) : pyLe x y = true ↔ x ≠ .nan ∧ y ≠ .nan ∧ pyLt y x = false :=
  Phil.pyLe_iff x y

/-- `bool`: `None`, `Auto`, `True` or `False`. -/
theorem bool_in_domain (env : EvalEnv) (opt : AttrVal) (ws : List Word) (v : PVal)
    (h : fromWords .bool env opt ws = .ok v) : v = .none ∨ v = .auto ∨ ∃ b, v = .bool b :=
  (inDomain_bool v).mp (Phil.fromWords_in_domain _ env opt ws v h)

/-- what an element of an `ints` (`isInt = true`) / `floats` list may be -/
def ElemInDomain (isInt : Bool) (a : ListArgs) (x : PVal) : Prop :=
  (x = .none ∧ a.allowNoneEl = true) ∨ (x = .auto ∧ a.allowAutoEl = true) ∨
  (isInt = true ∧
    ((∃ i, x = .num (.int i) ∧ boundsOk a.valueMin a.valueMax (.int i) = true) ∨
     (∃ b, x = .bool b ∧ boundsOk a.valueMin a.valueMax (.int (if b then 1 else 0)) = true))) ∨
  (isInt = false ∧ ∃ n, x = .num n ∧ (∀ i, n ≠ .int i) ∧ boundsOk a.valueMin a.valueMax n = true)

theorem elemOk_elemInDomain (isInt : Bool) (a : ListArgs) (x : PVal) (h : elemOk isInt a x = true) :
    ElemInDomain isInt a x := by
  unfold ElemInDomain
  rcases (elemOk_iff isInt a x).mp h with h | h | ⟨h1, h2⟩ | ⟨h1, h2⟩
  · exact .inl h
  · exact .inr (.inl h)
  · refine .inr (.inr (.inl ⟨h1, ?_⟩))
    cases x with
    | num n => cases n <;> simp_all [isIntIn]
    | _ => simp_all [isIntIn]
  · refine .inr (.inr (.inr ⟨h1, ?_⟩))
    cases x with
    | num n => cases n <;> simp_all [isFloatIn]
    | _ => simp_all [isFloatIn]

/-- `ints(size_min, size_max, value_min, value_max, allow_none_elements, allow_auto_elements)`:
    `None`, `Auto`, or a list whose length respects the size limits and whose every element is
    `None`/`Auto` only when the respective flag allows it, otherwise an int within the bounds. -/
theorem ints_in_domain (a : ListArgs) (env : EvalEnv) (opt : AttrVal) (ws : List Word) (v : PVal)
    (h : fromWords (.ints a) env opt ws = .ok v) :
    v = .none ∨ v = .auto ∨
    ∃ l, v = .list l ∧
      (∀ m, a.sizeMin = some m → m ≤ (l.length : Int)) ∧
      (∀ M, a.sizeMax = some M → (l.length : Int) ≤ M) ∧
      ∀ x ∈ l, ElemInDomain true a x := by
  rcases (inDomain_ints a v).mp (Phil.fromWords_in_domain _ env opt ws v h) with h | h | ⟨l, h1, h2, h3⟩
  · exact .inl h
  · exact .inr (.inl h)
  · rw [sizeOk_iff] at h2
    exact .inr (.inr ⟨l, h1, h2.1, h2.2, fun x hx => elemOk_elemInDomain _ _ _ (h3 x hx)⟩)

/-- `floats(...)`: as `ints_in_domain`, the elements being floats. -/
theorem floats_in_domain (a : ListArgs) (env : EvalEnv) (opt : AttrVal) (ws : List Word) (v : PVal)
    (h : fromWords (.floats a) env opt ws = .ok v) :
    v = .none ∨ v = .auto ∨
    ∃ l, v = .list l ∧
      (∀ m, a.sizeMin = some m → m ≤ (l.length : Int)) ∧
      (∀ M, a.sizeMax = some M → (l.length : Int) ≤ M) ∧
      ∀ x ∈ l, ElemInDomain false a x := by
  rcases (inDomain_floats a v).mp (Phil.fromWords_in_domain _ env opt ws v h) with h | h | ⟨l, h1, h2, h3⟩
  · exact .inl h
  · exact .inr (.inl h)
  · rw [sizeOk_iff] at h2
    exact .inr (.inr ⟨l, h1, h2.1, h2.2, fun x hx => elemOk_elemInDomain _ _ _ (h3 x hx)⟩)

/-- `nan` no longer passes a declared bound (`_check_value` now tests `value_min <= v` and
    `v <= value_max`, both false on `nan`).  Here: `float(value_min=0)` refuses `nan`. -/
theorem nan_refused_by_bounds (env : EvalEnv) (he : env "nan".toList = some (.num .nan)) :
    fromWords (.float { valueMin := some (.int 0) }) env .none [⟨"nan".toList, none, some 1⟩]
      = .error (.runtime "value_min" (some 1)) :=
  Phil.nan_refused_by_bounds env he

/-- … and so for any declared bound, any text that evaluates to `nan`: the error is "value_min" when
    `value_min` is declared, otherwise "value_max". -/
theorem nan_refused_by_bounds_gen (env : EvalEnv) (a : NumArgs) (opt : AttrVal) (ws : List Word) (s : Str)
    (hw : strFromWords ws = .str s) (hs : isSpecialNumText s = false)
    (he : env s = some (.num .nan))
    (hb : a.valueMin.isSome = true ∨ a.valueMax.isSome = true) :
    fromWords (.float a) env opt ws =
      .error (.runtime (if a.valueMin.isSome then "value_min" else "value_max") (firstLine ws)) :=
  Phil.nan_refused_by_bounds_gen env a opt ws s hw hs he hb

/-- without any bound `nan` is a legitimate float value -/
theorem nan_accepted_without_bounds (env : EvalEnv) (a : NumArgs) (opt : AttrVal) (ws : List Word) (s : Str)
    (hw : strFromWords ws = .str s) (hs : isSpecialNumText s = false)
    (he : env s = some (.num .nan))
    (h1 : a.valueMin = none) (h2 : a.valueMax = none) :
    fromWords (.float a) env opt ws = .ok (.num .nan) :=
  Phil.nan_accepted_without_bounds env a opt ws s hw hs he h1 h2

/-- the domain of a float type (and of the elements of a `floats` list) contains `nan` exactly when
    no bound is declared -/
theorem inDomain_float_nan (a : NumArgs) :
    InDomain (.float a) (.num .nan) = true ↔ a.valueMin = none ∧ a.valueMax = none :=
  Phil.inDomain_float_nan a

theorem elemOk_float_nan (a : ListArgs) :
    elemOk false a (.num .nan) = true ↔ a.valueMin = none ∧ a.valueMax = none :=
  Phil.elemOk_float_nan a

/-- `bool_from_words` accepts exactly the eight spellings (case-insensitively): the result is
    `True` iff the joined text is one of true/yes/on/1, `False` iff one of false/no/off/0. -/
theorem bool_spellings (ws : List Word) (b : Bool) :
    boolFromWords ws = .ok (.bool b) ↔
      ∃ s, strFromWords ws = .str s ∧
        lower s ∈ (if b then boolTrueSpellings else boolFalseSpellings) :=
  Phil.bool_spellings ws b

/-- … and nothing else: any other text is an error ("bool_expected" with the first word's line;
    an AssertionError for an empty word list). -/
theorem bool_rejects_other (ws : List Word) (s : Str) (hs : strFromWords ws = .str s)
    (hf : lower s ∉ boolFalseSpellings) (ht : lower s ∉ boolTrueSpellings) :
    boolFromWords ws = .error (if ws.isEmpty then .stray "AssertionError" "bool_from_words"
                               else .runtime "bool_expected" (firstLine ws)) :=
  Phil.bool_rejects_other ws s hs hf ht

/-- the whole of `bool_from_words` in one statement -/
theorem boolFromWords_spec (ws : List Word) :
    (strFromWords ws = .none ∧ boolFromWords ws = .ok .none) ∨
    (strFromWords ws = .auto ∧ boolFromWords ws = .ok .auto) ∨
    (∃ s, strFromWords ws = .str s ∧
      ((lower s ∈ boolFalseSpellings ∧ boolFromWords ws = .ok (.bool false)) ∨
       (lower s ∈ boolTrueSpellings ∧ boolFromWords ws = .ok (.bool true)) ∨
       (lower s ∉ boolFalseSpellings ∧ lower s ∉ boolTrueSpellings ∧
          boolFromWords ws = .error (if ws.isEmpty then .stray "AssertionError" "bool_from_words"
                                     else .runtime "bool_expected" (firstLine ws))))) :=
  Phil.boolFromWords_spec ws

/-- `int` accepts a value string that evaluates to a float with an integral value (`2.0`, `1e3`)
    and returns the int; stated without bounds. -/
theorem int_accepts_integral (env : EvalEnv) (allowNone : Bool) (opt : AttrVal) (ws : List Word)
    (s : Str) (n : Int) (d : Nat)
    (hw : strFromWords ws = .str s) (hs : isSpecialNumText s = false)
    (he : env s = some (.num (.flt n d))) (hd : d ≠ 0) (hm : n % (d : Int) = 0) :
    fromWords (.int { allowNone := allowNone }) env opt ws = .ok (.num (.int (n / (d : Int)))) :=
  Phil.int_accepts_integral env allowNone opt ws s n d hw hs he hd hm

/-- the same with bounds: accepted when the integer satisfies them -/
theorem int_accepts_integral_gen (env : EvalEnv) (a : NumArgs) (opt : AttrVal) (ws : List Word)
    (s : Str) (n : Int) (d : Nat)
    (hw : strFromWords ws = .str s) (hs : isSpecialNumText s = false)
    (he : env s = some (.num (.flt n d))) (hd : d ≠ 0) (hm : n % (d : Int) = 0)
    (hb : boundsOk a.valueMin a.valueMax (.int (n / (d : Int))) = true) :
    fromWords (.int a) env opt ws = .ok (.num (.int (n / (d : Int)))) :=
  Phil.int_accepts_integral_gen env a opt ws s n d hw hs he hd hm hb

/-- a float that is not integral is refused ("integer_expected") -/
theorem int_rejects_fraction (env : EvalEnv) (a : NumArgs) (opt : AttrVal) (ws : List Word)
    (s : Str) (n : Int) (d : Nat)
    (hw : strFromWords ws = .str s) (hs : isSpecialNumText s = false)
    (he : env s = some (.num (.flt n d))) (hm : d = 0 ∨ n % (d : Int) ≠ 0) :
    fromWords (.int a) env opt ws = .error (wordsErr "integer_expected" ws) :=
  Phil.int_rejects_fraction env a opt ws s n d hw hs he hm

/-! ### concrete instances (non-vacuity) -/

/-- a small evaluator: the answers CPython gives for these five strings -/
def envEx : EvalEnv := fun s =>
  if s == "3".toList then some (.num (.int 3))
  else if s == "2.0".toList then some (.num (.flt 2 1))
  else if s == "2.5".toList then some (.num (.flt 5 2))
  else if s == "7".toList then some (.num (.int 7))
  else if s == "nan".toList then some (.num .nan)
  else some .raises

private def W (s : String) : Word := { value := s.toList, line := some 1 }

example : fromWords (.int { valueMin := some (.int 0), valueMax := some (.int 5) }) envEx .none [W "3"]
    = .ok (.num (.int 3)) := by rfl
example : fromWords (.int { valueMin := some (.int 0), valueMax := some (.int 5) }) envEx .none [W "7"]
    = .error (.runtime "value_max" (some 1)) := by rfl
example : fromWords (.int {}) envEx .none [W "2.0"] = .ok (.num (.int 2)) := by rfl
example : fromWords (.int {}) envEx .none [W "2.5"] = .error (.runtime "integer_expected" (some 1)) := by rfl
example : fromWords (.float {}) envEx .none [W "3"] = .ok (.num (.flt 3 1)) := by rfl
example : fromWords (.int { allowNone := false }) envEx .none [W "None"]
    = .error (.runtime "cannot_be_none" none) := by rfl
example : fromWords (.ints { sizeMax := some 3, allowNoneEl := true }) envEx .none [W "[3,", W "None", W "2.0]"]
    = .ok (.list [.num (.int 3), .none, .num (.int 2)]) := by rfl
example : fromWords (.ints { sizeMax := some 2, allowNoneEl := true }) envEx .none [W "3", W "None", W "2.0"]
    = .error (.runtime "too_many" (some 1)) := by rfl
example : fromWords (.floats { valueMin := some (.int 3) }) envEx .none [W "3", W "2.5"]
    = .error (.runtime "value_min" (some 1)) := by with_unfolding_all rfl
example : fromWords .bool envEx .none [W "YES"] = .ok (.bool true) := by rfl
example : fromWords .bool envEx .none [W "maybe"] = .error (.runtime "bool_expected" (some 1)) := by rfl
example : fromWords (.float { valueMin := some (.int 0) }) envEx .none [W "nan"]
    = .error (.runtime "value_min" (some 1)) :=
  nan_refused_by_bounds_gen envEx _ _ _ "nan".toList (by rfl) (by rfl) (by rfl) (.inl rfl)
example : fromWords (.float { valueMax := some (.int 0) }) envEx .none [W "nan"]
    = .error (.runtime "value_max" (some 1)) :=
  nan_refused_by_bounds_gen envEx _ _ _ "nan".toList (by rfl) (by rfl) (by rfl) (.inr rfl)
example : fromWords (.float {}) envEx .none [W "nan"] = .ok (.num .nan) :=
  nan_accepted_without_bounds envEx _ _ _ "nan".toList (by rfl) (by rfl) (by rfl) rfl rfl
example : InDomain (.float { valueMin := some (.int 0) }) (.num .nan) = false := by rfl
example : InDomain (.int { valueMin := some (.int 0) }) (.num (.int (-1))) = false := by rfl
example : InDomain (.int {}) (.num (.flt 1 2)) = false := by rfl
example : InDomain (.ints { sizeMin := some 2 }) (.list [.num (.int 1)]) = false := by rfl

end Phil.C10
