/-
  C03, document-context clause — a quoted literal inside a document is read back as exactly the
  original string, and nothing of it leaks into (or is swallowed from) the neighbouring definition.
  Property theorems only; lemmas are in Phil/Proofs/ParseLemmas.lean and Phil/Proofs/Quote.lean.
-/
import Phil.Props.C03
import Phil.Proofs.ParseLemmas
set_option linter.unusedSimpArgs false
namespace Phil.C03
open Phil

/-- the line after the quoted value of `doc_quote` -/
def docTail : Str := '\n' :: 'b' :: ' ' :: '=' :: ' ' :: ['1']

/-- Strongest stand-alone statement about the value collector: after `name =`, white space `sp`, the
    literal `quoteStr q s` and any following text `rest` that ends a value (`EndsValue`: end of input,
    or an unquoted word other than `;`/`#` on a later line) and does not begin with the quote
    character, `collect_assigned_words` returns exactly one word with text `s`, style `q`, and leaves
    `rest` untouched with the line counter advanced by the newlines of `s`. -/
theorem doc_quote_value (q : Quote) (s sp rest : Str) (l : Nat) (lead : Word)
    (hsp : ∀ d ∈ sp, isSpace d = true) (hrest : ∀ r, rest ≠ q.char :: r)
    (hend : EndsValue ⟨rest, l + nlCount sp + nlCount s⟩ (l + nlCount sp)) :
    collectAssigned ⟨sp ++ quoteStr q s ++ rest, l⟩ lead
      = .ok ([{ value := s, quote := some q, line := some (l + nlCount sp) }],
             ⟨rest, l + nlCount sp + nlCount s⟩) :=
  collectAssigned_quoted q s sp rest l lead hsp hrest hend

/-- C03, document context: for every string `s` and each of the four quote styles `q`, parsing the
    two-line document `a = <quote_python_str(q, s)>` / `b = 1` yields exactly two definitions; `a`
    has exactly one word whose text is `s` and whose style is `q`; `b` is intact (one word `1`) and
    its line number is `2 +` the number of newlines in `s`.  Nothing of `s` is lost, duplicated or
    swallowed into `b`, whatever characters it contains. -/
theorem doc_quote (q : Quote) (s : Str) :
    parseObjs ("a = ".toList ++ quoteStr q s ++ "\nb = 1".toList)
      = .ok [ .defn { name := ['a'], id := some 1, line := some 1 }
                [{ value := s, quote := some q, line := some 1 }],
              .defn { name := ['b'], id := some 2, line := some (2 + nlCount s) }
                [{ value := ['1'], quote := none, line := some (2 + nlCount s) }] ] := by
  have z2 : nlCount [' '] = 0 := by decide
  have z3 : nlCount ['\n'] = 1 := by decide
  have sp1 : ∀ d ∈ [' '], isSpace d = true := by
    intro d hd; simp at hd; subst hd; rfl
  have spn : ∀ d ∈ ['\n'], isSpace d = true := by
    intro d hd; simp at hd; subst hd; rfl
  have spe : ∀ d ∈ ([] : Str), isSpace d = true := by intro d hd; simp at hd
  -- the text, in the shape the step lemmas expect
  have htext : "a = ".toList ++ quoteStr q s ++ "\nb = 1".toList
      = [] ++ ['a'] ++ ([' '] ++ '=' :: ([' '] ++ quoteStr q s ++ docTail)) := by
    have a1 : "a = ".toList = ['a', ' ', '=', ' '] := by rfl
    have a2 : "\nb = 1".toList = docTail := by rfl
    rw [a1, a2]; simp
  have htail : docTail = ['\n'] ++ ['b'] ++ ([' '] ++ '=' :: ([' '] ++ ['1'] ++ [])) := by rfl
  have hrest : ∀ r, docTail ≠ q.char :: r := by
    intro r h
    have h2 := h.symm
    simp only [docTail, List.cons.injEq] at h2
    have : q.char = '\n' := h2.1
    cases q <;> simp [Quote.char] at this
  -- value of `a`
  have hend1 : EndsValue ⟨docTail, 1 + nlCount [' '] + nlCount s⟩ (1 + nlCount [' ']) := by
    have : docTail = ['\n'] ++ ['b'] ++ (' ' :: '=' :: ' ' :: ['1']) := by rfl
    rw [this]
    exact EndsValue_plain ['\n'] ['b'] _ _ _ spn (by rfl) (by rfl) (by rw [z2, z3]; omega)
  have hv1 := doc_quote_value q s [' '] docTail 1 { value := ['a'], line := some 1 } sp1 hrest hend1
  -- value of `b`
  have hv2 := collectAssigned_plain ['1'] [' '] [] (1 + nlCount s + 1)
    { value := ['b'], line := some (1 + nlCount s + 1) } sp1 (by rw [z2]) (by rfl) (by rfl)
    (EndsValue_eof [] _ _ spe)
  -- three turns of `collect_objects`
  obtain ⟨n, hn⟩ : ∃ n, ("a = ".toList ++ quoteStr q s ++ "\nb = 1".toList).length + 2 = n + 3 := by
    refine ⟨("a = ".toList ++ quoteStr q s ++ "\nb = 1".toList).length - 1, ?_⟩
    have := quoteStr_length_pos q s
    simp only [List.length_append]
    omega
  unfold parseObjs
  rw [hn, htext]
  rw [collectObjects_simple_defn (n + 2) _ none 0 [] none [] 'a' [] [' '] _ 1 _ _ rfl spe sp1
    (by intro d hd; simp at hd; subst hd; rfl) (by rfl) (by decide) (by rfl)
    (by simpa [z2] using hv1)]
  simp only [nlCount_nil, Nat.add_zero, z2]
  rw [htail]
  rw [collectObjects_simple_defn (n + 1) _ none 1 _ _ ['\n'] 'b' [] [' '] _ (1 + nlCount s) _ _ rfl
    spn sp1 (by intro d hd; simp at hd; subst hd; rfl) (by rfl) (by decide) (by rfl)
    (by simpa [z2, z3] using hv2)]
  rw [collectObjects_end n _ _ _ _ (by rfl)]
  have e2 : 1 + nlCount s + 1 = 2 + nlCount s := by omega
  simp [flush, adopt, wrapDotted, splitOn, Obj.name, Obj.meta, z3, e2]

/-- Non-vacuity / sanity: a string with every troublesome character class. -/
example : parseObjs ("a = ".toList ++ quoteStr .s1 "x\n'\"\\ #{};=\n".toList ++ "\nb = 1".toList)
    = .ok [ .defn { name := ['a'], id := some 1, line := some 1 }
              [{ value := "x\n'\"\\ #{};=\n".toList, quote := some .s1, line := some 1 }],
            .defn { name := ['b'], id := some 2, line := some (2 + nlCount "x\n'\"\\ #{};=\n".toList) }
              [{ value := ['1'], quote := none,
                 line := some (2 + nlCount "x\n'\"\\ #{};=\n".toList) }] ] :=
  doc_quote _ _

end Phil.C03
