/-
  C12 as a DENOTATIONAL closed form.

  "During fetch, $name / $(name) in an unquoted or double-quoted word is replaced by the value of the
  nearest definition of that (possibly dotted, possibly root-anchored) name that appears earlier in the
  same source — searching the enclosing scopes outward — falling back to the process environment and
  otherwise raising 'Undefined variable' with the source line; text in single quotes and text without
  '$' is passed through untouched.  A word that is exactly one unquoted variable takes over the
  referenced words as they are; any other mixture becomes one double-quoted string.  Definitions
  appearing later in the file, and the environment when an earlier definition exists, never influence
  the result, and resolution always terminates."

  The SPECIFICATION (Phil/Proofs/VarsSpec.lean, part A; no fuel, no lookup loop):

  * `objAt root pos`, `idAt root pos`         the object / its id at a tree position;
  * `earlier n o`                             `o` was numbered before `n` (its id is `< n`);
  * `findIn n comps objs`                     one scope: the LAST object (document order) among those
                                              numbered before `n` that the dotted name `comps` denotes,
                                              component by component (structural recursion on `comps`);
  * `searchScopes n comps root scopePos`      the enclosing scopes from the innermost outward
                                              (structural recursion on the position);
  * `nearestEarlier root pos name`            the object a `$name` in the definition at `pos` refers to
                                              (a leading '.' anchors the name at the root);
  * `substWord env diff ref w`                one word, given the meaning `ref` of the variables;
  * `denote env root pos diff`                the value of the definition at `pos`; recursion on the id
                                              of the referencing definition (well founded because
                                              `nearestEarlier` only designates objects with a smaller id);
  * `DocIds root`                             well-formedness of a parsed document (decidable).

  The THEOREM: on documents numbered like the parser numbers them, the operational model
  (`resolveAt`: `lexicalGet` with fuel, `resolveWords` with fuel) computes exactly `denote`.

  Lemmas: Phil/Proofs/VarsSpec.lean (part B) and Phil/Proofs/VarsLemmas.lean.
-/
import Phil.Proofs.VarsSpec
set_option linter.unusedVariables false
namespace Phil.C12
open Phil

/-! ### 1. the operational model computes the specification -/

/-- **Main theorem.**  For every environment, every document whose ids are the parser's
    document-order numbering (`DocIds`), every tree position and both modes of `resolve_variables`:
    `resolveAt` (the model of `definition.resolve_variables`) equals `denote`.  This covers dotted and
    root-anchored names, redefinitions, shadowing, references to scopes, undefined names, syntax
    errors in `$…`, and positions that are not definitions (both sides: the same `unsupported`). -/
theorem resolveAt_eq_denote (env : Env) (root : List Obj) (hd : DocIds root) (pos : List Nat)
    (diff : Bool) : resolveAt env root pos diff = denote env root pos diff :=
  resolveAt_eq_denote_vs env root hd pos diff

/-- the form of the task statement (`diff_mode = False`) -/
theorem resolveAt_eq_denote_fetch (env : Env) (root : List Obj) (hd : DocIds root) (pos : List Nat) :
    resolveAt env root pos false = denote env root pos :=
  resolveAt_eq_denote_vs env root hd pos false

/-- **The operational lookup is `nearestEarlier`.**  For the definition `d` at `pos` (id `n`, enclosing
    chain `ch`) and every variable name `fragments` can produce (`GoodName`: after an optional leading
    '.', non-empty components), `scope.lexical_get` with the fuel `resolveWords` passes returns the
    object at the position `nearestEarlier` designates, together with its enclosing chain. -/
theorem lexicalGet_eq_nearestEarlier (root : List Obj) (hd : DocIds root) (pos : List Nat) (d : Obj)
    (ch : Chain) (n : Nat) (hc : chainAt root pos [] = some (d, ch)) (hid : d.meta.id = some n)
    (name : Str) (hg : GoodName name) :
    lexicalGet (2 * name.length + ch.length + 1) ch name n true
      = (nearestEarlier root pos name).bind (fun p => chainAt root p []) := by
  rw [lexicalGet_nearestEarlier_vs root hd.1 pos d ch n hc hid name hg]
  unfold foundOr
  cases nearestEarlier root pos name <;> rfl

/-- every variable name that `fragments` produces is a `GoodName` -/
theorem fragments_good_names (value : Str) (frags : List Fragment) (hv : Bool)
    (h : fragments value = .ok (frags, hv)) : ∀ name, Fragment.var name ∈ frags → GoodName name :=
  fragments_good_vs value frags hv h

/-! ### 2. what the specification says, clause by clause -/

/-- **Earlier in the same source.**  Whatever `nearestEarlier` designates exists in the document and
    has an id strictly smaller than the id of the referencing definition. -/
theorem nearestEarlier_is_earlier_spec (root : List Obj) (pos : List Nat) (name : Str) (p : List Nat)
    (h : nearestEarlier root pos name = some p) :
    ∃ n o i, idAt root pos = some n ∧ objAt root p = some o ∧ o.meta.id = some i ∧ i < n := by
  obtain ⟨n, o, hn, ho, he⟩ := nearestEarlier_earlier_vs root pos name p h
  obtain ⟨i, hi, hlt⟩ := earlier_id_vs he
  exact ⟨n, o, i, hn, ho, hi, hlt⟩

/-- **Unfolding of `denote`** at a definition: every word is substituted, variables mean `refOf`:
    `.undefined` if `nearestEarlier` finds nothing, `.notDefinition` if it finds a scope, the value
    `denote env root p false` of the definition at the position `p` it finds otherwise. -/
theorem denote_unfold_spec (env : Env) (root : List Obj) (pos : List Nat) (diff : Bool) (m : Meta)
    (ws : List Word) (h : objAt root pos = some (.defn m ws)) :
    denote env root pos diff
      = (ws.mapM (substWord env diff (refOf env root pos))).map List.flatten :=
  denote_defn_vs env root pos diff m ws h

/-- **Untouched.**  A definition all of whose words are single-quoted or free of '$' denotes exactly
    its words — in every environment, every document (no well-formedness needed), both modes. -/
theorem single_quote_untouched_spec (env : Env) (root : List Obj) (pos : List Nat) (diff : Bool)
    (m : Meta) (ws : List Word) (h : objAt root pos = some (.defn m ws))
    (hw : ∀ w ∈ ws, w.quote = some .s1 ∨ '$' ∉ w.value) :
    denote env root pos diff = .ok ws := by
  rw [denote_defn_vs env root pos diff m ws h, mapM_untouched_vs env diff _ ws hw]
  simp [Except.map, flatten_singletons_vs]

/-- one word: single-quoted or without '$' → the word itself -/
theorem substWord_untouched_spec (env : Env) (diff : Bool) (ref : Str → VarRef) (w : Word)
    (h : w.quote = some .s1 ∨ '$' ∉ w.value) : substWord env diff ref w = .ok [w] := by
  have := mapM_untouched_vs env diff ref [w] (by simpa using h)
  rw [mapM_cons_vs, mapM_nil_vs] at this
  cases hs : substWord env diff ref w with
  | error e => simp [hs] at this
  | ok b => simpa [hs] using this

/-- **Sole variable.**  An unquoted word that is exactly one variable denotes the words of that
    variable as they are (number of words, quotes and line numbers included). -/
theorem sole_variable_spec (env : Env) (diff : Bool) (ref : Str → VarRef) (w : Word) (name : Str)
    (r : R (List Word)) (hq : w.quote = none) (hf : fragments w.value = .ok ([.var name], true))
    (href : ref name = .value r) : substWord env diff ref w = r := by
  rw [substWord_sole_vs env diff ref w name hq hf]
  simp [varWords, href]

/-- **Mixture.**  A word with variables that is quoted (not single-quoted) or has more than one
    fragment denotes ONE double-quoted word: the concatenation of the literal fragments and of the
    blank-joined values of the variables (or the error of the first failing variable). -/
theorem mixture_spec (env : Env) (diff : Bool) (ref : Str → VarRef) (w : Word)
    (frags : List Fragment) (hq : w.quote ≠ some .s1) (hf : fragments w.value = .ok (frags, true))
    (hmix : w.quote.isSome ∨ frags.length > 1) :
    substWord env diff ref w
      = (frags.mapM (fragText env diff ref w)).map (fun texts => [wordDq texts.flatten]) := by
  apply substWord_forced_vs env diff ref w frags (by simpa using hq) hf
  cases hmix with
  | inl h => simp [h]
  | inr h => simp [h]

/-- **Fallbacks.**  A variable without an earlier object is the environment's value as one
    double-quoted word; without that, the error 'Undefined variable' with the line of the word that
    contains it.  A variable whose nearest earlier object is a scope is the error 'Not a definition'
    with that line.  In `diff` mode an undefined variable stays as the text `$name`. -/
theorem varWords_cases_spec (env : Env) (ref : Str → VarRef) (w : Word) (name : Str) :
    (ref name = .undefined → env name = none →
      varWords env false ref w name = .error (.runtime "undefined_variable" w.line)) ∧
    (∀ v, ref name = .undefined → env name = some v →
      varWords env false ref w name = .ok [{ value := v, quote := some .d1 }]) ∧
    (ref name = .undefined →
      varWords env true ref w name = .ok [{ value := '$' :: name, quote := some .d1 }]) ∧
    (∀ diff, ref name = .notDefinition →
      varWords env diff ref w name = .error (.runtime "not_a_definition" w.line)) ∧
    (∀ diff r, ref name = .value r → varWords env diff ref w name = r) := by
  refine ⟨?_, ?_, ?_, ?_, ?_⟩
  · intro h1 h2; simp [varWords, h1, h2]
  · intro v h1 h2; simp [varWords, h1, h2, wordDq]
  · intro h1; simp [varWords, h1, wordDq]
  · intro diff h1; simp [varWords, h1]
  · intro diff r h1; simp [varWords, h1]

/-! ### 3. later objects, the environment, termination — on the specification -/

/-- **Later objects are irrelevant.**  Two well-formed documents with the same words (and the same
    id `n`) at position `pos` that agree on everything before that definition — `pruneBeforeList n` cuts, at
    every depth, everything from the first object numbered `≥ n` onwards: the definition itself and
    all that follows it in the source — give the definition the same value.  So everything at or after
    the referencing definition can be changed or deleted. -/
theorem later_objects_irrelevant_spec (env : Env) (root1 root2 : List Obj) (hd1 : DocIds root1)
    (hd2 : DocIds root2) (pos : List Nat) (diff : Bool) (m1 m2 : Meta) (ws : List Word) (n : Nat)
    (h1 : objAt root1 pos = some (.defn m1 ws)) (h2 : objAt root2 pos = some (.defn m2 ws))
    (hid1 : m1.id = some n) (hid2 : m2.id = some n)
    (hp : pruneBeforeList n root1 = pruneBeforeList n root2) :
    denote env root1 pos diff = denote env root2 pos diff :=
  later_irrelevant_vs env root1 root2 hd1 hd2 pos diff m1 m2 ws n h1 h2 hid1 hid2 hp

/-- **The environment is only a fallback** (one variable).  When an earlier object of that name
    exists, the words the variable contributes depend on the environment only through the value of
    the referenced definition; the environment entry of the same name is never consulted. -/
theorem env_irrelevant_when_defined_spec (env1 env2 : Env) (root : List Obj) (pos : List Nat)
    (diff : Bool) (w : Word) (name : Str) (p : List Nat)
    (h : nearestEarlier root pos name = some p)
    (hrec : denote env1 root p false = denote env2 root p false) :
    varWords env1 diff (refOf env1 root pos) w name = varWords env2 diff (refOf env2 root pos) w name := by
  unfold varWords refOf
  simp only [h]
  cases objAt root p with
  | none => rfl
  | some o =>
    cases o with
    | scope m k => rfl
    | defn m ws => simp only [hrec]

/-- **The environment is only a fallback** (whole definition).  If the definition has a value with
    the EMPTY environment — every variable, transitively, has an earlier definition — it has the same
    value in every environment. -/
theorem env_irrelevant_when_closed_spec (env : Env) (root : List Obj) (hd : DocIds root)
    (pos : List Nat) (diff : Bool) (r : List Word)
    (h : denote (fun _ => none) root pos diff = .ok r) : denote env root pos diff = .ok r :=
  env_closed_vs env root hd pos diff r h

/-- **Termination.**  `denote` is a total function defined by well-founded recursion on the id of the
    referencing definition: the decreasing step is this fact. -/
theorem references_go_to_smaller_ids_spec (root : List Obj) (pos : List Nat) (name : Str) (p : List Nat)
    (h : nearestEarlier root pos name = some p) :
    (idAt root p).getD 0 < (idAt root pos).getD 0 :=
  nearestEarlier_id_lt_vs root pos name p h

/-- … and the operational model, on well-formed documents, therefore never runs out of fuel. -/
theorem resolveAt_never_outOfFuel (env : Env) (root : List Obj) (hd : DocIds root) (pos : List Nat)
    (diff : Bool) : resolveAt env root pos diff ≠ .error .outOfFuel := by
  unfold resolveAt
  cases hc : chainAt root pos [] with
  | none => simp
  | some x =>
    obtain ⟨o, ch⟩ := x
    cases o with
    | scope m k => simp
    | defn m ws =>
      have ho := chainAt_objAt_vs pos root [] _ ch hc
      cases hid : m.id with
      | none => simp [hid]
      | some n =>
        have hle := idsLe_objAt_vs (sizeList root) pos root _ n hd.2 ho hid
        rw [sizeList_eq_countObjs_vs] at hle
        simp only [hid]
        exact resolveWords_not_outOfFuel env _ ch n ws diff (by omega)

/-! ### 4. kernel-checked instances through the parser (`decide +kernel`) -/

/-- used by the concrete examples only (`decide +kernel`) -/
local instance exceptDecEqC12 {ε α : Type} [DecidableEq ε] [DecidableEq α] : DecidableEq (Except ε α) := fun a b =>
  match a, b with
  | .ok x, .ok y => if h : x = y then isTrue (by rw [h]) else isFalse (fun e => h (by cases e; rfl))
  | .error x, .error y => if h : x = y then isTrue (by rw [h]) else isFalse (fun e => h (by cases e; rfl))
  | .ok _, .error _ => isFalse (fun e => by cases e)
  | .error _, .ok _ => isFalse (fun e => by cases e)

mutual
/-- equality test on trees; used by the concrete examples only (`decide +kernel`) -/
def objDecEqC12 : (a b : Obj) → Decidable (a = b)
  | .defn m ws, .defn m' ws' =>
    if h : m = m' ∧ ws = ws' then isTrue (by rw [h.1, h.2])
    else isFalse (fun e => h (by cases e; exact ⟨rfl, rfl⟩))
  | .scope m os, .scope m' os' =>
    if h : m = m' then
      match objsDecEqC12 os os' with
      | isTrue h2 => isTrue (by rw [h, h2])
      | isFalse h2 => isFalse (fun e => h2 (by cases e; rfl))
    else isFalse (fun e => h (by cases e; rfl))
  | .defn _ _, .scope _ _ => isFalse (fun e => by cases e)
  | .scope _ _, .defn _ _ => isFalse (fun e => by cases e)
def objsDecEqC12 : (a b : List Obj) → Decidable (a = b)
  | [], [] => isTrue rfl
  | [], _ :: _ => isFalse (fun e => by cases e)
  | _ :: _, [] => isFalse (fun e => by cases e)
  | x :: xs, y :: ys =>
    match objDecEqC12 x y with
    | isTrue h1 =>
      match objsDecEqC12 xs ys with
      | isTrue h2 => isTrue (by rw [h1, h2])
      | isFalse h2 => isFalse (fun e => h2 (by cases e; rfl))
    | isFalse h1 => isFalse (fun e => h1 (by cases e; rfl))
end
local instance objDecEqInstC12 : DecidableEq Obj := objDecEqC12

/-- the parsed document (empty if the text does not parse) -/
def parsed (text : String) : List Obj := (parseObjs text.toList).toOption.getD []

/-- if the text parses, `parsed text` is what the parser returns -/
theorem parsed_ok (text : String) (h : (parseObjs text.toList).toBool = true) :
    parseObjs text.toList = .ok (parsed text) := by
  unfold parsed
  cases hp : parseObjs text.toList with
  | error e => simp [hp, Except.toBool] at h
  | ok r => simp [Except.toOption]
def envNone : Env := fun _ => none
/-- an environment that defines every variable as `ENV` -/
def envEvery : Env := fun _ => some "ENV".toList
/-- unquoted word of a source line -/
def wl (s : String) (line : Nat) : Word := { value := s.toList, line := some line }
/-- double-quoted word produced by a substitution (no line) -/
def dq (s : String) : Word := { value := s.toList, quote := some .d1 }

/-- redefinition between uses: `c = $a $b` ↦ `2 1` -/
def textRedef : String := "a=1\nb=$a\na=2\nc=$a $b\n"
example : parseObjs textRedef.toList = .ok (parsed textRedef) := parsed_ok _ (by decide +kernel)
example : DocIds (parsed textRedef) := by decide +kernel
example : nearestEarlier (parsed textRedef) [1] "a".toList = some [0] := by decide +kernel
example : nearestEarlier (parsed textRedef) [3] "a".toList = some [2] := by decide +kernel
example : denote envNone (parsed textRedef) [1] = .ok [wl "1" 1] := by decide +kernel
example : denote envNone (parsed textRedef) [3] = .ok [wl "2" 3, wl "1" 1] := by decide +kernel
example : denote envEvery (parsed textRedef) [3] = .ok [wl "2" 3, wl "1" 1] := by decide +kernel
/-- the main theorem applied: the operational model gives the same words -/
example : resolveAt envNone (parsed textRedef) [3] false = .ok [wl "2" 3, wl "1" 1] := by
  rw [resolveAt_eq_denote _ _ (by decide +kernel)]; decide +kernel

/-- shadowing in an inner scope, dotted reference from outside -/
def textShadow : String := "a=outer\ns{\na=inner\nb=$a\n}\nc=$a $(s.b)\n"
example : parseObjs textShadow.toList = .ok (parsed textShadow) := parsed_ok _ (by decide +kernel)
example : DocIds (parsed textShadow) := by decide +kernel
example : nearestEarlier (parsed textShadow) [1, 1] "a".toList = some [1, 0] := by decide +kernel
example : nearestEarlier (parsed textShadow) [2] "a".toList = some [0] := by decide +kernel
example : nearestEarlier (parsed textShadow) [2] "s.b".toList = some [1, 1] := by decide +kernel
example : denote envNone (parsed textShadow) [1, 1] = .ok [wl "inner" 3] := by decide +kernel
example : denote envNone (parsed textShadow) [2] = .ok [wl "outer" 1, wl "inner" 3] := by decide +kernel

/-- searching outward, root-anchored names, two scopes of the same name (the later one is tried
    first, the earlier one when the rest of the name is not found there), a reference to a scope -/
def textScopes : String :=
  "a=top\ns{\nt{\na=1\n}\n}\ns{\na=in\nt{\nb=2\nx=$a $(.a) $(s.t.a) $(t.b)\ny=$t\n}\n}\n"
example : parseObjs textScopes.toList = .ok (parsed textScopes) := parsed_ok _ (by decide +kernel)
example : DocIds (parsed textScopes) := by decide +kernel
example : nearestEarlier (parsed textScopes) [2, 1, 1] "a".toList = some [2, 0] := by decide +kernel
example : nearestEarlier (parsed textScopes) [2, 1, 1] ".a".toList = some [0] := by decide +kernel
example : nearestEarlier (parsed textScopes) [2, 1, 1] "s.t.a".toList = some [1, 0, 0] := by decide +kernel
example : nearestEarlier (parsed textScopes) [2, 1, 1] "t.b".toList = some [2, 1, 0] := by decide +kernel
example : denote envNone (parsed textScopes) [2, 1, 1]
    = .ok [wl "in" 8, wl "top" 1, wl "1" 4, wl "2" 10] := by decide +kernel
/-- `$t` is the enclosing scope `t` itself: 'Not a definition', with the line of the word -/
example : nearestEarlier (parsed textScopes) [2, 1, 2] "t".toList = some [2, 1] := by decide +kernel
example : denote envNone (parsed textScopes) [2, 1, 2] = .error (.runtime "not_a_definition" (some 12)) := by
  decide +kernel

/-- self reference, forward reference, environment fallback, undefined, diff mode -/
def textUndef : String := "x=$x\ny=$z\nz=1\n"
example : parseObjs textUndef.toList = .ok (parsed textUndef) := parsed_ok _ (by decide +kernel)
example : DocIds (parsed textUndef) := by decide +kernel
example : nearestEarlier (parsed textUndef) [0] "x".toList = none := by decide +kernel
example : nearestEarlier (parsed textUndef) [1] "z".toList = none := by decide +kernel
example : denote envNone (parsed textUndef) [0] = .error (.runtime "undefined_variable" (some 1)) := by
  decide +kernel
example : denote envNone (parsed textUndef) [1] = .error (.runtime "undefined_variable" (some 2)) := by
  decide +kernel
example : denote envEvery (parsed textUndef) [1] = .ok [dq "ENV"] := by decide +kernel
example : denote envNone (parsed textUndef) [1] true = .ok [dq "$z"] := by decide +kernel

/-- sole variable keeps the words; mixtures are one double-quoted word; single quotes untouched -/
def textWords : String := "a = 1 \"two words\"\nx = $a pre$a 'lit $a' \"q $a\" plain $(a)$a\n"
example : parseObjs textWords.toList = .ok (parsed textWords) := parsed_ok _ (by decide +kernel)
example : DocIds (parsed textWords) := by decide +kernel
example : denote envNone (parsed textWords) [1]
    = .ok [wl "1" 1, { value := "two words".toList, quote := some .d1, line := some 1 },
           dq "pre1 two words", { value := "lit $a".toList, quote := some .s1, line := some 2 },
           dq "q 1 two words", wl "plain" 2, dq "1 two words1 two words"] := by decide +kernel

/-- dotted definition names are nested scopes sharing the id of the definition they wrap:
    `a.b = $a` does not see its own scope `a` (environment instead), a later definition does -/
def textDotted : String := "a.b=$a\nc=$(a.b)\nd=$a\n"
example : parseObjs textDotted.toList = .ok (parsed textDotted) := parsed_ok _ (by decide +kernel)
example : DocIds (parsed textDotted) := by decide +kernel
example : nearestEarlier (parsed textDotted) [0, 0] "a".toList = none := by decide +kernel
example : denote envEvery (parsed textDotted) [0, 0] = .ok [dq "ENV"] := by decide +kernel
example : denote envEvery (parsed textDotted) [1] = .ok [dq "ENV"] := by decide +kernel
example : denote envEvery (parsed textDotted) [2] = .error (.runtime "not_a_definition" (some 3)) := by
  decide +kernel

/-- `later_objects_irrelevant_spec` applied: everything from `x` on is changed / deleted -/
def textLater1 : String := "a=1\ns{\nb=$a\nx=$b $a\nb=9\n}\na=7\nt{\na=8\n}\n"
def textLater2 : String := "a=1\ns{\nb=$a\nx=$b $a\n}\n"
example : DocIds (parsed textLater1) ∧ DocIds (parsed textLater2) := by decide +kernel
example : denote envNone (parsed textLater1) [1, 1] = denote envNone (parsed textLater2) [1, 1] := by
  have h1 : DocIds (parsed textLater1) := by decide +kernel
  have h2 : DocIds (parsed textLater2) := by decide +kernel
  obtain ⟨m1, hm1⟩ : ∃ m, objAt (parsed textLater1) [1, 1] = some (.defn m [wl "$b" 4, wl "$a" 4]) ∧ m.id = some 4 :=
    ⟨{ name := "x".toList, id := some 4, line := some 4 }, by decide +kernel⟩
  obtain ⟨m2, hm2⟩ : ∃ m, objAt (parsed textLater2) [1, 1] = some (.defn m [wl "$b" 4, wl "$a" 4]) ∧ m.id = some 4 :=
    ⟨{ name := "x".toList, id := some 4, line := some 4 }, by decide +kernel⟩
  exact later_objects_irrelevant_spec envNone _ _ h1 h2 [1, 1] false m1 m2 _ 4 hm1.1 hm2.1 hm1.2 hm2.2
    (by decide +kernel)
example : denote envNone (parsed textLater1) [1, 1] = .ok [wl "1" 1, wl "1" 1] := by decide +kernel

/-- `DocIds` is not vacuous the other way either: a hand-made tree with a missing id or decreasing
    sibling ids is rejected -/
example : ¬ DocIds [.defn { name := "a".toList } []] := by decide +kernel
example : ¬ DocIds [.defn { name := "a".toList, id := some 2 } [], .defn { name := "b".toList, id := some 1 } []] := by
  decide +kernel

end Phil.C12

section Axioms
open Phil.C12
#print axioms resolveAt_eq_denote
#print axioms resolveAt_eq_denote_fetch
#print axioms lexicalGet_eq_nearestEarlier
#print axioms fragments_good_names
#print axioms nearestEarlier_is_earlier_spec
#print axioms denote_unfold_spec
#print axioms single_quote_untouched_spec
#print axioms substWord_untouched_spec
#print axioms sole_variable_spec
#print axioms mixture_spec
#print axioms varWords_cases_spec
#print axioms later_objects_irrelevant_spec
#print axioms env_irrelevant_when_defined_spec
#print axioms env_irrelevant_when_closed_spec
#print axioms references_go_to_smaller_ids_spec
#print axioms resolveAt_never_outOfFuel
#print axioms denote
end Axioms
