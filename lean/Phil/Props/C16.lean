/-
  C16 — User mistakes surface as RuntimeError or Sorry, never as internal errors.  No other exception
  type escapes, and every call returns.

  In the model an escaping exception of any other class is `Err.stray`, a loop bound that was too
  small is `Err.outOfFuel`; `Err.unsupported` marks inputs the model declares outside its domain
  (CPython `eval`, imports …) and says nothing about the implementation.
  Property theorems only; lemmas are in Phil/Proofs/TotalityLemmas.lean.
-/
import Phil.Proofs.TotalityLemmas
namespace Phil.C16
open Phil

/-! ### 1. the tokenizer makes progress -/

/-- Every word returned by `word_iterator.__next__` (any settings) consumes at least one character
    of the input: the basis of "every call returns". -/
theorem nextWord_consumes (s : Settings) (ci : CI) (w : Word) (ci' : CI)
    (h : nextWord s ci = .ok (some (w, ci'))) : ci'.rest.length < ci.rest.length :=
  Phil.nextWord_consumes s ci w ci' h

/-! ### 2. collect_assigned_words -/

/-- a successful `collect_assigned_words` returns at least one word -/
theorem collectAssigned_nonempty (ci : CI) (lead : Word) (ws : List Word) (ci' : CI)
    (h : collectAssigned ci lead = .ok (ws, ci')) : ws ≠ [] :=
  Phil.collectAssigned_nonempty h

/-- it never moves the input backwards past its starting point (`backup()` may return to it) -/
theorem collectAssigned_progress (ci : CI) (lead : Word) (ws : List Word) (ci' : CI)
    (h : collectAssigned ci lead = .ok (ws, ci')) : ci'.rest.length ≤ ci.rest.length :=
  Phil.collectAssigned_progress h

/-- the loop of `collect_assigned_words` ends: fuel above the length of the remaining input is
    never exhausted -/
theorem collectAssignedAux_fuel (fuel : Nat) (ci : CI) (last : Word) (haveComment : Bool)
    (acc : List Word) (hf : ci.rest.length < fuel) :
    collectAssignedAux fuel ci last haveComment acc ≠ .error .outOfFuel :=
  Phil.collectAssignedAux_fuel fuel ci last haveComment acc hf

/-- hence `collect_assigned_words` always returns -/
theorem collectAssigned_total (ci : CI) (lead : Word) : collectAssigned ci lead ≠ .error .outOfFuel :=
  Phil.collectAssigned_ne_outOfFuel ci lead

/-- its only failures: RuntimeError "missing closing quote" (from the tokenizer, with a line) and
    RuntimeError "missing value" citing the line of the lead word -/
theorem collectAssigned_errors (ci : CI) (lead : Word) (e : Err)
    (h : collectAssigned ci lead = .error e) :
    (∃ l, e = .runtime "missing_closing_quote" (some l)) ∨ e = .runtime "missing_value" lead.line :=
  Phil.collectAssigned_errors h

/-! ### 3. attribute values -/

/-- `.type = …`: the expression reader fails with RuntimeError or leaves the modelled domain -/
theorem convFromExpr_errors (expr : Str) (line : Option Nat) (e : Err)
    (h : convFromExpr expr line = .error e) :
    (∃ s l, e = .runtime s l) ∨ (∃ w, e = .unsupported w) :=
  Phil.convFromExpr_errors expr line e h

/-- `bool_from_words` on a non-empty word list fails only with RuntimeError "bool_expected"; the
    `assert len(words) > 0`-style branch of the model (`Err.stray "AssertionError"`) needs `ws = []`,
    which `collect_assigned_words` never delivers (`collectAssigned_nonempty`). -/
theorem boolFromWords_errors (ws : List Word) (hne : ws ≠ []) (e : Err)
    (h : boolFromWords ws = .error e) : e = .runtime "bool_expected" (firstLine ws) :=
  Phil.boolFromWords_errors hne h

/-- the hypothesis `ws ≠ []` is needed: the empty list reaches the stray branch -/
example : boolFromWords [] = .error (.stray "AssertionError" "bool_from_words") := by rfl

theorem intFromWordsLit_errors (ws : List Word) (e : Err) (h : intFromWordsLit ws = .error e) :
    (∃ s l, e = .runtime s l) ∨ (∃ w, e = .unsupported w) :=
  (Err.benign_iff e).1 ((intFromWordsLit_okOrBenign ws).error h)

/-- `definition.assign_attribute` on the words of an attribute assignment -/
theorem defAttrValue_errors (name : String) (ws : List Word) (hne : ws ≠ []) (e : Err)
    (h : defAttrValue name ws = .error e) :
    (∃ s l, e = .runtime s l) ∨ (∃ w, e = .unsupported w) :=
  (Err.benign_iff e).1 ((defAttrValue_okOrBenign name hne).error h)

/-- `scope.assign_attribute` on the words of an attribute assignment -/
theorem scopeAttrValue_errors (name : String) (ws : List Word) (hne : ws ≠ []) (e : Err)
    (h : scopeAttrValue name ws = .error e) :
    (∃ s l, e = .runtime s l) ∨ (∃ w, e = .unsupported w) :=
  (Err.benign_iff e).1 ((scopeAttrValue_okOrBenign name hne).error h)

/-! ### 4. the parser never strays -/

/-- the scope-attribute loop: RuntimeError, outside the domain, or (too little fuel) `outOfFuel` -/
theorem scopeAttrsLoop_no_stray (fuel : Nat) (ci : CI) (w : Word) (attrs : Attrs) (e : Err)
    (h : scopeAttrsLoop fuel ci w attrs = .error e) :
    (∃ s l, e = .runtime s l) ∨ (∃ w, e = .unsupported w) ∨ e = .outOfFuel := by
  rcases Phil.scopeAttrsLoop_no_stray h with h | h
  · rcases (Err.benign_iff e).1 h with h | h
    · exact .inl h
    · exact .inr (.inl h)
  · exact .inr (.inr h)

/-- `collect_objects`, any fuel, any state, any stop token -/
theorem collectObjects_no_stray (fuel : Nat) (st : PState) (stop : Option Word) (prev : Nat)
    (acc : List Obj) (pending : Option Obj) (e : Err)
    (h : collectObjects fuel st stop prev acc pending = .error e) :
    (∃ s l, e = .runtime s l) ∨ (∃ w, e = .unsupported w) ∨ e = .outOfFuel := by
  rcases Phil.collectObjects_no_stray h with h | h
  · rcases (Err.benign_iff e).1 h with h | h
    · exact .inl h
    · exact .inr (.inl h)
  · exact .inr (.inr h)

/-- **C16, parser, "no other exception type escapes"**: `parse(input_string=text)` returns the
    objects, raises RuntimeError, or the text leaves the modelled domain.  No `stray`, no `sorry_`.
    (The third alternative of the requested statement, `e = .outOfFuel`, is excluded by
    `parse_total`; it is kept here so that the statement is the one asked for.) -/
theorem parse_no_stray (text : Str) (e : Err) (h : parseObjs text = .error e) :
    (∃ s l, e = .runtime s l) ∨ (∃ w, e = .unsupported w) ∨ e = .outOfFuel := by
  rcases (Err.benign_iff e).1 (parseObjs_benign text e h) with h | h
  · exact .inl h
  · exact .inr (.inl h)

/-! ### 5. the parser terminates -/

/-- the scope-attribute loop ends, and leaves no more input than it was given -/
theorem scopeAttrsLoop_total (fuel : Nat) (ci : CI) (w : Word) (attrs : Attrs)
    (hf : ci.rest.length < fuel) : scopeAttrsLoop fuel ci w attrs ≠ .error .outOfFuel :=
  Phil.scopeAttrsLoop_total w attrs hf

theorem scopeAttrsLoop_progress (fuel : Nat) (ci : CI) (w : Word) (attrs attrs' : Attrs) (b : Word)
    (ci' : CI) (h : scopeAttrsLoop fuel ci w attrs = .ok (attrs', b, ci')) :
    ci'.rest.length ≤ ci.rest.length :=
  Phil.scopeAttrsLoop_progress h

/-- `collect_objects` (nested scopes included) ends whenever its fuel exceeds the length of the
    remaining input … -/
theorem collectObjects_total (fuel : Nat) (st : PState) (stop : Option Word) (prev : Nat)
    (acc : List Obj) (pending : Option Obj) (hf : st.ci.rest.length < fuel) :
    collectObjects fuel st stop prev acc pending ≠ .error .outOfFuel :=
  Phil.collectObjects_total stop prev acc pending hf

/-- … and never returns a state with more input left than it started with -/
theorem collectObjects_progress (fuel : Nat) (st : PState) (stop : Option Word) (prev : Nat)
    (acc : List Obj) (pending : Option Obj) (objs : List Obj) (st' : PState)
    (h : collectObjects fuel st stop prev acc pending = .ok (objs, st')) :
    st'.ci.rest.length ≤ st.ci.rest.length :=
  Phil.collectObjects_progress h

/-- **C16, parser, "every call returns"**: the loop bound of the model is never hit -/
theorem parse_total (text : Str) : parseObjs text ≠ .error .outOfFuel := fun h =>
  Err.benign_ne_outOfFuel (parseObjs_benign text _ h) rfl

/-- items 4 and 5 together: every failure of `parse` is a RuntimeError or a text outside the
    modelled domain -/
theorem parse_errors (text : Str) (e : Err) (h : parseObjs text = .error e) :
    (∃ s l, e = .runtime s l) ∨ (∃ w, e = .unsupported w) :=
  (Err.benign_iff e).1 (parseObjs_benign text e h)

/-- the same for the root scope returned by `parse` -/
theorem parse_root_errors (text : Str) (e : Err) (h : parse text = .error e) :
    (∃ s l, e = .runtime s l) ∨ (∃ w, e = .unsupported w) := by
  unfold parse at h
  cases hp : parseObjs text with
  | ok os => rw [hp] at h; cases h
  | error e' => rw [hp] at h; cases h; exact parse_errors text _ hp

/-! ### 6. converters on user text -/

/-- `type.from_words(words, master)` for every built-in type, every `eval` oracle and every
    `.optional`: a value, a RuntimeError, or outside the modelled domain -/
theorem fromWords_no_stray (c : Conv) (env : EvalEnv) (opt : AttrVal) (ws : List Word)
    (hne : ws ≠ []) (e : Err) (h : fromWords c env opt ws = .error e) :
    (∃ s l, e = .runtime s l) ∨ (∃ w, e = .unsupported w) :=
  (Err.benign_iff e).1 ((fromWords_okOrBenign c env opt hne).error h)

/-- `ws ≠ []` is needed for `bool` only -/
example : fromWords .bool (fun _ => none) .none [] = .error (.stray "AssertionError" "bool_from_words") := by
  rfl

/-- `choice_converters.fetch`: unless the master's words are plain None/Auto (an `assert` of the
    implementation) the only failure is Sorry "Not a possible choice" listing the alternatives -/
theorem choiceFetch_no_stray (mwords : List Word) (opt : AttrVal) (src : List Word) (ign : Bool)
    (hm : (isPlainNone mwords || isPlainAuto mwords) = false) (e : Err)
    (h : choiceFetch mwords opt src ign = .error e) :
    e = .sorry_ "not_a_possible_choice" (mwords.map (·.value)) :=
  choiceFetch_okOrSorry mwords opt src ign hm e h

/-- the hypothesis on the master is needed -/
example : choiceFetch [{ value := "none".toList }] .none [{ value := "a".toList }]
    = .error (.stray "AssertionError" "choice_fetch") := by rfl

/-! ### non-vacuity: malformed texts and the RuntimeError they produce -/

def errOf {α : Type} (r : R α) : Option Err :=
  match r with
  | .ok _ => none
  | .error e => some e

example : errOf (parseObjs "a = 'unclosed".toList) = some (.runtime "missing_closing_quote" (some 1)) := by
  decide +kernel
example : errOf (parseObjs "s { ".toList) = some (.runtime "no_matching_brace" (some 1)) := by
  decide +kernel
example : errOf (parseObjs "1a = 3".toList) = some (.runtime "improper_definition_name" (some 1)) := by
  decide +kernel
example : errOf (parseObjs "a = ".toList) = some (.runtime "missing_value" (some 1)) := by
  decide +kernel
example : errOf (parseObjs "a".toList) = some (.runtime "unexpected_end" none) := by
  decide +kernel
example : errOf (parseObjs "a b".toList) = some (.runtime "expected" (some 1)) := by
  decide +kernel
example : errOf (parseObjs "{".toList) = some (.runtime "unexpected_open_brace" (some 1)) := by
  decide +kernel
example : errOf (parseObjs "\"a\" = 1".toList) = some (.runtime "unquoted_expected" (some 1)) := by
  decide +kernel
example : errOf (parseObjs "s .bogus = 1 {}".toList) = some (.runtime "unexpected_scope_attribute" (some 1)) := by
  decide +kernel
example : errOf (parseObjs "a = 1\n.bogus = 2".toList)
    = some (.runtime "unexpected_definition_attribute" (some 2)) := by
  decide +kernel
example : errOf (parseObjs "a = 1\n.optional = maybe".toList) = some (.runtime "bool_expected" (some 2)) := by
  decide +kernel
example : errOf (parseObjs "a = 1\n.type = nonsense".toList) = some (.runtime "type_unexpected" (some 2)) := by
  decide +kernel
example : errOf (parseObjs "a = 1\n.type = int(value_min=3,value_max=1)".toList)
    = some (.runtime "type_construct" (some 2)) := by
  decide +kernel
example : errOf (parseObjs "a = 1\n.expert_level = true".toList)
    = some (.runtime "numeric_expected" (some 2)) := by
  decide +kernel
example : errOf (parseObjs "__x__ = 1".toList) = some (.runtime "reserved" (some 1)) := by
  decide +kernel
example : errOf (parseObjs "#phil __BOGUS__".toList) = some (.runtime "unknown_phil" (some 1)) := by
  decide +kernel
example : errOf (parseObjs "s {\n#phil __END__".toList) = some (.runtime "no_matching_brace" (some 1)) := by
  decide +kernel
/-- outside the modelled domain, not a verdict on the implementation -/
example : errOf (parseObjs "a = 1\n.expert_level = 1+1".toList)
    = some (.unsupported "attribute value needs eval") := by
  decide +kernel
/-- a well-formed text with nested scopes parses -/
example : errOf (parseObjs "s { a = 1 } t { b = 2 \n c { d = 3 } }".toList) = none := by
  decide +kernel

example : errOf (collectAssigned ⟨"  ".toList, 1⟩ { value := "a".toList, line := some 1 })
    = some (.runtime "missing_value" (some 1)) := by
  decide +kernel
example : errOf (fromWords (.int {}) (fun _ => some .raises) .none [{ value := "x".toList, line := some 3 }])
    = some (.runtime "numeric_expected" (some 3)) := by
  decide +kernel
example : errOf (fromWords (.choice false) (fun _ => none) .none
      [{ value := "*x".toList, line := some 3 }, { value := "*y".toList }])
    = some (.runtime "choice_multiple" (some 3)) := by
  decide +kernel
example : errOf (fromWords .bool (fun _ => none) .none [{ value := "maybe".toList, line := some 3 }])
    = some (.runtime "bool_expected" (some 3)) := by
  decide +kernel
example : errOf (choiceFetch [{ value := "a".toList }, { value := "b".toList }] .none [{ value := "c".toList }])
    = some (.sorry_ "not_a_possible_choice" ["a".toList, "b".toList]) := by
  decide +kernel

end Phil.C16
