/-
  C15 (closed form for flat documents) — every object and every word reports the 1-based source
  line on which it actually starts.  Setting: a flat document under an arbitrary well-formed layout
  (Phil/Props/C02Layout.lean for the vocabulary: `DefLayout`, `Pre`, `Terminator`, `wfDoc`, `render`).

  The statement is not circular: the line of a definition / of a word is compared with
  `1 + (number of newlines in the text in front of it)`, where "the text in front" is an explicit
  function of the definitions and the layout (`beforeName`, `beforeWord`, defined by recursion without
  any reference to the parser), and `beforeName_is_prefix` / `beforeWord_is_prefix` show that these
  really are the prefixes of the rendered text that end where the name / the word begins.

  Property theorems only; lemmas are in Phil/Proofs/Layout.lean.
-/
import Phil.Props.C02Layout
set_option linter.unusedSimpArgs false
namespace Phil.C15
open Phil

/-- `beforeName ds k` is the part of the text that ends exactly where the name of definition `k`
    begins -/
theorem beforeName_is_prefix (ds : List (DefSpec × DefLayout)) (post : Pre) (k : Nat)
    (d : DefSpec) (L : DefLayout) (hk : ds[k]? = some (d, L)) :
    ∃ tail, render ds post = beforeName ds k ++ (d.1 ++ tail) :=
  beforeName_prefix post ds k d L hk

/-- `beforeWord ds k j` is the part of the text that ends exactly where word `j` of definition `k`
    begins (`w.str` is the spelling of the word: the value, or the quoted and escaped value) -/
theorem beforeWord_is_prefix (ds : List (DefSpec × DefLayout)) (post : Pre)
    (h : wfDoc ds post = true) (k j : Nat) (d : DefSpec) (L : DefLayout) (w : Word)
    (hk : ds[k]? = some (d, L)) (hj : d.2[j]? = some w) :
    ∃ tail, render ds post = beforeWord ds k j ++ (w.str ++ tail) :=
  beforeWord_prefix post ds k j d L w hk (wfDef_gaps_length (wfDoc_get post ds k d L h hk).2) hj

/-- **C15, flat documents.**  For every well-formed layout of a flat document, `parse` returns one
    definition per definition of the document, and for every `k`:
    the `k`-th object is a definition with the `k`-th name, id `k + 1`, and its source line is
    `1 +` the number of newlines in the text in front of its name; it has as many words as the `k`-th
    definition, and its `j`-th word is the `j`-th word (value and quote style) with source line
    `1 +` the number of newlines in the text in front of that word.
    Multi-line quoted words, blank lines, comment lines, `;`-separated definitions on one line and
    `\r\n` line ends are all covered by the layout language. -/
theorem flat_lines_correct (ds : List (DefSpec × DefLayout)) (post : Pre)
    (h : wfDoc ds post = true) :
    ∃ objs, parseObjs (render ds post) = .ok objs ∧ objs.length = ds.length ∧
      ∀ (k : Nat) (d : DefSpec) (L : DefLayout), ds[k]? = some (d, L) →
        ∃ ws, objs[k]? = some (.defn
            { name := d.1, id := some (1 + k), line := some (1 + nlCount (beforeName ds k)) } ws) ∧
          ws.length = d.2.length ∧
          ∀ (j : Nat) (w' : Word), ws[j]? = some w' →
            ∃ w : Word, d.2[j]? = some w ∧ w'.value = w.value ∧ w'.quote = w.quote ∧
              w'.line = some (1 + nlCount (beforeWord ds k j)) := by
  refine ⟨linedObjs [] 1 ds, parseObjs_render_lined ds post h, linedObjs_length ds [] 1, ?_⟩
  intro k d L hk
  obtain ⟨ws, h1, h2, h3⟩ := linedObjs_spec post ds h k d L hk
  refine ⟨ws, h1, h2, ?_⟩
  intro j w' hj
  obtain ⟨w, hw, e⟩ := h3 j w' hj
  exact ⟨w, hw, by rw [e], by rw [e], by rw [e]⟩

/-- the same in one equation: the parse result is `linedObjs [] 1 ds`, the list of definitions in
    which every line is computed from the text in front (see `linedObjs`, `linedWords`) -/
theorem flat_lines_closed_form (ds : List (DefSpec × DefLayout)) (post : Pre)
    (h : wfDoc ds post = true) : parseObjs (render ds post) = .ok (linedObjs [] 1 ds) :=
  parseObjs_render_lined ds post h

/-! ### non-vacuity: the airy layout of C02Layout -/

open Phil.C02 in
/-- the text in front of the name of the third definition of `exAiry` and in front of its second
    word (which follows a two-line quoted word) -/
example : beforeName exAiry 2 =
    ("\n # it's {x}; ok\\n\n\ta \t=  1\r\n" ++
     "# a stand-alone comment read by the value collector\n #'quote\n\t\n" ++
     "b_2 = x*y\t\t\"p q\" it's # trailing; {comment}\n" ++
     "#\n  ").toList ∧
    beforeWord exAiry 2 1 = beforeName exAiry 2 ++ "c = '''l1\nl2''' ".toList ∧
    1 + nlCount (beforeName exAiry 2) = 9 ∧ 1 + nlCount (beforeWord exAiry 2 1) = 10 := by
  decide +kernel

open Phil.C02 in
/-- through the theorem: definition `c` of `exAiry` is on line 9, its second word on line 10 -/
example : ∃ objs ws w', parseObjs (render exAiry exPost) = .ok objs ∧
    objs[2]? = some (.defn { name := "c".toList, id := some 3, line := some 9 } ws) ∧
    ws[1]? = some w' ∧ w'.line = some 10 := by
  obtain ⟨objs, hp, _, hk⟩ := flat_lines_correct exAiry exPost exAiry_wf
  obtain ⟨ws, h1, h2, h3⟩ := hk 2 _ _ rfl
  have hlen : 1 < ws.length := by rw [h2]; decide
  obtain ⟨w, _, _, _, hl⟩ := h3 1 ws[1] (List.getElem?_eq_getElem hlen)
  refine ⟨objs, ws, ws[1], hp, ?_, List.getElem?_eq_getElem hlen, ?_⟩
  · rw [h1]
    have : 1 + nlCount (beforeName exAiry 2) = 9 := by decide +kernel
    rw [this]; rfl
  · rw [hl]
    have : 1 + nlCount (beforeWord exAiry 2 1) = 10 := by decide +kernel
    rw [this]

end Phil.C15
