/-
  C15 (closed form, ONE layout grammar for whole documents): every scope, definition and word of a
  document under the grammar of Phil/Props/C02All.lean — nested scopes to any depth, `!`, dotted names,
  backslash / quoted continuation lines, switched-off regions wherever the main loop reads filler,
  attribute items on definitions and on scope headers, an optional `#phil __END__` cut — reports the
  line `1 +` (number of newlines in the text in front of its first character).

  Property theorems only; lemmas are in Phil/Proofs/LayoutAll.lean.

  * `linedAll xs before i`  — the parse result with every line written as `1 + nlCount (explicit prefix)`;
  * `marksAll xs before`    — for every object of the tree in document order (a scope before its items,
                              a definition before its words; `none` for the position-less scopes of a
                              dotted chain): the text in front of its first character (the `!` if there is
                              one) and what is written there;
  * `allLinesList objs`     — the lines a tree reports, in the same order.
-/
import Phil.Props.C02All
set_option linter.unusedSimpArgs false
namespace Phil.C15
open Phil

attribute [local instance] Phil.C01.objDecEqInst Phil.C01.exceptDecEqRT

/-- the parse result in one equation: every line — of scopes, definitions and words — computed from the
    text in front -/
theorem lines_closed_form_all (xs : List DocItem) (post : Pre3) (e : DocEnd) (h : wfDocAll xs post e = true) :
    parseObjs (renderAll xs post e) = .ok (linedAll xs [] 1) :=
  parseObjs_renderAll_lined xs post e h

/-- every position listed in `marksAll xs []` is a position in the text: `before` is the part of the
    document that ends exactly where `written` (the name with its `!`, or the word with its quotes)
    begins -/
theorem marks_are_positions_all (xs : List DocItem) (post : Pre3) (e : DocEnd) (before written : Str)
    (hm : some (before, written) ∈ marksAll xs []) :
    ∃ tail, renderAll xs post e = before ++ (written ++ tail) := by
  obtain ⟨tail, ht⟩ := marksAll_prefix_all xs [] before written hm
  refine ⟨tail ++ (post.text ++ e.text), ?_⟩
  rw [List.nil_append] at ht
  rw [renderAll, ht]
  simp

/-- **C15, whole documents.**  For every well-formed document of the one grammar `parse` succeeds, and
    the lines its tree reports — scope, then its objects; definition, then its words; in document
    order — are, one for one, `1 +` the number of newlines in front of the first character of that
    scope name / definition name / word (`Mark.line`; `none` for the scopes `scope.adopt` builds for the
    leading components of a dotted name, which have no source position); every listed text is a
    prefix of the document that ends where the name or word begins.  Continuation lines, multi-line
    quoted words, switched-off regions (with any content), comment lines, header attributes between a
    scope's name and its `{`, attribute items, several items on one line are all inside the grammar. -/
theorem lines_correct_all (xs : List DocItem) (post : Pre3) (e : DocEnd) (h : wfDocAll xs post e = true) :
    ∃ objs, parseObjs (renderAll xs post e) = .ok objs ∧
      allLinesList objs = (marksAll xs []).map Mark.line ∧
      ∀ before written, some (before, written) ∈ marksAll xs [] →
        ∃ tail, renderAll xs post e = before ++ (written ++ tail) :=
  ⟨linedAll xs [] 1, lines_closed_form_all xs post e h, linedAll_allLines_all xs [] 1,
    fun before written hm => marks_are_positions_all xs post e before written hm⟩

/-- **The error of a cut inside a scope body cites the right line**: the line of the innermost `{`
    that is open at `#phil __END__` is `1 +` the newlines of the text up to that brace, and that text
    is a prefix of the document. -/
theorem cut_error_line_all (c : CutDoc) (h : c.wf = true) (hd : c.isHere = false) :
    parseObjs c.text = .error (.runtime "no_matching_brace" (some (1 + nlCount (c.openText [] [])))) ∧
    ∃ tail, c.text = c.openText [] [] ++ tail := by
  refine ⟨Phil.C02.cut_inside_scope_fails_all c h hd, ?_⟩
  obtain ⟨tail, ht⟩ := openText_prefix_all c [] [] hd
  exact ⟨tail, by rw [← ht]; rfl⟩

/-! ### non-vacuity: the document of C02All -/

open Phil.C02 in
/-- the lines of the 8 objects and 7 words of the example, from the text: chain scope `a` none, `!a.b`
    5, `x` 8 with words on 8 and 9 (backslash continuation), `c` 12, `y` 12 with words on 12 and 13
    (quoted continuation), chain scope `d` none, `e` 18 with its word, `f` 18 with its word
    (Python reports the same numbers) -/
example : (marksAll exDocAll []).map Mark.line
    = [none, some 5, some 8, some 8, some 9, some 12, some 12, some 12, some 13,
       none, some 18, some 18, some 18, some 18] := by decide +kernel

open Phil.C02 in
/-- one position spelled out: the second word of `y` — the quoted continuation line -/
example : ((marksAll exDocAll [])[8]?).map (fun m => m.map (fun p => (String.ofList p.1, String.ofList p.2)))
    = some (some ("# top\n#phil __OFF__\njunk {\n#phil __ON__\n!a.b\n  .help = \"h\"\n  {\n  x = 1 \\\n    2\n" ++
        "  .expert_level = 2\n  !.help = no\n  c { y = \"q\"\n    ", "\"r\"")) := by decide +kernel

open Phil.C02 in
/-- through the theorem -/
example : ∃ objs, parseObjs (renderAll exDocAll {} exEndAll) = .ok objs ∧
    allLinesList objs = [none, some 5, some 8, some 8, some 9, some 12, some 12, some 12, some 13,
       none, some 18, some 18, some 18, some 18] := by
  obtain ⟨objs, hp, hl, _⟩ := lines_correct_all exDocAll {} exEndAll exDocAll_wf
  exact ⟨objs, hp, by rw [hl]; decide +kernel⟩

open Phil.C02 in
/-- the cut example: the innermost open brace stands at the end of `… .help = h⏎{`, line 6 -/
example : String.ofList (exCutAll.openText [] []) = "a = 1\ns {\n b = 2\n t.u\n .help = h\n{" := by
  decide +kernel

/-! ### sharp edges (kernel-checked, replayed on Python) -/

/-- the lines inside and behind a switched-off region in a scope body are counted: `b` stands on
    line 4 -/
theorem region_in_body_counts_lines :
    (parseObjs "a { #phil __OFF__\nx = 1\n#phil __ON__\n b = 1 }".toList).map allLinesList
      = .ok [some 1, some 4, some 4] := by decide +kernel

/-- a region between a definition and its attribute item does not disturb the lines of the next
    definition -/
theorem region_before_attribute_counts_lines :
    (parseObjs "a = 1\n#phil __OFF__\nzz\n#phil __ON__\n.help = h\nb=2".toList).map allLinesList
      = .ok [some 1, some 1, some 6, some 6] := by decide +kernel

end Phil.C15

#print axioms Phil.C15.lines_closed_form_all
#print axioms Phil.C15.marks_are_positions_all
#print axioms Phil.C15.lines_correct_all
#print axioms Phil.C15.cut_error_line_all
#print axioms Phil.C15.region_in_body_counts_lines
#print axioms Phil.C15.region_before_attribute_counts_lines
