/-
  Phil.Props.Tables — consistency of the model's literal constants with the tables that
  harness/extract_tables.py regenerates from the source on every run (Phil/Generated/Tables.lean).
  Where the model *uses* a generated table (attribute names, bool spellings, tokenizer settings, print
  width) a changed source changes the model itself; where the model carries the constant as a literal
  in its decision logic (match classes, constructor defaults) the theorems below tie literal and
  source: a changed source constant regenerates the table and these `decide`/`rfl` proofs stop checking.
-/
import Phil.CmdLine
import Phil.TypeExpr
namespace Phil.Tables

/-- the match classes of `getPathScore` are the integer constants returned by `get_path_score`, in
    source order — one witness input per `return` statement -/
theorem path_scores_tied :
    [ getPathScore none "zz".toList "a.b".toList,
      getPathScore none "a.b".toList "a.b".toList,
      getPathScore (some "h".toList) "b".toList "h.b".toList,
      getPathScore (some "h".toList) "b".toList "h.a.b".toList,
      getPathScore (some "h".toList) "b".toList "h.ab".toList,
      getPathScore (some "h".toList) "b".toList "h.bc".toList,
      getPathScore none "b".toList "a.b".toList,
      getPathScore none "b".toList "ab".toList,
      getPathScore none "b".toList "bc".toList ]
    = Gen.pathScoreReturns := by decide +kernel

/-- keyword defaults of `number_converters_base.__init__` = the defaults of the model's `NumArgs` -/
theorem number_defaults_tied :
    Gen.numberInitDefaults = ["value_min=None", "value_max=None", "allow_none=True"] ∧
    convFromExpr "int".toList none = .ok (.int { valueMin := none, valueMax := none, allowNone := true }) ∧
    convFromExpr "float".toList none = .ok (.float { valueMin := none, valueMax := none, allowNone := true }) := by
  exact ⟨rfl, rfl, rfl⟩

/-- keyword defaults of `numbers_converters_base.__init__` = the defaults of the model's `ListArgs` -/
theorem numbers_defaults_tied :
    Gen.numbersInitDefaults = ["size=None", "size_min=None", "size_max=None", "value_min=None", "value_max=None",
                               "allow_none_elements=False", "allow_auto_elements=False"] ∧
    convFromExpr "ints".toList none
      = .ok (.ints { sizeMin := none, sizeMax := none, valueMin := none, valueMax := none,
                     allowNoneEl := false, allowAutoEl := false }) := by
  exact ⟨rfl, rfl⟩

/-- `choice_converters.__init__(multi=False)` -/
theorem choice_default_tied :
    Gen.choiceInitDefaults = ["multi=False"] ∧ convFromExpr "choice".toList none = .ok (.choice false) := by
  exact ⟨rfl, rfl⟩

end Phil.Tables
