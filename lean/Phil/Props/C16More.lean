/-
  C16 (remaining entry points) — User mistakes surface as RuntimeError or Sorry, never as internal
  errors; every call returns.  Also the C01/C19-facing fact "printing a parsed tree fails only at two
  named sites".

    A. the printer (`scope.as_str`, `Phil.Show`): the exact failure function (`asStr_error_iff`), the two
       stray sites characterised (`expert_site_iff`, `width_site_iff`), every failure has a witness in the
       tree (`asStr_error_witness`), parser outputs carry only None / Auto / integer expert levels
       (`parsed_expert_levels`; **Auto is reachable and strays** — `parsed_auto_level_strays`, a finding
       replayed on Python), the sharp width bound `2·depth + 26` (`asStr_wide_no_valueerror`,
       `width_bound_sharp`), totality on parser outputs (`asStr_parsed_total`).
    B. variable resolution (`Phil.Vars`).   C. include expansion (`Phil.Include`).
    D. fetch on masters with `.multiple` scopes.   E. the index machine (citations of C20).
  Property theorems only; lemmas are in Phil/Proofs/NoStray2.lean.
-/
import Phil.Proofs.NoStray2
import Phil.Props.C05TreeMS
import Phil.Index
namespace Phil.C16
open Phil

local instance exceptDecEqC16More {ε α : Type} [DecidableEq ε] [DecidableEq α] : DecidableEq (Except ε α) :=
  fun a b =>
  match a, b with
  | .ok x, .ok y => if h : x = y then isTrue (by rw [h]) else isFalse (fun h' => by cases h'; exact h rfl)
  | .error x, .error y => if h : x = y then isTrue (by rw [h]) else isFalse (fun h' => by cases h'; exact h rfl)
  | .ok _, .error _ => isFalse (fun h => by cases h)
  | .error _, .ok _ => isFalse (fun h => by cases h)

/-! ### A. the printer -/

/-- **Exact failure function of `scope.as_str`.**  For every tree, every expert level, attributes level,
    width and prefix: printing fails with `e` iff `showFail` — a structural recursion over the tree that
    visits the sites in print order — returns `e`.  (Validated against Python on 600 random parsed
    documents × options: same exception class in every case.) -/
theorem asStr_error_iff (o : ShowOpts) (root : Obj) (pre : Str) (e : Err) :
    asStr o root pre = .error e ↔ showFail o root pre.length = some e := by
  rw [← asStr_fail_n2, errOf_eq_some_n2]

theorem asStr_ok_iff (o : ShowOpts) (root : Obj) (pre : Str) :
    (∃ s, asStr o root pre = .ok s) ↔ showFail o root pre.length = none := by
  rw [← asStr_fail_n2, errOf_eq_none_n2]

/-- **Stray site 1, `self.expert_level > expert_level`** fires iff the gate is on (`expert_level=k`,
    `k ≥ 0`) and the object's own level is neither unset nor an integer. -/
theorem expert_site_iff (own : AttrVal) (k : Option Int) (e : Err) :
    expertHidden own k = .error e ↔
      e = .stray "TypeError" "expert_level_compare" ∧ (∃ k', k = some k' ∧ 0 ≤ k') ∧ expertOkVal own = false := by
  constructor
  · intro h
    have := expertHidden_fail_n2 own k
    rw [h] at this
    exact expertFail_cases_n2 _ _ _ this.symm
  · rintro ⟨h1, ⟨k', h2, h3⟩, h4⟩
    subst h1 h2
    cases own <;> simp [expertOkVal] at h4 <;> simp [expertHidden, h3]

/-- **Stray site 2, `textwrap.wrap(width ≤ 0)`** fires for a shown attribute iff its value is a string
    that has to be quoted (not an identifier, or None/Auto, or too long for the line) and
    `width ≤ indent + 2`, where `indent = |prefix| + |name| + 6`. -/
theorem width_site_iff (pre : Str) (width : Int) (name : String) (v : AttrVal) :
    attrLines pre width name v = .error (.stray "ValueError" "textwrap_width") ↔
      ∃ s, v = .str s ∧ needsQuote (pre.length + (3 + name.length + 3)) width s = true ∧
        width ≤ ((pre.length + (3 + name.length + 3) + 2 : Nat) : Int) := by
  rw [← errOf_eq_some_n2, attrLines_fail_n2]
  cases v with
  | str s =>
    simp only [attrFail]
    constructor
    · intro h
      split at h
      · rename_i hq
        split at h
        · rename_i hw; exact ⟨s, rfl, hq, hw⟩
        · split at h <;> cases h
      · cases h
    · rintro ⟨s', hs, hq, hw⟩
      cases hs
      rw [if_pos hq, if_pos hw]
  | none => simp [attrFail]
  | auto => simp [attrFail]
  | bool b => simp [attrFail]
  | int i => simp [attrFail]
  | conv c => simp [attrFail]

/-- **Every failure of the printer has a witness in the tree** (any tree, any options): an object whose
    expert level is neither unset nor an integer (gate on), or a string attribute `n` with
    `width ≤ |prefix| + 2·depth + |n| + 8` (attributes shown), or a tab in a wrapped value (outside the
    model). -/
theorem asStr_error_witness (o : ShowOpts) (root : Obj) (pre : Str) (e : Err)
    (h : asStr o root pre = .error e) :
    ShowWitness o (metasOf root) (pre.length + 2 * showDepth root) e :=
  (showFail_witness_n2 o).1 root pre.length e ((asStr_error_iff o root pre e).1 h)

/-- the error classes of printing: the two stray sites, or outside the model; never RuntimeError,
    Sorry or `outOfFuel` -/
theorem asStr_error_classes (o : ShowOpts) (root : Obj) (pre : Str) (e : Err)
    (h : asStr o root pre = .error e) :
    e = .stray "TypeError" "expert_level_compare" ∨ e = .stray "ValueError" "textwrap_width" ∨
      e = .unsupported "tab in wrapped attribute" := by
  rcases asStr_error_witness o root pre e h with h1 | h1 | h1
  · exact .inl h1.1
  · exact .inr (.inl h1.1)
  · exact .inr (.inr h1)

/-- **Parser outputs**: `is_template = 0` and every `.expert_level` is None, Auto or an integer
    (`int_from_words`), on every object of every parsed text. -/
theorem parsed_expert_levels (text : Str) (objs : List Obj) (h : parseObjs text = .ok objs) :
    ∀ m ∈ metasOfs objs, m.tmpl = 0 ∧ expertShape (m.attrs.get "expert_level") = true := by
  intro m hm
  have := pshape_metas_n2.2 objs (parseObjs_pshape_n2 text objs h) m hm
  simp only [metaShape, Bool.and_eq_true, decide_eq_true_eq] at this
  exact ⟨this.1, attrsShape_get_n2 this.2⟩

/-- **The requested statement "parser outputs never carry a non-integer expert level" is false**:
    `.expert_level = Auto` is accepted by the parser (definitions and scopes) and printing the parsed
    tree with the gate on raises TypeError.  Python (replayed): `parse("a = 1\n.expert_level = Auto\n")
    .as_str(expert_level=0)` → `TypeError: '>' not supported between instances of 'AutoType' and 'int'`. -/
theorem parsed_auto_level_strays :
    (parseObjs "a = 1\n.expert_level = Auto\n".toList).map (fun objs =>
        (asStr { expert := some 0 } (rootOf objs), asStr { expert := none } (rootOf objs)))
      = .ok (.error (.stray "TypeError" "expert_level_compare"), .ok "a = 1\n".toList) ∧
    (parseObjs "s\n.expert_level = Auto\n{\n}\n".toList).map (fun objs =>
        asStr { expert := some 3 } (rootOf objs))
      = .ok (.error (.stray "TypeError" "expert_level_compare")) := by
  decide +kernel

/-- On parser outputs the TypeError needs an `Auto` level and the gate on: with `expert_level=None`,
    a negative level, or no `.expert_level = Auto` in the text, printing never raises it. -/
theorem asStr_parsed_no_typeerror (o : ShowOpts) (text : Str) (objs : List Obj) (pre : Str)
    (h : parseObjs text = .ok objs)
    (hgate : o.expert = none ∨ (∃ k, o.expert = some k ∧ k < 0) ∨
      ∀ m ∈ metasOfs objs, m.attrs.get "expert_level" ≠ .auto) :
    asStr o (rootOf objs) pre ≠ .error (.stray "TypeError" "expert_level_compare") := by
  intro herr
  rcases asStr_error_witness o _ pre _ herr with ⟨_, ⟨k, hk, hk0⟩, m, hm, hbad⟩ | ⟨h1, _⟩ | h1
  · rcases hgate with hg | ⟨k', hk', hneg⟩ | hg
    · rw [hg] at hk; cases hk
    · rw [hk'] at hk; cases hk; omega
    · simp only [rootOf, metasOf, List.mem_cons] at hm
      rcases hm with hm | hm
      · subst hm; simp [Attrs.get, expertOkVal] at hbad
      · have hs := (parsed_expert_levels text objs h m hm).2
        have hna := hg m hm
        cases hv : m.attrs.get "expert_level" <;> rw [hv] at hs hbad hna <;>
          simp [expertShape, expertOkVal] at hs hbad hna
  · exact absurd h1 (by decide)
  · cases h1

/-- **Width bound, any tree.**  With `print_width ≥ |prefix| + 2·depth + 26` (depth = number of nested
    `name {` blocks) `textwrap.wrap` is never called with a non-positive width. -/
theorem asStr_wide_no_valueerror (o : ShowOpts) (root : Obj) (pre : Str)
    (hw : ((pre.length + 2 * showDepth root + 26 : Nat) : Int) ≤ o.width) :
    asStr o root pre ≠ .error (.stray "ValueError" "textwrap_width") := by
  intro herr
  rcases asStr_error_witness o _ pre _ herr with ⟨h1, _⟩ | ⟨_, _, m, _, n, hn, s, _, hle⟩ | h1
  · exact absurd h1 (by decide)
  · have := attrName_length_n2 n hn
    omega
  · cases h1

/-- **The bound is sharp**: a scope at depth 0 whose `.sequential_format` (the longest attribute name,
    17 characters) is a string that needs quotes fails at width 25 and prints at width 26.  Python
    (replayed): `parse('s\n.sequential_format = "%d x"\n{\n}\n').as_str(attributes_level=2,
    print_width=25)` → `ValueError: invalid width 0 (must be > 0)`; width 26 prints. -/
theorem width_bound_sharp :
    let t : Obj := .scope { name := "s".toList, attrs := [("sequential_format", .str "%d x".toList)] } []
    showDepth t = 1 ∧
    asStr { level := 2, width := 25 } t = .error (.stray "ValueError" "textwrap_width") ∧
    asStr { level := 2, width := 26 } t
      = .ok "s\n  .sequential_format = \"%d\"\n                       \"x\"\n{\n}\n".toList := by
  decide +kernel

/-- the same through the parser, for the longest string attribute the model parses (`short_caption`):
    width 21 fails, width 22 prints.  Python (replayed): same. -/
theorem width_bound_sharp_parsed :
    (parseObjs "a = 1\n.short_caption = x y\n".toList).map (fun objs =>
        (asStr { level := 2, width := 21 } (rootOf objs), asStr { level := 2, width := 22 } (rootOf objs)))
      = .ok (.error (.stray "ValueError" "textwrap_width"),
             .ok "a = 1\n  .short_caption = \"x\"\n                   \"y\"\n".toList) := by
  decide +kernel

/-- **Printing a parsed tree is total** (C01/C19 support): for every text the parser accepts, every
    attributes level, every expert level other than "gate on with an `Auto` level in the text", and every
    width `≥ |prefix| + 2·depth + 26`, `as_str` returns a string — or the tree has a tab inside an
    attribute string that must be wrapped, which is outside the model. -/
theorem asStr_parsed_total (o : ShowOpts) (text : Str) (objs : List Obj) (pre : Str)
    (h : parseObjs text = .ok objs)
    (hgate : o.expert = none ∨ (∃ k, o.expert = some k ∧ k < 0) ∨
      ∀ m ∈ metasOfs objs, m.attrs.get "expert_level" ≠ .auto)
    (hw : ((pre.length + 2 * showDepths objs + 26 : Nat) : Int) ≤ o.width) :
    (∃ s, asStr o (rootOf objs) pre = .ok s) ∨
      asStr o (rootOf objs) pre = .error (.unsupported "tab in wrapped attribute") := by
  cases hr : asStr o (rootOf objs) pre with
  | ok s => exact .inl ⟨s, rfl⟩
  | error e =>
    refine .inr ?_
    rcases asStr_error_classes o _ pre e hr with h1 | h1 | h1
    · subst h1; exact absurd hr (asStr_parsed_no_typeerror o text objs pre h hgate)
    · subst h1
      refine absurd hr (asStr_wide_no_valueerror o _ pre ?_)
      have : showDepth (rootOf objs) = showDepths objs := by simp [rootOf, showDepth]
      rw [this]; exact hw
    · rw [h1]

/-- at attributes level 0 (the default) no attribute is printed: the width plays no role and the result
    is always a string -/
theorem asStr_parsed_level0_total (o : ShowOpts) (text : Str) (objs : List Obj) (pre : Str)
    (h : parseObjs text = .ok objs) (hl : o.level ≤ 0)
    (hgate : o.expert = none ∨ (∃ k, o.expert = some k ∧ k < 0) ∨
      ∀ m ∈ metasOfs objs, m.attrs.get "expert_level" ≠ .auto) :
    ∃ s, asStr o (rootOf objs) pre = .ok s := by
  cases hr : asStr o (rootOf objs) pre with
  | ok s => exact ⟨s, rfl⟩
  | error e =>
    exfalso
    rcases asStr_error_witness o _ pre e hr with ⟨h1, _⟩ | ⟨_, h2, _⟩ | h1
    · subst h1; exact asStr_parsed_no_typeerror o text objs pre h hgate hr
    · omega
    · subst h1
      have hf := (asStr_error_iff o _ pre _).1 hr
      -- at level ≤ 0 `attrsFail` is `none`, so the tab case cannot arise either
      have : ∀ plen attrs names, attrsFail plen o.level o.width attrs names = none := by
        intro plen attrs names; simp [attrsFail, hl]
      exact level0_no_tab o hl _ _ hf
where
  level0_no_tab (o : ShowOpts) (hl : o.level ≤ 0) (x : Obj) (plen : Nat)
      (h : showFail o x plen = some (.unsupported "tab in wrapped attribute")) : False := by
    have key : ∀ (n : Nat),
        (∀ (x : Obj) (plen : Nat), sizeOf x ≤ n → showFail o x plen ≠ some tabErr) ∧
        (∀ (xs : List Obj) (plen : Nat), sizeOf xs ≤ n → showFails o xs plen ≠ some tabErr) := by
      have ha : ∀ plen attrs names, attrsFail plen o.level o.width attrs names = none := by
        intro plen attrs names; simp [attrsFail, hl]
      have hexp : ∀ own e, expertHidden own o.expert = .error e → e ≠ tabErr := by
        intro own e h he
        have := (expert_site_iff own o.expert e).1 h
        rw [he] at this
        cases this.1
      intro n
      induction n with
      | zero =>
        constructor
        · intro x plen hs; cases x <;> simp at hs
        · intro xs plen hs
          cases xs with
          | nil => simp [showFails]
          | cons a b => simp at hs
      | succ n ih =>
        constructor
        · intro x plen hs h
          cases x with
          | defn m ws =>
            simp only [showFail, ha] at h
            split at h
            · cases h
            · split at h
              · cases h
              · split at h
                · rename_i e' he; cases h; exact hexp _ _ he rfl
                · cases h
                · cases h
          | scope m objs =>
            have hsz : sizeOf objs ≤ n := by simp at hs; omega
            simp only [showFail, ha] at h
            split at h
            · cases h
            · split at h
              · rename_i e' he; cases h; exact hexp _ _ he rfl
              · cases h
              · split at h
                · exact ih.2 _ _ hsz h
                · split at h
                  · exact ih.2 _ _ hsz h
                  · exact ih.2 _ _ hsz h
        · intro xs plen hs h
          cases xs with
          | nil => simp [showFails] at h
          | cons a b =>
            have h1 : sizeOf a ≤ n := by simp at hs; omega
            have h2 : sizeOf b ≤ n := by simp at hs; omega
            simp only [showFails] at h
            split at h
            · rename_i e' he; cases h; exact ih.1 _ _ h1 he
            · exact ih.2 _ _ h2 h
    exact (key (sizeOf x)).1 x plen (Nat.le_refl _) h

/-- non-vacuity of `asStr_parsed_total`: a nested text with attributes, integer levels, printed with the
    gate on at attributes level 2 and the minimal width of the theorem (depth 2 → 30) -/
example :
    (parseObjs "s\n  .help = some words here\n{\n  t {\n    a = 1\n      .expert_level = 2\n      .caption = x y z\n  }\n}\n".toList).map
      (fun objs => (showDepths objs, (metasOfs objs).all (fun m => m.attrs.get "expert_level" != .auto),
        (asStr { expert := some 3, level := 2, width := 30 } (rootOf objs)).toOption.isSome))
      = .ok (2, true, true) := by
  decide +kernel


/-! ### B. variable resolution (`definition.resolve_variables`, `Phil.Vars`) -/

/-- the fragment scanner of `variable_substitution_proxy` fails only with its three syntax errors; the
    model's loop bound (site "fuel") is never reported -/
theorem fragments_errors (v : Str) (e : String) (h : fragments v = .error e) :
    e ∈ ["dollar_identifier", "missing_paren", "improper_variable_name"] :=
  fragments_errors_n2 v e h

/-- **`resolve_variables`, any document, any chain, any fuel**: a value, or RuntimeError at one of the
    five named sites (`varsSites`: `$` without identifier, missing `)`, improper variable name, "Not a
    definition", "Undefined variable"), or a referenced definition without id (outside the domain), or
    the loop bound.  Never `stray`, never Sorry. -/
theorem resolveWords_no_stray (env : Env) (f : Nat) (chain : Chain) (id : Nat) (ws : List Word)
    (diff : Bool) (e : Err) (h : resolveWords env f chain id ws diff = .error e) :
    (∃ s ∈ varsSites, ∃ l, e = .runtime s l) ∨ e = .unsupported "referenced definition without id" ∨
      e = .outOfFuel :=
  resolveWords_errors_n2 env f chain id ws diff e h

/-- **`resolve_variables` on a parsed document** (every text, every position, every environment, both
    modes): a value, RuntimeError at a named site, or outside the domain.  No `stray`, no `outOfFuel`:
    every call returns. -/
theorem resolveAt_parsed_no_stray (env : Env) (text : Str) (root : List Obj) (pos : List Nat) (diff : Bool)
    (hp : parseObjs text = .ok root) (e : Err) (h : resolveAt env root pos diff = .error e) :
    (∃ s ∈ varsSites, ∃ l, e = .runtime s l) ∨ (∃ w, e = .unsupported w) := by
  rcases resolveAt_errors_n2 env root pos diff e h with (h1 | h1 | h1) | h1 | h1
  · exact .inl h1
  · exact .inr ⟨_, h1⟩
  · subst h1
    exact absurd h (resolveAt_ne_outOfFuel_n2 env root (C12.parse_docIds_pid text root hp) pos diff)
  · exact .inr ⟨_, h1⟩
  · exact .inr ⟨_, h1⟩

/-- the same on any tree: the loop bound is the only further outcome (it needs ids out of order, which the
    parser never produces) -/
theorem resolveAt_no_stray (env : Env) (root : List Obj) (pos : List Nat) (diff : Bool) (e : Err)
    (h : resolveAt env root pos diff = .error e) :
    (∃ s ∈ varsSites, ∃ l, e = .runtime s l) ∨ (∃ w, e = .unsupported w) ∨ e = .outOfFuel := by
  rcases resolveAt_errors_n2 env root pos diff e h with (h1 | h1 | h1) | h1 | h1
  · exact .inl h1
  · exact .inr (.inl ⟨_, h1⟩)
  · exact .inr (.inr h1)
  · exact .inr (.inl ⟨_, h1⟩)
  · exact .inr (.inl ⟨_, h1⟩)

/-- every listed site is reached from a parsed text (position of the last definition, empty
    environment), with the line of the offending word -/
theorem vars_sites_reached :
    let at_ (t : String) (i : Nat) : Option Err :=
      match parseObjs t.toList with
      | .ok root => errOf (resolveAt (fun _ => none) root [i] false)
      | .error _ => none
    at_ "a = $x\n" 0 = some (.runtime "undefined_variable" (some 1)) ∧
    at_ "s { b = 1 }\na = $s\n" 1 = some (.runtime "not_a_definition" (some 2)) ∧
    at_ "a = 1\nb = $\n" 1 = some (.runtime "dollar_identifier" (some 2)) ∧
    at_ "a = $(x\n" 0 = some (.runtime "missing_paren" (some 1)) ∧
    at_ "a = $1\n" 0 = some (.runtime "improper_variable_name" (some 1)) ∧
    at_ "x = 1\na = $x $(x)b '$y'\n" 1 = none := by
  decide +kernel


/-! ### C. include expansion (`parse(file_name=…, process_includes=True)`, `Phil.Include`)

  Classification of the missing file.  Python's `open()` raises `FileNotFoundError` (an `OSError`), which
  is neither RuntimeError nor Sorry; the model records it as `stray "FileNotFoundError" "open"`.  Replayed:
  a file `root.phil` containing `include file missing.phil`, `parse(file_name=root.phil,
  process_includes=True)` → `FileNotFoundError: [Errno 2] No such file or directory: …/missing.phil`; the
  same for a root file that does not exist.  C16 speaks of "any text offered as a parameter file"; a text
  naming a file that does not exist therefore leaves the RuntimeError/Sorry contract through `open()`.
  This is the only stray site of include processing (`expand_errors`). -/

/-- the parser's own loop bound is never hit, so the two side conditions of C13's totality theorems hold
    for every file system and every import table -/
theorem parseFuelOK_always (fs : FS) : ParseFuelOK fs :=
  fun pt _ h => Err.benign_ne_outOfFuel (parseObjs_benign pt.2 _ h) rfl
theorem importsParseFuelOK_always (imports : List (Str × Str)) : ImportsParseFuelOK imports :=
  fun pt _ h => Err.benign_ne_outOfFuel (parseObjs_benign pt.2 _ h) rfl

/-- **include expansion, every file system, every import table, every root**: the objects, RuntimeError
    (syntax error in a file with its line, include syntax, dependency cycle, scope not found), outside the
    domain (`$` in an include, unknown python import), the include-depth bound, or `open()` of a missing
    file.  No other `stray`, no Sorry. -/
theorem expand_errors (env : IncEnv) (root : Path) (e : Err) (h : expand env root = .error e) :
    (∃ s l, e = .runtime s l) ∨ (∃ w, e = .unsupported w) ∨ e = .outOfFuel ∨
      e = .stray "FileNotFoundError" "open" :=
  expand_errors_n2 env root e h

/-- the same for the two workers at any fuel, stack and directory -/
theorem expandFile_errors (env : IncEnv) (fuel : Nat) (path : Path) (stack : List Path) (e : Err)
    (h : expandFile env fuel path stack = .error e) : IncErr e :=
  (include_errors_n2 env fuel).1 path stack e h
theorem processIncludes_errors (env : IncEnv) (fuel : Nat) (refdir : Path) (stack : List Path)
    (objs : List Obj) (e : Err) (h : processIncludes env fuel refdir stack objs = .error e) : IncErr e :=
  (include_errors_n2 env fuel).2 objs refdir stack e h

/-- **every call returns**: when imported scopes are ranked (no scope-import cycle — Python itself has no
    cycle detection there and recurses without bound), the depth bound is never hit -/
theorem expand_ranked_errors (env : IncEnv) (hrk : ImportsRanked env) (root : Path) (e : Err)
    (h : expand env root = .error e) :
    (∃ s l, e = .runtime s l) ∨ (∃ w, e = .unsupported w) ∨ e = .stray "FileNotFoundError" "open" := by
  rcases expand_errors env root e h with h1 | h1 | h1 | h1
  · exact .inl h1
  · exact .inr (.inl h1)
  · subst h1
    exact absurd h (expand_ne_outOfFuel env (parseFuelOK_always _) (importsParseFuelOK_always _) hrk root)
  · exact .inr (.inr h1)

/-- files only (no python imports): no side condition at all -/
theorem expand_files_errors (env : IncEnv) (hi : env.imports = []) (root : Path) (e : Err)
    (h : expand env root = .error e) :
    (∃ s l, e = .runtime s l) ∨ (∃ w, e = .unsupported w) ∨ e = .stray "FileNotFoundError" "open" :=
  expand_ranked_errors env (importsRanked_nil env hi) root e h

/-- the stray site fires for a root that does not exist … -/
theorem missing_root_strays (env : IncEnv) (root : Path) (h : env.fs.read root = none) :
    expand env root = .error (.stray "FileNotFoundError" "open") := by
  unfold expand
  rw [expandFile_succ, h]

/-- … and for an `include file` statement (first object of a file being expanded) whose target does not
    exist -/
theorem missing_include_strays (env : IncEnv) (f : Nat) (path : Path) (stack : List Path) (text : Str)
    (o : Obj) (rest : List Obj) (name : Str) (hin : path ∉ stack) (hread : env.fs.read path = some text)
    (hparse : parseObjs text = .ok (o :: rest)) (ht : includeTarget o = some name)
    (hmiss : env.fs.read (resolvePath path.dropLast name) = none) :
    expandFile env (f + 2) path stack = .error (.stray "FileNotFoundError" "open") := by
  rw [expandFile_fresh env (f + 1) path stack text _ hin hread hparse, processIncludes_cons,
    includeHere_include env f _ _ o name ht, expandFile_succ, hmiss]

/-- a concrete instance (Python, replayed: `FileNotFoundError: [Errno 2] No such file or directory:
    '…/missing.phil'`) -/
def fsMissing : IncEnv :=
  { fs := [(["d".toList, "root.phil".toList], "include file missing.phil\na = 1\n".toList)] }

example : expand fsMissing ["d".toList, "root.phil".toList] = .error (.stray "FileNotFoundError" "open") := by
  show expandFile fsMissing (1 + 2) ["d".toList, "root.phil".toList] [] = _
  exact missing_include_strays fsMissing 1 ["d".toList, "root.phil".toList] []
    "include file missing.phil\na = 1\n".toList
    (.defn { name := "include".toList, id := some 1, line := some 1 }
      [⟨"file".toList, none, some 1⟩, ⟨"missing.phil".toList, none, some 1⟩])
    [.defn { name := "a".toList, id := some 2, line := some 2 } [⟨"1".toList, none, some 2⟩]]
    "missing.phil".toList (by simp) (by rfl) (by rfl) (by decide) (by decide)


/-! ### D. fetch on masters with `.multiple` scopes (`MSMaster`, Phil/Proofs/FetchTreeMS.lean) -/

/-- **C16, `scope.fetch`, nested masters WITH `.multiple` scopes and definitions** (extends
    `fetch_tree_no_stray`): when the keys the list rule compares are defined (`KeysDefinedMS`, decidable:
    `keysDefinedMSB`), the only failure of the fetch against ANY sources is RuntimeError "incompatible".
    When a key is not defined the fetch raises the converter's RuntimeError for the offending value
    instead (`C05.keysDefined_needed`: `s.b = maybe` for a bool → "bool_expected" with its line); in
    general the stray sites are bounded by `fetchRoot_stray_sites`. -/
theorem fetch_ms_no_stray (e : Envs) (fuel : Nat) (sm : Meta) (mkids srcs : List Obj)
    (hf : MSMaster mkids) (hfuel : depthL mkids < fuel) (hsd : sm.disabled = false)
    (hsrc : SrcTree srcs) (hkeys : KeysDefinedMS e mkids srcs) (err : Err)
    (h : fetchScope e fuel false sm mkids srcs = .error err) : err = .runtime "incompatible" none := by
  rw [fetch_ms_total e fuel sm mkids srcs hf hfuel hsd hsrc hkeys] at h
  split at h
  · cases h
  · cases h; rfl

/-- the same at the entry point `master.fetch(sources)` -/
theorem fetchRoot_ms_no_stray (e : Envs) (master : List Obj) (ss : List (List Obj))
    (hf : MSMaster master) (hd : depthL master ≤ 1000) (hsrc : SrcTree ss.flatten)
    (hkeys : KeysDefinedMS e master ss.flatten) (err : Err)
    (h : fetchRoot e false master ss = .error err) : err = .runtime "incompatible" none := by
  rw [fetchRoot_ms e master ss hf hd hsrc hkeys] at h
  split at h
  · cases h
  · cases h; rfl

/-- with the side conditions in executable form -/
theorem fetchRoot_ms_checked_no_stray (e : Envs) (master : List Obj) (ss : List (List Obj))
    (hm : masterCheck_ms master = true) (hs : srcCheck ss.flatten = true)
    (hk : keysDefinedMSB e master ss.flatten = true) (err : Err)
    (h : fetchRoot e false master ss = .error err) : err = .runtime "incompatible" none := by
  rw [C05.fetchRoot_ms_checked e master ss hm hs hk] at h
  split at h
  · cases h
  · cases h; rfl

/-- non-vacuity and both outcomes on the parsed instance of Props/C05TreeMS.lean (three levels, `.multiple`
    scopes inside `.multiple` scopes): the hypotheses hold and the fetch succeeds; against a clashing
    source the error is "incompatible" -/
example :
    (masterCheck_ms C05.msM && srcCheck C05.msS && keysDefinedMSB C05.envTm C05.msM C05.msS) = true ∧
    errOf (fetchRoot C05.envTm false C05.msM [C05.msS]) = none ∧
    errOf (fetchRoot C05.envTm false C05.msM [C05.tmObjs "s = 1\n"]) = some (.runtime "incompatible" none) := by
  decide +kernel

/-! ### E. the index machine (`Phil/Index.lean`, `IndexConcrete`, `IndexPaths`)

  Totality is by construction: `Index.step` / `Index.run` (and the concrete kernels) are total functions
  without fuel and without an error type — every operation returns.  "Refusals leave the state unchanged"
  is in Props/C20.lean for two operations (`C20.pop_empty`, `C20.refused_edit_changes_nothing`); the
  theorem below states it for all of them at once. -/

section IndexRefusals
open Phil.Index
variable {W P E : Type}

/-- the refusals of the index: an edit the kernel refuses (parse / fetch error), `update_from_python()`
    with neither an object nor a cached one, `pop_state` on an empty stack, `set_state` out of range,
    `get_python_object` whose extraction raises.  (`push_state` is never refused.) -/
def indexRefused (k : Kernel W P E) (s : State W P) : Op P E → Prop
  | .update e => k.merge s.working e = none
  | .updateFromPython p => p = none ∧ s.params = none
  | .push => False
  | .pop => s.states = []
  | .setState i => s.states.length ≤ i
  | .getPython => (s.dirty || s.params.isNone) = true ∧ k.extract s.working = none

/-- **every refusal leaves the whole state unchanged** (working parameters, cache, dirty flag, stack),
    for every kernel -/
theorem index_refusal_unchanged (k : Kernel W P E) (s : State W P) (op : Op P E)
    (h : indexRefused k s op) : (step k s op).1 = s ∧ (step k s op).2 = none := by
  cases op with
  | update e => simp only [indexRefused] at h; simp [step, h]
  | updateFromPython p => obtain ⟨h1, h2⟩ := h; subst h1; simp [step, h2]
  | push => exact h.elim
  | pop => simp only [indexRefused] at h; simp [step, h]
  | setState i =>
    simp only [indexRefused] at h
    have : s.states[i]? = none := by simp [h]
    simp [step, this]
  | getPython => obtain ⟨h1, h2⟩ := h; simp [step, h1, h2]

/-- conversely an operation that is not refused and is not a cache hit changes or re-derives the state
    through the kernel only; in particular `step` is a total function: every operation returns a state -/
theorem index_step_total (k : Kernel W P E) (s : State W P) (op : Op P E) :
    ∃ s' r, step k s op = (s', r) := ⟨_, _, rfl⟩

end IndexRefusals

/-! ### model gap found on the way (reported, not repaired: model files are not edited here)

  `CmdLine.expertsObj` treats an `Auto` expert level like an unset one (the enclosing level is
  inherited); Python's tie-break computes `Auto / 100` and raises TypeError:
  master `a {\n b = 1\n .expert_level = Auto\n}\nc { b = 2 }`, argument `b=3` →
  `TypeError: unsupported operand type(s) for /: 'AutoType' and 'int'` (replayed).  So
  `processArg_no_stray` holds for the model but not for Python on such masters. -/
example : (parseObjs "a {\n b = 1\n .expert_level = Auto\n}\nc { b = 2 }\n".toList).map expertLevels
    = .ok [0, 0] := by decide +kernel

end Phil.C16

#print axioms Phil.C16.asStr_error_iff
#print axioms Phil.C16.asStr_ok_iff
#print axioms Phil.C16.expert_site_iff
#print axioms Phil.C16.width_site_iff
#print axioms Phil.C16.asStr_error_witness
#print axioms Phil.C16.asStr_error_classes
#print axioms Phil.C16.parsed_expert_levels
#print axioms Phil.C16.parsed_auto_level_strays
#print axioms Phil.C16.asStr_parsed_no_typeerror
#print axioms Phil.C16.asStr_wide_no_valueerror
#print axioms Phil.C16.width_bound_sharp
#print axioms Phil.C16.width_bound_sharp_parsed
#print axioms Phil.C16.asStr_parsed_total
#print axioms Phil.C16.asStr_parsed_level0_total
#print axioms Phil.C16.fragments_errors
#print axioms Phil.C16.resolveWords_no_stray
#print axioms Phil.C16.resolveAt_parsed_no_stray
#print axioms Phil.C16.resolveAt_no_stray
#print axioms Phil.C16.vars_sites_reached
#print axioms Phil.C16.parseFuelOK_always
#print axioms Phil.C16.importsParseFuelOK_always
#print axioms Phil.C16.expand_errors
#print axioms Phil.C16.expandFile_errors
#print axioms Phil.C16.processIncludes_errors
#print axioms Phil.C16.expand_ranked_errors
#print axioms Phil.C16.expand_files_errors
#print axioms Phil.C16.missing_root_strays
#print axioms Phil.C16.missing_include_strays
#print axioms Phil.C16.fetch_ms_no_stray
#print axioms Phil.C16.fetchRoot_ms_no_stray
#print axioms Phil.C16.fetchRoot_ms_checked_no_stray
#print axioms Phil.C16.index_refusal_unchanged
#print axioms Phil.C16.index_step_total
