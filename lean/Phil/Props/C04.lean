/-
  C04 — A fetch result has exactly the master's parameter structure.
    "The result of `master.fetch(sources)` contains no parameter, scope or attribute that the master
     does not declare; the objects appear in the master's order with the master's attributes
     (including `.type`); disabled objects of the sources have no influence."

  Model: Phil/Fetch.lean (`fetchScope` = scope.fetch, `masterActiveObjects` =
  scope.master_active_objects, `getWithoutSubst` = get_without_substitution).  Property theorems
  only; the lemmas and the auxiliary definitions (`SameDecl`, `FromMaster`, `ConfObj`/`ConfList`,
  `Forall2`, `dedupAdj`, `stripObj`/`stripList`/`stripDisabled`, the named step functions of
  `fetchScope`) are in Phil/Proofs/FetchLemmas.lean.  All statements hold for every master, every
  list of sources, both modes (`diff`) and every fuel.

  Former finding D9 (fixed in the library, the model follows): for a master with a `.multiple` object
  that has a further master occurrence (or a disabled example instance) inside a `.multiple` scope,
  `fetch` raised a `TypeError`, because the key of the master block was rendered from the raw
  extraction of the block.  The key is now rendered from the block's own fetch (`masterKeyOf`);
  `nested_multiple_further_occurrence_fetches`, `nested_further_with_source_fetches`,
  `nested_disabled_instance_fetches` (kernel evaluation) show the fetches that used to fail.
  Second part of the repair: the default instance a mandatory (`.optional=False`) `.multiple` scope
  contributes is the scope's own fetch (`defaultInstOf`), not its raw copy — otherwise the failure
  persisted one level up (`nested_mandatory_multiple_fetches`, `…_disabled`, `…_with_source_fetches`,
  `mandatory_multiple_default_instance_is_fetched`).
-/
import Phil.Proofs.FetchLemmas
set_option linter.unusedVariables false
namespace Phil.C04
open Phil

/-! ### 1. the active master objects -/

/-- **`master_active_objects` is sound.**  Every selected pair `(i, o)` is the `i`-th object of the
    scope, is enabled, and the pairs come in strictly increasing index order. -/
theorem masterActive_sound (objs : List Obj) (l : List (Nat × Obj))
    (h : masterActiveObjects objs = .ok l) :
    (∀ i o, (i, o) ∈ l → objs[i]? = some o ∧ o.meta.disabled = false) ∧
    l.Pairwise (fun a b => a.1 < b.1) :=
  Phil.masterActive_sound objs l h

/-! ### 2. shape of the result -/

/-- **Shape (one level).**  A successful fetch returns a scope that carries the master scope's meta
    data (template mark reset), and every child of it is a copy of an *enabled* master child: same
    name, same kind (definition / scope), same attributes (so the same `.type`, `.multiple`,
    `.optional`, …), and is itself enabled. -/
theorem fetch_shape (e : Envs) (fuel : Nat) (diff : Bool) (sm : Meta) (mkids combined : List Obj)
    (rm : Meta) (out : List Obj) (used : List Nat)
    (h : fetchScope e fuel diff sm mkids combined = .ok (.scope rm out, used)) :
    rm = { sm with tmpl := 0 } ∧
    ∀ o ∈ out, ∃ (i : Nat) (mo : Obj), mkids[i]? = some mo ∧ mo.meta.disabled = false ∧
      o.name = mo.name ∧ o.isDefn = mo.isDefn ∧ o.meta.attrs = mo.meta.attrs ∧
      o.meta.disabled = false := by
  obtain ⟨out', hro, hall⟩ := Phil.fetch_shape e fuel diff sm mkids combined _ used h
  cases hro
  refine ⟨rfl, ?_⟩
  intro o ho
  obtain ⟨i, mo, hget, hdis, hsd⟩ := hall o ho
  exact ⟨i, mo, hget, hdis, hsd.name, hsd.1, hsd.attrs, by rw [hsd.disabled, hdis]⟩

/-- The result of a fetch is always a scope (never a definition). -/
theorem fetch_result_is_scope (e : Envs) (fuel : Nat) (diff : Bool) (sm : Meta) (mkids combined : List Obj)
    (ro : Obj) (used : List Nat) (h : fetchScope e fuel diff sm mkids combined = .ok (ro, used)) :
    ∃ out, ro = .scope { sm with tmpl := 0 } out :=
  fetchScope_rootShape e fuel diff sm mkids combined ro used h

/-- **Shape, strong form.**  Every child of the result has the *whole* meta record of its master
    child (name, id, line, `merge_names`, attributes, enabledness) up to the template mark. -/
theorem fetch_shape_decl (e : Envs) (fuel : Nat) (diff : Bool) (sm : Meta) (mkids combined : List Obj)
    (rm : Meta) (out : List Obj) (used : List Nat)
    (h : fetchScope e fuel diff sm mkids combined = .ok (.scope rm out, used)) :
    ∀ o ∈ out, ∃ (i : Nat) (mo : Obj), mkids[i]? = some mo ∧ mo.meta.disabled = false ∧
      o.isDefn = mo.isDefn ∧ { o.meta with tmpl := 0 } = { mo.meta with tmpl := 0 } := by
  obtain ⟨out', hro, hall⟩ := Phil.fetch_shape e fuel diff sm mkids combined _ used h
  cases hro
  exact hall

/-- **Shape at every depth.**  The result conforms to the master recursively (`ConfObj`): each
    object is a copy of its master object up to the template mark, or the master's definition with
    other words, or the master's scope (template mark reset) whose children again conform to enabled
    children of that master scope. -/
theorem fetch_conforms (e : Envs) (fuel : Nat) (diff : Bool) (sm : Meta) (mkids combined : List Obj)
    (ro : Obj) (used : List Nat) (h : fetchScope e fuel diff sm mkids combined = .ok (ro, used)) :
    ConfObj (.scope sm mkids) ro :=
  Phil.fetch_conforms e fuel diff sm mkids combined ro used h

/-- … for `master.fetch(sources)` on parsed roots -/
theorem fetchRoot_conforms (e : Envs) (diff : Bool) (master : List Obj) (ss : List (List Obj))
    (ro : Obj) (used : List Nat) (h : fetchRoot e diff master ss = .ok (ro, used)) :
    ConfObj (.scope { name := [], id := some 0 } master) ro :=
  Phil.fetch_conforms e _ diff _ master ss.flatten ro used h

/-! ### 3. order -/

/-- **Blocks in master order.**  The children of the result are the concatenation of one (possibly
    empty) block per active master child, in the order of `master_active_objects`; all objects of a
    block are copies of that master child. -/
theorem fetch_blocks (e : Envs) (fuel : Nat) (diff : Bool) (sm : Meta) (mkids combined : List Obj)
    (rm : Meta) (out : List Obj) (used : List Nat)
    (h : fetchScope e fuel diff sm mkids combined = .ok (.scope rm out, used)) :
    ∃ actives blocks, masterActiveObjects mkids = .ok actives ∧ out = blocks.flatten ∧
      Forall2 (fun (io : Nat × Obj) (block : List Obj) => ∀ o ∈ block, SameDecl io.2 o)
        actives blocks :=
  Phil.fetch_blocks e fuel diff sm mkids combined rm out used h

/-- **Order.**  The names of the result's children, consecutive duplicates removed, form a sublist
    of the names of the active master children in master order. -/
theorem fetch_order (e : Envs) (fuel : Nat) (diff : Bool) (sm : Meta) (mkids combined : List Obj)
    (rm : Meta) (out : List Obj) (used : List Nat)
    (h : fetchScope e fuel diff sm mkids combined = .ok (.scope rm out, used)) :
    ∃ actives, masterActiveObjects mkids = .ok actives ∧
      (dedupAdj (out.map Obj.name)).Sublist (actives.map (fun io => io.2.name)) :=
  Phil.fetch_order e fuel diff sm mkids combined rm out used h

/-! ### 4. disabled source objects are ignored -/

/-- **Path lookup commutes with stripping.**  Looking a path up in an object from which all
    disabled objects have been removed (at every depth) gives the stripped results of looking it up
    in the object itself. -/
theorem getWithoutSubst_strip (fuel : Nat) (o : Obj) (path : Str) :
    getWithoutSubst fuel (stripObj o) path = stripDisabled (getWithoutSubst fuel o path) :=
  Phil.getWithoutSubst_strip fuel o path

/-- **Disabled source objects have no influence.**  Removing every disabled object, at every depth,
    from the sources changes neither the result nor the list of consumed definitions (nor an error). -/
theorem fetch_ignores_disabled (e : Envs) (fuel : Nat) (diff : Bool) (sm : Meta) (mkids combined : List Obj) :
    fetchScope e fuel diff sm mkids (stripDisabled combined) = fetchScope e fuel diff sm mkids combined :=
  Phil.fetch_ignores_disabled e fuel diff sm mkids combined

/-- Disabled *master* objects never appear in a result: every child of a result is enabled. -/
theorem result_children_enabled (e : Envs) (fuel : Nat) (diff : Bool) (sm : Meta) (mkids combined : List Obj)
    (rm : Meta) (out : List Obj) (used : List Nat)
    (h : fetchScope e fuel diff sm mkids combined = .ok (.scope rm out, used)) :
    ∀ o ∈ out, o.meta.disabled = false := by
  intro o ho
  obtain ⟨_, _, _, _, _, _, _, hd⟩ := (fetch_shape e fuel diff sm mkids combined rm out used h).2 o ho
  exact hd

/-! ### non-vacuity: a concrete fetch -/

/-- `a = 1 .type=int ; s { b = x }` -/
def exMaster : List Obj :=
  [.defn { name := ['a'], id := some 1, attrs := [("type", .conv (.int {}))] } [{ value := ['1'] }],
   .scope { name := ['s'], id := some 2 }
     [.defn { name := ['b'], id := some 3 } [{ value := ['x'] }]]]

/-- `a = 2 ; a = 1 ; z = 1 ; s { !b = y ; b = z }` -/
def exSource : List Obj :=
  [.defn { name := ['a'], id := some 11 } [{ value := ['2'] }],
   .defn { name := ['a'], id := some 12 } [{ value := ['1'] }],
   .defn { name := ['z'], id := some 13 } [{ value := ['1'] }],
   .scope { name := ['s'], id := some 14 }
     [.defn { name := ['b'], id := some 15, disabled := true } [{ value := ['y'] }],
      .defn { name := ['b'], id := some 16 } [{ value := ['z'] }]]]

/-- names of the children and of the grandchildren of a result, with the consumed ids -/
def summary (r : R (Obj × List Nat)) : Option (List Str × List Str × List Nat) :=
  match r with
  | .ok (o, used) => some (o.children.map Obj.name, (o.children.flatMap Obj.children).map Obj.name, used)
  | .error _ => none

/-- the fetch succeeds: result `a ; s { b }`, the unknown `z` and the disabled `b` are not consumed -/
example : summary (fetchRoot env12 false exMaster [exSource]) = some ([['a'], ['s']], [['b']], [11, 12, 16]) := by
  decide +kernel

/-- stripping really removes something here, and the result is the same -/
example : (stripDisabled exSource).flatMap Obj.children ≠ exSource.flatMap Obj.children := by
  intro h
  have := congrArg List.length h
  revert this
  decide +kernel

/-! ### former finding D9: `.multiple` objects with further occurrences inside a `.multiple` scope -/

/-- **Witness (D9 repaired).**  Master `s .multiple=True { d = 1 .multiple=True .type=int ; d = 2 }`,
    no sources: `fetch` used to raise `TypeError` (the raw master `extract` inside `extract_format` met
    the further occurrence of `d`, which lacks `.multiple`, and replaced the list by a scalar).  Now
    the fetch returns the template copy of `s` (template mark 1: no instance survives) with both
    occurrences of `d`.  The observable form (`obsFetch`) lists dotted path, template mark, word
    values. -/
theorem nested_multiple_further_occurrence_fetches :
    obsFetch env12 false w2Master [] =
      some [(['s'], 1, []), (['s', '.', 'd'], 0, [['1']]), (['s', '.', 'd'], 0, [['2']])] :=
  Phil.nested_multiple_further_occurrence_fetches

/-- the same on the parser's output for the text of that master -/
theorem nested_multiple_further_occurrence_fetches_text :
    obsFetchText env12 false w2MasterText [] =
      some [(['s'], 1, []), (['s', '.', 'd'], 0, [['1']]), (['s', '.', 'd'], 0, [['2']])] :=
  Phil.nested_multiple_further_occurrence_fetches_text

/-- an environment that knows the integers 1, 2, 3 -/
def env123 : Envs :=
  { eval := fun s => match s with
      | ['1'] => some (.num (.int 1)) | ['2'] => some (.num (.int 2)) | ['3'] => some (.num (.int 3))
      | _ => none,
    fmt := fun n => match n with
      | .int 1 => some ['1'] | .int 2 => some ['2'] | .int 3 => some ['3'] | _ => none }

/-- `t .multiple=True { f = 1 .multiple=True .type=int ; f = 2 ; g = 1 }` -/
def w3MasterText : String :=
  "t\n.multiple=True\n{\n  f = 1\n  .multiple=True\n  .type=int\n  f = 2\n  g = 1\n}\n"

/-- **Witness (D9 repaired), with a source.**  Master `w3MasterText`, source `t { f = 3 }`: the
    fetch used to raise `TypeError`; now the result is the template copy of `t` (mark -1: an instance
    follows) and one instance of `t` in which the list `f` is its template (the first occurrence,
    mark -1), the master's further occurrence `2` and the source's `3`, followed by `g`. -/
theorem nested_further_with_source_fetches :
    obsFetchText env123 false w3MasterText ["t { f = 3 }\n"] =
      some [(['t'], -1, []),
            (['t', '.', 'f'], 0, [['1']]), (['t', '.', 'f'], 0, [['2']]), (['t', '.', 'g'], 0, [['1']]),
            (['t'], 0, []),
            (['t', '.', 'f'], -1, [['1']]), (['t', '.', 'f'], 0, [['2']]), (['t', '.', 'f'], 0, [['3']]),
            (['t', '.', 'g'], 0, [['1']])] := by
  decide +kernel

/-- without sources only the template copy of `t` remains (mark 1) -/
theorem nested_further_bare_fetches :
    obsFetchText env123 false w3MasterText [] =
      some [(['t'], 1, []),
            (['t', '.', 'f'], 0, [['1']]), (['t', '.', 'f'], 0, [['2']]), (['t', '.', 'g'], 0, [['1']])] := by
  decide +kernel

/-- `opts .multiple=True { g = 1 .multiple=True ; !g = None }`: a disabled example instance -/
def w4MasterText : String :=
  "opts\n.multiple=True\n{\n  g = 1\n  .multiple=True\n  !g = None\n}\n"

/-- **Witness (D9 repaired), disabled example instance.**  The bare fetch of `w4MasterText` used to
    raise `TypeError` (the disabled `!g = None`, not marked `.multiple`, reset the list `g` to `None`
    in the raw extraction).  Now it returns the template copy of `opts` (the disabled occurrence is
    carried along inside the copy). -/
theorem nested_disabled_instance_fetches :
    obsFetchText envNone false w4MasterText [] =
      some [(['o', 'p', 't', 's'], 1, []),
            (['o', 'p', 't', 's', '.', 'g'], 0, [['1']]),
            (['o', 'p', 't', 's', '.', '!', 'g'], 0, [['N', 'o', 'n', 'e']])] := by
  decide +kernel

/-- with the source `opts { g = 5 }`: template copy (mark -1) and one instance holding the list
    template of `g` (mark -1) and the source's `5` -/
theorem nested_disabled_instance_with_source_fetches :
    obsFetchText envNone false w4MasterText ["opts { g = 5 }\n"] =
      some [(['o', 'p', 't', 's'], -1, []),
            (['o', 'p', 't', 's', '.', 'g'], 0, [['1']]),
            (['o', 'p', 't', 's', '.', '!', 'g'], 0, [['N', 'o', 'n', 'e']]),
            (['o', 'p', 't', 's'], 0, []),
            (['o', 'p', 't', 's', '.', 'g'], -1, [['1']]),
            (['o', 'p', 't', 's', '.', 'g'], 0, [['5']])] := by
  decide +kernel

/-- the raw extraction itself still fails on these blocks — `extract_format()` of the unfetched master
    scope is what the library computed before; the merge no longer passes through it -/
example :
    (match parseObjs w2MasterText.toList with
     | .ok [s] => errOf (extractFormatStr env12 64 s s)
     | _ => none) = some (.stray "TypeError" "value_as_str") := by
  decide +kernel

/-! ### D9, second part: a mandatory `.multiple` scope inside a `.multiple` scope -/

/-- `u .multiple=True { grp .multiple=True .optional=False { f = 1 .multiple=True .type=int ; f = 2 } }` -/
def w5MasterText : String :=
  "u\n.multiple=True\n{\n grp\n .multiple=True\n .optional=False\n {\n  f = 1\n  .multiple=True\n  .type=int\n  f = 2\n }\n}\n"

/-- the same with a disabled example instance `!f = None` (and no `.type`) in place of `f = 2` -/
def w6MasterText : String :=
  "u\n.multiple=True\n{\n grp\n .multiple=True\n .optional=False\n {\n  f = 1\n  .multiple=True\n  !f = None\n }\n}\n"

/-- `grp .multiple=True .optional=False { f = 1 .multiple=True .type=int ; f = 2 }` at the top -/
def w7MasterText : String :=
  "grp\n.multiple=True\n.optional=False\n{\n  f = 1\n  .multiple=True\n  .type=int\n  f = 2\n}\n"

/-- **Witness (D9 repaired, second part).**  With only the first part of the repair the bare fetch of
    `w5MasterText` still raised `TypeError`: the own fetch of `u` kept the raw master copy of the
    mandatory `grp` as live content (template mark 0), so rendering the key of `u` extracted `grp`'s
    raw block.  The default instance of a mandatory `.multiple` scope is now the scope's own fetch
    (`defaultInstOf`); the bare fetch succeeds with the template copy of `u`. -/
theorem nested_mandatory_multiple_fetches :
    obsFetchText env12 false w5MasterText [] =
      some [(['u'], 1, []), (['u', '.', 'g', 'r', 'p'], 0, []),
            (['u', '.', 'g', 'r', 'p', '.', 'f'], 0, [['1']]), (['u', '.', 'g', 'r', 'p', '.', 'f'], 0, [['2']])] := by
  decide +kernel

/-- the variant with the disabled example instance -/
theorem nested_mandatory_multiple_fetches_disabled :
    obsFetchText envNone false w6MasterText [] =
      some [(['u'], 1, []), (['u', '.', 'g', 'r', 'p'], 0, []),
            (['u', '.', 'g', 'r', 'p', '.', 'f'], 0, [['1']]),
            (['u', '.', 'g', 'r', 'p', '.', '!', 'f'], 0, [['N', 'o', 'n', 'e']])] := by
  decide +kernel

/-- with the source `u { grp { f = 3 } }`: the template copy of `u` (mark -1), then one instance of
    `u` holding the default instance of `grp` (its own fetch: list template of `f`, mark -1, and the
    further occurrence `2`) and the instance of `grp` from the source (`2` and `3`) -/
theorem nested_mandatory_multiple_with_source_fetches :
    obsFetchText env123 false w5MasterText ["u { grp { f = 3 } }\n"] =
      some [(['u'], -1, []), (['u', '.', 'g', 'r', 'p'], 0, []),
            (['u', '.', 'g', 'r', 'p', '.', 'f'], 0, [['1']]), (['u', '.', 'g', 'r', 'p', '.', 'f'], 0, [['2']]),
            (['u'], 0, []),
            (['u', '.', 'g', 'r', 'p'], 0, []),
            (['u', '.', 'g', 'r', 'p', '.', 'f'], -1, [['1']]), (['u', '.', 'g', 'r', 'p', '.', 'f'], 0, [['2']]),
            (['u', '.', 'g', 'r', 'p'], 0, []),
            (['u', '.', 'g', 'r', 'p', '.', 'f'], -1, [['1']]), (['u', '.', 'g', 'r', 'p', '.', 'f'], 0, [['2']]),
            (['u', '.', 'g', 'r', 'p', '.', 'f'], 0, [['3']])] := by
  decide +kernel

/-- the default instance of a mandatory `.multiple` scope at the top level is its own fetch, not the
    raw copy: `f` appears as list template (mark -1) plus the further occurrence -/
theorem mandatory_multiple_default_instance_is_fetched :
    obsFetchText env123 false w7MasterText [] =
      some [(['g', 'r', 'p'], 0, []),
            (['g', 'r', 'p', '.', 'f'], -1, [['1']]), (['g', 'r', 'p', '.', 'f'], 0, [['2']])] := by
  decide +kernel

/-- without `.optional=False` on `grp` the same master fetches as well -/
example :
    obsFetchText env12 false
      "u\n.multiple=True\n{\n grp\n .multiple=True\n {\n  f = 1\n  .multiple=True\n  .type=int\n  f = 2\n }\n}\n" [] =
      some [(['u'], 1, []), (['u', '.', 'g', 'r', 'p'], 0, []),
            (['u', '.', 'g', 'r', 'p', '.', 'f'], 0, [['1']]), (['u', '.', 'g', 'r', 'p', '.', 'f'], 0, [['2']])] := by
  decide +kernel

end Phil.C04
