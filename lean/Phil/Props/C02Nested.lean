/-
  C02 (closed form, nested documents) — "nested braces versus dottedName names": the two spellings

      n1.n2.….nk = w1 … wj                 n1 {
                                              n2 {
                                                …  nk = w1 … wj
                                              }
                                            }

  (and likewise a dottedName scope header `n1.….nk {` … `}` versus nested headers) parse to the same
  scopes, definitions and words.  They do NOT parse to identical trees: `scope.adopt` marks the
  objects it builds for a dottedName name with `merge_names = True` (that flag only steers the printer),
  gives all of them the primary id of the one item and no source line.  The statements are therefore
  "equal up to ids, source lines and the `merge_names` flag": `Obj.eraseMerge` is `Obj.erase` (ids and
  lines removed) plus `mergeNames := false` on every object.

  Vocabulary (definitions in Phil/Proofs/Layout2.lean, Phil/Proofs/PrintParseNested.lean):
    * `dottedName ns nm`            — the text `n1.….nk.nm`;
    * `wordsText ws`            — ` w1 w2 …` (one blank in front of every word, quoted words escaped);
    * `bracesText_l2 ns ind body` — `ind n1 {⏎` … `body (ind + 2k blanks)` … `ind }⏎`, two more blanks
                                   of indentation per level;
    * `bracesIn_l2 ns x`        — the tree `x` inside proper scopes `n1`, …, `nk`;
    * `dottedIn_l2 ns x`        — the tree `scope.adopt` builds for the dottedName name;
    * `flatKids objs [] []`     — the canonical unwrapped text of a list of trees (C01Nested: `name {`
                                   … `}` for a proper scope, a dottedName name for a `merge_names` chain);
    * `RTTree` (Phil/Props/C01Nested.lean) — enabled attribute-free trees with good undotted names.

  Property theorems only; lemmas are in Phil/Proofs/Layout2.lean.
-/
import Phil.Proofs.Layout2
import Phil.Props.C01Nested
set_option linter.unusedSimpArgs false
namespace Phil.C02
open Phil Phil.C01

attribute [local instance] Phil.C01.objDecEqInst Phil.C01.exceptDecEqRT

/-- `eraseMerge` is `erase` followed by clearing the `merge_names` flags -/
theorem eraseMerge_spec (x : Obj) : x.eraseMerge = x.erase.eraseMerge ∧
    (∀ m ws, (Obj.defn m ws).eraseMerge = .defn { m.erase with mergeNames := false } (ws.map Word.erase)) ∧
    (∀ m os, (Obj.scope m os).eraseMerge = .scope { m.erase with mergeNames := false } (os.map Obj.eraseMerge)) :=
  ⟨(eraseMerge_erase_l2 x).symm, fun m ws => by rw [Obj.eraseMerge],
    fun m os => by rw [Obj.eraseMerge, eraseMergeList_eq_map_l2]⟩

/-- **General form: the spelling of chains does not matter.**  Two documents of `RTTree`s (each scope
    either proper — braces — or a `merge_names` chain — dottedName name) that are the same tree up to the
    `merge_names` flags: their canonical texts both parse, to trees equal up to ids, lines and
    `merge_names`.  (`ChainOK`: no unquoted word directly after a word containing a newline.) -/
theorem spelling_independent (objs1 objs2 : List Obj)
    (h1 : ∀ x ∈ objs1, RTTree x) (h2 : ∀ x ∈ objs2, RTTree x)
    (c1 : ∀ x ∈ objs1, x.allDefns ChainOK) (c2 : ∀ x ∈ objs2, x.allDefns ChainOK)
    (hsame : eraseMergeList objs1 = eraseMergeList objs2) :
    ∃ o1 o2, parseObjs (flatKids objs1 [] []) = .ok o1 ∧ parseObjs (flatKids objs2 [] []) = .ok o2 ∧
      eraseMergeList o1 = eraseMergeList o2 ∧ eraseMergeList o1 = eraseMergeList objs1 := by
  obtain ⟨o1, p1, e1, _⟩ := parseObjs_flatKids_l2 objs1 (rtAll_of_forall h1)
    ((allDefnsList_iff _ _).mpr c1)
  obtain ⟨o2, p2, e2, _⟩ := parseObjs_flatKids_l2 objs2 (rtAll_of_forall h2)
    ((allDefnsList_iff _ _).mpr c2)
  exact ⟨o1, o2, p1, p2,
    by rw [eraseMergeList_congr_l2 e1, eraseMergeList_congr_l2 e2, hsame], eraseMergeList_congr_l2 e1⟩

/-- what is put below the path of scopes: a definition, or a proper scope with its children -/
def ProperItem (x : Obj) : Prop :=
  match x with
  | .defn m ws => PlainMetaPP false m ∧ goodName m.name = true ∧ ws ≠ [] ∧ (∀ w ∈ ws, goodWord w = true)
  | .scope m os => PlainMetaPP false m ∧ goodName m.name = true ∧ ∀ c ∈ os, RTTree c

instance (x : Obj) : Decidable (ProperItem x) := by
  cases x <;> (unfold ProperItem; exact inferInstance)

theorem ProperItem.rtTree {x : Obj} (h : ProperItem x) : RTTree x := by
  cases x with
  | defn m ws => exact (RTTree_defn m ws).mpr h
  | scope m os => exact (RTTree_scope m os).mpr ⟨h.1, h.2.1, Or.inl h.2.2⟩

theorem ProperItem.merge {x : Obj} (h : ProperItem x) : x.meta.mergeNames = false := by
  cases x with
  | defn m ws => exact h.1.merge
  | scope m os => exact h.1.merge

/-- the brace spelling of a proper item below good names is an `RTTree` -/
theorem bracesIn_rtTree (ns : List Str) (x : Obj) (hns : ∀ n ∈ ns, goodName n = true)
    (hx : ProperItem x) : RTTree (bracesIn_l2 ns x) :=
  rtnode_bracesIn_l2 ns x hns hx.rtTree

/-- the dottedName spelling of a proper item below good names is an `RTTree`, provided the dottedName name
    is not a reserved identifier (`__a.b__`) -/
theorem dottedIn_rtTree (ns : List Str) (x : Obj) (hns : ∀ n ∈ ns, goodName n = true)
    (hx : ProperItem x) (hres : isReserved (dottedName ns x.name) = false) : RTTree (dottedIn_l2 ns x) := by
  have key : RTNode ([] ++ ns) (x.withMeta (fun m => { m with mergeNames := !ns.isEmpty })) := by
    cases x with
    | defn m ws =>
      obtain ⟨hm, hn, hne, hg⟩ := hx
      simp only [Obj.withMeta, List.nil_append]
      unfold RTNode
      refine ⟨?_, hn, hres, hne, hg⟩
      rw [hm]; rfl
    | scope m os =>
      obtain ⟨hm, hn, hk⟩ := hx
      simp only [Obj.withMeta, List.nil_append]
      unfold RTNode
      refine ⟨?_, hn, Or.inl ⟨hres, rtAll_of_forall hk⟩⟩
      rw [hm]; rfl
  exact rtnode_nestIn_l2 ns _ [] hns key

/-- **C02: nested braces versus dottedName names, one item.**  `x` is a definition or a proper scope
    (`ProperItem`), `ns` a list of good dot-free names, the dottedName name `n1.….nk.name` is not a
    reserved identifier, no unquoted word of `x` follows a word containing a newline.  The dottedName
    spelling `n1.….nk.name …` and the canonical brace spelling `n1 {` … `name …` … `}` both parse to
    one object, and the two objects are equal up to ids, source lines and `merge_names` — namely the
    tree `bracesIn_l2 ns x` (up to those).  The texts are spelled out in `dotted_defn_text`,
    `braces_text`. -/
theorem dotted_equals_nested_item (ns : List Str) (x : Obj) (hns : ∀ n ∈ ns, goodName n = true)
    (hx : ProperItem x) (hres : isReserved (dottedName ns x.name) = false) (hc : x.allDefns ChainOK) :
    ∃ o1 o2, parseObjs (flatText (dottedIn_l2 ns x) [] []) = .ok [o1] ∧
      parseObjs (flatText (bracesIn_l2 ns x) [] []) = .ok [o2] ∧
      o1.eraseMerge = o2.eraseMerge ∧ o2.eraseMerge = (bracesIn_l2 ns x).eraseMerge := by
  have hc1 : (dottedIn_l2 ns x).allDefns ChainOK := by
    rw [dottedIn_l2, allDefns_nestIn_l2]
    cases x <;> exact hc
  have hc2 : (bracesIn_l2 ns x).allDefns ChainOK := (allDefns_bracesIn_l2 _ ns x).mpr hc
  obtain ⟨o1, o2, p1, p2, e12, e1⟩ := spelling_independent [dottedIn_l2 ns x] [bracesIn_l2 ns x]
    (by intro y hy; simp at hy; subst hy; exact dottedIn_rtTree ns x hns hx hres)
    (by intro y hy; simp at hy; subst hy; exact bracesIn_rtTree ns x hns hx)
    (by intro y hy; simp at hy; subst hy; exact hc1)
    (by intro y hy; simp at hy; subst hy; exact hc2)
    (by simp only [eraseMergeList]; rw [eraseMerge_dotted_braces_l2])
  simp only [flatKids, List.append_nil] at p1 p2
  have hl1 : ∃ a, o1 = [a] := by
    cases o1 with
    | nil => simp [eraseMergeList] at e1
    | cons a as => cases as with
      | nil => exact ⟨a, rfl⟩
      | cons b bs => simp [eraseMergeList] at e1
  have hl2 : ∃ a, o2 = [a] := by
    rw [e1] at e12
    cases o2 with
    | nil => simp [eraseMergeList] at e12
    | cons a as => cases as with
      | nil => exact ⟨a, rfl⟩
      | cons b bs => simp [eraseMergeList] at e12
  obtain ⟨a, rfl⟩ := hl1
  obtain ⟨b, rfl⟩ := hl2
  refine ⟨a, b, p1, p2, ?_, ?_⟩
  · simpa [eraseMergeList] using e12
  · rw [e1] at e12
    simp only [eraseMergeList, List.cons.injEq, and_true] at e12
    rw [← e12, eraseMerge_dotted_braces_l2]

/-- the dottedName spelling of a definition, as text: `n1.….nk.nm = w1 … wj⏎` -/
theorem dotted_defn_text (ns : List Str) (nm : Str) (ws : List Word) :
    flatText (dottedIn_l2 ns (.defn { name := nm } ws)) [] []
      = dottedName ns nm ++ [' ', '='] ++ wordsText ws ++ ['\n'] := by
  rw [dottedIn_l2, flatText_nestIn_l2 none ns _ [] false [] (by
    intro hne
    cases ns with
    | nil => exact absurd rfl hne
    | cons n ns => rfl)]
  simp [Obj.withMeta, flatText]

/-- the dottedName spelling of a scope, as text: `n1.….nk.nm {⏎`, the children indented by two blanks, `}⏎` -/
theorem dotted_scope_text (ns : List Str) (nm : Str) (kids : List Obj)
    (hk : firstMerges kids = false) :
    flatText (dottedIn_l2 ns (.scope { name := nm } kids)) [] []
      = dottedName ns nm ++ [' ', '{', '\n'] ++ flatKids kids [] [' ', ' '] ++ ['}', '\n'] := by
  rw [dottedIn_l2, flatText_nestIn_l2 none ns _ [] false [] (by
    intro hne
    cases ns with
    | nil => exact absurd rfl hne
    | cons n ns => rfl)]
  simp [Obj.withMeta, flatText, hk, deeper]

/-- the brace spelling, as text: `bracesText_l2 ns [] body` with `body` the canonical text of `x` at
    the indentation it is given -/
theorem braces_text (ns : List Str) (x : Obj) (hx : x.meta.mergeNames = false) :
    flatText (bracesIn_l2 ns x) [] [] = bracesText_l2 ns [] (fun ind => flatText x [] ind) :=
  flatText_bracesIn_l2 ns x hx []

/-- **C02: `n1.….nk = words` versus `n1 { … nk = words … }`.**  For good dot-free names `ns`, `nm`
    (the dottedName name not a reserved identifier) and a good word list: both texts parse to a single
    object; the two objects are equal up to ids, source lines and `merge_names`, and are — up to
    those — the definition `nm = words` inside the scopes `ns`. -/
theorem dotted_equals_nested (ns : List Str) (nm : Str) (ws : List Word)
    (hns : ∀ n ∈ ns, goodName n = true) (hnm : goodName nm = true)
    (hres : isReserved (dottedName ns nm) = false)
    (hne : ws ≠ []) (hgood : ∀ w ∈ ws, goodWord w = true) (hchain : chainOK true ws = true) :
    ∃ o1 o2,
      parseObjs (dottedName ns nm ++ [' ', '='] ++ wordsText ws ++ ['\n']) = .ok [o1] ∧
      parseObjs (bracesText_l2 ns [] (fun ind => ind ++ nm ++ [' ', '='] ++ wordsText ws ++ ['\n']))
        = .ok [o2] ∧
      o1.eraseMerge = o2.eraseMerge ∧
      o2.eraseMerge = bracesIn_l2 ns (.defn { name := nm } (ws.map Word.erase)) := by
  have hx : ProperItem (.defn { name := nm } ws) := ⟨rfl, hnm, hne, hgood⟩
  obtain ⟨o1, o2, p1, p2, e1, e2⟩ := dotted_equals_nested_item ns (.defn { name := nm } ws) hns hx hres hchain
  rw [dotted_defn_text] at p1
  rw [braces_text ns _ rfl] at p2
  refine ⟨o1, o2, p1, ?_, e1, ?_⟩
  · have : (fun ind => flatText (.defn { name := nm } ws) [] ind)
        = (fun ind => ind ++ nm ++ [' ', '='] ++ wordsText ws ++ ['\n']) := by
      funext ind; simp [flatText, dotted_nil]
    rw [this] at p2
    exact p2
  · rw [e2, eraseMerge_bracesIn_l2]
    rfl

/-- **C02: the dottedName scope header `n1.….nk.nm {` versus nested headers.**  `kids` are `RTTree`s. -/
theorem dotted_header_equals_nested (ns : List Str) (nm : Str) (kids : List Obj)
    (hns : ∀ n ∈ ns, goodName n = true) (hnm : goodName nm = true)
    (hres : isReserved (dottedName ns nm) = false)
    (hkids : ∀ c ∈ kids, RTTree c) (hchain : ∀ c ∈ kids, c.allDefns ChainOK) :
    ∃ o1 o2,
      parseObjs (dottedName ns nm ++ [' ', '{', '\n'] ++ flatKids kids [] [' ', ' '] ++ ['}', '\n']) = .ok [o1] ∧
      parseObjs (bracesText_l2 ns [] (fun ind =>
          ind ++ nm ++ [' ', '{', '\n'] ++ flatKids kids [] (ind ++ [' ', ' ']) ++ ind ++ ['}', '\n']))
        = .ok [o2] ∧
      o1.eraseMerge = o2.eraseMerge ∧
      o2.eraseMerge = bracesIn_l2 ns (.scope { name := nm } (eraseMergeList kids)) := by
  have hfm : firstMerges kids = false := (rtAll_of_forall hkids).firstMerges
  have hx : ProperItem (.scope { name := nm } kids) := ⟨rfl, hnm, hkids⟩
  obtain ⟨o1, o2, p1, p2, e1, e2⟩ := dotted_equals_nested_item ns (.scope { name := nm } kids) hns hx hres
    (by unfold Obj.allDefns; exact (allDefnsList_iff _ _).mpr hchain)
  rw [dotted_scope_text ns nm kids hfm] at p1
  rw [braces_text ns _ rfl] at p2
  refine ⟨o1, o2, p1, ?_, e1, ?_⟩
  · have : (fun ind => flatText (.scope { name := nm } kids) [] ind)
        = (fun ind => ind ++ nm ++ [' ', '{', '\n'] ++ flatKids kids [] (ind ++ [' ', ' ']) ++ ind ++ ['}', '\n']) := by
      funext ind; simp [flatText, dotted_nil, hfm, deeper]
    rw [this] at p2
    exact p2
  · rw [e2, eraseMerge_bracesIn_l2]
    rfl

/-! ### documents: every item spelt either way -/

/-- one item of a document: a proper item `x` below the path `ns`, spelt with a dottedName name
    (`useDots = true`) or with braces -/
structure SpeltItem where
  ns : List Str
  x : Obj
  useDots : Bool

/-- the tree the parser is expected to build for the item (up to ids and lines) -/
def SpeltItem.obj (it : SpeltItem) : Obj :=
  if it.useDots then dottedIn_l2 it.ns it.x else bracesIn_l2 it.ns it.x

/-- the item's abstract tree: independent of the spelling -/
def SpeltItem.tree (it : SpeltItem) : Obj := (bracesIn_l2 it.ns it.x).eraseMerge

def SpeltItem.ok (it : SpeltItem) : Prop :=
  (∀ n ∈ it.ns, goodName n = true) ∧ ProperItem it.x ∧ it.x.allDefns ChainOK ∧
    (it.useDots = true → isReserved (dottedName it.ns it.x.name) = false)

instance (it : SpeltItem) : Decidable it.ok := by unfold SpeltItem.ok; exact inferInstance

/-- the text of a document of items: the canonical text of every item in its spelling -/
def speltText (items : List SpeltItem) : Str := flatKids (items.map SpeltItem.obj) [] []

/-- **C02: nested braces versus dottedName names, whole documents.**  A document is a list of items, each
    a definition or proper scope below a path of scope names, each spelt EITHER with a dottedName name OR
    with nested braces.  Its text parses, and the tree is — up to ids, source lines and `merge_names` —
    the list of the items' abstract trees `bracesIn_l2 ns x`, in which the choice of spelling does not
    occur. -/
theorem dotted_or_nested_document (items : List SpeltItem) (hok : ∀ it ∈ items, it.ok) :
    ∃ objs, parseObjs (speltText items) = .ok objs ∧
      eraseMergeList objs = items.map SpeltItem.tree := by
  have hrt : ∀ y ∈ items.map SpeltItem.obj, RTTree y := by
    intro y hy
    obtain ⟨it, hit, rfl⟩ := List.mem_map.mp hy
    obtain ⟨h1, h2, _, h4⟩ := hok it hit
    unfold SpeltItem.obj
    split
    · rename_i hd; exact dottedIn_rtTree it.ns it.x h1 h2 (h4 hd)
    · exact bracesIn_rtTree it.ns it.x h1 h2
  have hch : ∀ y ∈ items.map SpeltItem.obj, y.allDefns ChainOK := by
    intro y hy
    obtain ⟨it, hit, rfl⟩ := List.mem_map.mp hy
    obtain ⟨_, _, h3, _⟩ := hok it hit
    unfold SpeltItem.obj
    split
    · rw [dottedIn_l2, allDefns_nestIn_l2]
      cases hx : it.x <;> (rw [hx] at h3; exact h3)
    · exact (allDefns_bracesIn_l2 _ _ _).mpr h3
  obtain ⟨objs, p, e, _⟩ := parseObjs_flatKids_l2 _ (rtAll_of_forall hrt) ((allDefnsList_iff _ _).mpr hch)
  refine ⟨objs, p, ?_⟩
  rw [eraseMergeList_congr_l2 e, eraseMergeList_eq_map_l2, List.map_map]
  apply List.map_congr_left
  intro it _
  simp only [Function.comp, SpeltItem.obj, SpeltItem.tree]
  split
  · exact eraseMerge_dotted_braces_l2 _ _
  · rfl

/-- two documents with the same items in different spellings parse to the same tree up to ids, lines
    and `merge_names` -/
theorem two_spellings_same_tree (items1 items2 : List SpeltItem)
    (h1 : ∀ it ∈ items1, it.ok) (h2 : ∀ it ∈ items2, it.ok)
    (hsame : items1.map (fun it => (it.ns, it.x)) = items2.map (fun it => (it.ns, it.x))) :
    ∃ o1 o2, parseObjs (speltText items1) = .ok o1 ∧ parseObjs (speltText items2) = .ok o2 ∧
      eraseMergeList o1 = eraseMergeList o2 := by
  obtain ⟨o1, p1, e1⟩ := dotted_or_nested_document items1 h1
  obtain ⟨o2, p2, e2⟩ := dotted_or_nested_document items2 h2
  refine ⟨o1, o2, p1, p2, ?_⟩
  rw [e1, e2]
  have : ∀ (l : List SpeltItem), l.map SpeltItem.tree
      = (l.map (fun it => (it.ns, it.x))).map (fun p => (bracesIn_l2 p.1 p.2).eraseMerge) := by
    intro l; simp [SpeltItem.tree]
  rw [this items1, this items2, hsame]

/-! ### non-vacuity -/

/-- `a.b.c = 1 'x y'` against the brace spelling, through the theorem -/
example : ∃ o1 o2,
    parseObjs "a.b.c = 1 'x y'\n".toList = .ok [o1] ∧
    parseObjs "a {\n  b {\n    c = 1 'x y'\n  }\n}\n".toList = .ok [o2] ∧
    o1.eraseMerge = o2.eraseMerge ∧
    o2.eraseMerge = .scope { name := ['a'] } [.scope { name := ['b'] }
      [.defn { name := ['c'] } [{ value := ['1'] }, { value := "x y".toList, quote := some .s1 }]]] := by
  obtain ⟨o1, o2, p1, p2, e1, e2⟩ := dotted_equals_nested [['a'], ['b']] ['c']
    [{ value := ['1'] }, { value := "x y".toList, quote := some .s1 }]
    (by decide +kernel) (by decide +kernel) (by decide +kernel) (by decide +kernel) (by decide +kernel)
    (by decide +kernel)
  have t1 : dottedName [['a'], ['b']] ['c'] ++ [' ', '='] ++
      wordsText [{ value := ['1'] }, { value := "x y".toList, quote := some .s1 }] ++ ['\n']
      = "a.b.c = 1 'x y'\n".toList := by decide +kernel
  have t2 : bracesText_l2 [['a'], ['b']] [] (fun ind => ind ++ ['c'] ++ [' ', '='] ++
      wordsText [{ value := ['1'] }, { value := "x y".toList, quote := some .s1 }] ++ ['\n'])
      = "a {\n  b {\n    c = 1 'x y'\n  }\n}\n".toList := by decide +kernel
  rw [t1] at p1
  rw [t2] at p2
  exact ⟨o1, o2, p1, p2, e1, by rw [e2]; decide +kernel⟩

/-- the same pair, evaluated: what differs is exactly ids, lines and `merge_names` (Python agrees) -/
theorem dotted_and_nested_evaluated :
    parseObjs "a.b.c = 1\n".toList = .ok
      [.scope { name := ['a'], id := some 1 }
        [.scope { name := ['b'], id := some 1, mergeNames := true }
          [.defn { name := ['c'], id := some 1, line := some 1, mergeNames := true }
            [{ value := ['1'], line := some 1 }]]]] ∧
    parseObjs "a {\n  b {\n    c = 1\n  }\n}\n".toList = .ok
      [.scope { name := ['a'], id := some 1, line := some 1 }
        [.scope { name := ['b'], id := some 2, line := some 2 }
          [.defn { name := ['c'], id := some 3, line := some 3 } [{ value := ['1'], line := some 3 }]]]] := by
  decide +kernel

/-- a document with three items: `a.b = 1` dottedName, `a { c = 2 }` in braces, the empty scope `d.e`
    dottedName — and the same document with the opposite spellings -/
def exItems (f : Bool) : List SpeltItem :=
  [ ⟨[['a']], .defn { name := ['b'] } [{ value := ['1'] }], f⟩,
    ⟨[['a']], .defn { name := ['c'] } [{ value := ['2'] }], !f⟩,
    ⟨[['d']], .scope { name := ['e'] } [], f⟩ ]

example : speltText (exItems true) = "a.b = 1\na {\n  c = 2\n}\nd.e {\n}\n".toList := by decide +kernel
example : speltText (exItems false) = "a {\n  b = 1\n}\na.c = 2\nd {\n  e {\n  }\n}\n".toList := by
  decide +kernel

theorem exItems_ok (f : Bool) : ∀ it ∈ exItems f, it.ok := by
  cases f <;> decide +kernel

example : ∃ o1 o2, parseObjs "a.b = 1\na {\n  c = 2\n}\nd.e {\n}\n".toList = .ok o1 ∧
    parseObjs "a {\n  b = 1\n}\na.c = 2\nd {\n  e {\n  }\n}\n".toList = .ok o2 ∧
    eraseMergeList o1 = eraseMergeList o2 := by
  obtain ⟨o1, o2, p1, p2, e⟩ := two_spellings_same_tree (exItems true) (exItems false)
    (exItems_ok true) (exItems_ok false) (by decide +kernel)
  have t1 : speltText (exItems true) = "a.b = 1\na {\n  c = 2\n}\nd.e {\n}\n".toList := by decide +kernel
  have t2 : speltText (exItems false) = "a {\n  b = 1\n}\na.c = 2\nd {\n  e {\n  }\n}\n".toList := by
    decide +kernel
  rw [t1] at p1
  rw [t2] at p2
  exact ⟨o1, o2, p1, p2, e⟩

/-! ### sharp edges (model = Python) -/

/-- **The dottedName spelling can be refused where the brace spelling is accepted**: the parser tests the
    full dottedName name against the reserved-identifier pattern, so `__a.b__ = 1` is an error although
    `__a {` / `b__ = 1` / `}` parses.  Hence the hypothesis `isReserved (dottedName ns nm) = false`. -/
theorem dotted_reserved_but_nested_fine :
    parseObjs "__a.b__ = 1\n".toList = .error (.runtime "reserved" (some 1)) ∧
    parseObjs "__a {\n  b__ = 1\n}\n".toList = .ok
      [.scope { name := "__a".toList, id := some 1, line := some 1 }
        [.defn { name := "b__".toList, id := some 2, line := some 2 } [{ value := ['1'], line := some 2 }]]] := by
  decide +kernel

/-- **Dotted names do not merge scopes**: `a.b = 1` followed by `a.c = 2` builds TWO scopes `a`; the
    brace spelling `a { b = 1  c = 2 }` builds one.  The item-wise theorem compares item by item. -/
theorem dotted_names_do_not_merge :
    parseObjs "a.b = 1\na.c = 2\n".toList = .ok
      [.scope { name := ['a'], id := some 1 }
         [.defn { name := ['b'], id := some 1, line := some 1, mergeNames := true } [{ value := ['1'], line := some 1 }]],
       .scope { name := ['a'], id := some 2 }
         [.defn { name := ['c'], id := some 2, line := some 2, mergeNames := true } [{ value := ['2'], line := some 2 }]]] ∧
    parseObjs "a {\n  b = 1\n  c = 2\n}\n".toList = .ok
      [.scope { name := ['a'], id := some 1, line := some 1 }
         [.defn { name := ['b'], id := some 2, line := some 2 } [{ value := ['1'], line := some 2 }],
          .defn { name := ['c'], id := some 3, line := some 3 } [{ value := ['2'], line := some 3 }]]] := by
  decide +kernel

/-! ## nested layout independence

  The layout of a nested document is data (`LayItem`, Phil/Proofs/Layout2.lean), by recursion:
    * `LayItem.defn path d L bang`  — the definition `d = (name, words)` under the flat layout `L`
      (`DefLayout` of C02Layout: filler lines and indentation in front, blanks around `=` and in front
      of every word, terminator newline / `;` / trailing `# comment` / nothing), written with the
      dottedName name `p1.….pk.name` for `path = [p1, …, pk]` (`[]`: the plain name), `!` glued to the
      name iff `bang`;
    * `LayItem.scope path nm bang pre gap kids close` — the scope `nm` (header `p1.….pk.nm`):
      `pre : Pre` the filler in front of the name (blank lines, whole-line comments, then
      indentation), `!` iff `bang`; `gap : Pre` what stands between the name and `{` — only blanks
      (`name {`, `name{`) or filler lines and blanks (`name⏎{`, `name  # c⏎  {`, blank lines in
      between); `kids` the items of the body; `close : Pre` the filler in front of `}` (`}` on its
      own line at any indentation, after blank/comment lines, or on the line of the last item after
      `;` — or directly: `a { b = 1 }`).  The rest of the line after `{` and after `}` belongs to the
      filler of whatever comes next.
    * `renderN xs post` — the text; `post` the filler after the last item.
    * `wfDocN xs post` (decidable) — every definition `goodDef`/`wfDef` as in the flat case; names:
      every component `goodName`, the dottedName name not a reserved identifier (`goodPathName_l2`);
      every `Pre` well formed, `gapOK_l2 gap` (a filler line directly behind the name must not start
      with `#`: `name#c` is one word); a definition may end with nothing (`Terminator.eof`) only as
      last item of its block with `}` / the end of the text on the same line.
    * `layTrees xs` — the abstract tree: names, chain structure of dottedName names (`nestIn`, as
      `scope.adopt` builds it), `!` flags, words; no ids, no lines, nothing of the layout.
    * `layObjs xs 1 1` — what the parser returns, in closed form (`parseObjs_renderN_l2`). -/

/-- **C02, nested documents: the tree does not depend on the layout.**  For every well-formed layout
    `parse` of the rendered text succeeds; the tree is — up to ids and source lines — the abstract
    tree `layTrees xs`; the ids are those of C01Nested (`expIdsSeq 1`): one per definition / scope
    header counted from 1 in document order, the scopes of a dottedName name sharing the id of their
    item — `1, 2, …, n` when no name is dottedName (`nested_ids_undotted`). -/
theorem layout_independent_nested (xs : List LayItem) (post : Pre) (h : wfDocN xs post = true) :
    ∃ objs, parseObjs (renderN xs post) = .ok objs ∧
      eraseList objs = eraseList (layTrees xs) ∧
      idsList objs = (expIdsSeq 1 (layTrees xs)).map some :=
  ⟨layObjs xs 1 1, parseObjs_renderN_l2 xs post h, layObjs_erase_l2 xs 1 1, layObjs_ids_l2 xs 1 1⟩

/-- without dottedName names (`noChains`) the ids are `1, 2, …, n` in document order, `n` the number of
    objects -/
theorem nested_ids_undotted (xs : List LayItem) (h : ∀ x ∈ layTrees xs, x.noChains) :
    expIdsSeq 1 (layTrees xs) = List.range' 1 (nodesList (layTrees xs)) :=
  tree_ids_noChains _ h

/-- **Two nested layouts, one tree.**  Two well-formed layouts with the same abstract tree parse to
    trees equal up to source lines: same nesting, names, flags, words — and the same ids. -/
theorem two_nested_layouts_same_tree (xs1 xs2 : List LayItem) (post1 post2 : Pre)
    (hsame : layTrees xs1 = layTrees xs2)
    (h1 : wfDocN xs1 post1 = true) (h2 : wfDocN xs2 post2 = true) :
    ∃ o1 o2, parseObjs (renderN xs1 post1) = .ok o1 ∧ parseObjs (renderN xs2 post2) = .ok o2 ∧
      eraseList o1 = eraseList o2 ∧ idsList o1 = idsList o2 := by
  obtain ⟨o1, p1, e1, i1⟩ := layout_independent_nested xs1 post1 h1
  obtain ⟨o2, p2, e2, i2⟩ := layout_independent_nested xs2 post2 h2
  exact ⟨o1, o2, p1, p2, by rw [e1, e2, hsame], by rw [i1, i2, hsame]⟩

/-- **Nested braces versus dottedName names under ANY layout.**  Two well-formed layouts whose abstract
    trees agree up to the `merge_names` flags — the same scopes, definitions, flags and words, every
    item spelt with a dottedName name or with nested braces, laid out in any well-formed way — parse to
    trees equal up to ids, source lines and `merge_names`.  (`dotted_item_is_braces` shows what a
    dottedName item is up to `merge_names`: the item inside proper scopes.) -/
theorem dotted_equals_nested_any_layout (xs1 xs2 : List LayItem) (post1 post2 : Pre)
    (hsame : eraseMergeList (layTrees xs1) = eraseMergeList (layTrees xs2))
    (h1 : wfDocN xs1 post1 = true) (h2 : wfDocN xs2 post2 = true) :
    ∃ o1 o2, parseObjs (renderN xs1 post1) = .ok o1 ∧ parseObjs (renderN xs2 post2) = .ok o2 ∧
      eraseMergeList o1 = eraseMergeList o2 := by
  obtain ⟨o1, p1, e1, _⟩ := layout_independent_nested xs1 post1 h1
  obtain ⟨o2, p2, e2, _⟩ := layout_independent_nested xs2 post2 h2
  exact ⟨o1, o2, p1, p2, by rw [eraseMergeList_congr_l2 e1, eraseMergeList_congr_l2 e2, hsame]⟩

/-- a dottedName definition `p1.….pk.name = words` and a dottedName header `p1.….pk.nm {` are, up to
    `merge_names`, the definition / the scope inside the proper scopes `p1`, …, `pk` -/
theorem dotted_item_is_braces (p : List Str) :
    (∀ (d : DefSpec) (L : DefLayout) (b : Bool), (LayItem.defn p d L b).tree.eraseMerge
      = bracesIn_l2 p (.defn { name := d.1, disabled := b } (d.2.map Word.erase))) ∧
    (∀ (nm : Str) (b : Bool) (pre gap : Pre) (kids : List LayItem) (close : Pre),
      (LayItem.scope p nm b pre gap kids close).tree.eraseMerge
        = bracesIn_l2 p (.scope { name := nm, disabled := b } (eraseMergeList (layTrees kids)))) :=
  ⟨layTree_eraseMerge_defn_l2 p, layTree_eraseMerge_scope_l2 p⟩

/-- without `!` the abstract trees of well-formed layouts are `RTTree`s — the class of C01Nested —
    in which no unquoted word follows a word containing a newline -/
theorem layTrees_in_class (xs : List LayItem) (post : Pre) (h : wfDocN xs post = true)
    (hno : ∀ b ∈ layFlags xs, b = false) :
    (∀ x ∈ layTrees xs, RTTree x) ∧ (∀ x ∈ layTrees xs, x.allDefns ChainOK) := by
  simp only [wfDocN, Bool.and_eq_true] at h
  obtain ⟨h1, h2⟩ := layTrees_rt_l2 xs _ h.1 hno
  exact ⟨(RTAll_iff _).mp h1, (allDefnsList_iff _ _).mp h2⟩

/-- **Every nested layout agrees with the canonical print.**  Without `!`: the tree of any well-formed
    layout is the tree `parse` returns for the canonical text of its abstract tree (`flatKids`, what
    `scope.show` prints when nothing is wrapped, C01Nested) — up to source lines, ids included. -/
theorem nested_same_as_canonical_text (xs : List LayItem) (post : Pre) (h : wfDocN xs post = true)
    (hno : ∀ b ∈ layFlags xs, b = false) :
    ∃ o1 o2, parseObjs (renderN xs post) = .ok o1 ∧
      parseObjs (flatKids (layTrees xs) [] []) = .ok o2 ∧
      eraseList o1 = eraseList o2 ∧ idsList o1 = idsList o2 := by
  obtain ⟨o1, p1, e1, i1⟩ := layout_independent_nested xs post h
  obtain ⟨hrt, hch⟩ := layTrees_in_class xs post h hno
  obtain ⟨o2, p2, e2, i2⟩ := parseObjs_flatKids_l2 (layTrees xs) (rtAll_of_forall hrt)
    ((allDefnsList_iff _ _).mpr hch)
  exact ⟨o1, o2, p1, p2, by rw [e1, e2], by rw [i1, i2]⟩

/-- **C02, `!` in nested documents: exactly the constructs with `!` are disabled, nothing else
    changes.**  `layUnbang xs` is the same layout with every `!` removed.  Both texts parse; enabling
    every object of the first tree (`enableAllList`: `is_disabled := False`, nothing else touched)
    gives exactly the second tree — names, ids, source lines of objects and words, nesting — and the
    `is_disabled` flags of the first tree, in document order, are exactly the `!` flags of the layout
    (`layFlags`): a `!` on a scope disables that scope object (its body stays as it is, the children
    are not flagged), a `!` on a definition disables that definition; in front of a dottedName name it
    disables the innermost object only (the scopes built for the leading components stay enabled). -/
theorem bang_disables_exactly_one_nested (xs : List LayItem) (post : Pre)
    (h : wfDocN xs post = true) :
    ∃ objs objs0, parseObjs (renderN xs post) = .ok objs ∧
      parseObjs (renderN (layUnbang xs) post) = .ok objs0 ∧
      enableAllList objs = objs0 ∧ disabledFlagsList objs = layFlags xs := by
  have h0 : wfDocN (layUnbang xs) post = true := by
    simp only [wfDocN, layUnbang_wf_l2] at h ⊢
    exact h
  exact ⟨layObjs xs 1 1, layObjs (layUnbang xs) 1 1, parseObjs_renderN_l2 xs post h,
    parseObjs_renderN_l2 _ post h0, (layObjs_unbang_l2 xs 1 1).symm, layObjs_flags_l2 xs 1 1⟩

/-! ### non-vacuity: one nested document in two very different layouts -/

private def w1 (s : String) : Word := { value := s.toList }

/-- canonical layout: one item per line, two blanks of indentation per level, `}` on its own line -/
def exCanonN : List LayItem :=
  [ .defn [] ("x".toList, [w1 "1"]) { gaps := [[' ']] } false,
    .scope [] "a".toList false {} { ind := [' '] }
      [ .defn [] ("y".toList, [w1 "2", { value := "p\nq".toList, quote := some .d1 }])
          { pre := { lines := [⟨[], none⟩], ind := [' ', ' '] }, gaps := [[' '], [' ']] } false,
        .scope [] "e".toList false { ind := [' ', ' '] } { ind := [' '] } []
          { lines := [⟨[], none⟩], ind := [' ', ' '] },
        .defn [] ("z".toList, [w1 "3"])
          { pre := { lines := [⟨[], none⟩], ind := [' ', ' '] }, gaps := [[' ']] } false ]
      {},
    .scope [] "f".toList false { lines := [⟨[], none⟩] } { ind := [' '] }
      [ .defn [] ("g".toList, [w1 "4"])
          { pre := { lines := [⟨[], none⟩], ind := [' ', ' '] }, gaps := [[' ']] } false ]
      {},
    .defn [] ("w".toList, [w1 "4"]) { pre := { lines := [⟨[], none⟩] }, gaps := [[' ']] } false ]

/-- a wild layout of the same document: comment header, `a` and `{` on different lines with a comment
    in between, items separated by `;` on one line, `e{ }`, `z = 3 }` (no terminator in front of `}`),
    `f` directly behind `}`, two blank lines between `f` and `{`, trailing comment, a comment line in
    front of `}`; flags `fa fy` put `!` on the scope `a` and on the definition `y`; with `dots` the
    scope `f { g = 4 }` is spelt `f.g = 4` instead -/
def exWildN (fa fy dots : Bool) : List LayItem :=
  [ .defn [] ("x".toList, [w1 "1"]) { pre := { lines := [⟨[], some " head".toList⟩] }, gaps := [[' ']] } false,
    .scope [] "a".toList fa { lines := [⟨[], none⟩], ind := [' '] }
        { lines := [⟨[' '], some " c".toList⟩], ind := ['\t'] }
      [ .defn [] ("y".toList, [w1 "2", { value := "p\nq".toList, quote := some .d1 }])
          { pre := { lines := [⟨[' '], some "in".toList⟩], ind := [' ', ' '] }, sp1 := [], gaps := [[], [' ']],
            term := .semi [] } fy,
        .scope [] "e".toList false { ind := [' '] } {} [] { ind := [' '] },
        .defn [] ("z".toList, [w1 "3"]) { pre := { ind := [' '] }, gaps := [[' ']], term := .eof } false ]
      { ind := [' '] },
    (if dots then
      .defn ["f".toList] ("g".toList, [w1 "4"])
        { pre := { lines := [⟨[], some "now dottedName".toList⟩], ind := ['\t'] }, sp1 := [' ', ' '],
          gaps := [['\t']], term := .comment [' '] " tr".toList } false
     else
      .scope [] "f".toList false {} { lines := [⟨[], none⟩, ⟨[], none⟩] }
        [ .defn [] ("g".toList, [w1 "4"]) { gaps := [[' ']], term := .comment [' '] " tr".toList } false ]
        { lines := [⟨[], some "x".toList⟩] }),
    .defn [] ("w".toList, [w1 "4"]) { pre := { ind := [' '] }, gaps := [[' ']], term := .eof } false ]

example : renderN exCanonN {} =
    "x = 1\na {\n  y = 2 \"p\nq\"\n  e {\n  }\n  z = 3\n}\nf {\n  g = 4\n}\nw = 4\n".toList := by
  decide +kernel

example : renderN (exWildN false false false) { ind := [' '] } =
    "# head\nx = 1\n\n a # c\n\t{ #in\n  y=2 \"p\nq\"; e{ } z = 3 }f\n\n{g = 4 # tr\n#x\n} w = 4 ".toList := by
  decide +kernel

example : renderN (exWildN true true false) { ind := [' '] } =
    "# head\nx = 1\n\n !a # c\n\t{ #in\n  !y=2 \"p\nq\"; e{ } z = 3 }f\n\n{g = 4 # tr\n#x\n} w = 4 ".toList := by
  decide +kernel

example : renderN (exWildN false false true) { ind := [' '] } =
    "# head\nx = 1\n\n a # c\n\t{ #in\n  y=2 \"p\nq\"; e{ } z = 3 }#now dottedName\n\tf.g  =\t4 # tr\n w = 4 ".toList := by
  decide +kernel

theorem exCanonN_wf : wfDocN exCanonN {} = true := by decide +kernel
theorem exWildN_wf (fa fy dots : Bool) : wfDocN (exWildN fa fy dots) { ind := [' '] } = true := by
  cases fa <;> cases fy <;> cases dots <;> decide +kernel

/-- both layouts, through the theorem: same tree up to lines, same ids -/
example : ∃ o1 o2, parseObjs (renderN exCanonN {}) = .ok o1 ∧
    parseObjs (renderN (exWildN false false false) { ind := [' '] }) = .ok o2 ∧
    eraseList o1 = eraseList o2 ∧ idsList o1 = idsList o2 :=
  two_nested_layouts_same_tree exCanonN (exWildN false false false) {} { ind := [' '] } (by decide +kernel)
    exCanonN_wf (exWildN_wf false false false)

/-- the canonical layout against the wild layout with `f.g = 4` spelt dottedName, through the theorem: the
    same tree up to ids, lines and `merge_names` -/
example : ∃ o1 o2, parseObjs (renderN exCanonN {}) = .ok o1 ∧
    parseObjs (renderN (exWildN false false true) { ind := [' '] }) = .ok o2 ∧
    eraseMergeList o1 = eraseMergeList o2 :=
  dotted_equals_nested_any_layout exCanonN (exWildN false false true) {} { ind := [' '] }
    (by decide +kernel) exCanonN_wf (exWildN_wf false false true)

/-- the wild layout with `!a` and `!y`, through the theorem: the scope `a` (second object in document
    order) and the definition `y` (third) are disabled and nothing else differs -/
example : ∃ objs objs0, parseObjs (renderN (exWildN true true false) { ind := [' '] }) = .ok objs ∧
    parseObjs (renderN (exWildN false false false) { ind := [' '] }) = .ok objs0 ∧
    enableAllList objs = objs0 ∧
    disabledFlagsList objs = [false, true, true, false, false, false, false, false] := by
  obtain ⟨objs, objs0, p, p0, e, f⟩ := bang_disables_exactly_one_nested (exWildN true true false)
    { ind := [' '] } (exWildN_wf true true false)
  exact ⟨objs, objs0, p, p0, e, by rw [f]; decide +kernel⟩

/-- the wild text, evaluated (the Python library returns the same objects, ids and lines) -/
theorem exWildN_evaluated :
    parseObjs "# head\nx = 1\n\n !a # c\n\t{ #in\n  !y=2 \"p\nq\"; e{ } z = 3 }f\n\n{g = 4 # tr\n#x\n} w = 4 ".toList
      = .ok
      [.defn { name := ['x'], id := some 1, line := some 2 } [{ value := ['1'], line := some 2 }],
       .scope { name := ['a'], id := some 2, disabled := true, line := some 4 }
         [.defn { name := ['y'], id := some 3, disabled := true, line := some 6 }
            [{ value := ['2'], line := some 6 }, { value := "p\nq".toList, quote := some .d1, line := some 6 }],
          .scope { name := ['e'], id := some 4, line := some 7 } [],
          .defn { name := ['z'], id := some 5, line := some 7 } [{ value := ['3'], line := some 7 }]],
       .scope { name := ['f'], id := some 6, line := some 7 }
         [.defn { name := ['g'], id := some 7, line := some 9 } [{ value := ['4'], line := some 9 }]],
       .defn { name := ['w'], id := some 8, line := some 11 } [{ value := ['4'], line := some 11 }]] := by
  decide +kernel

/-! ### sharp edges of the nested layout language (model = Python on every line) -/

/-- a comment glued to the scope name: `a#c` is one word (`gapOK_l2`) -/
example : parseObjs "a#c\n{\n}\n".toList = .error (.runtime "improper_scope_name" (some 1)) := by
  decide +kernel

/-- `;` after `}`: in structure context `;` is not a separator but a (bad) name -/
example : parseObjs "a {\n b = 1\n};\nc = 2".toList = .error (.runtime "unexpected" (some 3)) := by
  decide +kernel

/-- a trailing comment swallows a `}` on its line (`Terminator.comment` ends with the newline) -/
example : parseObjs "a { b = 1 # c }\nd = 2".toList = .error (.runtime "no_matching_brace" (some 1)) := by
  decide +kernel

/-- no blanks at all is fine: `a{b=1}c=2` -/
example : parseObjs "a{b=1}c=2".toList = .ok
    [.scope { name := ['a'], id := some 1, line := some 1 }
       [.defn { name := ['b'], id := some 2, line := some 1 } [{ value := ['1'], line := some 1 }]],
     .defn { name := ['c'], id := some 3, line := some 1 } [{ value := ['2'], line := some 1 }]] := by
  decide +kernel

/-- a comment line between the name and `{` may itself contain `{` -/
example : parseObjs "a\n# x {\n{\n}".toList = .ok [.scope { name := ['a'], id := some 1, line := some 1 } []] := by
  decide +kernel

/-- one `}` too many -/
example : parseObjs "a {\n b = 1\n} }".toList = .error (.runtime "unexpected_end" none) := by
  decide +kernel

#print axioms eraseMerge_spec
#print axioms spelling_independent
#print axioms bracesIn_rtTree
#print axioms dottedIn_rtTree
#print axioms dotted_equals_nested_item
#print axioms dotted_defn_text
#print axioms dotted_scope_text
#print axioms braces_text
#print axioms dotted_equals_nested
#print axioms dotted_header_equals_nested
#print axioms dotted_or_nested_document
#print axioms two_spellings_same_tree
#print axioms dotted_and_nested_evaluated
#print axioms exItems_ok
#print axioms dotted_reserved_but_nested_fine
#print axioms dotted_names_do_not_merge
#print axioms layout_independent_nested
#print axioms nested_ids_undotted
#print axioms two_nested_layouts_same_tree
#print axioms dotted_equals_nested_any_layout
#print axioms dotted_item_is_braces
#print axioms layTrees_in_class
#print axioms nested_same_as_canonical_text
#print axioms bang_disables_exactly_one_nested
#print axioms exCanonN_wf
#print axioms exWildN_wf
#print axioms exWildN_evaluated

end Phil.C02
