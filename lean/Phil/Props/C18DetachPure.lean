/-
  C18, detachment clause, tied to the pure extraction model.

  Phil/HeapExtract.lean reads the value tree of an extraction off the object heap (`extractT`), keeping
  which definition handed out its own word list; Phil/Fetch.lean (`extractObj`) is the pure model of
  `scope.extract` the correspondence harness compares with the real `extract()` on every run.  Here:

  * `extract_erase`: for every heap, object `x` and abstract tree `o` with `Abs h x o`, at every fuel,
    `erase (extractT e fuel h x) = extractObj e fuel o` — results and errors alike;
  * every value tree an extraction builds is normal (`pure` never holds a scope_extract);
  * `detached_pure`: after any safe history of in-place mutations of extracted value objects the PHIL
    object still denotes the same abstract tree and every later extraction, identity erased, is the pure
    extraction of that tree — the statement `detached` of C18Detach, transferred to what the
    correspondence run compares.
-/
import Phil.Props.C18Detach
import Phil.Proofs.HeapErase
import Phil.Proofs.HeapTotal
namespace Phil.C18DetachPure
open Phil Phil.Heap

/-- **erase ∘ extractT = extractObj ∘ abs.**  Whatever abstract tree `o` the object `x` denotes (any heap:
    trees, fetch results, shallow copies), the heap-level extraction with identity erased is the pure
    extraction of `o`: same value, or the same error, at every fuel. -/
theorem extract_erase (e : Envs) (fuel : Nat) (h : Heap) (x : Nat) (o : Obj) (ha : Abs h x o) :
    (extractT e fuel h x).map erase = extractObj e fuel o := by
  obtain ⟨f, hf⟩ := ha
  have := extractT_rel e fuel h x o f hf
  cases ht : extractT e fuel h x with
  | error err => rw [ht] at this; simp only [RelV] at this; rw [this]; rfl
  | ok t => rw [ht] at this; simp only [RelV] at this; rw [this.2]; rfl

/-- both directions spelled out: a successful heap-level extraction IS a successful pure extraction of the
    erased value, an error is the same error, and conversely -/
theorem extract_erase_iff (e : Envs) (fuel : Nat) (h : Heap) (x : Nat) (o : Obj) (ha : Abs h x o) :
    (∀ v, extractObj e fuel o = .ok v ↔ ∃ t, extractT e fuel h x = .ok t ∧ erase t = v) ∧
    (∀ err, extractObj e fuel o = .error err ↔ extractT e fuel h x = .error err) := by
  have key := extract_erase e fuel h x o ha
  cases ht : extractT e fuel h x with
  | error err0 =>
    rw [ht] at key
    have hp : extractObj e fuel o = .error err0 := key.symm
    rw [hp]
    constructor
    · intro v
      constructor
      · intro hh; cases hh
      · rintro ⟨t, hh, _⟩; cases hh
    · intro err
      constructor
      · intro hh; cases hh; rfl
      · intro hh; cases hh; rfl
  | ok t =>
    rw [ht] at key
    have hp : extractObj e fuel o = .ok (erase t) := key.symm
    rw [hp]
    constructor
    · intro v
      constructor
      · intro hh; cases hh; exact ⟨t, rfl, rfl⟩
      · rintro ⟨t', hh, hv⟩; cases hh; rw [hv]
    · intro err
      constructor
      · intro hh; cases hh
      · intro hh; cases hh

/-- **Extracted value trees are normal**: a value built afresh by a converter is never a scope_extract or a
    scope_extract_list (no `from_words` returns one), at any depth. -/
theorem extract_normal (e : Envs) (fuel : Nat) (h : Heap) (x : Nat) (o : Obj) (ha : Abs h x o) (t : TVal)
    (ht : extractT e fuel h x = .ok t) : t.norm = true := by
  obtain ⟨f, hf⟩ := ha
  have := extractT_rel e fuel h x o f hf
  rw [ht] at this
  exact this.1

/-- no converter returns a scope_extract / scope_extract_list -/
theorem converters_return_atomic (c : Conv) (env : EvalEnv) (opt : AttrVal) (ws : List Word) (v : PVal)
    (h : fromWords c env opt ws = .ok v) : v.atomic = true :=
  fromWords_atomic c env opt ws v h

/-- `__phil_set__` on the heap-level value tree, identity erased, is the pure `__phil_set__` — on normal
    trees (the only ones extraction builds) -/
theorem philSet_erase (fs : List (Str × TVal)) (name : Str) (opt : AttrVal) (mult : Bool) (x : XT)
    (hfs : normFields fs = true) (hx : x.norm = true) :
    (philSetT fs name opt mult x).map eraseFields = philSet (eraseFields fs) name opt mult (eraseX x) := by
  have := philSet_rel fs name opt mult x hfs hx
  cases ht : philSetT fs name opt mult x with
  | error err => rw [ht] at this; simp only [RelF] at this; rw [this]; rfl
  | ok r => rw [ht] at this; simp only [RelF] at this; rw [this.2]; rfl

/-- `__phil_join__` likewise -/
theorem philJoin_erase (fuel : Nat) (a b : List (Str × TVal)) (ha : normFields a = true) (hb : normFields b = true) :
    (philJoinT fuel a b).map eraseFields = philJoin fuel (eraseFields a) (eraseFields b) := by
  have := philJoin_rel fuel a b ha hb
  cases ht : philJoinT fuel a b with
  | error err => rw [ht] at this; simp only [RelF] at this; rw [this]; rfl
  | ok r => rw [ht] at this; simp only [RelF] at this; rw [this.2]; rfl

/-- **Parsed documents.**  For the heap of any parsed document, extraction from the root object, identity
    erased, is the pure extraction of the root scope over the parsed objects. -/
theorem extract_of_parsed_document (e : Envs) (fuel : Nat) (text : List Char) (objs : List Obj)
    (_hp : parseObjs text = .ok objs) :
    (extractT e fuel (ofObjs objs) 0).map erase = extractObj e fuel (.scope { name := [] } objs) := by
  have hroot : Abs (ofObjs objs) 0 (.scope { name := [] } objs) := by
    have := build_abs (.scope { name := [] } objs) none []
    simpa [ofObjs, build] using this
  exact extract_erase e fuel (ofObjs objs) 0 _ hroot

/-- … and of every object of it: each denotes a tree (`abs` answers) whose pure extraction it is -/
theorem extract_of_parsed_object (e : Envs) (fuel : Nat) (objs : List Obj) (x : Nat) (hx : x < (ofObjs objs).length) :
    ∃ o, abs (ofObjs objs) x = some o ∧ (extractT e fuel (ofObjs objs) x).map erase = extractObj e fuel o := by
  have := (ofObjs_treeHeap objs).abs_isSome x hx
  cases ha : abs (ofObjs objs) x with
  | none => rw [ha] at this; cases this
  | some o => exact ⟨o, rfl, extract_erase e fuel _ x o ⟨_, ha⟩⟩

/-- **Detachment, on the pure model.**  Extract `x` (which denotes `o`); mutate extracted value objects by any
    history that does not go through a handed-out word list.  Then
    (a) the first extraction, identity erased, was the pure extraction of `o`;
    (b) the PHIL heap is unchanged, so `x` — and every other object — denotes what it denoted;
    (c) every later extraction of ANY object `y` denoting `o'`, at any fuel, identity erased, is the pure
        extraction of `o'`: `extract()` after the mutations returns what the correspondence run compares
        with the real library for the unmodified tree. -/
theorem detached_pure (e : Envs) (fuel : Nat) (s s1 : Store) (x : Nat) (v1 : VRef) (o : Obj)
    (h1 : extractStore e fuel s x = .ok (s1, v1)) (ha : Abs s.phil x o)
    (ops : List (Nat × MutOp)) (hs : SafeHist s1 ops) :
    (∃ t, extractT e fuel s.phil x = .ok t ∧ v1 = (reify t s.vals.length).2 ∧ t.norm = true ∧
        extractObj e fuel o = .ok (erase t)) ∧
    (∀ y o', Abs (mutateMany s1 ops).phil y o' ↔ Abs s.phil y o') ∧
    (∀ fuel' y o', Abs s.phil y o' →
        (extractT e fuel' (mutateMany s1 ops).phil y).map erase = extractObj e fuel' o') := by
  obtain ⟨hphil, _, t, ht, hv, _⟩ := C18Detach.detached e fuel s s1 x v1 h1 ops hs
  refine ⟨⟨t, ht, hv, extract_normal e fuel s.phil x o ha t ht, ?_⟩, ?_, ?_⟩
  · have := extract_erase e fuel s.phil x o ha
    rw [ht] at this
    exact this.symm
  · intro y o'
    rw [hphil]
  · intro fuel' y o' hy
    rw [hphil]
    exact extract_erase e fuel' s.phil y o' hy

/-- without `.type = words` in sight every history is safe (C18Detach.detached_without_words), and the
    later extractions are the pure ones -/
theorem detached_pure_without_words (e : Envs) (fuel : Nat) (s s1 : Store) (x : Nat) (v1 : VRef) (o : Obj)
    (h1 : extractStore e fuel s x = .ok (s1, v1)) (ha : Abs s.phil x o) (hn : noAliasB s.vals = true)
    (hw : ∀ t, extractT e fuel s.phil x = .ok t → t.noHandout = true) (ops : List (Nat × MutOp)) :
    (mutateMany s1 ops).phil = s.phil ∧
    ∀ fuel' y o', Abs s.phil y o' →
      (extractT e fuel' (mutateMany s1 ops).phil y).map erase = extractObj e fuel' o' := by
  obtain ⟨hsafe, hphil, _⟩ := C18Detach.detached_without_words e fuel s s1 x v1 h1 hn hw ops
  exact ⟨hphil, (detached_pure e fuel s s1 x v1 o h1 ha ops hsafe).2.2⟩

/-! ### sharp edges (kernel-checked) -/

/-- number of fields of the scope_extract stored under `k` -/
def fieldCountP (fs : List (Str × PVal)) (k : Str) : Option Nat :=
  match fieldGet fs k with
  | some (.record r) => some r.length
  | _ => none

/-- **Normality is needed** for `philSet_erase`: on the NON-normal tree `a ↦ pure (record [b])` (a converter
    result that is a scope_extract — which no converter produces) the heap-level `__phil_set__` overwrites
    (1 field) where the pure one joins (2 fields). -/
theorem philSet_erase_needs_normal :
    normFields [("a".toList, TVal.pure (.record [("b".toList, .str "x".toList)]))] = false ∧
    (match philSetT [("a".toList, TVal.pure (.record [("b".toList, .str "x".toList)]))] "a".toList .none false
        (.val (.record [("c".toList, .pure .none)])) with
      | .ok r => fieldCountP (eraseFields r) "a".toList | .error _ => none) = some 1 ∧
    (match philSet (eraseFields [("a".toList, TVal.pure (.record [("b".toList, .str "x".toList)]))]) "a".toList .none false
        (eraseX (.val (.record [("c".toList, .pure .none)]))) with
      | .ok r => fieldCountP r "a".toList | .error _ => none) = some 2 := by
  decide +kernel

/-- **`Abs h x o` is needed**: on a heap with a dangling child the heap-level extraction raises the model's
    `LookupError`, which no pure extraction does -/
theorem extract_of_dangling :
    (match extractT C18Detach.noEnv 5 [Node.scope { name := [] } [3] none] 0 with
      | .error (.stray c _) => c | _ => "") = "LookupError" ∧ abs [Node.scope { name := [] } [3] none] 0 = none := by
  decide +kernel

/-- the erased value really forgets something: the extraction of `docText` (C18Detach) hands out the word
    list of definition 1, and its erasure is the plain `words` value -/
theorem erase_forgets_handout :
    (match extractT C18Detach.noEnv 10 (C18Detach.heapOfText C18Detach.docText) 1 with
      | .ok (.handout d ws) => some (d, ws.map (·.value), match erase (.handout d ws) with | .words ws' => ws'.map (·.value) | _ => [])
      | _ => none) = some (1, ["a".toList, "b".toList], ["a".toList, "b".toList]) := by
  decide +kernel

/-! ### the hypotheses are satisfiable -/

/-- `detached_pure` applies to the document of C18Detach: the root denotes the parsed tree, extraction
    succeeds, and the append to the extracted `.type = strings` list (value object 3) is a safe history -/
example : ∃ objs s1 v1, parseObjs C18Detach.docText.toList = .ok objs ∧
    extractStore C18Detach.noEnv 10 ⟨ofObjs objs, []⟩ 0 = .ok (s1, v1) ∧
    Abs (ofObjs objs) 0 (.scope { name := [] } objs) ∧
    SafeHist s1 [(3, .append (.atom (.str "Z".toList)))] := by
  have key : (match parseObjs C18Detach.docText.toList with
      | .ok objs => (match extractStore C18Detach.noEnv 10 ⟨ofObjs objs, []⟩ 0 with
        | .ok (s1, _) => (match s1.vals[3]? with | some (VCell.list _ _) => true | _ => false)
        | .error _ => false)
      | .error _ => false) = true := by decide +kernel
  cases hp : parseObjs C18Detach.docText.toList with
  | error err => rw [hp] at key; cases key
  | ok objs =>
    rw [hp] at key
    simp only at key
    cases hx : extractStore C18Detach.noEnv 10 ⟨ofObjs objs, []⟩ 0 with
    | error err => rw [hx] at key; cases key
    | ok r =>
      obtain ⟨s1, v1⟩ := r
      rw [hx] at key
      simp only at key
      have hroot : Abs (ofObjs objs) 0 (.scope { name := [] } objs) := by
        have := build_abs (.scope { name := [] } objs) none []
        simpa [ofObjs, build] using this
      refine ⟨objs, s1, v1, rfl, hx, hroot, ?_, trivial⟩
      intro d hd
      rw [hd] at key
      cases key

end Phil.C18DetachPure

#print axioms Phil.C18DetachPure.extract_erase
#print axioms Phil.C18DetachPure.extract_erase_iff
#print axioms Phil.C18DetachPure.extract_normal
#print axioms Phil.C18DetachPure.converters_return_atomic
#print axioms Phil.C18DetachPure.philSet_erase
#print axioms Phil.C18DetachPure.philJoin_erase
#print axioms Phil.C18DetachPure.extract_of_parsed_document
#print axioms Phil.C18DetachPure.extract_of_parsed_object
#print axioms Phil.C18DetachPure.detached_pure
#print axioms Phil.C18DetachPure.detached_pure_without_words
#print axioms Phil.C18DetachPure.philSet_erase_needs_normal
#print axioms Phil.C18DetachPure.extract_of_dangling
#print axioms Phil.C18DetachPure.erase_forgets_handout
