/-
  C05 (NESTED masters) — "last value wins", at every depth; with the companions for the same class of
  C04 — "a fetch result has exactly the master's parameter structure" — and C07 — "fetching is
  idempotent" (namespaces `Phil.C05`, `Phil.C04`, `Phil.C07`).

  Model: Phil/Fetch.lean (`fetchScope`/`fetchRoot`).  Lemmas: Phil/Proofs/FetchTree.lean.  The closed
  form these corollaries rest on is `Phil.C06.fetch_tree_total` (Phil/Props/C06Tree.lean), where the
  class is described: masters that are TREES without `.multiple` (`TreeMaster`), arbitrary sources of
  definitions and named scopes to any depth (`SrcTree`), fuel `depthL mkids + 1 ≤ fuel`.

  Specification functions (structural recursion on the master tree):
    `srcStep objs n` — the children of all enabled scopes called `n` among `objs`, in document order;
    `srcAt objs ps`  — `srcStep` iterated along the path `ps`: the active source objects reached by
                       the path, over all sources and all spellings (dotted or braced, repeated);
    `lastDef objs n` — the last enabled definition called `n` among `objs`;
    `treeResult mkids srcs` — each master definition with the words of the last matching source
                       definition (or itself), each master scope rebuilt from `srcStep`;
    `defAt objs ps n` — the definition at the path `ps.n` of a tree (first object of each name).
  Facts:
    * C05 `last_value_wins_at_depth`: the result definition at `ps.n` carries the words of
      `lastDef (srcAt srcs ps) n`, or is the master definition if there is none;
      `last_value_wins_all_definitions`: the same in terms of `all_definitions(sources)`: the LAST
      entry whose dotted path is `ps.n`;
    * C04 `tree_result_shape`: result and master have the same skeleton (kinds, names, attributes,
      order, nesting — everything but the words and the template marks), `tree_result_paths`;
    * C07 `tree_refetch_idempotent`: fetching the result again (as the only source) returns the same
      result, and cannot fail.
-/
import Phil.Proofs.FetchTree
import Phil.Props.C06Tree
set_option linter.unusedVariables false

namespace Phil.C05
open Phil

/-- **Last value wins at every depth.**  Whenever the fetch of a tree master succeeds: where the
    master has the definition `mm` at the path `ps.n`, the result has, at the same path, that
    definition with the (resolved) words of the LAST enabled source definition reached by that path
    (`srcAt`: all sources, all spellings, enabled scopes only), or the master definition itself if
    there is none. -/
theorem last_value_wins_at_depth (e : Envs) (fuel : Nat) (sm : Meta) (mkids srcs : List Obj)
    (hf : TreeMaster mkids) (hfuel : depthL mkids + 1 ≤ fuel) (hsd : sm.disabled = false)
    (hsrc : SrcTree srcs) (ro : Obj) (used : List Nat)
    (h : fetchScope e fuel false sm mkids srcs = .ok (ro, used))
    (ps : List Str) (n : Str) (mm : Meta) (mws : List Word)
    (hm : defAt mkids ps n = some (.defn mm mws)) :
    defAt ro.children ps n =
      some (match lastDef (srcAt srcs ps) n with
            | some d => .defn { mm with tmpl := 0 } d.srcWords
            | none => .defn mm mws) := by
  obtain ⟨_, hro, _⟩ := fetch_tree_ok e fuel sm mkids srcs hf hfuel hsd hsrc ro used h
  subst hro
  exact last_value_wins_at_depth_tree mkids srcs ps n mm mws hm

/-- **… in terms of `all_definitions(sources)`** (sources with dot-free names, as parsed): the words
    of the result definition at `ps.n` are the (resolved) words of the LAST entry of
    `all_definitions(sources)` whose dotted path is `ps.n`; the master's words if there is none. -/
theorem last_value_wins_all_definitions (e : Envs) (fuel : Nat) (sm : Meta) (mkids srcs : List Obj)
    (hf : TreeMaster mkids) (hfuel : depthL mkids + 1 ≤ fuel) (hsd : sm.disabled = false)
    (hsrc : SrcTree srcs) (hdot : ∀ x, ActiveIn x srcs → '.' ∉ x.name)
    (ro : Obj) (used : List Nat)
    (h : fetchScope e fuel false sm mkids srcs = .ok (ro, used))
    (ps : List Str) (n : Str) (hinc : n ≠ "include".toList) (mm : Meta) (mws : List Word)
    (hm : defAt mkids ps n = some (.defn mm mws)) :
    (defAt ro.children ps n).map Obj.words =
      some (match ((allDefinitions srcs).filter (fun x => x.1 == dottedPath ps n)).getLast? with
            | some x => (Obj.defn x.2.1 x.2.2).srcWords
            | none => mws) := by
  obtain ⟨_, hro, _⟩ := fetch_tree_ok e fuel sm mkids srcs hf hfuel hsd hsrc ro used h
  subst hro
  exact last_value_wins_allDefs_tree mkids srcs hf hdot ps n hinc mm mws hm

/-- the entries of `all_definitions(sources)` with the dotted path `ps.n` are the enabled
    definitions called `n` reached by the path `ps`, in document order -/
theorem all_definitions_at_path (srcs : List Obj) (hdot : ∀ x, ActiveIn x srcs → '.' ∉ x.name)
    (ps : List Str) (hps : ∀ s ∈ ps, '.' ∉ s) (n : Str) (hn : '.' ∉ n) (hinc : n ≠ "include".toList) :
    (allDefinitions srcs).filter (fun x => x.1 == dottedPath ps n) =
      (defsNamed n (srcAt srcs ps)).map (fun d => (dottedPath ps n, d.meta, d.words)) := by
  have h := allDefs_at_path_tree n hn hinc ps srcs [] hps hdot
  simp only [List.nil_append] at h
  exact h

/-- **`master.fetch(sources)`** on parsed roots, side conditions in executable form -/
theorem fetchRoot_last_value_wins (e : Envs) (master : List Obj) (ss : List (List Obj))
    (hm : masterCheck master = true) (hs : srcCheck ss.flatten = true)
    (ro : Obj) (used : List Nat)
    (h : fetchRoot e false master ss = .ok (ro, used))
    (ps : List Str) (n : Str) (mm : Meta) (mws : List Word)
    (hdef : defAt master ps n = some (.defn mm mws)) :
    defAt ro.children ps n =
      some (match lastDef (srcAt ss.flatten ps) n with
            | some d => .defn { mm with tmpl := 0 } d.srcWords
            | none => .defn mm mws) :=
  have hM := masterCheck_sound master hm
  have hS := srcCheck_sound ss.flatten hs
  last_value_wins_at_depth e _ _ master ss.flatten hM.tree (fetchRoot_fuel_tree master hM.depth) rfl
    hS.tree ro used h ps n mm mws hdef

/-! ### non-vacuity (instance of Phil/Props/C06Tree.lean, through the parser) -/

/-- `s.t.c` is given twice (`s.t.c = 4`, then `s.t { c = 6 }`) and once disabled (`!s.t.c = 9`): the
    last enabled value `6` wins; `s.t.d` has no source: the master's value stays -/
example : ((defAt (treeResult C06.treeM C06.treeS) ["s".toList, "t".toList] "c".toList).map
      (fun o => o.words.map (fun w => String.ofList w.value)),
    (defAt (treeResult C06.treeM C06.treeS) ["s".toList, "t".toList] "d".toList).map
      (fun o => o.words.map (fun w => String.ofList w.value)),
    ((allDefinitions C06.treeS).filter (fun x => x.1 == dottedPath ["s".toList, "t".toList] "c".toList)).map
      (fun x => x.2.2.map (fun w => String.ofList w.value))) =
    (some ["6"], some ["2"], [["4"], ["6"]]) := by
  decide +kernel

/-- the theorem applied to the instance -/
example (ro : Obj) (used : List Nat) (h : fetchRoot env12 false C06.treeM [C06.treeS] = .ok (ro, used)) :
    (defAt ro.children ["s".toList, "t".toList] "c".toList).map
      (fun o => o.words.map (fun w => String.ofList w.value)) = some ["6"] := by
  have hfl : ([C06.treeS] : List (List Obj)).flatten = C06.treeS := by simp
  have hm : ∃ mm mws, defAt C06.treeM ["s".toList, "t".toList] "c".toList = some (.defn mm mws) := by
    have : (match defAt C06.treeM ["s".toList, "t".toList] "c".toList with
            | some (.defn _ _) => true
            | _ => false) = true := by decide +kernel
    split at this
    · exact ⟨_, _, by assumption⟩
    · cases this
  obtain ⟨mm, mws, hm⟩ := hm
  have := fetchRoot_last_value_wins env12 C06.treeM [C06.treeS] (by decide +kernel)
    (by rw [hfl]; decide +kernel) ro used h _ _ mm mws hm
  rw [hfl] at this
  rw [this]
  have hl : (lastDef (srcAt C06.treeS ["s".toList, "t".toList]) "c".toList).map
      (fun d => d.srcWords.map (fun w => String.ofList w.value)) = some ["6"] := by decide +kernel
  cases hld : lastDef (srcAt C06.treeS ["s".toList, "t".toList]) "c".toList with
  | none => rw [hld] at hl; cases hl
  | some d =>
    rw [hld] at hl
    simpa [Obj.words] using hl

end Phil.C05

namespace Phil.C04
open Phil

/-- **C04 for nested masters: the result has exactly the master's parameter structure.**  Whenever
    the fetch of a tree master succeeds, result and master have the same skeleton (`shapeObj`:
    words and template marks erased; kinds, names, attributes, ids, order and nesting kept) — the
    result is the master tree with other values. -/
theorem tree_result_shape (e : Envs) (fuel : Nat) (sm : Meta) (mkids srcs : List Obj)
    (hf : TreeMaster mkids) (hfuel : depthL mkids + 1 ≤ fuel) (hsd : sm.disabled = false)
    (hsrc : SrcTree srcs) (ro : Obj) (used : List Nat)
    (h : fetchScope e fuel false sm mkids srcs = .ok (ro, used)) :
    shapeObj ro = shapeObj (.scope sm mkids) := by
  obtain ⟨_, hro, _⟩ := fetch_tree_ok e fuel sm mkids srcs hf hfuel hsd hsrc ro used h
  subst hro
  rw [shapeObj, shapeObj, shapeList_treeResult]

/-- the specification itself is a map over the master tree -/
theorem treeResult_shape (mkids srcs : List Obj) : shapeList (treeResult mkids srcs) = shapeList mkids :=
  shapeList_treeResult mkids srcs

/-- the result declares exactly the master's parameter paths, in the master's order; in particular
    it has the master's names at every level -/
theorem tree_result_paths (e : Envs) (fuel : Nat) (sm : Meta) (mkids srcs : List Obj)
    (hf : TreeMaster mkids) (hfuel : depthL mkids + 1 ≤ fuel) (hsd : sm.disabled = false)
    (hsrc : SrcTree srcs) (ro : Obj) (used : List Nat)
    (h : fetchScope e fuel false sm mkids srcs = .ok (ro, used)) :
    defPaths ro.children [] = defPaths mkids [] ∧ ro.children.map Obj.name = mkids.map Obj.name := by
  obtain ⟨_, hro, _⟩ := fetch_tree_ok e fuel sm mkids srcs hf hfuel hsd hsrc ro used h
  subst hro
  exact ⟨defPaths_treeResult mkids srcs [], treeResult_names mkids srcs⟩

example : (defPaths (treeResult C06.treeM C06.treeS) []).map String.ofList = ["a", "s.b", "s.t.c", "s.t.d"] := by
  decide +kernel

end Phil.C04

namespace Phil.C07
open Phil

/-- **C07 for nested masters: fetching is idempotent.**  Whenever the fetch of a tree master
    succeeds, fetching its result again — as the only source — succeeds and returns the same result
    (master definitions not template-marked, no recorded variable resolutions, variable-free words:
    `RefetchTree`, `SrcNoDollar`). -/
theorem tree_refetch_idempotent (e : Envs) (fuel : Nat) (sm : Meta) (mkids srcs : List Obj)
    (hf : TreeMaster mkids) (hfuel : depthL mkids + 1 ≤ fuel) (hsd : sm.disabled = false)
    (hr : RefetchTree mkids) (hsrc : SrcTree srcs) (hdol : SrcNoDollar srcs)
    (ro : Obj) (used : List Nat)
    (h : fetchScope e fuel false sm mkids srcs = .ok (ro, used)) :
    ∃ used', fetchScope e fuel false sm mkids ro.children = .ok (ro, used') := by
  obtain ⟨_, hro, _⟩ := fetch_tree_ok e fuel sm mkids srcs hf hfuel hsd hsrc ro used h
  subst hro
  exact ⟨_, Phil.tree_refetch_idempotent e fuel sm mkids srcs hf hfuel hsd hr hdol⟩

/-- the specification is idempotent -/
theorem treeResult_idempotent (mkids srcs : List Obj) (hf : TreeMaster mkids) (hr : RefetchTree mkids) :
    treeResult mkids (treeResult mkids srcs) = treeResult mkids srcs :=
  treeResult_idem mkids srcs hf hr

/-- **`master.fetch(source=master.fetch(sources))`** on parsed roots, side conditions in executable
    form -/
theorem fetchRoot_tree_idempotent (e : Envs) (master : List Obj) (ss : List (List Obj))
    (hm : masterCheck master = true) (hs : srcCheck ss.flatten = true)
    (ro : Obj) (used : List Nat)
    (h : fetchRoot e false master ss = .ok (ro, used)) :
    ∃ used', fetchRoot e false master [ro.children] = .ok (ro, used') := by
  have hM := masterCheck_sound master hm
  have hS := srcCheck_sound ss.flatten hs
  have hfl : ([ro.children] : List (List Obj)).flatten = ro.children := by simp
  unfold fetchRoot
  rw [hfl]
  exact tree_refetch_idempotent e _ _ master ss.flatten hM.tree (fetchRoot_fuel_tree master hM.depth) rfl
    hM.refetch hS.tree hS.noDollar ro used h

/-- the instance: the second fetch reproduces the first -/
example :
    (match fetchRoot env12 false C06.treeM [C06.treeS] with
     | .ok (ro, _) =>
       (match fetchRoot env12 false C06.treeM [ro.children] with
        | .ok (ro2, _) => some (C06.valsOf ro.children, C06.valsOf ro2.children)
        | .error _ => none)
     | .error _ => none) =
      some ([("a", ["7"]), ("s.b", ["5"]), ("s.t.c", ["6"]), ("s.t.d", ["2"])],
            [("a", ["7"]), ("s.b", ["5"]), ("s.t.c", ["6"]), ("s.t.d", ["2"])]) := by
  decide +kernel

end Phil.C07
