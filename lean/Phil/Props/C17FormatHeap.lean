/-
  C17, the `format`, `clone` and variable-resolution clauses, on the object-identity model: purity of
  `scope.format(python_object)` as theorems about the heap-level model `formatH` (Phil/HeapFormat.lean), which follows
  common.py line by line for what the call ALLOCATES, WRITES and SHARES and is tied to /repo by the identity-graph
  correspondence `heap_format_graph` of ./check C17.

  * `formatH_frame`        — no existing cell is written (not even a `tmp` mark): the heap only grows;
  * `formatH_sharing`      — the shape of the result (`ResShape`): new cells all the way down, except below TEMPLATE
                              COPIES (`object.copy()` with `is_template = ±1` written to the NEW cell — seeded fault
                              C19-7 wrote the master's own object) of `.multiple` scopes, which hold the child list of
                              an old cell (finding D21 applies to `format` too: `format_template_children_are_reached`);
  * `formatH_old_only_through_templates` — exactly which old objects are reachable from the result;
  * `formatH_assign_frame` — any history of field assignments to NEW objects leaves every old object unchanged;
  * `formatRootH_pure`     — the same for `master.format(python_object)` of a parsed master (no hypothesis left);
  * `cloneH_frame`         — `scope.clone` = `parse(self.format(po).as_str(attributes_level=3)).extract()`: `format`,
                              then a NEW document (whatever the printer / parser make of the result), then extraction
                              (writes nothing of the PHIL heap: C18DetachPure): no existing cell is written;
  * `resolveVarsH_frame`   — `definition.resolve_variables`: ONE new cell (`customized_copy(words=new_words)`), the
                              referenced definitions are only marked `tmp`; no existing cell is written.

  Input class: every heap without dangling child / parent reference (`closedB`; every parsed document), every master
  object `x` in it, EVERY python value `v` (any `PVal`: records, lists, None, Auto, ill-typed ones), every fuel, every
  outcome `ok`.
-/
import Phil.Proofs.HeapFormatLemmas
import Phil.Props.C17FetchHeap
namespace Phil.C17FormatHeap
open Phil Phil.Heap Phil.C17FetchHeap

/-! ### (1) frame -/

/-- **`format` writes no existing cell.**  After `x.format(python_object)` every cell that existed before holds what
    it held (all slots, the child list, the parent); cells were only added. -/
theorem formatH_frame (e : Envs) (fuel x : Nat) (v : PVal) (h h' : Heap) (r : Nat)
    (hc : closedB h = true) (hx : x < h.length)
    (hf : formatH e fuel x v h = .ok (h', r)) :
    (∃ ext, h' = h ++ ext) ∧ (∀ i, i < h.length → h'[i]? = h[i]?) := by
  have g := (formatH_spec e h.length fuel x v h h' r (Nat.le_refl _) (closedB_sound hc).below hx hf).1
  exact ⟨g, fun i hi => g.get_lt hi⟩

/-! ### (2) sharing -/

/-- **The shape of a format result.**  The result is a new object; below it every object is new — a definition
    (`customized_copy(words=…)`, or the template copy of a `.multiple` definition), or a scope whose children are
    again such objects — until a template copy of a `.multiple` scope is met: a NEW cell that equals an OLD scope
    cell up to `is_template = ±1` (the flag is on the new cell; the old cell is unchanged by `formatH_frame`) and
    holds that cell's own child list. -/
theorem formatH_sharing (e : Envs) (fuel x : Nat) (v : PVal) (h h' : Heap) (r : Nat)
    (hc : closedB h = true) (hx : x < h.length)
    (hf : formatH e fuel x v h = .ok (h', r)) :
    ResShape h.length h' r :=
  (formatH_spec e h.length fuel x v h h' r (Nat.le_refl _) (closedB_sound hc).below hx hf).2

/-- **Exactly which old objects are reachable from a format result**: those below the children of an old scope of
    which the result holds a template copy — nothing else of the master. -/
theorem formatH_old_only_through_templates (e : Envs) (fuel x : Nat) (v : PVal) (h h' : Heap) (r z : Nat)
    (hc : closedB h = true) (hx : x < h.length)
    (hf : formatH e fuel x v h = .ok (h', r))
    (hreach : KReach h' r z) (hz : z < h.length) :
    ∃ c y k, KReach h' r c ∧ TemplateCopyOf h.length h' c y ∧
      (∃ n, h[y]? = some n ∧ k ∈ n.kids) ∧ KReach h' k z := by
  obtain ⟨c, y, k, h1, h2, ⟨n, hn, hk⟩, h4⟩ :=
    resShape_old_only_through_templates hreach (formatH_sharing e fuel x v h h' r hc hx hf) hz
  have hfr := (formatH_frame e fuel x v h h' r hc hx hf).2
  exact ⟨c, y, k, h1, h2, ⟨n, by rw [← hfr y h2.2.1]; exact hn, hk⟩, h4⟩

/-- a format result without template copies shares NO object with the master -/
theorem formatH_disjoint_without_templates (e : Envs) (fuel x : Nat) (v : PVal) (h h' : Heap) (r z : Nat)
    (hc : closedB h = true) (hx : x < h.length)
    (hf : formatH e fuel x v h = .ok (h', r))
    (hnt : ∀ c y, ¬ TemplateCopyOf h.length h' c y)
    (hreach : KReach h' r z) : h.length ≤ z := by
  rcases Nat.lt_or_ge z h.length with hz | hz
  · obtain ⟨c, y, _, _, h2, _⟩ := formatH_old_only_through_templates e fuel x v h h' r z hc hx hf hreach hz
    exact absurd h2 (hnt c y)
  · exact hz

/-! ### (3) assignments to the result -/

/-- **Assigning fields of a format result never changes the master.**  After ANY history of slot assignments whose
    targets are NEW objects every old cell is what it was and every old object denotes the tree it denoted. -/
theorem formatH_assign_frame (e : Envs) (fuel x : Nat) (v : PVal) (h h' : Heap) (r : Nat)
    (hc : closedB h = true) (hx : x < h.length)
    (hf : formatH e fuel x v h = .ok (h', r))
    (ops : List (Nat × Assign)) (hops : ∀ op ∈ ops, h.length ≤ op.1) :
    (∀ i, i < h.length → (assignMany h' ops)[i]? = h[i]?) ∧
    (∀ y o, y < h.length → Abs h y o → Abs (assignMany h' ops) y o) := by
  have hfr := (formatH_frame e fuel x v h h' r hc hx hf).2
  have hag : ∀ i, i < h.length → (assignMany h' ops)[i]? = h[i]? := fun i hi => by
    rw [assignMany_get_below h.length ops h' hops i hi]; exact hfr i hi
  refine ⟨hag, ?_⟩
  intro y o hy ⟨f, hf'⟩
  exact ⟨f, by rw [absF_agree _ h h.length hag (closedB_sound hc).below f y hy]; exact hf'⟩

/-! ### parsed masters -/

theorem formatRootH_start (e : Envs) (master : List Obj) (v : PVal) :
    closedB (formatRootH e master v).1 = true ∧ 0 < (formatRootH e master v).1.length := by
  refine ⟨(ofObjs_treeHeap master).closedB, ?_⟩
  show 0 < (ofObjs master).length
  rw [ofObjs_eq, cells_length]
  exact size_pos _

/-- **`master.format(python_object)` of a parsed master**: frame, shape of the result, assignment frame — no
    hypothesis beyond "the call returned". -/
theorem formatRootH_pure (e : Envs) (master : List Obj) (v : PVal) (h' : Heap) (r : Nat)
    (hf : (formatRootH e master v).2 = .ok (h', r)) :
    let h0 := (formatRootH e master v).1
    (∃ ext, h' = h0 ++ ext) ∧
    ResShape h0.length h' r ∧
    (∀ ops : List (Nat × Assign), (∀ op ∈ ops, h0.length ≤ op.1) →
      ∀ y o, y < h0.length → Abs h0 y o → Abs (assignMany h' ops) y o) := by
  intro h0
  obtain ⟨hc, hpos⟩ := formatRootH_start e master v
  have hf' : formatH e _ 0 v h0 = .ok (h', r) := hf
  refine ⟨(formatH_frame e _ 0 v h0 h' r hc hpos hf').1, formatH_sharing e _ 0 v h0 h' r hc hpos hf', ?_⟩
  intro ops hops y o hy ha
  exact (formatH_assign_frame e _ 0 v h0 h' r hc hpos hf' ops hops).2 y o hy ha

/-! ### `scope.clone` -/

/-- `self.clone(python_object)` on the heap: `self.format(python_object)`; the result is printed and the STRING is
    parsed — `reparse` stands for printer ∘ parser on what the result denotes (ANY function: the statement does not
    depend on it) —, which allocates a new document (`build`); `.extract()` of it makes python objects only
    (Phil/HeapExtract.lean, C18DetachPure: nothing of the PHIL heap is written).  Answers the final heap and the root
    of the new document. -/
def cloneH (e : Envs) (reparse : Obj → R (List Obj)) (fuel x : Nat) (v : PVal) (h : Heap) : R (Heap × Nat) :=
  match formatH e fuel x v h with
  | .error err => .error err
  | .ok (h1, r) =>
    match abs h1 r with
    | none => .error .outOfFuel
    | some o =>
      match reparse o with
      | .error err => .error err
      | .ok os => .ok (build (.scope { name := [] } os) none h1)

/-- **`clone` writes no existing cell**, and the document it extracts from is disjoint from everything old: a
    contiguous block of new cells closed under `objects` and `primary_parent_scope`. -/
theorem cloneH_frame (e : Envs) (reparse : Obj → R (List Obj)) (fuel x : Nat) (v : PVal) (h h' : Heap) (d : Nat)
    (hc : closedB h = true) (hx : x < h.length)
    (hf : cloneH e reparse fuel x v h = .ok (h', d)) :
    (∃ ext, h' = h ++ ext) ∧ (∀ i, i < h.length → h'[i]? = h[i]?) ∧ h.length ≤ d := by
  unfold cloneH at hf
  split at hf
  · cases hf
  · rename_i h1 r hfm
    split at hf
    · cases hf
    · split at hf
      · cases hf
      · rename_i os _
        simp only [Except.ok.injEq] at hf
        obtain ⟨⟨ext, rfl⟩, _⟩ := formatH_frame e fuel x v h h1 r hc hx hfm
        have : h' = (h ++ ext) ++ cells (.scope { name := [] } os) none (h ++ ext).length ∧ d = (h ++ ext).length := by
          exact ⟨(congrArg Prod.fst hf).symm, (congrArg Prod.snd hf).symm⟩
        obtain ⟨rfl, rfl⟩ := this
        refine ⟨⟨ext ++ cells (.scope { name := [] } os) none (h ++ ext).length, by rw [List.append_assoc]⟩, ?_, ?_⟩
        · intro i hi
          rw [List.append_assoc, List.getElem?_append_left hi]
        · rw [List.length_append]; omega

/-! ### `definition.resolve_variables` -/

/-- **`resolve_variables` returns a NEW definition; the referenced definitions are only marked `tmp`.**  No existing
    cell is written; the result is one new definition cell: the cell of `x` with the new words and
    `is_template = 0`; the marks are exactly `refs`, all of them definition cells. -/
theorem resolveVarsH_frame (x : Nat) (newWords : List Word) (refs : List Nat) (s s' : HS) (r : Nat)
    (hf : resolveVarsH x newWords refs s = .ok (s', r)) :
    (∃ m ws p, s.heap[x]? = some (.defn m ws p) ∧
      s'.heap = s.heap ++ [.defn { m with tmpl := 0 } newWords p] ∧ r = s.heap.length) ∧
    (∀ i, i < s.heap.length → s'.heap[i]? = s.heap[i]?) ∧
    s'.tmp = s.tmp ++ refs ∧ (∀ i ∈ refs, ∃ m ws p, s'.heap[i]? = some (.defn m ws p)) := by
  unfold resolveVarsH at hf
  split at hf
  · rename_i m ws p hcell
    split at hf
    · rename_i hall
      split at hf
      · cases hf
      · rename_i h1 c hcc
        obtain ⟨n, hn, rfl, rfl⟩ := customizedCopy_eq hcc
        simp only [Except.ok.injEq, Prod.mk.injEq] at hf
        obtain ⟨rfl, rfl⟩ := hf
        rw [hcell] at hn
        cases hn
        refine ⟨⟨m, ws, p, hcell, rfl, rfl⟩, ?_, rfl, ?_⟩
        · intro i hi
          exact List.getElem?_append_left hi
        · intro i hi
          have := List.all_eq_true.mp hall i hi
          unfold isDefnAt at this
          split at this
          · rename_i nd hnd
            cases nd with
            | defn m' ws' p' => exact ⟨m', ws', p', getElem?_append_some _ hnd⟩
            | scope m' ks' p' => simp [Node.isScope] at this
          · cases this
    · cases hf
  · cases hf

/-! ### witnesses (kernel-checked): the hypotheses are satisfiable, the D21 edge is sharp -/

/-- master `s .multiple=True { a = 1 } ; b = 2 ; t { c = 3 }` -/
def fMaster : String := "s\n  .multiple = True\n{\n  a = 1\n}\nb = 2\nt {\n  c = 3\n}\n"
def fSource : String := "s {\n  a = 5\n}\nb = 7\n"

/-- `master.format(master.fetch(source).extract())` on the heap of a fresh parse of the master -/
def fRun : Option (Heap × Heap × Nat) :=
  match parseObjs fMaster.toList, parseObjs fSource.toList with
  | .ok m, .ok s =>
    (match fetchRoot envNone false m [s] with
     | .ok (ro, _) =>
       (match extractObj envNone 1000 ro with
        | .ok v =>
          (match formatRootH envNone m v with
           | (h0, .ok (h', r)) => some (h0, h', r)
           | _ => none)
        | _ => none)
     | _ => none)
  | _, _ => none

/-- the run returns: `formatRootH_pure` applies -/
example : fRun.isSome = true := by
  decide +kernel

/-- the hypotheses of the theorems hold on this run -/
example : fRun.map (fun x => (closedB x.1, decide (0 < x.1.length))) = some (true, true) := by
  decide +kernel

/-- 6 old cells (root 0, s 1, a 2, b 3, t 4, c 5); the result (12) has four children: the template copy of `s`
    (6, `is_template = -1`) whose child list is `[2]` — the MASTER's own `a` —, the instance (8, child 7: new),
    `b` (9) and `t` (11, child 10: new).  The master's `s` keeps `is_template = 0`. -/
theorem format_template_children_are_reached :
    fRun.map (fun x => (x.2.1[x.2.2]?.map Node.kids, x.2.1[6]?.map Node.kids, x.1[1]?.map Node.kids)) =
    some (some [6, 8, 9, 11], some [2], some [2]) := by
  decide +kernel

theorem format_witness_run :
    fRun.map (fun x => (x.1.length, x.2.1.length, x.2.2)) = some (6, 13, 12) := by
  decide +kernel

theorem format_witness_template_flag :
    fRun.map (fun x => (x.2.1[6]?.map (fun n => n.meta.tmpl), x.2.1[1]?.map (fun n => n.meta.tmpl),
      x.2.1[8]?.map Node.kids)) = some (some (-1 : Int), some (0 : Int), some [7]) := by
  decide +kernel

/-- **D21 for `format`, the stated exception of `formatH_assign_frame` is sharp**: cell 2 is reachable from the
    result (through the template copy 6) and is OLD; assigning a field of it changes what the master's `s` (cell 1)
    denotes — whereas the same assignment to the new instance's child (7) does not. -/
theorem format_assignment_below_template_leaks :
    fRun.map (fun x =>
      (decide (C17Heap.childSlots (assign x.2.1 2 C17Heap.setCaption) 1 ≠ C17Heap.childSlots x.1 1),
       decide (C17Heap.childSlots (assign x.2.1 7 C17Heap.setCaption) 1 = C17Heap.childSlots x.1 1))) =
    some (true, true) := by
  decide +kernel

/-- `closedB` costs nothing: on a heap with a dangling child the heap-level format does not return -/
theorem formatH_dangling_fails :
    (match formatH envNone 3 0 .none [.scope { name := [] } [5] none] with
     | .ok _ => false
     | .error _ => true) = true := by
  decide +kernel

/-- `resolveVarsH_frame` is not vacuous: `b = $a` resolved against `a = 1` (cell 1): one new cell, cell 1 marked -/
example : (match resolveVarsH 2 [{ value := "1".toList }] [1]
      { heap := [.scope { name := [] } [1, 2] none, .defn { name := "a".toList } [{ value := "1".toList }] (some 0),
                 .defn { name := "b".toList } [{ value := "$a".toList }] (some 0)], tmp := [] } with
    | .ok (s', r) => (s'.heap.length, s'.tmp, r) == (4, [1], 3)
    | .error _ => false) = true := by
  decide +kernel

end Phil.C17FormatHeap

#print axioms Phil.C17FormatHeap.formatH_frame
#print axioms Phil.C17FormatHeap.formatH_sharing
#print axioms Phil.C17FormatHeap.formatH_old_only_through_templates
#print axioms Phil.C17FormatHeap.formatH_disjoint_without_templates
#print axioms Phil.C17FormatHeap.formatH_assign_frame
#print axioms Phil.C17FormatHeap.formatRootH_start
#print axioms Phil.C17FormatHeap.formatRootH_pure
#print axioms Phil.C17FormatHeap.cloneH_frame
#print axioms Phil.C17FormatHeap.resolveVarsH_frame
#print axioms Phil.C17FormatHeap.format_template_children_are_reached
#print axioms Phil.C17FormatHeap.format_witness_template_flag
#print axioms Phil.C17FormatHeap.format_witness_run
#print axioms Phil.C17FormatHeap.format_assignment_below_template_leaks
#print axioms Phil.C17FormatHeap.formatH_dangling_fails
