/-
  C02 (closed form, ONE layout grammar for whole documents): nesting + continuations + switched-off
  regions + attributes in one grammar given as data.

  Property theorems only; lemmas are in Phil/Proofs/LayoutAll.lean.

  ## The grammar (definitions in Phil/Proofs/LayoutAll.lean)

  * `DocItem` — an item of a document (nested inductive: a scope holds the list of its items):
      - `.defn path d L bang attrs`: the definition `[!]p1.….pk.name sp1 = g1 w1 g2 w2 … term` under the
        Layout3 layout `L : DefLayout3` (filler `Pre3` in front — filler lines and `#phil __OFF__` …
        `#phil __ON__` regions —, gaps `Gap` with backslash / quoted continuation lines, terminator
        newline / `;` / trailing comment / nothing), followed by its attribute items
        `AttrIt3 = pre [!].n sp1 = g1 w1 … term` (same layout vocabulary, regions allowed in front);
      - `.scope path nm bang pre hattrs gap kids close`: `[!]p1.….pk.nm`, header attribute items
        (`AttrIt` of Phil/Proofs/LayoutAttrs.lean: plain filler and gaps — the parser's header loop knows
        no `#phil`), the gap in front of `{`, the items of the body, the filler (`Pre3`) in front of `}`.
  * `renderAll xs post e` — the text: items, trailing filler, `DocEnd` (end of text or `#phil __END__`
    and an arbitrary tail).
  * `wfDocAll xs post e` — the decidable input class.  Beyond the per-piece conditions of the old
    grammars: the terminator "nothing" needs `}` or the end of the text behind blanks (so it is the last
    entry of the last item of its block, no filler lines, no cut); after `;` and after `}` a `#phil`
    directive must not stand on the same line (`Pre3.lineFree`).
  * `objsAll xs l i` — what `parse` returns (closed form by structural recursion);
    `docTree xs` — the abstract tree: a function of names, paths, `!`, words without lines and
    attribute values only.

  Validation before proving: 1000 random well-formed documents (depth ≤ 2; 249/700 with scopes, 181 with
  attributes, 347 cut, 409 with regions, 189 with backslash continuations, 273 dotted, 166 with `!`):
  `objsAll` = Lean model `parseObjs` = real Python `parse` (names, flags, lines of scopes /
  definitions / words, `help` / `expert_level` / `optional`) on all of them.
-/
import Phil.Proofs.LayoutAll
import Phil.Props.C02Nested
set_option linter.unusedSimpArgs false
namespace Phil.C02
open Phil

attribute [local instance] Phil.C01.objDecEqInst Phil.C01.exceptDecEqRT

/-! ### layout independence -/

/-- the parse result in one equation -/
theorem parse_closed_form_all (xs : List DocItem) (post : Pre3) (e : DocEnd) (h : wfDocAll xs post e = true) :
    parseObjs (renderAll xs post e) = .ok (objsAll xs 1 1) :=
  parseObjs_renderAll xs post e h

/-- **C02, whole documents.**  For every well-formed layout of the one grammar `parse` succeeds with
    `objsAll xs 1 1`, and erasing ids and source lines from it gives `docTree xs` — which does not see
    the layout at all (filler, comments, switched-off regions, blanks, continuation lines, brace
    placement, terminators, a cut tail). -/
theorem layout_independent_all (xs : List DocItem) (post : Pre3) (e : DocEnd) (h : wfDocAll xs post e = true) :
    parseObjs (renderAll xs post e) = .ok (objsAll xs 1 1) ∧ eraseList (objsAll xs 1 1) = docTree xs :=
  ⟨parseObjs_renderAll xs post e h, objsAll_erase_all xs post e.isCut 1 1 (wfDocAll_facts h).1⟩

/-- **Two layouts, one tree.** -/
theorem two_layouts_same_tree_all (xs1 xs2 : List DocItem) (post1 post2 : Pre3) (e1 e2 : DocEnd)
    (hsame : docTree xs1 = docTree xs2)
    (h1 : wfDocAll xs1 post1 e1 = true) (h2 : wfDocAll xs2 post2 e2 = true) :
    ∃ o1 o2, parseObjs (renderAll xs1 post1 e1) = .ok o1 ∧ parseObjs (renderAll xs2 post2 e2) = .ok o2 ∧
      eraseList o1 = eraseList o2 := by
  obtain ⟨p1, t1⟩ := layout_independent_all xs1 post1 e1 h1
  obtain ⟨p2, t2⟩ := layout_independent_all xs2 post2 e2 h2
  exact ⟨_, _, p1, p2, by rw [t1, t2, hsame]⟩

/-- **A cut tail is ignored**: whatever follows `#phil __END__` — unbalanced braces and quotes
    included — does not change the result. -/
theorem cut_tail_ignored_all (xs : List DocItem) (post : Pre3) (b1 tail1 tail2 : Str)
    (h1 : wfDocAll xs post (.cut b1 tail1) = true) (h2 : wfDocAll xs post (.cut b1 tail2) = true) :
    parseObjs (renderAll xs post (.cut b1 tail1)) = parseObjs (renderAll xs post (.cut b1 tail2)) := by
  rw [parseObjs_renderAll _ _ _ h1, parseObjs_renderAll _ _ _ h2]

/-- … and the cut document parses to what the text up to the cut parses to -/
theorem cut_same_as_end_of_text_all (xs : List DocItem) (post : Pre3) (b1 tail : Str)
    (h1 : wfDocAll xs post (.cut b1 tail) = true) (h2 : wfDocAll xs post .eof = true) :
    parseObjs (renderAll xs post (.cut b1 tail)) = parseObjs (renderAll xs post .eof) := by
  rw [parseObjs_renderAll _ _ _ h1, parseObjs_renderAll _ _ _ h2]

/-! ### `!` disables exactly one construct -/

/-- **`!` on definitions and scopes.**  The document with its `!` marks and the document without them
    (`docUnbang`; same input class) parse to trees that differ in the `disabled` flags only, and the
    flags are exactly the marks: one flag per definition (with all its attribute items) and one per
    scope (with header attributes and body — the flags of the objects inside are their own); the
    scopes built for leading components of a dotted name are never disabled. -/
theorem bang_disables_exactly_one_all (xs : List DocItem) (post : Pre3) (e : DocEnd)
    (h : wfDocAll xs post e = true) :
    ∃ objs objs0, parseObjs (renderAll xs post e) = .ok objs ∧
      parseObjs (renderAll (docUnbang xs) post e) = .ok objs0 ∧
      enableAllList (eraseList objs) = eraseList objs0 ∧
      disabledFlagsList (eraseList objs) = docFlags xs := by
  have h0 : wfDocAll (docUnbang xs) post e = true := by rw [wfDocAll_unbang_all]; exact h
  obtain ⟨p1, t1⟩ := layout_independent_all xs post e h
  obtain ⟨p0, t0⟩ := layout_independent_all (docUnbang xs) post e h0
  obtain ⟨u1, u2⟩ := docTree_unbang_all xs
  exact ⟨_, _, p1, p0, by rw [t1, t0, u1], by rw [t1, u2]⟩

/-- **`!` on an attribute item of a definition** removes that one assignment and nothing else: the
    abstract tree is the tree of the document without the item -/
theorem bang_on_attribute_all (p : List Str) (d : DefSpec) (L L' : DefLayout3) (b : Bool)
    (ts1 ts2 : List AttrIt3) (t : AttrIt3) (ht : t.b = true) :
    (DocItem.defn p d L b (ts1 ++ t :: ts2)).tree = (DocItem.defn p d L' b (ts1 ++ ts2)).tree := by
  simp only [DocItem.tree, attrsOf3_drop_bang_all ts1 ts2 t ht]

/-- **`!` on a header attribute item of a scope**, likewise -/
theorem bang_on_header_attribute_all (p : List Str) (nm : Str) (b : Bool) (pre pre' close close' : Pre3)
    (gap gap' : Pre) (kids : List DocItem) (ts1 ts2 : List AttrIt) (t : AttrIt) (ht : t.b = true) :
    (DocItem.scope p nm b pre (ts1 ++ t :: ts2) gap kids close).tree
      = (DocItem.scope p nm b pre' (ts1 ++ ts2) gap' kids close').tree := by
  simp only [DocItem.tree, sattrsOf_drop_bang_all ts1 ts2 t ht]

/-- an attribute item without `!` appends exactly its value (the last assignment of a name wins:
    `Attrs.get` reads from the end, `attrs_get_append_one_la`) -/
theorem attribute_appends_all (ts : List AttrIt3) (t : AttrIt3) (ht : t.b = false) :
    attrsOf3 (ts ++ [t]) = attrsOf3 ts ++ [(t.n, (attrValOf t.n t.ws).getD .none)] := by
  induction ts with
  | nil => simp [attrsOf3, ht]
  | cons u us ih => simp only [List.cons_append, attrsOf3, ih, List.append_assoc]

/-! ### dotted names ≡ nested braces -/

/-- a dotted definition `p1.….pk.name = words` (with its attribute items) and a dotted header
    `p1.….pk.nm … {` are, up to the `merge_names` flags, the definition / the scope inside the proper
    scopes `p1`, …, `pk` -/
theorem dotted_item_is_braces_all (p : List Str) :
    (∀ (d : DefSpec) (L : DefLayout3) (b : Bool) (attrs : List AttrIt3),
      (DocItem.defn p d L b attrs).tree.eraseMerge
        = bracesIn_l2 p (.defn { name := d.1, disabled := b, attrs := attrsOf3 attrs } (d.2.map Word.erase))) ∧
    (∀ (nm : Str) (b : Bool) (pre : Pre3) (hattrs : List AttrIt) (gap : Pre) (kids : List DocItem)
        (close : Pre3),
      (DocItem.scope p nm b pre hattrs gap kids close).tree.eraseMerge
        = bracesIn_l2 p (.scope { name := nm, disabled := b, attrs := sattrsOf hattrs }
            (eraseMergeList (docTree kids)))) := by
  constructor
  · intro d L b attrs
    rw [DocItem.tree, eraseMerge_nestIn_l2, Obj.eraseMerge, erase_erase_words_la]
    rfl
  · intro nm b pre hattrs gap kids close
    rw [DocItem.tree, eraseMerge_nestIn_l2]
    simp [Obj.eraseMerge, Meta.erase]

/-- the dotted item `n.rest` and the braces spelling `n { rest }` have the same abstract tree up to
    `merge_names` (any layouts on both sides) -/
theorem dotted_equals_nested_item_all (n : Str) (p : List Str) (d : DefSpec) (L L' : DefLayout3) (b : Bool)
    (attrs : List AttrIt3) (pre close : Pre3) (gap : Pre) :
    (DocItem.defn (n :: p) d L b attrs).tree.eraseMerge
      = (DocItem.scope [] n false pre [] gap [DocItem.defn p d L' b attrs] close).tree.eraseMerge := by
  rw [(dotted_item_is_braces_all (n :: p)).1, (dotted_item_is_braces_all []).2]
  simp only [bracesIn_l2, docTree, eraseMergeList, (dotted_item_is_braces_all p).1, sattrsOf]

/-- **Dotted ≡ nested, any layout.**  Two well-formed documents whose abstract trees agree up to the
    `merge_names` flags parse to trees equal up to ids, source lines and `merge_names`. -/
theorem dotted_equals_nested_all (xs1 xs2 : List DocItem) (post1 post2 : Pre3) (e1 e2 : DocEnd)
    (hsame : eraseMergeList (docTree xs1) = eraseMergeList (docTree xs2))
    (h1 : wfDocAll xs1 post1 e1 = true) (h2 : wfDocAll xs2 post2 e2 = true) :
    ∃ o1 o2, parseObjs (renderAll xs1 post1 e1) = .ok o1 ∧ parseObjs (renderAll xs2 post2 e2) = .ok o2 ∧
      eraseMergeList o1 = eraseMergeList o2 := by
  obtain ⟨p1, t1⟩ := layout_independent_all xs1 post1 e1 h1
  obtain ⟨p2, t2⟩ := layout_independent_all xs2 post2 e2 h2
  refine ⟨_, _, p1, p2, ?_⟩
  rw [← eraseMergeList_eraseList_l2 (objsAll xs1 1 1), ← eraseMergeList_eraseList_l2 (objsAll xs2 1 1), t1, t2,
    hsame]

/-! ### `#phil __END__` inside a scope body: unclosed braces at the cut -/

/-- **A cut inside a scope body is refused.**  `CutDoc` describes a document that reaches
    `#phil __END__` while scopes are still open (`.deeper items header inner`, innermost piece
    `.here items filler cut`): `parse` fails with "no matching `}`", and the line it cites is the line
    of the innermost `{` that is open at the cut — `1 +` the newlines of `openText`, the text up to and
    including that brace (a prefix of the document: `Phil.openText_prefix_all`).  So the "cut tail is
    ignored" clause holds at the outermost level only (`cut_tail_ignored_all`). -/
theorem cut_inside_scope_fails_all (c : CutDoc) (h : c.wf = true) (hd : c.isHere = false) :
    parseObjs c.text = .error (.runtime "no_matching_brace" (some (1 + nlCount (c.openText [] [])))) := by
  rw [parseObjs_cut_in_scope_all c h hd]
  cases c with
  | here xs tp b1 tail => cases hd
  | deeper xs p nm b pre hattrs gap inner =>
    have e : (CutDoc.deeper xs p nm b pre hattrs gap inner).errLine 1 none
        = some (1 + nlCount ((CutDoc.deeper xs p nm b pre hattrs gap inner).openText [] [])) :=
      errLine_eq_all (.deeper xs p nm b pre hattrs gap inner) [] [] h
    rw [e]

/-- the example: `a = 1`, then `s {` never closed, holding `b = 2`, then `t.u` + header attribute +
    `{` never closed, holding `c = 3` and the cut -/
def exCutAll : CutDoc :=
  let L1 : DefLayout3 := { sp1 := " ".toList, gaps := [{ ws := " ".toList }] }
  .deeper [.defn [] ("a".toList, [{ value := "1".toList }]) L1 false []] [] "s".toList false {} [] { ind := " ".toList }
    (.deeper [.defn [] ("b".toList, [{ value := "2".toList }]) { L1 with pre := { lines := [{ ind := [], cmt := none }], ind := " ".toList } } false []]
      ["t".toList] "u".toList false { ind := " ".toList }
      [{ n := "help", ws := [{ value := "h".toList }],
         L := { pre := { lines := [{ ind := [], cmt := none }], ind := " ".toList }, sp1 := " ".toList,
                gaps := [" ".toList], term := .nl [] } }]
      {}
      (.here [.defn [] ("c".toList, [{ value := "3".toList }]) { L1 with pre := { ind := " ".toList } } false []] {} " ".toList "\n}}".toList))

example : exCutAll.text = "a = 1\ns {\n b = 2\n t.u\n .help = h\n{ c = 3\n#phil __END__\n}}".toList := by
  decide +kernel

theorem exCutAll_wf : exCutAll.wf = true := by decide +kernel

/-- through the theorem: the brace of `t.u` on line 6 is cited -/
example : parseObjs exCutAll.text = .error (.runtime "no_matching_brace" (some 6)) := by
  rw [cut_inside_scope_fails_all exCutAll exCutAll_wf rfl]
  decide +kernel

/-- directly evaluated (Python: `no matching "}" for "{" at input line 1` / `line 2`) -/
theorem cut_in_scope_evaluated :
    parseObjs "a {\n b = 1\n#phil __END__\n}\n".toList = .error (.runtime "no_matching_brace" (some 1)) ∧
    parseObjs "a {\n b {\n#phil __END__\n}\n}\n".toList = .error (.runtime "no_matching_brace" (some 2)) := by
  decide +kernel

/-! ### non-vacuity: one document with everything, and a plain layout of the same tree -/

def exRegionAll : OffRegion := { body := ["junk {".toList] }

/-- a comment line and a switched-off region in front of the disabled dotted scope `!a.b`, a header
    attribute on its own line, `{` on the next line; inside: a definition with a backslash continuation
    line, an attribute item and a commented-out attribute item; a nested scope on one line whose last
    definition has a quoted continuation line and ends with nothing in front of `}`; a switched-off
    region in front of the closing brace; then `d.e = 5; f = 6` on one line and a cut -/
def exDocAll : List DocItem :=
  [ .scope ["a".toList] "b".toList true
      { segs := [([{ ind := [], cmt := some " top".toList }], exRegionAll)] }
      [{ n := "help", ws := [{ value := "h".toList, quote := some .d1 }],
         L := { pre := { lines := [{ ind := [], cmt := none }], ind := "  ".toList }, sp1 := " ".toList,
                gaps := [" ".toList], term := .nl [] } }]
      { ind := "  ".toList }
      [ .defn [] ("x".toList, [{ value := "1".toList }, { value := "2".toList }])
          { pre := { lines := [{ ind := [], cmt := none }], ind := "  ".toList }, sp1 := " ".toList,
            gaps := [{ ws := " ".toList }, { bs := some " ".toList, ws := "\n    ".toList }], term := .nl [] } false
          [ { n := "expert_level", ws := [{ value := "2".toList }],
              L := { pre := { ind := "  ".toList }, sp1 := " ".toList, gaps := [{ ws := " ".toList }], term := .nl [] } },
            { n := "help", ws := [{ value := "no".toList }],
              L := { pre := { ind := "  ".toList }, sp1 := " ".toList, gaps := [{ ws := " ".toList }], term := .nl [] },
              b := true } ],
        .scope [] "c".toList false { ind := "  ".toList } [] { ind := " ".toList }
          [ .defn [] ("y".toList, [{ value := "q".toList, quote := some .d1 }, { value := "r".toList, quote := some .d1 }])
              { pre := { ind := " ".toList }, sp1 := " ".toList,
                gaps := [{ ws := " ".toList }, { ws := "\n    ".toList }], term := .eof } false [] ]
          { ind := " ".toList } ]
      { segs := [([{ ind := [], cmt := none }], { ind := "  ".toList, body := ["  z = 3".toList] })] },
    .defn ["d".toList] ("e".toList, [{ value := "5".toList }])
      { pre := { lines := [{ ind := [], cmt := none }] }, sp1 := " ".toList, gaps := [{ ws := " ".toList }],
        term := .semi [] } false [],
    .defn [] ("f".toList, [{ value := "6".toList }])
      { pre := { ind := " ".toList }, sp1 := " ".toList, gaps := [{ ws := " ".toList }], term := .nl [] } false [] ]

def exEndAll : DocEnd := .cut " ".toList "\ngarbage {{{".toList

example : renderAll exDocAll {} exEndAll =
    ("# top\n#phil __OFF__\njunk {\n#phil __ON__\n!a.b\n  .help = \"h\"\n  {\n  x = 1 \\\n    2\n" ++
     "  .expert_level = 2\n  !.help = no\n  c { y = \"q\"\n    \"r\" }\n  #phil __OFF__\n  z = 3\n#phil __ON__\n}\n" ++
     "d.e = 5; f = 6\n#phil __END__\ngarbage {{{").toList := by decide +kernel

theorem exDocAll_wf : wfDocAll exDocAll {} exEndAll = true := by decide +kernel

/-- the same abstract tree, everything on lines of its own, no filler, no continuation, no cut -/
def exPlainAll : List DocItem :=
  let L1 : DefLayout3 := { sp1 := " ".toList, gaps := [{ ws := " ".toList }] }
  let L2 : DefLayout3 := { sp1 := " ".toList, gaps := [{ ws := " ".toList }, { ws := " ".toList }] }
  [ .scope ["a".toList] "b".toList true {}
      [{ n := "help", ws := [{ value := "h".toList, quote := some .d1 }],
         L := { pre := { ind := " ".toList }, sp1 := " ".toList, gaps := [" ".toList], term := .nl [] } }]
      {}
      [ .defn [] ("x".toList, [{ value := "1".toList }, { value := "2".toList }]) { L2 with pre := { lines := [{ ind := [], cmt := none }] } } false
          [ { n := "expert_level", ws := [{ value := "2".toList }], L := L1 } ],
        .scope [] "c".toList false {} [] { ind := " ".toList }
          [ .defn [] ("y".toList, [{ value := "q".toList, quote := some .d1 }, { value := "r".toList, quote := some .d1 }])
              { L2 with pre := { lines := [{ ind := [], cmt := none }] } } false [] ]
          {} ]
      {},
    .defn ["d".toList] ("e".toList, [{ value := "5".toList }]) { L1 with pre := { lines := [{ ind := [], cmt := none }] } } false [],
    .defn [] ("f".toList, [{ value := "6".toList }]) L1 false [] ]

example : renderAll exPlainAll {} .eof =
    "!a.b .help = \"h\"\n{\nx = 1 2\n.expert_level = 2\nc {\ny = \"q\" \"r\"\n}}\nd.e = 5\nf = 6\n".toList := by
  decide +kernel

theorem exPlainAll_wf : wfDocAll exPlainAll {} .eof = true := by decide +kernel

/-- both layouts through the theorem: same tree (the commented-out `!.help = no` of the first layout is
    simply absent from the second) -/
example : ∃ o1 o2, parseObjs (renderAll exDocAll {} exEndAll) = .ok o1 ∧
    parseObjs (renderAll exPlainAll {} .eof) = .ok o2 ∧ eraseList o1 = eraseList o2 :=
  two_layouts_same_tree_all exDocAll exPlainAll {} {} exEndAll .eof (by decide +kernel) exDocAll_wf exPlainAll_wf

/-- the flags of the example: the chain scope `a` never, `b` yes, nothing else -/
example : docFlags exDocAll = [false, true, false, false, false, false, false, false] := by decide +kernel

/-! ### sharp edges (kernel-checked on the model; each replayed on Python) -/

/-- `Pre3.lineFree` after `}`: a `#phil` directive on the line of the scope's *name* is not a directive
    (the parser compares with the line of the previous lead word) … -/
theorem directive_on_line_of_scope_name_fails :
    parseObjs "a { b = 1 } #phil __OFF__\nx = 1\n#phil __ON__\nc = 2".toList
      = .error (.runtime "improper_definition_name" (some 1)) := by decide +kernel

/-- … while behind a `}` on a later line it is one (the condition of the grammar — a filler line in
    between — is sufficient, not necessary) -/
theorem directive_after_brace_on_later_line :
    (parseObjs "a {\n b = 1 } #phil __OFF__\nx = 1\n#phil __ON__\nc = 2".toList).map eraseList
      = (parseObjs "a {\n b = 1 }\nc = 2".toList).map eraseList := by decide +kernel

/-- `;` then a directive on the same line: not a directive (`termOK3`) -/
theorem directive_after_semicolon_fails :
    parseObjs "a = 1; #phil __OFF__\nx = 1\n#phil __ON__\n.help = h\n".toList
      = .error (.runtime "improper_definition_name" (some 1)) := by decide +kernel

/-- a region between a definition and its attribute item is fine (inside the grammar) -/
theorem region_between_definition_and_attribute :
    (parseObjs "a = 1\n#phil __OFF__\nx = 1\n#phil __ON__\n.help = h\n".toList).map eraseList
      = (parseObjs "a = 1\n.help = h\n".toList).map eraseList := by decide +kernel

/-- a region directly behind `{` is fine: the body starts with "previous line 0" -/
theorem region_directly_behind_open_brace :
    (parseObjs "a { #phil __OFF__\nx = 1\n#phil __ON__\n b = 1 }".toList).map eraseList
      = (parseObjs "a {\n b = 1 }".toList).map eraseList := by decide +kernel

/-- the terminator "nothing" in front of an attribute item does not end the value: `.help = x` become
    words of `b` (why `termOK3 .eof` asks for the last entry of the block) -/
theorem attribute_on_line_of_value_is_words :
    (parseObjs "a {\n b = 1 .help = x\n}".toList).map eraseList
      = .ok [.scope { name := ['a'] } [.defn { name := ['b'] }
          [{ value := ['1'] }, { value := ".help".toList }, { value := ['='] }, { value := ['x'] }]]] := by
  decide +kernel

/-- … while an attribute item may end with nothing in front of `}` -/
theorem attribute_ends_at_brace :
    (parseObjs "a {\n b = 1\n .help = x }".toList).map eraseList
      = .ok [.scope { name := ['a'] } [.defn { name := ['b'], attrs := [("help", .str ['x'])] }
          [{ value := ['1'] }]]] := by
  decide +kernel

/-- no `#phil` between a scope's name and its `{`: the header loop knows no directives (why header
    items carry plain filler `Pre`) -/
theorem region_in_scope_header_fails :
    parseObjs "a\n#phil __OFF__\n#phil __ON__\n{\n}".toList = .error (.runtime "expected" (some 2)) ∧
    parseObjs "a\n.help = x\n#phil __OFF__\n#phil __ON__\n{\n}".toList
      = .error (.runtime "unexpected_scope_attribute" (some 3)) := by decide +kernel

/-- an attribute item needs an active definition: the first item of a scope body cannot be one (the
    grammar attaches attribute items to definitions) -/
theorem attribute_first_in_body_fails :
    parseObjs "a {\n!.help = x\n b = 1 }".toList
      = .error (.runtime "unexpected_definition_attribute" (some 2)) := by decide +kernel

/-- `goodAttr3`: a value the converter refuses makes the parse fail — unless the item is commented out
    by `!` (then the value is never converted) -/
theorem refused_attribute_value_fails :
    parseObjs "a = 1\n.optional = maybe\n".toList = .error (.runtime "bool_expected" (some 2)) ∧
    (parseObjs "a = 1\n!.optional = maybe\n".toList).map eraseList
      = (parseObjs "a = 1\n".toList).map eraseList := by decide +kernel

/-- the hypothesis `isHere = false` of `cut_inside_scope_fails_all` (some scope is open at the cut) is
    what makes the difference: the same cut at the outermost level succeeds -/
theorem cut_at_top_level_succeeds :
    (parseObjs "a {\n b = 1\n}\n#phil __END__\n}\n".toList).map eraseList
      = (parseObjs "a {\n b = 1\n}\n".toList).map eraseList := by decide +kernel

end Phil.C02

#print axioms Phil.C02.parse_closed_form_all
#print axioms Phil.C02.layout_independent_all
#print axioms Phil.C02.two_layouts_same_tree_all
#print axioms Phil.C02.cut_tail_ignored_all
#print axioms Phil.C02.cut_same_as_end_of_text_all
#print axioms Phil.C02.bang_disables_exactly_one_all
#print axioms Phil.C02.bang_on_attribute_all
#print axioms Phil.C02.bang_on_header_attribute_all
#print axioms Phil.C02.attribute_appends_all
#print axioms Phil.C02.dotted_item_is_braces_all
#print axioms Phil.C02.dotted_equals_nested_item_all
#print axioms Phil.C02.dotted_equals_nested_all
#print axioms Phil.C02.cut_inside_scope_fails_all
#print axioms Phil.C02.exCutAll_wf
#print axioms Phil.C02.cut_in_scope_evaluated
#print axioms Phil.C02.exDocAll_wf
#print axioms Phil.C02.exPlainAll_wf
#print axioms Phil.C02.directive_on_line_of_scope_name_fails
#print axioms Phil.C02.directive_after_brace_on_later_line
#print axioms Phil.C02.directive_after_semicolon_fails
#print axioms Phil.C02.region_between_definition_and_attribute
#print axioms Phil.C02.region_directly_behind_open_brace
#print axioms Phil.C02.attribute_on_line_of_value_is_words
#print axioms Phil.C02.attribute_ends_at_brace
#print axioms Phil.C02.region_in_scope_header_fails
#print axioms Phil.C02.attribute_first_in_body_fails
#print axioms Phil.C02.refused_attribute_value_fails
#print axioms Phil.C02.cut_at_top_level_succeeds
