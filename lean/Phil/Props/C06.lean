/-
  C06 — Every source definition is either consumed or reported as unused.
    "With tracking on, `fetch` reports exactly the source definitions it did not use; tracking does
     not change the result."

  Model: Phil/Fetch.lean.  The `.tmp` marks of the implementation are the list `used` returned by
  `fetchScope`/`fetchRoot` next to the result (ids of the source definitions that were fetched);
  the harness (Main.lean) reports `all_definitions(sources)` minus `used`.  Lemmas and auxiliary
  definitions (`ActiveIn`, `DefnIdActive`, `RefIdActive`, `MarkedBy`, `UsedIdActive`) are in
  Phil/Proofs/FetchLemmas.lean.

  Proved here (all masters, all sources, both modes, all fuel):
    * soundness of the marks: an id is marked only on account of an *enabled definition* `d` of
      the sources reached through enabled scopes only — it is the id of `d`, or one of the ids
      consulted while the variables of `d` were resolved (`srcRefs d`, the `refs` recorded in
      `d.meta.varRes` by `preResolve`; `resolveRefs` in Phil/Vars.lean).  So no scope and no
      disabled object is ever marked for being fetched, and without recorded resolutions nothing
      outside the fetched definitions is marked (`used_are_source_ids_plain`).  An id of the first
      kind is the id of an entry of `all_definitions(sources)` (or of a definition called
      `include`, which that list skips);
    * the reported list and the marks partition `all_definitions` by construction;
    * tracking is transparent.
  Not proved here: the exact characterisation of the unused list by master paths (`unused_exact`
  of the design) — checked by the harness.
-/
import Phil.Proofs.FetchLemmas
import Phil.Proofs.VarsLemmas
set_option linter.unusedVariables false
namespace Phil.C06
open Phil

/-- **Marks are sound (`scope.fetch`).**  Every consumed id is marked on account of an enabled
    definition `d` that occurs in the sources below enabled scopes only: it is the id of `d`, or
    was consulted while the variables of `d` were resolved. -/
theorem used_are_source_ids (e : Envs) (fuel : Nat) (diff : Bool) (sm : Meta) (mkids combined : List Obj)
    (ro : Obj) (used : List Nat) (h : fetchScope e fuel diff sm mkids combined = .ok (ro, used)) :
    ∀ i ∈ used, ∃ d, ActiveIn d combined ∧ d.isDefn = true ∧ (d.meta.id = some i ∨ i ∈ srcRefs d) :=
  Phil.used_are_source_ids e fuel diff sm mkids combined ro used h

/-- the same, split: the id of an active source definition, or an id consulted for one -/
theorem used_are_source_ids_or_refs (e : Envs) (fuel : Nat) (diff : Bool) (sm : Meta)
    (mkids combined : List Obj) (ro : Obj) (used : List Nat)
    (h : fetchScope e fuel diff sm mkids combined = .ok (ro, used)) :
    ∀ i ∈ used, DefnIdActive i combined ∨ RefIdActive i combined :=
  fun i hi => (usedIdActive_iff i combined).mp (Phil.used_are_source_ids e fuel diff sm mkids combined ro used h i hi)

/-- **Variable-free sources** (no recorded resolution on any active source definition): every
    consumed id is the id of an enabled source definition — the statement of the model without
    variable substitution. -/
theorem used_are_source_ids_plain (e : Envs) (fuel : Nat) (diff : Bool) (sm : Meta)
    (mkids combined : List Obj) (ro : Obj) (used : List Nat)
    (hno : ∀ d, ActiveIn d combined → d.isDefn = true → d.meta.varRes = none)
    (h : fetchScope e fuel diff sm mkids combined = .ok (ro, used)) :
    ∀ i ∈ used, ∃ d, ActiveIn d combined ∧ d.isDefn = true ∧ d.meta.id = some i :=
  fun i hi => usedIdActive_of_no_varRes hno (Phil.used_are_source_ids e fuel diff sm mkids combined ro used h i hi)

/-- **Marks are sound (`master.fetch(sources)`).** -/
theorem fetchRoot_used_are_source_ids (e : Envs) (diff : Bool) (master : List Obj)
    (ss : List (List Obj)) (ro : Obj) (used : List Nat)
    (h : fetchRoot e diff master ss = .ok (ro, used)) :
    ∀ i ∈ used, UsedIdActive i ss.flatten :=
  Phil.used_are_source_ids e _ diff _ master ss.flatten ro used h

/-- `ActiveIn` spelled out: membership at the top level, or below an enabled scope. -/
theorem activeIn_iff (x : Obj) (l : List Obj) :
    ActiveIn x l ↔ (x ∈ l ∧ x.meta.disabled = false) ∨
      ∃ m kids, Obj.scope m kids ∈ l ∧ m.disabled = false ∧ ActiveIn x kids := by
  constructor
  · intro h
    cases h with
    | here hm hd => exact .inl ⟨hm, hd⟩
    | deeper hm hd hk => exact .inr ⟨_, _, hm, hd, hk⟩
  · rintro (⟨hm, hd⟩ | ⟨m, kids, hm, hd, hk⟩)
    · exact .here hm hd
    · exact .deeper hm hd hk

/-- **Consumed ids occur in `all_definitions`.**  A consumed id is the id of an entry of
    `all_definitions(sources)` — unless it belongs to an enabled definition called `include`, which
    `all_definitions` skips, or was consulted while the variables of an enabled source definition
    were resolved (the model records those ids, `srcRefs`, without their documents). -/
theorem used_in_allDefinitions (e : Envs) (diff : Bool) (master : List Obj)
    (ss : List (List Obj)) (ro : Obj) (used : List Nat)
    (h : fetchRoot e diff master ss = .ok (ro, used)) :
    ∀ i ∈ used, (∃ d ∈ allDefinitions ss.flatten, d.2.1.id = some i) ∨
      (∃ m ws, ActiveIn (.defn m ws) ss.flatten ∧ m.name = "include".toList ∧ m.id = some i) ∨
      RefIdActive i ss.flatten :=
  fun i hi => usedIdActive_allDefinitions (fetchRoot_used_are_source_ids e diff master ss ro used h i hi)

/-- the list reported by `fetch(track_unused_definitions=True)`: the entries of `all_definitions`
    whose id was not marked (Main.lean computes exactly this) -/
def unusedOf (sources : List Obj) (used : List Nat) : List (Str × Meta × List Word) :=
  (allDefinitions sources).filter (fun d => match d.2.1.id with | some i => !used.contains i | none => true)

/-- **Consumed or reported.**  Every entry of `all_definitions(sources)` is reported as unused or
    has a consumed id — never both. -/
theorem consumed_or_unused (sources : List Obj) (used : List Nat) (d : Str × Meta × List Word)
    (hd : d ∈ allDefinitions sources) :
    (d ∈ unusedOf sources used ∧ ∀ i, d.2.1.id = some i → i ∉ used) ∨
    (d ∉ unusedOf sources used ∧ ∃ i, d.2.1.id = some i ∧ i ∈ used) := by
  unfold unusedOf
  cases hid : d.2.1.id with
  | none =>
    left
    refine ⟨List.mem_filter.mpr ⟨hd, by simp [hid]⟩, ?_⟩
    intro i hi; cases hi
  | some i =>
    by_cases hu : i ∈ used
    · right
      refine ⟨?_, i, rfl, hu⟩
      intro hmem
      have := (List.mem_filter.mp hmem).2
      simp [hid, hu] at this
    · left
      refine ⟨List.mem_filter.mpr ⟨hd, by simp [hid, hu]⟩, ?_⟩
      intro j hj; cases hj; exact hu

/-- **Tracking is transparent.**  The result object of `master.fetch(sources)` is computed by the
    same call that computes the marks; projecting the marks away leaves a function of the inputs. -/
theorem tracking_transparent (e : Envs) (diff : Bool) (master : List Obj) (ss : List (List Obj)) :
    (fetchRoot e diff master ss).map (·.1) =
      (fetchScope e ((master.foldl (fun a k => Nat.max a (depthObj 1000 k)) 0) + 3) diff
        { name := [], id := some 0 } master ss.flatten).map (·.1) :=
  Phil.tracking_transparent e diff master ss

/-! ### non-vacuity -/

/-- master `a = 1 .type=int ; s { b = x }`, source `a = 2 ; a = 1 ; z = 1 ; s { !b = y ; b = z }`:
    consumed are the two `a` and the enabled `s.b`; the unknown `z` is reported; the disabled `b`
    is not in `all_definitions` at all. -/
example :
    (match fetchRoot env12 false
        [.defn { name := ['a'], id := some 1, attrs := [("type", .conv (.int {}))] } [{ value := ['1'] }],
         .scope { name := ['s'], id := some 2 } [.defn { name := ['b'], id := some 3 } [{ value := ['x'] }]]]
        [[.defn { name := ['a'], id := some 11 } [{ value := ['2'] }],
          .defn { name := ['a'], id := some 12 } [{ value := ['1'] }],
          .defn { name := ['z'], id := some 13 } [{ value := ['1'] }],
          .scope { name := ['s'], id := some 14 }
            [.defn { name := ['b'], id := some 15, disabled := true } [{ value := ['y'] }],
             .defn { name := ['b'], id := some 16 } [{ value := ['z'] }]]]] with
     | .ok (_, used) => some (used, (unusedOf
         [.defn { name := ['a'], id := some 11 } [{ value := ['2'] }],
          .defn { name := ['a'], id := some 12 } [{ value := ['1'] }],
          .defn { name := ['z'], id := some 13 } [{ value := ['1'] }],
          .scope { name := ['s'], id := some 14 }
            [.defn { name := ['b'], id := some 15, disabled := true } [{ value := ['y'] }],
             .defn { name := ['b'], id := some 16 } [{ value := ['z'] }]]] used).map (·.1))
     | .error _ => none) = some ([11, 12, 16], [['z']]) := by
  decide +kernel

/-- variable substitution: source `x = 5 ; a = $x` (ids 10, 11) after `preResolve`; fetching `a`
    marks `a` itself and the consulted `x`; the value is the resolved word `5` -/
example :
    (match fetchRoot env12 false
        [.defn { name := ['a'], id := some 1 } [{ value := ['1'] }]]
        (([[.defn { name := ['x'], id := some 10 } [{ value := ['5'] }],
            .defn { name := ['a'], id := some 11 } [{ value := ['$', 'x'] }]]] : List (List Obj)).map
          (preResolve (fun _ => none) false)) with
     | .ok (ro, used) => some (used, ro.children.map (fun k => k.words.map Word.value))
     | .error _ => none) = some ([11, 10], [[['5']]]) := by
  decide +kernel

/-- … and an unresolved `$` without a recorded resolution is outside the model -/
example :
    errOf (fetchRoot env12 false
        [.defn { name := ['a'], id := some 1 } [{ value := ['1'] }]]
        [[.defn { name := ['a'], id := some 11 } [{ value := ['$', 'x'] }]]]) =
      some (.unsupported "variable in source") := by
  decide +kernel

/-! ## Optional addition: only EARLIER definitions are ever marked as consulted

  `resolveRefs` (Phil/Vars.lean) collects the ids that `resolve_variables` consults; every lookup it
  makes is a `lexicalGet … id …` with the id of the definition being resolved as `stopId`, and
  `Phil.C12.backwards_only` (= `Phil.lexicalGet_id_lt`, Phil/Proofs/VarsLemmas.lean) says that such
  a lookup only finds objects with a strictly smaller id.  Hence, transitively, every consulted id is
  strictly smaller than the id of the definition that was resolved. -/

/-- **Only earlier definitions are consulted.**  Every id returned by `resolveRefs fuel chain id words`
    is strictly smaller than `id`. -/
theorem resolveRefs_are_earlier : ∀ (fuel : Nat) (chain : Chain) (id : Nat) (words : List Word),
    ∀ i ∈ resolveRefs fuel chain id words, i < id := by
  intro fuel
  induction fuel with
  | zero => intro chain id words i hi; simp [resolveRefs] at hi
  | succ fuel ih =>
    intro chain id words i hi
    unfold resolveRefs at hi
    rw [List.mem_flatMap] at hi
    obtain ⟨w, _, hi⟩ := hi
    split at hi
    · cases hi
    · split at hi
      · cases hi
      · rw [List.mem_flatMap] at hi
        obtain ⟨f, _, hi⟩ := hi
        split at hi
        · cases hi
        · split at hi
          · rename_i m ws ch hget
            split at hi
            · rename_i sid hsid
              have hlt : sid < id := lexicalGet_id_lt _ _ _ _ _ _ _ sid hget hsid
              rw [List.mem_cons] at hi
              rcases hi with hi | hi
              · rw [hi]; exact hlt
              · exact Nat.lt_trans (ih ch sid ws i hi) hlt
            · cases hi
          · cases hi

/-- the ids recorded on `o` as consulted are all strictly smaller than `o`'s own id -/
def RefsEarlier (o : Obj) : Prop := ∀ i ∈ srcRefs o, ∀ id, o.meta.id = some id → i < id

theorem RefsEarlier.of_none {o : Obj} (h : o.meta.varRes = none) : RefsEarlier o := by
  intro i hi
  rw [srcRefs_of_varRes_none o h] at hi
  cases hi

/-- `x` occurs in `l` at any depth (enabled or not) -/
inductive Occurs (x : Obj) : List Obj → Prop
  | here {l : List Obj} : x ∈ l → Occurs x l
  | deeper {l : List Obj} {m : Meta} {kids : List Obj} : Obj.scope m kids ∈ l → Occurs x kids → Occurs x l

theorem Occurs.of_activeIn {x : Obj} {l : List Obj} (h : ActiveIn x l) : Occurs x l := by
  induction h with
  | here hm _ => exact .here hm
  | deeper hm _ _ ih => exact .deeper hm ih

theorem occurs_flatten {x : Obj} {ss : List (List Obj)} (h : Occurs x ss.flatten) :
    ∃ s ∈ ss, Occurs x s := by
  cases h with
  | here hm =>
    obtain ⟨s, hs, hx⟩ := List.mem_flatten.mp hm
    exact ⟨s, hs, .here hx⟩
  | deeper hm hk =>
    obtain ⟨s, hs, hx⟩ := List.mem_flatten.mp hm
    exact ⟨s, hs, .deeper hx hk⟩

/-- **`preResolve` records earlier ids only.**  If the recorded references of the input are earlier
    (in particular if nothing is recorded, as in a parser output), so are those of the output. -/
theorem preResolveList_refs_earlier (env : Env) (diff : Bool) (total : Nat) :
    ∀ (fuel : Nat) (outer : Chain) (objs : List Obj), (∀ x, Occurs x objs → RefsEarlier x) →
      ∀ x, Occurs x (preResolveList env diff total fuel outer objs) → RefsEarlier x := by
  intro fuel
  induction fuel with
  | zero => intro outer objs h x hx; exact h x hx
  | succ fuel ih =>
    intro outer objs h x hx
    unfold preResolveList at hx
    -- the image of one object
    have himg : ∀ o ∈ objs, ∀ y,
        y = (match o with
          | .defn m ws =>
            if !hasLiveDollar ws then o else
            (match m.id with
             | none => o
             | some id =>
               let res : VarRes := match resolveWords env (total + 2) (objs :: outer) id ws diff with
                 | .ok rws => .ok rws (resolveRefs (total + 2) (objs :: outer) id ws)
                 | .error (.runtime site line) => .err site line
                 | .error _ => .err "unsupported" none
               .defn { m with varRes := some res } ws)
          | .scope m kids => .scope m (preResolveList env diff total fuel (objs :: outer) kids)) →
        RefsEarlier y ∧
        (∀ m' kids', y = .scope m' kids' → ∃ kids, Obj.scope m' kids ∈ objs ∧
            kids' = preResolveList env diff total fuel (objs :: outer) kids) := by
      intro o ho y hy
      cases o with
      | scope m kids =>
        simp only at hy
        subst hy
        refine ⟨?_, ?_⟩
        · exact h (.scope m kids) (.here ho)
        · intro m' kids' heq
          cases heq
          exact ⟨kids, ho, rfl⟩
      | defn m ws =>
        simp only at hy
        split at hy
        · subst hy
          exact ⟨h _ (.here ho), by intro m' kids' heq; cases heq⟩
        · split at hy
          · subst hy
            exact ⟨h _ (.here ho), by intro m' kids' heq; cases heq⟩
          · rename_i id hid
            subst hy
            refine ⟨?_, by intro m' kids' heq; cases heq⟩
            intro i hi id' hid'
            simp only [Obj.meta] at hid'
            rw [hid] at hid'
            cases hid'
            unfold srcRefs at hi
            simp only [Obj.meta] at hi
            split at hi
            · rename_i rws refs heq
              simp only [Option.some.injEq] at heq
              split at heq
              · cases heq
                exact resolveRefs_are_earlier _ _ _ _ i hi
              · cases heq
              · cases heq
            · cases hi
    cases hx with
    | here hm =>
      rw [List.mem_map] at hm
      obtain ⟨o, ho, hxo⟩ := hm
      exact (himg o ho x hxo.symm).1
    | deeper hm hk =>
      rw [List.mem_map] at hm
      obtain ⟨o, ho, hxo⟩ := hm
      obtain ⟨kids, hkids, hk'⟩ := (himg o ho _ hxo.symm).2 _ _ rfl
      rw [hk'] at hk
      exact ih _ kids (fun y hy => h y (.deeper hkids hy)) x hk

theorem preResolve_refs_earlier (env : Env) (diff : Bool) (root : List Obj)
    (h : ∀ x, Occurs x root → RefsEarlier x) :
    ∀ x, Occurs x (preResolve env diff root) → RefsEarlier x :=
  preResolveList_refs_earlier env diff _ _ _ root h

/-- **Marks of a fetch from pre-resolved documents.**  Let every source be the `preResolve` image of
    a document whose recorded references are earlier (e.g. none recorded).  Then every consumed id
    is marked on account of an enabled source definition `d`: it is `d`'s own id, or it was
    consulted for `d` and is strictly smaller than `d`'s id — only EARLIER definitions (of `d`'s
    document) are ever marked as consulted. -/
theorem fetchRoot_used_own_or_earlier (e : Envs) (env : Env) (diff : Bool) (master : List Obj)
    (docs : List (List Obj)) (hdocs : ∀ s ∈ docs, ∀ x, Occurs x s → RefsEarlier x)
    (ro : Obj) (used : List Nat)
    (h : fetchRoot e diff master (docs.map (preResolve env diff)) = .ok (ro, used)) :
    ∀ i ∈ used, ∃ d, ActiveIn d (docs.map (preResolve env diff)).flatten ∧ d.isDefn = true ∧
      (d.meta.id = some i ∨ (i ∈ srcRefs d ∧ ∀ id, d.meta.id = some id → i < id)) := by
  intro i hi
  obtain ⟨d, ha, hd, hm⟩ := fetchRoot_used_are_source_ids e diff master _ ro used h i hi
  refine ⟨d, ha, hd, ?_⟩
  rcases hm with hm | hm
  · exact .inl hm
  · right
    refine ⟨hm, ?_⟩
    obtain ⟨s, hs, hocc⟩ := occurs_flatten (Occurs.of_activeIn ha)
    rw [List.mem_map] at hs
    obtain ⟨s0, hs0, rfl⟩ := hs
    exact preResolve_refs_earlier env diff s0 (hdocs s0 hs0) d hocc i hm

end Phil.C06
