/-
  C06 — Every source definition is either consumed or reported as unused.
    "With tracking on, `fetch` reports exactly the source definitions it did not use; tracking does
     not change the result."

  Model: Phil/Fetch.lean.  The `.tmp` marks of the implementation are the list `used` returned by
  `fetchScope`/`fetchRoot` next to the result (ids of the source definitions that were fetched);
  the harness (Main.lean) reports `all_definitions(sources)` minus `used`.  Lemmas and auxiliary
  definitions (`ActiveIn`, `DefnIdActive`) are in Phil/Proofs/FetchLemmas.lean.

  Proved here (all masters, all sources, both modes, all fuel):
    * soundness of the marks: an id is marked only if it is the id of an *enabled definition* of
      the sources reached through enabled scopes only (so nothing outside the sources, no scope and
      no disabled object is ever marked), and such an id is the id of an entry of
      `all_definitions(sources)` (or of a definition called `include`, which that list skips);
    * the reported list and the marks partition `all_definitions` by construction;
    * tracking is transparent.
  Not proved here: the exact characterisation of the unused list by master paths (`unused_exact`
  of the design) — checked by the harness.
-/
import Phil.Proofs.FetchLemmas
set_option linter.unusedVariables false
namespace Phil.C06
open Phil

/-- **Marks are sound (`scope.fetch`).**  Every consumed id is the id of an enabled definition that
    occurs in the sources below enabled scopes only. -/
theorem used_are_source_ids (e : Envs) (fuel : Nat) (diff : Bool) (sm : Meta) (mkids combined : List Obj)
    (ro : Obj) (used : List Nat) (h : fetchScope e fuel diff sm mkids combined = .ok (ro, used)) :
    ∀ i ∈ used, ∃ d, ActiveIn d combined ∧ d.isDefn = true ∧ d.meta.id = some i :=
  Phil.used_are_source_ids e fuel diff sm mkids combined ro used h

/-- **Marks are sound (`master.fetch(sources)`).** -/
theorem fetchRoot_used_are_source_ids (e : Envs) (diff : Bool) (master : List Obj)
    (ss : List (List Obj)) (ro : Obj) (used : List Nat)
    (h : fetchRoot e diff master ss = .ok (ro, used)) :
    ∀ i ∈ used, DefnIdActive i ss.flatten :=
  Phil.used_are_source_ids e _ diff _ master ss.flatten ro used h

/-- `ActiveIn` spelled out: membership at the top level, or below an enabled scope. -/
theorem activeIn_iff (x : Obj) (l : List Obj) :
    ActiveIn x l ↔ (x ∈ l ∧ x.meta.disabled = false) ∨
      ∃ m kids, Obj.scope m kids ∈ l ∧ m.disabled = false ∧ ActiveIn x kids := by
  constructor
  · intro h
    cases h with
    | here hm hd => exact .inl ⟨hm, hd⟩
    | deeper hm hd hk => exact .inr ⟨_, _, hm, hd, hk⟩
  · rintro (⟨hm, hd⟩ | ⟨m, kids, hm, hd, hk⟩)
    · exact .here hm hd
    · exact .deeper hm hd hk

/-- **Consumed ids occur in `all_definitions`.**  A consumed id is the id of an entry of
    `all_definitions(sources)` — unless it belongs to an enabled definition called `include`, which
    `all_definitions` skips. -/
theorem used_in_allDefinitions (e : Envs) (diff : Bool) (master : List Obj)
    (ss : List (List Obj)) (ro : Obj) (used : List Nat)
    (h : fetchRoot e diff master ss = .ok (ro, used)) :
    ∀ i ∈ used, (∃ d ∈ allDefinitions ss.flatten, d.2.1.id = some i) ∨
      (∃ m ws, ActiveIn (.defn m ws) ss.flatten ∧ m.name = "include".toList ∧ m.id = some i) :=
  fun i hi => defnIdActive_allDefinitions (fetchRoot_used_are_source_ids e diff master ss ro used h i hi)

/-- the list reported by `fetch(track_unused_definitions=True)`: the entries of `all_definitions`
    whose id was not marked (Main.lean computes exactly this) -/
def unusedOf (sources : List Obj) (used : List Nat) : List (Str × Meta × List Word) :=
  (allDefinitions sources).filter (fun d => match d.2.1.id with | some i => !used.contains i | none => true)

/-- **Consumed or reported.**  Every entry of `all_definitions(sources)` is reported as unused or
    has a consumed id — never both. -/
theorem consumed_or_unused (sources : List Obj) (used : List Nat) (d : Str × Meta × List Word)
    (hd : d ∈ allDefinitions sources) :
    (d ∈ unusedOf sources used ∧ ∀ i, d.2.1.id = some i → i ∉ used) ∨
    (d ∉ unusedOf sources used ∧ ∃ i, d.2.1.id = some i ∧ i ∈ used) := by
  unfold unusedOf
  cases hid : d.2.1.id with
  | none =>
    left
    refine ⟨List.mem_filter.mpr ⟨hd, by simp [hid]⟩, ?_⟩
    intro i hi; cases hi
  | some i =>
    by_cases hu : i ∈ used
    · right
      refine ⟨?_, i, rfl, hu⟩
      intro hmem
      have := (List.mem_filter.mp hmem).2
      simp [hid, hu] at this
    · left
      refine ⟨List.mem_filter.mpr ⟨hd, by simp [hid, hu]⟩, ?_⟩
      intro j hj; cases hj; exact hu

/-- **Tracking is transparent.**  The result object of `master.fetch(sources)` is computed by the
    same call that computes the marks; projecting the marks away leaves a function of the inputs. -/
theorem tracking_transparent (e : Envs) (diff : Bool) (master : List Obj) (ss : List (List Obj)) :
    (fetchRoot e diff master ss).map (·.1) =
      (fetchScope e ((master.foldl (fun a k => Nat.max a (depthObj 1000 k)) 0) + 3) diff
        { name := [], id := some 0 } master ss.flatten).map (·.1) :=
  Phil.tracking_transparent e diff master ss

/-! ### non-vacuity -/

/-- master `a = 1 .type=int ; s { b = x }`, source `a = 2 ; a = 1 ; z = 1 ; s { !b = y ; b = z }`:
    consumed are the two `a` and the enabled `s.b`; the unknown `z` is reported; the disabled `b`
    is not in `all_definitions` at all. -/
example :
    (match fetchRoot env12 false
        [.defn { name := ['a'], id := some 1, attrs := [("type", .conv (.int {}))] } [{ value := ['1'] }],
         .scope { name := ['s'], id := some 2 } [.defn { name := ['b'], id := some 3 } [{ value := ['x'] }]]]
        [[.defn { name := ['a'], id := some 11 } [{ value := ['2'] }],
          .defn { name := ['a'], id := some 12 } [{ value := ['1'] }],
          .defn { name := ['z'], id := some 13 } [{ value := ['1'] }],
          .scope { name := ['s'], id := some 14 }
            [.defn { name := ['b'], id := some 15, disabled := true } [{ value := ['y'] }],
             .defn { name := ['b'], id := some 16 } [{ value := ['z'] }]]]] with
     | .ok (_, used) => some (used, (unusedOf
         [.defn { name := ['a'], id := some 11 } [{ value := ['2'] }],
          .defn { name := ['a'], id := some 12 } [{ value := ['1'] }],
          .defn { name := ['z'], id := some 13 } [{ value := ['1'] }],
          .scope { name := ['s'], id := some 14 }
            [.defn { name := ['b'], id := some 15, disabled := true } [{ value := ['y'] }],
             .defn { name := ['b'], id := some 16 } [{ value := ['z'] }]]] used).map (·.1))
     | .error _ => none) = some ([11, 12, 16], [['z']]) := by
  decide +kernel

end Phil.C06
